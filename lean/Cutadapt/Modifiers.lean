import Cutadapt.Records
import Cutadapt.Qualtrim
/-! Model of `src/cutadapt/modifiers.py`: every read modifier as a function on immutable values. Counters are
    emitted as `Event`s (the code's `+= 1` updates; statistics are folds over the event log, see `Stats.lean`).
    Core Lean only. -/
namespace Cutadapt
open Cutadapt.Adapters Cutadapt.Qualtrim

inductive Err where
  | attribute      -- AttributeError (e.g. `LinkedMatch` has no `rstart`)
  | assertion      -- a Python `assert` failed
  | value          -- ValueError
  | key            -- KeyError
  | cmdline        -- CommandLineError → exit status 2
  | template       -- InvalidTemplate raised while renaming (paired-end read ids differ after renaming)
deriving Repr, BEq, DecidableEq, Inhabited

inductive Action where
  | trim | mask | lowercase | retain | crop | none
deriving Repr, BEq, DecidableEq, Inhabited

structure Cutter where
  adapters : List Matchable
  times : Nat
  action : Action

/-- `ModificationInfo` -/
structure Info where
  mts : List AnyMatch := []
  original : Read
  cutPrefix : Option Bytes := none
  cutSuffix : Option Bytes := none
  isRc : Option Bool := none
deriving Inhabited

/-- side: 0 = R1 / single-end, 1 = R2 -/
inductive Event where
  | input (bp1 : Nat) (bp2 : Option Nat)          -- one read (pair) entered the pipeline
  | qualTrimmed (side n : Nat)                    -- `trimmed_bases += n` of a (NextSeq)QualityTrimmer
  | polyA (side n : Nat)                          -- `trimmed_bases[n] += 1` of a PolyATrimmer
  | withAdapter (side : Nat)                      -- `with_adapters += 1`
  | revComp                                       -- `reverse_complemented += 1` of the (Paired)ReverseComplementer
  | matched (side : Nat) (m : AnyMatch) (rc : Bool)  -- `stats.add_match(match)`; `stats.reverse_complemented += rc`
  | filtered (step : Nat)                         -- `_filtered += 1` of pipeline step number `step`
  | write (writer : Nat) (r1 : Read) (r2 : Option Read)   -- record writer `writer` received a read (pair)
  | sinkStat (step : Nat) (len1 : Nat) (len2 : Option Nat) -- `ReadLengthStatistics.update(2)` of a sink/demultiplexer
  | text (file : Nat) (line : Bytes)              -- a line printed to the rest/info/wildcard file
deriving Repr, BEq, Inhabited

def upperBytes (s : Bytes) : Bytes := s.map asciiUpper
def asciiLower (c : UInt8) : UInt8 := if 65 ≤ c ∧ c ≤ 90 then c + 32 else c
def lowerBytes (s : Bytes) : Bytes := s.map asciiLower

/-! ### AdapterCutter -/

/-- the loop `for _ in range(self.times)` of `match_and_trim` -/
def rounds (ads : List Matchable) : Nat → Read → List AnyMatch → Read × List AnyMatch
  | 0, rd, acc => (rd, acc.reverse)
  | t+1, rd, acc =>
    match bestMatch ads rd.seq with
    | none => (rd, acc.reverse)
    | some m => rounds ads t (m.trimmed rd) (m :: acc)

def maskedRead (read : Read) (ms : List AnyMatch) : Read :=
  let (start, stop) := remainder ms
  { read with seq := List.replicate start 78 ++ seg read.seq start stop ++ List.replicate (read.len - stop) 78 }

def lowercasedRead (read : Read) (ms : List AnyMatch) : Read :=
  let (start, stop) := remainder ms
  { read with seq := lowerBytes (read.seq.take start) ++ upperBytes (seg read.seq start stop) ++ lowerBytes (read.seq.drop stop) }

/-- `AdapterCutter.match_and_trim`. Returns the (possibly) modified read, the matches, and the input read as the
    call leaves it (the `lowercase` action upper-cases the caller's object in place). -/
def matchAndTrim (c : Cutter) (read : Read) : Except Err (Read × List AnyMatch × Read) :=
  if c.times == 1 && c.action == .trim then
    -- `_match_and_trim_once_action_trim`
    match bestMatch c.adapters read.seq with
    | some m => .ok (m.trimmed read, [m], read)
    | none => .ok (read, [], read)
  else
    let read := if c.action == .lowercase then { read with seq := upperBytes read.seq } else read
    let (tr, ms) := rounds c.adapters c.times read []
    match ms.getLast? with
    | none => .ok (tr, [], read)
    | some last =>
      match c.action with
      | .trim => .ok (tr, ms, read)
      | .retain => let (a, b) := last.retainedAdapterInterval; .ok (read.sub a b, ms, read)
      | .mask => .ok (maskedRead read ms, ms, read)
      | .lowercase => .ok (lowercasedRead read ms, ms, read)
      | .crop =>
        match last with
        | .single _ r => .ok (read.sub r.m.rstart r.m.rstop, ms, read)
        | .linked _ _ _ => .error .attribute       -- `LinkedMatch` has no `rstart`
      | .none => .ok (read, ms, read)

def scoreSum (ms : List AnyMatch) : Int := (ms.map AnyMatch.score).sum

/-! ### Single-end modifiers -/

/-- a template of `Renamer` after `tokenize_braces`: literal text or a placeholder -/
inductive Tok where
  | lit (s : Bytes)
  | var (name : String)
deriving Repr, BEq, Inhabited

inductive SMod where
  | cut (n : Int)
  | nextseq (cutoff base : Int)
  | qtrim (cf cb base : Int)
  | adapters (c : Cutter) (first : Bool)        -- `first`: no earlier modifier, so the read object is `info.original_read`
  | revcomp (c : Cutter) (suffix : Bool) (first : Bool)
  | polyA (revcomp : Bool)
  | shorten (n : Int)
  | trimN
  | lengthTag (tag : Bytes)
  | stripSuffix (s : Bytes)
  | prefixSuffix (p s : Bytes)
  | zeroCap (base : Nat)
  | rename (tmpl : List Tok)

def isWordChar (c : UInt8) : Bool := (48 ≤ c && c ≤ 57) || (65 ≤ c && c ≤ 90) || (97 ≤ c && c ≤ 122) || c == 95
def isDigit (c : UInt8) : Bool := 48 ≤ c && c ≤ 57

def natToBytes (n : Nat) : Bytes := (toString n).toUTF8.toList

/-- `re.sub(r"\b" + tag + r"[0-9]*\b", tag + str(n), name)` for a tag of literal characters.
    `prev` = previous character (for `\b`). Structural recursion on the remaining text with explicit fuel = length. -/
def lengthTagSub (tag repl : Bytes) : Nat → Option UInt8 → Bytes → Bytes
  | 0, _, rest => rest
  | fuel+1, prev, rest =>
    match rest with
    | [] => []
    | c :: cs =>
      let startsHere := tag.isPrefixOf rest && !tag.isEmpty &&
        -- `\b` before the first tag character
        ((prev.map isWordChar).getD false != isWordChar (tag.headD 0))
      if startsHere then
        let after := rest.drop tag.length
        let digits := after.takeWhile isDigit
        -- greedy `[0-9]*` then `\b`; backtracking over fewer digits never helps when the tag ends in a non-word character
        -- or the next character is a word character; we follow the regex: try longest first, then shorter
        let lastCh : UInt8 := (tag ++ digits).getLastD 0
        let rest' := after.drop digits.length
        let nextIsWord := (rest'.head?.map isWordChar).getD false
        if isWordChar lastCh != nextIsWord then
          repl ++ lengthTagSub tag repl fuel (some lastCh) rest'
        else c :: lengthTagSub tag repl fuel (some c) cs
      else c :: lengthTagSub tag repl fuel (some c) cs

def replaceAll (pat repl : Bytes) : Nat → Bytes → Bytes
  | 0, s => s
  | fuel+1, s =>
    match s with
    | [] => []
    | c :: cs => if !pat.isEmpty && pat.isPrefixOf s then repl ++ replaceAll pat repl fuel (s.drop pat.length)
                 else c :: replaceAll pat repl fuel cs

def bytesOfStr (s : String) : Bytes := s.toUTF8.toList

def isSpace (c : UInt8) : Bool := c == 32 || (9 ≤ c && c ≤ 13) || (28 ≤ c && c ≤ 31)
/-- `Renamer.parse_name`: `read_name.split(maxsplit=1)` -/
def parseName (name : Bytes) : Bytes × Bytes :=
  let s := name.dropWhile isSpace
  let id := s.takeWhile (fun c => !isSpace c)
  let rest := (s.dropWhile (fun c => !isSpace c)).dropWhile isSpace
  -- `split(maxsplit=1)` strips trailing whitespace of the remainder only when it is all whitespace (then one field)
  if rest.isEmpty then (name, []) else (id, rest)

def lastAdapterName (names : List String) (info : Info) : Bytes :=
  match info.mts.getLast? with
  | some m => bytesOfStr (names.getD m.adapter "")
  | none => bytesOfStr "no_adapter"

def renderTok (names : List String) (read : Read) (info : Info) : Tok → Except Err Bytes
  | .lit s => .ok s
  | .var "header" => .ok read.name
  | .var "id" => .ok (parseName read.name).1
  | .var "comment" => .ok (parseName read.name).2
  | .var "cut_prefix" => .ok (info.cutPrefix.getD [])
  | .var "cut_suffix" => .ok (info.cutSuffix.getD [])
  | .var "adapter_name" => .ok (lastAdapterName names info)
  | .var "rc" => .ok (if info.isRc == some true then bytesOfStr "rc" else [])
  | .var "match_sequence" => .ok ((info.mts.getLast?.map AnyMatch.matchSequence).getD [])
  | .var _ => .error .key

/-- `Renamer.variables` -/
def renamerVariables : List String :=
  ["header", "id", "comment", "cut_prefix", "cut_suffix", "adapter_name", "rc", "match_sequence"]

/-- `PairedEndRenamer._get_allowed_variables()`: everything but `rc`, plus `rn`, plus `r1.`/`r2.` forms of everything but `id` and `rc` -/
def pairedRenamerVariables : List String :=
  let base := renamerVariables.filter (· != "rc")
  let sub := renamerVariables.filter (fun v => v != "rc" && v != "id")
  base ++ ["rn"] ++ sub.map ("r1." ++ ·) ++ sub.map ("r2." ++ ·)

def tokVars (t : List Tok) : List String := t.filterMap fun | .var v => some v | .lit _ => none

/-- `raise_if_invalid_variable`: every placeholder of the template is an allowed variable (otherwise `InvalidTemplate`, which
    `cli.py` turns into a command-line error before any read is processed) -/
def renameVarsOK (paired : Bool) (t : List Tok) : Bool :=
  (tokVars t).all (fun v => (if paired then pairedRenamerVariables else renamerVariables).contains v)

/-- names of the adapters of the cutter that filled `info.mts` (needed by `{name}` / `{adapter_name}`) -/
abbrev Names := List String

def applyS (names : Names) (side : Nat) : SMod → Read → Info → Except Err (Read × Info × List Event)
  | .cut n, read, info =>
    if n > 0 then .ok (read.slice (some n) none, { info with cutPrefix := some (pySlice read.seq none (some n)) }, [])
    else if n < 0 then .ok (read.slice none (some n), { info with cutSuffix := some (pySlice read.seq (some n) none) }, [])
    else .error .value   -- `__call__` returns None for length 0; never constructed by the CLI
  | .nextseq cutoff base, read, info =>
    match read.qual with
    | none => .error .value    -- HasNoQualities
    | some q =>
      let stop := nextseqTrimIndex read.seq q cutoff base
      .ok (read.sub 0 stop, info, [.qualTrimmed side (read.len - stop)])
  | .qtrim cf cb base, read, info =>
    match read.qual with
    | none => .error .value
    | some q =>
      let (start, stop) := qualityTrimIndex q cf cb base
      .ok (read.sub start stop, info, [.qualTrimmed side (read.len - (stop - start))])
  | .adapters c first, read, info =>
    match matchAndTrim c read with
    | .error e => .error e
    | .ok (tr, ms, readAfter) =>
      let info := if first then { info with original := { info.original with seq := readAfter.seq } } else info
      let evs := if ms.isEmpty then [] else Event.withAdapter side :: ms.map (fun m => Event.matched side m false)
      .ok (tr, { info with mts := info.mts ++ ms }, evs)
  | .revcomp c suffix first, read, info =>
    match matchAndTrim c read with
    | .error e => .error e
    | .ok (ftr, fms, readAfter) =>
      -- `reverse_read` is computed before the forward call mutates `read`
      match matchAndTrim c read.revcomp with
      | .error e => .error e
      | .ok (rtr, rms, _) =>
        let info := if first then { info with original := { info.original with seq := readAfter.seq } } else info
        let useRc := !rms.isEmpty && scoreSum rms > scoreSum fms
        if useRc then
          let tr := if suffix then { rtr with name := rtr.name ++ bytesOfStr " rc" } else rtr
          .ok (tr, { info with isRc := some true, mts := info.mts ++ rms },
               Event.revComp :: Event.withAdapter side :: rms.map (fun m => Event.matched side m true))
        else
          let evs := if fms.isEmpty then [] else Event.withAdapter side :: fms.map (fun m => Event.matched side m false)
          .ok (ftr, { info with isRc := some false, mts := info.mts ++ fms }, evs)
  | .polyA rc, read, info =>
    let idx := polyATrimIndex read.seq rc
    if rc then .ok (read.dropFront idx, info, [.polyA side idx])
    else .ok (read.takeFront idx, info, [.polyA side (read.len - idx)])
  | .shorten n, read, info =>
    if n ≥ 0 then .ok (read.slice none (some n), info, []) else .ok (read.slice (some n) none, info, [])
  | .trimN, read, info =>
    let (a, e) := nEndIndices read.seq
    .ok (read.sub a e, info, [])
  | .lengthTag tag, read, info =>
    let name := lengthTagSub tag (tag ++ natToBytes read.len) read.name.length none read.name
    .ok ({ read with name := name }, info, [])
  | .stripSuffix s, read, info =>
    -- `name.endswith(suffix)`; `name[:-len(suffix)]` (for the empty suffix: `name[:-0]` = "")
    if s.isSuffixOf read.name then
      .ok ({ read with name := if s.isEmpty then [] else read.name.take (read.name.length - s.length) }, info, [])
    else .ok (read, info, [])
  | .prefixSuffix p s, read, info =>
    let an := lastAdapterName names info
    let pat := bytesOfStr "{name}"
    .ok ({ read with name := replaceAll pat an p.length p ++ read.name ++ replaceAll pat an s.length s }, info, [])
  | .zeroCap base, read, info =>
    .ok ({ read with qual := read.qual.map (fun q => q.map (fun c => if c.toNat < base then base.toUInt8 else c)) }, info, [])
  | .rename tmpl, read, info =>
    match tmpl.mapM (renderTok names read info) with
    | .error e => .error e
    | .ok parts => .ok ({ read with name := parts.flatten }, info, [])

end Cutadapt
