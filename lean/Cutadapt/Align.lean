import Cutadapt.Basic
import Cutadapt.Generated.Tables
/-! Functional model of `Aligner.locate`, `PrefixComparer.locate`, `SuffixComparer.locate`
    (`src/cutadapt/_align.pyx:298-714`). One DP column is a list; cells beyond `last` keep their stale value,
    the C local `origin` read by the last-column search is threaded through explicitly. Core Lean only. -/
namespace Cutadapt.Align
open Cutadapt.Generated

structure Entry where
  cost : Nat
  score : Int
  origin : Int
deriving Repr, BEq, Inhabited

structure Cfg where
  startInRef : Bool
  startInQuery : Bool
  stopInRef : Bool
  stopInQuery : Bool
  wildRef : Bool
  wildQuery : Bool
  indelCost : Nat
  minOverlap : Nat
  k : Nat                 -- <int>(max_error_rate * m)
  thr : Nat → Nat         -- ⌊fl(L * max_error_rate)⌋ : largest cost accepted at effective length L

/-- encoding of reference / query bytes, as `_set_reference` / `locate` do -/
def tr (t : Array UInt8) (c : UInt8) : UInt8 := t.getD c.toNat 0
def encodeRef (cfg : Cfg) (s : List UInt8) : List UInt8 :=
  if cfg.wildRef then s.map (tr iupacTable)
  else if cfg.wildQuery then s.map (tr acgtTable)
  else s
def encodeQuery (cfg : Cfg) (s : List UInt8) : List UInt8 :=
  if cfg.wildQuery then s.map (tr iupacTable)
  else if cfg.wildRef then s.map (tr acgtTable)
  else s.map (tr upperTable)
def compareAscii (cfg : Cfg) : Bool := !cfg.wildQuery && !cfg.wildRef
def charsEqual (ascii : Bool) (a b : UInt8) : Bool :=
  if ascii then a == b else (a &&& b) != 0

def isN (c : UInt8) : Bool := c == 78 || c == 110
/-- n_counts[i] = number of N in reference[:i] -/
def nCount (ref : List UInt8) (i : Nat) : Nat := ((ref.take i).filter isN).length

def initEntry (cfg : Cfg) (minN : Nat) (i : Nat) : Entry :=
  let c := cfg.indelCost
  match cfg.startInRef, cfg.startInQuery with
  | false, false => ⟨(max i minN) * c, (i : Int) * deletionScore, 0⟩
  | true,  false => ⟨minN * c, 0, min 0 ((minN : Int) - i)⟩
  | false, true  => ⟨i * c, (i : Int) * deletionScore, max 0 ((minN : Int) - i)⟩
  | true,  true  => ⟨(min i minN) * c, 0, (minN : Int) - i⟩

def cell (cfg : Cfg) (eq : Bool) (diag cur prev : Entry) : Entry :=
  if eq then ⟨diag.cost, diag.score + matchScore, diag.origin⟩
  else
    let cd := diag.cost + 1
    let ci := cur.cost + cfg.indelCost
    let cdel := prev.cost + cfg.indelCost
    if cd ≤ cdel && cd ≤ ci then ⟨cd, diag.score + mismatchScore, diag.origin⟩
    else if cdel ≤ ci then ⟨cdel, prev.score + deletionScore, prev.origin⟩
    else ⟨ci, cur.score + insertionScore, cur.origin⟩

/-- cells 1..last of the new column; cells beyond `last` keep their old (stale) value -/
def fillCells (cfg : Cfg) (ascii : Bool) (q : UInt8) (last : Nat) :
    (i : Nat) → (diag prevNew : Entry) → (ref : List UInt8) → (old : List Entry) → List Entry
  | i, diag, prevNew, r :: rs, cur :: olds =>
    if i ≤ last then
      let e := cell cfg (charsEqual ascii r q) diag cur prevNew
      e :: fillCells cfg ascii q last (i+1) cur e rs olds
    else cur :: olds
  | _, _, _, _, olds => olds

def stepColumn (cfg : Cfg) (ascii : Bool) (ref : List UInt8) (q : UInt8) (last : Nat) (col : List Entry) : List Entry :=
  match col with
  | [] => []
  | c0 :: rest =>
    let c0' : Entry := if cfg.startInQuery then ⟨c0.cost, c0.score, c0.origin + 1⟩
                       else ⟨c0.cost + cfg.indelCost, c0.score + insertionScore, c0.origin⟩
    c0' :: fillCells cfg ascii q last 1 c0 c0' ref rest

structure Best where
  origin : Int
  cost : Nat
  score : Int
  refStop : Nat
  queryStop : Nat
  found : Bool       -- models `best.cost != m + n + 1`
deriving Repr

/-- `while last >= 0 and column[last].cost > k: last -= 1` ; result is last+1 (so 0 encodes -1) -/
def shrinkLast (k : Nat) (col : List Entry) : Nat → Nat
  | 0 => if (col.getD 0 default).cost > k then 0 else 1
  | l+1 => if (col.getD (l+1) default).cost > k then shrinkLast k col l else l + 2

def effLen (cfg : Cfg) (ref : List UInt8) (m : Nat) (refStart refStop : Nat) (length : Nat) : Nat :=
  if cfg.wildRef then
    if length < m then length - (nCount ref refStop - nCount ref refStart)
    else m - nCount ref m
  else length

structure LoopState where
  col : List Entry
  last : Nat
  best : Best
  origin : Int        -- the C local `origin` (read, possibly stale, by the last-column search)
  lastFilled : Nat    -- `last_filled_i`
  done : Bool

def toNatI (x : Int) : Nat := x.toNat

def columnLoop (cfg : Cfg) (ascii : Bool) (refEnc ref : List UInt8) (m : Nat) (s : LoopState) (jq : Nat × UInt8) : LoopState :=
  if s.done then s else
  let (j, q) := jq
  let col := stepColumn cfg ascii refEnc q s.last s.col
  let s := { s with lastFilled := s.last }
  let origin := if s.last ≥ 1 then (col.getD s.last default).origin else s.origin
  let lastP := shrinkLast cfg.k col s.last       -- last+1 after the while loop
  if lastP < m + 1 then
    { s with col := col, last := lastP, origin := origin }
  else if cfg.stopInQuery then
    let e := col.getD m default
    let length : Nat := toNatI ((m : Int) + min e.origin 0)
    let refStart : Nat := toNatI (- (min e.origin 0))
    let eff := effLen cfg ref m refStart m length
    let acceptable := length ≥ cfg.minOverlap && e.cost ≤ cfg.thr eff
    let bestLength : Int := (m : Int) + min s.best.origin 0
    if acceptable && (!s.best.found
        || (e.origin ≤ s.best.origin + (m / 2 : Nat) && e.score > s.best.score)
        || ((length : Int) > bestLength && e.score > s.best.score)) then
      let best : Best := ⟨e.origin, e.cost, e.score, m, j, true⟩
      { s with col := col, last := m, best := best, origin := e.origin, done := (e.cost == 0 && e.origin ≥ 0) }
    else { s with col := col, last := m, origin := e.origin }
  else { s with col := col, last := m, origin := origin }

def lastColumnSearch (cfg : Cfg) (ref : List UInt8) (m n : Nat) (col : List Entry) (staleOrigin : Int) (firstI : Nat) :
    (i : Nat) → Best → Best := fun i best =>
  -- iterate i = start, start-1, ..., firstI
  let rec go : Nat → Nat → Best → Best
    | 0, _, best => best
    | fuel+1, i, best =>
      if i < firstI then best else
      let e := col.getD i default
      let length : Nat := toNatI ((i : Int) + min e.origin 0)
      let refStart : Nat := toNatI (- (min e.origin 0))
      let eff := effLen cfg ref m refStart i length
      let acceptable := length ≥ cfg.minOverlap && e.cost ≤ cfg.thr eff
      let bestLength : Int := (best.refStop : Int) + min best.origin 0
      let best' :=
        if acceptable && (!best.found
          || (staleOrigin ≤ best.origin + (m / 2 : Nat) && e.score > best.score)
          || ((length : Int) > bestLength && e.score > best.score)) then
          (⟨e.origin, e.cost, e.score, i, n, true⟩ : Best)
        else best
      if i == 0 then best' else go fuel (i-1) best'
  go (i+1) i best

def locate (cfg : Cfg) (refRaw queryRaw : List UInt8) : Option (Nat × Nat × Nat × Nat × Int × Nat) :=
  let ref := encodeRef cfg refRaw
  let query := encodeQuery cfg queryRaw
  let ascii := compareAscii cfg
  let m := ref.length
  let n := query.length
  let k := cfg.k
  let maxN := if !cfg.startInQuery then min n (m + k) else n
  let minN := if !cfg.stopInQuery then n - (m + k) else 0
  let col0 := (List.range (m+1)).map (initEntry cfg minN)
  let last0 := if cfg.startInRef then m else min m (k+1)
  let best0 : Best := ⟨0, m + n + 1, 0, m, n, false⟩
  let cols : List (Nat × UInt8) := ((List.range n).zip query).filterMap
      (fun (j0, q) => if minN ≤ j0 && j0 < maxN then some (j0+1, q) else none)
  let s0 : LoopState := ⟨col0, last0, best0, 0, 0, false⟩
  let s := cols.foldl (columnLoop cfg ascii ref refRaw m) s0
  -- last_filled_i: `last` used for the final processed column (0 if no column was processed)
  let best :=
    if maxN == n then
      let firstI := if cfg.stopInRef then 0 else m
      lastColumnSearch cfg refRaw m n s.col s.origin firstI s.lastFilled s.best
    else s.best
  if !best.found then none else
  let (refStart, queryStart) : Nat × Nat :=
    if best.origin ≥ 0 then (0, toNatI best.origin) else (toNatI (-best.origin), 0)
  some (refStart, best.refStop, queryStart, best.queryStop, best.score, best.cost)



/-- `Cfg` from the constructor arguments of `Aligner` (flags as the `EndSkip` bit set). -/
def mkCfg (flags : Nat) (wildRef wildQuery : Bool) (indelCost minOverlap : Nat) (thr : Nat → Nat) (m : Nat) : Cfg :=
  { startInRef := flags &&& 1 != 0, startInQuery := flags &&& 2 != 0, stopInRef := flags &&& 4 != 0,
    stopInQuery := flags &&& 8 != 0, wildRef := wildRef, wildQuery := wildQuery,
    indelCost := indelCost, minOverlap := minOverlap, k := thr m, thr := thr }

/-- number of mismatching positions among the first `min |r| |q|` (`PrefixComparer.locate` loops) -/
def mismatches (ascii : Bool) : List UInt8 → List UInt8 → Nat
  | r :: rs, q :: qs => (if charsEqual ascii r q then 0 else 1) + mismatches ascii rs qs
  | _, _ => 0

structure CmpCfg where
  wildRef : Bool
  wildQuery : Bool
  minOverlap : Nat
  thr : Nat → Nat

/-- `PrefixComparer.__init__`: `effective_length = m - (count('N') - count('n'))` when `wildcard_ref` -/
def cmpEffLen (c : CmpCfg) (ref : List UInt8) : Nat :=
  if c.wildRef then
    (ref.length : Int) - (((ref.filter (· == 78)).length : Int) - ((ref.filter (· == 110)).length : Int)) |>.toNat
  else ref.length

/-- encoding of the comparer's reference (`UPPER_TABLE` in the plain case, unlike `Aligner`) -/
def cmpEncodeRef (c : CmpCfg) (s : List UInt8) : List UInt8 :=
  if c.wildRef then s.map (tr iupacTable)
  else if c.wildQuery then s.map (tr acgtTable)
  else s.map (tr upperTable)
def cmpEncodeQuery (c : CmpCfg) (s : List UInt8) : List UInt8 :=
  if c.wildQuery then s.map (tr iupacTable)
  else if c.wildRef then s.map (tr acgtTable)
  else s.map (tr upperTable)

/-- `PrefixComparer.locate` -/
def comparePrefix (c : CmpCfg) (refRaw queryRaw : List UInt8) : Option (Nat × Nat × Nat × Nat × Int × Nat) :=
  let ref := cmpEncodeRef c refRaw
  let query := cmpEncodeQuery c queryRaw
  let ascii := !c.wildQuery && !c.wildRef
  let length := min ref.length query.length
  let errors := mismatches ascii ref query
  let maxK := c.thr (cmpEffLen c refRaw)
  if errors > maxK || length < c.minOverlap then none
  else some (0, length, 0, length, ((length - errors : Nat) : Int) * matchScore + (errors : Int) * mismatchScore, errors)

/-- `SuffixComparer.locate` (constructed from the reversed reference) -/
def compareSuffix (c : CmpCfg) (refRaw queryRaw : List UInt8) : Option (Nat × Nat × Nat × Nat × Int × Nat) :=
  match comparePrefix c refRaw.reverse queryRaw.reverse with
  | none => none
  | some (_, length, _, _, score, errors) =>
    some (refRaw.length - length, refRaw.length, queryRaw.length - length, queryRaw.length, score, errors)

end Cutadapt.Align
