import Cutadapt.Basic
/-! # Model of `runners.py`: the multi-core protocol as a labelled transition system. Core Lean only.

`ReaderProcess`, `WorkerProcess`, `OrderedChunkWriter`, `ParallelPipelineRunner.run` / `_try_receive` and, as the trivial
schedule, `SerialPipelineRunner`. The model is generic in the per-chunk processing function:

* `chunks : List Chunk` — the pieces into which the reader (dnaio's chunker) splits the input, `Chunk` abstract;
* `readerFault` — the chunker raises after having produced `chunks` (`ReaderProcess.run`, `except Exception`);
* `process : Chunk → Except Fault (List Bytes × Stats)` — the serial pipeline run on one chunk with fresh proxy buffers:
  one byte string per output file in the fixed file order (`_send_outfiles` drains `proxy_files` in order) plus that
  chunk's statistics; `error` = the parser (or anything else) raised inside the worker;
* `add`, `zero` — `Statistics.__iadd__` and `Statistics()`.

Assumptions (DESIGN §8): a pipe delivers messages whole and in FIFO order and never blocks the sender; the queue is
FIFO; `multiprocessing.connection.wait` may return any non-empty set of ready connections in any order (so *any* worker
with a non-empty outbox may be served next); a worker's final `Statistics` is the sum of the statistics its chunks give
with fresh counters (`Statistics.collect` is additive in the modifier/step counters).  The handshake on
`file_format_connection` (before any worker exists) is outside the transition system: if it fails, `__init__` raises in
the main process (`_try_receive`) and no worker is ever started.

Several-part messages (`send(index); send(n); send_bytes…`) are one message in the model; the linearisation points used
by the trace validation are: queue `put` (`workerRequest`), the reader's first `send` of a chunk / pill (`readerSend`,
`readerPill`), the reader's first `-2` (`readerFault`), the worker's `recv` of a header and its first `send` of a result
or error (`workerStep`), the main process's `recv` of a header (`mainRecv`). -/
namespace Cutadapt.Runner

/-! ## `OrderedChunkWriter` -/

/-- `_chunks` (dict: index ↦ data), `_current_index`, and the bytes written to `_outfile` so far -/
structure Writer where
  pending : List (Nat × Bytes) := []
  current : Nat := 0
  written : Bytes := []
deriving Repr, Inhabited

def lookup : List (Nat × Bytes) → Nat → Option Bytes
  | [], _ => none
  | (k, d) :: r, i => if k = i then some d else lookup r i

/-- `del d[i]` -/
def remove (p : List (Nat × Bytes)) (i : Nat) : List (Nat × Bytes) := p.filter (fun e => e.1 != i)

/-- `d[i] = data` (an existing entry is overwritten) -/
def insert (p : List (Nat × Bytes)) (i : Nat) (d : Bytes) : List (Nat × Bytes) := (i, d) :: remove p i

/-- `while self._current_index in self._chunks: write; del; += 1` — every iteration deletes one entry, so
    `pending.length` iterations suffice (`flush_complete` in `Proofs/RunnerWriter.lean`). -/
def Writer.flush : Nat → Writer → Writer
  | 0, w => w
  | fuel + 1, w =>
    match lookup w.pending w.current with
    | none => w
    | some d => Writer.flush fuel { pending := remove w.pending w.current, current := w.current + 1, written := w.written ++ d }

/-- `OrderedChunkWriter.write(data, index)` -/
def Writer.write (w : Writer) (data : Bytes) (index : Nat) : Writer :=
  let p := insert w.pending index data
  Writer.flush p.length { w with pending := p }

/-- `wrote_everything()` -/
def Writer.wroteEverything (w : Writer) : Bool := w.pending.isEmpty

/-! ## Messages, phases, configuration -/

/-- what travels from the reader to a worker: a chunk (`index`, `send_bytes` × n), `-1`, or `-2` + exception -/
inductive InMsg where
  | chunk (i : Nat)
  | pill
  | readerError
deriving DecidableEq, Repr, Inhabited

/-- what travels from a worker to the main process: `index, n_reads, bytes per file`; `-1, stats`; `-2, (e, tb)` -/
inductive OutMsg (Stats : Type) where
  | result (i : Nat) (data : List Bytes)
  | done (stats : Stats)
  | workerError
deriving Repr, Inhabited

/-- where a worker is in `WorkerProcess.run`: about to `put` its id (`idle`), blocked in `recv` (`requested`),
    inside `process_reads` for chunk `i`, returned normally (`finished`), returned through `except` (`failed`) -/
inductive Phase where
  | idle
  | requested
  | processing (i : Nat)
  | finished
  | failed
deriving DecidableEq, Repr, Inhabited

/-- main process: still in the `while connections` loop / returned `stats` / raised -/
inductive Outcome where
  | running
  | ok
  | failed
deriving DecidableEq, Repr, Inhabited

/-- exit status of `cli.main` (`sys.exit(1)` for the listed exception classes, Python's 1 for an uncaught one) -/
def Outcome.exitStatus : Outcome → Option Nat
  | .running => none
  | .ok => some 0
  | .failed => some 1

structure Config (Chunk Stats Fault : Type) where
  nWorkers : Nat
  chunks : List Chunk
  readerFault : Bool
  process : Chunk → Except Fault (List Bytes × Stats)
  add : Stats → Stats → Stats
  zero : Stats

structure Worker (Stats : Type) where
  inbox : List InMsg
  outbox : List (OutMsg Stats)
  phase : Phase
  stats : Stats
  /-- the chunk in whose processing the worker raised (it is never completed) -/
  lost : Option Nat := none

structure State (Stats : Type) where
  /-- reader: index of the next chunk (`enumerate`) -/
  next : Nat
  /-- reader: poison pills sent in `shutdown` -/
  pills : Nat
  /-- reader: went through `except Exception` -/
  rfailed : Bool
  /-- `need_work_queue` -/
  queue : List Nat
  workers : Nat → Worker Stats
  /-- `connections` of `ParallelPipelineRunner.run`: worker `w`'s connection has not been removed -/
  isOpen : Nat → Bool
  /-- one `OrderedChunkWriter` per binary output file -/
  writers : Nat → Writer
  /-- chunk indices whose result the main process has received (newest first) -/
  received : List Nat
  mstats : Stats
  outcome : Outcome

inductive Action where
  | workerRequest (w : Nat)
  | readerSend
  | readerPill
  | readerFault
  | workerStep (w : Nat)
  | mainRecv (w : Nat)
  | mainFinish
deriving DecidableEq, Repr, Inhabited

variable {Chunk Stats Fault : Type}

def init (cfg : Config Chunk Stats Fault) : State Stats where
  next := 0
  pills := 0
  rfailed := false
  queue := []
  workers := fun _ => { inbox := [], outbox := [], phase := .idle, stats := cfg.zero }
  isOpen := fun _ => true
  writers := fun _ => {}
  received := []
  mstats := cfg.zero
  outcome := .running

def State.setW (s : State Stats) (w : Nat) (W : Worker Stats) : State Stats :=
  { s with workers := fun v => if v = w then W else s.workers v }

/-- every connection removed, every worker returned, the reader past `shutdown`: `join` does not block -/
def allDone (cfg : Config Chunk Stats Fault) (s : State Stats) : Bool :=
  (List.range cfg.nWorkers).all (fun w => !s.isOpen w && (s.workers w).phase == .finished) && s.pills == cfg.nWorkers

/-- One atomic step of one process; `none` = the action is not enabled.  After the main process has returned or raised
    (`outcome ≠ running`) nothing is enabled: on `raise` it has terminated every child, on normal return all have exited. -/
def step (cfg : Config Chunk Stats Fault) (s : State Stats) : Action → Option (State Stats)
  | .workerRequest w =>
    -- `self._need_work_queue.put(self._id)` — before *every* receive, also after the last chunk
    if s.outcome = .running ∧ w < cfg.nWorkers ∧ (s.workers w).phase = .idle then
      some { s.setW w { s.workers w with phase := .requested } with queue := s.queue ++ [w] }
    else none
  | .readerSend =>
    -- `send_to_worker`: `worker_index = self.queue.get()`; `connection.send(chunk_index)`; `send_bytes…`
    if s.outcome = .running ∧ s.rfailed = false ∧ s.next < cfg.chunks.length then
      match s.queue with
      | [] => none
      | w :: q =>
        some { s.setW w { s.workers w with inbox := (s.workers w).inbox ++ [.chunk s.next] } with queue := q, next := s.next + 1 }
    else none
  | .readerPill =>
    -- `shutdown`: exactly `len(connections)` pills, each to whoever asks next
    if s.outcome = .running ∧ s.rfailed = false ∧ cfg.readerFault = false ∧ s.next = cfg.chunks.length ∧ s.pills < cfg.nWorkers then
      match s.queue with
      | [] => none
      | w :: q =>
        some { s.setW w { s.workers w with inbox := (s.workers w).inbox ++ [.pill] } with queue := q, pills := s.pills + 1 }
    else none
  | .readerFault =>
    -- the chunker raises: `for connection in self.connections: connection.send(-2); connection.send((e, tb))`
    if s.outcome = .running ∧ s.rfailed = false ∧ cfg.readerFault = true ∧ s.next = cfg.chunks.length then
      some { s with rfailed := true,
                    workers := fun v => if v < cfg.nWorkers then { s.workers v with inbox := (s.workers v).inbox ++ [.readerError] } else s.workers v }
    else none
  | .workerStep w =>
    if s.outcome = .running ∧ w < cfg.nWorkers then
      let W := s.workers w
      match W.phase with
      | .requested =>
        -- `chunk_index = self._read_pipe.recv()`
        match W.inbox with
        | [] => none
        | .chunk i :: rest => some (s.setW w { W with inbox := rest, phase := .processing i })
        | .pill :: rest =>
          -- `break`; final `collect`; `send(-1)`; `send(stats)`
          some (s.setW w { W with inbox := rest, phase := .finished, outbox := W.outbox ++ [.done W.stats] })
        | .readerError :: rest =>
          -- `raise e` lands in the worker's own `except`: `send(-2)`; `send((e, tb))`
          some (s.setW w { W with inbox := rest, phase := .failed, outbox := W.outbox ++ [.workerError] })
      | .processing i =>
        match cfg.chunks[i]? with
        | none => none
        | some c =>
          match cfg.process c with
          | .ok (d, st) =>
            -- `process_reads`; `stats += …`; `_send_outfiles(chunk_index, n)`
            some (s.setW w { W with phase := .idle, stats := cfg.add W.stats st, outbox := W.outbox ++ [.result i d] })
          | .error _ =>
            some (s.setW w { W with phase := .failed, outbox := W.outbox ++ [.workerError], lost := some i })
      | _ => none
    else none
  | .mainRecv w =>
    -- `wait(connections)` returned a set containing `w`'s connection; `_try_receive(connection)`
    if s.outcome = .running ∧ w < cfg.nWorkers ∧ s.isOpen w = true then
      let W := s.workers w
      match W.outbox with
      | [] => none
      | .result i d :: rest =>
        some { s.setW w { W with outbox := rest } with
               writers := fun f => (s.writers f).write (d.getD f []) i, received := i :: s.received }
      | .done st :: rest =>
        some { s.setW w { W with outbox := rest } with
               mstats := cfg.add s.mstats st, isOpen := fun v => if v = w then false else s.isOpen v }
      | .workerError :: rest =>
        -- terminate all children, re-raise
        some { s.setW w { W with outbox := rest } with outcome := .failed }
    else none
  | .mainFinish =>
    -- `while connections` ended; `assert writer.wrote_everything()`; `join` workers and reader; return stats.
    -- The assertion never fails (`C06.parallel_equals_serial`: every writer has `wroteEverything`) and `join` never
    -- blocks (`allDone`: every worker has returned, the reader has sent all pills), so the outcome is `ok`.
    if s.outcome = .running ∧ allDone cfg s = true then
      some { s with outcome := .ok }
    else none

/-- replay a list of actions; `none` if one of them is not enabled -/
def run (cfg : Config Chunk Stats Fault) : State Stats → List Action → Option (State Stats)
  | s, [] => some s
  | s, a :: as => match step cfg s a with
    | none => none
    | some s' => run cfg s' as

/-- states reachable from `init` -/
inductive Reachable (cfg : Config Chunk Stats Fault) : State Stats → Prop where
  | init : Reachable cfg (init cfg)
  | step {s s' a} : Reachable cfg s → step cfg s a = some s' → Reachable cfg s'

def Terminal (s : State Stats) : Prop := s.outcome ≠ .running

/-- a fault action has occurred: the reader went through `except`, or some worker did -/
def Faulted (cfg : Config Chunk Stats Fault) (s : State Stats) : Prop :=
  s.rfailed = true ∨ ∃ w, w < cfg.nWorkers ∧ (s.workers w).phase = .failed

/-! ## Outputs of the chunks, the serial runner -/

/-- result of processing chunk `i` (if it exists and does not fault) -/
def outOf (cfg : Config Chunk Stats Fault) (i : Nat) : Option (List Bytes × Stats) :=
  match cfg.chunks[i]? with
  | none => none
  | some c => match cfg.process c with
    | .ok r => some r
    | .error _ => none

/-- bytes chunk `i` contributes to file `f` -/
def outData (cfg : Config Chunk Stats Fault) (i f : Nat) : Bytes :=
  match outOf cfg i with
  | some (d, _) => d.getD f []
  | none => []

/-- statistics of chunk `i` -/
def outStats (cfg : Config Chunk Stats Fault) (i : Nat) : Stats :=
  match outOf cfg i with
  | some (_, st) => st
  | none => cfg.zero

/-- `data 0 ++ … ++ data (k-1)` -/
def concatRange (data : Nat → Bytes) : Nat → Bytes
  | 0 => []
  | k + 1 => concatRange data k ++ data k

/-- `((zero + st 0) + st 1) + … + st (k-1)` -/
def sumRange (add : Stats → Stats → Stats) (zero : Stats) (st : Nat → Stats) : Nat → Stats
  | 0 => zero
  | k + 1 => add (sumRange add zero st k) (st k)

structure SerialResult (Stats : Type) where
  /-- number of chunks processed completely -/
  done : Nat
  written : Nat → Bytes
  stats : Stats
  outcome : Outcome

/-- `SerialPipelineRunner`: one process reads, processes and writes the chunks in order; the first fault aborts
    (what has been written stays; `cli.main` closes the files in `finally` and exits with status 1). -/
def serialGo (cfg : Config Chunk Stats Fault) : List Chunk → SerialResult Stats → SerialResult Stats
  | [], r => { r with outcome := if cfg.readerFault then .failed else .ok }
  | c :: cs, r =>
    match cfg.process c with
    | .error _ => { r with outcome := .failed }
    | .ok (d, st) =>
      serialGo cfg cs { done := r.done + 1, written := fun f => r.written f ++ d.getD f [], stats := cfg.add r.stats st, outcome := .running }

def serialRun (cfg : Config Chunk Stats Fault) : SerialResult Stats :=
  serialGo cfg cfg.chunks { done := 0, written := fun _ => [], stats := cfg.zero, outcome := .running }

/-! ## A small explorer (sanity check of the model, not a proof) -/

def allActions (n : Nat) : List Action :=
  [.readerSend, .readerPill, .readerFault, .mainFinish] ++
  (List.range n).flatMap (fun w => [.workerRequest w, .workerStep w, .mainRecv w])

def enabled (cfg : Config Chunk Stats Fault) (s : State Stats) : List Action :=
  (allActions cfg.nWorkers).filter (fun a => (step cfg s a).isSome)

structure ExploreResult where
  traces : Nat := 0
  okEnds : Nat := 0
  failedEnds : Nat := 0
  stuck : Nat := 0
  badOutput : Nat := 0
  maxLen : Nat := 0
deriving Repr

/-- Depth-first enumeration of *all* maximal action sequences (no state merging; only for tiny instances).
    `good s` is checked at every terminal state with outcome `ok`. -/
partial def exploreFrom (cfg : Config Chunk Stats Fault) (good : State Stats → Bool) (s : State Stats) (len : Nat)
    (acc : ExploreResult) : ExploreResult :=
  match enabled cfg s with
  | [] =>
    let acc := { acc with traces := acc.traces + 1, maxLen := max acc.maxLen len }
    match s.outcome with
    | .running => { acc with stuck := acc.stuck + 1 }
    | .ok => { acc with okEnds := acc.okEnds + 1, badOutput := acc.badOutput + (if good s then 0 else 1) }
    | .failed => { acc with failedEnds := acc.failedEnds + 1 }
  | as => as.foldl (fun acc a => match step cfg s a with
      | some s' => exploreFrom cfg good s' (len + 1) acc
      | none => acc) acc

def explore (cfg : Config Chunk Stats Fault) (good : State Stats → Bool) : ExploreResult :=
  exploreFrom cfg good (init cfg) 0 {}

/-- concrete instance used by the driver and the examples: chunk = its index, one byte (the index) per file,
    statistics = `2^index` (the sum shows which chunks were merged); the chunks listed in `faulty` make the worker raise -/
def toyConfig (nWorkers nChunks : Nat) (faulty : List Nat) (readerFault : Bool) (nFiles : Nat := 1) : Config Nat Nat Unit where
  nWorkers := nWorkers
  chunks := List.range nChunks
  readerFault := readerFault
  process := fun c => if faulty.contains c then .error () else .ok ((List.range nFiles).map (fun f => [c.toUInt8, f.toUInt8]), 2 ^ c)
  add := (· + ·)
  zero := 0

end Cutadapt.Runner
