import Cutadapt.Proofs.RunnerSerial
/-! # C06 — multi-core runs give the single-core result under every schedule

Model: `Cutadapt/Runner.lean` — a labelled transition system for `runners.py` (`ReaderProcess`, `WorkerProcess`,
`OrderedChunkWriter`, `ParallelPipelineRunner.run`), generic in the per-chunk processing function `process`, and
`serialRun` for the one-process loop.  All theorems hold for every number of workers `≥ 1`, every list of chunks (every
`--buffer-size`), every `process`, and every sequence of actions (`Reachable`: induction over traces with the inductive
invariants `RunInv`, `SafeInv`, `StatsInv` of `Proofs/Runner*.lean`).  The order of merging statistics is irrelevant under the
hypothesis `IsCommMonoid add zero` (`Statistics.__iadd__` is associative and commutative with `Statistics()` neutral; the
harness validates this on real `Statistics` objects). -/
namespace Cutadapt.C06
open Cutadapt Cutadapt.Runner

variable {Chunk Stats Fault : Type}

/-! ## `OrderedChunkWriter` -/

/-- **`ordered_writer`**: feeding the pairs `(data i, i)`, `i < N`, each exactly once, in any order (`feed` is a
    permutation of `0 … N-1`) leaves nothing pending and writes `data 0 ++ … ++ data (N-1)`. -/
theorem ordered_writer (data : Nat → Bytes) (N : Nat) (feed : List Nat) (h : feed.Perm (List.range N)) :
    (feedAll data feed).pending = [] ∧ (feedAll data feed).written = concatRange data N := by
  have hnd : feed.Nodup := h.nodup_iff.mpr List.nodup_range
  have hi := feedAll_inv data feed {} _ (WInv.init data) hnd (fun _ _ hf => hf)
  have hc := hi.complete (N := N) (fun i => by
    simp only [or_false]
    rw [h.mem_iff, List.mem_range])
  exact ⟨hc.2.1, hc.2.2⟩

/-- After any part of the feed (any duplicate-free list of indices), the bytes written are `data 0 ++ … ++ data (k-1)`
    where `k = current` is the largest `k` such that `0 … k-1` have all arrived: a prefix ending at a chunk boundary. -/
theorem ordered_writer_prefix (data : Nat → Bytes) (arrived : List Nat) (h : arrived.Nodup) :
    let w := feedAll data arrived
    w.written = concatRange data w.current ∧ (∀ i, i < w.current → i ∈ arrived) ∧ w.current ∉ arrived := by
  have hi := feedAll_inv data arrived {} _ (WInv.init data) h (fun _ _ hf => hf)
  refine ⟨hi.written, fun i hlt => ?_, fun hc => hi.flushed (Or.inl hc)⟩
  rcases hi.below i hlt with h1 | h1
  · exact h1
  · exact h1.elim

/-- three chunks arriving in the order 2, 0, 1 -/
example : (feedAll (fun i => [i.toUInt8]) [2, 0, 1]).written = [0, 1, 2] ∧ (feedAll (fun i => [i.toUInt8]) [2, 0]).written = [0] ∧
    (feedAll (fun i => [i.toUInt8]) [2]).written = [] := by decide

/-! ## The protocol -/

/-- **`each_chunk_once`**: in every reachable state (running or stopped) every chunk index below the reader's position
    occurs exactly once — in some worker's inbox, being processed by some worker (or lost in a worker that raised while
    processing it), as a result in some worker's outbox, or in the main process's received set — and no other index
    occurs anywhere. -/
theorem each_chunk_once (cfg : Config Chunk Stats Fault) (hn : 0 < cfg.nWorkers) {s : State Stats} (hr : Reachable cfg s) (i : Nat) :
    sumW cfg.nWorkers (fun w => ((s.workers w).inbox.count (.chunk i) + cntProc i (s.workers w).phase + cntRes i (s.workers w).outbox
        + (if (s.workers w).lost = some i then 1 else 0))) + s.received.count i
      = if i < s.next then 1 else 0 :=
  reachable_once hn hr i

/-- no result is ever received twice -/
theorem received_nodup (cfg : Config Chunk Stats Fault) (hn : 0 < cfg.nWorkers) {s : State Stats} (hr : Reachable cfg s) :
    s.received.Nodup := by
  rw [List.nodup_iff_count]
  intro i
  have := reachable_once hn hr i
  split at this <;> omega

/-- **`parallel_equals_serial`**: every terminal state in which the main process returned normally (exit status 0) has,
    for every output file, exactly the bytes of the serial run, and the merged statistics are those of the serial run;
    the serial run succeeds as well, and the `assert writer.wrote_everything()` holds. -/
theorem parallel_equals_serial (cfg : Config Chunk Stats Fault) (hn : 0 < cfg.nWorkers) (hm : IsCommMonoid cfg.add cfg.zero)
    {s : State Stats} (hr : Reachable cfg s) (hok : s.outcome = .ok) :
    (serialRun cfg).outcome = .ok ∧ (∀ f, (s.writers f).written = (serialRun cfg).written f) ∧
    s.mstats = (serialRun cfg).stats ∧ (∀ f, (s.writers f).wroteEverything = true) := by
  obtain ⟨hsafe, _, hend⟩ := reachable_inv hn hr
  have hf := hend.ok hok
  have hst := reachable_stats hm hn hr
  have hmem : ∀ i, i ∈ s.received ↔ i < cfg.chunks.length := by
    intro i
    have := hf.all i
    rw [← List.count_pos_iff]
    split at this <;> rename_i hi <;> simp only [hi, iff_true, iff_false] <;> omega
  have hS := serialRun_spec cfg
  have hdone : (serialRun cfg).done = cfg.chunks.length := by
    rcases Nat.lt_or_ge (serialRun cfg).done cfg.chunks.length with hlt | hge
    · have h1 := hS.stopped hlt
      have h2 := hsafe.recvOk _ ((hmem _).mpr hlt)
      rw [h1] at h2; cases h2
    · have := hS.done_le; omega
  refine ⟨hS.ok_iff.mpr ⟨hdone, hf.noReaderFault⟩, fun f => ?_, ?_, fun f => ?_⟩
  · have := (hsafe.writers f).complete hmem
    rw [this.2.2, hS.written f, hdone]
  · -- statistics: everything has been merged, nothing is left in the workers or the outboxes
    unfold StatsInv at hst
    have h1 : sumS cfg.add cfg.zero cfg.nWorkers (pend cfg s) = cfg.zero :=
      sumS_zero hm (fun v hv => by simp [pend, hf.closed v hv])
    have h2 : sumS cfg.add cfg.zero cfg.nWorkers (outRes cfg s) = cfg.zero :=
      sumS_zero hm (fun v hv => by simp [outRes, hf.drained v hv, resStats])
    rw [h1, h2, hm.add_zero, hm.add_zero] at hst
    rw [hst, wsum_perm hm _ (perm_range_of_count hf.all), wsum_range hm, hS.stats, hdone]
  · have := (hsafe.writers f).complete hmem
    simp [Writer.wroteEverything, this.2.1]

/-- **`no_deadlock`**: in every reachable state in which the main process is still in its loop some action is enabled. -/
theorem no_deadlock (cfg : Config Chunk Stats Fault) (hn : 0 < cfg.nWorkers) {s : State Stats} (hr : Reachable cfg s)
    (hrun : s.outcome = .running) : ∃ a s', step cfg s a = some s' := by
  obtain ⟨a, ha⟩ := enabled_of_running hn ((reachable_inv hn hr).2.1 hrun) hrun
  obtain ⟨s', hs'⟩ := Option.isSome_iff_exists.mp ha
  exact ⟨a, s', hs'⟩

/-- **`terminates`**: the measure (chunks unsent, pills unsent, the reader's pending fault, messages in flight, worker
    phases, main process running) strictly decreases with every action … -/
theorem terminates (cfg : Config Chunk Stats Fault) {s s' : State Stats} {a : Action} (hs : step cfg s a = some s') :
    measure cfg s' < measure cfg s :=
  measure_decreases hs

/-- … so every execution is finite: from `s` at most `measure s` actions can be taken. -/
theorem executions_finite (cfg : Config Chunk Stats Fault) {s s' : State Stats} (tr : List Action) (h : run cfg s tr = some s') :
    tr.length ≤ measure cfg s := by
  have := run_length_le tr h; omega

/-- Every maximal execution (one that cannot be extended) from the initial state ends with the main process stopped;
    if it returned normally the outputs are the serial ones. -/
theorem maximal_execution_ends (cfg : Config Chunk Stats Fault) (hn : 0 < cfg.nWorkers) (tr : List Action) {s : State Stats}
    (h : run cfg (init cfg) tr = some s) (hmax : ∀ a, step cfg s a = none) : s.outcome ≠ .running := by
  intro hrun
  obtain ⟨a, s', hs⟩ := no_deadlock cfg hn (reachable_run tr Reachable.init h) hrun
  rw [hmax a] at hs; cases hs

/-! ## A concrete instance: 2 workers, 3 chunks, one particular interleaving (results arrive in the order 1, 0, 2) -/

def exampleTrace : List Action :=
  [.workerRequest 1, .workerRequest 0, .readerSend, .readerSend, .workerStep 0, .workerStep 1, .workerStep 0, .workerStep 1,
   .mainRecv 0, .workerRequest 0, .readerSend, .mainRecv 1, .workerStep 0, .workerRequest 1, .readerPill, .workerStep 0,
   .workerRequest 0, .readerPill, .workerStep 1, .workerStep 0, .mainRecv 1, .mainRecv 0, .mainRecv 0, .mainFinish]

example : (run (toyConfig 2 3 [] false) (init (toyConfig 2 3 [] false)) exampleTrace).map
      (fun s => ((s.writers 0).written, s.received, s.mstats, s.outcome))
    = some ([0, 0, 1, 0, 2, 0], [2, 0, 1], 7, .ok) := by decide

example : ((serialRun (toyConfig 2 3 [] false)).written 0, (serialRun (toyConfig 2 3 [] false)).stats) = ([0, 0, 1, 0, 2, 0], 7) := by
  decide

/-- the hypotheses are satisfiable: natural numbers under addition (the statistics of `toyConfig`) -/
theorem natAdd_isCommMonoid : IsCommMonoid (fun a b : Nat => a + b) 0 :=
  ⟨Nat.add_assoc, Nat.add_comm, Nat.zero_add⟩

/-- the main theorem instantiated: EVERY schedule of 2 workers over 3 chunks that ends normally has written chunks 0, 1, 2 in
    order and merged the statistics of all three -/
example (s : State Nat) (hr : Reachable (toyConfig 2 3 [] false) s) (hok : s.outcome = .ok) :
    (s.writers 0).written = [0, 0, 1, 0, 2, 0] ∧ s.mstats = 7 := by
  obtain ⟨_, h2, h3, _⟩ := parallel_equals_serial (toyConfig 2 3 [] false) (by decide) natAdd_isCommMonoid hr hok
  refine ⟨(h2 0).trans (by decide), h3.trans (by decide)⟩

end Cutadapt.C06
