import Cutadapt.Proofs.RunnerWriter
/-! # C06 — multi-core runs give the single-core result under every schedule (work in progress: writer part) -/
namespace Cutadapt.C06
open Cutadapt Cutadapt.Runner

/-- **`OrderedChunkWriter`**: feeding the pairs `(data i, i)`, `i < N`, each exactly once, in any order (`feed` is a
    permutation of `0 … N-1`) leaves nothing pending and writes `data 0 ++ … ++ data (N-1)`. -/
theorem ordered_writer (data : Nat → Bytes) (N : Nat) (feed : List Nat) (h : feed.Perm (List.range N)) :
    (feedAll data feed).pending = [] ∧ (feedAll data feed).written = concatRange data N := by
  have hnd : feed.Nodup := h.nodup_iff.mpr List.nodup_range
  have hi := feedAll_inv data feed {} _ (WInv.init data) hnd (fun _ _ hf => hf)
  have hc := hi.complete (N := N) (fun i => by
    simp only [or_false]
    rw [h.mem_iff, List.mem_range])
  exact ⟨hc.2.1, hc.2.2⟩

/-- After any part of the feed (any duplicate-free list of indices), the bytes written are `data 0 ++ … ++ data (k-1)`
    where `k = current` is the largest `k` such that `0 … k-1` have all arrived: a prefix ending at a chunk boundary. -/
theorem ordered_writer_prefix (data : Nat → Bytes) (arrived : List Nat) (h : arrived.Nodup) :
    let w := feedAll data arrived
    w.written = concatRange data w.current ∧ (∀ i, i < w.current → i ∈ arrived) ∧ w.current ∉ arrived := by
  have hi := feedAll_inv data arrived {} _ (WInv.init data) h (fun _ _ hf => hf)
  refine ⟨hi.written, fun i hlt => ?_, fun hc => hi.flushed (Or.inl hc)⟩
  rcases hi.below i hlt with h1 | h1
  · exact h1
  · exact h1.elim

end Cutadapt.C06
