import Cutadapt.Generated.Tolerance
import Cutadapt.Proofs.KmerOverlap
/-! # C07 — the k-mer prefilter never changes which adapter match is found

Model: `Cutadapt.Kmer` (`kmer_heuristic.py`, `_kmer_finder.pyx`, `_make_kmer_finder` and `_kmer_finder()` of the adapter
classes). `Kmer.matchToFiltered a read beyond` is `match_to` as coded (prefilter, then aligner); `Adapters.matchTo a read`
is the aligner alone (what `MockKmerFinder` gives).

History. On the tree as first examined the property failed in five ways: (i) anchored / non-internal adapters with indels,
(ii) `anywhere` adapters on reads inside the adapter, (iii) 5' windows read past the end of short reads, (iv) NUL bytes in the
read against `N` wildcards, (v) regular adapters that allow two or more errors. (i), (v) were repaired by 8c49284 (every
overlap window is widened by the errors allowed at its level when indels are on), (iii) by d940092 (`stop` clamped); the model
follows the repaired code. (ii) was repaired by the `ShortReadsPassKmerFinder` wrapper (adapters whose finder searches both
overlap directions do not show reads shorter than `|adapter| + ⌊rate·|adapter|⌋` to the finder): `anywhere_short_read_repaired`.
(iv) remains (known finding): `prefilter_unsafe_witness`, `prefilter_not_safe`.

Proved: the bit-parallel search is exact (`shift_and_correct`, `shift_and_correct_entry`, `kmers_present_spec`), the verdict
does not depend on memory behind the read (`kmers_present_ignores_beyond`), `kmer_chunks` meets its specification, the
pigeonhole argument, absence of the `NotImplementedError` path, every overlap level is safe on its own
(`overlap_level_safe`), and **`prefilter_safe_partial`: for every ASCII read without NUL bytes (`Kmer.asciiNoNul`) `match_to`
with the prefilter equals the aligner alone, for all eight adapter classes (and `;anywhere`), reads of every length, any number
of errors and indels.** The check evaluates `asciiNoNul` on every oracle failure: all lie outside. -/
namespace Cutadapt.C07
open Cutadapt Cutadapt.Spec Cutadapt.Kmer Cutadapt.Adapters Cutadapt.Align Cutadapt.Generated

/-! ## The bit-parallel search -/

/-- **`shift_and_multiple_is_present` is exact (one mask).** For non-empty words of total length ≤ 64 packed into one
    mask (needle masks, init mask and found mask as `KmerFinder.__cinit__` builds them), the loop over a window returns
    true iff one of the words occurs in the window under the table relation `m`. -/
theorem shift_and_correct (m : UInt8 → UInt8 → Bool) (ws : List Bytes) (hne : ∀ w ∈ ws, w ≠ [])
    (hlen : ws.flatten.length ≤ 64) (window : Bytes) :
    shiftAnd (maskFrom m ws.flatten 0) (initMaskFrom ws 0) (foundMaskFrom ws 0) window 0 = true ↔
      ∃ w ∈ ws, ∃ i, OccursAt m w window i :=
  shiftAnd_correct m ws hne hlen window

example : shiftAnd (maskFrom (· == ·) ([[65, 67], [71]] : List Bytes).flatten 0) (initMaskFrom [[65, 67], [71]] 0)
    (foundMaskFrom [[65, 67], [71]] 0) [84, 84, 65, 67, 84] 0 = true := by decide +kernel
example : shiftAnd (maskFrom (· == ·) ([[65, 67], [71]] : List Bytes).flatten 0) (initMaskFrom [[65, 67], [71]] 0)
    (foundMaskFrom [[65, 67], [71]] 0) [84, 65, 84, 67, 84] 0 = false := by decide +kernel

/-- **… for an entry whose k-mers are split over several masks** (`packWords` = the greedy packing of `__cinit__`):
    some mask reports a hit iff some k-mer of the entry occurs in the window. -/
theorem shift_and_correct_entry (m : UInt8 → UInt8 → Bool) (kmers : List Bytes) (hne : ∀ k ∈ kmers, k ≠ [])
    (hlen : ∀ k ∈ kmers, k.length ≤ 64) (window : Bytes) :
    (packWords kmers).any (fun ws =>
      shiftAnd (maskFrom m ws.flatten 0) (initMaskFrom ws 0) (foundMaskFrom ws 0) window 0) = true ↔
    ∃ k ∈ kmers, ∃ i, OccursAt m k window i :=
  packWords_any_correct m kmers hne hlen window

example : (packWords (List.replicate 3 (List.replicate 30 (65 : UInt8)))).length = 2 := by decide +kernel

/-- **`kmers_present` as a whole.** For a finder built from `entries` (no empty k-mer), the verdict is true iff some
    k-mer of some entry occurs, under `matches_lookup(ref_wildcards, query_wildcards)`, inside the window that the
    entry's `(start, stop)` selects — of the read (`haystack (read ++ beyond) st len` never reaches `beyond`, see `kmers_present_ignores_beyond`). -/
theorem kmers_present_spec {entries : List Kmer.Entry} {ms : List MaskEntry} (h : mkFinder entries = some ms)
    (hne : ∀ e ∈ entries, ∀ k ∈ e.kmers, k ≠ []) (wr wq : Bool) (read beyond : Bytes) :
    kmersPresent (.masks wr wq ms) read beyond = true ↔
    ∃ e ∈ entries, ∃ st len, windowOf e.start (e.stop.getD 0) read.length = some (st, len) ∧
      ∃ k ∈ e.kmers, ∃ i, OccursAt (kmerMatches wr wq) k (haystack (read ++ beyond) st len) i :=
  kmersPresent_iff h hne wr wq read beyond

/-- window arithmetic, as coded: the last 3 characters; from 0 to the end; a 5' window of 6 on a read of 4 (clamped since
    d940092); a 3' window longer than the read is clamped to the read -/
example : windowOf (-3) 0 10 = some (7, 3) ∧ windowOf 0 0 10 = some (0, 10) ∧ windowOf 0 6 4 = some (0, 4) ∧
    windowOf (-6) 0 4 = some (0, 4) ∧ windowOf 0 (-2) 2 = none := by decide +kernel

/-! ## `kmer_chunks` -/

/-- **`kmer_chunks(s, c)`** for `1 ≤ c ≤ |s|`: the chunks, in order, concatenate to `s`; there are `c` of them; each has
    `⌊|s|/c⌋` or `⌊|s|/c⌋ + 1` characters (sizes differ by at most one); none is empty; and the returned set has exactly
    these members. -/
theorem kmer_chunks_spec (s : Bytes) (c : Nat) (h1 : 1 ≤ c) (h2 : c ≤ s.length) :
    (kmerChunksList s c).flatten = s ∧ (kmerChunksList s c).length = c ∧
    (∀ w ∈ kmerChunksList s c, w.length = s.length / c ∨ w.length = s.length / c + 1) ∧
    (∀ w ∈ kmerChunksList s c, w ≠ []) ∧
    (∀ w, w ∈ kmerChunks s c ↔ w ∈ kmerChunksList s c) := by
  obtain ⟨a, b, c', d⟩ := kmerChunksList_spec s c h1 h2
  exact ⟨a, b, c', d, fun _ => mem_kmerChunks⟩

/-- the docstring's example: `AABCABCABC`, 3 ↦ `{"AABC", "ABC"}` -/
example : kmerChunksList [65, 65, 66, 67, 65, 66, 67, 65, 66, 67] 3 = [[65, 65, 66, 67], [65, 66, 67], [65, 66, 67]] ∧
    kmerChunks [65, 65, 66, 67, 65, 66, 67, 65, 66, 67] 3 = [[65, 65, 66, 67], [65, 66, 67]] := by decide +kernel

/-! ## Pigeonhole -/

/-- **Pigeonhole for edit scripts.** If a script `sc` costs at most `e` (indel cost ≥ 1) and its adapter side `lhs sc` is cut
    into `e + 1` consecutive chunks `cs`, then some chunk is consumed entirely by zero-cost `sub` operations: it occurs,
    under the relation `eq`, in the read side `rhs sc`, at an offset that differs from its offset in `lhs sc` by at most the
    number of indels of `sc`. -/
theorem pigeonhole_script (eq : Sym → Sym → Bool) (c : Nat) (hc : 1 ≤ c) (sc : List Op) (e : Nat)
    (hcost : cost eq c sc ≤ e) (cs : List (List Sym)) (hcs : cs.flatten = lhs sc) (hlen : cs.length = e + 1) :
    ∃ j ch o', cs[j]? = some ch ∧ OccursAt eq ch (rhs sc) o' ∧
      o' ≤ (cs.take j).flatten.length + indels sc ∧ (cs.take j).flatten.length ≤ o' + indels sc :=
  Spec.pigeonhole_script eq c hc sc e hcost cs hcs hlen

/-- `AC|GT` against `AGGT` (one mismatch): the chunk `GT` survives at the same offset -/
example : ∃ (j : Nat) (ch : List Sym) (o' : Nat), ([[65, 67], [71, 84]] : List (List Sym))[j]? = some ch ∧
    OccursAt (· == ·) ch (rhs [.sub 65 65, .sub 67 71, .sub 71 71, .sub 84 84]) o' := by
  obtain ⟨j, ch, o', h1, h2, _⟩ := pigeonhole_script (· == ·) 1 (Nat.le_refl 1)
    [.sub 65 65, .sub 67 71, .sub 71 71, .sub 84 84] 1 (by decide) [[65, 67], [71, 84]] (by decide) (by decide)
  exact ⟨j, ch, o', h1, h2⟩

/-! ## The tables -/

/-- `create_positions_and_kmers` never takes the `NotImplementedError` path of `minimize_kmer_search_list`
    (back searches have `stop = None`, front searches have `start = 0`). -/
theorem positions_never_error (adapter : Bytes) (mo : Nat) (thr : Nat → Nat) (b f i ind : Bool) :
    ∃ entries, createPositionsAndKmers adapter mo thr b f i ind = .ok entries :=
  createPositionsAndKmers_ok adapter mo thr b f i ind

/-- `minimize_kmer_search_list` itself does raise for a k-mer searched at two positions one of which is in the middle -/
example : (minimizeKmerSearchList [([65], (2, some 5)), ([65], (0, some 3))]).toOption = none := by decide +kernel

/-- the internal entry `(0, None)` of an adapter with an internal search set holds exactly the chunks of the whole adapter -/
theorem internal_entry {adapter : Bytes} {mo : Nat} {thr : Nat → Nat} {b f ind : Bool} {entries : List Kmer.Entry}
    (h : createPositionsAndKmers adapter mo thr b f true ind = .ok entries) (hmo : 1 ≤ mo) (k : Bytes) :
    (∃ e ∈ entries, e.start = 0 ∧ e.stop = none ∧ k ∈ e.kmers) ↔ k ∈ kmerChunksList adapter (thr adapter.length + 1) :=
  entry_zero_none_iff h hmo k

/-- `create_positions_and_kmers("AAAAATTTTT", 3, 0.1, back_adapter=True, front_adapter=False)` (`⌊L/10⌋` for `int(L·0.1)`);
    the back search `(-9, None, {"AAAAA"})` is absorbed by the internal search `(0, None)` -/
example : (createPositionsAndKmers [65, 65, 65, 65, 65, 84, 84, 84, 84, 84] 3 (· / 10) true false true false).toOption =
    some [⟨-4, none, [[65, 65, 65, 65]]⟩, ⟨-3, none, [[65, 65, 65]]⟩,
          ⟨0, none, [[65, 65, 65, 65, 65], [84, 84, 84, 84, 84]]⟩] := by decide +kernel

/-- with indels the window of a level is widened by the errors allowed there (8c49284): `SuffixAdapter("GCGGAAT", 0.2)`
    (one error at length 7) searches `GCGG`/`AAT` in the last 7 + 1 characters, without indels in the last 7 -/
example : (createPositionsAndKmers [71, 67, 71, 71, 65, 65, 84] 7 (· / 5) true false false true).toOption =
    some [⟨-8, none, [[65, 65, 84], [71, 67, 71, 71]]⟩] ∧
    (createPositionsAndKmers [71, 67, 71, 71, 65, 65, 84] 7 (· / 5) true false false false).toOption =
    some [⟨-7, none, [[65, 65, 84], [71, 67, 71, 71]]⟩] := by decide +kernel

/-! ## The verdict is a function of the read -/

/-- **Since d940092 the verdict of `kmers_present` does not depend on what lies behind the read in memory.** -/
theorem kmers_present_ignores_beyond (f : Finder) (read b1 b2 : Bytes) :
    kmersPresent f read b1 = kmersPresent f read b2 :=
  kmersPresent_ignores_beyond f read b1 b2

/-- every window lies inside the sequence -/
theorem window_inside {start stop : Int} {n st len : Nat} (h : windowOf start stop n = some (st, len)) : st + len ≤ n :=
  windowOf_bound h

/-! ## Every overlap level is safe on its own -/

/-- **The cascade is not needed on the repaired tables.** Let a script align the adapter prefix `ad[:L]` (characters seen through
    `f`), `min_overlap ≤ L ≤ |ad|`, with the text suffix `T[rs:]` at cost at most `thr L` (`thr` as for a rate below 1), and
    let its number of indels be at most the slack of the level (`thr L` with indels, 0 without). Then some search set of
    `create_back_overlap_searchsets(ad, min_overlap, rate, indels)` has a non-empty k-mer, made of adapter characters, that
    occurs in `T` (under `eq`, through `f`) entirely inside that set's window `[|T| + start, |T|)`.
    (The 5' direction is the same statement for the reversed adapter and text.) -/
theorem overlap_level_safe {thr : Nat → Nat} (hthr : ThrOK thr) (ad : Bytes) (mo : Nat) (hmo : 1 ≤ mo) (ind : Bool)
    (eq : Sym → Sym → Bool) (c : Nat) (hc : 1 ≤ c) (f : Sym → Sym) (T : List Sym) (rs L : Nat)
    (hL1 : mo ≤ L) (hL2 : L ≤ ad.length) (s : List Op) (hl : lhs s = (ad.take L).map f) (hr : rhs s = T.drop rs)
    (hrs : rs ≤ T.length) (hcost : cost eq c s ≤ thr L) (hind : indels s ≤ (if ind then thr L else 0)) :
    ∃ S ∈ createBackOverlapSearchsets ad mo thr ind, S.stop = none ∧ ∃ k ∈ S.kmers, k ≠ [] ∧ (∀ a ∈ k, a ∈ ad) ∧ ∃ p,
      OccursAt eq (k.map f) T p ∧ (T.length : Int) + S.start ≤ p :=
  Kmer.overlap_level_safe hthr ad mo hmo ind eq c hc f T rs L hL1 hL2 s hl hr hrs hcost hind

/-- every overlap length from `min_overlap` on has a search set serving it (`Kmer.Serves`) -/
theorem overlap_levels_cover {thr : Nat → Nat} (h : ThrOK thr) (ad : Bytes) (indels : Bool) (mo : Nat) (hmo : 1 ≤ mo)
    (L : Nat) (h1 : mo ≤ L) (h2 : L ≤ ad.length) :
    ∃ S ∈ createBackOverlapSearchsets ad mo thr indels, Serves ad thr indels S L :=
  backSets_serves h ad indels mo hmo L h1 h2

/-- `int(i * 0.1)` for a 29-mer: the levels are (0, 9), (1, 19), (2, 29) -/
example : errorLengths (· / 10) 29 = [(0, 9), (1, 19), (2, 29)] := by decide +kernel

/-! ## The property -/

/-- invariants every adapter object has after `SingleAdapter.__init__` with a maximum error rate below 1:
    non-empty upper-case ASCII sequence without NUL; `thr L = ⌊fl(L·rate)⌋` starts at 0, is monotone, grows by at most one
    per step and stays below `L`; `1 ≤ min_overlap ≤ len(sequence)`, `= len(sequence)` for anchored adapters; without
    indels (indel cost 100000) the adapter is not longer than that cost -/
structure AdapterOK (a : Adapter) : Prop where
  seq_ok : ∀ c ∈ a.seq, c ≠ 0 ∧ c < 128 ∧ tr upperTable c = c
  thr_ok : ThrOK a.thr
  seq_ne : 1 ≤ a.seq.length
  overlap_pos : 1 ≤ a.minOverlap
  overlap_le : a.minOverlap ≤ a.seq.length
  anchored : isAnchored a.ty = true → a.minOverlap = a.seq.length
  noindel_len : a.indels = false → a.seq.length ≤ indelCostOff

/-- reads are ASCII (dnaio guarantees it) -/
def ReadOK (read : Bytes) : Prop := ∀ c ∈ read, c < 128

/-- **The property at full strength**: for every adapter with error rate below 1, every ASCII read and whatever lies
    behind the read in memory, `match_to` with the prefilter reports exactly what the aligner alone reports. -/
def prefilter_safe_statement : Prop :=
  ∀ a : Adapter, AdapterOK a → ∀ read beyond : Bytes, ReadOK read → matchToFiltered a read beyond = matchTo a read

def mkA (ty : AdapterType) (seq : Bytes) (thr : Nat → Nat) (mo : Nat) (aw : Bool) : Adapter :=
  { ty := ty
    seq := seq
    thr := thr
    minOverlap := mo
    readWildcards := false
    adapterWildcards := aw
    indels := true }

/-- (ii) `AnywhereAdapter("TTGT", max_errors=0.2, min_overlap=1)` -/
def w2 : Adapter := mkA .anywhere [84, 84, 71, 84] (· / 5) 1 false
/-- (iv) `BackAdapter("NACGTACGT", max_errors=0, min_overlap=3)` (wildcards in the adapter) -/
def w4 : Adapter := mkA .back [78, 65, 67, 71, 84, 65, 67, 71, 84] (fun _ => 0) 3 true
/-- `TTTT\0ACGTACGTGGGGGGGGGG` -/
def r4 : Bytes := [84, 84, 84, 84, 0, 65, 67, 71, 84, 65, 67, 71, 84, 71, 71, 71, 71, 71, 71, 71, 71, 71, 71]

/-- **Counterexample that remains** (known finding; replayed against the real code by the check):
    (iv) a NUL byte in the read matches the adapter's `N` wildcard in the aligner but nothing in the finder's tables
        (`matches_lookup` drops `\0`): regular 3' adapter `NACGTACGT`, read `TTTT\0ACGTACGTGGGGGGGGGG`. It lies outside `asciiNoNul`. -/
theorem prefilter_unsafe_witness :
    matchTo w4 r4 = some ⟨0, 9, 4, 13, 9, 0, false⟩ ∧ matchToFiltered w4 r4 [] = none ∧ asciiNoNul r4 = false := by
  decide +kernel

/-- former counterexample (ii): `anywhere` adapter `TTGT`, read `G` lying strictly inside the adapter — the k-mer finder alone
    still says no, but the read is shorter than `|adapter| + ⌊rate·|adapter|⌋ = 4` and bypasses it: the match is reported -/
theorem anywhere_short_read_repaired :
    kmersPresent (finderFor w2) [71] [] = false ∧ shortReadPasses w2 [71] = true ∧
    matchToFiltered w2 [71] [] = some ⟨2, 3, 0, 1, 1, 0, true⟩ ∧ matchTo w2 [71] = some ⟨2, 3, 0, 1, 1, 0, true⟩ := by
  decide +kernel

theorem w2_ok : AdapterOK w2 where
  seq_ok := by decide +kernel
  thr_ok := ⟨by decide, by intro x y h; simp only [w2, mkA]; omega, by intro x; simp only [w2, mkA]; omega,
             by intro L h; simp only [w2, mkA]; omega⟩
  seq_ne := by decide
  overlap_pos := by decide
  overlap_le := by decide
  anchored := by decide
  noindel_len := by decide

theorem w4_ok : AdapterOK w4 where
  seq_ok := by decide +kernel
  thr_ok := ⟨by decide, by intro x y h; simp only [w4, mkA]; omega, by intro x; simp only [w4, mkA]; omega,
             by intro L h; simp only [w4, mkA]; omega⟩
  seq_ne := by decide
  overlap_pos := by decide
  overlap_le := by decide
  anchored := by decide
  noindel_len := by decide

/-- the property as stated (every ASCII read, NUL included) does not hold for the code as it is -/
theorem prefilter_not_safe : ¬ prefilter_safe_statement := by
  intro h
  have h1 := h w4 w4_ok r4 [] (by unfold ReadOK; decide +kernel)
  have h2 := prefilter_unsafe_witness
  rw [h2.1, h2.2.1] at h1
  cases h1

/-- The prefilter can only remove a match, never alter one. -/
theorem prefilter_only_removes (a : Adapter) (read beyond : Bytes) :
    matchToFiltered a read beyond = matchTo a read ∨ matchToFiltered a read beyond = none := by
  unfold matchToFiltered
  split
  · exact Or.inl rfl
  · exact Or.inr rfl

/-- **The property for every read without NUL bytes.** For every adapter with error rate below 1 (`AdapterOK`) and every
    ASCII read without NUL (`Kmer.asciiNoNul read = true`) — of any length, also shorter than the adapter —
    `match_to` with the prefilter reports exactly what the aligner alone reports:
    all eight adapter classes (and `;anywhere`), matches of any placement, any number of errors and indels, whatever lies
    behind the read in memory. The soundness of `Aligner.locate` (C01: `Cutadapt.Align.locate_sound`) enters as the hypothesis
    `hsound`, which has the shape of that theorem (`Cutadapt/Proofs/KmerCompose.lean` discharges it). -/
theorem prefilter_safe_partial (a : Adapter) (hok : AdapterOK a)
    (hsound : LocateSound (alignerCfg a (flagsOf a)) a.seq.length) (read beyond : Bytes)
    (hdom : asciiNoNul read = true) : matchToFiltered a read beyond = matchTo a read :=
  matchToFiltered_eq_of_ascii a ⟨hok.thr_ok, hok.overlap_pos, hok.noindel_len⟩
    (fun c hc => ⟨(hok.seq_ok c hc).1, (hok.seq_ok c hc).2.2⟩) hok.seq_ne hsound read beyond hdom

/-- the premises are satisfiable, also by a read shorter than an `anywhere` adapter -/
example : AdapterOK w2 ∧ asciiNoNul [71] = true := ⟨w2_ok, by decide⟩

/-! ### regression examples: the reproducers of the repaired classes (i), (iii), (v) on the model of the repaired code -/

/-- (i) `SuffixAdapter("GCGGAAT", max_errors=0.2)` on `CGTGCGGATAT` -/
example : matchToFiltered (mkA .suffix [71, 67, 71, 71, 65, 65, 84] (· / 5) 7 false) [67, 71, 84, 71, 67, 71, 71, 65, 84, 65, 84] []
    = some ⟨0, 7, 3, 11, 5, 1, false⟩ := by decide +kernel

/-- (iii) `FrontAdapter("ACGTACGTAC", max_errors=0, min_overlap=3)` on the empty read: the k-mer behind the read is not seen -/
example : kmersPresent (finderFor (mkA .front [65, 67, 71, 84, 65, 67, 71, 84, 65, 67] (fun _ => 0) 3 false)) []
    [0, 67, 71, 84, 65, 67] = false := by decide +kernel

/-- (v) `BackAdapter("TCAAAACAGTTCAATGTGA", max_errors=0.15, min_overlap=3)` on `TCAAAATCAGTTACAATGTG` -/
example : matchToFiltered
    (mkA .back [84, 67, 65, 65, 65, 65, 67, 65, 71, 84, 84, 67, 65, 65, 84, 71, 84, 71, 65] (· * 3 / 20) 3 false)
    [84, 67, 65, 65, 65, 65, 84, 67, 65, 71, 84, 84, 65, 67, 65, 65, 84, 71, 84, 71] []
    = some ⟨0, 18, 0, 20, 14, 2, false⟩ := by decide +kernel

/-- which reads bypass the finder: for an `anywhere` adapter those shorter than `|adapter| + ⌊rate·|adapter|⌋`; none for a 3' adapter -/
example : shortReadPasses w2 [84, 84, 71] = true ∧ shortReadPasses w2 [84, 84, 71, 84] = false ∧
    shortReadPasses (mkA .back [84, 84, 71, 84] (· / 5) 1 false) [71] = false := by decide +kernel

/-! ## Tolerance over the full adapter for absolute error counts (regenerated from the working tree on every run) -/

/-- `-e k` on an adapter of `n` informative bases is stored as the double `k/n`; over the whole adapter the tolerance is `floor(fl(k/n) · n)`
    (`thrOfRate`), which is `k - 1` for a few pairs such as (1, 49) -/
def fullTolerance (k n : Nat) : Nat := Cutadapt.Adapters.thrOfRate (Float.ofNat k / Float.ofNat n) n

/-- **Behind the k-mer prefilter the real program accepts the same number of substitutions as the aligner alone** (`floor(fl(k/n) · n)`, also at the pairs where that
    is `k - 1`): the prefilter's own error budget and the aligner's agree on the working tree -/
theorem generated_prefilter_tolerance :
    ∀ row ∈ Cutadapt.Generated.toleranceRows, row.2.2.2.2 = fullTolerance row.1 row.2.1 ∧ row.2.2.2.2 = row.2.2.1 := by
  decide +kernel

end Cutadapt.C07
