import Cutadapt.Proofs.KmerFinder
/-! # C07 — the k-mer prefilter never changes which adapter match is found

Model: `Cutadapt.Kmer` (`kmer_heuristic.py`, `_kmer_finder.pyx`, `_make_kmer_finder` and `_kmer_finder()` of the adapter
classes). `Kmer.matchToFiltered a read beyond` is `match_to` as coded (prefilter, then aligner); `Adapters.matchTo a read`
is the aligner alone (what `MockKmerFinder` gives).

The property is **false** on the current tree (`prefilter_unsafe_witness`, `prefilter_not_safe`), in five ways:
(i) anchored / non-internal adapters with indels, (ii) `anywhere` adapters on reads inside the adapter, (iii) 5' windows read
past the end of short reads — known from the design phase — and, found while this file was written, (iv) NUL bytes in
the read against `N` wildcards and (v) *regular* 3'/5'/rightmost adapters that allow two or more errors (same cause as (i):
the overlap windows have no slack for insertions).

Proved without restriction: the bit-parallel search is exact (`shift_and_correct`, `shift_and_correct_entry`,
`kmers_present_spec`), `kmer_chunks` meets its specification, the pigeonhole argument for edit scripts, the absence of the
`NotImplementedError` path, the content of the whole-read entry (`internal_entry`), and that the prefilter can only remove
a match (`prefilter_only_removes`). `prefilter_safe_partial` proves the property for the fragment that is true: matches
spanning the whole adapter for the classes that search the chunks of the whole adapter in the whole read (regular 3',
regular 5', rightmost 5', anywhere), anchored adapters without indels, and — trivially — reads without a match. -/
namespace Cutadapt.C07
open Cutadapt Cutadapt.Spec Cutadapt.Kmer Cutadapt.Adapters Cutadapt.Align Cutadapt.Generated

/-! ## The bit-parallel search -/

/-- **`shift_and_multiple_is_present` is exact (one mask).** For non-empty words of total length ≤ 64 packed into one
    mask (needle masks, init mask and found mask as `KmerFinder.__cinit__` builds them), the loop over a window returns
    true iff one of the words occurs in the window under the table relation `m`. -/
theorem shift_and_correct (m : UInt8 → UInt8 → Bool) (ws : List Bytes) (hne : ∀ w ∈ ws, w ≠ [])
    (hlen : ws.flatten.length ≤ 64) (window : Bytes) :
    shiftAnd (maskFrom m ws.flatten 0) (initMaskFrom ws 0) (foundMaskFrom ws 0) window 0 = true ↔
      ∃ w ∈ ws, ∃ i, OccursAt m w window i :=
  shiftAnd_correct m ws hne hlen window

example : shiftAnd (maskFrom (· == ·) ([[65, 67], [71]] : List Bytes).flatten 0) (initMaskFrom [[65, 67], [71]] 0)
    (foundMaskFrom [[65, 67], [71]] 0) [84, 84, 65, 67, 84] 0 = true := by decide +kernel
example : shiftAnd (maskFrom (· == ·) ([[65, 67], [71]] : List Bytes).flatten 0) (initMaskFrom [[65, 67], [71]] 0)
    (foundMaskFrom [[65, 67], [71]] 0) [84, 65, 84, 67, 84] 0 = false := by decide +kernel

/-- **… for an entry whose k-mers are split over several masks** (`packWords` = the greedy packing of `__cinit__`):
    some mask reports a hit iff some k-mer of the entry occurs in the window. -/
theorem shift_and_correct_entry (m : UInt8 → UInt8 → Bool) (kmers : List Bytes) (hne : ∀ k ∈ kmers, k ≠ [])
    (hlen : ∀ k ∈ kmers, k.length ≤ 64) (window : Bytes) :
    (packWords kmers).any (fun ws =>
      shiftAnd (maskFrom m ws.flatten 0) (initMaskFrom ws 0) (foundMaskFrom ws 0) window 0) = true ↔
    ∃ k ∈ kmers, ∃ i, OccursAt m k window i :=
  packWords_any_correct m kmers hne hlen window

example : (packWords (List.replicate 3 (List.replicate 30 (65 : UInt8)))).length = 2 := by decide +kernel

/-- **`kmers_present` as a whole.** For a finder built from `entries` (no empty k-mer), the verdict is true iff some
    k-mer of some entry occurs, under `matches_lookup(ref_wildcards, query_wildcards)`, inside the window that the
    entry's `(start, stop)` selects — from the memory `read ++ beyond ++ 0…`, because a positive `stop` is not clamped. -/
theorem kmers_present_spec {entries : List Kmer.Entry} {ms : List MaskEntry} (h : mkFinder entries = some ms)
    (hne : ∀ e ∈ entries, ∀ k ∈ e.kmers, k ≠ []) (wr wq : Bool) (read beyond : Bytes) :
    kmersPresent (.masks wr wq ms) read beyond = true ↔
    ∃ e ∈ entries, ∃ st len, windowOf e.start (e.stop.getD 0) read.length = some (st, len) ∧
      ∃ k ∈ e.kmers, ∃ i, OccursAt (kmerMatches wr wq) k (haystack (read ++ beyond) st len) i :=
  kmersPresent_iff h hne wr wq read beyond

/-- window arithmetic, as coded: the last 3 characters; from 0 to the end; a 5' window of 6 on a read of 4 (not clamped);
    a 3' window longer than the read is clamped to the read -/
example : windowOf (-3) 0 10 = some (7, 3) ∧ windowOf 0 0 10 = some (0, 10) ∧ windowOf 0 6 4 = some (0, 6) ∧
    windowOf (-6) 0 4 = some (0, 4) ∧ windowOf 0 (-2) 2 = none := by decide +kernel

/-! ## `kmer_chunks` -/

/-- **`kmer_chunks(s, c)`** for `1 ≤ c ≤ |s|`: the chunks, in order, concatenate to `s`; there are `c` of them; each has
    `⌊|s|/c⌋` or `⌊|s|/c⌋ + 1` characters (sizes differ by at most one); none is empty; and the returned set has exactly
    these members. -/
theorem kmer_chunks_spec (s : Bytes) (c : Nat) (h1 : 1 ≤ c) (h2 : c ≤ s.length) :
    (kmerChunksList s c).flatten = s ∧ (kmerChunksList s c).length = c ∧
    (∀ w ∈ kmerChunksList s c, w.length = s.length / c ∨ w.length = s.length / c + 1) ∧
    (∀ w ∈ kmerChunksList s c, w ≠ []) ∧
    (∀ w, w ∈ kmerChunks s c ↔ w ∈ kmerChunksList s c) := by
  obtain ⟨a, b, c', d⟩ := kmerChunksList_spec s c h1 h2
  exact ⟨a, b, c', d, fun _ => mem_kmerChunks⟩

/-- the docstring's example: `AABCABCABC`, 3 ↦ `{"AABC", "ABC"}` -/
example : kmerChunksList [65, 65, 66, 67, 65, 66, 67, 65, 66, 67] 3 = [[65, 65, 66, 67], [65, 66, 67], [65, 66, 67]] ∧
    kmerChunks [65, 65, 66, 67, 65, 66, 67, 65, 66, 67] 3 = [[65, 65, 66, 67], [65, 66, 67]] := by decide +kernel

/-! ## Pigeonhole -/

/-- **Pigeonhole for edit scripts.** If a script `sc` costs at most `e` (indel cost ≥ 1) and its adapter side `lhs sc` is cut
    into `e + 1` consecutive chunks `cs`, then some chunk is consumed entirely by zero-cost `sub` operations: it occurs,
    under the relation `eq`, in the read side `rhs sc`, at an offset that differs from its offset in `lhs sc` by at most the
    number of indels of `sc`. -/
theorem pigeonhole_script (eq : Sym → Sym → Bool) (c : Nat) (hc : 1 ≤ c) (sc : List Op) (e : Nat)
    (hcost : cost eq c sc ≤ e) (cs : List (List Sym)) (hcs : cs.flatten = lhs sc) (hlen : cs.length = e + 1) :
    ∃ j ch o', cs[j]? = some ch ∧ OccursAt eq ch (rhs sc) o' ∧
      o' ≤ (cs.take j).flatten.length + indels sc ∧ (cs.take j).flatten.length ≤ o' + indels sc :=
  Spec.pigeonhole_script eq c hc sc e hcost cs hcs hlen

/-- `AC|GT` against `AGGT` (one mismatch): the chunk `GT` survives at the same offset -/
example : ∃ (j : Nat) (ch : List Sym) (o' : Nat), ([[65, 67], [71, 84]] : List (List Sym))[j]? = some ch ∧
    OccursAt (· == ·) ch (rhs [.sub 65 65, .sub 67 71, .sub 71 71, .sub 84 84]) o' := by
  obtain ⟨j, ch, o', h1, h2, _⟩ := pigeonhole_script (· == ·) 1 (Nat.le_refl 1)
    [.sub 65 65, .sub 67 71, .sub 71 71, .sub 84 84] 1 (by decide) [[65, 67], [71, 84]] (by decide) (by decide)
  exact ⟨j, ch, o', h1, h2⟩

/-! ## The tables -/

/-- `create_positions_and_kmers` never takes the `NotImplementedError` path of `minimize_kmer_search_list`
    (back searches have `stop = None`, front searches have `start = 0`). -/
theorem positions_never_error (adapter : Bytes) (mo : Nat) (thr : Nat → Nat) (b f i : Bool) :
    ∃ entries, createPositionsAndKmers adapter mo thr b f i = .ok entries :=
  createPositionsAndKmers_ok adapter mo thr b f i

/-- `minimize_kmer_search_list` itself does raise for a k-mer searched at two positions one of which is in the middle -/
example : (minimizeKmerSearchList [([65], (2, some 5)), ([65], (0, some 3))]).toOption = none := by decide +kernel

/-- the internal entry `(0, None)` of an adapter with an internal search set holds exactly the chunks of the whole adapter -/
theorem internal_entry {adapter : Bytes} {mo : Nat} {thr : Nat → Nat} {b f : Bool} {entries : List Kmer.Entry}
    (h : createPositionsAndKmers adapter mo thr b f true = .ok entries) (hmo : 1 ≤ mo) (k : Bytes) :
    (∃ e ∈ entries, e.start = 0 ∧ e.stop = none ∧ k ∈ e.kmers) ↔ k ∈ kmerChunksList adapter (thr adapter.length + 1) :=
  entry_zero_none_iff h hmo k

/-- `create_positions_and_kmers("AAAAATTTTT", 3, 0.1, back_adapter=True, front_adapter=False)` (`⌊L/10⌋` for `int(L·0.1)`);
    the back search `(-9, None, {"AAAAA"})` is absorbed by the internal search `(0, None)` -/
example : (createPositionsAndKmers [65, 65, 65, 65, 65, 84, 84, 84, 84, 84] 3 (· / 10) true false true).toOption =
    some [⟨-4, none, [[65, 65, 65, 65]]⟩, ⟨-3, none, [[65, 65, 65]]⟩,
          ⟨0, none, [[65, 65, 65, 65, 65], [84, 84, 84, 84, 84]]⟩] := by decide +kernel

/-! ## The property -/

/-- invariants every adapter object has after `SingleAdapter.__init__` with a maximum error rate below 1:
    non-empty upper-case ASCII sequence without NUL, `thr L = ⌊fl(L·rate)⌋` is monotone and below `L`,
    `1 ≤ min_overlap ≤ len(sequence)`, `min_overlap = len(sequence)` for anchored adapters -/
structure AdapterOK (a : Adapter) : Prop where
  seq_ok : ∀ c ∈ a.seq, c ≠ 0 ∧ c < 128 ∧ tr upperTable c = c
  thr_mono : ∀ x y, x ≤ y → a.thr x ≤ a.thr y
  thr_lt : ∀ L, 1 ≤ L → a.thr L < L
  seq_ne : 1 ≤ a.seq.length
  overlap_pos : 1 ≤ a.minOverlap
  overlap_le : a.minOverlap ≤ a.seq.length
  anchored : isAnchored a.ty = true → a.minOverlap = a.seq.length

/-- reads are ASCII (dnaio guarantees it) -/
def ReadOK (read : Bytes) : Prop := ∀ c ∈ read, c < 128

/-- **The property at full strength**: for every adapter with error rate below 1, every ASCII read and whatever lies
    behind the read in memory, `match_to` with the prefilter reports exactly what the aligner alone reports. -/
def prefilter_safe_statement : Prop :=
  ∀ a : Adapter, AdapterOK a → ∀ read beyond : Bytes, ReadOK read → matchToFiltered a read beyond = matchTo a read

def mkA (ty : AdapterType) (seq : Bytes) (thr : Nat → Nat) (mo : Nat) (aw : Bool) : Adapter :=
  { ty := ty
    seq := seq
    thr := thr
    minOverlap := mo
    readWildcards := false
    adapterWildcards := aw
    indels := true }

/-- (i) `SuffixAdapter("GCGGAAT", max_errors=0.2)` -/
def w1 : Adapter := mkA .suffix [71, 67, 71, 71, 65, 65, 84] (· / 5) 7 false
/-- (ii) `AnywhereAdapter("TTGT", max_errors=0.2, min_overlap=1)` -/
def w2 : Adapter := mkA .anywhere [84, 84, 71, 84] (· / 5) 1 false
/-- (iii) `FrontAdapter("ACGTACGTAC", max_errors=0, min_overlap=3)` -/
def w3 : Adapter := mkA .front [65, 67, 71, 84, 65, 67, 71, 84, 65, 67] (fun _ => 0) 3 false
/-- (iv) `BackAdapter("NACGTACGT", max_errors=0, min_overlap=3)` (wildcards in the adapter) -/
def w4 : Adapter := mkA .back [78, 65, 67, 71, 84, 65, 67, 71, 84] (fun _ => 0) 3 true
/-- (v) `BackAdapter("TCAAAACAGTTCAATGTGA", max_errors=0.15, min_overlap=3)` — a regular 3' adapter -/
def w5 : Adapter := mkA .back [84, 67, 65, 65, 65, 65, 67, 65, 71, 84, 84, 67, 65, 65, 84, 71, 84, 71, 65] (· * 3 / 20) 3 false
/-- `TCAAAATCAGTTACAATGTG`: the first 18 adapter bases with two inserted bases -/
def r5 : Bytes := [84, 67, 65, 65, 65, 65, 84, 67, 65, 71, 84, 84, 65, 67, 65, 65, 84, 71, 84, 71]

/-- **Counterexamples** (each replayed against the real code by the check):
    (i) anchored 3' adapter with indels, read `CGTGCGGATAT`: the aligner finds `GCGGATAT` (one insertion), the prefilter
        searches `GCGG`/`AAT` only in the last 7 characters and says no;
    (ii) `anywhere` adapter `TTGT`, read `G` lying strictly inside the adapter: exact match of `adapter[2:3]`, prefilter says no;
    (iii) 5' adapter, empty read: the window `[0, 10)` is read from memory behind the read — the verdict is true or false
        depending on what happens to be there;
    (iv) a NUL byte in the read matches the adapter's `N` wildcard in the aligner but nothing in the finder's tables
        (`matches_lookup` drops `\0`): regular 3' adapter `NACGTACGT`, read `TTTT\0ACGTACGTGGGGGGGGGG`;
    (v) the window defect of (i) also hits *regular* adapters: 19-base 3' adapter with 15 % errors, the read consists of the
        first 18 adapter bases with two insertions (20 characters): the aligner reports them with 2 errors; the search set for
        two errors looks at the last 19 characters only, its first k-mer starts one character earlier, the other k-mers and
        all k-mers of the whole-adapter search are broken by the insertions. -/
theorem prefilter_unsafe_witness :
    (matchTo w1 [67, 71, 84, 71, 67, 71, 71, 65, 84, 65, 84] = some ⟨0, 7, 3, 11, 5, 1, false⟩ ∧
     matchToFiltered w1 [67, 71, 84, 71, 67, 71, 71, 65, 84, 65, 84] [] = none) ∧
    (matchTo w2 [71] = some ⟨2, 3, 0, 1, 1, 0, true⟩ ∧ matchToFiltered w2 [71] [] = none) ∧
    (kmersPresent (finderFor w3) [] [0, 67, 71, 84, 65, 67] = true ∧ kmersPresent (finderFor w3) [] [] = false) ∧
    (matchTo w4 [84, 84, 84, 84, 0, 65, 67, 71, 84, 65, 67, 71, 84, 71, 71, 71, 71, 71, 71, 71, 71, 71, 71]
        = some ⟨0, 9, 4, 13, 9, 0, false⟩ ∧
     matchToFiltered w4 [84, 84, 84, 84, 0, 65, 67, 71, 84, 65, 67, 71, 84, 71, 71, 71, 71, 71, 71, 71, 71, 71, 71] []
        = none) ∧
    (matchTo w5 r5 = some ⟨0, 18, 0, 20, 14, 2, false⟩ ∧ matchToFiltered w5 r5 [] = none) := by
  decide +kernel

theorem w1_ok : AdapterOK w1 where
  seq_ok := by decide +kernel
  thr_mono := by intro x y h; simp only [w1, mkA]; omega
  thr_lt := by intro L h; simp only [w1, mkA]; omega
  seq_ne := by decide
  overlap_pos := by decide
  overlap_le := by decide
  anchored := by decide

/-- the property as stated does not hold for the code as it is -/
theorem prefilter_not_safe : ¬ prefilter_safe_statement := by
  intro h
  have h1 := h w1 w1_ok [67, 71, 84, 71, 67, 71, 71, 65, 84, 65, 84] [] (by unfold ReadOK; decide +kernel)
  have h2 := prefilter_unsafe_witness.1
  rw [h2.1, h2.2] at h1
  cases h1

/-- The prefilter can only remove a match, never alter one. -/
theorem prefilter_only_removes (a : Adapter) (read beyond : Bytes) :
    matchToFiltered a read beyond = matchTo a read ∨ matchToFiltered a read beyond = none := by
  unfold matchToFiltered
  split
  · exact Or.inl rfl
  · exact Or.inr rfl

example : matchToFiltered w2 [84, 84, 71, 84] [] = matchTo w2 [84, 84, 71, 84] := by decide +kernel

/-- the adapter classes whose finder searches the chunks of the whole adapter in the whole read (`internal=True`) -/
def internalType (ty : AdapterType) : Bool := hasInternal ty

/-- **The true fragment of the property.** Let `a` be an adapter with error rate below 1 (`AdapterOK`) and `read` an ASCII
    read without NUL. Then `match_to` with the prefilter equals the aligner alone whenever
    * the finder is the mock finder by construction (anchored adapter without indels), or
    * the aligner alone finds nothing, or
    * the adapter class is regular 3', regular 5', rightmost 5' or anywhere and the match found by the aligner alone
      spans the whole adapter (`astart = 0`, `astop = len(adapter)`), with any number of errors and indels.
    The soundness of `Aligner.locate` (C01: `Cutadapt.Align.locate_sound`) enters as the hypothesis `hsound`; it has the
    shape of that theorem, so the two compose (see `Cutadapt/Proofs/KmerCompose.lean`). -/
theorem prefilter_safe_partial (a : Adapter) (hok : AdapterOK a)
    (hsound : LocateSound (alignerCfg a (flagsOf a)) a.seq.length) (read beyond : Bytes)
    (hread : ∀ c ∈ read, c ≠ 0 ∧ c < 128)
    (hfrag : (isAnchored a.ty = true ∧ a.indels = false) ∨ matchTo a read = none ∨
             (internalType a.ty = true ∧ ∀ mt, matchTo a read = some mt → mt.astart = 0 ∧ mt.astop = a.seq.length)) :
    matchToFiltered a read beyond = matchTo a read := by
  rcases hfrag with ⟨hanch, hind⟩ | hnone | ⟨hty, hfull⟩
  · -- class-level mock finder
    have : finderFor a = .mock := by
      unfold finderFor finderArgs
      cases hty : a.ty <;> rw [hty] at hanch <;> simp [isAnchored] at hanch <;> simp [hind]
    simp [matchToFiltered, this, kmersPresent]
  · rw [hnone]
    rcases prefilter_only_removes a read beyond with h | h
    · rw [h, hnone]
    · exact h
  · cases hm : matchTo a read with
    | none =>
      rcases prefilter_only_removes a read beyond with h | h
      · rw [h, hm]
      · exact h
    | some mt =>
      obtain ⟨h0, h1⟩ := hfull mt hm
      have hside : PartialSide a :=
        ⟨fun c hc => ⟨(hok.seq_ok c hc).1, (hok.seq_ok c hc).2.2⟩, hok.thr_mono,
         hok.thr_lt a.seq.length hok.seq_ne, hok.overlap_pos⟩
      have := prefilter_keeps_full_matches a hty hside hsound read beyond hread mt hm h0 h1
      simp [matchToFiltered, this, hm]

/-- an instance: `BackAdapter("GCGGAAT", max_errors=0.2)` on a read with the whole adapter and one insertion -/
example : matchTo (mkA .back [71, 67, 71, 71, 65, 65, 84] (· / 5) 3 false) [67, 71, 84, 71, 67, 71, 71, 65, 84, 65, 84, 67]
      = some ⟨0, 7, 3, 11, 5, 1, false⟩ ∧
    matchToFiltered (mkA .back [71, 67, 71, 71, 65, 65, 84] (· / 5) 3 false) [67, 71, 84, 71, 67, 71, 71, 65, 84, 65, 84, 67] []
      = matchTo (mkA .back [71, 67, 71, 71, 65, 65, 84] (· / 5) 3 false) [67, 71, 84, 71, 67, 71, 71, 65, 84, 65, 84, 67] := by
  decide +kernel

end Cutadapt.C07
