import Cutadapt.Proofs.RunnerWriter
/-! # C12 — broken input makes the run fail visibly (work in progress) -/
namespace Cutadapt.C12
open Cutadapt Cutadapt.Runner

/-- exit status 0 exactly for the outcome `ok` -/
theorem exit_status_zero_iff (o : Outcome) : o.exitStatus = some 0 ↔ o = .ok := by
  cases o <;> simp [Outcome.exitStatus]

end Cutadapt.C12
