import Cutadapt.Properties.C06
/-! # C12 — broken input makes the run fail visibly; it never hangs or loses reads silently

Model: the transition system of C06 (`Cutadapt/Runner.lean`) with its fault actions — `readerFault` (the chunker raises in
`ReaderProcess.run`: `-2` + exception to every worker connection) and a `workerStep` in which `process` raises (the parser
raises inside `WorkerProcess.run`: `-2` + exception to the main process, the worker stops) —, the main process's
`_try_receive` (terminate the children, re-raise: outcome `failed`) and `cli.main`'s exit status (`Outcome.exitStatus`).
Parsing itself is the parameter `process` (dnaio decides what is malformed).

No fairness assumption is needed: a maximal execution is one that cannot be extended; `no_deadlock` (which covers the states
after a fault) shows that it can only end with the main process stopped, and the measure shows that it is finite.  The
main process raises as soon as it *receives* an error, and it cannot leave its loop normally while a failed worker's connection
is open. -/
namespace Cutadapt.C12
open Cutadapt Cutadapt.Runner

variable {Chunk Stats Fault : Type}

/-- exit status 0 exactly for the outcome `ok` -/
theorem exit_status_zero_iff (o : Outcome) : o.exitStatus = some 0 ↔ o = .ok := by
  cases o <;> simp [Outcome.exitStatus]

/-! ## Fault actions -/

/-- the reader's fault action leaves a faulted state -/
theorem faulted_of_readerFault (cfg : Config Chunk Stats Fault) {s s' : State Stats} (hs : step cfg s .readerFault = some s') :
    Faulted cfg s' := by
  obtain ⟨_, _, _, rfl⟩ := step_readerFault hs
  exact Or.inl rfl

/-- a worker step that processes a chunk on which `process` raises leaves a faulted state -/
theorem faulted_of_workerFault (cfg : Config Chunk Stats Fault) {s s' : State Stats} {w i : Nat}
    (hs : step cfg s (.workerStep w) = some s') (hph : (s.workers w).phase = .processing i) (hbad : outOf cfg i = none) :
    Faulted cfg s' := by
  obtain ⟨hw, hcase⟩ := step_workerStep hs
  rcases hcase with ⟨_, _, h, _, _⟩ | ⟨_, h, _, _⟩ | ⟨_, h, _, _⟩ | ⟨j, c, d, st, h, hc, hp, _⟩ | ⟨j, c, e, h, hc, hp, rfl⟩
  · rw [hph] at h; cases h
  · rw [hph] at h; cases h
  · rw [hph] at h; cases h
  · rw [hph] at h; cases h
    simp [outOf, hc, hp] at hbad
  · exact Or.inr ⟨w, hw, by rw [setW_workers_same]⟩

/-- once a fault has occurred it stays visible in the state -/
theorem faulted_persists (cfg : Config Chunk Stats Fault) {s s' : State Stats} (tr : List Action)
    (h : run cfg s tr = some s') (hf : Faulted cfg s) : Faulted cfg s' :=
  faulted_run tr h hf

/-! ## The multi-core runner -/

/-- in a state whose main process returned normally no fault has occurred -/
theorem ok_not_faulted (cfg : Config Chunk Stats Fault) (hn : 0 < cfg.nWorkers) {s : State Stats} (hr : Reachable cfg s)
    (hok : s.outcome = .ok) : ¬ Faulted cfg s := by
  have hf := (reachable_inv hn hr).2.2.ok hok
  rintro (h | ⟨w, hw, h⟩)
  · rw [hf.rfailed] at h; cases h
  · rw [hf.finished w hw] at h; cases h

/-- **`fault_reaches_main`**: from any reachable state in which a fault action has occurred, every maximal execution —
    every action sequence `tr` that leads to a state in which no action is enabled — ends with the main process `failed`,
    exit status 1.  None is stuck with the main process still waiting (`no_deadlock` holds in fault states too) … -/
theorem fault_reaches_main (cfg : Config Chunk Stats Fault) (hn : 0 < cfg.nWorkers) {s s' : State Stats} (hr : Reachable cfg s)
    (hf : Faulted cfg s) (tr : List Action) (h : run cfg s tr = some s') (hmax : ∀ a, step cfg s' a = none) :
    s'.outcome = .failed ∧ s'.outcome.exitStatus = some 1 := by
  have hr' := reachable_run tr hr h
  have hf' := faulted_run tr h hf
  have : s'.outcome = .failed := by
    cases ho : s'.outcome with
    | running =>
      obtain ⟨a, s'', hs⟩ := C06.no_deadlock cfg hn hr' ho
      rw [hmax a] at hs; cases hs
    | ok => exact absurd hf' (ok_not_faulted cfg hn hr' ho)
    | failed => rfl
  exact ⟨this, by rw [this]; rfl⟩

/-- … and none is infinite: at most `measure s` further actions are possible (`C06.terminates`). -/
theorem fault_executions_finite (cfg : Config Chunk Stats Fault) {s s' : State Stats} (tr : List Action)
    (h : run cfg s tr = some s') : tr.length ≤ measure cfg s :=
  C06.executions_finite cfg tr h

/-- a failed run is never spurious: the main process raises only if some worker went through its `except` branch -/
theorem failed_only_if_fault (cfg : Config Chunk Stats Fault) (hn : 0 < cfg.nWorkers) {s : State Stats} (hr : Reachable cfg s)
    (hfail : s.outcome = .failed) : Faulted cfg s := by
  obtain ⟨w, hw, h⟩ := (reachable_inv hn hr).2.2.failed hfail
  exact Or.inr ⟨w, hw, h⟩

/-- **`exit0_only_if_wellformed`**: exit status 0 ⇒ no fault action has occurred, the chunker did not raise, every chunk
    was processed without error, and (C06) every file and the statistics are those of the serial run of the whole input. -/
theorem exit0_only_if_wellformed (cfg : Config Chunk Stats Fault) (hn : 0 < cfg.nWorkers) (hm : IsCommMonoid cfg.add cfg.zero)
    {s : State Stats} (hr : Reachable cfg s) (h0 : s.outcome.exitStatus = some 0) :
    ¬ Faulted cfg s ∧ cfg.readerFault = false ∧ (∀ i, i < cfg.chunks.length → (outOf cfg i).isSome = true) ∧
    (∀ f, (s.writers f).written = concatRange (fun i => outData cfg i f) cfg.chunks.length) ∧
    (serialRun cfg).outcome = .ok ∧ (∀ f, (s.writers f).written = (serialRun cfg).written f) ∧ s.mstats = (serialRun cfg).stats := by
  have hok := (exit_status_zero_iff _).mp h0
  obtain ⟨hsafe, _, hend⟩ := reachable_inv hn hr
  have hf := hend.ok hok
  have hmem : ∀ i, i ∈ s.received ↔ i < cfg.chunks.length := by
    intro i
    have := hf.all i
    rw [← List.count_pos_iff]
    split at this <;> rename_i hi <;> simp only [hi, iff_true, iff_false] <;> omega
  obtain ⟨h1, h2, h3, _⟩ := C06.parallel_equals_serial cfg hn hm hr hok
  exact ⟨ok_not_faulted cfg hn hr hok, hf.noReaderFault, fun i hi => hsafe.recvOk i ((hmem i).mpr hi),
    fun f => ((hsafe.writers f).complete hmem).2.2, h1, h2, h3⟩

theorem concatRange_prefix (data : Nat → Bytes) {k m : Nat} (h : k ≤ m) : concatRange data k <+: concatRange data m := by
  induction m with
  | zero => have : k = 0 := by omega
            subst this; exact List.prefix_refl _
  | succ m ih =>
    by_cases hk : k = m + 1
    · subst hk; exact List.prefix_refl _
    · exact (ih (by omega)).trans (List.prefix_append _ _)

/-- **`written_prefix_is_serial_prefix`**: in EVERY reachable state — running, returned or failed — there is a `k` such
    that the chunks `0 … k-1` were all processed without error and every file contains exactly their outputs in input
    order: a prefix, ending at a chunk boundary, of what the fault-free serial run writes (`concatRange … m` for every
    `m ≥ k`). Nothing partial, nothing out of order, nothing from beyond a gap is ever written. -/
theorem written_prefix_is_serial_prefix (cfg : Config Chunk Stats Fault) (hn : 0 < cfg.nWorkers) {s : State Stats}
    (hr : Reachable cfg s) :
    ∃ k, k ≤ cfg.chunks.length ∧ (∀ i, i < k → (outOf cfg i).isSome = true) ∧
      (∀ f, (s.writers f).written = concatRange (fun i => outData cfg i f) k) ∧
      (∀ f m, k ≤ m → (s.writers f).written <+: concatRange (fun i => outData cfg i f) m) := by
  obtain ⟨hsafe, _, _⟩ := reachable_inv hn hr
  refine ⟨(s.writers 0).current, ?_, ?_, ?_, ?_⟩
  · rcases Nat.lt_or_ge cfg.chunks.length (s.writers 0).current with hlt | hge
    · have h1 := hsafe.recvOk _ ((hsafe.writers 0).below _ hlt)
      have : outOf cfg cfg.chunks.length = none := by simp [outOf]
      rw [this] at h1; cases h1
    · exact hge
  · intro i hi
    exact hsafe.recvOk i ((hsafe.writers 0).below i hi)
  · intro f
    rw [(hsafe.writers f).written, (hsafe.writers f).current_unique (hsafe.writers 0)]
  · intro f m hm
    rw [(hsafe.writers f).written, (hsafe.writers f).current_unique (hsafe.writers 0)]
    exact concatRange_prefix _ hm

/-- the main process raises (exit status 1) in at most `measure` steps from the fault; summary of the three statements
    for maximal executions from the initial state -/
theorem maximal_execution_verdict (cfg : Config Chunk Stats Fault) (hn : 0 < cfg.nWorkers) (hm : IsCommMonoid cfg.add cfg.zero)
    (tr : List Action) {s : State Stats} (h : run cfg (init cfg) tr = some s) (hmax : ∀ a, step cfg s a = none) :
    (s.outcome = .ok ∧ (serialRun cfg).outcome = .ok ∧ ∀ f, (s.writers f).written = (serialRun cfg).written f) ∨
    (s.outcome = .failed ∧ Faulted cfg s) := by
  have hr := reachable_run tr Reachable.init h
  cases ho : s.outcome with
  | running => exact absurd ho (C06.maximal_execution_ends cfg hn tr h hmax)
  | ok =>
    obtain ⟨h1, h2, _, _⟩ := C06.parallel_equals_serial cfg hn hm hr ho
    exact Or.inl ⟨rfl, h1, h2⟩
  | failed => exact Or.inr ⟨rfl, failed_only_if_fault cfg hn hr ho⟩

/-! ## The serial runner (one process, the trivial schedule) -/

/-- the serial run always stops … -/
theorem serial_terminates (cfg : Config Chunk Stats Fault) : (serialRun cfg).outcome = .ok ∨ (serialRun cfg).outcome = .failed :=
  (serialRun_spec cfg).terminal

/-- … and fails (exit status 1) if the chunker raises or some chunk cannot be processed -/
theorem serial_fault_fails (cfg : Config Chunk Stats Fault)
    (hf : cfg.readerFault = true ∨ ∃ i, i < cfg.chunks.length ∧ outOf cfg i = none) :
    (serialRun cfg).outcome = .failed ∧ (serialRun cfg).outcome.exitStatus = some 1 := by
  have hS := serialRun_spec cfg
  have : (serialRun cfg).outcome = .failed := by
    rcases hS.terminal with hok | hfl
    · obtain ⟨hd, hnr⟩ := hS.ok_iff.mp hok
      rcases hf with hf | ⟨i, hi, hbad⟩
      · rw [hnr] at hf; cases hf
      · have := hS.okBefore i (by omega)
        rw [hbad] at this; cases this
    · exact hfl
  exact ⟨this, by rw [this]; rfl⟩

/-- serial `exit0_only_if_wellformed`: status 0 ⇒ no fault, and every file holds the output of every chunk, in order -/
theorem serial_exit0_only_if_wellformed (cfg : Config Chunk Stats Fault) (h0 : (serialRun cfg).outcome.exitStatus = some 0) :
    cfg.readerFault = false ∧ (∀ i, i < cfg.chunks.length → (outOf cfg i).isSome = true) ∧
    (∀ f, (serialRun cfg).written f = concatRange (fun i => outData cfg i f) cfg.chunks.length) := by
  have hS := serialRun_spec cfg
  obtain ⟨hd, hnr⟩ := hS.ok_iff.mp ((exit_status_zero_iff _).mp h0)
  exact ⟨hnr, fun i hi => hS.okBefore i (by omega), fun f => by rw [hS.written f, hd]⟩

/-- serial `written_prefix_is_serial_prefix`: whatever the outcome, each file holds the outputs of the chunks before the
    first faulty one (at chunk granularity; the real serial runner writes record by record inside `process`) -/
theorem serial_written_prefix (cfg : Config Chunk Stats Fault) :
    ∃ k, k ≤ cfg.chunks.length ∧ (∀ i, i < k → (outOf cfg i).isSome = true) ∧
      (∀ f, (serialRun cfg).written f = concatRange (fun i => outData cfg i f) k) ∧
      (k < cfg.chunks.length → outOf cfg k = none ∧ (serialRun cfg).outcome = .failed) := by
  have hS := serialRun_spec cfg
  refine ⟨(serialRun cfg).done, hS.done_le, hS.okBefore, hS.written, fun hlt => ⟨hS.stopped hlt, ?_⟩⟩
  rcases hS.terminal with hok | hfl
  · have := (hS.ok_iff.mp hok).1; omega
  · exact hfl

/-! ## Concrete instances (2 workers, 3 chunks) -/

/-- chunk 1 is malformed: worker 1 raises, the main process receives chunk 0's result, then the error -/
def faultTrace : List Action :=
  [.workerRequest 0, .workerRequest 1, .readerSend, .readerSend, .workerStep 0, .workerStep 1, .workerStep 1, .workerStep 0,
   .mainRecv 0, .mainRecv 1]

example : (run (toyConfig 2 3 [1] false) (init (toyConfig 2 3 [1] false)) faultTrace).map
      (fun s => ((s.writers 0).written, s.outcome, s.outcome.exitStatus, (enabled (toyConfig 2 3 [1] false) s).length))
    = some ([0, 0], .failed, some 1, 0) := by decide

/-- the chunker raises after two chunks: both workers get the reader's error, the first one to report it stops the run -/
def readerFaultTrace : List Action :=
  [.workerRequest 0, .readerSend, .workerStep 0, .workerStep 0, .workerRequest 1, .readerSend, .workerStep 1, .readerFault,
   .workerRequest 0, .workerStep 0, .mainRecv 0, .mainRecv 0]

example : (run (toyConfig 2 2 [] true) (init (toyConfig 2 2 [] true)) readerFaultTrace).map
      (fun s => ((s.writers 0).written, s.outcome, (enabled (toyConfig 2 2 [] true) s).length))
    = some ([0, 0], .failed, 0) := by decide

example : ((serialRun (toyConfig 2 3 [1] false)).written 0, (serialRun (toyConfig 2 3 [1] false)).outcome) = ([0, 0], .failed) := by
  decide

end Cutadapt.C12
