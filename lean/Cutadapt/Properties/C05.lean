import Cutadapt.Proofs.StepsPaired
import Cutadapt.Proofs.StepsPair
import Cutadapt.Proofs.StepsShape
import Cutadapt.Generated.PairFilter
import Cutadapt.Generated.PairRanks
/-! # C05 — paired-end outputs stay synchronized and pairs are filtered as a unit

Model: `Cutadapt.Pipeline` (`stepP`, `pairFiltered`, `applyP … (.pairAdapters …)`, `bestPairGo`, `runPaired`),
`Cutadapt.Assembly` (`makeSteps`, `lengthPreds`). Helper lemmas: `Cutadapt/Proofs/Steps*.lean`. -/
namespace Cutadapt.C05
open Cutadapt Cutadapt.Steps

/-! ## Both mates travel together -/

/-- An error-free run is the concatenation, in input order, of the event lists of the individual reads (pairs). -/
theorem run_is_concat {f : α → Except Err (List Event)} {reads : List α} {evs : List Event}
    (h : runReads f reads [] = (evs, none)) :
    evs = (reads.map (fun r => (f r).toOption.getD [])).flatten ∧ ∀ r ∈ reads, ∃ e, f r = .ok e := by
  obtain ⟨h1, h2⟩ := Steps.run_is_concat h
  exact ⟨h1, fun r hr => ⟨_, h2 r hr⟩⟩

/-- Every record a paired-end run writes carries both mates, and they are the two mates of one input pair after the
    modifiers: `stepP` hands `(r1, r2)` through all steps together. -/
theorem paired_writes_carry_both_mates {p : PairedPipeline} {reads : List (Read × Read)} {evs : List Event}
    (ht : Terminal p.steps) (h : runPaired p reads = (evs, none)) {w : Nat} {a : Read} {b : Option Read}
    (hw : Event.write w a b ∈ evs) :
    ∃ pr ∈ reads, ∃ r' i' evs0,
      runModsP p.ads1 p.ads2 p.mods pr ({ original := pr.1 }, { original := pr.2 })
        [Event.input pr.1.len (some pr.2.len)] = .ok (r', i', evs0) ∧
      a = r'.1 ∧ b = some r'.2 := by
  obtain ⟨pr, hpr, hok, hmem⟩ := mem_run h hw
  obtain ⟨r', i', evs0, hm, -, hlog⟩ := processReadP_log ht hok
  exact ⟨pr, hpr, r', i', evs0, hm, hlog.writes hmem⟩

/-- A pair is kept, redirected or discarded as a unit: its log has at most one `write`, which carries both mates of the
    pair; and exactly one fate event (written or one filter category). -/
theorem pair_is_a_unit {p : PairedPipeline} {pr : Read × Read} {evs : List Event}
    (ht : Terminal p.steps) (h : processReadP p pr = .ok evs) :
    evs.countP isWrite ≤ 1 ∧ evs.countP isFate = 1 ∧
    ∃ r' i' evs0, runModsP p.ads1 p.ads2 p.mods pr ({ original := pr.1 }, { original := pr.2 })
        [Event.input pr.1.len (some pr.2.len)] = .ok (r', i', evs0) ∧
      ∀ w a b, Event.write w a b ∈ evs → a = r'.1 ∧ b = some r'.2 := by
  obtain ⟨r', i', evs0, hm, -, hlog⟩ := processReadP_log ht h
  refine ⟨hlog.write_count, ?_, r', i', evs0, hm, fun w a b hw => hlog.writes hw⟩
  obtain ⟨cnt, texts, tail, rfl, hc, htx, htl⟩ := hlog
  rw [List.countP_cons, List.countP_append, countP_of_all_false (fun x hx => counter_not_fate (hc x hx))]
  have := (fate_of_tail htx htl).1
  simpa [isFate] using this

/-- **Files stay in step.** For every record writer of an error-free paired-end run: the R1 records and the R2 records
    it received are the two projections of one list of pairs — equally many, in the same order, record `k` of R1 and of R2
    from the same pair —, this list is the concatenation over the input pairs, in input order, of at most one pair each,
    and that pair is the input pair after the modifiers. -/
theorem files_in_step {p : PairedPipeline} {reads : List (Read × Read)} {evs : List Event}
    (ht : Terminal p.steps) (h : runPaired p reads = (evs, none)) (w : Nat) :
    r1sOf w evs = (pairsOf w evs).map (·.1) ∧ r2sOf w evs = (pairsOf w evs).map (·.2) ∧
    (r1sOf w evs).length = (r2sOf w evs).length ∧
    pairsOf w evs = (reads.map (fun pr => pairsOf w (evsOf (processReadP p) pr))).flatten ∧
    ∀ pr ∈ reads, (pairsOf w (evsOf (processReadP p) pr)).length ≤ 1 ∧
      ∀ x ∈ pairsOf w (evsOf (processReadP p) pr), ∃ i' evs0,
        runModsP p.ads1 p.ads2 p.mods pr ({ original := pr.1 }, { original := pr.2 })
          [Event.input pr.1.len (some pr.2.len)] = .ok (x, i', evs0) := by
  have hboth : ∀ w' a b, Event.write w' a b ∈ evs → b.isSome = true := by
    intro w' a b hw
    obtain ⟨_, _, _, _, _, _, _, rfl⟩ := paired_writes_carry_both_mates ht h hw
    rfl
  obtain ⟨e1, e2⟩ := mates_in_step w evs hboth
  refine ⟨e1, e2, by rw [e1, e2]; simp, ?_, ?_⟩
  · rw [(Steps.run_is_concat h).1, pairsOf_flatten, List.map_map]
    rfl
  · intro pr hpr
    have hok := (Steps.run_is_concat h).2 pr hpr
    obtain ⟨r', i', evs0, hm, -, hlog⟩ := processReadP_log ht hok
    refine ⟨Nat.le_trans (pairsOf_length_le w _) hlog.write_count, ?_⟩
    intro x hx
    simp only [pairsOf, List.mem_filterMap] at hx
    obtain ⟨ev, hev, hx⟩ := hx
    cases ev with
    | write w' a b =>
      obtain ⟨rfl, rfl⟩ := hlog.writes hev
      simp only at hx
      split at hx
      · simp only [Option.some.injEq] at hx
        subst hx
        exact ⟨i', evs0, hm⟩
      · simp at hx
    | _ => simp at hx

/-! ## The pair decision -/

/-- `--pair-filter`: with a criterion on both reads, `any` = at least one read matches, `both` = both match,
    `first` = R1 decides. -/
theorem pair_decision (a b : Pred) (mode : PairMode) (r1 r2 : Read) (i1 i2 : Info) (t1 t2 : Bool)
    (h1 : a.test r1 i1 = .ok t1) (h2 : b.test r2 i2 = .ok t2) :
    pairFiltered (some a) (some b) mode r1 r2 i1 i2 =
      .ok (match mode with
           | .any => t1 || t2
           | .both => t1 && t2
           | .first => t1) := by
  cases mode <;> cases t1 <;> simp [pairFiltered, h1, h2, bind, Except.bind, pure, Except.pure]

/-- `or` / `and` short-circuit: the second criterion is not even evaluated (so cannot raise) when the first decides. -/
theorem pair_decision_short_circuit (a b : Pred) (r1 r2 : Read) (i1 i2 : Info) :
    (a.test r1 i1 = .ok true → pairFiltered (some a) (some b) .any r1 r2 i1 i2 = .ok true) ∧
    (a.test r1 i1 = .ok false → pairFiltered (some a) (some b) .both r1 r2 i1 i2 = .ok false) ∧
    pairFiltered (some a) (some b) .first r1 r2 i1 i2 = a.test r1 i1 := by
  refine ⟨fun h => ?_, fun h => ?_, rfl⟩ <;> simp [pairFiltered, h, bind, Except.bind, pure, Except.pure]

/-- a criterion on one side only decides alone, whatever the mode -/
theorem pair_decision_one_sided (a : Pred) (mode : PairMode) (r1 r2 : Read) (i1 i2 : Info) :
    pairFiltered (some a) none mode r1 r2 i1 i2 = a.test r1 i1 ∧
    pairFiltered none (some a) mode r1 r2 i1 i2 = a.test r2 i2 := ⟨rfl, rfl⟩

/-- `-m LEN:` / `-m :LEN2` (and `-M`): a one-sided bound yields a predicate for that side only; single-end runs use the
    first bound only. -/
theorem lengthPreds_one_sided (mk : Int → Pred) (n : Int) (x : Option Int) :
    lengthPreds mk true (some n, none) = (some (mk n), none) ∧
    lengthPreds mk true (none, some n) = (none, some (mk n)) ∧
    lengthPreds mk true (some n, some n) = (some (mk n), some (mk n)) ∧
    lengthPreds mk false (some n, x) = (some (mk n), none) := ⟨rfl, rfl, rfl, rfl⟩

/-- hence `-m 20:` looks at R1 only and `-m :20` at R2 only, with every `--pair-filter` mode -/
theorem one_sided_length_bound (n : Int) (mode : PairMode) (r1 r2 : Read) (i1 i2 : Info) :
    pairFiltered (lengthPreds .tooShort true (some n, none)).1 (lengthPreds .tooShort true (some n, none)).2 mode r1 r2 i1 i2
      = .ok (decide ((r1.len : Int) < n)) ∧
    pairFiltered (lengthPreds .tooShort true (none, some n)).1 (lengthPreds .tooShort true (none, some n)).2 mode r1 r2 i1 i2
      = .ok (decide ((r2.len : Int) < n)) ∧
    pairFiltered (lengthPreds .tooLong true (some n, none)).1 (lengthPreds .tooLong true (some n, none)).2 mode r1 r2 i1 i2
      = .ok (decide ((r1.len : Int) > n)) ∧
    pairFiltered (lengthPreds .tooLong true (none, some n)).1 (lengthPreds .tooLong true (none, some n)).2 mode r1 r2 i1 i2
      = .ok (decide ((r2.len : Int) > n)) := ⟨rfl, rfl, rfl, rfl⟩

/-- a pair with a short R2: `-m 3` (both sides, `any`) filters it, `--pair-filter=both` and `first` keep it, `-m 3:` keeps it -/
def exShort : Read := ⟨[114], [65, 67], none⟩
def exLong : Read := ⟨[114], [65, 67, 71, 84], none⟩
example : pairFiltered (some (.tooShort 3)) (some (.tooShort 3)) .any exLong exShort { original := exLong } { original := exShort } = .ok true := rfl
example : pairFiltered (some (.tooShort 3)) (some (.tooShort 3)) .both exLong exShort { original := exLong } { original := exShort } = .ok false := rfl
example : pairFiltered (some (.tooShort 3)) (some (.tooShort 3)) .first exLong exShort { original := exLong } { original := exShort } = .ok false := rfl
example : pairFiltered (some (.tooShort 3)) none .any exLong exShort { original := exLong } { original := exShort } = .ok false := rfl

/-! ## `both` is forced for the untrimmed filters when only one side has adapters -/

/-- Without demultiplexing, with `--discard-untrimmed` or `--untrimmed-output`: the step before the sink is the
    `isUntrimmed` filter, on both reads when paired, and its mode is `both` iff the run is paired and the adapter list of
    one side is empty — regardless of `--pair-filter`; otherwise it is `--pair-filter` (default `any`). -/
theorem untrimmed_filter_forced_both {o : Opts} {names names2 : List String} {steps : List Step} {f : Files}
    (h : makeSteps o names names2 = .ok (steps, f)) (hdm : demuxMode o = .ok 0)
    (hu : o.discardUntrimmed = true ∨ (o.untrimmedOut.isSome || o.untrimmedPaired.isSome) = true) :
    ∃ pre w i, steps = pre ++
      [.filter (some .isUntrimmed) (if o.paired = true then some .isUntrimmed else none)
        (if (o.paired && (names2.isEmpty || names.isEmpty)) = true then .both else o.pairFilter.getD .any) w,
       .sink i] := by
  obtain ⟨dm, hdm', -, hk, heq⟩ := makeSteps_ok h
  rw [hdm] at hdm'
  simp only [Except.ok.injEq] at hdm'
  subst hdm'
  simp only [finalD, show ((0 : Nat) = 1) = False by decide, show ((0 : Nat) = 2) = False by decide, if_false,
    Prod.mk.injEq] at heq
  obtain ⟨rfl, -⟩ := heq
  simp only [finalOk, Bool.and_eq_true, decide_eq_true_eq] at hk
  obtain ⟨⟨⟨hsum, -⟩, -⟩, -⟩ := hk
  have hU : ∃ w, (untrimmedFilter o names names2 (o.pairFilter.getD .any) (front o).1).2 =
      [.filter (some .isUntrimmed) (if o.paired = true then some .isUntrimmed else none)
        (if (o.paired && (names2.isEmpty || names.isEmpty)) = true then .both else o.pairFilter.getD .any) w] := by
    unfold untrimmedFilter
    generalize (o.untrimmedOut.isSome || o.untrimmedPaired.isSome) = ug at hsum hu ⊢
    cases hdt : o.discardTrimmed <;> cases hdu : o.discardUntrimmed <;> cases ug <;> simp [hdt, hdu] at hsum hu
    · exact ⟨(filterWriter o.paired (front o).fst o.untrimmedOut o.untrimmedPaired).2, by simp⟩
    · exact ⟨none, by cases o.paired <;> simp⟩
  obtain ⟨w, hU⟩ := hU
  exact ⟨(front o).2 ++ simpleSteps o, w,
    (untrimmedFilter o names names2 (o.pairFilter.getD .any) (front o).1).1.writers.length, by rw [hU]; simp⟩


/-! ## `--pair-adapters` -/

/-- the two matches of the chosen pair belong to adapters of the same rank (`PairedAdapterCutter` takes the adapters as given: it
    never builds an index, so no list entry is an index object) -/
theorem bestPairGo_same_rank {s1 s2 : Bytes} {ads1 ads2 : List Matchable} {m1 m2 : AnyMatch}
    (hn1 : ∀ a ∈ ads1, a.isIndexed = false) (hn2 : ∀ a ∈ ads2, a.isIndexed = false)
    (h : bestPairGo s1 s2 (ads1.zip ads2) 0 none = some (m1, m2)) :
    ∃ k x1 x2, ads1[k]? = some x1 ∧ ads2[k]? = some x2 ∧ x1.matchTo k s1 = some m1 ∧ x2.matchTo k s2 = some m2 ∧
      m1.adapter = k ∧ m2.adapter = k := by
  rcases bestPair_spec s1 s2 ads1 ads2 with ⟨hn, -⟩ | ⟨j, m, hm, hc, -⟩
  · rw [hn] at h; simp at h
  · rw [hm] at h
    simp only [Option.some.injEq] at h
    subst h
    obtain ⟨x1, x2, e1, e2, t1, t2⟩ := cand_zip.1 hc
    exact ⟨j, x1, x2, e1, e2, t1, t2, matchTo_adapter (hn1 x1 (List.mem_of_getElem? e1)) t1, matchTo_adapter (hn2 x2 (List.mem_of_getElem? e2)) t2⟩

/-- `_find_best_match_pair` is an arg-max: among the ranks `j` at which both the R1 adapter matches R1 and the R2 adapter
    matches R2, the chosen rank `k` has the highest summed score, among those the fewest summed errors, among those
    the lowest rank; and nothing is chosen only if there is no such rank. -/
theorem bestPairGo_is_argmax (s1 s2 : Bytes) (ads1 ads2 : List Matchable) :
    (bestPairGo s1 s2 (ads1.zip ads2) 0 none = none ∧
      ∀ (j : Nat) (x1 x2 : Matchable) (n1 n2 : AnyMatch), ads1[j]? = some x1 → ads2[j]? = some x2 →
        x1.matchTo j s1 = some n1 → x2.matchTo j s2 = some n2 → False) ∨
    (∃ k m1 m2, bestPairGo s1 s2 (ads1.zip ads2) 0 none = some (m1, m2) ∧
      (∃ x1 x2, ads1[k]? = some x1 ∧ ads2[k]? = some x2 ∧ x1.matchTo k s1 = some m1 ∧ x2.matchTo k s2 = some m2) ∧
      ∀ (j : Nat) (x1 x2 : Matchable) (n1 n2 : AnyMatch), ads1[j]? = some x1 → ads2[j]? = some x2 →
        x1.matchTo j s1 = some n1 → x2.matchTo j s2 = some n2 →
        n1.score + n2.score ≤ m1.score + m2.score ∧
        (n1.score + n2.score = m1.score + m2.score → m1.errors + m2.errors ≤ n1.errors + n2.errors) ∧
        (n1.score + n2.score = m1.score + m2.score → n1.errors + n2.errors = m1.errors + m2.errors → k ≤ j)) := by
  rcases bestPair_spec s1 s2 ads1 ads2 with ⟨hn, hall⟩ | ⟨k, m, hm, hc, hopt⟩
  · left
    refine ⟨hn, fun j x1 x2 n1 n2 e1 e2 t1 t2 => ?_⟩
    exact hall j (n1, n2) (cand_zip.2 ⟨x1, x2, e1, e2, t1, t2⟩)
  · right
    obtain ⟨m1, m2⟩ := m
    refine ⟨k, m1, m2, hm, cand_zip.1 hc, fun j x1 x2 n1 n2 e1 e2 t1 t2 => ?_⟩
    obtain ⟨h1, h2⟩ := hopt j (n1, n2) (cand_zip.2 ⟨x1, x2, e1, e2, t1, t2⟩)
    simp only [Beats, pairKey] at h1 h2
    refine ⟨by omega, by omega, fun hs he => h2 (by omega)⟩

/-- **Both or neither.** `PairedAdapterCutter`: either no rank matches on both sides and the pair passes through untouched
    (reads, infos, no events), or one rank `k` is chosen, both mates are processed with the match of their adapter of
    rank `k` (the action applied to each), and both infos get exactly that one match appended. -/
theorem pair_adapters_both_or_neither {a1 a2 ads1 ads2 : List Matchable} {action : Action} {f1 f2 : Bool}
    {r1 r2 o1 o2 : Read} {i1 i2 i1' i2' : Info} {evs : List Event}
    (hn1 : ∀ a ∈ ads1, a.isIndexed = false) (hn2 : ∀ a ∈ ads2, a.isIndexed = false)
    (h : applyP a1 a2 (.pairAdapters ads1 ads2 action f1 f2) (r1, r2) (i1, i2) = .ok ((o1, o2), (i1', i2'), evs)) :
    (bestPairGo r1.seq r2.seq (ads1.zip ads2) 0 none = none ∧ o1 = r1 ∧ o2 = r2 ∧ i1' = i1 ∧ i2' = i2 ∧ evs = []) ∨
    (∃ k x1 x2 m1 m2, bestPairGo r1.seq r2.seq (ads1.zip ads2) 0 none = some (m1, m2) ∧
      ads1[k]? = some x1 ∧ ads2[k]? = some x2 ∧ x1.matchTo k r1.seq = some m1 ∧ x2.matchTo k r2.seq = some m2 ∧
      m1.adapter = k ∧ m2.adapter = k ∧
      (∃ ra, pairActionRead action r1 m1 = .ok (o1, ra)) ∧ (∃ rb, pairActionRead action r2 m2 = .ok (o2, rb)) ∧
      i1'.mts = i1.mts ++ [m1] ∧ i2'.mts = i2.mts ++ [m2] ∧
      evs = [.withAdapter 0, .withAdapter 1, .matched 0 m1 false, .matched 1 m2 false]) := by
  simp only [applyP] at h
  split at h
  · rename_i hb
    simp only [Except.ok.injEq, Prod.mk.injEq] at h
    obtain ⟨⟨rfl, rfl⟩, ⟨rfl, rfl⟩, rfl⟩ := h
    exact .inl ⟨hb, rfl, rfl, rfl, rfl, rfl⟩
  · rename_i m1 m2 hb
    right
    obtain ⟨k, x1, x2, e1, e2, t1, t2, g1, g2⟩ := bestPairGo_same_rank hn1 hn2 hb
    simp only [bind, Except.bind] at h
    split at h
    · simp at h
    · rename_i v1 hv1
      split at h
      · simp at h
      · rename_i v2 hv2
        simp only [pure, Except.pure, Except.ok.injEq, Prod.mk.injEq] at h
        obtain ⟨⟨rfl, rfl⟩, ⟨rfl, rfl⟩, rfl⟩ := h
        refine ⟨k, x1, x2, m1, m2, hb, e1, e2, t1, t2, g1, g2, ⟨v1.2, hv1⟩, ⟨v2.2, hv2⟩, ?_, ?_, rfl⟩
        · cases f1 <;> rfl
        · cases f2 <;> rfl

/-- with the `trim` action both mates are cut by their match, or neither is changed -/
theorem pair_adapters_trim {a1 a2 ads1 ads2 : List Matchable} {f1 f2 : Bool}
    {r1 r2 o1 o2 : Read} {i1 i2 i1' i2' : Info} {evs : List Event}
    (hn1 : ∀ a ∈ ads1, a.isIndexed = false) (hn2 : ∀ a ∈ ads2, a.isIndexed = false)
    (h : applyP a1 a2 (.pairAdapters ads1 ads2 .trim f1 f2) (r1, r2) (i1, i2) = .ok ((o1, o2), (i1', i2'), evs)) :
    (o1 = r1 ∧ o2 = r2 ∧ evs = []) ∨
    (∃ m1 m2, bestPairGo r1.seq r2.seq (ads1.zip ads2) 0 none = some (m1, m2) ∧ m1.adapter = m2.adapter ∧
      o1 = m1.trimmed r1 ∧ o2 = m2.trimmed r2) := by
  rcases pair_adapters_both_or_neither hn1 hn2 h with ⟨-, rfl, rfl, -, -, rfl⟩ | ⟨k, x1, x2, m1, m2, hb, -, -, -, -, g1, g2, ⟨ra, h1⟩, ⟨rb, h2⟩, -⟩
  · exact .inl ⟨rfl, rfl, rfl⟩
  · right
    simp only [pairActionRead, Except.ok.injEq, Prod.mk.injEq] at h1 h2
    refine ⟨m1, m2, hb, by rw [g1, g2], ?_, ?_⟩
    · have : (Action.trim == Action.lowercase) = false := rfl
      simpa [this] using h1.1.symm
    · have : (Action.trim == Action.lowercase) = false := rfl
      simpa [this] using h2.1.symm
/-- **Renaming keeps the mates recognisable as a pair**: `PairedEndRenamer` only accepts pairs whose ids match (dnaio's rule: equal up to
    the first blank, a final `1`/`2`/`3` on both ignored) and only produces such pairs — otherwise the run stops with an error instead of
    writing records that no longer belong together by name. -/
theorem paired_rename_keeps_ids_matched (a1 a2 : List Matchable) (t1 t2 : List Tok) (r1 r2 o1 o2 : Read) (i j : Info × Info)
    (evs : List Event) (h : applyP a1 a2 (.pairedRename t1 t2) (r1, r2) i = .ok ((o1, o2), j, evs)) :
    recordNamesMatch r1.name r2.name = true ∧ recordNamesMatch o1.name o2.name = true ∧
    o1.seq = r1.seq ∧ o1.qual = r1.qual ∧ o2.seq = r2.seq ∧ o2.qual = r2.qual := by
  obtain ⟨i1, i2⟩ := i
  simp only [applyP] at h
  split at h
  · simp at h
  · rename_i hm
    split at h
    · split at h
      · simp at h
      · rename_i hm2
        simp only [Except.ok.injEq, Prod.mk.injEq] at h
        obtain ⟨⟨rfl, rfl⟩, _, _⟩ := h
        exact ⟨by simpa using hm, by simpa using hm2, rfl, rfl, rfl, rfl⟩
    · simp at h
    · simp at h

/-! ## The pair decisions of the real program (regenerated from the working tree on every run)

`Cutadapt.Generated.pairDecisions` holds, for every filtering option × `--pair-filter` setting × (for the trimmed/untrimmed filters) the reads
for which adapters are given, what the real command-line program did with four probe pairs in which the filter's criterion holds for
both reads, R1 only, R2 only, neither. -/

/-- the documented combinations of the two per-read answers -/
def combine : PairMode → Bool → Bool → Bool
  | .any, a, b => a || b
  | .both, a, b => a && b
  | .first, a, _ => a

def requestedMode : String → Option PairMode
  | "any" => some .any
  | "both" => some .both
  | "first" => some .first
  | _ => none

/-- `--pair-filter` if given, otherwise `any`; `both` is forced for the untrimmed filters when adapters are given for one read only -/
def documentedMode (filter requested sided : String) : PairMode :=
  if (filter == "discard_untrimmed" || filter == "untrimmed_output") && sided != "both" then .both
  else (requestedMode requested).getD .any

/-- **Every filter of the real program combines the two per-read answers as documented**: for every observed probe pair the pair was
    removed from the main output exactly when the documented combination of "criterion holds for R1" and "criterion holds for R2" says so —
    for all filters (too short, too long, too many N, expected errors, average error rate, CASAVA, discard-trimmed, discard-untrimmed,
    untrimmed output), all four `--pair-filter` settings and adapters on both reads / R1 only / R2 only. -/
theorem generated_pair_decisions_documented :
    ∀ row ∈ Generated.pairDecisions, ∀ o ∈ row.2.2.2,
      o.2.2 = combine (documentedMode row.1 row.2.1 row.2.2.1) o.1 o.2.1 := by
  decide

/-- … and **every filter step that the assembly model builds uses the documented combination**, for all option records: its mode is
    `--pair-filter` (default `any`), except that the untrimmed filter of a paired run with adapters for one read only uses `both` — so the
    model, to which the theorems above apply, and the program (the table) agree on how a pair is judged. -/
theorem filter_modes_documented {o : Opts} {names names2 : List String} {steps : List Step} {f : Files}
    (h : makeSteps o names names2 = .ok (steps, f)) (p1 p2 : Option Pred) (mode : PairMode) (w : Option Nat)
    (hs : Step.filter p1 p2 mode w ∈ steps) :
    mode = o.pairFilter.getD .any ∨
      (mode = .both ∧ p1 = some .isUntrimmed ∧ o.paired = true ∧ (names2.isEmpty || names.isEmpty) = true ∧
        (o.discardUntrimmed || (o.untrimmedOut.isSome || o.untrimmedPaired.isSome)) = true) := by
  obtain ⟨dm, -, -, -, heq⟩ := makeSteps_ok h
  have hfront : ∀ s ∈ (front o).2 ++ simpleSteps o, ∀ p1 p2 mode w, s = Step.filter p1 p2 mode w → mode = o.pairFilter.getD .any := by
    intro s hs p1 p2 mode w he
    subst he
    simp only [front, addLen, addText, simpleSteps, optSteps, bothStep, List.mem_append] at hs
    rcases hs with hs | hs
    · cases hmax : o.maxLen <;> cases hmin : o.minLen <;> cases hwf : o.wildcardFile <;> cases hif : o.infoFile <;> cases hrf : o.restFile <;>
        simp [hmax, hmin, hwf, hif, hrf] at hs <;> grind
    · cases hn : o.maxN <;> cases he : o.maxEE <;> cases ha : o.maxAER <;> cases hq : o.inputHasQualities <;> cases hc : o.discardCasava <;>
        cases hp : o.paired <;> simp [hn, he, ha, hq, hc, hp] at hs <;> grind
  simp only [finalD] at heq
  split at heq
  · split at heq <;> (simp only [Prod.mk.injEq] at heq; obtain ⟨rfl, -⟩ := heq; simp only [List.mem_append, List.mem_singleton] at hs)
    · rcases hs with hs | hs
      · exact .inl (hfront _ (List.mem_append.mpr hs) _ _ _ _ rfl)
      · cases hs
    · rcases hs with hs | hs
      · exact .inl (hfront _ (List.mem_append.mpr hs) _ _ _ _ rfl)
      · cases hs
  · split at heq
    · simp only [Prod.mk.injEq] at heq
      obtain ⟨rfl, -⟩ := heq
      simp only [List.mem_append, List.mem_singleton] at hs
      rcases hs with hs | hs
      · exact .inl (hfront _ (List.mem_append.mpr hs) _ _ _ _ rfl)
      · cases hs
    · simp only [Prod.mk.injEq] at heq
      obtain ⟨rfl, -⟩ := heq
      simp only [List.mem_append, List.mem_singleton] at hs
      rcases hs with (hs | hs) | hs
      · exact .inl (hfront _ (List.mem_append.mpr hs) _ _ _ _ rfl)
      · unfold untrimmedFilter at hs
        simp only [bothStep] at hs
        cases hdt : o.discardTrimmed <;> cases hdu : o.discardUntrimmed <;> cases hp : o.paired <;>
          cases hug : (o.untrimmedOut.isSome || o.untrimmedPaired.isSome) <;>
          cases hem : (names2.isEmpty || names.isEmpty) <;> simp [hdt, hdu, hp, hug, hem] at hs ⊢ <;> grind
      · cases hs

/-! ## `--pair-adapters`: the rank of an adapter is its position on the command line (observed on the real program)

`Cutadapt.Generated.pairRankObserved` holds, for several pairs of `-a` / `-A` lists in which sequences are given more than once (combinatorial
dual indices: ranks (X,P), (Y,P), (X,Q); some specifications are verbatim repetitions), what the real command-line program did with the sixteen
probe pairs that carry none or an exact copy of one of three sequences in R1 and in R2. -/

/-- the documented outcome: both mates are cut (1) iff some rank — position `i` in both lists — has its R1 adapter in R1 and its R2 adapter in
    R2; otherwise neither mate is changed (0). `a`, `b`: 0 = no adapter in the read, `k+1` = a copy of sequence `k`. -/
def docPairOutcome (l1 l2 : List Nat) (a b : Nat) : Nat :=
  if (l1.zip l2).any (fun p => p.1 + 1 == a && p.2 + 1 == b) then 1 else 0

/-- **Both mates are trimmed by the adapters of one rank, or neither is changed — with the rank counted on the command line**: every observed
    probe pair was cut at both copies exactly when the `i`-th `-a` and the `i`-th `-A` adapter, for one `i`, occur in R1 and R2, and left
    untouched otherwise; no pair was changed on one side only. (A program that dropped or reordered repeated specifications on one side would
    shift the ranks against each other and fail this table.) -/
theorem generated_pair_ranks_documented :
    ∀ row ∈ Generated.pairRankObserved,
      ∃ ls, Generated.pairRankLists[row.1]? = some ls ∧ row.2.2.2 = docPairOutcome ls.1 ls.2 row.2.1 row.2.2.1 := by
  decide

/-- the table is not trivial: it holds trimmed pairs, untouched pairs whose mates both carry an adapter (of different ranks), and lists with
    repeated sequences -/
example : (Generated.pairRankObserved.any (fun r => r.2.2.2 == 1) &&
    Generated.pairRankObserved.any (fun r => r.2.2.2 == 0 && r.2.1 != 0 && r.2.2.1 != 0) &&
    Generated.pairRankLists.any (fun l => !l.1.Nodup || !l.2.Nodup)) = true := by decide

end Cutadapt.C05
