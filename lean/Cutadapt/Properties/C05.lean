import Cutadapt.Stats
namespace Cutadapt.C05
end Cutadapt.C05
