import Cutadapt.Pipeline
namespace Cutadapt.C03
end Cutadapt.C03
