import Cutadapt.Generated.Actions
import Cutadapt.Proofs.ModsPairedPipe
import Cutadapt.Proofs.ModsAssembly
import Cutadapt.Proofs.ModsBounds
/-! # C03 — output reads are aligned slices of the input; qualities stay in step

Model: `Cutadapt.Records` (`Read`, matches), `Cutadapt.Modifiers` (`applyS`, `matchAndTrim`, `rounds`),
`Cutadapt.Pipeline` (`applyP`, `runModsS`). Helper lemmas: `Cutadapt/Proofs/Mods*.lean`.

Vocabulary (defined in `Cutadapt.Proofs.ModsSeg` / `ModsStages`, restated below as `…_def` theorems):
* `SameSeg r r'` — `r'` carries a contiguous slice of the sequence of `r` and the *same* slice of its qualities;
* `QualOK r` — qualities, when present, are as long as the sequence (dnaio's invariant on input records);
* `SegRel strict bases r r'` — as `SameSeg`, with the qualities zero-capped by `bases` in turn, and (when `strict = false`)
  the sequence only required to have the length of the slice (mask / lowercase rewrite bases, never lengths);
* `AdaptersInBounds ads` — every match of every adapter has `rstart ≤ rstop ≤ len(sequence)` (soundness of the aligner,
  property C01; used only where mask/lowercase need `remainder(matches)` to lie inside the read).

All theorems are about arbitrary reads, adapters and option values. -/
namespace Cutadapt.C03
open Cutadapt Cutadapt.Adapters Cutadapt.Qualtrim

/-! ## 1. Slices of reads -/

theorem sameSeg_def (r r' : Read) :
    SameSeg r r' ↔ ∃ a b, r'.seq = seg r.seq a b ∧ r'.qual = r.qual.map (seg · a b) := Iff.rfl

theorem qualOK_def (r : Read) : QualOK r ↔ ∀ q, r.qual = some q → q.length = r.seq.length := Iff.rfl

/-- a slice of a slice is a slice (bounds are clamped, hence the `min`) -/
theorem seg_of_seg (xs : List α) (a b c d : Nat) : seg (seg xs a b) c d = seg xs (a + c) (min b (a + d)) :=
  seg_seg xs a b c d

theorem sameSeg_refl (r : Read) : SameSeg r r := SameSeg.refl r

theorem sameSeg_trans {r r' r'' : Read} (h1 : SameSeg r r') (h2 : SameSeg r' r'') : SameSeg r r'' := h1.trans h2

/-- slicing keeps sequence and qualities equally long -/
theorem sameSeg_qualOK {r r' : Read} (h : SameSeg r r') (hq : QualOK r) : QualOK r' := h.qualOK hq

theorem sub_sameSeg (r : Read) (a b : Nat) : SameSeg r (r.sub a b) ∧ (r.sub a b).name = r.name := ⟨SameSeg.sub r a b, rfl⟩

theorem takeFront_sameSeg (r : Read) (k : Nat) : SameSeg r (r.takeFront k) ∧ (r.takeFront k).name = r.name :=
  ⟨SameSeg.takeFront r k, rfl⟩

theorem dropFront_sameSeg (r : Read) (k : Nat) : SameSeg r (r.dropFront k) ∧ (r.dropFront k).name = r.name :=
  ⟨SameSeg.dropFront r k, rfl⟩

/-- Python slicing with optional / negative bounds normalises the bounds against the length of the string sliced, so
    sequence and qualities are cut at the same places because they are equally long -/
theorem slice_sameSeg (r : Read) (hq : QualOK r) (a b : Option Int) :
    SameSeg r (r.slice a b) ∧ (r.slice a b).name = r.name := ⟨SameSeg.slice r hq a b, rfl⟩

/-- `match.trimmed(read)` for single and linked matches -/
theorem trimmed_sameSeg (m : AnyMatch) (r : Read) : SameSeg r (m.trimmed r) ∧ (m.trimmed r).name = r.name :=
  ⟨m.trimmed_sameSeg r, m.trimmed_name r⟩

/-- the reverse complement of a slice is a slice of the reverse complement -/
theorem revcomp_sameSeg {r r' : Read} (h : SameSeg r r') (hq : QualOK r) : SameSeg r.revcomp r'.revcomp := h.revcomp hq

example : (⟨[114], [65,67,71,84,65], some [33,34,35,36,37]⟩ : Read).slice (some 1) (some (-1))
    = ⟨[114], [67,71,84], some [34,35,36]⟩ := by decide

/-! ## 2. Modifiers other than the adapter stage -/

/-- **`-u`, `--nextseq-trim`, `-q`, `--poly-a`, `--length`, `--trim-n` only slice**: the result is a slice of the input
    (same bounds for sequence and qualities), with the same name; matches, original read and orientation flag of the
    `ModificationInfo` are untouched. (`.cut 0` is never constructed; the model raises, so the statement is vacuous there.) -/
theorem trimming_modifiers_slice (names : Names) (side : Nat) (m : SMod) (hm : m.isTrimmer = true)
    (r r' : Read) (i i' : Info) (evs : List Event) (hq : QualOK r)
    (h : applyS names side m r i = .ok (r', i', evs)) :
    SameSeg r r' ∧ r'.name = r.name ∧ i'.mts = i.mts ∧ i'.original = i.original ∧ i'.isRc = i.isRc :=
  applyS_trimmer names side m hm r r' i i' evs hq h

theorem isTrimmer_iff (m : SMod) :
    m.isTrimmer = true ↔ (∃ n, m = .cut n) ∨ (∃ c b, m = .nextseq c b) ∨ (∃ cf cb b, m = .qtrim cf cb b) ∨
      (∃ rc, m = .polyA rc) ∨ (∃ n, m = .shorten n) ∨ m = .trimN := by
  cases m <;> simp [SMod.isTrimmer]

/-- **`--length-tag`, `--strip-suffix`, `-x`/`-y`, `--rename` leave bases and qualities alone** -/
theorem name_modifiers_keep_bases (names : Names) (side : Nat) (m : SMod) (hm : m.isNameMod = true)
    (r r' : Read) (i i' : Info) (evs : List Event) (h : applyS names side m r i = .ok (r', i', evs)) :
    r'.seq = r.seq ∧ r'.qual = r.qual ∧ i' = i ∧ evs = [] :=
  applyS_nameMod names side m hm r r' i i' evs h

theorem isNameMod_iff (m : SMod) :
    m.isNameMod = true ↔ (∃ t, m = .lengthTag t) ∨ (∃ s, m = .stripSuffix s) ∨ (∃ p s, m = .prefixSuffix p s) ∨
      (∃ t, m = .rename t) := by
  cases m <;> simp [SMod.isNameMod]

/-- **`-z` only raises qualities below the base to the base**: sequence and name unchanged, the quality string keeps its
    length, and position `k` holds `base` if the character was below `base`, the old character otherwise -/
theorem zero_cap_only_below_base (names : Names) (side base : Nat) (r r' : Read) (i i' : Info) (evs : List Event)
    (h : applyS names side (.zeroCap base) r i = .ok (r', i', evs)) :
    r'.seq = r.seq ∧ r'.name = r.name ∧ i' = i ∧
    (r.qual = none → r'.qual = none) ∧
    (∀ q, r.qual = some q → ∃ q', r'.qual = some q' ∧ q'.length = q.length ∧
      ∀ k (hk : k < q.length), q'[k]? = some (if q[k].toNat < base then base.toUInt8 else q[k])) := by
  obtain ⟨h1, h2, h3, h4, _⟩ := applyS_zeroCap names side base r r' i i' evs h
  refine ⟨h1, h2, h4, ?_, ?_⟩
  · intro hn; rw [h3, hn]; rfl
  · intro q hq
    refine ⟨capQual base q, by rw [h3, hq]; rfl, capQual_length base q, ?_⟩
    intro k hk
    simp [capQual, hk]

example : applyS [] 0 (.zeroCap 33) ⟨[114], [65,67,71], some [10,33,50]⟩ { original := default } =
    .ok (⟨[114], [65,67,71], some [33,33,50]⟩, { original := default }, []) := rfl

/-! ## 3. `match_and_trim`, action by action -/

/-- the loop `for _ in range(times)` applied to the read the cutter searches -/
abbrev loopResult (c : Cutter) (read : Read) : Read × List AnyMatch := rounds c.adapters c.times (searchRead c read) []

theorem searchRead_def (c : Cutter) (read : Read) :
    searchRead c read = if c.action = .lowercase then { read with seq := upperBytes read.seq } else read := by
  simp [searchRead, Action.beq_eq_decide]

/-- `match_and_trim` is the fast path `_match_and_trim_once_action_trim` when `times = 1` and the action is `trim`, and
    the general path (loop over the rounds, then the action) otherwise -/
theorem matchAndTrim_paths (c : Cutter) (read : Read) :
    matchAndTrim c read =
      if c.times == 1 && c.action == .trim then
        match bestMatch c.adapters read.seq with
        | some m => .ok (m.trimmed read, [m], read)
        | none => .ok (read, [], read)
      else generalPath c read := matchAndTrim_unfold c read

theorem generalPath_def (c : Cutter) (read : Read) :
    generalPath c read =
      match (loopResult c read).2.getLast? with
      | none => .ok ((loopResult c read).1, [], searchRead c read)
      | some last =>
        match c.action with
        | .trim => .ok ((loopResult c read).1, (loopResult c read).2, searchRead c read)
        | .retain => .ok ((searchRead c read).sub last.retainedAdapterInterval.1 last.retainedAdapterInterval.2,
                          (loopResult c read).2, searchRead c read)
        | .mask => .ok (maskedRead (searchRead c read) (loopResult c read).2, (loopResult c read).2, searchRead c read)
        | .lowercase => .ok (lowercasedRead (searchRead c read) (loopResult c read).2, (loopResult c read).2, searchRead c read)
        | .crop =>
          match last with
          | .single _ r => .ok ((searchRead c read).sub r.m.rstart r.m.rstop, (loopResult c read).2, searchRead c read)
          | .linked _ _ _ => .error .attribute
        | .none => .ok (searchRead c read, (loopResult c read).2, searchRead c read) := by
  unfold generalPath actionResult loopResult
  simp only
  cases (rounds c.adapters c.times (searchRead c read) []).2.getLast? with
  | none => rfl
  | some last => cases c.action <;> rfl

/-- **The fast path (`times = 1`, action `trim`) computes what the general path computes** -/
theorem fastpath_eq_general (c : Cutter) (read : Read) (ht : c.times = 1) (ha : c.action = .trim) :
    (match bestMatch c.adapters read.seq with
      | some m => (.ok (m.trimmed read, [m], read) : Except Err (Read × List AnyMatch × Read))
      | none => .ok (read, [], read)) = generalPath c read := fastpath_eq_general' c read ht ha

/-- hence `match_and_trim` *is* the general path, for every cutter -/
theorem matchAndTrim_is_general (c : Cutter) (read : Read) : matchAndTrim c read = generalPath c read :=
  matchAndTrim_eq_general c read

/-- no round found a match: the read is handed back unchanged (`lowercase`: upper-cased) without matches -/
theorem no_match_unchanged (c : Cutter) (read : Read) (h : (loopResult c read).2 = []) :
    matchAndTrim c read = .ok (searchRead c read, [], searchRead c read) := matchAndTrim_no_match c read h

/-- **trim**: the read after removing the matches round by round — a slice of the input -/
theorem action_trim_slice (c : Cutter) (read : Read) (ha : c.action = .trim) :
    matchAndTrim c read = .ok ((rounds c.adapters c.times read []).1, (rounds c.adapters c.times read []).2, read) ∧
    (rounds c.adapters c.times read []).1 = trimAll read (rounds c.adapters c.times read []).2 ∧
    SameSeg read (rounds c.adapters c.times read []).1 := by
  have hs : searchRead c read = read := searchRead_of_ne c read (by simp [ha])
  have h2 := (rounds_spec' c.adapters c.times read).2.1
  refine ⟨?_, h2, by rw [h2]; exact trimAll_sameSeg _ _⟩
  rcases getLast?_cases (rounds c.adapters c.times read []).2 with hn | ⟨last, hl⟩
  · rw [matchAndTrim_no_match c read (by rw [hs]; exact hn), hs, hn, rounds_nil_read _ _ _ hn]
  · rw [matchAndTrim_last c read last (by rw [hs]; exact hl), hs]
    simp [actionResult, ha]

/-- **retain**: `read[a:b]` for `(a, b) = retained_adapter_interval()` of the *last* match -/
theorem action_retain_interval (c : Cutter) (read : Read) (ha : c.action = .retain) (last : AnyMatch)
    (hl : (rounds c.adapters c.times read []).2.getLast? = some last) :
    matchAndTrim c read = .ok (read.sub last.retainedAdapterInterval.1 last.retainedAdapterInterval.2,
      (rounds c.adapters c.times read []).2, read) := by
  have hs : searchRead c read = read := searchRead_of_ne c read (by simp [ha])
  rw [matchAndTrim_last c read last (by rw [hs]; exact hl), hs]
  simp [actionResult, ha]

/-- the documented interval of a single match: from the start of a 5' adapter to the end of the read, from the start of
    the read to the end of a 3' adapter -/
theorem retained_interval_single (a : Nat) (r : MatchRec) :
    (AnyMatch.single a r).retainedAdapterInterval =
      if r.m.before then (r.m.rstart, r.sequence.length) else (0, r.m.rstop) := rfl

/-- **crop**: exactly the matched stretch `read[rstart:rstop]` of the last match (a single match) -/
theorem action_crop_interval (c : Cutter) (read : Read) (ha : c.action = .crop) (a : Nat) (r : MatchRec)
    (hl : (rounds c.adapters c.times read []).2.getLast? = some (.single a r)) :
    matchAndTrim c read = .ok (read.sub r.m.rstart r.m.rstop, (rounds c.adapters c.times read []).2, read) := by
  have hs : searchRead c read = read := searchRead_of_ne c read (by simp [ha])
  rw [matchAndTrim_last c read _ (by rw [hs]; exact hl), hs]
  simp [actionResult, ha]

/-- crop with a linked adapter is unsupported (documented); the code raises `AttributeError` -/
theorem action_crop_linked_unsupported (c : Cutter) (read : Read) (ha : c.action = .crop) (a : Nat)
    (f b : Option MatchRec) (hl : (rounds c.adapters c.times read []).2.getLast? = some (.linked a f b)) :
    matchAndTrim c read = .error .attribute := by
  have hs : searchRead c read = read := searchRead_of_ne c read (by simp [ha])
  rw [matchAndTrim_last c read _ (by rw [hs]; exact hl), hs]
  simp [actionResult, ha]

/-- **none**: the read is returned as it was; the matches are reported -/
theorem action_none_identity (c : Cutter) (read : Read) (ha : c.action = .none) :
    matchAndTrim c read = .ok (read, (rounds c.adapters c.times read []).2, read) := by
  have hs : searchRead c read = read := searchRead_of_ne c read (by simp [ha])
  rcases getLast?_cases (rounds c.adapters c.times read []).2 with hn | ⟨last, hl⟩
  · rw [matchAndTrim_no_match c read (by rw [hs]; exact hn), hs, hn]
  · rw [matchAndTrim_last c read last (by rw [hs]; exact hl), hs]
    simp [actionResult, ha]

/-- **mask**: with `(start, stop) = remainder(matches)` inside the read: same name, same qualities, same length;
    positions in `[start, stop)` keep the input base, all others are `N` -/
theorem action_mask_spec (c : Cutter) (read : Read) (ha : c.action = .mask)
    (hne : (rounds c.adapters c.times read []).2 ≠ [])
    (h1 : (remainder (rounds c.adapters c.times read []).2).1 ≤ (remainder (rounds c.adapters c.times read []).2).2)
    (h2 : (remainder (rounds c.adapters c.times read []).2).2 ≤ read.len) :
    ∃ out, matchAndTrim c read = .ok (out, (rounds c.adapters c.times read []).2, read) ∧
      out.name = read.name ∧ out.qual = read.qual ∧ out.seq.length = read.seq.length ∧
      ∀ k, out.seq[k]? = (read.seq[k]?).map (fun x =>
        if (remainder (rounds c.adapters c.times read []).2).1 ≤ k ∧ k < (remainder (rounds c.adapters c.times read []).2).2
        then x else 78) := by
  have hs : searchRead c read = read := searchRead_of_ne c read (by simp [ha])
  rcases getLast?_cases (rounds c.adapters c.times read []).2 with hn | ⟨last, hl⟩
  · exact absurd hn hne
  · refine ⟨maskedRead read (rounds c.adapters c.times read []).2, ?_, ?_⟩
    · rw [matchAndTrim_last c read last (by rw [hs]; exact hl), hs]
      simp [actionResult, ha]
    · obtain ⟨m1, m2, m3, m4⟩ := maskedRead_spec read _ h1 h2
      exact ⟨m3, m2, m1, m4⟩

/-- **lowercase**: the whole read is upper-cased first (also in the caller's object); then, with
    `(start, stop) = remainder(matches)` inside the read: same name, qualities and length; positions in `[start, stop)`
    hold the upper-cased input base, all others the lower-cased input base -/
theorem action_lowercase_spec (c : Cutter) (read : Read) (ha : c.action = .lowercase)
    (hne : (loopResult c read).2 ≠ [])
    (h1 : (remainder (loopResult c read).2).1 ≤ (remainder (loopResult c read).2).2)
    (h2 : (remainder (loopResult c read).2).2 ≤ read.len) :
    ∃ out, matchAndTrim c read = .ok (out, (loopResult c read).2, { read with seq := upperBytes read.seq }) ∧
      out.name = read.name ∧ out.qual = read.qual ∧ out.seq.length = read.seq.length ∧
      ∀ k, out.seq[k]? = (read.seq[k]?).map (fun x =>
        if (remainder (loopResult c read).2).1 ≤ k ∧ k < (remainder (loopResult c read).2).2
        then asciiUpper x else asciiLower x) := by
  have hs : searchRead c read = { read with seq := upperBytes read.seq } := by simp [searchRead, ha, Action.beq_eq_decide]
  unfold loopResult at *
  rcases getLast?_cases (rounds c.adapters c.times (searchRead c read) []).2 with hn | ⟨last, hl⟩
  · exact absurd hn hne
  · refine ⟨lowercasedRead { read with seq := upperBytes read.seq } (rounds c.adapters c.times (searchRead c read) []).2, ?_, ?_⟩
    · rw [matchAndTrim_last c read last hl, hs]
      simp [actionResult, ha]
    · obtain ⟨m1, m2, m3, m4⟩ := lowercasedRead_spec read _ h1 h2
      exact ⟨m3, m2, m1, m4⟩

/-- the hypotheses of `action_mask_spec` / `action_lowercase_spec` hold for sound adapters, and the interval is exactly
    what the trim action would keep: `remainder(matches)` is the slice left after removing the matches -/
theorem marked_interval_is_trim_interval (c : Cutter) (hab : AdaptersInBounds c.adapters) (read : Read)
    (hne : (loopResult c read).2 ≠ []) :
    (remainder (loopResult c read).2).1 ≤ (remainder (loopResult c read).2).2 ∧
    (remainder (loopResult c read).2).2 ≤ read.len ∧
    (loopResult c read).1.seq =
      seg (searchRead c read).seq (remainder (loopResult c read).2).1 (remainder (loopResult c read).2).2 := by
  obtain ⟨a, _, b1, b2⟩ := rounds_remainder c.adapters hab c.times (searchRead c read) hne
  refine ⟨b1, ?_, a⟩
  have : (searchRead c read).len = read.len := by unfold searchRead Read.len; split <;> simp [upperBytes]
  rw [← this]; exact b2

/-! ## 4. The rounds and `remainder(matches)` -/

/-- **`rounds`**: at most `t` matches; the result is the input with the matches removed in turn; match `k+1` is the
    best match on what matches `1..k` left; the loop stops early only at a round without match -/
theorem rounds_spec (ads : List Matchable) (t : Nat) (read : Read) :
    (rounds ads t read []).2.length ≤ t ∧
    (rounds ads t read []).1 = trimAll read (rounds ads t read []).2 ∧
    (∀ k (h : k < (rounds ads t read []).2.length),
        bestMatch ads (trimAll read ((rounds ads t read []).2.take k)).seq = some (rounds ads t read []).2[k]) ∧
    ((rounds ads t read []).2.length < t → bestMatch ads (rounds ads t read []).1.seq = none) :=
  rounds_spec' ads t read

theorem trimAll_def (rd : Read) (ms : List AnyMatch) : trimAll rd ms = ms.foldl (fun r m => m.trimmed r) rd := rfl

theorem rounds_trimmed_is_seg (ads : List Matchable) (t : Nat) (read : Read) :
    SameSeg read (rounds ads t read []).1 ∧ (rounds ads t read []).1.name = read.name := by
  rw [(rounds_spec' ads t read).2.1]
  exact ⟨trimAll_sameSeg _ _, trimAll_name _ _⟩

/-- the matches `rounds` returns form a chain: every part of every match carries (as `match.sequence`) exactly the
    string left by the parts before it, every match has a part, and (for sound adapters) all coordinates are in bounds -/
theorem rounds_matches_chain (ads : List Matchable) (t : Nat) (read : Read) :
    (∀ m ∈ (rounds ads t read []).2, m.parts ≠ []) ∧ MatchChain read (rounds ads t read []).2 ∧
    (AdaptersInBounds ads → ∀ m ∈ (rounds ads t read []).2, ∀ p ∈ m.parts, p.InBounds) :=
  rounds_chain ads t read

/-- **`remainder(matches)` is what the trim action keeps** — for single and linked matches alike: if each part of each
    match was found in what the previous parts left and has in-bounds coordinates, then removing the matches in turn
    leaves `read[start:stop]` with `(start, stop) = remainder(matches)`, and `0 ≤ start ≤ stop ≤ len(read)` -/
theorem remainder_correct (read : Read) (hq : QualOK read) (ms : List AnyMatch) (hne : ms ≠ [])
    (hp : ∀ m ∈ ms, m.parts ≠ []) (hc : MatchChain read ms) (hb : ∀ m ∈ ms, ∀ p ∈ m.parts, p.InBounds) :
    trimAll read ms = read.sub (remainder ms).1 (remainder ms).2 ∧
    (remainder ms).1 ≤ (remainder ms).2 ∧ (remainder ms).2 ≤ read.len := by
  obtain ⟨_, h2, h3, h4⟩ := remainder_correct' read ms hne hp hc hb
  exact ⟨h2 hq, h3, h4⟩

/-- … in particular for what `rounds` returns -/
theorem rounds_remainder_correct (ads : List Matchable) (hab : AdaptersInBounds ads) (t : Nat) (read : Read)
    (hq : QualOK read) (hne : (rounds ads t read []).2 ≠ []) :
    (rounds ads t read []).1 = read.sub (remainder (rounds ads t read []).2).1 (remainder (rounds ads t read []).2).2 ∧
    (remainder (rounds ads t read []).2).1 ≤ (remainder (rounds ads t read []).2).2 ∧
    (remainder (rounds ads t read []).2).2 ≤ read.len := by
  obtain ⟨_, h2, h3, h4⟩ := rounds_remainder ads hab t read hne
  exact ⟨h2 hq, h3, h4⟩

/-! ## 5. The adapter stage -/

/-- **`AdapterCutter` with a cutting action**: a slice of the input with the same name; `action = none`: the input -/
theorem adapter_stage_slice (names : Names) (side : Nat) (c : Cutter) (first : Bool)
    (ha : c.action = .trim ∨ c.action = .retain ∨ c.action = .crop ∨ c.action = .none)
    (r r' : Read) (i i' : Info) (evs : List Event) (h : applyS names side (.adapters c first) r i = .ok (r', i', evs)) :
    SameSeg r r' ∧ r'.name = r.name ∧ i'.isRc = i.isRc ∧ (c.action = .none → r' = r) := by
  rw [applyS_adapters] at h
  split at h
  · simp at h
  · rename_i tr ms ra hmt
    simp only [Except.ok.injEq, Prod.mk.injEq] at h
    obtain ⟨rfl, rfl, _⟩ := h
    obtain ⟨h1, h2, _, h4⟩ := matchAndTrim_slice c r _ ra ms ha hmt
    exact ⟨h1, h2, originalAfter_isRc _ _ _, h4⟩

/-- **`ReverseComplementer` with a cutting action**: a slice of the input, or — exactly when the stage sets
    `info.is_rc = True` — of its reverse complement (name: `" rc"` appended iff `suffix`); `action = none`: the chosen
    orientation itself -/
theorem revcomp_stage_slice (names : Names) (side : Nat) (c : Cutter) (sfx first : Bool)
    (ha : c.action = .trim ∨ c.action = .retain ∨ c.action = .crop ∨ c.action = .none)
    (r r' : Read) (i i' : Info) (evs : List Event)
    (h : applyS names side (.revcomp c sfx first) r i = .ok (r', i', evs)) :
    (i'.isRc = some true ∧ SameSeg r.revcomp r' ∧ r'.name = r.name ++ (if sfx then bytesOfStr " rc" else []) ∧
      (c.action = .none → r'.seq = r.revcomp.seq ∧ r'.qual = r.revcomp.qual)) ∨
    (i'.isRc = some false ∧ SameSeg r r' ∧ r'.name = r.name ∧ (c.action = .none → r' = r)) := by
  rw [applyS_revcomp] at h
  split at h
  · simp at h
  · rename_i ftr fms fa hf
    split at h
    · simp at h
    · rename_i rtr rms ra' hr
      split at h
      · simp only [Except.ok.injEq, Prod.mk.injEq] at h
        obtain ⟨rfl, rfl, _⟩ := h
        left
        obtain ⟨⟨a, b, h1, h2⟩, h3, _, h5⟩ := matchAndTrim_slice c _ _ _ _ ha hr
        refine ⟨rfl, ⟨a, b, ?_, ?_⟩, ?_, ?_⟩
        · split <;> assumption
        · split <;> assumption
        · cases sfx <;> simp [h3, Read.revcomp_name]
        · intro hn; rw [← h5 hn]; split <;> exact ⟨rfl, rfl⟩
      · simp only [Except.ok.injEq, Prod.mk.injEq] at h
        obtain ⟨rfl, rfl, _⟩ := h
        right
        obtain ⟨h1, h2, _, h4⟩ := matchAndTrim_slice c _ _ _ _ ha hf
        exact ⟨rfl, h1, h2, h4⟩

/-- the marking actions keep length, qualities and name (adapters with in-bounds matches) -/
theorem adapter_stage_marked (names : Names) (side : Nat) (c : Cutter) (first : Bool)
    (ha : c.action = .mask ∨ c.action = .lowercase) (hab : AdaptersInBounds c.adapters)
    (r r' : Read) (i i' : Info) (evs : List Event) (h : applyS names side (.adapters c first) r i = .ok (r', i', evs)) :
    r'.seq.length = r.seq.length ∧ r'.qual = r.qual ∧ r'.name = r.name := by
  rw [applyS_adapters] at h
  split at h
  · simp at h
  · rename_i tr ms ra hmt
    simp only [Except.ok.injEq, Prod.mk.injEq] at h
    obtain ⟨rfl, rfl, _⟩ := h
    exact matchAndTrim_marked c hab r _ ra ms ha hmt

/-- **Sequence and qualities always have equal length**: every single modifier keeps `|qual| = |seq|`
    (mask / lowercase: for adapters with in-bounds matches) -/
theorem qualOK_preserved (names : Names) (side : Nat) (m : SMod) (hok : m.OK false) (r r' : Read) (i i' : Info)
    (evs : List Event) (hq : QualOK r) (h : applyS names side m r i = .ok (r', i', evs)) : QualOK r' := by
  by_cases hrc : m.isRevcomp = true
  · cases m with
    | revcomp c sfx first =>
      rcases applyS_revcomp_segRel false names side c sfx first hok r r' i i' evs h with ⟨_, a⟩ | ⟨_, a⟩
      · exact a.qualOK hq.revcomp
      · exact a.qualOK hq
    | _ => simp [SMod.isRevcomp] at hrc
  · exact (applyS_segRel false names side m hok (by simpa using hrc) r r' i i' evs hq h).1.qualOK hq

/-! ## 6. The whole modifier list (single-end) -/

theorem segRel_def (strict : Bool) (bases : List Nat) (r r' : Read) :
    SegRel strict bases r r' ↔ ∃ a b,
      ((seg r.seq a b).length = r'.seq.length ∧ (strict = true → seg r.seq a b = r'.seq)) ∧
      r'.qual = r.qual.map (fun q => capAll bases (seg q a b)) := Iff.rfl

theorem capAll_def (bases : List Nat) (q : Bytes) :
    capAll bases q = bases.foldl (fun q b => q.map (fun c => if c.toNat < b then b.toUInt8 else c)) q := rfl

theorem segRel_strict_nocap (r r' : Read) : SegRel true [] r r' ↔ SameSeg r r' := segRel_true_nil_iff r r'

/-- zero-capping commutes with slicing -/
theorem zero_cap_commutes_with_slicing (bases : List Nat) (q : Bytes) (a b : Nat) :
    seg (capAll bases q) a b = capAll bases (seg q a b) := capAll_seg bases q a b

/-- which modifier lists the pipeline theorems cover: the adapter stage (if any) uses a cutting action when `strict`,
    or any action with sound adapters otherwise -/
theorem smod_ok_def (strict : Bool) (m : SMod) :
    m.OK strict ↔ ∀ c, ((∃ f, m = .adapters c f) ∨ (∃ s f, m = .revcomp c s f)) →
      ((c.action = .trim ∨ c.action = .retain ∨ c.action = .crop ∨ c.action = .none) ∨
       (strict = false ∧ AdaptersInBounds c.adapters)) := by
  cases m <;> simp [SMod.OK, CutterOK]

/-- **Output reads are aligned slices of the input.** For every modifier list with at most one `--revcomp` stage whose
    adapter stage cuts (trim / retain / crop) or does nothing, and every input read with `|qual| = |seq|`:
    the output sequence is `input[a:b]` — of the reverse complement iff the stage chose that orientation
    (`info.is_rc = True`) — the output qualities are the same slice `[a:b]` of the (reversed) input qualities, changed at
    most by the zero-cappers of the list; and sequence and qualities again have equal length. -/
theorem pipeline_output_is_slice (names : Names) (mods : List SMod) (hok : ∀ m ∈ mods, m.OK true)
    (hrc : revcompStages mods ≤ 1) (r r' : Read) (i i' : Info) (evs evs' : List Event) (hq : QualOK r)
    (hi : i.isRc ≠ some true) (h : runModsS names mods r i evs = .ok (r', i', evs')) :
    QualOK r' ∧
    ∃ a b, r'.seq = seg (if i'.isRc = some true then r.revcomp else r).seq a b ∧
      r'.qual = (if i'.isRc = some true then r.revcomp else r).qual.map (fun q => capAll (zeroCapBases mods) (seg q a b)) := by
  obtain ⟨h1, h2⟩ := runModsS_segRel true names mods hok hrc r r' i i' evs evs' hq hi h
  refine ⟨h1, ?_⟩
  by_cases hf : i'.isRc = some true
  · simp only [hf, if_true] at h2 ⊢
    obtain ⟨a, b, e1, e2⟩ := h2
    exact ⟨a, b, (e1.2 rfl).symm, e2⟩
  · simp only [hf, if_false] at h2 ⊢
    obtain ⟨a, b, e1, e2⟩ := h2
    exact ⟨a, b, (e1.2 rfl).symm, e2⟩

/-- without `-z` in the list: plainly `SameSeg` -/
theorem pipeline_output_is_slice_nocap (names : Names) (mods : List SMod) (hok : ∀ m ∈ mods, m.OK true)
    (hz : zeroCapBases mods = [])
    (hrc : revcompStages mods ≤ 1) (r r' : Read) (i i' : Info) (evs evs' : List Event) (hq : QualOK r)
    (hi : i.isRc ≠ some true) (h : runModsS names mods r i evs = .ok (r', i', evs')) :
    QualOK r' ∧ SameSeg (if i'.isRc = some true then r.revcomp else r) r' := by
  obtain ⟨h1, a, b, e1, e2⟩ := pipeline_output_is_slice names mods hok hrc r r' i i' evs evs' hq hi h
  rw [hz] at e2
  exact ⟨h1, a, b, e1, e2⟩

/-- **…and with mask / lowercase the output is a *marked* slice**: same statement with every action allowed (adapters
    sound): the output sequence has the length of the slice `[a:b]`, and the qualities are that slice (zero-capped). -/
theorem pipeline_output_marked_slice (names : Names) (mods : List SMod) (hok : ∀ m ∈ mods, m.OK false)
    (hrc : revcompStages mods ≤ 1) (r r' : Read) (i i' : Info) (evs evs' : List Event) (hq : QualOK r)
    (hi : i.isRc ≠ some true) (h : runModsS names mods r i evs = .ok (r', i', evs')) :
    QualOK r' ∧
    ∃ a b, r'.seq.length = (seg r.seq a b).length ∧
      r'.qual = (if i'.isRc = some true then r.revcomp else r).qual.map (fun q => capAll (zeroCapBases mods) (seg q a b)) := by
  obtain ⟨h1, h2⟩ := runModsS_segRel false names mods hok hrc r r' i i' evs evs' hq hi h
  refine ⟨h1, ?_⟩
  by_cases hf : i'.isRc = some true
  · simp only [hf, if_true] at h2 ⊢
    obtain ⟨a, b, e1, e2⟩ := h2
    refine ⟨a, b, ?_, e2⟩
    rw [← e1.1, seg_length, seg_length]; simp [Read.revcomp]
  · simp only [hf, if_false] at h2 ⊢
    obtain ⟨a, b, e1, e2⟩ := h2
    exact ⟨a, b, e1.1.symm, e2⟩

/-- **The pipelines the CLI assembles** (`make_pipeline_from_args`, single-end) satisfy the hypotheses above: for every
    option set accepted by `makeModsSingle`, with `strict = true` for the cutting actions (or `strict = false` and sound
    adapters for mask / lowercase), every read that passes the modifiers comes out as a slice of the input (of its reverse
    complement iff flagged), qualities sliced alike and zero-capped exactly when `-z` was given -/
theorem cli_pipeline_output_is_slice (o : Opts) (ads : List Matchable) (mods : List SMod)
    (hm : makeModsSingle o ads = .ok mods) (strict : Bool) (hc : CutterOK strict ⟨ads, o.times, o.action⟩)
    (read r' : Read) (i' : Info) (evs evs' : List Event) (hq : QualOK read)
    (h : runModsS (namesOf ads) mods read { original := read } evs = .ok (r', i', evs')) :
    QualOK r' ∧
    SegRel strict (if o.zeroCap then [o.qualityBase.toNat] else []) (if i'.isRc = some true then read.revcomp else read) r' := by
  obtain ⟨h1, h2, h3⟩ := makeModsSingle_hyps o ads mods hm
  obtain ⟨a, b⟩ := runModsS_segRel strict (namesOf ads) mods (h3 strict hc) h1 read r' _ i' evs evs' hq (by simp) h
  rw [h2] at b
  refine ⟨a, ?_⟩
  by_cases hf : i'.isRc = some true
  · rw [if_pos hf] at b ⊢; exact b
  · rw [if_neg hf] at b ⊢; exact b

theorem cutterOK_def (strict : Bool) (c : Cutter) :
    CutterOK strict c ↔ ((c.action = .trim ∨ c.action = .retain ∨ c.action = .crop ∨ c.action = .none) ∨
      (strict = false ∧ AdaptersInBounds c.adapters)) := Iff.rfl

/-- the hypothesis `AdaptersInBounds` is what C01 proves: for adapters that are well-formed in the sense of C01
    (`C01.AdapterWF`, as `mkAdapter` builds them), every reported match has `rstart ≤ rstop ≤ len(sequence)` -/
theorem sound_adapters_in_bounds (ads : List Matchable) (h : ∀ a ∈ ads, a.WF) : AdaptersInBounds ads :=
  adaptersInBounds_of_wf ads h

theorem matchable_wf_def (a : Matchable) :
    a.WF ↔ match a with
      | .single x => C01.AdapterWF x
      | .linked f b _ _ _ => C01.AdapterWF f ∧ C01.AdapterWF b
      | .indexed ix _ => ix = Index.makeIndex Index.hashOps ix.adapters ix.isPrefix ∧ ∀ a ∈ ix.adapters, C08.IsACGT a.seq ∧ C01.AdapterWF a := by
  cases a <;> rfl

/-- **…so for well-formed adapters every action is covered**: whatever `--action`, the read that leaves the modifiers
    of a CLI-assembled single-end pipeline has the length of a slice `[a, b)` of the input (of its reverse complement iff
    flagged) and carries exactly that slice of the qualities (zero-capped iff `-z`); for the cutting actions the sequence
    *is* that slice (`cli_pipeline_output_is_slice` with `strict = true`) -/
theorem cli_pipeline_marked_slice_for_sound_adapters (o : Opts) (ads : List Matchable) (mods : List SMod)
    (hm : makeModsSingle o ads = .ok mods) (hwf : ∀ a ∈ ads, a.WF)
    (read r' : Read) (i' : Info) (evs evs' : List Event) (hq : QualOK read)
    (h : runModsS (namesOf ads) mods read { original := read } evs = .ok (r', i', evs')) :
    QualOK r' ∧
    SegRel false (if o.zeroCap then [o.qualityBase.toNat] else []) (if i'.isRc = some true then read.revcomp else read) r' :=
  cli_pipeline_output_is_slice o ads mods hm false (Or.inr ⟨rfl, adaptersInBounds_of_wf ads hwf⟩) read r' i' evs evs' hq h

/-! ## 7. Paired-end -/

/-- **`PairedModifierWrapper`**: each mate goes through its own modifier; the statement of section 6 holds per mate -/
theorem paired_wrap_slices (strict : Bool) (ads1 ads2 : List Matchable) (m1 m2 : Option SMod)
    (hok1 : ∀ x ∈ m1, x.OK strict) (hok2 : ∀ x ∈ m2, x.OK strict)
    (hrc1 : ∀ x ∈ m1, x.isRevcomp = false) (hrc2 : ∀ x ∈ m2, x.isRevcomp = false)
    (r1 r2 o1 o2 : Read) (i1 i2 j1 j2 : Info) (evs : List Event) (hq1 : QualOK r1) (hq2 : QualOK r2)
    (h : applyP ads1 ads2 (.wrap m1 m2) (r1, r2) (i1, i2) = .ok ((o1, o2), (j1, j2), evs)) :
    SegRel strict ((m1.map SMod.capBases).getD []) r1 o1 ∧ SegRel strict ((m2.map SMod.capBases).getD []) r2 o2 ∧
    j1.isRc = i1.isRc ∧ j2.isRc = i2.isRc :=
  applyP_wrap_segRel strict ads1 ads2 m1 m2 hok1 hok2 hrc1 hrc2 r1 r2 o1 o2 i1 i2 j1 j2 evs hq1 hq2 h

/-- **Paired `--revcomp`**: the output mates are slices of (R1, R2) — or of (R2, R1), *not* reverse-complemented, exactly
    when the stage flags the pair (`is_rc = True` on both infos). `strict = false` covers mask / lowercase (under
    `lowercase` both mates are upper-cased whatever is chosen). -/
theorem paired_revcomp_slices (strict : Bool) (ads1 ads2 : List Matchable) (c1 c2 : Option Cutter)
    (sfx first1 first2 : Bool) (hok1 : ∀ c ∈ c1, CutterOK strict c) (hok2 : ∀ c ∈ c2, CutterOK strict c)
    (r1 r2 o1 o2 : Read) (i1 i2 j1 j2 : Info) (evs : List Event)
    (h : applyP ads1 ads2 (.pairedRevcomp c1 c2 sfx first1 first2) (r1, r2) (i1, i2) = .ok ((o1, o2), (j1, j2), evs)) :
    (j1.isRc = some true ∧ j2.isRc = some true ∧ SegRel strict [] r2 o1 ∧ SegRel strict [] r1 o2) ∨
    (j1.isRc = some false ∧ j2.isRc = some false ∧ SegRel strict [] r1 o1 ∧ SegRel strict [] r2 o2) :=
  applyP_pairedRevcomp_segRel strict ads1 ads2 c1 c2 sfx first1 first2 hok1 hok2 r1 r2 o1 o2 i1 i2 j1 j2 evs h

theorem pmod_ok_def (s : Bool) (m : PMod) :
    m.OK s ↔ match m with
      | .wrap m1 m2 => (∀ x ∈ m1, x.OK s ∧ x.isRevcomp = false) ∧ (∀ x ∈ m2, x.OK s ∧ x.isRevcomp = false)
      | .pairedRevcomp c1 c2 _ _ _ => (∀ c ∈ c1, CutterOK s c) ∧ (∀ c ∈ c2, CutterOK s c)
      | .pairAdapters _ _ action _ _ => action = .trim ∨ action = .retain ∨ action = .crop ∨ action = .none
      | .pairedRename _ _ => True := by
  cases m <;> rfl

theorem pairRel_def (s : Bool) (r o : Read × Read) :
    PairRel s r o ↔ ((∃ bs, SegRel s bs r.1 o.1) ∧ (∃ bs, SegRel s bs r.2 o.2)) := Iff.rfl

/-- **The paired-end modifier list as a whole** (wrapped single-end modifiers, `--pair-adapters` with a cutting action,
    paired renaming, at most one paired `--revcomp`): both output mates are slices (qualities alike, zero-capped at most)
    of the input mates — of the *other* mate each iff the pair was flagged as swapped — with equally long sequence and
    qualities -/
theorem paired_pipeline_output_is_slice (s : Bool) (ads1 ads2 : List Matchable) (mods : List PMod)
    (hok : ∀ m ∈ mods, m.OK s) (hrc : pairedRevcompStages mods ≤ 1) (r o : Read × Read) (i j : Info × Info)
    (evs evs' : List Event) (hq1 : QualOK r.1) (hq2 : QualOK r.2) (hi : i.1.isRc ≠ some true)
    (h : runModsP ads1 ads2 mods r i evs = .ok (o, j, evs')) :
    (QualOK o.1 ∧ QualOK o.2) ∧ (if j.1.isRc = some true then PairRel s (r.2, r.1) o else PairRel s r o) :=
  runModsP_pairRel s ads1 ads2 mods hok hrc r o i j evs evs' hq1 hq2 hi h

/-! ## 8. Concrete runs (non-vacuity) -/

/-- `-g AAAGGG` -/
def exFront : Adapter :=
  { ty := .front, seq := [65,65,65,71,71,71], thr := fun L => L / 10, minOverlap := 3,
    readWildcards := false, adapterWildcards := false, indels := true, name := "f" }
/-- `-a ACGTACGT` -/
def exBack : Adapter :=
  { ty := .back, seq := [65,67,71,84,65,67,71,84], thr := fun L => L / 10, minOverlap := 3,
    readWildcards := false, adapterWildcards := false, indels := true, name := "b" }
/-- `-a GATTACAG` -/
def exBack2 : Adapter :=
  { ty := .back, seq := [71,65,84,84,65,67,65,71], thr := fun L => L / 10, minOverlap := 3,
    readWildcards := false, adapterWildcards := false, indels := true, name := "g" }
/-- `-g AAAGGG -a ACGTACGT -n 2 --action=…` -/
def exCutter (a : Action) : Cutter := ⟨[.single exFront, .single exBack], 2, a⟩
/-- `AAAGGGTTTTCCCCACGTACGT`, qualities `()*+…` (40, 41, …) -/
def exRead : Read :=
  ⟨[114], [65,65,65,71,71,71, 84,84,84,84,67,67,67,67, 65,67,71,84,65,67,71,84], some ((List.range 22).map (fun i => (40 + i).toUInt8))⟩

/-- two rounds: the 3' adapter at `[14, 22)` first, then the 5' adapter at `[0, 6)`; `remainder = (6, 14)`; trim keeps
    `TTTTCCCC` with qualities 46…53 -/
example : (match matchAndTrim (exCutter .trim) exRead with
    | .ok (r, ms, _) => (r.seq, r.qual, ms.length, remainder ms) ==
        ([84,84,84,84,67,67,67,67], some [46,47,48,49,50,51,52,53], 2, (6, 14))
    | .error _ => false) = true := by decide +kernel

/-- mask: `NNNNNNTTTTCCCCNNNNNNNN`, qualities untouched -/
example : (match matchAndTrim (exCutter .mask) exRead with
    | .ok (r, _, _) => (r.seq, r.qual) ==
        ([78,78,78,78,78,78, 84,84,84,84,67,67,67,67, 78,78,78,78,78,78,78,78], exRead.qual)
    | .error _ => false) = true := by decide +kernel

/-- lowercase: `aaagggTTTTCCCCacgtacgt` -/
example : (match matchAndTrim (exCutter .lowercase) exRead with
    | .ok (r, _, _) => (r.seq, r.qual) ==
        ([97,97,97,103,103,103, 84,84,84,84,67,67,67,67, 97,99,103,116,97,99,103,116], exRead.qual)
    | .error _ => false) = true := by decide +kernel

/-- retain keeps from the start of the last match (the 5' adapter) to the end of what it was found in: `AAAGGGTTTTCCCC`;
    crop keeps the last match itself: `AAAGGG`; none keeps everything -/
example : (match matchAndTrim (exCutter .retain) exRead, matchAndTrim (exCutter .crop) exRead, matchAndTrim (exCutter .none) exRead with
    | .ok (r1, _, _), .ok (r2, _, _), .ok (r3, _, _) =>
      (r1.seq, r2.seq, r2.qual, r3 == exRead) ==
        ([65,65,65,71,71,71, 84,84,84,84,67,67,67,67], [65,65,65,71,71,71], some [40,41,42,43,44,45], true)
    | _, _, _ => false) = true := by decide +kernel

/-- a pipeline `-u 1 --revcomp -a GATTACAG -z (base 44)` on the reverse complement of `TTTTCCCCGATTACAGGG`: the reverse
    complement is chosen, the output `TTTTCCCC` is the slice `[0, 8)` of the reverse complement of the input, the
    qualities are that slice of the reversed qualities with values below 44 raised to 44, and the name gets `" rc"` -/
example :
    let fw : Read := ⟨[114], [84,84,84,84,67,67,67,67, 71,65,84,84,65,67,65,71, 71,71], some ((List.range 18).map (fun i => (40 + i).toUInt8))⟩
    (match runModsS ["g"] [.cut 1, .revcomp ⟨[.single exBack2], 1, .trim⟩ true false, .zeroCap 44] fw.revcomp
        { original := fw.revcomp } [] with
     | .ok (r, i, _) => (r.name, r.seq, r.qual, i.isRc) ==
         ([114, 32, 114, 99], [84,84,84,84,67,67,67,67], some [44,44,44,44,44,45,46,47], some true)
     | .error _ => false) = true := by decide +kernel

/-! ## What every `--action` of the real program does (regenerated from the working tree on every run) -/

def upperByte (c : UInt8) : UInt8 := if 97 ≤ c ∧ c ≤ 122 then c - 32 else c
def lowerByte (c : UInt8) : UInt8 := if 65 ≤ c ∧ c ≤ 90 then c + 32 else c

/-- **documented**: with a 3' adapter found at `[s, e)` the part from `s` on "would be removed", with a 5' adapter the part up to `e`.
    `trim` removes it; `retain` removes it but keeps the adapter; `crop` keeps only the adapter; `mask` writes `N` over it; `lowercase`
    lower-cases it and upper-cases the rest; `none` changes nothing. Qualities are sliced like the sequence and otherwise untouched. -/
def docAction (front : Bool) (action : String) (seq qual : List UInt8) (s e : Nat) : List UInt8 × List UInt8 :=
  let cut := fun (l : List UInt8) (a b : Nat) => (l.drop a).take (b - a)
  let n := seq.length
  match action, front with
  | "trim", false => (cut seq 0 s, cut qual 0 s)
  | "trim", true => (cut seq e n, cut qual e n)
  | "retain", false => (cut seq 0 e, cut qual 0 e)
  | "retain", true => (cut seq s n, cut qual s n)
  | "crop", _ => (cut seq s e, cut qual s e)
  | "mask", false => (cut seq 0 s ++ List.replicate (n - s) 78, qual)
  | "mask", true => (List.replicate e 78 ++ cut seq e n, qual)
  | "lowercase", false => ((cut seq 0 s).map upperByte ++ (cut seq s n).map lowerByte, qual)
  | "lowercase", true => ((cut seq 0 e).map lowerByte ++ (cut seq e n).map upperByte, qual)
  | _, _ => (seq, qual)

/-- **Every `--action` of the real program has the documented effect on the interval of the occurrence** — sequence and qualities, for a 3'
    and a 5' adapter, inside the read and at its end (probe reads with one exact occurrence through the command-line program;
    `trim_result`, `nontrim_actions_once` and the slice theorems above state the same of the model for all reads). -/
theorem generated_actions_documented :
    ∀ row ∈ Generated.actionRows,
      (match Generated.actionProbes[row.1]? with
       | some p => row.2.2.1 == 1 && (row.2.2.2.1, row.2.2.2.2) == docAction p.1 row.2.1 p.2.1 p.2.2.1 p.2.2.2.1 p.2.2.2.2
       | none => false) = true := by
  decide

end Cutadapt.C03
