import Cutadapt.Stats
namespace Cutadapt.C09
end Cutadapt.C09
