import Cutadapt.Proofs.ParserTop
/-! # C18 — adapter specifications mean what the documented notation says

Model: `Cutadapt.Parser` (`parse` = `make_adapters_from_one_specification` on the `search_parameters` of `cli.adapters_from_args`,
down to the checks of the adapter and aligner constructors).  Grammar, rendering and documented meaning:
`Cutadapt.Notation` (`Spec`, `Spec.render`, `meaning`, `Spec.WF`), written from doc/guide.rst.

All theorems are for every specification of the grammar (any option letter, restriction, parameter list, name, run-length
expression, linked combination, file variant with any number of records) and all global options; no sampling. -/
namespace Cutadapt.C18
open Cutadapt.Parser Cutadapt.Notation Cutadapt.ParserProofs

/-! ## The main theorem -/

/-- **`parse_render`.** For every well-formed specification `s` of the documented grammar and all global options (with an integer
    `-O`), parsing the text `s.render` given after `-a`/`-g`/`-b` (with the FASTA records `s.records` for `file:` forms) yields
    exactly the adapters `meaning s g` that the documentation describes — class, sequence, name, error rate (absolute numbers
    divided by the number of non-N bases), minimum overlap, indels, wildcards, `anywhere`, required/optional — or, precisely when the
    documentation's side conditions are violated, an error that the command line reports with exit status 2. -/
theorem parse_render (s : Spec) (g : Globals) (hs : s.WF) (hg : GlobalsOK g) :
    toKind (parse s.render s.opt.atype g s.records) = meaning s g := by
  cases s with
  | plain o b => exact parse_plain o hs g hg
  | file o a path fparams records => exact parse_file o a path fparams records hs g hg

/-- `-a`, `-g`, `-b` select 3', 5' and "anywhere" adapters. -/
theorem option_letter : Opt.a.atype = .back ∧ Opt.g.atype = .front ∧ Opt.b.atype = .anywhere := ⟨rfl, rfl, rfl⟩

/-! ## Sub-lemmas: braces, parameters, restrictions -/

/-- **`expand_render_runs`**: brace expansion inverts run-length rendering — `x{n}` repeats the character `x` `n` times
    (`n ≤ 10000`, the characters themselves are not braces). -/
theorem expand_render_runs (rs : List Run) (hrs : ∀ r ∈ rs, r.c ≠ '{' ∧ r.c ≠ '}' ∧ ∀ n, r.rep = some n → n ≤ 10000) :
    expandBraces (renderRuns rs) = .ok (expandRuns rs) :=
  expandBraces_renderRuns rs hrs

/-- **`params_roundtrip`** (exact form): the text `p1;p2;…` parses into the written (canonical name, value) pairs — `e`,
    `max_error_rate`, `max_errors` all become `max_errors`, `o` becomes `min_overlap`, integers stay integers, `ddd.ddd` becomes the
    exact decimal, flags become `True` — followed by the `optional → required=False`, `noindels → indels=False` rewriting; a
    parameter given twice (under any of its names) is a `KeyError`. -/
theorem params_roundtrip_exact (ps : List Param) :
    parseParams (paramsTail ps) =
      if (ps.map (fun p => p.name.key)).Nodup then postParams (paramDict ps) else .error .duplicateKey :=
  parseParams_tail ps

/-- **`params_roundtrip`**: a consistent parameter list is read back as written. -/
theorem params_roundtrip (ps : List Param) (hc : paramsConsistent ps = true) :
    ∃ P, parseParams (paramsTail ps) = .ok P ∧
      Params.get P .maxErrors = (paramSem ps).e ∧ Params.get P .minOverlap = (paramSem ps).o ∧
      Params.get P .indels = (paramSem ps).indels ∧ Params.get P .required = (paramSem ps).required ∧
      P.flag .anywhere = (paramSem ps).anywhere ∧ P.flag .rightmost = (paramSem ps).rightmost ∧
      Params.get P .optional = none ∧ Params.get P .noindels = none := by
  rw [consistent_iff] at hc
  obtain ⟨hnd, h1, h2⟩ := hc
  obtain ⟨P, hP, hget⟩ := postParams_ok _ h1 h2
  obtain ⟨hse, hso, hsi, hsr, hsa, hsrm⟩ := sem_fields ps
  refine ⟨P, by rw [parseParams_tail]; simp [hnd, hP], ?_, ?_, ?_, ?_, ?_, ?_, ?_, ?_⟩
  · rw [hget, hse]
  · rw [hget, hso]
  · rw [hget, hsi]
  · rw [hget, hsr]
  · rw [hsa]; simp [Params.flag, hget, postGet]
  · rw [hsrm]; simp [Params.flag, hget, postGet]
  · rw [hget]; rfl
  · rw [hget]; rfl

/-- the abbreviations of the guide's table -/
theorem abbreviations :
    PName.e.key = .maxErrors ∧ PName.maxErrorRate.key = .maxErrors ∧ PName.maxErrors.key = .maxErrors ∧
    PName.o.key = .minOverlap ∧ PName.minOverlap.key = .minOverlap := ⟨rfl, rfl, rfl, rfl, rfl⟩

/-- **`restrictions_roundtrip`**: `^ADAPTER`, `ADAPTER$`, `XADAPTER`, `ADAPTERX` are recognised as anchored / non-internal at the
    5' / 3' side, and the adapter sequence is what remains. -/
theorem restrictions_roundtrip (r : Restr) {sq : Str} (h : edgeOK sq) (hc : ∀ c ∈ sq, c ≠ '^' ∧ c ≠ '$') :
    parseRestrictions (r.pre ++ sq ++ r.suf) =
      some (match r with | .caret => some .anchored | .xLeft => some .noninternal | _ => none,
            match r with | .dollar => some .anchored | .xRight => some .noninternal | _ => none, sq) := by
  rw [parseRestrictions_render r h hc]
  cases r <;> rfl

/-! ## Precedence -/

/-- **`precedence`** (the model's merge): adapter-specific parameters `ps` override file-level parameters `fp`, which override
    the global options `g`. -/
theorem precedence (g fp ps : Params) (k : Key) :
    Params.get ((g.update fp).update ps) k =
      match Params.get ps k with
      | some v => some v
      | none => match Params.get fp k with
        | some v => some v
        | none => Params.get g k := by
  rw [Params.get_update]
  cases Params.get ps k with
  | some v => rfl
  | none => simp only; rw [Params.get_update]; cases Params.get fp k <;> rfl

/-- `precedence`, documented side: the settings in force for a record of a `file:` specification are the global ones overridden
    by the file-level parameters (`Base.override`), and `meaningPart` lets the record's own parameters override those. -/
theorem precedence_documented (g : Globals) (fparams : List Param) :
    let b := (Base.ofGlobals g).override (paramSem fparams)
    b.e = ((paramSem fparams).e.getD g.maxErrors) ∧ b.o = ((paramSem fparams).o.getD g.minOverlap) ∧
    b.indels = ((paramSem fparams).indels.getD (.bool g.indels)) := ⟨rfl, rfl, rfl⟩

/-! ## Absolute numbers of errors -/

theorem ite_err_ok {ε α : Type} {c : Prop} [Decidable c] {e : ε} {x : Except ε α} {a : α}
    (h : (if c then Except.error e else x) = .ok a) : x = .ok a := by
  by_cases hc : c
  · rw [if_pos hc] at h; cases h
  · rw [if_neg hc] at h; exact h

theorem ite_ok_cases {ε α : Type} {c : Prop} [Decidable c] {x y : Except ε α} {a : α}
    (h : (if c then x else y) = .ok a) : x = .ok a ∨ y = .ok a := by
  by_cases hc : c
  · rw [if_pos hc] at h; exact Or.inl h
  · rw [if_neg hc] at h; exact Or.inr h

/-- **`absolute_errors`** (constructor level, every class and keyword dict): the adapter keeps the value `e` given for
    `max_errors` and a divisor such that its maximum error rate is exactly `e / divisor`; the divisor is the number of non-`N`
    characters of the (normalised) sequence when `e ≥ 1`, and 1 when `e < 1` (the value is the rate itself). -/
theorem absolute_errors {cls : Cls} {sq : Str} {name : Option Str} {kw : Params} {a : Single}
    (h : construct cls sq name kw = .ok a) :
    a.maxErrors = (Params.get kw .maxErrors).getD (.float ⟨1, 1⟩) ∧ a.sequence = normSeq sq ∧
    a.divisor = (if a.maxErrors.ge1 = true ∧ nonN a.sequence ≠ 0 then nonN a.sequence else 1) := by
  unfold construct at h
  have h3 := ite_err_ok (ite_err_ok (ite_err_ok h))
  rcases ite_ok_cases h3 with h4 | h4
  · have h5 := ite_err_ok (ite_err_ok h4)
    injection h5 with h5; subst h5; exact ⟨rfl, rfl, rfl⟩
  · have h5 := ite_err_ok (ite_err_ok h4)
    injection h5 with h5; subst h5; exact ⟨rfl, rfl, rfl⟩

/-- `absolute_errors` as an equation between exact rationals: `rate · (#non-N) = e` whenever `e ≥ 1` and the sequence is not all `N`
    (`rate = numer / (den · divisor)`, so this is `divisor = #non-N`), and `rate = e` when `e < 1`. -/
theorem absolute_errors_rate {cls : Cls} {sq : Str} {name : Option Str} {kw : Params} {a : Single}
    (h : construct cls sq name kw = .ok a) :
    (a.maxErrors.ge1 = true → nonN a.sequence ≠ 0 → a.divisor = nonN a.sequence) ∧ (a.maxErrors.ge1 = false → a.divisor = 1) := by
  obtain ⟨_, _, hd⟩ := absolute_errors h
  constructor
  · intro h1 h2; rw [hd]; simp [h1, h2]
  · intro h1; rw [hd]; simp [h1]

/-! ## Rejections: the documented invalid combinations give exit status 2 -/

theorem toKind_error_inv {α : Type} {r : Except Err α} (h : toKind r = .error .cmdline) : ∃ e, r = .error e ∧ e.isCmdline = true := by
  cases r with
  | ok a => cases h
  | error e =>
    refine ⟨e, rfl, ?_⟩
    simp only [toKind, kindOf] at h
    cases hk : e.isCmdline with
    | true => rfl
    | false =>
      rw [hk] at h
      simp only [Bool.false_eq_true, if_false] at h
      split at h <;> cases h

/-- **`rejected`** (general form): whenever the documented meaning of a well-formed specification is "invalid", the parser raises
    an exception that `cli.py` turns into an error message and exit status 2. -/
theorem rejected (s : Spec) (g : Globals) (hs : s.WF) (hg : GlobalsOK g) (hm : meaning s g = .error .cmdline) :
    ∃ e, parse s.render s.opt.atype g s.records = .error e ∧ e.isCmdline = true :=
  toKind_error_inv (by rw [parse_render s g hs hg, hm])

/-- what makes a single adapter invalid, besides inconsistent parameters -/
theorem meaningPart_invalid (t : AType) (inL : Bool) (p : Part) (base : Base) (nm : Option Str)
    (h : paramsConsistent p.params = false ∨ classOf t p.restr (paramSem p.params).rightmost = none ∨
      ((paramSem p.params).o.isSome = true ∧ p.restr.anchored = true) ∨ (inL = false ∧ (paramSem p.params).required.isSome = true)) :
    meaningPart t inL p base nm = .error .cmdline := by
  unfold meaningPart
  by_cases hc : paramsConsistent p.params = true
  · simp only [hc, Bool.not_true, Bool.false_eq_true, if_false]
    rcases h with h | h | h | h
    · rw [hc] at h; cases h
    · rw [h]
    · cases classOf t p.restr (paramSem p.params).rightmost with
      | none => rfl
      | some cls => simp [h]
    · cases classOf t p.restr (paramSem p.params).rightmost with
      | none => rfl
      | some cls =>
        simp only
        split
        · rfl
        · simp [h]
  · simp [hc]

theorem rejected_single (o : Opt) (p : Part) (g : Globals) (hp : p.WF) (hg : GlobalsOK g)
    (h : paramsConsistent p.params = false ∨ classOf o.atype p.restr (paramSem p.params).rightmost = none ∨
      ((paramSem p.params).o.isSome = true ∧ p.restr.anchored = true) ∨ (paramSem p.params).required.isSome = true) :
    ∃ e, parse p.render o.atype g [] = .error e ∧ e.isCmdline = true := by
  apply rejected (.plain o (.single p)) g hp hg
  have : meaningPart o.atype false p (Base.ofGlobals g) (Notation.optOr none p.name) = .error .cmdline := by
    apply meaningPart_invalid
    rcases h with h | h | h | h
    · exact Or.inl h
    · exact Or.inr (Or.inl h)
    · exact Or.inr (Or.inr (Or.inl h))
    · exact Or.inr (Or.inr (Or.inr ⟨rfl, h⟩))
  simp [meaning, meaningBody, this]

/-- **A parameter given twice** (under the same or an equivalent name, e.g. `e=…;max_errors=…`) is rejected. -/
theorem rejected_duplicate_parameter (o : Opt) (p : Part) (g : Globals) (hp : p.WF) (hg : GlobalsOK g)
    (h : ¬ (p.params.map (fun q => q.name.key)).Nodup) :
    ∃ e, parse p.render o.atype g [] = .error e ∧ e.isCmdline = true :=
  rejected_single o p g hp hg (Or.inl (by
    cases hc : paramsConsistent p.params with
    | false => rfl
    | true => exact absurd ((consistent_iff _).mp hc).1 h))

/-- **`optional` together with `required`** is rejected. -/
theorem rejected_optional_and_required (o : Opt) (p : Part) (g : Globals) (hp : p.WF) (hg : GlobalsOK g)
    (h1 : (paramDict p.params).has .optional = true) (h2 : (paramDict p.params).has .required = true) :
    ∃ e, parse p.render o.atype g [] = .error e ∧ e.isCmdline = true :=
  rejected_single o p g hp hg (Or.inl (by
    cases hc : paramsConsistent p.params with
    | false => rfl
    | true => exact absurd ⟨h1, h2⟩ ((consistent_iff _).mp hc).2.1))

/-- **`indels` together with `noindels`** is rejected. -/
theorem rejected_indels_and_noindels (o : Opt) (p : Part) (g : Globals) (hp : p.WF) (hg : GlobalsOK g)
    (h1 : (paramDict p.params).has .indels = true) (h2 : (paramDict p.params).has .noindels = true) :
    ∃ e, parse p.render o.atype g [] = .error e ∧ e.isCmdline = true :=
  rejected_single o p g hp hg (Or.inl (by
    cases hc : paramsConsistent p.params with
    | false => rfl
    | true => exact absurd ⟨h1, h2⟩ ((consistent_iff _).mp hc).2.2))

/-- **Placement restrictions on the wrong side**: `-a ^ADAPTER`, `-a XADAPTER`, `-g ADAPTER$`, `-g ADAPTERX` and any restriction
    with `-b` are rejected. -/
theorem rejected_restriction (o : Opt) (p : Part) (g : Globals) (hp : p.WF) (hg : GlobalsOK g)
    (h : (o = .a ∧ (p.restr = .caret ∨ p.restr = .xLeft)) ∨ (o = .g ∧ (p.restr = .dollar ∨ p.restr = .xRight)) ∨
      (o = .b ∧ p.restr ≠ .none)) :
    ∃ e, parse p.render o.atype g [] = .error e ∧ e.isCmdline = true :=
  rejected_single o p g hp hg (Or.inr (Or.inl (by
    rcases h with ⟨rfl, h | h⟩ | ⟨rfl, h | h⟩ | ⟨rfl, h⟩
    all_goals first
      | (rw [h]; cases (paramSem p.params).rightmost <;> rfl)
      | (cases hr : p.restr <;> first | exact absurd hr h | (cases (paramSem p.params).rightmost <;> rfl)))))

/-- **`min_overlap`/`o` on an anchored adapter** (`^ADAPTER;o=…`, `ADAPTER$;min_overlap=…`) is rejected. -/
theorem rejected_min_overlap_anchored (o : Opt) (p : Part) (g : Globals) (hp : p.WF) (hg : GlobalsOK g)
    (h1 : (paramDict p.params).has .minOverlap = true) (h2 : p.restr = .caret ∨ p.restr = .dollar) :
    ∃ e, parse p.render o.atype g [] = .error e ∧ e.isCmdline = true :=
  rejected_single o p g hp hg (Or.inr (Or.inr (Or.inl ⟨h1, by rcases h2 with h | h <;> rw [h] <;> rfl⟩)))

/-- **`rightmost` on anything but a regular 5' adapter** is rejected. -/
theorem rejected_rightmost (o : Opt) (p : Part) (g : Globals) (hp : p.WF) (hg : GlobalsOK g)
    (h1 : (paramSem p.params).rightmost = true) (h2 : ¬ (o = .g ∧ p.restr = .none)) :
    ∃ e, parse p.render o.atype g [] = .error e ∧ e.isCmdline = true :=
  rejected_single o p g hp hg (Or.inr (Or.inl (by
    rw [h1]
    cases o <;> cases hr : p.restr <;> first | rfl | exact absurd ⟨rfl, hr⟩ h2)))

/-- **`required`/`optional` outside a linked adapter** is rejected. -/
theorem rejected_required_outside_linked (o : Opt) (p : Part) (g : Globals) (hp : p.WF) (hg : GlobalsOK g)
    (h : (paramDict p.params).has .required = true ∨ (paramDict p.params).has .optional = true) :
    ∃ e, parse p.render o.atype g [] = .error e ∧ e.isCmdline = true :=
  rejected_single o p g hp hg (Or.inr (Or.inr (Or.inr (by
    simp only [paramSem]
    rcases h with h | h
    · by_cases ho : (paramDict p.params).has .optional = true
      · simp [ho]
      · simp only [ho, Bool.false_eq_true, if_false]; exact h
    · simp [h]))))

/-- **`-b ADAPTER1...ADAPTER2`**: linked adapters exist for `-a` and `-g` only. -/
theorem rejected_linked_b (f b : Part) (g : Globals) (hs : (Spec.plain .b (.linked f b)).WF) (hg : GlobalsOK g) :
    ∃ e, parse (Body.linked f b).render .anywhere g [] = .error e ∧ e.isCmdline = true :=
  rejected (.plain .b (.linked f b)) g hs hg (by simp [meaning, meaningBody])

/-! ## Linked adapters: which parts are required -/

theorem buildPart_req {p : Part} {base : Base} {cls : Cls} {nm : Option Str} {fa : Bool} {a : Single} {r : Option Value}
    (h : buildPart p base cls nm fa = .ok (a, r)) : r = (paramSem p.params).required := by
  unfold buildPart at h
  have h2 := ite_err_ok (ite_err_ok h)
  injection h2 with h2
  injection h2 with _ h2
  exact h2.symm

theorem meaningPart_req {t : AType} {inL : Bool} {p : Part} {base : Base} {nm : Option Str} {a : Single} {r : Option Value}
    (h : meaningPart t inL p base nm = .ok (a, r)) : r = (paramSem p.params).required := by
  unfold meaningPart at h
  have h1 := ite_err_ok h
  cases hc : classOf t p.restr (paramSem p.params).rightmost with
  | none => rw [hc] at h1; cases h1
  | some cls =>
    rw [hc] at h1
    exact buildPart_req (ite_err_ok (ite_err_ok h1))

/-- **`required_defaults`**: in a linked adapter `PART1...PART2` each part is required or optional as its own
    `required`/`optional` parameter says; without such a parameter, with `-g` both parts are required, and with `-a` a part is
    required exactly if it carries a placement restriction (anchored `^`/`$` as documented; the implementation also counts the
    non-internal `X` forms). -/
theorem required_defaults (o : Opt) (f b : Part) (g : Globals) (hs : (Spec.plain o (.linked f b)).WF) (hg : GlobalsOK g)
    {fa ba : Single} {fr br : Value} {nm : Option Str}
    (h : parse (Body.linked f b).render o.atype g [] = .ok [.linked fa ba fr br nm]) :
    fr = ((paramSem f.params).required).getD (.bool (if o = .g then true else f.restr.restricted)) ∧
    br = ((paramSem b.params).required).getD (.bool (if o = .g then true else b.restr.restricted)) ∧
    nm = f.name := by
  have hm := parse_render (.plain o (.linked f b)) g hs hg
  simp only [Spec.render, Spec.opt, Spec.records] at hm
  rw [h] at hm
  simp only [toKind, meaning] at hm
  cases hmb : meaningBody o (.linked f b) (Base.ofGlobals g) none with
  | error k => rw [hmb] at hm; cases hm
  | ok d =>
    rw [hmb] at hm
    injection hm with hm
    injection hm with hm _
    subst hm
    unfold meaningBody at hmb
    simp only at hmb
    have hmb2 := ite_err_ok hmb
    cases hf : meaningPart .front true f (Base.ofGlobals g) (some (cs!"linked_front")) with
    | error k => rw [hf] at hmb2; cases hmb2
    | ok r1 =>
      obtain ⟨fa', freq⟩ := r1
      rw [hf] at hmb2
      simp only at hmb2
      cases hb : meaningPart .back true b (Base.ofGlobals g) (some (cs!"linked_back")) with
      | error k => rw [hb] at hmb2; cases hmb2
      | ok r2 =>
        obtain ⟨ba', breq⟩ := r2
        rw [hb] at hmb2
        simp only at hmb2
        injection hmb2 with hmb2
        injection hmb2 with _ _ h3 h4 h5
        rw [meaningPart_req hf] at h3
        rw [meaningPart_req hb] at h4
        exact ⟨h3.symm, h4.symm, by rw [← h5]; rfl⟩

/-- `-a PART1...PART2` without `required`/`optional`: only restricted (anchored) parts are required. -/
theorem required_defaults_a (f b : Part) (g : Globals) (hs : (Spec.plain .a (.linked f b)).WF) (hg : GlobalsOK g)
    (hf : (paramSem f.params).required = none) (hb : (paramSem b.params).required = none)
    {fa ba : Single} {fr br : Value} {nm : Option Str}
    (h : parse (Body.linked f b).render .back g [] = .ok [.linked fa ba fr br nm]) :
    fr = .bool f.restr.restricted ∧ br = .bool b.restr.restricted := by
  obtain ⟨h1, h2, _⟩ := required_defaults .a f b g hs hg h
  rw [hf] at h1; rw [hb] at h2
  exact ⟨h1, h2⟩

/-- `-g PART1...PART2` without `required`/`optional`: both parts are required. -/
theorem required_defaults_g (f b : Part) (g : Globals) (hs : (Spec.plain .g (.linked f b)).WF) (hg : GlobalsOK g)
    (hf : (paramSem f.params).required = none) (hb : (paramSem b.params).required = none)
    {fa ba : Single} {fr br : Value} {nm : Option Str}
    (h : parse (Body.linked f b).render .front g [] = .ok [.linked fa ba fr br nm]) :
    fr = .bool true ∧ br = .bool true := by
  obtain ⟨h1, h2, _⟩ := required_defaults .g f b g hs hg h
  rw [hf] at h1; rw [hb] at h2
  exact ⟨h1, h2⟩

end Cutadapt.C18
