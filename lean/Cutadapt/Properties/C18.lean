import Cutadapt.Parser
/-! # C18 — adapter specifications mean what the documented notation says (work in progress) -/
namespace Cutadapt.C18
end Cutadapt.C18
