import Cutadapt.Proofs.ParserTop
/-! # C18 — adapter specifications mean what the documented notation says

Model: `Cutadapt.Parser` (`parse` = `make_adapters_from_one_specification` on the `search_parameters` of `cli.adapters_from_args`,
down to the checks of the adapter and aligner constructors).  Grammar, rendering and documented meaning:
`Cutadapt.Notation` (`Spec`, `Spec.render`, `meaning`, `Spec.WF`), written from doc/guide.rst.

All theorems are for every specification of the grammar (any option letter, restriction, parameter list, name, run-length
expression, linked combination, file variant with any number of records) and all global options; no sampling. -/
namespace Cutadapt.C18
open Cutadapt.Parser Cutadapt.Notation Cutadapt.ParserProofs

/-! ## The main theorem -/

/-- **`parse_render`.** For every well-formed specification `s` of the documented grammar and all global options (with an integer
    `-O`), parsing the text `s.render` given after `-a`/`-g`/`-b` (with the FASTA records `s.records` for `file:` forms) yields
    exactly the adapters `meaning s g` that the documentation describes — class, sequence, name, error rate (absolute numbers
    divided by the number of non-N bases), minimum overlap, indels, wildcards, `anywhere`, required/optional — or, precisely when the
    documentation's side conditions are violated, an error that the command line reports with exit status 2. -/
theorem parse_render (s : Spec) (g : Globals) (hs : s.WF) (hg : GlobalsOK g) :
    toKind (parse s.render s.opt.atype g s.records) = meaning s g := by
  cases s with
  | plain o b => exact parse_plain o hs g hg
  | file o a path fparams records => exact parse_file o a path fparams records hs g hg

/-- `-a`, `-g`, `-b` select 3', 5' and "anywhere" adapters. -/
theorem option_letter : Opt.a.atype = .back ∧ Opt.g.atype = .front ∧ Opt.b.atype = .anywhere := ⟨rfl, rfl, rfl⟩

/-! ## Sub-lemmas: braces, parameters, restrictions -/

/-- **`expand_render_runs`**: brace expansion inverts run-length rendering — `x{n}` repeats the character `x` `n` times
    (`n ≤ 10000`, the characters themselves are not braces). -/
theorem expand_render_runs (rs : List Run) (hrs : ∀ r ∈ rs, r.c ≠ '{' ∧ r.c ≠ '}' ∧ ∀ n, r.rep = some n → n ≤ 10000) :
    expandBraces (renderRuns rs) = .ok (expandRuns rs) :=
  expandBraces_renderRuns rs hrs

/-- **`params_roundtrip`** (exact form): the text `p1;p2;…` parses into the written (canonical name, value) pairs — `e`,
    `max_error_rate`, `max_errors` all become `max_errors`, `o` becomes `min_overlap`, integers stay integers, `ddd.ddd` becomes the
    exact decimal, flags become `True` — followed by the `optional → required=False`, `noindels → indels=False` rewriting; a
    parameter given twice (under any of its names) is a `KeyError`. -/
theorem params_roundtrip_exact (ps : List Param) :
    parseParams (paramsTail ps) =
      if (ps.map (fun p => p.name.key)).Nodup then postParams (paramDict ps) else .error .duplicateKey :=
  parseParams_tail ps

/-- **`params_roundtrip`**: a consistent parameter list is read back as written. -/
theorem params_roundtrip (ps : List Param) (hc : paramsConsistent ps = true) :
    ∃ P, parseParams (paramsTail ps) = .ok P ∧
      Params.get P .maxErrors = (paramSem ps).e ∧ Params.get P .minOverlap = (paramSem ps).o ∧
      Params.get P .indels = (paramSem ps).indels ∧ Params.get P .required = (paramSem ps).required ∧
      P.flag .anywhere = (paramSem ps).anywhere ∧ P.flag .rightmost = (paramSem ps).rightmost ∧
      Params.get P .optional = none ∧ Params.get P .noindels = none := by
  rw [consistent_iff] at hc
  obtain ⟨hnd, h1, h2⟩ := hc
  obtain ⟨P, hP, hget⟩ := postParams_ok _ h1 h2
  obtain ⟨hse, hso, hsi, hsr, hsa, hsrm⟩ := sem_fields ps
  refine ⟨P, by rw [parseParams_tail]; simp [hnd, hP], ?_, ?_, ?_, ?_, ?_, ?_, ?_, ?_⟩
  · rw [hget, hse]
  · rw [hget, hso]
  · rw [hget, hsi]
  · rw [hget, hsr]
  · rw [hsa]; simp [Params.flag, hget, postGet]
  · rw [hsrm]; simp [Params.flag, hget, postGet]
  · rw [hget]; rfl
  · rw [hget]; rfl

/-- the abbreviations of the guide's table -/
theorem abbreviations :
    PName.e.key = .maxErrors ∧ PName.maxErrorRate.key = .maxErrors ∧ PName.maxErrors.key = .maxErrors ∧
    PName.o.key = .minOverlap ∧ PName.minOverlap.key = .minOverlap := ⟨rfl, rfl, rfl, rfl, rfl⟩

/-- **`restrictions_roundtrip`**: `^ADAPTER`, `ADAPTER$`, `XADAPTER`, `ADAPTERX` are recognised as anchored / non-internal at the
    5' / 3' side, and the adapter sequence is what remains. -/
theorem restrictions_roundtrip (r : Restr) {sq : Str} (h : edgeOK sq) (hc : ∀ c ∈ sq, c ≠ '^' ∧ c ≠ '$') :
    parseRestrictions (r.pre ++ sq ++ r.suf) =
      some (match r with | .caret => some .anchored | .xLeft => some .noninternal | _ => none,
            match r with | .dollar => some .anchored | .xRight => some .noninternal | _ => none, sq) := by
  rw [parseRestrictions_render r h hc]
  cases r <;> rfl

/-! ## Precedence -/

/-- **`precedence`** (the model's merge): adapter-specific parameters `ps` override file-level parameters `fp`, which override
    the global options `g`. -/
theorem precedence (g fp ps : Params) (k : Key) :
    Params.get ((g.update fp).update ps) k =
      match Params.get ps k with
      | some v => some v
      | none => match Params.get fp k with
        | some v => some v
        | none => Params.get g k := by
  rw [Params.get_update]
  cases Params.get ps k with
  | some v => rfl
  | none => simp only; rw [Params.get_update]; cases Params.get fp k <;> rfl

/-- `precedence`, documented side: the settings in force for a record of a `file:` specification are the global ones overridden
    by the file-level parameters (`Base.override`), and `meaningPart` lets the record's own parameters override those. -/
theorem precedence_documented (g : Globals) (fparams : List Param) :
    let b := (Base.ofGlobals g).override (paramSem fparams)
    b.e = ((paramSem fparams).e.getD g.maxErrors) ∧ b.o = ((paramSem fparams).o.getD g.minOverlap) ∧
    b.indels = ((paramSem fparams).indels.getD (.bool g.indels)) := ⟨rfl, rfl, rfl⟩

end Cutadapt.C18
