import Cutadapt.Proofs.ParserTop
import Cutadapt.Proofs.ParserWF
import Cutadapt.Generated.ParserTables
/-! # C18 — adapter specifications mean what the documented notation says

Model: `Cutadapt.Parser` (`parse` = `make_adapters_from_one_specification` on the `search_parameters` of `cli.adapters_from_args`,
down to the checks of the adapter and aligner constructors).  Grammar, rendering and documented meaning:
`Cutadapt.Notation` (`Spec`, `Spec.render`, `meaning`, `Spec.WF`), written from doc/guide.rst.

All theorems are for every specification of the grammar (any option letter, restriction, parameter list, name, run-length
expression, linked combination, file variant with any number of records) and all global options; no sampling. -/
namespace Cutadapt.C18
open Cutadapt.Parser Cutadapt.Notation Cutadapt.ParserProofs

/-! ## The main theorem -/

/-- **`parse_render`.** For every well-formed specification `s` of the documented grammar and all global options (with an integer
    `-O`), parsing the text `s.render` given after `-a`/`-g`/`-b` (with the FASTA records `s.records` for `file:` forms) yields
    exactly the adapters `meaning s g` that the documentation describes — class, sequence, name, error rate (absolute numbers
    divided by the number of non-N bases), minimum overlap, indels, wildcards, `anywhere`, required/optional — or, precisely when the
    documentation's side conditions are violated, an error that the command line reports with exit status 2. -/
theorem parse_render (s : Spec) (g : Globals) (hs : s.WF) (hg : GlobalsOK g) :
    toKind (parse s.render s.opt.atype g s.records) = meaning s g := by
  cases s with
  | plain o b => exact parse_plain o hs g hg
  | file o a path fparams records => exact parse_file o a path fparams records hs g hg

/-- `-a`, `-g`, `-b` select 3', 5' and "anywhere" adapters. -/
theorem option_letter : Opt.a.atype = .back ∧ Opt.g.atype = .front ∧ Opt.b.atype = .anywhere := ⟨rfl, rfl, rfl⟩

/-! ## Sub-lemmas: braces, parameters, restrictions -/

/-- **`expand_render_runs`**: brace expansion inverts run-length rendering — `x{n}` repeats the character `x` `n` times
    (`n ≤ 10000`, the characters themselves are not braces). -/
theorem expand_render_runs (rs : List Run) (hrs : ∀ r ∈ rs, r.c ≠ '{' ∧ r.c ≠ '}' ∧ ∀ n, r.rep = some n → n ≤ 10000) :
    expandBraces (renderRuns rs) = .ok (expandRuns rs) :=
  expandBraces_renderRuns rs hrs

/-- **`params_roundtrip`** (exact form): the text `p1;p2;…` parses into the written (canonical name, value) pairs — `e`,
    `max_error_rate`, `max_errors` all become `max_errors`, `o` becomes `min_overlap`, integers stay integers, `ddd.ddd` becomes the
    exact decimal, flags become `True` — followed by the `optional → required=False`, `noindels → indels=False` rewriting; a
    parameter given twice (under any of its names) is a `KeyError`. -/
theorem params_roundtrip_exact (ps : List Param) :
    parseParams (paramsTail ps) =
      if (ps.map (fun p => p.name.key)).Nodup then postParams (paramDict ps) else .error .duplicateKey :=
  parseParams_tail ps

/-- **`params_roundtrip`**: a consistent parameter list is read back as written. -/
theorem params_roundtrip (ps : List Param) (hc : paramsConsistent ps = true) :
    ∃ P, parseParams (paramsTail ps) = .ok P ∧
      Params.get P .maxErrors = (paramSem ps).e ∧ Params.get P .minOverlap = (paramSem ps).o ∧
      Params.get P .indels = (paramSem ps).indels ∧ Params.get P .required = (paramSem ps).required ∧
      P.flag .anywhere = (paramSem ps).anywhere ∧ P.flag .rightmost = (paramSem ps).rightmost ∧
      Params.get P .optional = none ∧ Params.get P .noindels = none := by
  rw [consistent_iff] at hc
  obtain ⟨hnd, h1, h2⟩ := hc
  obtain ⟨P, hP, hget⟩ := postParams_ok _ h1 h2
  obtain ⟨hse, hso, hsi, hsr, hsa, hsrm⟩ := sem_fields ps
  refine ⟨P, by rw [parseParams_tail]; simp [hnd, hP], ?_, ?_, ?_, ?_, ?_, ?_, ?_, ?_⟩
  · rw [hget, hse]
  · rw [hget, hso]
  · rw [hget, hsi]
  · rw [hget, hsr]
  · rw [hsa]; simp [Params.flag, hget, postGet]
  · rw [hsrm]; simp [Params.flag, hget, postGet]
  · rw [hget]; rfl
  · rw [hget]; rfl

/-- the abbreviations of the guide's table -/
theorem abbreviations :
    PName.e.key = .maxErrors ∧ PName.maxErrorRate.key = .maxErrors ∧ PName.maxErrors.key = .maxErrors ∧
    PName.o.key = .minOverlap ∧ PName.minOverlap.key = .minOverlap := ⟨rfl, rfl, rfl, rfl, rfl⟩

/-- **`restrictions_roundtrip`**: `^ADAPTER`, `ADAPTER$`, `XADAPTER`, `ADAPTERX` are recognised as anchored / non-internal at the
    5' / 3' side, and the adapter sequence is what remains. -/
theorem restrictions_roundtrip (r : Restr) {sq : Str} (h : edgeOK sq) (hc : ∀ c ∈ sq, c ≠ '^' ∧ c ≠ '$') :
    parseRestrictions (r.pre ++ sq ++ r.suf) =
      some (match r with | .caret => some .anchored | .xLeft => some .noninternal | _ => none,
            match r with | .dollar => some .anchored | .xRight => some .noninternal | _ => none, sq) := by
  rw [parseRestrictions_render r h hc]
  cases r <;> rfl

/-! ## Precedence -/

/-- **`precedence`** (the model's merge): adapter-specific parameters `ps` override file-level parameters `fp`, which override
    the global options `g`. -/
theorem precedence (g fp ps : Params) (k : Key) :
    Params.get ((g.update fp).update ps) k =
      match Params.get ps k with
      | some v => some v
      | none => match Params.get fp k with
        | some v => some v
        | none => Params.get g k := by
  rw [Params.get_update]
  cases Params.get ps k with
  | some v => rfl
  | none => simp only; rw [Params.get_update]; cases Params.get fp k <;> rfl

/-- `precedence`, documented side: the settings in force for a record of a `file:` specification are the global ones overridden
    by the file-level parameters (`Base.override`), and `meaningPart` lets the record's own parameters override those. -/
theorem precedence_documented (g : Globals) (fparams : List Param) :
    let b := (Base.ofGlobals g).override (paramSem fparams)
    b.e = ((paramSem fparams).e.getD g.maxErrors) ∧ b.o = ((paramSem fparams).o.getD g.minOverlap) ∧
    b.indels = ((paramSem fparams).indels.getD (.bool g.indels)) := ⟨rfl, rfl, rfl⟩

/-! ## Absolute numbers of errors -/

/-- **`absolute_errors`** (constructor level, every class and keyword dict): the adapter keeps the value `e` given for
    `max_errors` and a divisor such that its maximum error rate is exactly `e / divisor`; the divisor is the number of non-`N`
    characters of the (normalised) sequence when `e ≥ 1`, and 1 when `e < 1` (the value is the rate itself). -/
theorem absolute_errors {cls : Cls} {sq : Str} {name : Option Str} {kw : Params} {a : Single}
    (h : construct cls sq name kw = .ok a) :
    a.maxErrors = (Params.get kw .maxErrors).getD (.float ⟨1, 1⟩) ∧ a.sequence = normSeq sq ∧
    a.divisor = (if a.maxErrors.ge1 = true ∧ nonN a.sequence ≠ 0 then nonN a.sequence else 1) := by
  unfold construct at h
  have h3 := ite_err_ok (ite_err_ok (ite_err_ok h))
  rcases ite_ok_cases h3 with h4 | h4
  · have h5 := ite_err_ok (ite_err_ok h4)
    injection h5 with h5; subst h5; exact ⟨rfl, rfl, rfl⟩
  · have h5 := ite_err_ok (ite_err_ok h4)
    injection h5 with h5; subst h5; exact ⟨rfl, rfl, rfl⟩

/-- `absolute_errors` as an equation between exact rationals: `rate · (#non-N) = e` whenever `e ≥ 1` and the sequence is not all `N`
    (`rate = numer / (den · divisor)`, so this is `divisor = #non-N`), and `rate = e` when `e < 1`. -/
theorem absolute_errors_rate {cls : Cls} {sq : Str} {name : Option Str} {kw : Params} {a : Single}
    (h : construct cls sq name kw = .ok a) :
    (a.maxErrors.ge1 = true → nonN a.sequence ≠ 0 → a.divisor = nonN a.sequence) ∧ (a.maxErrors.ge1 = false → a.divisor = 1) := by
  obtain ⟨_, _, hd⟩ := absolute_errors h
  constructor
  · intro h1 h2; rw [hd]; simp [h1, h2]
  · intro h1; rw [hd]; simp [h1]

/-! ## Rejections: the documented invalid combinations give exit status 2 -/

/-- **`rejected`** (general form): whenever the documented meaning of a well-formed specification is "invalid", the parser raises
    an exception that `cli.py` turns into an error message and exit status 2. -/
theorem rejected (s : Spec) (g : Globals) (hs : s.WF) (hg : GlobalsOK g) (hm : meaning s g = .error .cmdline) :
    ∃ e, parse s.render s.opt.atype g s.records = .error e ∧ e.isCmdline = true :=
  toKind_error_inv (by rw [parse_render s g hs hg, hm])

theorem rejected_single (o : Opt) (p : Part) (g : Globals) (hp : p.WF) (hg : GlobalsOK g)
    (h : paramsConsistent p.params = false ∨ classOf o.atype p.restr (paramSem p.params).rightmost = none ∨
      ((paramSem p.params).o.isSome = true ∧ p.restr.anchored = true) ∨ (paramSem p.params).required.isSome = true) :
    ∃ e, parse p.render o.atype g [] = .error e ∧ e.isCmdline = true := by
  apply rejected (.plain o (.single p)) g hp hg
  have : meaningPart o.atype false p (Base.ofGlobals g) (Notation.optOr none p.name) = .error .cmdline := by
    apply meaningPart_invalid
    rcases h with h | h | h | h
    · exact Or.inl h
    · exact Or.inr (Or.inl h)
    · exact Or.inr (Or.inr (Or.inl h))
    · exact Or.inr (Or.inr (Or.inr ⟨rfl, h⟩))
  simp [meaning, meaningBody, this]

/-- **A parameter given twice** (under the same or an equivalent name, e.g. `e=…;max_errors=…`) is rejected. -/
theorem rejected_duplicate_parameter (o : Opt) (p : Part) (g : Globals) (hp : p.WF) (hg : GlobalsOK g)
    (h : ¬ (p.params.map (fun q => q.name.key)).Nodup) :
    ∃ e, parse p.render o.atype g [] = .error e ∧ e.isCmdline = true :=
  rejected_single o p g hp hg (Or.inl (by
    cases hc : paramsConsistent p.params with
    | false => rfl
    | true => exact absurd ((consistent_iff _).mp hc).1 h))

/-- **`optional` together with `required`** is rejected. -/
theorem rejected_optional_and_required (o : Opt) (p : Part) (g : Globals) (hp : p.WF) (hg : GlobalsOK g)
    (h1 : (paramDict p.params).has .optional = true) (h2 : (paramDict p.params).has .required = true) :
    ∃ e, parse p.render o.atype g [] = .error e ∧ e.isCmdline = true :=
  rejected_single o p g hp hg (Or.inl (by
    cases hc : paramsConsistent p.params with
    | false => rfl
    | true => exact absurd ⟨h1, h2⟩ ((consistent_iff _).mp hc).2.1))

/-- **`indels` together with `noindels`** is rejected. -/
theorem rejected_indels_and_noindels (o : Opt) (p : Part) (g : Globals) (hp : p.WF) (hg : GlobalsOK g)
    (h1 : (paramDict p.params).has .indels = true) (h2 : (paramDict p.params).has .noindels = true) :
    ∃ e, parse p.render o.atype g [] = .error e ∧ e.isCmdline = true :=
  rejected_single o p g hp hg (Or.inl (by
    cases hc : paramsConsistent p.params with
    | false => rfl
    | true => exact absurd ⟨h1, h2⟩ ((consistent_iff _).mp hc).2.2))

/-- **Placement restrictions on the wrong side**: `-a ^ADAPTER`, `-a XADAPTER`, `-g ADAPTER$`, `-g ADAPTERX` and any restriction
    with `-b` are rejected. -/
theorem rejected_restriction (o : Opt) (p : Part) (g : Globals) (hp : p.WF) (hg : GlobalsOK g)
    (h : (o = .a ∧ (p.restr = .caret ∨ p.restr = .xLeft)) ∨ (o = .g ∧ (p.restr = .dollar ∨ p.restr = .xRight)) ∨
      (o = .b ∧ p.restr ≠ .none)) :
    ∃ e, parse p.render o.atype g [] = .error e ∧ e.isCmdline = true :=
  rejected_single o p g hp hg (Or.inr (Or.inl (by
    rcases h with ⟨rfl, h | h⟩ | ⟨rfl, h | h⟩ | ⟨rfl, h⟩
    all_goals first
      | (rw [h]; cases (paramSem p.params).rightmost <;> rfl)
      | (cases hr : p.restr <;> first | exact absurd hr h | (cases (paramSem p.params).rightmost <;> rfl)))))

/-- **`min_overlap`/`o` on an anchored adapter** (`^ADAPTER;o=…`, `ADAPTER$;min_overlap=…`) is rejected. -/
theorem rejected_min_overlap_anchored (o : Opt) (p : Part) (g : Globals) (hp : p.WF) (hg : GlobalsOK g)
    (h1 : (paramDict p.params).has .minOverlap = true) (h2 : p.restr = .caret ∨ p.restr = .dollar) :
    ∃ e, parse p.render o.atype g [] = .error e ∧ e.isCmdline = true :=
  rejected_single o p g hp hg (Or.inr (Or.inr (Or.inl ⟨h1, by rcases h2 with h | h <;> rw [h] <;> rfl⟩)))

/-- **`rightmost` on anything but a regular 5' adapter** is rejected. -/
theorem rejected_rightmost (o : Opt) (p : Part) (g : Globals) (hp : p.WF) (hg : GlobalsOK g)
    (h1 : (paramSem p.params).rightmost = true) (h2 : ¬ (o = .g ∧ p.restr = .none)) :
    ∃ e, parse p.render o.atype g [] = .error e ∧ e.isCmdline = true :=
  rejected_single o p g hp hg (Or.inr (Or.inl (by
    rw [h1]
    cases o <;> cases hr : p.restr <;> first | rfl | exact absurd ⟨rfl, hr⟩ h2)))

/-- **`required`/`optional` outside a linked adapter** is rejected. -/
theorem rejected_required_outside_linked (o : Opt) (p : Part) (g : Globals) (hp : p.WF) (hg : GlobalsOK g)
    (h : (paramDict p.params).has .required = true ∨ (paramDict p.params).has .optional = true) :
    ∃ e, parse p.render o.atype g [] = .error e ∧ e.isCmdline = true :=
  rejected_single o p g hp hg (Or.inr (Or.inr (Or.inr (by
    simp only [paramSem]
    rcases h with h | h
    · by_cases ho : (paramDict p.params).has .optional = true
      · simp [ho]
      · simp only [ho, Bool.false_eq_true, if_false]; exact h
    · simp [h]))))

/-- **`-b ADAPTER1...ADAPTER2`**: linked adapters exist for `-a` and `-g` only. -/
theorem rejected_linked_b (f b : Part) (g : Globals) (hs : (Spec.plain .b (.linked f b)).WF) (hg : GlobalsOK g) :
    ∃ e, parse (Body.linked f b).render .anywhere g [] = .error e ∧ e.isCmdline = true :=
  rejected (.plain .b (.linked f b)) g hs hg (by simp [meaning, meaningBody])

/-! ## Linked adapters: which parts are required -/

/-- **`required_defaults`**: in a linked adapter `PART1...PART2` each part is required or optional as its own
    `required`/`optional` parameter says; without such a parameter, with `-g` both parts are required, and with `-a` a part is
    required exactly if it carries a placement restriction (anchored `^`/`$` as documented; the implementation also counts the
    non-internal `X` forms). -/
theorem required_defaults (o : Opt) (f b : Part) (g : Globals) (hs : (Spec.plain o (.linked f b)).WF) (hg : GlobalsOK g)
    {fa ba : Single} {fr br : Value} {nm : Option Str}
    (h : parse (Body.linked f b).render o.atype g [] = .ok [.linked fa ba fr br nm]) :
    fr = ((paramSem f.params).required).getD (.bool (if o = .g then true else f.restr.restricted)) ∧
    br = ((paramSem b.params).required).getD (.bool (if o = .g then true else b.restr.restricted)) ∧
    nm = f.name := by
  have hm := parse_render (.plain o (.linked f b)) g hs hg
  simp only [Spec.render, Spec.opt, Spec.records] at hm
  rw [h] at hm
  simp only [toKind, meaning] at hm
  cases hmb : meaningBody o (.linked f b) (Base.ofGlobals g) none with
  | error k => rw [hmb] at hm; cases hm
  | ok d =>
    rw [hmb] at hm
    injection hm with hm
    injection hm with hm _
    subst hm
    unfold meaningBody at hmb
    simp only at hmb
    have hmb2 := ite_err_ok hmb
    cases hf : meaningPart .front true f (Base.ofGlobals g) (some (cs!"linked_front")) with
    | error k => rw [hf] at hmb2; cases hmb2
    | ok r1 =>
      obtain ⟨fa', freq⟩ := r1
      rw [hf] at hmb2
      simp only at hmb2
      cases hb : meaningPart .back true b (Base.ofGlobals g) (some (cs!"linked_back")) with
      | error k => rw [hb] at hmb2; cases hmb2
      | ok r2 =>
        obtain ⟨ba', breq⟩ := r2
        rw [hb] at hmb2
        simp only at hmb2
        injection hmb2 with hmb2
        injection hmb2 with _ _ h3 h4 h5
        rw [meaningPart_req hf] at h3
        rw [meaningPart_req hb] at h4
        exact ⟨h3.symm, h4.symm, by rw [← h5]; rfl⟩

/-- `-a PART1...PART2` without `required`/`optional`: only restricted (anchored) parts are required. -/
theorem required_defaults_a (f b : Part) (g : Globals) (hs : (Spec.plain .a (.linked f b)).WF) (hg : GlobalsOK g)
    (hf : (paramSem f.params).required = none) (hb : (paramSem b.params).required = none)
    {fa ba : Single} {fr br : Value} {nm : Option Str}
    (h : parse (Body.linked f b).render .back g [] = .ok [.linked fa ba fr br nm]) :
    fr = .bool f.restr.restricted ∧ br = .bool b.restr.restricted := by
  obtain ⟨h1, h2, _⟩ := required_defaults .a f b g hs hg h
  rw [hf] at h1; rw [hb] at h2
  exact ⟨h1, h2⟩

/-- `-g PART1...PART2` without `required`/`optional`: both parts are required. -/
theorem required_defaults_g (f b : Part) (g : Globals) (hs : (Spec.plain .g (.linked f b)).WF) (hg : GlobalsOK g)
    (hf : (paramSem f.params).required = none) (hb : (paramSem b.params).required = none)
    {fa ba : Single} {fr br : Value} {nm : Option Str}
    (h : parse (Body.linked f b).render .front g [] = .ok [.linked fa ba fr br nm]) :
    fr = .bool true ∧ br = .bool true := by
  obtain ⟨h1, h2, _⟩ := required_defaults .g f b g hs hg h
  rw [hf] at h1; rw [hb] at h2
  exact ⟨h1, h2⟩

/-! ## Where the implementation leaves the documented notation (model level)

These two are facts about the code that the model reproduces; they are the reason for the side conditions `Part.noAnywhere`
(linked parts) and `fileParamName` (file-level parameters) in `Spec.WF`. -/

/-- the default global options: `-e 0.1 -O 3`, no read wildcards, adapter wildcards, indels -/
def defaultGlobals : Globals := ⟨.float ⟨1, 1⟩, .int 3, false, true, true⟩

/-- `-a "ACGT;anywhere...TTTT"`: `anywhere` inside a linked part reaches `SingleAdapter.__init__` as an unexpected keyword
    argument — a `TypeError`, which `cli.py` does not turn into a command-line error (traceback, exit status 1). -/
theorem linked_anywhere_crashes :
    toKind (parse (cs!"ACGT;anywhere...TTTT") .back defaultGlobals []) = .error .crash := by rfl

/-- `-a "file:adapters.fa;anywhere"` (equally `;rightmost`, `;required` for records that are not linked): file-level flags
    are passed on as keyword arguments — `TypeError` as above. -/
theorem file_level_flag_crashes :
    toKind (parse (cs!"file:a.fa;anywhere") .back defaultGlobals [(cs!"r1", cs!"ACGT")]) = .error .crash ∧
    toKind (parse (cs!"file:a.fa;rightmost") .front defaultGlobals [(cs!"r1", cs!"ACGT")]) = .error .crash ∧
    toKind (parse (cs!"file:a.fa;required") .back defaultGlobals [(cs!"r1", cs!"ACGT")]) = .error .crash := ⟨rfl, rfl, rfl⟩

/-! ## The hypotheses are satisfiable: concrete, non-trivial instances -/

/-- `-g "ad1=^AC{3}N{2}g;e=0.2;noindels"` -/
def ex1 : Spec :=
  .plain .g (.single ⟨some (cs!"ad1"), .caret, [⟨'A', none⟩, ⟨'C', some 3⟩, ⟨'N', some 2⟩, ⟨'g', none⟩],
    [⟨.e, some (.dec 0 [2])⟩, ⟨.noindels, none⟩]⟩)

/-- `-a "^ACGT;optional...T{4}X;o=3;max_errors=2"` -/
def ex2 : Spec :=
  .plain .a (.linked ⟨none, .caret, [⟨'A', none⟩, ⟨'C', none⟩, ⟨'G', none⟩, ⟨'T', none⟩], [⟨.optional, none⟩]⟩
    ⟨none, .xRight, [⟨'T', some 4⟩], [⟨.o, some (.int 3)⟩, ⟨.maxErrors, some (.int 2)⟩]⟩)

/-- `-g "^file:ad.fa;e=0.2;noindels"` with records `>r1 first` `ACGTAC;e=1` and `>` `ACGT...TTTT;min_overlap=2` -/
def ex3 : Spec :=
  .file .g .caret (cs!"ad.fa") [⟨.e, some (.dec 0 [2])⟩, ⟨.noindels, none⟩]
    [⟨cs!"r1 first", .single ⟨none, .none, [⟨'A', none⟩, ⟨'C', none⟩, ⟨'G', none⟩, ⟨'T', none⟩, ⟨'A', none⟩, ⟨'C', none⟩],
        [⟨.e, some (.int 1)⟩]⟩⟩,
     ⟨[], .linked ⟨none, .none, [⟨'A', none⟩, ⟨'C', none⟩, ⟨'G', none⟩, ⟨'T', none⟩], []⟩
        ⟨none, .none, [⟨'T', none⟩, ⟨'T', none⟩, ⟨'T', none⟩, ⟨'T', none⟩], [⟨.minOverlap, some (.int 2)⟩]⟩⟩]

theorem ex1_WF : ex1.WF := specWfB_sound (by decide)
theorem ex2_WF : ex2.WF := specWfB_sound (by decide)
theorem ex3_WF : ex3.WF := specWfB_sound (by decide)

example : ex1.render = cs!"ad1=^AC{3}N{2}g;e=0.2;noindels" := by decide
example : ex2.render = cs!"^ACGT;optional...T{4}X;o=3;max_errors=2" := by decide
example : ex3.render = cs!"^file:ad.fa;e=0.2;noindels" ∧
    ex3.records = [(cs!"r1 first", cs!"ACGTAC;e=1"), ([], cs!"ACGT...TTTT;min_overlap=2")] := by decide

/-- `parse_render` applies to the three instances; their documented meanings are (not trivially) these: -/
example : toKind (parse ex1.render .front defaultGlobals []) = meaning ex1 defaultGlobals := parse_render ex1 _ ex1_WF rfl
example : meaning ex1 defaultGlobals =
    .ok [.single ⟨.prefix, cs!"ACCCNNG", some (cs!"ad1"), .float ⟨2, 1⟩, 1, .int 7, .bool false, .bool false, true, false⟩] := by
  rfl
example : toKind (parse ex2.render .back defaultGlobals []) = meaning ex2 defaultGlobals := parse_render ex2 _ ex2_WF rfl
example : meaning ex2 defaultGlobals =
    .ok [.linked ⟨.prefix, cs!"ACGT", some (cs!"linked_front"), .float ⟨1, 1⟩, 1, .int 4, .bool true, .bool false, false, false⟩
      ⟨.nonInternalBack, cs!"TTTT", some (cs!"linked_back"), .int 2, 4, .int 3, .bool true, .bool false, false, false⟩
      (.bool false) (.bool true) none] := by
  rfl
example : toKind (parse ex3.render .front defaultGlobals ex3.records) = meaning ex3 defaultGlobals := parse_render ex3 _ ex3_WF rfl
example : meaning ex3 defaultGlobals =
    .ok [.single ⟨.prefix, cs!"ACGTAC", some (cs!"r1"), .int 1, 6, .int 6, .bool false, .bool false, false, false⟩,
      .linked ⟨.prefix, cs!"ACGT", some (cs!"linked_front"), .float ⟨2, 1⟩, 1, .int 4, .bool false, .bool false, false, false⟩
        ⟨.back, cs!"TTTT", some (cs!"linked_back"), .float ⟨2, 1⟩, 1, .int 2, .bool false, .bool false, false, false⟩
        (.bool true) (.bool true) none] := by
  rfl

/-- `expand_render_runs`: `AC{3}N{0}g{12}` -/
example : expandBraces (renderRuns [⟨'A', none⟩, ⟨'C', some 3⟩, ⟨'N', some 0⟩, ⟨'g', some 12⟩]) = .ok (cs!"ACCCgggggggggggg") :=
  expand_render_runs _ (by decide)

/-- `params_roundtrip`: `e=0.25;o=4;noindels;anywhere` -/
example : paramsConsistent [⟨.e, some (.dec 0 [2, 5])⟩, ⟨.o, some (.int 4)⟩, ⟨.noindels, none⟩, ⟨.anywhere, none⟩] = true := by decide
example : paramsTail [⟨.e, some (.dec 0 [2, 5])⟩, ⟨.o, some (.int 4)⟩, ⟨.noindels, none⟩, ⟨.anywhere, none⟩] = cs!"e=0.25;o=4;noindels;anywhere" := by
  decide

/-- `restrictions_roundtrip`: `XACGTN` -/
example : edgeOK (cs!"ACGTN") ∧ ∀ c ∈ cs!"ACGTN", c ≠ '^' ∧ c ≠ '$' := ⟨edgeB_sound (by decide), by decide⟩

/-- `absolute_errors`: `-a "ACGTNNAC;e=2"` has rate 2/6 -/
example : ∃ a, construct .back (cs!"ACGTNNAC") none [(.maxErrors, .int 2)] = .ok a ∧ a.maxErrors = .int 2 ∧ a.divisor = 6 :=
  ⟨_, rfl, rfl, rfl⟩

/-- the `rejected_*` theorems: `-g "^ACGT;o=3"`, `-a "XACGT"`, `-a "ACGT;rightmost"`, `-a "ACGT;optional"`, `-a "ACGT;e=1;max_errors=2"`,
    `-b "ACGT...TTTT"` -/
example : ∃ e, parse (cs!"^ACGT;o=3") .front defaultGlobals [] = .error e ∧ e.isCmdline = true :=
  rejected_min_overlap_anchored .g ⟨none, .caret, [⟨'A', none⟩, ⟨'C', none⟩, ⟨'G', none⟩, ⟨'T', none⟩], [⟨.o, some (.int 3)⟩]⟩
    defaultGlobals (partWfB_sound (by decide)) rfl (by decide) (Or.inl rfl)
example : ∃ e, parse (cs!"XACGT") .back defaultGlobals [] = .error e ∧ e.isCmdline = true :=
  rejected_restriction .a ⟨none, .xLeft, [⟨'A', none⟩, ⟨'C', none⟩, ⟨'G', none⟩, ⟨'T', none⟩], []⟩
    defaultGlobals (partWfB_sound (by decide)) rfl (Or.inl ⟨rfl, Or.inr rfl⟩)
example : ∃ e, parse (cs!"ACGT;rightmost") .back defaultGlobals [] = .error e ∧ e.isCmdline = true :=
  rejected_rightmost .a ⟨none, .none, [⟨'A', none⟩, ⟨'C', none⟩, ⟨'G', none⟩, ⟨'T', none⟩], [⟨.rightmost, none⟩]⟩
    defaultGlobals (partWfB_sound (by decide)) rfl (by decide) (by decide)
example : ∃ e, parse (cs!"ACGT;optional") .back defaultGlobals [] = .error e ∧ e.isCmdline = true :=
  rejected_required_outside_linked .a ⟨none, .none, [⟨'A', none⟩, ⟨'C', none⟩, ⟨'G', none⟩, ⟨'T', none⟩], [⟨.optional, none⟩]⟩
    defaultGlobals (partWfB_sound (by decide)) rfl (Or.inr (by decide))
example : ∃ e, parse (cs!"ACGT;e=1;max_errors=2") .back defaultGlobals [] = .error e ∧ e.isCmdline = true :=
  rejected_duplicate_parameter .a ⟨none, .none, [⟨'A', none⟩, ⟨'C', none⟩, ⟨'G', none⟩, ⟨'T', none⟩],
      [⟨.e, some (.int 1)⟩, ⟨.maxErrors, some (.int 2)⟩]⟩
    defaultGlobals (partWfB_sound (by decide)) rfl (by decide)
example : ∃ e, parse (cs!"ACGT...TTTT") .anywhere defaultGlobals [] = .error e ∧ e.isCmdline = true :=
  rejected_linked_b ⟨none, .none, [⟨'A', none⟩, ⟨'C', none⟩, ⟨'G', none⟩, ⟨'T', none⟩], []⟩
    ⟨none, .none, [⟨'T', some 4⟩], []⟩ defaultGlobals (bodyWfB_sound (b := .linked _ _) (by decide)) rfl

/-- `required_defaults`: `-a "^ACGT...TTTT"` (front required, back optional) and `-g "ACGT...TTTT"` (both required) -/
example : ∃ fa ba, parse (cs!"^ACGT...TTTT") .back defaultGlobals [] = .ok [.linked fa ba (.bool true) (.bool false) none] :=
  ⟨_, _, rfl⟩
example : ∃ fa ba, parse (cs!"ACGT...TTTT") .front defaultGlobals [] = .ok [.linked fa ba (.bool true) (.bool true) none] :=
  ⟨_, _, rfl⟩

/-! ## Tie to the regenerated tables of `parser.py` / `adapters.py` -/

def canonName : Parser.Key → String
  | .maxErrors => "max_errors" | .minOverlap => "min_overlap" | .anywhere => "anywhere" | .required => "required"
  | .optional => "optional" | .indels => "indels" | .noindels => "noindels" | .rightmost => "rightmost"
  | .readWildcards => "read_wildcards" | .adapterWildcards => "adapter_wildcards" | .forceAnywhere => "force_anywhere"

/-- every name the code's `allowed_parameters` accepts is accepted by the model and un-abbreviated to the same canonical name -/
theorem generated_parameters_match_model :
    Generated.allowedParameters.all (fun p => (Parser.keyOfName p.1.toList).map canonName == some p.2) = true := by decide

/-- … and the model accepts no other name: the twelve names of the model are exactly the generated ones -/
theorem model_parameters_are_generated :
    ["e", "error_rate", "max_error_rate", "max_errors", "o", "min_overlap", "anywhere", "required", "optional", "indels", "noindels",
      "rightmost"].all (fun n => Generated.allowedParameters.any (fun p => p.1 == n)) = true ∧
    Generated.allowedParameters.length = 12 := by decide

/-- the IUPAC alphabet of `SingleAdapter.__init__` is the model's -/
theorem generated_iupac_matches_model :
    (List.range 128).all (fun n => Parser.isIupac (Char.ofNat n) == Generated.iupacAlphabet.toList.contains (Char.ofNat n)) = true := by
  decide +kernel

/-- the brace repeat limit is the model's -/
theorem generated_brace_limit : Generated.braceLimit = 10000 := by decide

end Cutadapt.C18
