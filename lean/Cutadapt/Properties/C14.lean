import Cutadapt.Generated.C14Tables
import Cutadapt.Proofs.Poly
import Cutadapt.ExpectedErrors
/-! # C14 — poly-A, N-end trimming, N counts and expected errors match their definitions

Model: `Qualtrim.polyATrimIndex`, `Qualtrim.nEndIndices`, `Qualtrim.nCountBoth`, `ExpErr.expectedErrorsG`.
All theorems hold for every sequence / quality string of any length. -/
namespace Cutadapt.C14
open Cutadapt Cutadapt.Qualtrim Cutadapt.ExpErr Cutadapt.Generated

/-! ## Poly-A tails (suffix) and poly-T heads (prefix) -/

/-- score of the suffix starting at `i`: +1 per `hit`, −2 per other character -/
def sufScore (hit : UInt8) (s : Bytes) (i : Nat) : Int := ((s.drop i).map (pval hit)).sum
/-- number of other characters in the suffix starting at `i` -/
def sufErr (hit : UInt8) (s : Bytes) (i : Nat) : Nat := ((s.drop i).map (perr hit)).sum
/-- at most 20 % other characters in the suffix starting at `i` -/
def SufValid (hit : UInt8) (s : Bytes) (i : Nat) : Prop := sufErr hit s i * 5 ≤ s.length - i

theorem scoreAt_reverse (hit : UInt8) (s : Bytes) (t : Nat) :
    scoreAt hit 0 s.reverse t = sufScore hit s (s.length - t) := by
  unfold scoreAt sufScore
  rw [List.take_reverse, List.map_reverse, List.sum_reverse]; simp

theorem natSum_reverse (l : List Nat) : l.reverse.sum = l.sum := by
  induction l with
  | nil => rfl
  | cons a l ih => simp [List.sum_append, ih]; omega

theorem errAt_reverse (hit : UInt8) (s : Bytes) (t : Nat) :
    errAt hit 0 s.reverse t = sufErr hit s (s.length - t) := by
  unfold errAt sufErr
  rw [List.take_reverse, List.map_reverse, natSum_reverse]; simp

theorem validAt_reverse (hit : UInt8) (s : Bytes) (t : Nat) (ht : t ≤ s.length) :
    ValidAt hit 0 0 s.reverse t ↔ SufValid hit s (s.length - t) := by
  unfold ValidAt SufValid; rw [errAt_reverse]
  have : s.length - (s.length - t) = t := by omega
  rw [this]; simp

/-- **Poly-A trimming** (`poly_a_trim_index(s)`): if something is removed (`idx < n`), the removed tail `s[idx:]`
    has at least three characters, at most 20 % non-A, a positive score, the maximal score among all valid tails, and is
    the shortest tail with that score. -/
theorem polyA_removed (s : Bytes) (h : polyATrimIndex s false < s.length) :
    let idx := polyATrimIndex s false
    3 ≤ s.length - idx ∧ SufValid 65 s idx ∧ 0 < sufScore 65 s idx ∧
    (∀ i, i < s.length → SufValid 65 s i → sufScore 65 s i ≤ sufScore 65 s idx) ∧
    (∀ i, idx < i → i < s.length → SufValid 65 s i → sufScore 65 s i < sufScore 65 s idx) := by
  intro idx
  have hidx : idx = polyATrimIndex s false := rfl
  unfold polyATrimIndex at hidx h
  simp only [Bool.false_eq_true, if_false] at hidx h
  rcases polyBest_spec 65 s.reverse with ⟨h0, _⟩ | ⟨h1, h2, hval, hpos, hall, hfirst⟩
  · rw [h0] at h; simp at h
  · simp only [List.length_reverse] at h2 hall
    by_cases hb : polyBest 65 s.reverse < 3
    · rw [if_pos hb] at h; omega
    · rw [if_neg hb] at hidx
      have hb' : polyBest 65 s.reverse = s.length - idx := by omega
      rw [hb'] at hval hpos hall hfirst
      have e : s.length - (s.length - idx) = idx := by omega
      refine ⟨by omega, ?_, ?_, ?_, ?_⟩
      · have := (validAt_reverse 65 s (s.length - idx) (by omega)).mp hval; rwa [e] at this
      · rw [scoreAt_reverse, e] at hpos; exact hpos
      · intro i hi hv
        have hv' : ValidAt 65 0 0 s.reverse (s.length - i) := by
          rw [validAt_reverse 65 s _ (by omega)]
          have : s.length - (s.length - i) = i := by omega
          rwa [this]
        have := hall (s.length - i) (by omega) (by omega) hv'
        rw [scoreAt_reverse, scoreAt_reverse, e] at this
        have e2 : s.length - (s.length - i) = i := by omega
        rwa [e2] at this
      · intro i hi1 hi2 hv
        have hv' : ValidAt 65 0 0 s.reverse (s.length - i) := by
          rw [validAt_reverse 65 s _ (by omega)]
          have : s.length - (s.length - i) = i := by omega
          rwa [this]
        have := hfirst (s.length - i) (by omega) (by omega) hv'
        rw [scoreAt_reverse, scoreAt_reverse, e] at this
        have e2 : s.length - (s.length - i) = i := by omega
        rwa [e2] at this

/-- If nothing is removed (`idx = n`), either no valid tail has a positive score, or the best tail (maximal score,
    shortest on ties) is shorter than three characters. -/
theorem polyA_kept (s : Bytes) (h : polyATrimIndex s false = s.length) :
    (∀ i, i < s.length → SufValid 65 s i → sufScore 65 s i ≤ 0) ∨
    (∃ i, i < s.length ∧ s.length - i < 3 ∧ SufValid 65 s i ∧ 0 < sufScore 65 s i ∧
      (∀ i', i' < s.length → SufValid 65 s i' → sufScore 65 s i' ≤ sufScore 65 s i) ∧
      (∀ i', i < i' → i' < s.length → SufValid 65 s i' → sufScore 65 s i' < sufScore 65 s i)) := by
  unfold polyATrimIndex at h
  simp only [Bool.false_eq_true, if_false] at h
  rcases polyBest_spec 65 s.reverse with ⟨_, hall⟩ | ⟨h1, h2, hval, hpos, hall, hfirst⟩
  · left
    intro i hi hv
    simp only [List.length_reverse] at hall
    have hv' : ValidAt 65 0 0 s.reverse (s.length - i) := by
      rw [validAt_reverse 65 s _ (by omega)]
      have : s.length - (s.length - i) = i := by omega
      rwa [this]
    have := hall (s.length - i) (by omega) (by omega) hv'
    rw [scoreAt_reverse] at this
    have e2 : s.length - (s.length - i) = i := by omega
    rwa [e2] at this
  · right
    simp only [List.length_reverse] at h2 hall
    have hb : polyBest 65 s.reverse < 3 := by
      by_cases hb : polyBest 65 s.reverse < 3
      · exact hb
      · rw [if_neg hb] at h; omega
    refine ⟨s.length - polyBest 65 s.reverse, by omega, by omega, ?_, ?_, ?_, ?_⟩
    · exact (validAt_reverse 65 s _ h2).mp hval
    · rw [scoreAt_reverse] at hpos; exact hpos
    · intro i hi hv
      have hv' : ValidAt 65 0 0 s.reverse (s.length - i) := by
        rw [validAt_reverse 65 s _ (by omega)]
        have : s.length - (s.length - i) = i := by omega
        rwa [this]
      have := hall (s.length - i) (by omega) (by omega) hv'
      rw [scoreAt_reverse, scoreAt_reverse] at this
      have e2 : s.length - (s.length - i) = i := by omega
      rwa [e2] at this
    · intro i hi1 hi2 hv
      have hv' : ValidAt 65 0 0 s.reverse (s.length - i) := by
        rw [validAt_reverse 65 s _ (by omega)]
        have : s.length - (s.length - i) = i := by omega
        rwa [this]
      have := hfirst (s.length - i) (by omega) (by omega) hv'
      rw [scoreAt_reverse, scoreAt_reverse] at this
      have e2 : s.length - (s.length - i) = i := by omega
      rwa [e2] at this

theorem polyA_index_le (s : Bytes) : polyATrimIndex s false ≤ s.length := by
  unfold polyATrimIndex; simp only [Bool.false_eq_true, if_false]; split <;> omega

/-- **Poly-T heads** (R2, `revcomp=True`): the removed head `s[:idx]` (if `idx > 0`) has at least three characters, at
    most 20 % non-T, positive and maximal score among valid heads, and is the shortest such head. -/
theorem polyT_removed (s : Bytes) (h : 0 < polyATrimIndex s true) :
    let idx := polyATrimIndex s true
    3 ≤ idx ∧ idx ≤ s.length ∧ ValidAt 84 0 0 s idx ∧ 0 < scoreAt 84 0 s idx ∧
    (∀ t, 1 ≤ t → t ≤ s.length → ValidAt 84 0 0 s t → scoreAt 84 0 s t ≤ scoreAt 84 0 s idx) ∧
    (∀ t, 1 ≤ t → t < idx → ValidAt 84 0 0 s t → scoreAt 84 0 s t < scoreAt 84 0 s idx) := by
  intro idx
  have hidx : idx = polyATrimIndex s true := rfl
  unfold polyATrimIndex at hidx h
  simp only [if_true] at hidx h
  by_cases hb : polyBest 84 s < 3
  · rw [if_pos hb] at h; omega
  · rw [if_neg hb] at hidx
    rcases polyBest_spec 84 s with ⟨h0, _⟩ | ⟨h1, h2, hval, hpos, hall, hfirst⟩
    · omega
    · rw [hidx]; exact ⟨by omega, h2, hval, hpos, hall, hfirst⟩

theorem polyT_kept (s : Bytes) (h : polyATrimIndex s true = 0) :
    (∀ t, 1 ≤ t → t ≤ s.length → ValidAt 84 0 0 s t → scoreAt 84 0 s t ≤ 0) ∨
    (polyBest 84 s < 3 ∧ 1 ≤ polyBest 84 s ∧ 0 < scoreAt 84 0 s (polyBest 84 s) ∧
      (∀ t, 1 ≤ t → t ≤ s.length → ValidAt 84 0 0 s t → scoreAt 84 0 s t ≤ scoreAt 84 0 s (polyBest 84 s)) ∧
      (∀ t, 1 ≤ t → t < polyBest 84 s → ValidAt 84 0 0 s t → scoreAt 84 0 s t < scoreAt 84 0 s (polyBest 84 s))) := by
  unfold polyATrimIndex at h
  simp only [if_true] at h
  rcases polyBest_spec 84 s with ⟨_, hall⟩ | ⟨h1, h2, hval, hpos, hall, hfirst⟩
  · left; exact hall
  · right
    by_cases hb : polyBest 84 s < 3
    · exact ⟨hb, h1, hpos, hall, hfirst⟩
    · rw [if_neg hb] at h; omega

/-! ## `--trim-n` -/

theorem tw_len_le (p : α → Bool) (l : List α) : (l.takeWhile p).length ≤ l.length := by
  induction l with
  | nil => simp
  | cons a l ih =>
    by_cases ha : p a = true
    · simp [List.takeWhile_cons, ha]; omega
    · simp [List.takeWhile_cons, ha]

theorem tw_prefix (p : α → Bool) (l : List α) : ∀ i (_ : i < (l.takeWhile p).length) (h : i < l.length), p l[i] = true := by
  induction l with
  | nil => intro i hi; simp at hi
  | cons a l ih =>
    intro i hi h
    by_cases ha : p a = true
    · simp only [List.takeWhile_cons, ha, if_true, List.length_cons] at hi
      cases i with
      | zero => simpa using ha
      | succ i => simpa using ih i (by omega) (by simp at h; omega)
    · simp [List.takeWhile_cons, ha] at hi

theorem takeWhile_stop (p : α → Bool) (l : List α) (h : (l.takeWhile p).length < l.length) :
    p (l[(l.takeWhile p).length]'h) = false := by
  induction l with
  | nil => simp at h
  | cons a l ih =>
    by_cases ha : p a = true
    · simp only [List.takeWhile_cons, ha, if_true, List.length_cons] at h ⊢
      simpa using ih (by omega)
    · simp [ha]

/-- `--trim-n` removes exactly the maximal run of `N` at the start and the maximal run of `N` at the end:
    with `(a, e) = nEndIndices s`, the first `a` characters and the characters from `e` on are `N`, and the character
    after the leading run (if any) is not `N`. The output is the Python slice `s[a:e]` (empty when the read consists
    of `N` only). See `trimN_end_maximal` for the character before the trailing run. -/
theorem trimN_spec (s : Bytes) :
    (nEndIndices s).1 ≤ s.length ∧ (nEndIndices s).2 ≤ s.length ∧
    (∀ i (h : i < s.length), i < (nEndIndices s).1 → s[i] = 78) ∧
    (∀ (h : (nEndIndices s).1 < s.length), s[(nEndIndices s).1] ≠ 78) ∧
    (∀ i (h : i < s.length), (nEndIndices s).2 ≤ i → s[i] = 78) := by
  refine ⟨tw_len_le _ _, by simp [nEndIndices], ?_, ?_, ?_⟩
  · intro i h hi
    have := tw_prefix isUpperN s i hi h
    simpa [isUpperN] using this
  · intro h
    simp only [nEndIndices] at h ⊢
    have := takeWhile_stop isUpperN s h
    simpa [isUpperN] using this
  · intro i h hei
    simp only [nEndIndices] at hei
    have hl : (s.reverse.takeWhile isUpperN).length ≤ s.length := by
      have := tw_len_le isUpperN s.reverse; simpa using this
    have hi' : s.length - 1 - i < (s.reverse.takeWhile isUpperN).length := by omega
    have := tw_prefix isUpperN s.reverse (s.length - 1 - i) hi' (by simp; omega)
    rw [List.getElem_reverse] at this
    have e : s.length - 1 - (s.length - 1 - i) = i := by omega
    simp only [e] at this
    simpa [isUpperN] using this

/-- the character just before the trailing run of `N` (if the run does not cover the whole read) is not `N` -/
theorem trimN_end_maximal (s : Bytes) (h : 0 < (nEndIndices s).2) (h' : (nEndIndices s).2 - 1 < s.length) :
    s[(nEndIndices s).2 - 1] ≠ 78 := by
  simp only [nEndIndices] at h h' ⊢
  have hl : (s.reverse.takeWhile isUpperN).length < s.reverse.length := by simp; omega
  have := takeWhile_stop isUpperN s.reverse hl
  rw [List.getElem_reverse] at this
  have e : s.length - 1 - (s.reverse.takeWhile isUpperN).length = s.length - (s.reverse.takeWhile isUpperN).length - 1 := by omega
  simp only [e] at this
  simpa [isUpperN] using this

/-! ## N count used by `--max-n` -/

/-- counts upper- and lower-case `N` -/
theorem nCount_spec (s : Bytes) : nCountBoth s = s.count 78 + s.count 110 := by
  induction s with
  | nil => rfl
  | cons c s ih =>
    simp only [nCountBoth] at ih ⊢
    rw [List.filter_cons, List.count_cons, List.count_cons]
    by_cases h1 : c = 78
    · subst h1; simp; omega
    · by_cases h2 : c = 110
      · subst h2; simp; omega
      · have e1 : (c == 78) = false := by simpa using h1
        have e2 : (c == 110) = false := by simpa using h2
        simp [e1, e2, ih]

/-! ## Expected errors -/

/-- In any commutative, associative arithmetic the four-accumulator loop of `expected_errors_from_phreds` returns the
    plain sum. (IEEE addition is not associative: the `Float` instance is tied to the C code by the bit-exact
    correspondence instead; see the trusted base.) -/
theorem accumulate_eq_sum [Add α] (assoc : ∀ a b c : α, a + b + c = a + (b + c)) (comm : ∀ a b : α, a + b = b + a)
    (xs : List α) : ∀ (a0 a1 a2 a3 : α), accumulate a0 a1 a2 a3 xs = xs.foldl (· + ·) (a0 + a1 + a2 + a3) := by
  have fold_add : ∀ (ys : List α) (a b : α), ys.foldl (· + ·) (a + b) = ys.foldl (· + ·) a + b := by
    intro ys
    induction ys with
    | nil => intros; rfl
    | cons y ys ih =>
      intro a b
      simp only [List.foldl_cons]
      have : a + b + y = a + y + b := by rw [assoc, comm b y, ← assoc]
      rw [this, ih]
  -- strong induction on the length
  intro a0 a1 a2 a3
  induction hn : xs.length using Nat.strongRecOn generalizing xs a0 a1 a2 a3 with
  | _ n ih =>
    match xs, hn with
    | x0 :: x1 :: x2 :: x3 :: rest, hn =>
      rw [accumulate]
      rw [ih rest.length (by simp at hn; omega) rest _ _ _ _ rfl]
      simp only [List.foldl_cons]
      congr 1
      -- (a0+x0)+(a1+x1)+(a2+x2)+(a3+x3) = a0+a1+a2+a3+x0+x1+x2+x3
      have sw : ∀ p q r : α, p + q + r = p + r + q := by
        intro p q r; rw [assoc, comm q r, ← assoc]
      calc a0 + x0 + (a1 + x1) + (a2 + x2) + (a3 + x3)
          = a0 + x0 + a1 + x1 + (a2 + x2) + (a3 + x3) := by rw [← assoc (a0 + x0) a1 x1]
        _ = a0 + a1 + x0 + x1 + (a2 + x2) + (a3 + x3) := by rw [sw a0 x0 a1]
        _ = a0 + a1 + x0 + x1 + a2 + x2 + (a3 + x3) := by rw [← assoc (a0 + a1 + x0 + x1) a2 x2]
        _ = a0 + a1 + x0 + a2 + x1 + x2 + (a3 + x3) := by rw [sw (a0 + a1 + x0) x1 a2]
        _ = a0 + a1 + a2 + x0 + x1 + x2 + (a3 + x3) := by rw [sw (a0 + a1) x0 a2]
        _ = a0 + a1 + a2 + x0 + x1 + x2 + a3 + x3 := by rw [← assoc (a0 + a1 + a2 + x0 + x1 + x2) a3 x3]
        _ = a0 + a1 + a2 + x0 + x1 + a3 + x2 + x3 := by rw [sw (a0 + a1 + a2 + x0 + x1) x2 a3]
        _ = a0 + a1 + a2 + x0 + a3 + x1 + x2 + x3 := by rw [sw (a0 + a1 + a2 + x0) x1 a3]
        _ = a0 + a1 + a2 + a3 + x0 + x1 + x2 + x3 := by rw [sw (a0 + a1 + a2) x0 a3]
    | [], _ => simp [accumulate]
    | [x0], _ => simp [accumulate, fold_add]
    | [x0, x1], _ => simp [accumulate, fold_add]
    | [x0, x1, x2], _ => simp [accumulate, fold_add]

/-- a quality character is valid iff it lies in `[base, 126]`, and then its phred value is `c − base` -/
theorem phredOf_spec (base c : UInt8) (hb : base ≤ 126) :
    phredOf base c = (if base ≤ c ∧ c ≤ 126 then some (c.toNat - base.toNat) else none) := by
  unfold phredOf
  simp only [UInt8.le_iff_toNat_le, UInt8.lt_iff_toNat_lt, gt_iff_lt] at *
  have h126 : (126 : UInt8).toNat = 126 := rfl
  rw [h126] at hb ⊢
  have hsub1 : (126 - base).toNat = 126 - base.toNat := by
    rw [UInt8.toNat_sub_of_le _ _ (by simp [UInt8.le_iff_toNat_le]; omega)]; rfl
  by_cases hc : base.toNat ≤ c.toNat
  · have hsub2 : (c - base).toNat = c.toNat - base.toNat := UInt8.toNat_sub_of_le _ _ (by simp [UInt8.le_iff_toNat_le]; omega)
    rw [hsub1, hsub2]
    by_cases h2 : c.toNat ≤ 126
    · simp [hc, h2]; omega
    · simp [hc, h2]; omega
  · have hlt : c.toNat < base.toNat := by omega
    have hsub2 : (c - base).toNat = 256 + c.toNat - base.toNat := by
      rw [UInt8.toNat_sub]; have := c.toNat_lt; have := base.toNat_lt; simp at *; omega
    rw [hsub1, hsub2]
    have := c.toNat_lt
    simp [hc]; omega

/-- **Expected errors** over exact arithmetic: for a quality string whose characters are all valid, the value is the
    sum of the table entries `T[q_i − base]` — for every length (all residues mod 4 of the unrolled loop). -/
theorem ee_exact [Add α] (assoc : ∀ a b c : α, a + b + c = a + (b + c)) (comm : ∀ a b : α, a + b = b + a)
    (zero : α) (hz : ∀ a : α, zero + a = a) (tbl : Nat → α) (base : UInt8) (quals : Bytes) (ps : List Nat)
    (h : phreds base quals = some ps) :
    expectedErrorsG zero tbl base quals = some ((ps.map tbl).foldl (· + ·) zero) := by
  unfold expectedErrorsG
  rw [h]; simp only [Option.map_some]
  rw [accumulate_eq_sum assoc comm]
  simp [hz]

/-- the table is `10^(−q/10)` to double precision: `|T[q]^10 · 10^q − 1| < 10^(−13)` for every entry, checked on the
    exact rational values of the generated doubles by kernel computation. -/
def tableAccurate : Bool :=
  (List.zipIdx phredExact).all fun ((num, den), q) =>
    let a := num ^ 10 * 10 ^ q
    let b := den ^ 10
    (if a ≥ b then a - b else b - a) * 10 ^ 13 < b

theorem table_accurate : tableAccurate = true ∧ phredExact.length = 94 := by
  constructor
  · decide +kernel
  · decide +kernel

/-- the bit patterns handed to the `Float` model denote exactly those rationals (normal, positive doubles):
    `(2^52 + mantissa) · 2^(exponent − 1075) = num / den`. -/
def bitsMatchExact : Bool :=
  (List.zip phredBits.toList phredExact).all fun (bits, (num, den)) =>
    let b := bits.toNat
    let e := b / 2 ^ 52
    let mant := b % 2 ^ 52
    e ≥ 1 ∧ e ≤ 1075 ∧ (2 ^ 52 + mant) * den = num * 2 ^ (1075 - e)

theorem table_bits_exact : bitsMatchExact = true ∧ phredBits.size = 94 := by
  constructor
  · decide +kernel
  · decide +kernel

/-! Non-vacuity -/
example : polyATrimIndex [67, 71, 65, 65, 65, 65] false = 2 := by decide           -- "CGAAAA" → 2
example : polyATrimIndex [67, 65, 65, 65, 67, 65, 65, 65, 65, 65] false = 1 := by decide   -- one non-A inside the tail
example : polyATrimIndex [84, 84, 84, 84, 67] true = 4 := by decide
example : nEndIndices [78, 78, 65, 78, 67, 78] = (2, 5) := by decide
example : phreds 33 [73, 33, 126] = some [40, 0, 93] := by decide
example : phreds 33 [32] = none := by decide

/-! ## `--poly-a`, `--trim-n`, `--max-n` of the real program, alone and next to unrelated options (regenerated on every run) -/

/-- what `--trim-n` keeps, as an interval (an empty result is `(0, 0)`) -/
def trimNKeptModel (s : Bytes) : Nat × Nat :=
  let r := nEndIndices s
  if r.1 ≥ r.2 then (0, 0) else r

/-- `--max-n num/den`: 1 = kept. Below 1 the cutoff is a fraction of the read length (an empty read is kept); the count is of `N` and `n` -/
def maxNKeptModel (s : Bytes) (num den : Nat) : Nat :=
  let cnt := nCountBoth s
  if num < den then (if s.length = 0 then 1 else if cnt * den > num * s.length then 0 else 1)
  else (if cnt * den > num then 0 else 1)

/-- **`--poly-a`, `--trim-n` and `--max-n` of the real program are the model's `polyATrimIndex`, `nEndIndices` and `nCountBoth` on every probe, and the same whether
    they stand alone or next to `-O 1`, `-O 10`, `-e 0.5`, `--action=none`, `--action=lowercase`**: tails of 0 … 6 A are removed from three A on (whatever `-O` says), a
    single base between N runs survives `--trim-n`, lower-case `n` counts for `--max-n` under every action (`polyA_removed`/`polyA_kept`, `trimN_spec`, `nCount_spec` state
    the definitions for all reads). -/
theorem generated_c14_tables :
    (∀ row ∈ Generated.polyAKept, (Generated.polyAProbes[row.2.1]?).map (fun s => polyATrimIndex s false) = some row.2.2) ∧
    (∀ row ∈ Generated.trimNKept, (Generated.trimNProbes[row.2.1]?).map trimNKeptModel = some (row.2.2.1, row.2.2.2)) ∧
    (∀ row ∈ Generated.maxNKept, (Generated.maxNProbes[row.2.1]?).map (fun p => maxNKeptModel p.1 p.2.1 p.2.2) = some row.2.2) := by
  decide

end Cutadapt.C14
