import Cutadapt.Stats
namespace Cutadapt.C16
end Cutadapt.C16
