import Cutadapt.Proofs.ModsPaired
import Cutadapt.Stats
/-! # C16 — `--revcomp` keeps the orientation that matches strictly better

Model: `applyS … (.revcomp c suffix first)` (`ReverseComplementer.__call__`) against `applyS … (.adapters c first)`
(`AdapterCutter.__call__`), and `applyP … (.pairedRevcomp …)` (`PairedReverseComplementer.__call__`) against the wrapped
pair of adapter cutters. `originalAfter first info readAfter` is the bookkeeping of `info.original_read` that both stages
share (the in-place upper-casing of `lowercase` shows in it when the read object *is* the original read).
All theorems hold for every cutter, read and `ModificationInfo`. -/
namespace Cutadapt.C16
open Cutadapt Cutadapt.Adapters

/-! ## The decision -/

theorem useReverse_iff (fms rms : List AnyMatch) :
    useReverse fms rms = true ↔ (rms ≠ [] ∧ scoreSum rms > scoreSum fms) := by
  cases rms <;> simp [useReverse]

theorem scoreSum_def (ms : List AnyMatch) : scoreSum ms = (ms.map AnyMatch.score).sum := rfl

/-- how both stages update `info.original_read` -/
theorem originalAfter_def (first : Bool) (i : Info) (ra : Read) :
    originalAfter first i ra = if first then { i with original := { i.original with seq := ra.seq } } else i := rfl

/-! ## The stage is total -/

/-- `match_and_trim` can only fail with the `AttributeError` of crop on a linked match -/
theorem matchAndTrim_error (c : Cutter) (r : Read) (e : Err) (h : matchAndTrim c r = .error e) :
    e = .attribute ∧ c.action = .crop := by
  rcases getLast?_cases (rounds c.adapters c.times (searchRead c r) []).2 with hn | ⟨last, hl⟩
  · rw [matchAndTrim_no_match c r hn] at h; simp at h
  · rw [matchAndTrim_last c r last hl] at h
    unfold actionResult at h
    cases hact : c.action <;> simp only [hact] at h <;> try (simp at h)
    cases last with
    | single _ _ => simp at h
    | linked _ _ _ => simp at h; exact ⟨h.symm, rfl⟩

/-- **The stage raises nothing of its own** (in particular no `AssertionError`): an error is the error of one of the two
    `match_and_trim` calls, on the read or on its reverse complement -/
theorem revcomp_total (names : Names) (side : Nat) (c : Cutter) (sfx first : Bool) (r : Read) (i : Info) (e : Err)
    (h : applyS names side (.revcomp c sfx first) r i = .error e) :
    (matchAndTrim c r = .error e ∨ matchAndTrim c r.revcomp = .error e) ∧ e ≠ .assertion := by
  rw [applyS_revcomp] at h
  have key : matchAndTrim c r = .error e ∨ matchAndTrim c r.revcomp = .error e := by
    cases hf : matchAndTrim c r with
    | error e1 => rw [hf] at h; simp at h; left; rw [h]
    | ok v =>
      obtain ⟨ft, fms, fa⟩ := v
      cases hr : matchAndTrim c r.revcomp with
      | error e2 => rw [hf, hr] at h; simp at h; right; rw [h]
      | ok w =>
        obtain ⟨rt, rms, ra⟩ := w
        rw [hf, hr] at h
        simp only at h
        split at h <;> simp at h
  refine ⟨key, ?_⟩
  rcases key with k | k <;> rw [(matchAndTrim_error c _ e k).1] <;> simp

/-- and it succeeds whenever both calls succeed -/
theorem revcomp_succeeds (names : Names) (side : Nat) (c : Cutter) (sfx first : Bool) (r : Read) (i : Info)
    (ft rt fa ra : Read) (fms rms : List AnyMatch)
    (hf : matchAndTrim c r = .ok (ft, fms, fa)) (hr : matchAndTrim c r.revcomp = .ok (rt, rms, ra)) :
    ∃ out, applyS names side (.revcomp c sfx first) r i = .ok out := by
  rw [applyS_revcomp, hf, hr]
  simp only
  split <;> exact ⟨_, rfl⟩

/-! ## Forward orientation kept -/

theorem matchedEvents_def (side : Nat) (ms : List AnyMatch) (rc : Bool) :
    matchedEvents side ms rc = if ms.isEmpty then [] else Event.withAdapter side :: ms.map (fun m => Event.matched side m rc) := rfl

theorem no_revComp_in_matchedEvents (side : Nat) (ms : List AnyMatch) (rc : Bool) :
    ∀ ev ∈ matchedEvents side ms rc, ∀ k, (Summary.add k ev).reverseComplemented = k.reverseComplemented := by
  intro ev hev k
  unfold matchedEvents at hev
  split at hev
  · simp at hev
  · rcases List.mem_cons.mp hev with e | e
    · subst e; cases side <;> rfl
    · obtain ⟨m, _, rfl⟩ := List.mem_map.mp e; rfl

/-- **Unless the reverse complement matches strictly better, the stage returns what plain adapter trimming returns**:
    same read, same appended matches, same `with_adapters` / `add_match` events (none booked as reverse-complemented);
    the only difference is `info.is_rc = False` instead of unset -/
theorem revcomp_keeps_forward (names : Names) (side : Nat) (c : Cutter) (sfx first : Bool) (r : Read) (i : Info)
    (ft rt fa ra : Read) (fms rms : List AnyMatch)
    (hf : matchAndTrim c r = .ok (ft, fms, fa)) (hr : matchAndTrim c r.revcomp = .ok (rt, rms, ra))
    (hno : ¬ (rms ≠ [] ∧ scoreSum rms > scoreSum fms)) :
    applyS names side (.adapters c first) r i =
      .ok (ft, { originalAfter first i fa with mts := (originalAfter first i fa).mts ++ fms }, matchedEvents side fms false) ∧
    applyS names side (.revcomp c sfx first) r i =
      .ok (ft, { originalAfter first i fa with isRc := some false, mts := (originalAfter first i fa).mts ++ fms },
           matchedEvents side fms false) := by
  have hu : useReverse fms rms = false := by
    cases hb : useReverse fms rms with
    | false => rfl
    | true => exact absurd ((useReverse_iff fms rms).mp hb) hno
  constructor
  · rw [applyS_adapters, hf]
  · rw [applyS_revcomp, hf, hr]; simp only [hu]; rfl

/-- in the form "same result as `AdapterCutter`, modulo the flag" -/
theorem revcomp_keeps_forward' (names : Names) (side : Nat) (c : Cutter) (sfx first : Bool) (r : Read) (i : Info)
    (ft rt fa ra : Read) (fms rms : List AnyMatch)
    (hf : matchAndTrim c r = .ok (ft, fms, fa)) (hr : matchAndTrim c r.revcomp = .ok (rt, rms, ra))
    (hno : ¬ (rms ≠ [] ∧ scoreSum rms > scoreSum fms)) :
    ∃ r' i' evs, applyS names side (.adapters c first) r i = .ok (r', i', evs) ∧
      applyS names side (.revcomp c sfx first) r i = .ok (r', { i' with isRc := some false }, evs) ∧
      (∀ ev ∈ evs, ∀ k, (Summary.add k ev).reverseComplemented = k.reverseComplemented) ∧
      (∀ ev ∈ evs, ∀ s m rc, ev = Event.matched s m rc → rc = false) := by
  obtain ⟨h1, h2⟩ := revcomp_keeps_forward names side c sfx first r i ft rt fa ra fms rms hf hr hno
  refine ⟨_, _, _, h1, h2, no_revComp_in_matchedEvents side fms false, ?_⟩
  intro ev hev s m rc he
  subst he
  unfold matchedEvents at hev
  split at hev
  · simp at hev
  · simp at hev
    obtain ⟨_, _, _, _, h⟩ := hev
    exact h

/-- **On equal scores the given orientation is kept** -/
theorem revcomp_tie_keeps_forward (names : Names) (side : Nat) (c : Cutter) (sfx first : Bool) (r : Read) (i : Info)
    (ft rt fa ra : Read) (fms rms : List AnyMatch)
    (hf : matchAndTrim c r = .ok (ft, fms, fa)) (hr : matchAndTrim c r.revcomp = .ok (rt, rms, ra))
    (htie : scoreSum rms = scoreSum fms) :
    applyS names side (.revcomp c sfx first) r i =
      .ok (ft, { originalAfter first i fa with isRc := some false, mts := (originalAfter first i fa).mts ++ fms },
           matchedEvents side fms false) :=
  (revcomp_keeps_forward names side c sfx first r i ft rt fa ra fms rms hf hr (by omega)).2

/-- no match on the reverse complement: forward kept whatever the scores (a negative forward total cannot lose to nothing) -/
theorem revcomp_no_reverse_match_keeps_forward (names : Names) (side : Nat) (c : Cutter) (sfx first : Bool) (r : Read)
    (i : Info) (ft rt fa ra : Read) (fms : List AnyMatch)
    (hf : matchAndTrim c r = .ok (ft, fms, fa)) (hr : matchAndTrim c r.revcomp = .ok (rt, [], ra)) :
    applyS names side (.revcomp c sfx first) r i =
      .ok (ft, { originalAfter first i fa with isRc := some false, mts := (originalAfter first i fa).mts ++ fms },
           matchedEvents side fms false) :=
  (revcomp_keeps_forward names side c sfx first r i ft rt fa ra fms [] hf hr (by simp)).2

/-! ## Reverse complement chosen -/

/-- **A strictly higher total score on the reverse complement selects it**: the result is the trimmed reverse
    complement (name + `" rc"` iff `suffix`), `info.is_rc = True`, its matches are appended, and the events are
    `reverse_complemented += 1`, `with_adapters += 1`, and one `add_match` per match booked as reverse-complemented -/
theorem revcomp_uses_reverse (names : Names) (side : Nat) (c : Cutter) (sfx first : Bool) (r : Read) (i : Info)
    (ft rt fa ra : Read) (fms rms : List AnyMatch)
    (hf : matchAndTrim c r = .ok (ft, fms, fa)) (hr : matchAndTrim c r.revcomp = .ok (rt, rms, ra))
    (hyes : rms ≠ [] ∧ scoreSum rms > scoreSum fms) :
    applyS names side (.revcomp c sfx first) r i =
      .ok (if sfx then { rt with name := rt.name ++ bytesOfStr " rc" } else rt,
           { originalAfter first i fa with isRc := some true, mts := (originalAfter first i fa).mts ++ rms },
           Event.revComp :: Event.withAdapter side :: rms.map (fun m => Event.matched side m true)) := by
  have hu : useReverse fms rms = true := (useReverse_iff fms rms).mpr hyes
  rw [applyS_revcomp, hf, hr]; simp only [hu]; rfl

/-- …and that read is what plain adapter trimming returns on the reverse complement (sequence complemented and reversed,
    qualities reversed, name kept) -/
theorem reverse_result_is_adapters_on_revcomp (names : Names) (side : Nat) (c : Cutter) (first : Bool) (r : Read)
    (j : Info) (rt ra : Read) (rms : List AnyMatch) (hr : matchAndTrim c r.revcomp = .ok (rt, rms, ra)) :
    applyS names side (.adapters c first) r.revcomp j =
      .ok (rt, { originalAfter first j ra with mts := (originalAfter first j ra).mts ++ rms }, matchedEvents side rms false) ∧
    r.revcomp.seq = (r.seq.map Read.complement).reverse ∧ r.revcomp.qual = r.qual.map List.reverse ∧
    r.revcomp.name = r.name := by
  refine ⟨by rw [applyS_adapters, hr], rfl, rfl, rfl⟩

theorem rc_suffix_bytes : bytesOfStr " rc" = [32, 114, 99] := by decide +kernel

/-- the decision is a function of the two match lists only: the flag is set iff strictly better -/
theorem revcomp_flag_iff (names : Names) (side : Nat) (c : Cutter) (sfx first : Bool) (r r' : Read) (i i' : Info)
    (evs : List Event) (ft rt fa ra : Read) (fms rms : List AnyMatch)
    (hf : matchAndTrim c r = .ok (ft, fms, fa)) (hr : matchAndTrim c r.revcomp = .ok (rt, rms, ra))
    (h : applyS names side (.revcomp c sfx first) r i = .ok (r', i', evs)) :
    (i'.isRc = some true ↔ (rms ≠ [] ∧ scoreSum rms > scoreSum fms)) ∧
    (i'.isRc = some false ↔ ¬ (rms ≠ [] ∧ scoreSum rms > scoreSum fms)) := by
  by_cases hyes : rms ≠ [] ∧ scoreSum rms > scoreSum fms
  · rw [revcomp_uses_reverse names side c sfx first r i ft rt fa ra fms rms hf hr hyes] at h
    simp only [Except.ok.injEq, Prod.mk.injEq] at h
    obtain ⟨_, rfl, _⟩ := h
    simp [hyes]
  · rw [(revcomp_keeps_forward names side c sfx first r i ft rt fa ra fms rms hf hr hyes).2] at h
    simp only [Except.ok.injEq, Prod.mk.injEq] at h
    obtain ⟨_, rfl, _⟩ := h
    simp [hyes]

/-- **The read is counted as reverse-complemented** exactly in that case: folding the statistics over the emitted
    events raises `reverse_complemented` by one (and by nothing when the forward orientation is kept) -/
theorem counted_as_reverse_complemented (side : Nat) (rms : List AnyMatch) (k : Summary) :
    ((Event.revComp :: Event.withAdapter side :: rms.map (fun m => Event.matched side m true)).foldl Summary.add k).reverseComplemented
      = k.reverseComplemented + 1 := by
  have gen : ∀ (evs : List Event) (k : Summary),
      (∀ ev ∈ evs, ∀ k, (Summary.add k ev).reverseComplemented = k.reverseComplemented) →
      (evs.foldl Summary.add k).reverseComplemented = k.reverseComplemented := by
    intro evs
    induction evs with
    | nil => intro k _; rfl
    | cons ev evs ih =>
      intro k h
      rw [List.foldl_cons, ih _ (fun e he => h e (List.mem_cons_of_mem _ he)), h ev List.mem_cons_self]
  rw [List.foldl_cons]
  rw [gen]
  · rfl
  · intro ev hev k'
    rcases List.mem_cons.mp hev with e | e
    · subst e; cases side <;> rfl
    · obtain ⟨m, _, rfl⟩ := List.mem_map.mp e; rfl

theorem forward_not_counted (side : Nat) (fms : List AnyMatch) (k : Summary) :
    ((matchedEvents side fms false).foldl Summary.add k).reverseComplemented = k.reverseComplemented := by
  have h := no_revComp_in_matchedEvents side fms false
  generalize matchedEvents side fms false = evs at h
  induction evs generalizing k with
  | nil => rfl
  | cons ev evs ih =>
    rw [List.foldl_cons, ih _ (fun e he => h e (List.mem_cons_of_mem _ he)), h ev List.mem_cons_self]

/-! ## `{rc}` and the later stages -/

/-- **`{rc}` under `--rename`** renders as `rc` iff the read was reverse-complemented, and as nothing otherwise -/
theorem rc_placeholder (names : Names) (read : Read) (info : Info) :
    renderTok names read info (.var "rc") = .ok (if info.isRc = some true then bytesOfStr "rc" else []) ∧
    (renderTok names read info (.var "rc") = .ok (bytesOfStr "rc") ↔ info.isRc = some true) := by
  have h1 : renderTok names read info (.var "rc") = .ok (if info.isRc = some true then bytesOfStr "rc" else []) := by
    have : renderTok names read info (.var "rc") = .ok (if info.isRc == some true then bytesOfStr "rc" else []) := rfl
    rw [this]
    cases hi : info.isRc with
    | none => rfl
    | some b => cases b <;> rfl
  refine ⟨h1, ?_⟩
  rw [h1]
  have hne : bytesOfStr "rc" ≠ [] := by decide +kernel
  by_cases h : info.isRc = some true
  · simp [h]
  · simp only [h, if_false, Except.ok.injEq, iff_false]
    exact fun e => hne e.symm

/-- no modifier other than the reverse-complementing stage touches the flag -/
theorem later_modifiers_keep_flag (names : Names) (side : Nat) (m : SMod) (hm : m.isRevcomp = false) (r r' : Read)
    (i i' : Info) (evs : List Event) (h : applyS names side m r i = .ok (r', i', evs)) : i'.isRc = i.isRc := by
  cases m with
  | revcomp _ _ _ => simp [SMod.isRevcomp] at hm
  | adapters c first =>
    rw [applyS_adapters] at h
    split at h
    · simp at h
    · simp only [Except.ok.injEq, Prod.mk.injEq] at h
      obtain ⟨_, rfl, _⟩ := h
      exact originalAfter_isRc _ _ _
  | cut n =>
    simp only [applyS] at h
    split at h
    · simp only [Except.ok.injEq, Prod.mk.injEq] at h; obtain ⟨_, rfl, _⟩ := h; rfl
    · split at h
      · simp only [Except.ok.injEq, Prod.mk.injEq] at h; obtain ⟨_, rfl, _⟩ := h; rfl
      · simp at h
  | nextseq _ _ =>
    simp only [applyS] at h
    split at h
    · simp at h
    · simp only [Except.ok.injEq, Prod.mk.injEq] at h; obtain ⟨_, rfl, _⟩ := h; rfl
  | qtrim _ _ _ =>
    simp only [applyS] at h
    split at h
    · simp at h
    · simp only [Except.ok.injEq, Prod.mk.injEq] at h; obtain ⟨_, rfl, _⟩ := h; rfl
  | polyA _ =>
    simp only [applyS] at h
    split at h <;> (simp only [Except.ok.injEq, Prod.mk.injEq] at h; obtain ⟨_, rfl, _⟩ := h; rfl)
  | shorten _ =>
    simp only [applyS] at h
    split at h <;> (simp only [Except.ok.injEq, Prod.mk.injEq] at h; obtain ⟨_, rfl, _⟩ := h; rfl)
  | trimN =>
    simp only [applyS, Except.ok.injEq, Prod.mk.injEq] at h; obtain ⟨_, rfl, _⟩ := h; rfl
  | zeroCap _ =>
    simp only [applyS, Except.ok.injEq, Prod.mk.injEq] at h; obtain ⟨_, rfl, _⟩ := h; rfl
  | lengthTag _ | stripSuffix _ | prefixSuffix _ _ | rename _ =>
    exact (applyS_nameMod names side _ rfl r r' i i' evs h).2.2.1 ▸ rfl

/-- **All later stages use the chosen orientation**: the modifier list is a fold — the read and info a modifier returns
    are what the remaining modifiers receive -/
theorem later_stages_use_chosen_orientation (names : Names) (m : SMod) (ms : List SMod) (r : Read) (i : Info)
    (evs : List Event) :
    runModsS names (m :: ms) r i evs =
      match applyS names 0 m r i with
      | .error e => .error e
      | .ok (r', i', e') => runModsS names ms r' i' (evs ++ e') := rfl

/-- …and so do the steps (info file, filters, writers): they receive the read and info the modifiers returned -/
theorem steps_use_chosen_orientation (p : SinglePipeline) (read : Read) :
    processReadS p read =
      match runModsS (namesOf p.ads) p.mods read { original := read } [Event.input read.len none] with
      | .error e => .error e
      | .ok (r, i, evs) => runStepsS p.ads p.steps 0 r i evs := rfl

/-- once chosen, the flag stays: behind the stage, modifiers without a second reverse-complementer keep `is_rc` -/
theorem flag_survives_later_modifiers (names : Names) (ms : List SMod) (hms : ∀ m ∈ ms, m.isRevcomp = false)
    (r r' : Read) (i i' : Info) (evs evs' : List Event) (h : runModsS names ms r i evs = .ok (r', i', evs')) :
    i'.isRc = i.isRc := by
  induction ms generalizing r i evs with
  | nil => simp only [runModsS, Except.ok.injEq, Prod.mk.injEq] at h; obtain ⟨_, rfl, _⟩ := h; rfl
  | cons m ms ih =>
    simp only [runModsS] at h
    split at h
    · simp at h
    · rename_i r1 i1 e1 h1
      rw [ih (fun x hx => hms x (List.mem_cons_of_mem _ hx)) r1 i1 _ h]
      exact later_modifiers_keep_flag names 0 m (hms m List.mem_cons_self) r r1 i i1 e1 h1

/-! ## Paired-end: the swapped pair -/

theorem pairUseRc_iff (m1 m2 m1s m2s : List AnyMatch) :
    pairUseRc m1 m2 m1s m2s = true ↔
      ((m1s ≠ [] ∨ m2s ≠ []) ∧ scoreSum m1s + scoreSum m2s > scoreSum m1 + scoreSum m2) := by
  cases m1s <;> cases m2s <;> simp [pairUseRc]

theorem pairLower_def (c1 c2 : Option Cutter) :
    pairLower c1 c2 = ((c1.map (·.action == .lowercase)).getD false || (c2.map (·.action == .lowercase)).getD false) := rfl
theorem upperIf_def (b : Bool) (r : Read) : upperIf b r = if b then { r with seq := upperBytes r.seq } else r := rfl
theorem cutterOpt_def (c : Option Cutter) (r : Read) :
    cutterOpt c r = match c with | some c => matchAndTrim c r | none => .ok (r, [], r) := by
  cases c <;> rfl

/-- `PairedReverseComplementer` raises nothing of its own either (the `AttributeError` of a missing cutter is dead code:
    a missing cutter reports no match) -/
theorem paired_revcomp_total (ads1 ads2 : List Matchable) (c1 c2 : Option Cutter) (sfx f1 f2 : Bool)
    (r1 r2 : Read) (i1 i2 : Info) (e : Err)
    (h : applyP ads1 ads2 (.pairedRevcomp c1 c2 sfx f1 f2) (r1, r2) (i1, i2) = .error e) :
    cutterOpt c1 (upperIf (pairLower c1 c2) r1) = .error e ∨ cutterOpt c2 (upperIf (pairLower c1 c2) r2) = .error e ∨
    cutterOpt c1 (upperIf (pairLower c1 c2) r2) = .error e ∨ cutterOpt c2 (upperIf (pairLower c1 c2) r1) = .error e := by
  rw [applyP_pairedRevcomp] at h
  exact pairedRevcompCore_error _ _ _ _ _ _ _ _ _ e h

/-- the adapter cutters wrapped as `PairedModifierWrapper`, as built without `--revcomp` -/
abbrev plainPair (c1 c2 : Option Cutter) (f1 f2 : Bool) : PMod :=
  .wrap (c1.map (fun c => SMod.adapters c f1)) (c2.map (fun c => SMod.adapters c f2))

theorem plainPair_result (ads1 ads2 : List Matchable) (c1 c2 : Option Cutter) (f1 f2 : Bool) (r1 r2 : Read)
    (i1 i2 : Info) (t1 t2 x1 x2 : Read) (m1 m2 : List AnyMatch)
    (h1 : cutterOpt c1 r1 = .ok (t1, m1, x1)) (h2 : cutterOpt c2 r2 = .ok (t2, m2, x2)) :
    ∃ j1 j2, applyP ads1 ads2 (plainPair c1 c2 f1 f2) (r1, r2) (i1, i2) =
        .ok ((t1, t2), (j1, j2), matchedEvents 0 m1 false ++ matchedEvents 1 m2 false) ∧
      j1.mts = i1.mts ++ m1 ∧ j2.mts = i2.mts ++ m2 ∧ j1.isRc = i1.isRc ∧ j2.isRc = i2.isRc := by
  have side : ∀ (names : Names) (sd : Nat) (c : Option Cutter) (f : Bool) (r : Read) (i : Info) (t x : Read)
      (m : List AnyMatch), cutterOpt c r = .ok (t, m, x) →
      ∃ j, applySOpt names sd (c.map (fun c => SMod.adapters c f)) r i = .ok (t, j, matchedEvents sd m false) ∧
        j.mts = i.mts ++ m ∧ j.isRc = i.isRc := by
    intro names sd c f r i t x m h
    cases c with
    | none =>
      obtain ⟨rfl, rfl, _⟩ := cutterOpt_none_matches r t x m h
      exact ⟨i, rfl, by simp, rfl⟩
    | some c =>
      have h' : matchAndTrim c r = .ok (t, m, x) := h
      refine ⟨{ originalAfter f i x with mts := (originalAfter f i x).mts ++ m }, ?_, ?_, ?_⟩
      · simp only [applySOpt, Option.map_some]; rw [applyS_adapters, h']
      · simp [originalAfter_mts]
      · simp [originalAfter_isRc]
  obtain ⟨j1, a1, a2, a3⟩ := side (namesOf ads1) 0 c1 f1 r1 i1 t1 x1 m1 h1
  obtain ⟨j2, b1, b2, b3⟩ := side (namesOf ads2) 1 c2 f2 r2 i2 t2 x2 m2 h2
  refine ⟨j1, j2, ?_, a2, b2, a3, b3⟩
  unfold plainPair
  rw [applyP_wrap, a1, b1]

/-- **Paired: unless the swapped pair matches strictly better, the pair is returned as without `--revcomp`** (R1's
    cutter on R1, R2's on R2): same reads, same appended matches, same events, `is_rc = False` on both infos -/
theorem paired_revcomp_keeps_unswapped (ads1 ads2 : List Matchable) (c1 c2 : Option Cutter) (sfx f1 f2 : Bool)
    (r1 r2 : Read) (i1 i2 : Info) (t1 t2 t1s t2s x1 x2 x3 x4 : Read) (m1 m2 m1s m2s : List AnyMatch)
    (h1 : cutterOpt c1 (upperIf (pairLower c1 c2) r1) = .ok (t1, m1, x1))
    (h2 : cutterOpt c2 (upperIf (pairLower c1 c2) r2) = .ok (t2, m2, x2))
    (h3 : cutterOpt c1 (upperIf (pairLower c1 c2) r2) = .ok (t1s, m1s, x3))
    (h4 : cutterOpt c2 (upperIf (pairLower c1 c2) r1) = .ok (t2s, m2s, x4))
    (hno : ¬ ((m1s ≠ [] ∨ m2s ≠ []) ∧ scoreSum m1s + scoreSum m2s > scoreSum m1 + scoreSum m2)) :
    (∃ j1 j2, applyP ads1 ads2 (.pairedRevcomp c1 c2 sfx f1 f2) (r1, r2) (i1, i2) =
        .ok ((t1, t2), (j1, j2), matchedEvents 0 m1 false ++ matchedEvents 1 m2 false) ∧
      j1.mts = i1.mts ++ m1 ∧ j2.mts = i2.mts ++ m2 ∧ j1.isRc = some false ∧ j2.isRc = some false) ∧
    (∃ j1 j2, applyP ads1 ads2 (plainPair c1 c2 f1 f2) (upperIf (pairLower c1 c2) r1, upperIf (pairLower c1 c2) r2) (i1, i2) =
        .ok ((t1, t2), (j1, j2), matchedEvents 0 m1 false ++ matchedEvents 1 m2 false) ∧
      j1.mts = i1.mts ++ m1 ∧ j2.mts = i2.mts ++ m2 ∧ j1.isRc = i1.isRc ∧ j2.isRc = i2.isRc) := by
  have hu : pairUseRc m1 m2 m1s m2s = false := by
    cases hb : pairUseRc m1 m2 m1s m2s with
    | false => rfl
    | true => exact absurd ((pairUseRc_iff m1 m2 m1s m2s).mp hb) hno
  constructor
  · rw [applyP_pairedRevcomp, pairedRevcompCore_ok c1 c2 sfx f1 f2 _ _ i1 i2 _ _ _ _ _ _ _ _ _ _ _ _ h1 h2 h3 h4, hu]
    exact ⟨_, _, rfl, by simp [originalAfter_mts], by simp [originalAfter_mts], rfl, rfl⟩
  · exact plainPair_result ads1 ads2 c1 c2 f1 f2 _ _ i1 i2 t1 t2 x1 x2 m1 m2 h1 h2

/-- **Paired: a strictly higher total on the swapped pair selects it**: R1's cutter applied to R2 gives the new first
    mate, R2's cutter applied to R1 the new second mate; both names get `" rc"` (iff `suffix`), both infos get
    `is_rc = True` and the swapped matches; one `reverse_complemented` event, then the matches booked as reverse-complemented -/
theorem paired_revcomp_uses_swapped (ads1 ads2 : List Matchable) (c1 c2 : Option Cutter) (sfx f1 f2 : Bool)
    (r1 r2 : Read) (i1 i2 : Info) (t1 t2 t1s t2s x1 x2 x3 x4 : Read) (m1 m2 m1s m2s : List AnyMatch)
    (h1 : cutterOpt c1 (upperIf (pairLower c1 c2) r1) = .ok (t1, m1, x1))
    (h2 : cutterOpt c2 (upperIf (pairLower c1 c2) r2) = .ok (t2, m2, x2))
    (h3 : cutterOpt c1 (upperIf (pairLower c1 c2) r2) = .ok (t1s, m1s, x3))
    (h4 : cutterOpt c2 (upperIf (pairLower c1 c2) r1) = .ok (t2s, m2s, x4))
    (hyes : (m1s ≠ [] ∨ m2s ≠ []) ∧ scoreSum m1s + scoreSum m2s > scoreSum m1 + scoreSum m2) :
    ∃ j1 j2, applyP ads1 ads2 (.pairedRevcomp c1 c2 sfx f1 f2) (r1, r2) (i1, i2) =
        .ok ((if sfx then { t1s with name := t1s.name ++ bytesOfStr " rc" } else t1s,
              if sfx then { t2s with name := t2s.name ++ bytesOfStr " rc" } else t2s), (j1, j2),
             Event.revComp :: (matchedEvents 0 m1s true ++ matchedEvents 1 m2s true)) ∧
      j1.mts = i1.mts ++ m1s ∧ j2.mts = i2.mts ++ m2s ∧ j1.isRc = some true ∧ j2.isRc = some true := by
  have hu : pairUseRc m1 m2 m1s m2s = true := (pairUseRc_iff m1 m2 m1s m2s).mpr hyes
  rw [applyP_pairedRevcomp, pairedRevcompCore_ok c1 c2 sfx f1 f2 _ _ i1 i2 _ _ _ _ _ _ _ _ _ _ _ _ h1 h2 h3 h4, hu]
  exact ⟨_, _, rfl, by simp [originalAfter_mts], by simp [originalAfter_mts], rfl, rfl⟩

/-! ## Concrete runs (non-vacuity) -/

/-- `-a GATTACAG` -/
def exAdapter : Adapter :=
  { ty := .back, seq := [71,65,84,84,65,67,65,71], thr := fun L => L / 10, minOverlap := 3,
    readWildcards := false, adapterWildcards := false, indels := true, name := "g" }
/-- `-a ACGTACGT`, its own reverse complement -/
def exPalindrome : Adapter :=
  { ty := .back, seq := [65,67,71,84,65,67,71,84], thr := fun L => L / 10, minOverlap := 3,
    readWildcards := false, adapterWildcards := false, indels := true, name := "p" }
/-- `TTTTCCCCGATTACAGGG` with qualities 40, 41, … -/
def exForward : Read :=
  ⟨[114], [84,84,84,84,67,67,67,67, 71,65,84,84,65,67,65,71, 71,71], some ((List.range 18).map (fun i => (40 + i).toUInt8))⟩

/-- the adapter only occurs on the reverse complement of the read given: that orientation is returned, trimmed, with
    reversed qualities, `" rc"` appended, the flag set, and three events (`revComp`, `withAdapter`, one match) -/
example : (match applyS ["g"] 0 (.revcomp ⟨[.single exAdapter], 1, .trim⟩ true true) exForward.revcomp
      { original := exForward.revcomp } with
    | .ok (r, i, evs) => (r.name, r.seq, r.qual, i.isRc, i.mts.length, evs.length) ==
        ([114, 32, 114, 99], [84,84,84,84,67,67,67,67], some [40,41,42,43,44,45,46,47], some true, 1, 3)
    | .error _ => false) = true := by decide +kernel

/-- the adapter occurs in the read as given: forward kept, no suffix, flag `False`, two events -/
example : (match applyS ["g"] 0 (.revcomp ⟨[.single exAdapter], 1, .trim⟩ true true) exForward { original := exForward } with
    | .ok (r, i, evs) => (r.name, r.seq, i.isRc, evs.length) == ([114], [84,84,84,84,67,67,67,67], some false, 2)
    | .error _ => false) = true := by decide +kernel

/-- a tie (the palindromic adapter matches both orientations of `CCACGTACGTGGGGAAAA` with score 8): forward kept -/
example : (match applyS ["p"] 0 (.revcomp ⟨[.single exPalindrome], 1, .trim⟩ true true)
      ⟨[114], [67,67, 65,67,71,84,65,67,71,84, 71,71,71,71,65,65,65,65], none⟩
      { original := ⟨[114], [67,67, 65,67,71,84,65,67,71,84, 71,71,71,71,65,65,65,65], none⟩ } with
    | .ok (r, i, _) => (r.name, r.seq, i.isRc, i.mts.map AnyMatch.score) == ([114], [67,67], some false, [8])
    | .error _ => false) = true := by decide +kernel

/-- paired: R1's adapter is found on R2 only — the swapped pair is chosen, R2 (trimmed by R1's cutter) becomes the first mate -/
example : (match applyP [.single exAdapter] [] (.pairedRevcomp (some ⟨[.single exAdapter], 1, .trim⟩) none true true true)
      (⟨[97], [65,65,65,65,67,67,67,67], none⟩, exForward)
      ({ original := ⟨[97], [65,65,65,65,67,67,67,67], none⟩ }, { original := exForward }) with
    | .ok ((o1, o2), (j1, j2), evs) => (o1.name, o1.seq, o2.name, o2.seq, j1.isRc, j2.isRc, evs.length) ==
        ([114, 32, 114, 99], [84,84,84,84,67,67,67,67], [97, 32, 114, 99], [65,65,65,65,67,67,67,67], some true, some true, 3)
    | .error _ => false) = true := by decide +kernel

end Cutadapt.C16
