import Cutadapt.Files
import Cutadapt.Generated.OutFormat
/-! # C19 — the output format is determined by the file name; interleaving is pairing of consecutive records

Model: `Cutadapt.Files`. Compression codecs, dnaio's readers/writers and multi-member gzip are libraries: "the container is
transparent" is validated by the command-line matrix of the check, not proved. -/
namespace Cutadapt.C19
open Cutadapt.Files

/-- the chosen format does not depend on the number of cores (proxied writers) -/
theorem format_independent_of_proxy (path : String) (ff q : Bool) :
    outputFormat path ff q true = outputFormat path ff q false := rfl

/-- the output format is determined by the file name when the name says so -/
theorem format_by_name (path : String) (ff q prox : Bool) (f : Fmt) (h : formatFromPath path = some f) (hp : path ≠ "-") :
    outputFormat path ff q prox = f := by
  unfold outputFormat
  have : (path == "-") = false := by simpa using hp
  simp [this, h]

/-- `--fasta` forces FASTA on standard output -/
theorem fasta_forced_on_stdout (q prox : Bool) : outputFormat "-" true q prox = .fasta := by
  simp [outputFormat]

/-- otherwise the input format decides -/
theorem format_fallback (path : String) (ff q prox : Bool) (h : formatFromPath path = none) (hs : path ≠ "-" ∨ ff = false) :
    outputFormat path ff q prox = (if q then .fastq else .fasta) := by
  unfold outputFormat
  rcases hs with hp | hf
  · have : (path == "-") = false := by simpa using hp
    simp [this, h]
  · simp [hf, h]

theorem isSuffixOf_append_self (e n : List Char) : e.isSuffixOf (n ++ e) = true := by
  simp [List.isSuffixOf]

/-- two compression suffixes: if one is a suffix of a name ending in the other, they are the same suffix -/
theorem suffix_clash (n e e' : List Char) (he : e ∈ compressionSuffixes) (he' : e' ∈ compressionSuffixes)
    (h : e'.isSuffixOf (n ++ e) = true) : e' = e := by
  have h1 : e' <:+ n ++ e := List.isSuffixOf_iff_suffix.mp h
  have h2 : e <:+ n ++ e := List.suffix_append n e
  have hc : e' <:+ e ∨ e <:+ e' := by
    by_cases hl : e'.length ≤ e.length
    · exact Or.inl (List.suffix_of_suffix_length_le h1 h2 hl)
    · exact Or.inr (List.suffix_of_suffix_length_le h2 h1 (by omega))
  simp only [compressionSuffixes, List.mem_cons, List.mem_nil_iff, or_false] at he he'
  rcases he with rfl | rfl | rfl | rfl <;> rcases he' with rfl | rfl | rfl | rfl <;>
    first
      | rfl
      | (exfalso; rcases hc with hc | hc <;> exact absurd (List.isSuffixOf_iff_suffix.mpr hc) (by decide))

theorem find_first {β : Type} (l : List β) (p : β → Bool) (x : β) (hx : x ∈ l) (hp : p x = true)
    (huniq : ∀ y ∈ l, p y = true → y = x) : l.find? p = some x := by
  induction l with
  | nil => simp at hx
  | cons a l ih =>
    by_cases ha : p a = true
    · have := huniq a (by simp) ha
      subst this
      simp [List.find?, hp]
    · have hne : a ≠ x := by intro h; rw [h] at ha; exact ha hp
      have hx' : x ∈ l := by
        rcases List.mem_cons.mp hx with h | h
        · exact absurd h.symm hne
        · exact h
      have ha' : p a = false := by simpa using ha
      simp only [List.find?, ha']
      exact ih hx' (fun y hy => huniq y (List.mem_cons_of_mem _ hy))

theorem strip_append (n e : List Char) (he : e ∈ compressionSuffixes) : stripCompression (n ++ e) = n := by
  unfold stripCompression
  have hfind : compressionSuffixes.find? (fun e' => e'.isSuffixOf (n ++ e)) = some e :=
    find_first compressionSuffixes _ e he (isSuffixOf_append_self e n) (fun e' h' h => suffix_clash n e e' he h' h)
  rw [hfind]
  simp

/-- the decision is the same for every compression suffix: `name.ext.gz`, `.xz`, `.bz2`, `.zst` are treated like
    `name.ext` (for a name that does not itself end in a compression suffix) -/
theorem format_independent_of_compression_suffix (n e : List Char) (he : e ∈ compressionSuffixes)
    (hn : ∀ e' ∈ compressionSuffixes, e'.isSuffixOf n = false) :
    formatFromChars (n ++ e) = formatFromChars n := by
  have h1 : stripCompression (n ++ e) = n := strip_append n e he
  have h2 : stripCompression n = n := by
    unfold stripCompression
    have : compressionSuffixes.find? (fun e' => e'.isSuffixOf n) = none := by
      rw [List.find?_eq_none]; intro x hx; rw [hn x hx]; simp
    rw [this]
  unfold formatFromChars
  rw [h1, h2]

/-- `.fasta` / `.fa` mean FASTA and `.fastq` / `.fq` mean FASTQ, before any compression suffix -/
theorem fasta_names (n : List Char) (hn : ∀ e' ∈ compressionSuffixes, e'.isSuffixOf (n ++ ".fasta".toList) = false) :
    formatFromChars (n ++ ".fasta".toList) = some .fasta := by
  have h2 : stripCompression (n ++ ".fasta".toList) = n ++ ".fasta".toList := by
    unfold stripCompression
    have : compressionSuffixes.find? (fun e' => e'.isSuffixOf (n ++ ".fasta".toList)) = none := by
      rw [List.find?_eq_none]; intro x hx; rw [hn x hx]; simp
    rw [this]
  unfold formatFromChars
  rw [h2]
  simp [isSuffixOf_append_self]

theorem fastq_names (n : List Char) (hn : ∀ e' ∈ compressionSuffixes, e'.isSuffixOf (n ++ ".fastq".toList) = false) :
    formatFromChars (n ++ ".fastq".toList) = some .fastq := by
  have h2 : stripCompression (n ++ ".fastq".toList) = n ++ ".fastq".toList := by
    unfold stripCompression
    have : compressionSuffixes.find? (fun e' => e'.isSuffixOf (n ++ ".fastq".toList)) = none := by
      rw [List.find?_eq_none]; intro x hx; rw [hn x hx]; simp
    rw [this]
  unfold formatFromChars
  rw [h2]
  have hq := isSuffixOf_append_self ".fastq".toList n
  have hnot : ∀ (e : List Char), e ∈ [".fasta".toList, ".fa".toList, ".fna".toList, ".csfasta".toList, ".csfa".toList] →
      e.isSuffixOf (n ++ ".fastq".toList) = false := by
    intro e hmem
    cases hh : e.isSuffixOf (n ++ ".fastq".toList) with
    | false => rfl
    | true =>
      exfalso
      have s1 : e <:+ n ++ ".fastq".toList := List.isSuffixOf_iff_suffix.mp hh
      have s2 : ".fastq".toList <:+ n ++ ".fastq".toList := List.suffix_append _ _
      have hc : e <:+ ".fastq".toList ∨ ".fastq".toList <:+ e := by
        by_cases hl : e.length ≤ ".fastq".toList.length
        · exact Or.inl (List.suffix_of_suffix_length_le s1 s2 hl)
        · exact Or.inr (List.suffix_of_suffix_length_le s2 s1 (by omega))
      simp only [List.mem_cons, List.mem_nil_iff, or_false] at hmem
      rcases hmem with rfl | rfl | rfl | rfl | rfl <;>
        (rcases hc with hc | hc <;> exact absurd (List.isSuffixOf_iff_suffix.mpr hc) (by decide))
  have n1 := hnot ".fasta".toList (by simp)
  have n2 := hnot ".fa".toList (by simp)
  have n3 := hnot ".fna".toList (by simp)
  have n4 := hnot ".csfasta".toList (by simp)
  have n5 := hnot ".csfa".toList (by simp)
  show (if (".fasta".toList.isSuffixOf (n ++ ".fastq".toList) || ".fa".toList.isSuffixOf (n ++ ".fastq".toList) ||
      ".fna".toList.isSuffixOf (n ++ ".fastq".toList) || ".csfasta".toList.isSuffixOf (n ++ ".fastq".toList) ||
      ".csfa".toList.isSuffixOf (n ++ ".fastq".toList)) = true then some Fmt.fasta
    else if (".fastq".toList.isSuffixOf (n ++ ".fastq".toList) || ".fq".toList.isSuffixOf (n ++ ".fastq".toList) ||
      "_sequence.txt".toList.isSuffixOf (n ++ ".fastq".toList)) = true
      then some Fmt.fastq else none) = some Fmt.fastq
  rw [n1, n2, n3, n4, n5, hq]
  rfl

/-! ## Interleaving -/

/-- an interleaved file gives the same pair stream as the two de-interleaved files, and writing interleaved is the
    interleaving of the two-file outputs -/
theorem deinterleave_interleave (ps : List (α × α)) : deinterleave (interleave ps) = some ps := by
  induction ps with
  | nil => rfl
  | cons p ps ih => obtain ⟨a, b⟩ := p; simp [interleave, deinterleave, ih]

theorem interleave_unzip (ps : List (α × α)) :
    deinterleave (interleave ps) = some ((ps.map Prod.fst).zip (ps.map Prod.snd)) := by
  rw [deinterleave_interleave]
  congr 1
  induction ps with
  | nil => rfl
  | cons p ps ih => simp [← ih]

theorem interleave_length (ps : List (α × α)) : (interleave ps).length = 2 * ps.length := by
  induction ps with
  | nil => rfl
  | cons p ps ih => obtain ⟨a, b⟩ := p; simp [interleave, ih]; omega

/-! Non-vacuity -/
example : formatFromChars "out.fasta.gz".toList = some .fasta := by decide
example : formatFromChars "reads.fq.zst".toList = some .fastq := by decide
example : formatFromChars "out.txt".toList = none := by decide
#guard outputFormat "out.fasta.gz" false true true == .fasta
#guard outputFormat "reads.FQ.zst" false false false == .fastq
#guard outputFormat "out.txt" false true false == .fastq
#guard outputFormat "-" true true false == .fasta
example : ∀ e' ∈ compressionSuffixes, e'.isSuffixOf "out.fasta".toList = false := by decide

/-! ## The formats the real program writes (regenerated from the working tree on every run) -/

/-- the documented rule on the characters of a file name: the format named by the last extension below the compression suffix (case
    ignored), otherwise the format of the input — `outputFormat` for a path other than `-` (`formatFromPath` is `formatFromChars` on the
    lower-cased characters) -/
def formatOfName (name : List Char) (inputHasQualities : Bool) : Fmt :=
  match formatFromChars (name.map Char.toLower) with
  | some f => f
  | none => if inputHasQualities then .fastq else .fasta

/-- `formatOfName` is `outputFormat` on the characters of the path (for a path other than `-`, or without `--fasta`) -/
theorem outputFormat_eq_formatOfName (path : String) (ff q prox : Bool) (hs : path ≠ "-" ∨ ff = false) :
    outputFormat path ff q prox = formatOfName path.toList q := by
  have hl : path.toLower.toList = path.toList.map Char.toLower := by simp [String.toLower]
  unfold outputFormat formatOfName formatFromPath
  rw [hl]
  rcases hs with hs | hs
  · have : (path == "-") = false := by simpa using hs
    rw [this]
    cases formatFromChars (List.map Char.toLower path.toList) <;> simp
  · subst hs
    cases formatFromChars (List.map Char.toLower path.toList) <;> simp

/-- **Every output file of the real program has the format its name asks for, with one core and with several, for every compression suffix**
    (`Generated.outputFormats`: names with every format extension, further dots in the base name, upper case, compression suffixes, names
    without a known extension; FASTQ and FASTA input) — the observed table is the model's rule. -/
theorem generated_output_formats :
    ∀ row ∈ Generated.outputFormats, row.2.2.2 = (match formatOfName row.1 row.2.2.1 with | .fasta => 1 | .fastq => 0) := by
  decide

end Cutadapt.C19
