import Cutadapt.Files
namespace Cutadapt.C19
end Cutadapt.C19
