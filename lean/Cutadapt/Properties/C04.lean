import Cutadapt.Stats
namespace Cutadapt.C04
end Cutadapt.C04
