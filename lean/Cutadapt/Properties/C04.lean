import Cutadapt.Proofs.StepsReport
import Cutadapt.Proofs.StepsShape
import Cutadapt.Generated.Filters
/-! # C04 — each read is written once or counted as filtered once; totals add up

Model: `Cutadapt.Pipeline` (`stepS`, `stepP`, `runStepsS/P`, `processReadS/P`, `runSingle/runPaired`),
`Cutadapt.Stats` (`summarize`, `collectFiltered`). A run produces an event log; statistics are folds over it.
All theorems hold for every step list of the shape `make_pipeline_from_args` builds (`Terminal`), every modifier list,
every read. Helper lemmas: `Cutadapt/Proofs/StepsCore.lean`, `StepsFate.lean`. -/
namespace Cutadapt.C04
open Cutadapt Cutadapt.Steps

/-- The shape of the step list of every pipeline: rest/info/wildcard writers and filters, closed by exactly one
    sink, demultiplexer or combinatorial demultiplexer. -/
def Terminal (steps : List Step) : Prop :=
  ∃ pre last, steps = pre ++ [last] ∧ (∀ s ∈ pre, s.isPass = true) ∧ last.isFinal = true

/-! ## One fate per read -/

/-- Single-end. The events a terminal step list appends for one read contain exactly one fate event (`sinkStat` = counted as
    written, `filtered k` = counted in the category of step `k`) and at most one `write`; a `sinkStat` belongs to the last
    step, carries the length of the read and comes with exactly one `write` of this read to a writer of the last step;
    a `filtered k` belongs to a step `k` that has a filter category, and any `write` next to it is the redirect file of
    exactly that filter, receiving this read. -/
theorem each_read_one_fate {ads : List Matchable} {steps : List Step} {idx : Nat} {r : Read} {i : Info}
    {evs0 evs : List Event} (ht : Terminal steps) (h : runStepsS ads steps idx r i evs0 = .ok evs) :
    ∃ app, evs = evs0 ++ app ∧
      app.countP isFate = 1 ∧ app.countP isWrite ≤ 1 ∧ app.countP isInput = 0 ∧
      (∀ k l1 l2, Event.sinkStat k l1 l2 ∈ app →
          k + 1 = idx + steps.length ∧ l1 = r.len ∧ l2 = none ∧
          ∃ w, w ∈ lastWriters steps ∧ app.filter isWrite = [.write w r none]) ∧
      (∀ k, Event.filtered k ∈ app → idx ≤ k ∧
          ∃ s, steps[k - idx]? = some s ∧ s.filterIdent.isSome = true ∧
            ∀ w a b, Event.write w a b ∈ app → a = r ∧ b = none ∧ ∃ p1 p2 mode, s = .filter p1 p2 mode (some w)) := by
  obtain ⟨pre, last, rfl, hp, hl⟩ := ht
  obtain ⟨texts, tail, rfl, htx, htl⟩ := runStepsS_terminal hp hl h
  exact ⟨texts ++ tail, by simp, fate_of_tail htx htl⟩

/-- Paired-end: the same for a pair; the `write` carries both mates. -/
theorem each_pair_one_fate {a1 a2 : List Matchable} {steps : List Step} {idx : Nat} {r1 r2 : Read} {i : Info × Info}
    {evs0 evs : List Event} (ht : Terminal steps) (h : runStepsP a1 a2 steps idx (r1, r2) i evs0 = .ok evs) :
    ∃ app, evs = evs0 ++ app ∧
      app.countP isFate = 1 ∧ app.countP isWrite ≤ 1 ∧ app.countP isInput = 0 ∧
      (∀ k l1 l2, Event.sinkStat k l1 l2 ∈ app →
          k + 1 = idx + steps.length ∧ l1 = r1.len ∧ l2 = some r2.len ∧
          ∃ w, w ∈ lastWriters steps ∧ app.filter isWrite = [.write w r1 (some r2)]) ∧
      (∀ k, Event.filtered k ∈ app → idx ≤ k ∧
          ∃ s, steps[k - idx]? = some s ∧ s.filterIdent.isSome = true ∧
            ∀ w a b, Event.write w a b ∈ app → a = r1 ∧ b = some r2 ∧ ∃ p1 p2 mode, s = .filter p1 p2 mode (some w)) := by
  obtain ⟨pre, last, rfl, hp, hl⟩ := ht
  obtain ⟨texts, tail, rfl, htx, htl⟩ := runStepsP_terminal hp hl h
  exact ⟨texts ++ tail, by simp, fate_of_tail htx htl⟩

/-! ## `make_pipeline_from_args` builds terminal step lists -/

/-- every successfully assembled step list is terminal … -/
theorem makeSteps_terminal {o : Opts} {n1 n2 : List String} {steps : List Step} {f : Files}
    (h : makeSteps o n1 n2 = .ok (steps, f)) : Terminal steps :=
  makeSteps_terminal' h

/-- … its filter identifiers are pairwise distinct (so `Statistics.collect` overwrites nothing) … -/
theorem filterIdents_nodup {o : Opts} {n1 n2 : List String} {steps : List Step} {f : Files}
    (h : makeSteps o n1 n2 = .ok (steps, f)) : (steps.filterMap Step.filterIdent).Nodup :=
  makeSteps_idents_nodup h

/-- … and the redirect files of its filters are writers of their own, opened before those of the last step. -/
theorem redirects_apart {o : Opts} {n1 n2 : List String} {steps : List Step} {f : Files}
    (h : makeSteps o n1 n2 = .ok (steps, f)) : RedirectsApart steps :=
  makeSteps_redirects_apart h

/-- a concrete pipeline tail: `-m 3 --too-short-output`, `--max-n 0`, then the sink -/
def exSteps : List Step :=
  [.restWriter 0, .filter (some (.tooShort 3)) none .any (some 0), .filter (some (.tooManyN 0)) none .any none, .sink 1]
def exRead (s : Bytes) : Read := ⟨[114], s, none⟩

theorem exSteps_terminal : Terminal exSteps :=
  ⟨[.restWriter 0, .filter (some (.tooShort 3)) none .any (some 0), .filter (some (.tooManyN 0)) none .any none], .sink 1,
   rfl, by simp [Step.isPass], rfl⟩

example : runStepsS [] exSteps 0 (exRead [65, 67]) { original := exRead [65, 67] } [] =
    .ok [.filtered 1, .write 0 (exRead [65, 67]) none] := by rfl
example : runStepsS [] exSteps 0 (exRead [65, 67, 71, 84]) { original := exRead [65, 67, 71, 84] } [] =
    .ok [.write 1 (exRead [65, 67, 71, 84]) none, .sinkStat 3 4 none] := by rfl

/-! ## The statistics are sums over the log -/

/-- `summarize` is a monoid homomorphism from event logs (with `++`) to summaries with componentwise addition
    (`IsSum`; the per-step and per-length tables are compared entry by entry through `getCount`). -/
theorem summarize_append (a b : List Event) : IsSum (summarize (a ++ b)) [summarize a, summarize b] := by
  simpa using summarize_flatten [a, b]

/-- every reported figure of an error-free run is the sum of the figures of the individual reads -/
theorem figures_are_sums_over_reads_single {p : SinglePipeline} {reads : List Read} {evs : List Event}
    (h : runSingle p reads = (evs, none)) :
    evs = (reads.map (evsOf (processReadS p))).flatten ∧
    IsSum (summarize evs) (reads.map (fun r => summarize (evsOf (processReadS p) r))) :=
  ⟨(run_is_concat h).1, summarize_run h⟩

theorem figures_are_sums_over_reads_paired {p : PairedPipeline} {reads : List (Read × Read)} {evs : List Event}
    (h : runPaired p reads = (evs, none)) :
    evs = (reads.map (evsOf (processReadP p))).flatten ∧
    IsSum (summarize evs) (reads.map (fun r => summarize (evsOf (processReadP p) r))) :=
  ⟨(run_is_concat h).1, summarize_run h⟩

/-- Single-end totals of an error-free run: the input count is the number of reads; input = written + Σ filter counters;
    the written count is the number of `sinkStat` events; input bases are the bases of the reads; and, when no redirect
    file shares a writer with the last step, written reads / bases are exactly the records that the writers of the last
    step received. -/
theorem counts_add_up_single {p : SinglePipeline} {reads : List Read} {evs : List Event}
    (ht : Terminal p.steps) (h : runSingle p reads = (evs, none)) :
    (summarize evs).n = reads.length ∧
    (summarize evs).n = (summarize evs).written + ((summarize evs).filteredByStep.map (·.2)).sum ∧
    (summarize evs).written = evs.countP isSinkStat ∧
    (summarize evs).bp1 = (reads.map Read.len).sum ∧
    (summarize evs).bp2 = 0 ∧
    (RedirectsApart p.steps →
      (summarize evs).written = (recordsTo (lastWriters p.steps) evs).length ∧
      (summarize evs).writtenBp1 = ((recordsTo (lastWriters p.steps) evs).map (·.1.len)).sum ∧
      (summarize evs).writtenBp2 = 0 ∧
      ∀ x ∈ recordsTo (lastWriters p.steps) evs, x.2 = none) := by
  have hlog : ∀ r e, processReadS p r = .ok e → ∃ r1 r2, ReadLog p.steps (Read.len r) ((fun _ => none) r) r1 r2 e :=
    fun r e he => by obtain ⟨r', _, _, _, _, hl⟩ := processReadS_log ht he; exact ⟨r', none, hl⟩
  obtain ⟨h1, h2, h3, h4, h5, h6⟩ := counts_of_logs hlog h
  refine ⟨h1, h2, h3, h4, by rw [h5]; exact sum_map_zero _, fun hd => ?_⟩
  obtain ⟨g1, g2, g3⟩ := h6 hd
  have hnone : ∀ x ∈ recordsTo (lastWriters p.steps) evs, x.2 = none := by
    intro x hx
    obtain ⟨w, -, hw⟩ := mem_recordsTo hx
    obtain ⟨r, -, hok, hmem⟩ := mem_run h hw
    obtain ⟨r1, r2, hl⟩ := hlog r _ hok
    obtain ⟨r', _, _, _, _, hl⟩ := processReadS_log ht hok
    exact (hl.writes hmem).2
  refine ⟨g1, g2, ?_, hnone⟩
  rw [g3]
  have : ∀ x ∈ recordsTo (lastWriters p.steps) evs, (x.2.map Read.len).getD 0 = 0 := fun x hx => by simp [hnone x hx]
  rw [List.map_congr_left this]
  exact sum_map_zero _

/-- Paired-end totals of an error-free run. -/
theorem counts_add_up_paired {p : PairedPipeline} {reads : List (Read × Read)} {evs : List Event}
    (ht : Terminal p.steps) (h : runPaired p reads = (evs, none)) :
    (summarize evs).n = reads.length ∧
    (summarize evs).n = (summarize evs).written + ((summarize evs).filteredByStep.map (·.2)).sum ∧
    (summarize evs).written = evs.countP isSinkStat ∧
    (summarize evs).bp1 = (reads.map (·.1.len)).sum ∧
    (summarize evs).bp2 = (reads.map (·.2.len)).sum ∧
    (RedirectsApart p.steps →
      (summarize evs).written = (recordsTo (lastWriters p.steps) evs).length ∧
      (summarize evs).writtenBp1 = ((recordsTo (lastWriters p.steps) evs).map (·.1.len)).sum ∧
      (summarize evs).writtenBp2 = ((recordsTo (lastWriters p.steps) evs).map (fun x => (x.2.map Read.len).getD 0)).sum) := by
  have hlog : ∀ r e, processReadP p r = .ok e →
      ∃ r1 r2, ReadLog p.steps ((fun r : Read × Read => r.1.len) r) ((fun r : Read × Read => some r.2.len) r) r1 r2 e :=
    fun r e he => by obtain ⟨r', _, _, _, _, hl⟩ := processReadP_log ht he; exact ⟨r'.1, some r'.2, hl⟩
  obtain ⟨h1, h2, h3, h4, h5, h6⟩ := counts_of_logs hlog h
  exact ⟨h1, h2, h3, h4, by simpa using h5, h6⟩

/-! ## The filter categories of the report -/

/-- the keys of `FILTERS` in report.py -/
def documentedKeys : List String :=
  ["too_short", "too_long", "too_many_n", "too_many_expected_errors", "too_high_average_error_rate", "casava_filtered",
   "discard_trimmed", "discard_untrimmed"]

/-- every identifier a step can report is a key of the report's `FILTERS` table (passed as `filtersKeys`) -/
theorem idents_are_documented (filtersKeys : List String) (hkeys : ∀ k ∈ documentedKeys, k ∈ filtersKeys)
    (st : Step) (k : String) (h : st.filterIdent = some k) : k ∈ filtersKeys := by
  apply hkeys
  have hp : ∀ p : Pred, p.ident ∈ documentedKeys := by
    intro p; cases p <;> simp [Pred.ident, documentedKeys]
  cases st with
  | filter p1 p2 mode w =>
    cases p1 with
    | some p => simp only [Step.filterIdent, Option.some.injEq] at h; exact h ▸ hp p
    | none =>
      cases p2 with
      | some p => simp only [Step.filterIdent, Option.some.injEq] at h; exact h ▸ hp p
      | none => simp [Step.filterIdent] at h
  | demux ws un => simp only [Step.filterIdent, Option.some.injEq] at h; subst h; simp [documentedKeys]
  | combDemux ws => simp only [Step.filterIdent, Option.some.injEq] at h; subst h; simp [documentedKeys]
  | _ => simp [Step.filterIdent] at h

/-- Every category of `Statistics.filtered` is the identifier of a step of the pipeline and a documented key. With
    distinct identifiers, and when every index in `filteredByStep` belongs to a step with an identifier, the categories
    add up to the total of the per-step filter counters — nothing is reported twice and nothing is left out. -/
theorem report_categories_complete (filtersKeys : List String) (hkeys : ∀ k ∈ documentedKeys, k ∈ filtersKeys)
    (steps : List Step) (evs : List Event) :
    (∀ s : Summary, ∀ k ∈ (collectFiltered steps s).map (·.1), (∃ st ∈ steps, st.filterIdent = some k) ∧ k ∈ filtersKeys) ∧
    ((steps.filterMap Step.filterIdent).Nodup →
      (∀ k ∈ (summarize evs).filteredByStep.map (·.1), ∃ st, steps[k]? = some st ∧ st.filterIdent.isSome = true) →
      ((collectFiltered steps (summarize evs)).map (·.2)).sum = ((summarize evs).filteredByStep.map (·.2)).sum) := by
  refine ⟨?_, ?_⟩
  · intro s k hk
    obtain ⟨st, hst, hid⟩ := collectFiltered_keys steps s k hk
    exact ⟨⟨st, hst, hid⟩, idents_are_documented filtersKeys hkeys st k hid⟩
  · intro hnd hidx
    exact collectFiltered_sum steps evs hnd (fun k hk => hidx k ((summarize_filtered_keys k evs).2 hk))

/-- For an error-free single-end run through a terminal step list with distinct identifiers the side condition holds:
    reported input = reported written + Σ of the reported filter categories. -/
theorem report_adds_up_single {p : SinglePipeline} {reads : List Read} {evs : List Event}
    (ht : Terminal p.steps) (hnd : (p.steps.filterMap Step.filterIdent).Nodup) (h : runSingle p reads = (evs, none)) :
    (summarize evs).n = (summarize evs).written + ((collectFiltered p.steps (summarize evs)).map (·.2)).sum := by
  have hlog : ∀ r e, processReadS p r = .ok e → ∃ r1 r2, ReadLog p.steps (Read.len r) ((fun _ => none) r) r1 r2 e :=
    fun r e he => by obtain ⟨r', _, _, _, _, hl⟩ := processReadS_log ht he; exact ⟨r', none, hl⟩
  rw [collectFiltered_sum p.steps evs hnd (fun k hk => run_filtered_idx hlog h hk)]
  exact (counts_of_logs hlog h).2.1

theorem report_adds_up_paired {p : PairedPipeline} {reads : List (Read × Read)} {evs : List Event}
    (ht : Terminal p.steps) (hnd : (p.steps.filterMap Step.filterIdent).Nodup) (h : runPaired p reads = (evs, none)) :
    (summarize evs).n = (summarize evs).written + ((collectFiltered p.steps (summarize evs)).map (·.2)).sum := by
  have hlog : ∀ r e, processReadP p r = .ok e →
      ∃ r1 r2, ReadLog p.steps ((fun r : Read × Read => r.1.len) r) ((fun r : Read × Read => some r.2.len) r) r1 r2 e :=
    fun r e he => by obtain ⟨r', _, _, _, _, hl⟩ := processReadP_log ht he; exact ⟨r'.1, some r'.2, hl⟩
  rw [collectFiltered_sum p.steps evs hnd (fun k hk => run_filtered_idx hlog h hk)]
  exact (counts_of_logs hlog h).2.1

/-- End to end, single-end: for the pipeline that `makeSingle` assembles from the options, an error-free run reports
    input = written + Σ categories, input = number of reads, and written = the records in the output files of the last step. -/
theorem cli_counts_single {o : Opts} {ads : List Matchable} {p : SinglePipeline} {f : Files} {reads : List Read}
    {evs : List Event} (hp : makeSingle o ads = .ok (p, f)) (h : runSingle p reads = (evs, none)) :
    (summarize evs).n = reads.length ∧
    (summarize evs).n = (summarize evs).written + ((collectFiltered p.steps (summarize evs)).map (·.2)).sum ∧
    (summarize evs).written = (recordsTo (lastWriters p.steps) evs).length ∧
    (summarize evs).writtenBp1 = ((recordsTo (lastWriters p.steps) evs).map (·.1.len)).sum := by
  have hs := (makeSingle_steps hp).1
  have hc := counts_add_up_single (makeSteps_terminal hs) h
  have hw := hc.2.2.2.2.2 (redirects_apart hs)
  exact ⟨hc.1, report_adds_up_single (makeSteps_terminal hs) (filterIdents_nodup hs) h, hw.1, hw.2.1⟩

/-- End to end, paired-end. -/
theorem cli_counts_paired {o : Opts} {ads1 ads2 : List Matchable} {p : PairedPipeline} {f : Files}
    {reads : List (Read × Read)} {evs : List Event} (hp : makePaired o ads1 ads2 = .ok (p, f))
    (h : runPaired p reads = (evs, none)) :
    (summarize evs).n = reads.length ∧
    (summarize evs).n = (summarize evs).written + ((collectFiltered p.steps (summarize evs)).map (·.2)).sum ∧
    (summarize evs).written = (recordsTo (lastWriters p.steps) evs).length ∧
    (summarize evs).writtenBp1 = ((recordsTo (lastWriters p.steps) evs).map (·.1.len)).sum ∧
    (summarize evs).writtenBp2 = ((recordsTo (lastWriters p.steps) evs).map (fun x => (x.2.map Read.len).getD 0)).sum := by
  have hs := (makePaired_steps hp).1
  have hc := counts_add_up_paired (makeSteps_terminal hs) h
  have hw := hc.2.2.2.2.2 (redirects_apart hs)
  exact ⟨hc.1, report_adds_up_paired (makeSteps_terminal hs) (filterIdents_nodup hs) h, hw.1, hw.2.1, hw.2.2⟩

/-- Without distinct identifiers the report loses reads: two steps named "discard_untrimmed" (the model's
    `collectFiltered` keeps the later one, as `Statistics.collect` does). -/
example : collectFiltered [.filter (some .isUntrimmed) none .any none, .demux [] none]
    { filteredByStep := [(0, 2), (1, 3)] } = [("discard_untrimmed", 3)] := by decide +kernel
/-! ## Tie to the regenerated `FILTERS` table of `report.py`

`Generated.filtersKeys` is re-extracted from the working tree on every run; these theorems are re-checked against it. -/

/-- every category a step can count under is printed by the reports: the hypothesis of `report_categories_complete` holds for the
    table the code has now -/
theorem generated_filters_cover_documented : ∀ k ∈ documentedKeys, k ∈ Generated.filtersKeys := by decide

/-- the identifiers the real predicate classes and demultiplexer steps report (regenerated) are keys of `FILTERS` -/
theorem generated_idents_are_keys :
    (Generated.predicateIdents ++ Generated.stepIdents).all (fun p => Generated.filtersKeys.contains p.2) = true := by decide

/-- the model's identifiers are exactly the identifiers of the real predicate classes -/
theorem model_idents_match_code :
    [Pred.ident (.tooShort 0), Pred.ident (.tooLong 0), Pred.ident (.tooManyN 0), Pred.ident (.maxEE 0), Pred.ident (.maxAER 0),
     Pred.ident .casava, Pred.ident .isUntrimmed, Pred.ident .isTrimmed] =
    ["TooShort", "TooLong", "TooManyN", "TooManyExpectedErrors", "TooHighAverageErrorRate", "CasavaFiltered", "IsUntrimmed", "IsTrimmed"].map
      (fun c => ((Generated.predicateIdents.find? (fun p => p.1 == c)).map (·.2)).getD "") := by decide

/-- with the regenerated table: every reported category of a run is printed by the reports -/
theorem report_categories_complete_generated (steps : List Step) :
    ∀ s : Summary, ∀ k ∈ (collectFiltered steps s).map (·.1), k ∈ Generated.filtersKeys := by
  intro s k hk
  exact ((report_categories_complete Generated.filtersKeys generated_filters_cover_documented steps []).1 s k hk).2

end Cutadapt.C04
