import Cutadapt.Generated.Tolerance
import Cutadapt.Proofs.MatchSoundMin
/-! # C01 — every reported adapter match is a genuine, in-tolerance occurrence

Statements are in the documented vocabulary of `Spec/Occurrence.lean` and `Spec/Edit.lean`; the model is
`Adapters.matchTo` (the eight `match_to` methods without the k-mer prefilter). What is proved here is the
soundness half: bounds, placement, overlap, an alignment of cost ≤ `errors` under the documented wildcard rules,
tolerance on the non-N aligned adapter bases, Hamming distance when indels are off. Minimality of `errors` (`errors_minimal`,
`matchTo_errors_is_distance`) rests on exactness of the banded DP (`Proofs/DpExact*.lean`). -/
namespace Cutadapt.C01
open Cutadapt Cutadapt.Align Cutadapt.Spec Cutadapt.Generated Cutadapt.Adapters Cutadapt.MatchSound

/-- documented adapter type of each adapter class -/
def docType : AdapterType → AType
  | .front => .regular5
  | .rightmostFront => .rightmost5
  | .back => .regular3
  | .anywhere => .anywhere
  | .nonInternalFront => .nonInternal5
  | .nonInternalBack => .nonInternal3
  | .prefix => .anchored5
  | .suffix => .anchored3

/-- well-formedness of an adapter as built by `mkAdapter` from CLI input -/
structure AdapterWF (a : Adapter) : Prop where
  upper : ∀ c ∈ a.seq, ¬ (97 ≤ c ∧ c ≤ 122)            -- stored sequence is upper-cased
  thr_mono : ∀ x y, x ≤ y → a.thr x ≤ a.thr y
  noForce : a.forceAnywhere = false
  anchoredOverlap : isAnchored a.ty = true → a.minOverlap = a.seq.length

structure MatchSound (a : Adapter) (read : Bytes) (mt : SingleMatch) : Prop where
  bounds : mt.astart ≤ mt.astop ∧ mt.astop ≤ a.seq.length ∧ mt.rstart ≤ mt.rstop ∧ mt.rstop ≤ read.length
  placement : Placement (docType a.ty) a.seq.length read.length mt.astart mt.astop mt.rstart mt.rstop
  overlap : a.minOverlap ≤ mt.astop - mt.astart
  script : ∃ s, lhs s = seg a.seq mt.astart mt.astop ∧ rhs s = seg read mt.rstart mt.rstop ∧
                cost (docMatch a.adapterWildcards a.readWildcards) (indelCost a) s ≤ mt.errors
  tolerance : mt.errors ≤ a.thr (Spec.effLen a.adapterWildcards a.seq mt.astart mt.astop)
  removes : mt.before = removesBefore a.ty mt.rstart

/-! ### the generated constants are the documented ones -/

/-- the seven `Where` flag sets are the documented `EndSkip` combinations -/
theorem flags_match_documentation :
    whereBack = endSkipQueryStart + endSkipQueryStop + endSkipReferenceEnd ∧
    whereFront = endSkipQueryStart + endSkipQueryStop + endSkipReferenceStart ∧
    wherePrefix = endSkipQueryStop ∧
    whereSuffix = endSkipQueryStart ∧
    whereFrontNotInternal = endSkipReferenceStart + endSkipQueryStop ∧
    whereBackNotInternal = endSkipQueryStart + endSkipReferenceEnd ∧
    whereAnywhere = endSkipReferenceStart + endSkipQueryStart + endSkipReferenceEnd + endSkipQueryStop ∧
    (endSkipReferenceStart, endSkipQueryStart, endSkipReferenceEnd, endSkipQueryStop) = (1, 2, 4, 8) := by
  decide

/-- the generated translation tables together with `Aligner`'s comparison implement the documented character
    matching, for every adapter character that is not a lower-case letter and every read byte -/
theorem tables_match_documentation (cfg : Cfg) (x y : UInt8) (hx : ¬ (97 ≤ x ∧ x ≤ 122)) :
    ∃ x' y', encodeRef cfg [x] = [x'] ∧ encodeQuery cfg [y] = [y'] ∧
      docMatch cfg.wildRef cfg.wildQuery x y = cfg.eq x' y' := by
  rw [encodeRef_eq_map, encodeQuery_eq_map]
  exact ⟨_, _, rfl, rfl, docMatch_eq_aligner cfg.wildRef cfg.wildQuery x y hx⟩

/-- the same for the comparers (which upper-case the adapter themselves) -/
theorem tables_match_documentation_comparer (c : CmpCfg) (x y : UInt8) :
    ∃ x' y', cmpEncodeRef c [x] = [x'] ∧ cmpEncodeQuery c [y] = [y'] ∧
      docMatch c.wildRef c.wildQuery x y = charsEqual (!c.wildQuery && !c.wildRef) x' y' := by
  rw [cmpEncodeRef_eq_map, cmpEncodeQuery_eq_map]
  exact ⟨_, _, rfl, rfl, docMatch_eq_comparer c.wildRef c.wildQuery x y⟩

/-! ### soundness of the raw alignment of each class -/

theorem alignment_sound (a : Adapter) (read : Bytes) (h : AdapterWF a) {as ae rs re : Nat} {sc : Int} {e : Nat}
    (hm : alignment a read = some (as, ae, rs, re, sc, e)) :
    RawSound a.adapterWildcards a.readWildcards (indelCost a) a.thr a.minOverlap a.seq read as ae rs re e ∧
    Placement (docType a.ty) a.seq.length read.length as ae rs re := by
  obtain ⟨hup, hmono, hforce, hanch⟩ := h
  obtain ⟨ty, seq, thr, mo, rw, aw, indels, force, name⟩ := a
  simp only at hup hmono hforce hanch ⊢
  subst hforce
  cases ty
  case front =>
    obtain ⟨hs, hr⟩ := locate_raw _ _ _ read rfl hup hmono hm
    exact ⟨hr, hs.stopRef (by flagbit), hs.startOne⟩
  case back =>
    obtain ⟨hs, hr⟩ := locate_raw _ _ _ read rfl hup hmono hm
    exact ⟨hr, hs.startRef (by flagbit), hs.stopOne⟩
  case anywhere =>
    obtain ⟨hs, hr⟩ := locate_raw _ _ _ _ rfl hup hmono hm
    have hn : (read.map asciiUpper).length = read.length := List.length_map ..
    exact ⟨hr.upperRead, hs.startOne, by rw [← hn]; exact hs.stopOne⟩
  case nonInternalFront =>
    obtain ⟨hs, hr⟩ := locate_raw _ _ _ read rfl hup hmono hm
    exact ⟨hr, hs.stopRef (by flagbit), hs.startQuery (by flagbit)⟩
  case nonInternalBack =>
    obtain ⟨hs, hr⟩ := locate_raw _ _ _ read rfl hup hmono hm
    exact ⟨hr, hs.startRef (by flagbit), hs.stopQuery (by flagbit)⟩
  case rightmostFront =>
    simp only [alignment] at hm
    split at hm
    · cases hm
    · next rs0 re0 qs qe sc0 e0 hloc =>
      simp only [Option.some.injEq, Prod.mk.injEq] at hm
      obtain ⟨h1, h2, h3, h4, h5, h6⟩ := hm
      subst h1 h2 h3 h4 h6
      obtain ⟨hs, hr⟩ := locate_raw _ _ seq.reverse read.reverse (by simp) (by simpa using hup) hmono hloc
      have hb := hr.bounds
      rw [List.length_reverse, List.length_reverse] at hb
      refine ⟨hr.reverse, ?_, ?_⟩
      · have := hs.startRef (by flagbit)
        omega
      · rcases hs.stopOne with h | h
        · left; rw [List.length_reverse] at h; omega
        · right; rw [List.length_reverse] at h; omega
  case «prefix» =>
    cases indels
    · obtain ⟨h1, h2, h3, h4, _, _, hr⟩ := comparePrefix_raw _ _ seq read hup (hanch rfl) hm
      subst h1 h2 h3 h4
      exact ⟨hr, rfl, rfl, rfl⟩
    · obtain ⟨hs, hr⟩ := locate_raw _ _ _ read rfl hup hmono hm
      exact ⟨hr, hs.startRef (by flagbit), hs.stopRef (by flagbit), hs.startQuery (by flagbit)⟩
  case suffix =>
    cases indels
    · simp only [alignment, Bool.not_false, if_true, compareSuffix] at hm
      split at hm
      · cases hm
      · next x0 len x1 x2 sc0 e0 hcmp =>
        simp only [Option.some.injEq, Prod.mk.injEq] at hm
        obtain ⟨h1, h2, h3, h4, h5, h6⟩ := hm
        subst h1 h2 h3 h4 h6
        obtain ⟨g1, g2, g3, g4, g5, _, hr⟩ := comparePrefix_raw _ (indelCost _) seq.reverse read.reverse
          (by simpa using hup) (by rw [List.length_reverse]; exact hanch rfl) hcmp
        subst g2
        have hrr := hr.reverse
        simp only [List.length_reverse, Nat.sub_self, Nat.sub_zero] at hrr ⊢
        exact ⟨hrr, rfl, rfl, rfl⟩
    · obtain ⟨hs, hr⟩ := locate_raw _ _ _ read rfl hup hmono hm
      exact ⟨hr, hs.startRef (by flagbit), hs.stopRef (by flagbit), hs.stopQuery (by flagbit)⟩


/-- **C01, soundness half.** Every match reported by `match_to` lies inside adapter and read, obeys the placement
    rule of its adapter type, covers the minimum overlap, is witnessed by an alignment of cost ≤ `errors` under the
    documented wildcard rules, and `errors` is within the tolerance on the non-N aligned adapter bases. -/
theorem matchTo_sound (a : Adapter) (read : Bytes) (h : AdapterWF a) (mt : SingleMatch)
    (hm : matchTo a read = some mt) : MatchSound a read mt := by
  unfold matchTo at hm
  split at hm
  · cases hm
  · next as ae rs re sc e hal =>
    simp only [Option.some.injEq] at hm
    subst hm
    obtain ⟨hr, hp⟩ := alignment_sound a read h hal
    exact ⟨hr.bounds, hp, hr.overlap, hr.script, hr.tolerance, rfl⟩

/-- With indels disabled, aligned adapter and read intervals have equal length and `errors` bounds their Hamming
    distance (the error rate must not exceed 1, i.e. `thr L ≤ L`; see `noindel_needs_rate_le_one`). -/
theorem noindel_is_hamming (a : Adapter) (read : Bytes) (mt : SingleMatch) (h : AdapterWF a)
    (hi : a.indels = false) (hlen : a.seq.length < indelCostOff) (hthr : ∀ L, a.thr L ≤ L)
    (hm : matchTo a read = some mt) :
    mt.astop - mt.astart = mt.rstop - mt.rstart ∧
    hamming (docMatch a.adapterWildcards a.readWildcards) (seg a.seq mt.astart mt.astop)
      (seg read mt.rstart mt.rstop) ≤ mt.errors := by
  obtain ⟨⟨b1, b2, b3, b4⟩, _, _, ⟨s, hl, hr, hc⟩, htol, _⟩ := matchTo_sound a read h mt hm
  have hcost : indelCost a = indelCostOff := by unfold indelCost; rw [hi]; rfl
  have he : mt.errors < indelCostOff := by
    have := hthr (Spec.effLen a.adapterWildcards a.seq mt.astart mt.astop)
    have := spec_effLen_le a.adapterWildcards a.seq mt.astart mt.astop b2
    omega
  rw [hcost] at hc
  obtain ⟨h1, h2⟩ := no_indel_script (docMatch a.adapterWildcards a.readWildcards) indelCostOff s (by omega)
  rw [hl, hr] at h1 h2
  rw [seg_length' _ _ _ b2, seg_length' _ _ _ b4] at h1
  exact ⟨h1, by rw [h2]; exact hc⟩

/-! ### minimality of `errors` -/

theorem alignment_min (a : Adapter) (read : Bytes) (h : AdapterWF a)
    (hlen : a.indels = false → isAnchored a.ty = true → a.seq.length < indelCostOff)
    {as ae rs re : Nat} {sc : Int} {e : Nat} (hm : alignment a read = some (as, ae, rs, re, sc, e)) :
    RawMin a.adapterWildcards a.readWildcards (indelCost a) a.seq read as ae rs re e := by
  obtain ⟨hup, hmono, hforce, hanch⟩ := h
  obtain ⟨ty, seq, thr, mo, rw, aw, indels, force, name⟩ := a
  simp only at hup hmono hforce hanch hlen ⊢
  subst hforce
  cases ty
  case front => exact locate_rawMin _ _ _ read rfl hup hmono hm
  case back => exact locate_rawMin _ _ _ read rfl hup hmono hm
  case anywhere => exact (locate_rawMin _ _ _ _ rfl hup hmono hm).upperRead
  case nonInternalFront => exact locate_rawMin _ _ _ read rfl hup hmono hm
  case nonInternalBack => exact locate_rawMin _ _ _ read rfl hup hmono hm
  case rightmostFront =>
    simp only [alignment] at hm
    split at hm
    · cases hm
    · next rs0 re0 qs qe sc0 e0 hloc =>
      simp only [Option.some.injEq, Prod.mk.injEq] at hm
      obtain ⟨h1, h2, h3, h4, h5, h6⟩ := hm
      subst h1 h2 h3 h4 h6
      obtain ⟨_, hr⟩ := locate_raw _ _ seq.reverse read.reverse (by simp) (by simpa using hup) hmono hloc
      have hb := hr.bounds
      rw [List.length_reverse, List.length_reverse] at hb
      exact (locate_rawMin _ _ seq.reverse read.reverse (by simp) (by simpa using hup) hmono hloc).reverse hb
  case «prefix» =>
    cases indels
    · obtain ⟨h1, h2, h3, h4, h5, h6, _⟩ := comparePrefix_raw _ 0 seq read hup (hanch rfl) hm
      subst h1 h2 h3 h4 h6
      exact hamming_rawMin aw rw seq read (hlen rfl rfl)
    · exact locate_rawMin _ _ _ read rfl hup hmono hm
  case suffix =>
    cases indels
    · simp only [alignment, Bool.not_false, if_true, compareSuffix] at hm
      split at hm
      · cases hm
      · next x0 len x1 x2 sc0 e0 hcmp =>
        simp only [Option.some.injEq, Prod.mk.injEq] at hm
        obtain ⟨h1, h2, h3, h4, h5, h6⟩ := hm
        subst h1 h2 h3 h4 h6
        obtain ⟨g1, g2, g3, g4, g5, g6, _⟩ := comparePrefix_raw _ 0 seq.reverse read.reverse
          (by simpa using hup) (by rw [List.length_reverse]; exact hanch rfl) hcmp
        subst g2 g6
        rw [List.length_reverse, List.length_reverse] at g5
        have hmin := (hamming_rawMin aw rw seq.reverse read.reverse
          (by rw [List.length_reverse]; exact hlen rfl rfl)).reverse
          (by simp only [List.length_reverse]; omega)
        simp only [List.length_reverse, Nat.sub_self, Nat.sub_zero] at hmin ⊢
        exact hmin
    · exact locate_rawMin _ _ _ read rfl hup hmono hm

/-- **C01, minimality half.** No alignment of the two reported intervals is cheaper than `errors`.
    (For the indel-free comparers of anchored adapters this needs an adapter shorter than the pseudo-infinite indel
    cost 100000: beyond twice that length a deletion plus an insertion can beat the Hamming distance.) -/
theorem errors_minimal (a : Adapter) (read : Bytes) (mt : SingleMatch) (h : AdapterWF a)
    (hlen : a.indels = false → isAnchored a.ty = true → a.seq.length < indelCostOff)
    (hm : matchTo a read = some mt) :
    ∀ s, lhs s = seg a.seq mt.astart mt.astop → rhs s = seg read mt.rstart mt.rstop →
      mt.errors ≤ cost (docMatch a.adapterWildcards a.readWildcards) (indelCost a) s := by
  unfold matchTo at hm
  split at hm
  · cases hm
  · next as ae rs re sc e hal =>
    simp only [Option.some.injEq] at hm
    subst hm
    exact alignment_min a read h hlen hal

/-- `errors` is the weighted edit distance between the two reported intervals under the documented wildcard rules -/
theorem matchTo_errors_is_distance (a : Adapter) (read : Bytes) (mt : SingleMatch) (h : AdapterWF a)
    (hlen : a.indels = false → isAnchored a.ty = true → a.seq.length < indelCostOff)
    (hm : matchTo a read = some mt) :
    IsDist (docMatch a.adapterWildcards a.readWildcards) (indelCost a)
      (seg a.seq mt.astart mt.astop) (seg read mt.rstart mt.rstop) mt.errors := by
  have hmin := errors_minimal a read mt h hlen hm
  obtain ⟨s, hl, hr, hc⟩ := (matchTo_sound a read h mt hm).script
  exact ⟨⟨s, hl, hr, Nat.le_antisymm hc (hmin s hl hr)⟩, hmin⟩

/-! ### non-vacuity: concrete matches (A=65 C=67 G=71 T=84 N=78; lower case +32), tolerance `⌊L/5⌋` -/

def exAdapter (ty : AdapterType) (seq : Bytes) (mo : Nat) (rw aw indels : Bool) : Adapter :=
  { ty := ty, seq := seq, thr := fun L => L / 5, minOverlap := mo, readWildcards := rw, adapterWildcards := aw,
    indels := indels }

theorem exAdapter_wf (ty : AdapterType) (seq : Bytes) (mo : Nat) (rw aw indels : Bool)
    (hup : ∀ c ∈ seq, ¬ (97 ≤ c ∧ c ≤ 122)) (hanch : isAnchored ty = true → mo = seq.length) :
    AdapterWF (exAdapter ty seq mo rw aw indels) :=
  ⟨hup, fun _ _ hxy => Nat.div_le_div_right hxy, rfl, hanch⟩

/-- 3' adapter `ACGTACGTAC` in `TTACGTCGTACGG`: one deleted adapter base -/
example : matchTo (exAdapter .back [65,67,71,84,65,67,71,84,65,67] 3 false false true)
      [84,84,65,67,71,84,67,71,84,65,67,71,71] = some ⟨0, 10, 2, 11, 7, 1, false⟩ ∧
    AdapterWF (exAdapter .back [65,67,71,84,65,67,71,84,65,67] 3 false false true) :=
  ⟨by decide +kernel, exAdapter_wf _ _ _ _ _ _ (by decide) (by decide)⟩

/-- 5' adapter `ACNGTACGTA` with `-N` semantics in `ggACTGTACCTAttt`: the `N` absorbs `T`, one mismatch, and
    the tolerance is computed from the 9 non-N bases -/
example : matchTo (exAdapter .front [65,67,78,71,84,65,67,71,84,65] 3 false true true)
      [103,103,65,67,84,71,84,65,67,67,84,65,116,116,116] = some ⟨0, 10, 2, 12, 8, 1, true⟩ ∧
    AdapterWF (exAdapter .front [65,67,78,71,84,65,67,71,84,65] 3 false true true) :=
  ⟨by decide +kernel, exAdapter_wf _ _ _ _ _ _ (by decide) (by decide)⟩

/-- anywhere adapter `ACGTACGTAC`, partial occurrence at the 5' end of the lower-case read `gtacgtacTTTT` -/
example : matchTo (exAdapter .anywhere [65,67,71,84,65,67,71,84,65,67] 3 false false true)
      [103,116,97,99,103,116,97,99,84,84,84,84] = some ⟨2, 10, 0, 8, 8, 0, true⟩ ∧
    AdapterWF (exAdapter .anywhere [65,67,71,84,65,67,71,84,65,67] 3 false false true) :=
  ⟨by decide +kernel, exAdapter_wf _ _ _ _ _ _ (by decide) (by decide)⟩

/-- anchored 5' adapter without indels (`PrefixComparer`) in `ACGTACCTACGGG`: one mismatch -/
example : matchTo (exAdapter .prefix [65,67,71,84,65,67,71,84,65,67] 10 false false false)
      [65,67,71,84,65,67,67,84,65,67,71,71,71] = some ⟨0, 10, 0, 10, 8, 1, true⟩ ∧
    AdapterWF (exAdapter .prefix [65,67,71,84,65,67,71,84,65,67] 10 false false false) :=
  ⟨by decide +kernel, exAdapter_wf _ _ _ _ _ _ (by decide) (by decide)⟩

/-- anchored 3' adapter without indels (`SuffixComparer`), read wildcards on, in `GGGACGTNCGTAC` -/
example : matchTo (exAdapter .suffix [65,67,71,84,65,67,71,84,65,67] 10 true false false)
      [71,71,71,65,67,71,84,78,67,71,84,65,67] = some ⟨0, 10, 3, 13, 10, 0, false⟩ ∧
    AdapterWF (exAdapter .suffix [65,67,71,84,65,67,71,84,65,67] 10 true false false) :=
  ⟨by decide +kernel, exAdapter_wf _ _ _ _ _ _ (by decide) (by decide)⟩

/-- rightmost 5' adapter `ACGTA` picks the second copy in `ACGTATTACGTAGG` -/
example : matchTo (exAdapter .rightmostFront [65,67,71,84,65] 3 false false true)
      [65,67,71,84,65,84,84,65,67,71,84,65,71,71] = some ⟨0, 5, 7, 12, 5, 0, true⟩ ∧
    AdapterWF (exAdapter .rightmostFront [65,67,71,84,65] 3 false false true) :=
  ⟨by decide +kernel, exAdapter_wf _ _ _ _ _ _ (by decide) (by decide)⟩

/-- non-internal 3' adapter: a prefix of `ACGTACGTAC` at the end of `TTTTACGTA` -/
example : matchTo (exAdapter .nonInternalBack [65,67,71,84,65,67,71,84,65,67] 3 false false true)
      [84,84,84,84,65,67,71,84,65] = some ⟨0, 5, 4, 9, 5, 0, false⟩ ∧
    AdapterWF (exAdapter .nonInternalBack [65,67,71,84,65,67,71,84,65,67] 3 false false true) :=
  ⟨by decide +kernel, exAdapter_wf _ _ _ _ _ _ (by decide) (by decide)⟩

/-- `noindel_is_hamming` needs `thr L ≤ L`: with an (absurd) tolerance of 200000 errors the indel-free aligner aligns
    `AC` to `C` through a "forbidden" deletion of cost 100000 -/
theorem noindel_needs_rate_le_one :
    ∃ (a : Adapter) (read : Bytes) (mt : SingleMatch), AdapterWF a ∧ a.indels = false ∧
      a.seq.length < indelCostOff ∧ matchTo a read = some mt ∧ mt.astop - mt.astart ≠ mt.rstop - mt.rstart :=
  ⟨{ ty := .back, seq := [65,67], thr := fun _ => 200000, minOverlap := 1, readWildcards := false,
     adapterWildcards := false, indels := false }, [67], ⟨0, 2, 0, 1, -1, 100000, false⟩,
   ⟨by decide, fun _ _ _ => Nat.le_refl _, rfl, by decide⟩, rfl, by decide, by decide +kernel, by decide⟩

/-! ## Tolerance over the full adapter for absolute error counts (regenerated from the working tree on every run) -/

/-- `-e k` on an adapter of `n` informative bases is stored as the double `k/n`; over the whole adapter the tolerance is `floor(fl(k/n) · n)`
    (`thrOfRate`), which is `k - 1` for a few pairs such as (1, 49) -/
def fullTolerance (k n : Nat) : Nat := Cutadapt.Adapters.thrOfRate (Float.ofNat k / Float.ofNat n) n

/-- **The real program accepts exactly `floor(fl(k/n) · n)` substitutions in a full-length occurrence of an anchored adapter given with `-e k`** — no match is
    reported beyond the maximum error rate times the aligned bases, also where the double product falls just below `k` (observed: probe reads with 0 … k+1
    substitutions through the command-line program; the model's `thr` is the same function) -/
theorem generated_full_tolerance :
    ∀ row ∈ Cutadapt.Generated.toleranceRows, row.2.2.1 = fullTolerance row.1 row.2.1 := by
  decide +kernel

end Cutadapt.C01
