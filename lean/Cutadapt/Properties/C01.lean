import Cutadapt.Adapters
namespace Cutadapt.C01
end Cutadapt.C01
