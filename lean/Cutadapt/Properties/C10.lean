import Cutadapt.Proofs.OrderStages
import Cutadapt.Generated.StageOrder
/-! # C10 — read modifications are applied in the documented fixed order

Model: `makeModsSingle` / `makeModsPaired` (the modifier part of `cli.make_pipeline_from_args` with its helpers
`make_unconditional_cutters`, `make_quality_trimmers`, `make_adapter_cutter`, `make_shortener`,
`modifiers_applying_to_both_ends_if_paired`), `runModsS` (the loop `for step in modifiers_and_steps`), `applyS`/`applyP`.
The option record `Opts` holds the values argparse produced, so the order of options on the command line is not even visible
to the assembly, except for the lists `-u`/`-U` and `--strip-suffix`, whose order is kept.
The generated file `Cutadapt.Generated.StageOrder` (class names of `pipeline._modifiers`/`_steps` built by the real
`make_pipeline_from_args`) ties the hand-written assembly model to the code on every run. -/
namespace Cutadapt.C10
open Cutadapt

/-! ## The assembled list is the documented composition -/

/-- **`makeModsSingle` = the documented stages, each present iff its option is**:
    `cuts ++ nextseq? ++ qtrim? ++ adapterStage? ++ polyA? ++ shorten? ++ trimN? ++ lengthTag? ++ stripSuffixes ++ prefixSuffix? ++ zeroCap? ++ rename?`
    (`documentedSingle`, written out once in `Proofs/OrderStages.lean`). -/
theorem makeMods_is_documented_composition (o : Opts) (ads : List Matchable) (l : List SMod)
    (h : makeModsSingle o ads = .ok l) :
    l = cutStage o.cut ++ nextseqStage o ++ qtrimStage o.qualityCutoff o.qualityBase ++
        adapterStage o ads (cutStage o.cut ++ nextseqStage o ++ qtrimStage o.qualityCutoff o.qualityBase).isEmpty ++
        polyAStage o ++ shortenStage o ++ trimNStage o ++ lengthTagStage o ++ stripSuffixStage o ++ prefixSuffixStage o ++
        zeroCapStage o ++ renameStage o := by
  rw [makeModsSingle_eq] at h
  split at h
  · cases h
  · split at h
    · cases h
    · injection h with h; exact h.symm

/-- the assembly succeeds exactly when `-u` is used at most twice with different signs and no rejected option combination
    (`--pair-adapters` without paired input, `--action retain/crop` with `--times > 1`, `--rename` with `-x`/`-y`) is present -/
theorem makeModsSingle_ok_iff (o : Opts) (ads : List Matchable) :
    (∃ l, makeModsSingle o ads = .ok l) ↔
      ((o.cut.length ≤ 2 ∧ ¬ (o.cut.length = 2 ∧ o.cut[0]! * o.cut[1]! > 0)) ∧ rejectedSingle o ads = false) := by
  rw [makeModsSingle_eq, ← cutMods_ok_iff]
  cases hc : cutMods o.cut with
  | error e => simp
  | ok c => cases hr : rejectedSingle o ads <;> simp

/-- **every step sees exactly the output of the previous one**: running a concatenation of modifier lists is the left-to-right
    Kleisli composition — read, modification info and event log of the first part are the input of the second -/
theorem runModsS_append (names : Names) (a b : List SMod) (r : Read) (i : Info) (evs : List Event) :
    runModsS names (a ++ b) r i evs =
      (runModsS names a r i evs).bind (fun (r', i', e') => runModsS names b r' i' e') := by
  induction a generalizing r i evs with
  | nil => rfl
  | cons m ms ih =>
    simp only [List.cons_append, runModsS]
    cases applyS names 0 m r i with
    | error e => rfl
    | ok t => obtain ⟨r', i', e'⟩ := t; exact ih r' i' _

/-- one step: the modifier is applied to the current read and info; its events are appended to the log -/
theorem runModsS_cons (names : Names) (m : SMod) (ms : List SMod) (r : Read) (i : Info) (evs : List Event) :
    runModsS names (m :: ms) r i evs =
      (applyS names 0 m r i).bind (fun (r', i', e') => runModsS names ms r' i' (evs ++ e')) := by
  simp only [runModsS]
  cases applyS names 0 m r i with
  | error e => rfl
  | ok t => rfl

theorem runModsP_append (a1 a2 : List Matchable) (a b : List PMod) (r : Read × Read) (i : Info × Info) (evs : List Event) :
    runModsP a1 a2 (a ++ b) r i evs =
      (runModsP a1 a2 a r i evs).bind (fun (r', i', e') => runModsP a1 a2 b r' i' e') := by
  induction a generalizing r i evs with
  | nil => rfl
  | cons m ms ih =>
    simp only [List.cons_append, runModsP]
    cases applyP a1 a2 m r i with
    | error e => rfl
    | ok t => obtain ⟨r', i', e'⟩ := t; exact ih r' i' _

/-! ## Stage order -/

/-- **Single-end: the modifiers are in the documented order**, whatever the options are -/
theorem stage_order_single (o : Opts) (ads : List Matchable) (l : List SMod) (h : makeModsSingle o ads = .ok l) :
    l.Pairwise (fun a b => stageRank a ≤ stageRank b) := by
  rw [makeMods_is_documented_composition o ads l h]
  have h0 := (Below.nil stageRank 0).append_const stageRank (Nat.le_refl _) (rank_cutStage o.cut)
  have h1 := h0.append_const stageRank (by omega : 0 ≤ 1) (rank_nextseqStage o)
  have h2 := h1.append_const stageRank (by omega : 1 ≤ 2) (rank_qtrimStage o.qualityCutoff o.qualityBase)
  have h3 := h2.append_const stageRank (by omega : 2 ≤ 3)
    (rank_adapterStage o ads (cutStage o.cut ++ nextseqStage o ++ qtrimStage o.qualityCutoff o.qualityBase).isEmpty)
  have h4 := h3.append_const stageRank (by omega : 3 ≤ 4) (rank_polyAStage o)
  have h5 := h4.append_const stageRank (by omega : 4 ≤ 5) (rank_shortenStage o)
  have h6 := h5.append_const stageRank (by omega : 5 ≤ 6) (rank_trimNStage o)
  have h7 := h6.append_const stageRank (by omega : 6 ≤ 7) (rank_lengthTagStage o)
  have h8 := h7.append_const stageRank (by omega : 7 ≤ 8) (rank_stripSuffixStage o)
  have h9 := h8.append_const stageRank (by omega : 8 ≤ 9) (rank_prefixSuffixStage o)
  have h10 := h9.append_const stageRank (by omega : 9 ≤ 10) (rank_zeroCapStage o)
  have h11 := h10.append_const stageRank (Nat.le_refl 10) (rank_renameStage o)
  simpa only [List.nil_append, RankSorted] using h11.1

def cutOf : SMod → Option Int
  | .cut n => some n
  | _ => none
def stripSuffixOf : SMod → Option Bytes
  | .stripSuffix s => some s
  | _ => none

theorem filterMap_nil_of_rank {f : SMod → Option β} (r : Nat) (hf : ∀ m, (f m).isSome → stageRank m = r) (l : List SMod)
    (r' : Nat) (hl : ∀ b ∈ l, stageRank b = r') (hne : r' ≠ r) : l.filterMap f = [] := by
  rw [List.filterMap_eq_nil_iff]
  intro a ha
  cases hfa : f a with
  | none => rfl
  | some v =>
    have := hf a (by simp [hfa])
    have := hl a ha
    omega

theorem cutOf_rank : ∀ m, (cutOf m).isSome → stageRank m = 0 := by
  intro m h; cases m <;> simp [cutOf] at h <;> rfl
theorem stripSuffixOf_rank : ∀ m, (stripSuffixOf m).isSome → stageRank m = 8 := by
  intro m h; cases m <;> simp [stripSuffixOf] at h <;> rfl

/-- **`-u` values are applied in the order given** (a value 0 is dropped), and nothing else is an unconditional cut -/
theorem cuts_in_given_order (o : Opts) (ads : List Matchable) (l : List SMod) (h : makeModsSingle o ads = .ok l) :
    l.filterMap cutOf = o.cut.filter (· != 0) := by
  rw [makeMods_is_documented_composition o ads l h]
  simp only [List.filterMap_append]
  rw [filterMap_nil_of_rank 0 cutOf_rank _ 1 (rank_nextseqStage o) (by omega),
      filterMap_nil_of_rank 0 cutOf_rank _ 2 (rank_qtrimStage _ _) (by omega),
      filterMap_nil_of_rank 0 cutOf_rank _ 3 (rank_adapterStage o ads _) (by omega),
      filterMap_nil_of_rank 0 cutOf_rank _ 4 (rank_polyAStage o) (by omega),
      filterMap_nil_of_rank 0 cutOf_rank _ 5 (rank_shortenStage o) (by omega),
      filterMap_nil_of_rank 0 cutOf_rank _ 6 (rank_trimNStage o) (by omega),
      filterMap_nil_of_rank 0 cutOf_rank _ 7 (rank_lengthTagStage o) (by omega),
      filterMap_nil_of_rank 0 cutOf_rank _ 8 (rank_stripSuffixStage o) (by omega),
      filterMap_nil_of_rank 0 cutOf_rank _ 9 (rank_prefixSuffixStage o) (by omega),
      filterMap_nil_of_rank 0 cutOf_rank _ 10 (rank_zeroCapStage o) (by omega),
      filterMap_nil_of_rank 0 cutOf_rank _ 10 (rank_renameStage o) (by omega)]
  simp [cutStage, List.filterMap_map, Function.comp_def, cutOf]

/-- **`--strip-suffix` values are applied in the order given** -/
theorem strip_suffixes_in_given_order (o : Opts) (ads : List Matchable) (l : List SMod) (h : makeModsSingle o ads = .ok l) :
    l.filterMap stripSuffixOf = o.stripSuffix := by
  rw [makeMods_is_documented_composition o ads l h]
  simp only [List.filterMap_append]
  rw [filterMap_nil_of_rank 8 stripSuffixOf_rank _ 0 (rank_cutStage _) (by omega),
      filterMap_nil_of_rank 8 stripSuffixOf_rank _ 1 (rank_nextseqStage o) (by omega),
      filterMap_nil_of_rank 8 stripSuffixOf_rank _ 2 (rank_qtrimStage _ _) (by omega),
      filterMap_nil_of_rank 8 stripSuffixOf_rank _ 3 (rank_adapterStage o ads _) (by omega),
      filterMap_nil_of_rank 8 stripSuffixOf_rank _ 4 (rank_polyAStage o) (by omega),
      filterMap_nil_of_rank 8 stripSuffixOf_rank _ 5 (rank_shortenStage o) (by omega),
      filterMap_nil_of_rank 8 stripSuffixOf_rank _ 6 (rank_trimNStage o) (by omega),
      filterMap_nil_of_rank 8 stripSuffixOf_rank _ 7 (rank_lengthTagStage o) (by omega),
      filterMap_nil_of_rank 8 stripSuffixOf_rank _ 9 (rank_prefixSuffixStage o) (by omega),
      filterMap_nil_of_rank 8 stripSuffixOf_rank _ 10 (rank_zeroCapStage o) (by omega),
      filterMap_nil_of_rank 8 stripSuffixOf_rank _ 10 (rank_renameStage o) (by omega)]
  simp [stripSuffixStage, List.filterMap_map, Function.comp_def, stripSuffixOf]

/-! ## The final group: zero-capping and renaming commute -/

theorem renderTok_name_only (names : Names) (r r' : Read) (info : Info) (h : r.name = r'.name) (t : Tok) :
    renderTok names r info t = renderTok names r' info t := by
  unfold renderTok
  split <;> simp [h]

/-- **`--zero-cap` touches only the qualities, `--rename` only the name (and reads only name and info)**: applying them in either
    order gives the same read, info and events — the documented "renaming and zero-capping" group is order-independent -/
theorem rename_zeroCap_commute (names : Names) (side base : Nat) (tmpl : List Tok) (read : Read) (info : Info) :
    ((applyS names side (.zeroCap base) read info).bind fun (r1, i1, e1) =>
      (applyS names side (.rename tmpl) r1 i1).bind fun (r2, i2, e2) => .ok (r2, i2, e1 ++ e2)) =
    ((applyS names side (.rename tmpl) read info).bind fun (r1, i1, e1) =>
      (applyS names side (.zeroCap base) r1 i1).bind fun (r2, i2, e2) => .ok (r2, i2, e1 ++ e2)) := by
  simp only [applyS, Except.bind]
  have : renderTok names { read with qual := read.qual.map (fun q => q.map (fun c => if c.toNat < base then base.toUInt8 else c)) } info
      = renderTok names read info := by
    funext t
    exact renderTok_name_only names _ _ info rfl t
  rw [this]
  cases List.mapM (renderTok names read info) tmpl with
  | error e => rfl
  | ok parts => rfl

/-! ## Paired-end: order and routing -/

/-- **`makeModsPaired` = the documented stages with the documented routing** (`documentedPaired`): `-u` on R1 only, `-U` on R2 only, NextSeq
    trimming on both, the quality trimmers `qR1`/`qR2`, the adapter stage, poly-A (R1) / poly-T (R2), `--length`/`-L`, the
    both-end modifiers on both reads, the paired renamer -/
theorem routing (o : Opts) (ads1 ads2 : List Matchable) (l : List PMod) (h : makeModsPaired o ads1 ads2 = .ok l) :
    l = (cutStage o.cut).map onR1 ++ (cutStage o.cut2).map onR2 ++
        (nextseqStage o).map onBoth ++
        (if (qR1 o).isSome || (qR2 o).isSome then [.wrap (qR1 o) (qR2 o)] else []) ++
        adapterStageP o ads1 ads2 ((cutStage o.cut).isEmpty && o.nextseqTrim.isNone && (qR1 o).isNone)
          ((cutStage o.cut2).isEmpty && o.nextseqTrim.isNone && (qR2 o).isNone) ++
        (if o.polyA then [.wrap (some (.polyA false)) (some (.polyA true))] else []) ++
        shortenStageP o ++
        (bothEndMods o).map onBoth ++
        (match o.rename with | some t => [.pairedRename t t] | none => []) := by
  rw [makeModsPaired_eq] at h
  split at h
  · cases h
  · cases h
  · split at h
    · cases h
    · injection h with h; exact h.symm

/-- `-q` without `-Q`: the same trimmer on both reads; with `-Q`: each read its own; `-Q 0`: no R2 trimmer while R1 keeps its own -/
theorem routing_quality (o : Opts) :
    (o.qualityCutoff2 = none → qR2 o = qR1 o) ∧
    (∀ a b, o.qualityCutoff2 = some (some (a, b)) → qR2 o = some (.qtrim a b o.qualityBase)) ∧
    (o.qualityCutoff2 = some none → qR2 o = none) ∧
    (∀ a b, o.qualityCutoff = some (some (a, b)) → qR1 o = some (.qtrim a b o.qualityBase)) ∧
    (o.qualityCutoff = none ∨ o.qualityCutoff = some none → qR1 o = none) := by
  refine ⟨?_, ?_, ?_, ?_, ?_⟩
  · intro h; simp [qR2, h]
  · intro a b h; simp [qR2, h, qtrimOf]
  · intro h; simp [qR2, h, qtrimOf]
  · intro a b h; simp [qR1, h, qtrimOf]
  · intro h; rcases h with h | h <;> simp [qR1, h, qtrimOf]

/-- `--length` without `-L` on both reads, `-L` alone on R2 only, both: each read its own -/
theorem routing_length (o : Opts) :
    (∀ a, o.length = some a → o.length2 = none → shortenStageP o = [onBoth (.shorten a)]) ∧
    (∀ b, o.length = none → o.length2 = some b → shortenStageP o = [onR2 (.shorten b)]) ∧
    (∀ a b, o.length = some a → o.length2 = some b → shortenStageP o = [.wrap (some (.shorten a)) (some (.shorten b))]) ∧
    (o.length = none → o.length2 = none → shortenStageP o = []) := by
  refine ⟨?_, ?_, ?_, ?_⟩ <;> intros <;> simp [shortenStageP, onBoth, onR2, *]

/-- adapters: `-a`, `-g`, `-b` (`ads1`) make the R1 cutter, `-A`, `-G`, `-B` (`ads2`) the R2 cutter (no cutter for an empty list) -/
theorem routing_adapters (o : Opts) (ads1 ads2 : List Matchable) (f1 f2 : Bool) (hp : o.pairAdapters = false)
    (hr : o.revcomp = false) (hne : ads1 ≠ [] ∨ ads2 ≠ []) :
    adapterStageP o ads1 ads2 f1 f2 =
      [.wrap (if ads1 = [] then none else some (.adapters ⟨ads1, o.times, o.action⟩ f1))
             (if ads2 = [] then none else some (.adapters ⟨ads2, o.times, o.action⟩ f2))] := by
  unfold adapterStageP cutterOf
  cases ads1 <;> cases ads2 <;> simp_all

/-! ## Paired-end renaming (`--rename` acts on both reads) -/

/-- **`PairedEndRenamer`, what a successful call does**: the ids of the two incoming names match; each read is renamed with the same
    template, R1 with its own fields and `{rn}` = 1, R2 with its own fields and `{rn}` = 2, `{r1.x}`/`{r2.x}` taking R1's/R2's field in
    both names; the ids of the new names match again; bases, qualities, the `ModificationInfo`s are untouched and nothing is counted. -/
theorem paired_rename_spec (a1 a2 : List Matchable) (t1 t2 : List Tok) (r1 r2 o1 o2 : Read) (i1 i2 j1 j2 : Info) (evs : List Event)
    (h : applyP a1 a2 (.pairedRename t1 t2) (r1, r2) (i1, i2) = .ok ((o1, o2), (j1, j2), evs)) :
    recordNamesMatch r1.name r2.name = true ∧
    ∃ n1 n2, t1.mapM (renderPairedTok 1 (renameFields (namesOf a1) r1 i1) (renameFields (namesOf a1) r1 i1) (renameFields (namesOf a2) r2 i2)) = .ok n1 ∧
             t2.mapM (renderPairedTok 2 (renameFields (namesOf a2) r2 i2) (renameFields (namesOf a1) r1 i1) (renameFields (namesOf a2) r2 i2)) = .ok n2 ∧
             recordNamesMatch n1.flatten n2.flatten = true ∧
             o1 = { r1 with name := n1.flatten } ∧ o2 = { r2 with name := n2.flatten } ∧ j1 = i1 ∧ j2 = i2 ∧ evs = [] := by
  simp only [applyP] at h
  split at h
  · simp at h
  · rename_i hm
    split at h
    · rename_i n1 n2 h1 h2
      split at h
      · simp at h
      · rename_i hm2
        simp only [Except.ok.injEq, Prod.mk.injEq] at h
        obtain ⟨⟨rfl, rfl⟩, ⟨rfl, rfl⟩, rfl⟩ := h
        refine ⟨by simpa using hm, n1, n2, h1, h2, by simpa using hm2, rfl, rfl, rfl, rfl, rfl⟩
    · simp at h
    · simp at h

/-- what the placeholders of a paired template stand for -/
theorem paired_rename_placeholders (rn : Nat) (own d1 d2 : RenameFields) :
    renderPairedTok rn own d1 d2 (.var "id") = .ok own.id ∧
    renderPairedTok rn own d1 d2 (.var "rn") = .ok (natToBytes rn) ∧
    renderPairedTok rn own d1 d2 (.var "comment") = .ok own.comment ∧
    renderPairedTok rn own d1 d2 (.var "adapter_name") = .ok own.adapterName ∧
    renderPairedTok rn own d1 d2 (.var "r1.comment") = .ok d1.comment ∧
    renderPairedTok rn own d1 d2 (.var "r2.comment") = .ok d2.comment ∧
    renderPairedTok rn own d1 d2 (.var "r1.adapter_name") = .ok d1.adapterName ∧
    renderPairedTok rn own d1 d2 (.var "r2.adapter_name") = .ok d2.adapterName ∧
    renderPairedTok rn own d1 d2 (.var "r1.cut_prefix") = .ok d1.cutPrefix ∧
    renderPairedTok rn own d1 d2 (.var "r2.match_sequence") = .ok d2.matchSequence :=
  ⟨rfl, rfl, rfl, rfl, rfl, rfl, rfl, rfl, rfl, rfl⟩

/-- every placeholder that `PairedEndRenamer` accepts is rendered (no `KeyError` at run time), and `{rc}` / `{r1.id}` are not accepted -/
theorem paired_rename_variables_total :
    (pairedRenamerVariables.all fun v =>
      (renderPairedTok 1 ⟨[], [], [], [], [], [], []⟩ ⟨[], [], [], [], [], [], []⟩ ⟨[], [], [], [], [], [], []⟩ (.var v)).toOption.isSome) = true ∧
    renameVarsOK true [.var "rc"] = false ∧ renameVarsOK true [.var "r1.id"] = false ∧ renameVarsOK false [.var "rn"] = false ∧
    renameVarsOK true [.var "id", .lit [32], .var "r2.adapter_name", .var "rn"] = true := by
  decide

/-- `record_names_match` ignores the comment and a final mate digit 1/2/3 on both ids; it is reflexive -/
theorem recordNamesMatch_refl (n : Bytes) : recordNamesMatch n n = true := by
  unfold recordNamesMatch
  simp only [bne_self_eq_false, Bool.false_eq_true, ↓reduceIte]
  cases (recordId n).getLast? <;> simp

/-- `r1/1 x` ~ `r1/2 y`;  `r14` ≁ `r11`;  `ab` ≁ `ab1` -/
example : recordNamesMatch [114, 49, 47, 49, 32, 120] [114, 49, 47, 50, 32, 121] = true ∧ recordNamesMatch [114, 49, 52] [114, 49, 49] = false ∧
    recordNamesMatch [97, 98] [97, 98, 49] = false := by decide

/-- a modifier routed to R1 only leaves R2 and its info untouched … -/
theorem onR1_leaves_R2 (a1 a2 : List Matchable) (m : SMod) (r1 r2 r1' r2' : Read) (i1 i2 i1' i2' : Info) (evs : List Event)
    (h : applyP a1 a2 (onR1 m) (r1, r2) (i1, i2) = .ok ((r1', r2'), (i1', i2'), evs)) :
    r2' = r2 ∧ i2' = i2 ∧ applyS (namesOf a1) 0 m r1 i1 = .ok (r1', i1', evs) := by
  simp only [onR1, applyP, bind, Except.bind, pure, Except.pure] at h
  cases hs : applyS (namesOf a1) 0 m r1 i1 with
  | error e => simp [hs] at h
  | ok t =>
    obtain ⟨x, y, z⟩ := t
    simp [hs] at h
    obtain ⟨⟨rfl, rfl⟩, ⟨rfl, rfl⟩, rfl⟩ := h
    exact ⟨rfl, rfl, rfl⟩

/-- … and symmetrically -/
theorem onR2_leaves_R1 (a1 a2 : List Matchable) (m : SMod) (r1 r2 r1' r2' : Read) (i1 i2 i1' i2' : Info) (evs : List Event)
    (h : applyP a1 a2 (onR2 m) (r1, r2) (i1, i2) = .ok ((r1', r2'), (i1', i2'), evs)) :
    r1' = r1 ∧ i1' = i1 ∧ applyS (namesOf a2) 1 m r2 i2 = .ok (r2', i2', evs) := by
  simp only [onR2, applyP, bind, Except.bind, pure, Except.pure] at h
  cases hs : applyS (namesOf a2) 1 m r2 i2 with
  | error e => simp [hs] at h
  | ok t =>
    obtain ⟨x, y, z⟩ := t
    simp [hs] at h
    obtain ⟨⟨rfl, rfl⟩, ⟨rfl, rfl⟩, rfl⟩ := h
    exact ⟨rfl, rfl, rfl⟩

/-- a wrapped pair of modifiers acts on each read separately: R1 sees only R1, R2 only R2 -/
theorem wrap_acts_sidewise (a1 a2 : List Matchable) (m1 m2 : SMod) (r1 r2 r1' r2' : Read) (i1 i2 i1' i2' : Info) (evs : List Event)
    (h : applyP a1 a2 (.wrap (some m1) (some m2)) (r1, r2) (i1, i2) = .ok ((r1', r2'), (i1', i2'), evs)) :
    ∃ e1 e2, applyS (namesOf a1) 0 m1 r1 i1 = .ok (r1', i1', e1) ∧ applyS (namesOf a2) 1 m2 r2 i2 = .ok (r2', i2', e2) ∧
      evs = e1 ++ e2 := by
  simp only [applyP, bind, Except.bind, pure, Except.pure] at h
  cases hs : applyS (namesOf a1) 0 m1 r1 i1 with
  | error e => simp [hs] at h
  | ok t =>
    obtain ⟨x, y, z⟩ := t
    cases hs2 : applyS (namesOf a2) 1 m2 r2 i2 with
    | error e => simp [hs, hs2] at h
    | ok t2 =>
      obtain ⟨x2, y2, z2⟩ := t2
      simp [hs, hs2] at h
      obtain ⟨⟨rfl, rfl⟩, ⟨rfl, rfl⟩, rfl⟩ := h
      exact ⟨_, _, rfl, rfl, rfl⟩

theorem pRank_onR1 (m : SMod) : pRank (onR1 m) = stageRank m := rfl
theorem pRank_onR2 (m : SMod) : pRank (onR2 m) = stageRank m := rfl
theorem pRank_onBoth (m : SMod) : pRank (onBoth m) = stageRank m := rfl

/-- **Paired-end: the modifiers are in the documented order** -/
theorem stage_order_paired (o : Opts) (ads1 ads2 : List Matchable) (l : List PMod) (h : makeModsPaired o ads1 ads2 = .ok l) :
    l.Pairwise (fun a b => pRank a ≤ pRank b) := by
  rw [routing o ads1 ads2 l h]
  have r0 : ∀ b ∈ (cutStage o.cut).map onR1, pRank b = 0 := by
    intro b hb; simp at hb; obtain ⟨m, hm, rfl⟩ := hb; rw [pRank_onR1]; exact rank_cutStage _ m hm
  have r0' : ∀ b ∈ (cutStage o.cut2).map onR2, pRank b = 0 := by
    intro b hb; simp at hb; obtain ⟨m, hm, rfl⟩ := hb; rw [pRank_onR2]; exact rank_cutStage _ m hm
  have r1 : ∀ b ∈ (nextseqStage o).map onBoth, pRank b = 1 := by
    intro b hb; simp at hb; obtain ⟨m, hm, rfl⟩ := hb; rw [pRank_onBoth]; exact rank_nextseqStage _ m hm
  have r2 : ∀ b ∈ (if (qR1 o).isSome || (qR2 o).isSome then [PMod.wrap (qR1 o) (qR2 o)] else []), pRank b = 2 := by
    intro b hb
    have q1 : ∀ m, qR1 o = some m → stageRank m = 2 := by
      intro m hm; unfold qR1 qtrimOf at hm; split at hm <;> simp at hm; subst hm; rfl
    have q2 : ∀ m, qR2 o = some m → stageRank m = 2 := by
      intro m hm; unfold qR2 at hm
      split at hm
      · exact q1 m hm
      · unfold qtrimOf at hm; split at hm <;> simp at hm; subst hm; rfl
    split at hb
    · simp at hb; subst hb
      cases h1 : qR1 o with
      | some m => exact q1 m h1
      | none =>
        cases h2 : qR2 o with
        | some m => exact q2 m h2
        | none => simp_all
    · simp at hb
  have r3 : ∀ f1 f2, ∀ b ∈ adapterStageP o ads1 ads2 f1 f2, pRank b = 3 := by
    intro f1 f2 b hb
    unfold adapterStageP at hb
    split at hb
    · simp at hb; subst hb; rfl
    · split at hb
      · simp at hb
      · rename_i hnn
        split at hb
        · simp at hb; subst hb; rfl
        · simp at hb; subst hb
          cases h1 : cutterOf o ads1 with
          | some c => rfl
          | none =>
            cases h2 : cutterOf o ads2 with
            | some c => rfl
            | none => simp [h1, h2] at hnn
  have r4 : ∀ b ∈ (if o.polyA then [PMod.wrap (some (.polyA false)) (some (.polyA true))] else []), pRank b = 4 := by
    intro b hb; split at hb <;> simp at hb; subst hb; rfl
  have r5 : ∀ b ∈ shortenStageP o, pRank b = 5 := by
    intro b hb; unfold shortenStageP at hb; split at hb <;> simp at hb <;> subst hb <;> rfl
  have rb := bothEndMods_below o
  have r6 : RankSorted pRank ((bothEndMods o).map onBoth) := by
    unfold RankSorted
    rw [List.pairwise_map]
    exact rb.1
  have r6b : ∀ b ∈ (bothEndMods o).map onBoth, 6 ≤ pRank b ∧ pRank b ≤ 10 := by
    intro b hb; simp at hb; obtain ⟨m, hm, rfl⟩ := hb; rw [pRank_onBoth]; exact rb.2 m hm
  have r10 : ∀ b ∈ (match o.rename with | some t => [PMod.pairedRename t t] | none => []), pRank b = 10 := by
    intro b hb; split at hb <;> simp at hb; subst hb; rfl
  have h0 := ((Below.nil pRank 0).append_const pRank (Nat.le_refl _) r0).append_const pRank (Nat.le_refl _) r0'
  have h1 := h0.append_const pRank (by omega : 0 ≤ 1) r1
  have h2 := h1.append_const pRank (by omega : 1 ≤ 2) r2
  have h3 := h2.append_const pRank (by omega : 2 ≤ 3)
    (r3 ((cutStage o.cut).isEmpty && o.nextseqTrim.isNone && (qR1 o).isNone) ((cutStage o.cut2).isEmpty && o.nextseqTrim.isNone && (qR2 o).isNone))
  have h4 := h3.append_const pRank (by omega : 3 ≤ 4) r4
  have h5 := h4.append_const pRank (by omega : 4 ≤ 5) r5
  have h6 := h5.append pRank r6 (fun b hb => by have := (r6b b hb).1; omega) (fun b hb => (r6b b hb).2) (by omega : 5 ≤ 10)
  have h7 := h6.append_const pRank (Nat.le_refl 10) r10
  simpa only [List.nil_append, RankSorted] using h7.1

/-! ## Generated stage order (from the real `make_pipeline_from_args`) -/

def className : SMod → String
  | .cut _ => "UnconditionalCutter"
  | .nextseq _ _ => "NextseqQualityTrimmer"
  | .qtrim _ _ _ => "QualityTrimmer"
  | .adapters _ _ => "AdapterCutter"
  | .revcomp _ _ _ => "ReverseComplementer"
  | .polyA _ => "PolyATrimmer"
  | .shorten _ => "Shortener"
  | .trimN => "NEndTrimmer"
  | .lengthTag _ => "LengthTagModifier"
  | .stripSuffix _ => "SuffixRemover"
  | .prefixSuffix _ _ => "PrefixSuffixAdder"
  | .zeroCap _ => "ZeroCapper"
  | .rename _ => "Renamer"

def pClassName : PMod → String × String
  | .wrap m1 m2 => ((m1.map className).getD "None", (m2.map className).getD "None")
  | .pairedRevcomp .. => ("PairedReverseComplementer", "PairedReverseComplementer")
  | .pairAdapters .. => ("PairedAdapterCutter", "PairedAdapterCutter")
  | .pairedRename .. => ("PairedEndRenamer", "PairedEndRenamer")

def stepName (paired : Bool) : Step → String
  | .restWriter _ => "RestFileWriter"
  | .infoWriter _ => "InfoFileWriter"
  | .wildcardWriter _ => "WildcardFileWriter"
  | .sink _ => if paired then "PairedEndSink" else "SingleEndSink"
  | .demux _ _ => if paired then "PairedDemultiplexer" else "Demultiplexer"
  | .combDemux _ => "CombinatorialDemultiplexer"
  | s => (Step.filterIdent s).getD ""

/-- the `-a A=ACGT` / `-A B=TTTT` adapters of the generator's command lines -/
def exAdapter (seq : Bytes) (name : String) : Matchable :=
  .single { ty := .back, seq := seq, thr := (fun L => L / 10), minOverlap := 3, readWildcards := false, adapterWildcards := false,
            indels := true, name := name }

/-- `-u 1 -u -1 --nextseq-trim 10 -q 10,10 -a A=ACGT --poly-a -l 10 --trim-n --length-tag length= --strip-suffix x -x P --zero-cap` -/
def exOpts : Opts :=
  { cut := [1, -1], nextseqTrim := some 10, qualityCutoff := some (some (10, 10)), polyA := true, length := some 10, trimN := true,
    lengthTag := some [108, 101, 110, 103, 116, 104, 61], stripSuffix := [[120]], pfx := [80], zeroCap := true }
/-- … with `--rename '{id} x'` instead of `-x P` -/
def exOptsRename : Opts :=
  { exOpts with pfx := [], rename := some [.var "id", .lit [32, 120]], renameGiven := true }
/-- … paired-end: additionally `-U 2 -U -2 -Q 5,5 -A B=TTTT -L 8` -/
def exOptsPaired (o : Opts) : Opts :=
  { o with paired := true, cut2 := [2, -2], qualityCutoff2 := some (some (5, 5)), length2 := some 8, pairedOutput := some "out2" }
/-- `--info-file … --rest-file … --wildcard-file … -m 1 -M 100 --max-n 1 --max-ee 1 --max-aer 0.5 --discard-casava --discard-untrimmed` -/
def exOptsSteps : Opts :=
  { restFile := some "rest", infoFile := some "info", wildcardFile := some "wild", minLen := some (some 1, none),
    maxLen := some (some 100, none), maxN := some 1, maxEE := some 1, maxAER := some 0.5, discardCasava := true, discardUntrimmed := true }

def namesOfMods (r : Except Err (List SMod)) : List String := match r with | .ok l => l.map className | .error _ => ["error"]
def namesOfPMods (r : Except Err (List PMod)) : List (String × String) := match r with | .ok l => l.map pClassName | .error _ => [("error", "error")]
def namesOfSteps (paired : Bool) (r : Except Err (List Step × Files)) : List String :=
  match r with | .ok (l, _) => l.map (stepName paired) | .error _ => ["error"]

/-- **The order in which the real `make_pipeline_from_args` puts the modifiers is the documented one** (regenerated from the working
    tree on every run) … -/
theorem generated_stage_order_is_documented :
    Generated.stageOrderSingle =
      ["UnconditionalCutter", "UnconditionalCutter", "NextseqQualityTrimmer", "QualityTrimmer", "AdapterCutter", "PolyATrimmer",
       "Shortener", "NEndTrimmer", "LengthTagModifier", "SuffixRemover", "PrefixSuffixAdder", "ZeroCapper"] ∧
    Generated.stageOrderSingleRename =
      ["UnconditionalCutter", "UnconditionalCutter", "NextseqQualityTrimmer", "QualityTrimmer", "AdapterCutter", "PolyATrimmer",
       "Shortener", "NEndTrimmer", "LengthTagModifier", "SuffixRemover", "ZeroCapper", "Renamer"] := by
  decide

/-- the documented meaning of a list of `-u` values, one after the other, each on what the previous one left: a positive value removes that
    many bases from the 5' end (they become `{cut_prefix}`), a negative one from the 3' end (`{cut_suffix}`), zero does nothing -/
def cutsSequentially : List Int → Bytes × Bytes × Bytes → Bytes × Bytes × Bytes
  | [], st => st
  | c :: cs, (pre, suf, s) =>
    if c > 0 then cutsSequentially cs (s.take c.toNat, suf, s.drop c.toNat)
    else if c < 0 then cutsSequentially cs (pre, s.drop (s.length - c.natAbs), s.take (s.length - c.natAbs))
    else cutsSequentially cs (pre, suf, s)

/-- **The real program applies the `-u`/`-U` cuts one after the other in the order given** (observed on the working tree: probe reads through
    the command-line program, removed pieces read off `{cut_prefix}`/`{cut_suffix}`, rest off the output record; `-U` on R2 of a pair) … -/
theorem generated_cuts_in_given_order :
    (∀ row ∈ Generated.cutProbes, (row.2.2.1, row.2.2.2.1, row.2.2.2.2) = cutsSequentially row.1 ([], [], row.2.1)) ∧
    (∀ row ∈ Generated.cutProbesR2, (row.2.2.1, row.2.2.2.1, row.2.2.2.2) = cutsSequentially row.1 ([], [], row.2.1)) := by
  decide

theorem pySlice_from_pos (xs : List α) (n : Int) (h : 0 < n) : pySlice xs (some n) none = xs.drop n.toNat := by
  unfold pySlice normBound seg
  have : ¬ n < 0 := by omega
  simp only [this, if_false]
  by_cases hl : n.toNat ≤ xs.length
  · simp [Nat.min_eq_left hl]
  · have hl' : xs.length ≤ n.toNat := by omega
    simp [Nat.min_eq_right hl', List.drop_eq_nil_of_le hl']

theorem pySlice_to_pos (xs : List α) (n : Int) (h : 0 < n) : pySlice xs none (some n) = xs.take n.toNat := by
  unfold pySlice normBound seg
  have : ¬ n < 0 := by omega
  simp only [this, if_false]
  by_cases hl : n.toNat ≤ xs.length
  · simp [Nat.min_eq_left hl]
  · have hl' : xs.length ≤ n.toNat := by omega
    simp [Nat.min_eq_right hl', List.take_of_length_le hl']

theorem pySlice_to_neg (xs : List α) (n : Int) (h : n < 0) : pySlice xs none (some n) = xs.take (xs.length - n.natAbs) := by
  unfold pySlice normBound seg
  simp only [h, if_true, List.drop_zero]
  congr 1
  omega

theorem pySlice_from_neg (xs : List α) (n : Int) (h : n < 0) : pySlice xs (some n) none = xs.drop (xs.length - n.natAbs) := by
  unfold pySlice normBound seg
  simp only [h, if_true, List.take_length]
  congr 1
  omega

/-- **What the documentation says about a list of `-u` values holds of the model for every list and every read**: the cut modifiers that the
    assembly builds from the values, run one after the other, leave exactly `cutsSequentially` — the remaining sequence, and the last removed 5'
    and 3' pieces as `{cut_prefix}` / `{cut_suffix}` (zero values do nothing). `generated_cuts_in_given_order` shows the same function on the
    program's probe runs. -/
theorem model_cuts_are_sequential (names : Names) (cs : List Int) (read : Read) (info : Info) (evs : List Event) :
    ∃ r' i', runModsS names ((cs.filter (· != 0)).map SMod.cut) read info evs = .ok (r', i', evs) ∧
      (i'.cutPrefix.getD [], i'.cutSuffix.getD [], r'.seq) =
        cutsSequentially cs (info.cutPrefix.getD [], info.cutSuffix.getD [], read.seq) := by
  induction cs generalizing read info with
  | nil => exact ⟨read, info, rfl, rfl⟩
  | cons c cs ih =>
    by_cases hc : c = 0
    · subst hc
      simpa [cutsSequentially] using ih read info
    · have hf : ((c :: cs).filter (· != 0)) = c :: cs.filter (· != 0) := by simp [hc]
      rw [hf]
      simp only [List.map_cons, runModsS, applyS]
      by_cases hp : c > 0
      · simp only [hp, if_true, List.append_nil]
        obtain ⟨r', i', h1, h2⟩ := ih (read.slice (some c) none) { info with cutPrefix := some (pySlice read.seq none (some c)) }
        refine ⟨r', i', h1, ?_⟩
        rw [h2]
        simp [cutsSequentially, hp, Read.slice, pySlice_from_pos _ _ hp, pySlice_to_pos _ _ hp]
      · have hn : c < 0 := by omega
        simp only [hp, hn, if_false, if_true, List.append_nil]
        obtain ⟨r', i', h1, h2⟩ := ih (read.slice none (some c)) { info with cutSuffix := some (pySlice read.seq (some c) none) }
        refine ⟨r', i', h1, ?_⟩
        rw [h2]
        simp [cutsSequentially, hp, hn, Read.slice, pySlice_to_neg _ _ hn, pySlice_from_neg _ _ hn]

/-- what the model does with the same values on the same probe read: assembly (`makeModsSingle`), then the modifiers in list order -/
def modelCuts (cuts : List Int) (s : Bytes) : Option (Bytes × Bytes × Bytes) :=
  match makeModsSingle { cut := cuts } [] with
  | .ok mods =>
    match runModsS [] mods ⟨[112], s, none⟩ { original := ⟨[112], s, none⟩ } [] with
    | .ok (r, i, _) => some (i.cutPrefix.getD [], i.cutSuffix.getD [], r.seq)
    | .error _ => none
  | .error _ => none

/-- … which is what the model computes for the same values and probe reads (`cuts_in_given_order` and `runModsS_append` for every option record) -/
theorem generated_cuts_are_model :
    ∀ row ∈ Generated.cutProbes, modelCuts row.1 row.2.1 = some (row.2.2.1, row.2.2.2.1, row.2.2.2.2) := by
  decide

/-- … and it is what the assembly model produces for the corresponding option record -/
theorem generated_stage_order_is_model :
    namesOfMods (makeModsSingle exOpts [exAdapter [65, 67, 71, 84] "A"]) = Generated.stageOrderSingle ∧
    namesOfMods (makeModsSingle exOptsRename [exAdapter [65, 67, 71, 84] "A"]) = Generated.stageOrderSingleRename := by
  decide

/-- paired-end: the routing `(class on R1, class on R2)` of the real pipeline is the documented one and the model's -/
theorem generated_paired_stage_order_is_model :
    namesOfPMods (makeModsPaired (exOptsPaired exOpts) [exAdapter [65, 67, 71, 84] "A"] [exAdapter [84, 84, 84, 84] "B"]) =
      Generated.stageOrderPaired ∧
    namesOfPMods (makeModsPaired (exOptsPaired exOptsRename) [exAdapter [65, 67, 71, 84] "A"] [exAdapter [84, 84, 84, 84] "B"]) =
      Generated.stageOrderPairedRename ∧
    Generated.stageOrderPaired =
      [("UnconditionalCutter", "None"), ("UnconditionalCutter", "None"), ("None", "UnconditionalCutter"), ("None", "UnconditionalCutter"),
       ("NextseqQualityTrimmer", "NextseqQualityTrimmer"), ("QualityTrimmer", "QualityTrimmer"), ("AdapterCutter", "AdapterCutter"),
       ("PolyATrimmer", "PolyATrimmer"), ("Shortener", "Shortener"), ("NEndTrimmer", "NEndTrimmer"),
       ("LengthTagModifier", "LengthTagModifier"), ("SuffixRemover", "SuffixRemover"), ("PrefixSuffixAdder", "PrefixSuffixAdder"),
       ("ZeroCapper", "ZeroCapper")] := by
  decide

/-- **Step order (C11)**: the real pipeline writes rest/info/wildcard files first, then filters in the documented order, then the sink -/
theorem generated_step_order_is_documented :
    Generated.stepOrderSingle =
      ["RestFileWriter", "InfoFileWriter", "WildcardFileWriter", "too_short", "too_long", "too_many_n", "too_many_expected_errors",
       "too_high_average_error_rate", "casava_filtered", "discard_untrimmed", "SingleEndSink"] := by
  decide

/-! ## Non-vacuity -/

/-- options in "wrong" order on the command line do not matter: the record has no order; a bare `-l 5 -u 2` pipeline cuts first -/
example : namesOfMods (makeModsSingle { length := some 5, cut := [2] } []) = ["UnconditionalCutter", "Shortener"] := by decide
/-- `-u 3 -u 4` (same sign) is rejected -/
example : namesOfMods (makeModsSingle { cut := [3, 4] } []) = ["error"] := by decide
/-- `-Q 0`: R1 keeps its trimmer, R2 has none -/
example : namesOfPMods (makeModsPaired { paired := true, qualityCutoff := some (some (0, 20)), qualityCutoff2 := some none } [] []) =
    [("QualityTrimmer", "None")] := by decide
/-- `-L` alone: R2 only -/
example : namesOfPMods (makeModsPaired { paired := true, length2 := some 30 } [] []) = [("None", "Shortener")] := by decide

end Cutadapt.C10
