import Cutadapt.Stats
namespace Cutadapt.C10
end Cutadapt.C10
