import Cutadapt.Properties.C01
import Cutadapt.Proofs.MatchSoundComplete
/-! # C02 — admissible occurrences within the tolerance are found (completeness of `match_to`)

An *occurrence* (`Occ`) is stated in the documented vocabulary only: placement rule of the adapter type, minimum
overlap, edit distance `d` between the two intervals under the documented wildcard rules, `d` within the tolerance on
the non-N aligned adapter bases. The theorems rest on exactness of the banded DP (`Proofs/DpExact*.lean`). -/
namespace Cutadapt.C02
open Cutadapt Cutadapt.Align Cutadapt.Spec Cutadapt.Generated Cutadapt.Adapters Cutadapt.MatchSound Cutadapt.C01

/-- adapter interval `[as, ae)` occurs in read interval `[rs, re)` with `d` errors, admissibly placed and within tolerance -/
def Occ (a : Adapter) (read : Bytes) (as ae rs re d : Nat) : Prop :=
  Placement (docType a.ty) a.seq.length read.length as ae rs re ∧
  a.minOverlap ≤ ae - as ∧
  (as ≤ ae ∧ ae ≤ a.seq.length ∧ rs ≤ re ∧ re ≤ read.length) ∧
  IsDist (docMatch a.adapterWildcards a.readWildcards) (indelCost a) (seg a.seq as ae) (seg read rs re) d ∧
  d ≤ a.thr (Spec.effLen a.adapterWildcards a.seq as ae)

/-- maximum error rate below 1: `⌊L·rate⌋ < L` for `L > 0` -/
def RateLtOne (a : Adapter) : Prop := a.thr 0 = 0 ∧ ∀ L, 0 < L → a.thr L < L

/-- adapter types whose aligner cannot skip the beginning of the adapter (`rightmostFront` runs on reversed strings) -/
def noRefSkip : AdapterType → Bool
  | .back | .nonInternalBack | .suffix | .prefix | .rightmostFront => true
  | _ => false

theorem occ_raw {a : Adapter} {read : Bytes} {as ae rs re d : Nat} (h : Occ a read as ae rs re d) :
    RawSound a.adapterWildcards a.readWildcards (indelCost a) a.thr a.minOverlap a.seq read as ae rs re d := by
  obtain ⟨_, hov, hb, ⟨⟨s, hl, hr, hc⟩, _⟩, htol⟩ := h
  exact ⟨hb, hov, ⟨s, hl, hr, Nat.le_of_eq hc⟩, htol⟩

theorem alignment_complete (a : Adapter) (read : Bytes) (h : AdapterWF a) (hmo : 1 ≤ a.minOverlap)
    {as ae rs re d : Nat} (hocc : Occ a read as ae rs re d)
    (hmode : d < indelCost a ∨ (a.indels = true ∧ noRefSkip a.ty = true ∧ RateLtOne a)) :
    alignment a read ≠ none := by
  have hraw := occ_raw hocc
  obtain ⟨hpl, _, hb, _, _⟩ := hocc
  obtain ⟨hup, hmono, hforce, hanch⟩ := h
  obtain ⟨ty, seq, thr, mo, rw, aw, indels, force, name⟩ := a
  simp only at hup hmono hforce hanch hmo hraw hpl hb hmode ⊢
  subst hforce
  cases ty
  case front =>
    obtain ⟨p1, p2⟩ := hpl
    refine locate_complete _ _ seq read rfl hup hmono hmo hraw (.inr (by flagbit)) (.inr (by flagbit)) p2
      (.inl p1) (.inr (by flagbit)) (.inl p1) ?_
    rcases hmode with h | ⟨_, h, _⟩
    · exact .inr h
    · cases h
  case back =>
    obtain ⟨p1, p2⟩ := hpl
    refine locate_complete _ _ seq read rfl hup hmono hmo hraw (.inl p1) (.inr (by flagbit)) (.inl p1)
      (.inr (by flagbit)) (.inr (by flagbit)) p2 ?_
    rcases hmode with h | ⟨_, _, h⟩
    · exact .inr h
    · exact .inl ⟨by flagbit, h⟩
  case anywhere =>
    obtain ⟨p1, p2⟩ := hpl
    have hn : (read.map asciiUpper).length = read.length := List.length_map ..
    refine locate_complete _ _ seq (read.map asciiUpper) rfl hup hmono hmo hraw.toUpperRead (.inr (by flagbit))
      (.inr (by flagbit)) p1 (.inr (by flagbit)) (.inr (by flagbit)) (by rw [hn]; exact p2) ?_
    rcases hmode with h | ⟨_, h, _⟩
    · exact .inr h
    · cases h
  case nonInternalFront =>
    obtain ⟨p1, p2⟩ := hpl
    refine locate_complete _ _ seq read rfl hup hmono hmo hraw (.inr (by flagbit)) (.inl p2) (.inr p2)
      (.inl p1) (.inr (by flagbit)) (.inl p1) ?_
    rcases hmode with h | ⟨_, h, _⟩
    · exact .inr h
    · cases h
  case nonInternalBack =>
    obtain ⟨p1, p2⟩ := hpl
    refine locate_complete _ _ seq read rfl hup hmono hmo hraw (.inl p1) (.inr (by flagbit)) (.inl p1)
      (.inr (by flagbit)) (.inl p2) (.inr p2) ?_
    rcases hmode with h | ⟨_, _, h⟩
    · exact .inr h
    · exact .inl ⟨by flagbit, h⟩
  case rightmostFront =>
    obtain ⟨p1, p2⟩ := hpl
    have hloc : locate (alignerCfg (⟨.rightmostFront, seq, thr, mo, rw, aw, indels, false, name⟩ : Adapter)
        (flagsOf (⟨.rightmostFront, seq, thr, mo, rw, aw, indels, false, name⟩ : Adapter)))
        seq.reverse read.reverse ≠ none := by
      refine locate_complete ⟨.rightmostFront, seq, thr, mo, rw, aw, indels, false, name⟩ _ seq.reverse read.reverse
        (by simp) (by simpa using hup) hmono hmo hraw.toReverse (.inl (by omega)) (.inr (by flagbit))
        (.inl (by omega)) (.inr (by flagbit)) (.inr (by flagbit)) ?_ ?_
      · simp only [List.length_reverse]
        rcases p2 with h | h
        · left; omega
        · right; omega
      · rcases hmode with h | ⟨_, _, h⟩
        · exact .inr h
        · exact .inl ⟨by flagbit, h⟩
    simp only [alignment]
    split
    · next hn => exact absurd hn hloc
    · simp
  case «prefix» =>
    obtain ⟨p1, p2, p3⟩ := hpl
    subst p1 p2 p3
    cases indels
    · rcases hmode with h | ⟨h, _, _⟩
      · exact comparePrefix_complete _ _ seq read hup (hanch rfl) hraw h
      · cases h
    · refine locate_complete _ _ seq read rfl hup hmono hmo hraw (.inl rfl) (.inl rfl) (.inl rfl)
        (.inl rfl) (.inr (by flagbit)) (.inl rfl) ?_
      rcases hmode with h | ⟨_, _, h⟩
      · exact .inr h
      · exact .inl ⟨by flagbit, h⟩
  case suffix =>
    obtain ⟨p1, p2, p3⟩ := hpl
    subst p1 p2 p3
    cases indels
    · rcases hmode with h | ⟨h, _, _⟩
      · have hrev := hraw.toReverse
        simp only [Nat.sub_self, Nat.sub_zero] at hrev
        have := comparePrefix_complete ⟨.suffix, seq, thr, mo, rw, aw, false, false, name⟩ _ seq.reverse read.reverse
          (by simpa using hup) (by rw [List.length_reverse]; exact hanch rfl)
          (by rw [List.length_reverse]; exact hrev) h
        exact compareSuffix_ne_none this
      · cases h
    · refine locate_complete _ _ seq read rfl hup hmono hmo hraw (.inl rfl) (.inr (by flagbit)) (.inl rfl)
        (.inl rfl) (.inl rfl) (.inl rfl) ?_
      rcases hmode with h | ⟨_, _, h⟩
      · exact .inr h
      · exact .inl ⟨by flagbit, h⟩


theorem matchTo_ne_none {a : Adapter} {read : Bytes} (h : alignment a read ≠ none) : matchTo a read ≠ none := by
  unfold matchTo
  split
  · next hn => exact absurd hn h
  · simp

/-- an error-free admissible occurrence is always reported (all eight types, indels on or off) -/
theorem exact_occurrence_found (a : Adapter) (read : Bytes) (h : AdapterWF a) (hmo : 1 ≤ a.minOverlap)
    (hocc : ∃ as ae rs re, Occ a read as ae rs re 0) : matchTo a read ≠ none := by
  obtain ⟨as, ae, rs, re, hocc⟩ := hocc
  exact matchTo_ne_none (alignment_complete a read h hmo hocc (.inl (indelCost_pos a)))

/-- with indels disabled every admissible occurrence within the tolerance is reported (all eight types) -/
theorem noindel_complete (a : Adapter) (read : Bytes) (h : AdapterWF a) (hmo : 1 ≤ a.minOverlap)
    (hi : a.indels = false) (hlen : a.seq.length < indelCostOff) (hthr : ∀ L, a.thr L ≤ L)
    (hocc : ∃ as ae rs re d, Occ a read as ae rs re d) : matchTo a read ≠ none := by
  obtain ⟨as, ae, rs, re, d, hocc⟩ := hocc
  refine matchTo_ne_none (alignment_complete a read h hmo hocc (.inl ?_))
  have hcost : indelCost a = indelCostOff := by unfold indelCost; rw [hi]; rfl
  obtain ⟨_, _, ⟨_, b2, _, _⟩, _, htol⟩ := hocc
  have := hthr (Spec.effLen a.adapterWildcards a.seq as ae)
  have := spec_effLen_le a.adapterWildcards a.seq as ae b2
  omega

/-- with indels, every admissible occurrence within the tolerance is reported for the adapter types that cannot skip
    the beginning of the adapter (error rate below 1) -/
theorem indel_complete (a : Adapter) (read : Bytes) (h : AdapterWF a) (hmo : 1 ≤ a.minOverlap)
    (hi : a.indels = true) (hty : noRefSkip a.ty = true) (hrate : RateLtOne a)
    (hocc : ∃ as ae rs re d, Occ a read as ae rs re d) : matchTo a read ≠ none := by
  obtain ⟨as, ae, rs, re, d, hocc⟩ := hocc
  exact matchTo_ne_none (alignment_complete a read h hmo hocc (.inr ⟨hi, hty, hrate⟩))

end Cutadapt.C02
