import Cutadapt.Properties.C01
import Cutadapt.Proofs.MatchSoundCut
/-! # C02 — admissible occurrences within the tolerance are found (completeness of `match_to`)

An *occurrence* (`Occ`) is stated in the documented vocabulary only: placement rule of the adapter type, minimum
overlap, edit distance `d` between the two intervals under the documented wildcard rules, `d` within the tolerance on
the non-N aligned adapter bases. The theorems rest on exactness of the banded DP (`Proofs/DpExact*.lean`). -/
namespace Cutadapt.C02
open Cutadapt Cutadapt.Align Cutadapt.Spec Cutadapt.Generated Cutadapt.Adapters Cutadapt.MatchSound Cutadapt.C01
open Cutadapt.Align.Exact

/-- adapter interval `[as, ae)` occurs in read interval `[rs, re)` with `d` errors, admissibly placed and within tolerance -/
def Occ (a : Adapter) (read : Bytes) (as ae rs re d : Nat) : Prop :=
  Placement (docType a.ty) a.seq.length read.length as ae rs re ∧
  a.minOverlap ≤ ae - as ∧
  (as ≤ ae ∧ ae ≤ a.seq.length ∧ rs ≤ re ∧ re ≤ read.length) ∧
  IsDist (docMatch a.adapterWildcards a.readWildcards) (indelCost a) (seg a.seq as ae) (seg read rs re) d ∧
  d ≤ a.thr (Spec.effLen a.adapterWildcards a.seq as ae)

/-- maximum error rate below 1: `⌊L·rate⌋ < L` for `L > 0` -/
def RateLtOne (a : Adapter) : Prop := a.thr 0 = 0 ∧ ∀ L, 0 < L → a.thr L < L

/-- adapter types whose aligner cannot skip the beginning of the adapter (`rightmostFront` runs on reversed strings) -/
def noRefSkip : AdapterType → Bool
  | .back | .nonInternalBack | .suffix | .prefix | .rightmostFront => true
  | _ => false

theorem occ_raw {a : Adapter} {read : Bytes} {as ae rs re d : Nat} (h : Occ a read as ae rs re d) :
    RawSound a.adapterWildcards a.readWildcards (indelCost a) a.thr a.minOverlap a.seq read as ae rs re d := by
  obtain ⟨_, hov, hb, ⟨⟨s, hl, hr, hc⟩, _⟩, htol⟩ := h
  exact ⟨hb, hov, ⟨s, hl, hr, Nat.le_of_eq hc⟩, htol⟩

theorem alignment_complete (a : Adapter) (read : Bytes) (h : AdapterWF a) (hmo : 1 ≤ a.minOverlap)
    {as ae rs re d : Nat} (hocc : Occ a read as ae rs re d)
    (hmode : d < indelCost a ∨ (a.indels = true ∧ noRefSkip a.ty = true ∧ RateLtOne a)) :
    alignment a read ≠ none := by
  have hraw := occ_raw hocc
  obtain ⟨hpl, _, hb, _, _⟩ := hocc
  obtain ⟨hup, hmono, hforce, hanch⟩ := h
  obtain ⟨ty, seq, thr, mo, rw, aw, indels, force, name⟩ := a
  simp only at hup hmono hforce hanch hmo hraw hpl hb hmode ⊢
  subst hforce
  cases ty
  case front =>
    obtain ⟨p1, p2⟩ := hpl
    refine locate_complete _ _ seq read rfl hup hmono hmo hraw (.inr (by flagbit)) (.inr (by flagbit)) p2
      (.inl p1) (.inr (by flagbit)) (.inl p1) ?_
    rcases hmode with h | ⟨_, h, _⟩
    · exact .inr h
    · cases h
  case back =>
    obtain ⟨p1, p2⟩ := hpl
    refine locate_complete _ _ seq read rfl hup hmono hmo hraw (.inl p1) (.inr (by flagbit)) (.inl p1)
      (.inr (by flagbit)) (.inr (by flagbit)) p2 ?_
    rcases hmode with h | ⟨_, _, h⟩
    · exact .inr h
    · exact .inl ⟨by flagbit, h⟩
  case anywhere =>
    obtain ⟨p1, p2⟩ := hpl
    have hn : (read.map asciiUpper).length = read.length := List.length_map ..
    refine locate_complete _ _ seq (read.map asciiUpper) rfl hup hmono hmo hraw.toUpperRead (.inr (by flagbit))
      (.inr (by flagbit)) p1 (.inr (by flagbit)) (.inr (by flagbit)) (by rw [hn]; exact p2) ?_
    rcases hmode with h | ⟨_, h, _⟩
    · exact .inr h
    · cases h
  case nonInternalFront =>
    obtain ⟨p1, p2⟩ := hpl
    refine locate_complete _ _ seq read rfl hup hmono hmo hraw (.inr (by flagbit)) (.inl p2) (.inr p2)
      (.inl p1) (.inr (by flagbit)) (.inl p1) ?_
    rcases hmode with h | ⟨_, h, _⟩
    · exact .inr h
    · cases h
  case nonInternalBack =>
    obtain ⟨p1, p2⟩ := hpl
    refine locate_complete _ _ seq read rfl hup hmono hmo hraw (.inl p1) (.inr (by flagbit)) (.inl p1)
      (.inr (by flagbit)) (.inl p2) (.inr p2) ?_
    rcases hmode with h | ⟨_, _, h⟩
    · exact .inr h
    · exact .inl ⟨by flagbit, h⟩
  case rightmostFront =>
    obtain ⟨p1, p2⟩ := hpl
    have hloc : locate (alignerCfg (⟨.rightmostFront, seq, thr, mo, rw, aw, indels, false, name⟩ : Adapter)
        (flagsOf (⟨.rightmostFront, seq, thr, mo, rw, aw, indels, false, name⟩ : Adapter)))
        seq.reverse read.reverse ≠ none := by
      refine locate_complete ⟨.rightmostFront, seq, thr, mo, rw, aw, indels, false, name⟩ _ seq.reverse read.reverse
        (by simp) (by simpa using hup) hmono hmo hraw.toReverse (.inl (by omega)) (.inr (by flagbit))
        (.inl (by omega)) (.inr (by flagbit)) (.inr (by flagbit)) ?_ ?_
      · simp only [List.length_reverse]
        rcases p2 with h | h
        · left; omega
        · right; omega
      · rcases hmode with h | ⟨_, _, h⟩
        · exact .inr h
        · exact .inl ⟨by flagbit, h⟩
    simp only [alignment]
    split
    · next hn => exact absurd hn hloc
    · simp
  case «prefix» =>
    obtain ⟨p1, p2, p3⟩ := hpl
    subst p1 p2 p3
    cases indels
    · rcases hmode with h | ⟨h, _, _⟩
      · exact comparePrefix_complete _ _ seq read hup (hanch rfl) hraw h
      · cases h
    · refine locate_complete _ _ seq read rfl hup hmono hmo hraw (.inl rfl) (.inl rfl) (.inl rfl)
        (.inl rfl) (.inr (by flagbit)) (.inl rfl) ?_
      rcases hmode with h | ⟨_, _, h⟩
      · exact .inr h
      · exact .inl ⟨by flagbit, h⟩
  case suffix =>
    obtain ⟨p1, p2, p3⟩ := hpl
    subst p1 p2 p3
    cases indels
    · rcases hmode with h | ⟨h, _, _⟩
      · have hrev := hraw.toReverse
        simp only [Nat.sub_self, Nat.sub_zero] at hrev
        have := comparePrefix_complete ⟨.suffix, seq, thr, mo, rw, aw, false, false, name⟩ _ seq.reverse read.reverse
          (by simpa using hup) (by rw [List.length_reverse]; exact hanch rfl)
          (by rw [List.length_reverse]; exact hrev) h
        exact compareSuffix_ne_none this
      · cases h
    · refine locate_complete _ _ seq read rfl hup hmono hmo hraw (.inl rfl) (.inr (by flagbit)) (.inl rfl)
        (.inl rfl) (.inl rfl) (.inl rfl) ?_
      rcases hmode with h | ⟨_, _, h⟩
      · exact .inr h
      · exact .inl ⟨by flagbit, h⟩


theorem matchTo_ne_none {a : Adapter} {read : Bytes} (h : alignment a read ≠ none) : matchTo a read ≠ none := by
  unfold matchTo
  split
  · next hn => exact absurd hn h
  · simp

/-- an error-free admissible occurrence is always reported (all eight types, indels on or off) -/
theorem exact_occurrence_found (a : Adapter) (read : Bytes) (h : AdapterWF a) (hmo : 1 ≤ a.minOverlap)
    (hocc : ∃ as ae rs re, Occ a read as ae rs re 0) : matchTo a read ≠ none := by
  obtain ⟨as, ae, rs, re, hocc⟩ := hocc
  exact matchTo_ne_none (alignment_complete a read h hmo hocc (.inl (indelCost_pos a)))

/-- with indels disabled every admissible occurrence within the tolerance is reported (all eight types) -/
theorem noindel_complete (a : Adapter) (read : Bytes) (h : AdapterWF a) (hmo : 1 ≤ a.minOverlap)
    (hi : a.indels = false) (hlen : a.seq.length < indelCostOff) (hthr : ∀ L, a.thr L ≤ L)
    (hocc : ∃ as ae rs re d, Occ a read as ae rs re d) : matchTo a read ≠ none := by
  obtain ⟨as, ae, rs, re, d, hocc⟩ := hocc
  refine matchTo_ne_none (alignment_complete a read h hmo hocc (.inl ?_))
  have hcost : indelCost a = indelCostOff := by unfold indelCost; rw [hi]; rfl
  obtain ⟨_, _, ⟨_, b2, _, _⟩, _, htol⟩ := hocc
  have := hthr (Spec.effLen a.adapterWildcards a.seq as ae)
  have := spec_effLen_le a.adapterWildcards a.seq as ae b2
  omega

/-- with indels, every admissible occurrence within the tolerance is reported for the adapter types that cannot skip
    the beginning of the adapter (error rate below 1) -/
theorem indel_complete (a : Adapter) (read : Bytes) (h : AdapterWF a) (hmo : 1 ≤ a.minOverlap)
    (hi : a.indels = true) (hty : noRefSkip a.ty = true) (hrate : RateLtOne a)
    (hocc : ∃ as ae rs re d, Occ a read as ae rs re d) : matchTo a read ≠ none := by
  obtain ⟨as, ae, rs, re, d, hocc⟩ := hocc
  exact matchTo_ne_none (alignment_complete a read h hmo hocc (.inr ⟨hi, hty, hrate⟩))


/-! ### an error-free anchored adapter is removed exactly -/

/-- an encoded zero-cost script from a documented position-by-position match -/
theorem encoded_exact (a : Adapter) (flags : Nat) (hup : ∀ c ∈ a.seq, ¬ (97 ≤ c ∧ c ≤ 122)) (read : Bytes)
    (rs : Nat) (hrs : rs + a.seq.length ≤ read.length)
    (hex : hamming (docMatch a.adapterWildcards a.readWildcards) a.seq (seg read rs (rs + a.seq.length)) = 0) :
    ∃ s, lhs s = seg (encodeRef (alignerCfg a flags) a.seq) 0 a.seq.length ∧
      rhs s = seg (encodeQuery (alignerCfg a flags) read) rs (rs + a.seq.length) ∧
      cost (alignerCfg a flags).eq (alignerCfg a flags).indelCost s = 0 := by
  obtain ⟨s, hl, hr, hc⟩ := sub_script (docMatch a.adapterWildcards a.readWildcards) (indelCost a) a.seq
    (seg read rs (rs + a.seq.length)) (by rw [seg_length' _ _ _ hrs]; omega)
  obtain ⟨h1, h2, h3⟩ := script_map (encR a.adapterWildcards a.readWildcards) (encQ a.adapterWildcards a.readWildcards)
    (alignerCfg a flags).eq (docMatch a.adapterWildcards a.readWildcards) (indelCost a) s
    (fun x hx y => docMatch_eq_aligner _ _ x y (hup x (by rw [hl] at hx; exact hx)))
  refine ⟨s.map (Op.map (encR a.adapterWildcards a.readWildcards) (encQ a.adapterWildcards a.readWildcards)),
    ?_, ?_, ?_⟩
  · rw [h1, hl, encodeRef_eq_map, seg_map, seg_zero_length]; rfl
  · rw [h2, hr, encodeQuery_eq_map, seg_map]; rfl
  · show cost _ (indelCost a) _ = 0
    rw [h3, hc, hex]

theorem comparePrefix_exact (a : Adapter) (seq read : Bytes) (hmo : a.minOverlap = seq.length)
    (hmn : seq.length ≤ read.length)
    (hex : hamming (docMatch a.adapterWildcards a.readWildcards) seq (seg read 0 seq.length) = 0) :
    comparePrefix (cmpCfg a) seq read = some (0, seq.length, 0, seq.length, (seq.length : Int), 0) := by
  unfold comparePrefix
  simp only [cmpEncodeRef_eq_map, cmpEncodeQuery_eq_map, List.length_map]
  have hmm := mismatches_map (!(cmpCfg a).wildQuery && !(cmpCfg a).wildRef) (cencR (cmpCfg a).wildRef (cmpCfg a).wildQuery)
    (encQ (cmpCfg a).wildRef (cmpCfg a).wildQuery) (docMatch a.adapterWildcards a.readWildcards)
    (fun x y => docMatch_eq_comparer a.adapterWildcards a.readWildcards x y) seq read
  have hseg : seg read 0 seq.length = read.take seq.length := by simp [seg]
  rw [hmm, hamming_take, ← hseg, hex]
  have hmo' : (cmpCfg a).minOverlap = seq.length := hmo
  have hmin : min seq.length read.length = seq.length := by omega
  rw [hmo', hmin]
  simp [matchScore, mismatchScore]

/-- an error-free copy of an anchored 5' adapter at the start of the read is removed exactly -/
theorem anchored5_exact_removed_exactly (a : Adapter) (read : Bytes) (h : AdapterWF a) (hty : a.ty = .prefix)
    (hm : 1 ≤ a.seq.length) (hmn : a.seq.length ≤ read.length)
    (hex : hamming (docMatch a.adapterWildcards a.readWildcards) a.seq (seg read 0 a.seq.length) = 0) :
    matchTo a read = some ⟨0, a.seq.length, 0, a.seq.length, (a.seq.length : Int), 0, true⟩ := by
  obtain ⟨hup, hmono, hforce, hanch⟩ := h
  obtain ⟨ty, seq, thr, mo, rw, aw, indels, force, name⟩ := a
  simp only at hup hmono hforce hanch hty hm hmn hex ⊢
  subst hty hforce
  have hmo : mo = seq.length := hanch rfl
  have hal : alignment ⟨.prefix, seq, thr, mo, rw, aw, indels, false, name⟩ read
      = some (0, seq.length, 0, seq.length, (seq.length : Int), 0) := by
    cases indels
    · exact comparePrefix_exact _ seq read hmo hmn hex
    · have hwf : (alignerCfg ⟨.prefix, seq, thr, mo, rw, aw, true, false, name⟩ wherePrefix).WF seq.length :=
        ⟨indelCost_pos ⟨.prefix, seq, thr, mo, rw, aw, true, false, name⟩, hmono, rfl⟩
      have hexE := encoded_exact ⟨.prefix, seq, thr, mo, rw, aw, true, false, name⟩ wherePrefix hup read 0
        (by simpa using hmn) (by simpa using hex)
      simp only [Nat.zero_add] at hexE
      exact locate_prefix_exact _ seq read hwf (by flagbit) (by flagbit) (by flagbit)
        (by show mo ≤ seq.length; omega) hm hmn hexE
  unfold matchTo
  rw [hal]
  rfl

/-- an error-free copy of an anchored 3' adapter at the end of the read is removed exactly -/
theorem anchored3_exact_removed_exactly (a : Adapter) (read : Bytes) (h : AdapterWF a) (hty : a.ty = .suffix)
    (hm : 1 ≤ a.seq.length) (hmn : a.seq.length ≤ read.length)
    (hex : hamming (docMatch a.adapterWildcards a.readWildcards) a.seq
      (seg read (read.length - a.seq.length) read.length) = 0) :
    matchTo a read = some ⟨0, a.seq.length, read.length - a.seq.length, read.length, (a.seq.length : Int), 0, false⟩ := by
  obtain ⟨hup, hmono, hforce, hanch⟩ := h
  obtain ⟨ty, seq, thr, mo, rw, aw, indels, force, name⟩ := a
  simp only at hup hmono hforce hanch hty hm hmn hex ⊢
  subst hty hforce
  have hmo : mo = seq.length := hanch rfl
  have hal : alignment ⟨.suffix, seq, thr, mo, rw, aw, indels, false, name⟩ read
      = some (0, seq.length, read.length - seq.length, read.length, (seq.length : Int), 0) := by
    cases indels
    · have hrev : hamming (docMatch aw rw) seq.reverse (seg read.reverse 0 seq.reverse.length) = 0 := by
        rw [List.length_reverse, seg_reverse _ _ _ (Nat.zero_le _) hmn, Nat.sub_zero,
          hamming_reverse _ _ _ (by rw [seg_length' _ _ _ (Nat.le_refl _)]; omega)]
        exact hex
      have := comparePrefix_exact ⟨.suffix, seq, thr, mo, rw, aw, false, false, name⟩ seq.reverse read.reverse
        (by rw [List.length_reverse]; exact hmo) (by simpa using hmn) hrev
      simp only [alignment, Bool.not_false, if_true, compareSuffix, this, List.length_reverse, Nat.sub_self]
    · have hwf : (alignerCfg ⟨.suffix, seq, thr, mo, rw, aw, true, false, name⟩ whereSuffix).WF seq.length :=
        ⟨indelCost_pos ⟨.suffix, seq, thr, mo, rw, aw, true, false, name⟩, hmono, rfl⟩
      have hexE := encoded_exact ⟨.suffix, seq, thr, mo, rw, aw, true, false, name⟩ whereSuffix hup read
        (read.length - seq.length) (by simp only; omega)
        (by simp only; rw [Nat.sub_add_cancel hmn]; exact hex)
      simp only [Nat.sub_add_cancel hmn] at hexE
      exact locate_suffix_exact _ seq read hwf (by flagbit) (by flagbit) (by flagbit) (by flagbit)
        (by show mo ≤ seq.length; omega) hm hmn hexE
  unfold matchTo
  rw [hal]
  rfl


/-! ### where the cut falls relative to error-free copies of the adapter -/

/-- A regular 3' adapter is cut at or before the leftmost error-free full copy (so no such copy survives). -/
theorem back_cut_before_leftmost_copy (a : Adapter) (read : Bytes) (h : AdapterWF a) (hty : a.ty = .back)
    (hm : 1 ≤ a.seq.length) (hmo : a.minOverlap ≤ a.seq.length) {p : Nat} (hpn : p + a.seq.length ≤ read.length)
    (hcopy : hamming (docMatch a.adapterWildcards a.readWildcards) a.seq (seg read p (p + a.seq.length)) = 0)
    (hleast : ∀ p', p' < p →
      hamming (docMatch a.adapterWildcards a.readWildcards) a.seq (seg read p' (p' + a.seq.length)) ≠ 0) :
    ∃ mt, matchTo a read = some mt ∧ mt.rstart ≤ p := by
  obtain ⟨hup, hmono, hforce, hanch⟩ := h
  obtain ⟨ty, seq, thr, mo, rw, aw, indels, force, name⟩ := a
  simp only at hup hmono hforce hanch hty hm hmo hpn hcopy hleast ⊢
  subst hty hforce
  obtain ⟨as, ae, rs, re, sc, e, hloc, hrs, _⟩ := locate_cut_doc ⟨.back, seq, thr, mo, rw, aw, indels, false, name⟩
    whereBack seq read rfl hup hmono (by flagbit) (by flagbit) hm hmo hpn hcopy hleast
  have hal : alignment ⟨.back, seq, thr, mo, rw, aw, indels, false, name⟩ read = some (as, ae, rs, re, sc, e) := hloc
  exact ⟨_, by unfold matchTo; rw [hal], hrs⟩

/-- A regular 5' adapter is cut at or before the end of the leftmost error-free full copy. -/
theorem front_cut_before_end_of_leftmost_copy (a : Adapter) (read : Bytes) (h : AdapterWF a) (hty : a.ty = .front)
    (hm : 1 ≤ a.seq.length) (hmo : a.minOverlap ≤ a.seq.length) {p : Nat} (hpn : p + a.seq.length ≤ read.length)
    (hcopy : hamming (docMatch a.adapterWildcards a.readWildcards) a.seq (seg read p (p + a.seq.length)) = 0)
    (hleast : ∀ p', p' < p →
      hamming (docMatch a.adapterWildcards a.readWildcards) a.seq (seg read p' (p' + a.seq.length)) ≠ 0) :
    ∃ mt, matchTo a read = some mt ∧ mt.rstop ≤ p + a.seq.length := by
  obtain ⟨hup, hmono, hforce, hanch⟩ := h
  obtain ⟨ty, seq, thr, mo, rw, aw, indels, force, name⟩ := a
  simp only at hup hmono hforce hanch hty hm hmo hpn hcopy hleast ⊢
  subst hty hforce
  obtain ⟨as, ae, rs, re, sc, e, hloc, _, hre⟩ := locate_cut_doc ⟨.front, seq, thr, mo, rw, aw, indels, false, name⟩
    whereFront seq read rfl hup hmono (by flagbit) (by flagbit) hm hmo hpn hcopy hleast
  have hal : alignment ⟨.front, seq, thr, mo, rw, aw, indels, false, name⟩ read = some (as, ae, rs, re, sc, e) := hloc
  exact ⟨_, by unfold matchTo; rw [hal], hre⟩

/-- A rightmost 5' adapter is cut at or after the end of the rightmost error-free full copy. -/
theorem rightmost_cut_after_rightmost_copy (a : Adapter) (read : Bytes) (h : AdapterWF a)
    (hty : a.ty = .rightmostFront)
    (hm : 1 ≤ a.seq.length) (hmo : a.minOverlap ≤ a.seq.length) {p : Nat} (hpn : p + a.seq.length ≤ read.length)
    (hcopy : hamming (docMatch a.adapterWildcards a.readWildcards) a.seq (seg read p (p + a.seq.length)) = 0)
    (hlast : ∀ p', p < p' → p' + a.seq.length ≤ read.length →
      hamming (docMatch a.adapterWildcards a.readWildcards) a.seq (seg read p' (p' + a.seq.length)) ≠ 0) :
    ∃ mt, matchTo a read = some mt ∧ p + a.seq.length ≤ mt.rstop := by
  obtain ⟨hup, hmono, hforce, hanch⟩ := h
  obtain ⟨ty, seq, thr, mo, rw, aw, indels, force, name⟩ := a
  simp only at hup hmono hforce hanch hty hm hmo hpn hcopy hlast ⊢
  subst hty hforce
  -- copies of the reversed adapter in the reversed read
  have hrev : ∀ q, q + seq.length ≤ read.length →
      hamming (docMatch aw rw) seq.reverse (seg read.reverse q (q + seq.reverse.length)) =
        hamming (docMatch aw rw) seq (seg read (read.length - q - seq.length)
          (read.length - q - seq.length + seq.length)) := by
    intro q hq
    rw [List.length_reverse, seg_reverse _ _ _ (by omega) hq,
      hamming_reverse _ _ _ (by rw [seg_length' _ _ _ (by omega)]; omega)]
    congr 2 <;> omega
  have hq : (read.length - p - seq.length) + seq.reverse.length ≤ read.reverse.length := by
    simp only [List.length_reverse]; omega
  obtain ⟨as, ae, rs, re, sc, e, hloc, hrs, _⟩ := locate_cut_doc
    ⟨.rightmostFront, seq, thr, mo, rw, aw, indels, false, name⟩ whereBack seq.reverse read.reverse
    (by simp) (by simpa using hup) hmono (by flagbit) (by flagbit)
    (by rw [List.length_reverse]; exact hm) (by rw [List.length_reverse]; exact hmo)
    (p := read.length - p - seq.length) hq
    (by
      rw [hrev _ (by omega)]
      have e : read.length - (read.length - p - seq.length) - seq.length = p := by omega
      rw [e]; exact hcopy)
    (by
      intro q hqlt
      rw [hrev _ (by omega)]
      exact hlast _ (by omega) (by omega))
  have hloc' : locate (alignerCfg ⟨.rightmostFront, seq, thr, mo, rw, aw, indels, false, name⟩
      (flagsOf ⟨.rightmostFront, seq, thr, mo, rw, aw, indels, false, name⟩)) seq.reverse read.reverse
      = some (as, ae, rs, re, sc, e) := hloc
  have hal : alignment ⟨.rightmostFront, seq, thr, mo, rw, aw, indels, false, name⟩ read
      = some (seq.length - ae, seq.length - as, read.length - re, read.length - rs, sc, e) := by
    simp only [alignment, hloc']
  refine ⟨_, by unfold matchTo; rw [hal], ?_⟩
  show p + seq.length ≤ read.length - rs
  omega

/-! ### non-vacuity -/

/-- every reported match is an occurrence in the sense of this file (C01 restated) -/
theorem occ_of_match (a : Adapter) (read : Bytes) (mt : SingleMatch) (h : AdapterWF a)
    (hlen : a.indels = false → isAnchored a.ty = true → a.seq.length < indelCostOff)
    (hm : matchTo a read = some mt) : Occ a read mt.astart mt.astop mt.rstart mt.rstop mt.errors := by
  have hs := matchTo_sound a read h mt hm
  exact ⟨hs.placement, hs.overlap, hs.bounds, matchTo_errors_is_distance a read mt h hlen hm, hs.tolerance⟩

/-- an occurrence with one error (a deleted adapter base) of the 3' adapter `ACGTACGTAC` in `TTACGTCGTACGG`, and the
    match that `indel_complete` promises -/
example : Occ (exAdapter .back [65,67,71,84,65,67,71,84,65,67] 3 false false true)
      [84,84,65,67,71,84,67,71,84,65,67,71,71] 0 10 2 11 1 ∧
    matchTo (exAdapter .back [65,67,71,84,65,67,71,84,65,67] 3 false false true)
      [84,84,65,67,71,84,67,71,84,65,67,71,71] = some ⟨0, 10, 2, 11, 7, 1, false⟩ ∧
    RateLtOne (exAdapter .back [65,67,71,84,65,67,71,84,65,67] 3 false false true) := by
  have hm : matchTo (exAdapter .back [65,67,71,84,65,67,71,84,65,67] 3 false false true)
      [84,84,65,67,71,84,67,71,84,65,67,71,71] = some ⟨0, 10, 2, 11, 7, 1, false⟩ := by decide +kernel
  refine ⟨occ_of_match _ _ _ (exAdapter_wf _ _ _ _ _ _ (by decide) (by decide)) (fun h => by cases h) hm, hm, rfl, ?_⟩
  intro L hL
  show L / 5 < L
  omega

/-- an occurrence with one mismatch of the anchored 5' adapter without indels -/
example : Occ (exAdapter .prefix [65,67,71,84,65,67,71,84,65,67] 10 false false false)
      [65,67,71,84,65,67,67,84,65,67,71,71,71] 0 10 0 10 1 :=
  occ_of_match _ _ ⟨0, 10, 0, 10, 8, 1, true⟩ (exAdapter_wf _ _ _ _ _ _ (by decide) (by decide)) (fun _ _ => by decide)
    (by decide +kernel)

end Cutadapt.C02
