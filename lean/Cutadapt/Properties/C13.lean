import Cutadapt.Proofs.Scan
import Cutadapt.Generated.QualWiring
/-! # C13 — quality trimming removes exactly the BWA-defined low-quality ends

Model: `Cutadapt.Qualtrim` (`quality_trim_index`, `nextseq_trim_index` of `src/cutadapt/qualtrim.pyx`).
All theorems hold for every quality string (any length, any bytes), all integer cutoffs and bases. -/
namespace Cutadapt.C13
open Cutadapt Cutadapt.Qualtrim

/-- `S d i = Σ_{t ≥ i} d_t` where `d_t = cutoff − quality_t`: minus the sum of (quality − cutoff) over the suffix. -/
def sufSum (d : List Int) (i : Nat) : Int := (d.drop i).sum

/-- the 3' scan, going down from the end, arrives at index `i` without stopping:
    no running sum of (quality − cutoff) over `t..n` with `t ≥ i` has become positive -/
def ReachBack (d : List Int) (i : Nat) : Prop := ∀ t, i ≤ t → t < d.length → 0 ≤ sufSum d t

theorem pre_reverse (d : List Int) (k : Nat) (_hk : k ≤ d.length) : pre d.reverse k = sufSum d (d.length - k) := by
  unfold pre sufSum
  rw [List.take_reverse, List.sum_reverse]

/-- Generic 3' statement for a list of values `d` (in read order): the index
    `n − bestPrefix d.reverse` is the **largest** index among `n` and the reachable indices that maximises the
    suffix sum `S` (equivalently: minimises Σ (quality − cutoff) over the suffix, shortest suffix on ties,
    scan stopped where the running sum becomes positive). -/
theorem back_spec (d : List Int) :
    let stop := d.length - bestPrefix d.reverse
    stop ≤ d.length ∧ ReachBack d stop ∧
    (∀ i, i ≤ d.length → ReachBack d i → sufSum d i ≤ sufSum d stop) ∧
    (∀ i, stop < i → i ≤ d.length → sufSum d i < sufSum d stop) := by
  intro stop
  obtain ⟨h1, h2, h3, h4⟩ := bestPrefix_spec d.reverse
  simp only [List.length_reverse] at h1 h3
  have hb : bestPrefix d.reverse = d.length - stop := by omega
  refine ⟨by omega, ?_, ?_, ?_⟩
  · intro t ht htn
    have := h2 (d.length - t) (by omega) (by omega)
    rw [pre_reverse d _ (by omega)] at this
    have e : d.length - (d.length - t) = t := by omega
    rw [e] at this; exact this
  · intro i hi hri
    have hr : Reach d.reverse (d.length - i) := by
      intro t ht1 ht2
      rw [pre_reverse d _ (by omega)]
      exact hri (d.length - t) (by omega) (by omega)
    have := h3 (d.length - i) (by omega) hr
    rw [pre_reverse d _ (by omega), pre_reverse d _ (by omega)] at this
    have e1 : d.length - (d.length - i) = i := by omega
    have e2 : d.length - bestPrefix d.reverse = stop := by omega
    rw [e1, e2] at this; exact this
  · intro i hsi hin
    have := h4 (d.length - i) (by omega)
    rw [pre_reverse d _ (by omega), pre_reverse d _ (by omega)] at this
    have e1 : d.length - (d.length - i) = i := by omega
    have e2 : d.length - bestPrefix d.reverse = stop := by omega
    rw [e1, e2] at this; exact this

/-- **3' quality trimming** (`quality_trim_index`, second loop). -/
theorem trim3_spec (cutoff base : Int) (quals : Bytes) :
    let d := quals.map (dval cutoff base)
    let stop := trim3 cutoff base quals
    stop ≤ quals.length ∧ ReachBack d stop ∧
    (∀ i, i ≤ quals.length → ReachBack d i → sufSum d i ≤ sufSum d stop) ∧
    (∀ i, stop < i → i ≤ quals.length → sufSum d i < sufSum d stop) := by
  have := back_spec (quals.map (dval cutoff base))
  simpa [trim3] using this

/-- **5' quality trimming** (first loop): `start` is the smallest index among `0` and the reachable prefix lengths
    that maximises the prefix sum of `cutoff − quality`. -/
theorem trim5_spec (cutoff base : Int) (quals : Bytes) :
    let d := quals.map (dval cutoff base)
    let start := trim5 cutoff base quals
    start ≤ quals.length ∧ Reach d start ∧
    (∀ j, j ≤ quals.length → Reach d j → pre d j ≤ pre d start) ∧
    (∀ t, t < start → pre d t < pre d start) := by
  have := bestPrefix_spec (quals.map (dval cutoff base))
  simpa [trim5] using this

/-- the two results are combined into one interval, empty if they cross -/
theorem combine (quals : Bytes) (cf cb base : Int) :
    qualityTrimIndex quals cf cb base =
      if trim5 cf base quals < trim3 cb base quals then (trim5 cf base quals, trim3 cb base quals) else (0, 0) := by
  unfold qualityTrimIndex
  by_cases h : trim5 cf base quals < trim3 cb base quals
  · simp [h]; omega
  · simp [h]

/-- the reported interval always lies inside the read -/
theorem interval_in_read (quals : Bytes) (cf cb base : Int) :
    (qualityTrimIndex quals cf cb base).1 ≤ (qualityTrimIndex quals cf cb base).2 ∧
    (qualityTrimIndex quals cf cb base).2 ≤ quals.length := by
  rw [combine]
  have := (trim3_spec cb base quals).1
  split <;> simp <;> omega

theorem pre_nonpos_of_all_nonpos (d : List Int) (h : ∀ v ∈ d, v ≤ 0) (j : Nat) : pre d j ≤ 0 := by
  induction d generalizing j with
  | nil => simp [pre]
  | cons v vs ih =>
    cases j with
    | zero => simp
    | succ j =>
      rw [pre_cons]
      have := ih (fun w hw => h w (List.mem_cons_of_mem _ hw)) j
      have := h v (List.mem_cons_self)
      omega

theorem bestPrefix_zero_of_all_nonpos (d : List Int) (h : ∀ v ∈ d, v ≤ 0) : bestPrefix d = 0 := by
  obtain ⟨_, _, _, h4⟩ := bestPrefix_spec d
  by_cases hz : bestPrefix d = 0
  · exact hz
  · have := h4 0 (by omega)
    have := pre_nonpos_of_all_nonpos d h (bestPrefix d)
    simp at *; omega

theorem pre_pos_step (d : List Int) (h : ∀ v ∈ d, 0 < v) (j : Nat) (hj : j < d.length) : pre d j < pre d (j+1) := by
  induction d generalizing j with
  | nil => simp at hj
  | cons v vs ih =>
    have hv := h v (List.mem_cons_self)
    cases j with
    | zero => rw [pre_cons]; simp; try omega
    | succ j =>
      rw [pre_cons, pre_cons]
      have := ih (fun w hw => h w (List.mem_cons_of_mem _ hw)) j (by simp at hj; omega)
      omega

theorem pre_pos_strict (d : List Int) (h : ∀ v ∈ d, 0 < v) (a b : Nat) (hab : a < b) (hb : b ≤ d.length) :
    pre d a < pre d b := by
  induction b with
  | zero => omega
  | succ b ih =>
    have s := pre_pos_step d h b (by omega)
    by_cases he : a = b
    · subst he; exact s
    · have := ih (by omega) (by omega); omega

theorem bestPrefix_full_of_all_pos (d : List Int) (h : ∀ v ∈ d, 0 < v) : bestPrefix d = d.length := by
  obtain ⟨h1, _, h3, _⟩ := bestPrefix_spec d
  by_cases hz : bestPrefix d = d.length
  · exact hz
  · have hr : Reach d d.length := by
      intro t ht1 ht
      have := pre_pos_strict d h 0 t (by omega) ht
      simp at this; omega
    have := h3 d.length (Nat.le_refl _) hr
    have := pre_pos_strict d h (bestPrefix d) d.length (by omega) (Nat.le_refl _)
    omega

/-- Reads whose qualities are all at or above both cutoffs are left unchanged (`read[start:stop] = read`). -/
theorem all_good_unchanged (quals : Bytes) (cf cb base : Int) (xs : List α) (hx : xs.length = quals.length)
    (hf : ∀ q ∈ quals, cf ≤ (q.toNat : Int) - base) (hb : ∀ q ∈ quals, cb ≤ (q.toNat : Int) - base) :
    seg xs (qualityTrimIndex quals cf cb base).1 (qualityTrimIndex quals cf cb base).2 = xs := by
  have h5 : trim5 cf base quals = 0 := by
    unfold trim5
    apply bestPrefix_zero_of_all_nonpos
    intro v hv
    simp only [List.mem_map] at hv
    obtain ⟨q, hq, rfl⟩ := hv
    have := hf q hq; unfold dval; omega
  have h3 : trim3 cb base quals = quals.length := by
    unfold trim3
    rw [bestPrefix_zero_of_all_nonpos]
    · simp
    · intro v hv
      simp only [List.mem_reverse, List.mem_map] at hv
      obtain ⟨q, hq, rfl⟩ := hv
      have := hb q hq; unfold dval; omega
  rw [combine, h5, h3]
  by_cases hn : 0 < quals.length
  · rw [if_pos hn]; simp [seg, ← hx]
  · have : xs = [] := by
      apply List.eq_nil_of_length_eq_zero; omega
    simp [seg, this]

/-- Reads whose qualities are all below both cutoffs become empty. -/
theorem all_bad_empty (quals : Bytes) (cf cb base : Int)
    (hb : ∀ q ∈ quals, (q.toNat : Int) - base < cb) :
    qualityTrimIndex quals cf cb base = (0, 0) := by
  have h3 : trim3 cb base quals = 0 := by
    unfold trim3
    rw [bestPrefix_full_of_all_pos]
    · simp
    · intro v hv
      simp only [List.mem_reverse, List.mem_map] at hv
      obtain ⟨q, hq, rfl⟩ := hv
      have := hb q hq; unfold dval; omega
  rw [combine, h3]; simp

/-- The quality base only shifts the scale: the result depends on the qualities only through `q − base`. -/
theorem base_shift_invariant (quals quals' : Bytes) (cf cb base base' : Int)
    (h : quals.map (fun q => (q.toNat : Int) - base) = quals'.map (fun q => (q.toNat : Int) - base')) :
    qualityTrimIndex quals cf cb base = qualityTrimIndex quals' cf cb base' := by
  have hl : quals.length = quals'.length := by
    have := congrArg List.length h; simpa using this
  have hd : ∀ c, quals.map (dval c base) = quals'.map (dval c base') := by
    intro c
    have := congrArg (List.map (fun x : Int => c - x)) h
    simp only [List.map_map, Function.comp_def] at this
    exact this
  unfold qualityTrimIndex trim5 trim3
  rw [hd cf, hd cb, hl]

/-- `--nextseq-trim` is the 3' procedure on values in which every `G` has quality `cutoff − 1`
    (value `cutoff − (cutoff − 1)`); other positions use their own quality. -/
theorem nextseq_vals (seq quals : Bytes) (cutoff base : Int) (i : Nat) (h1 : i < seq.length) (h2 : i < quals.length) :
    (nextseqVals seq quals cutoff base)[i]'(by simp [nextseqVals]; omega) =
      if seq[i] = 71 then cutoff - (cutoff - 1) else cutoff - ((quals[i].toNat : Int) - base) := by
  simp [nextseqVals, dval]

theorem nextseq_spec (seq quals : Bytes) (cutoff base : Int) (hl : seq.length = quals.length) :
    let d := nextseqVals seq quals cutoff base
    let stop := nextseqTrimIndex seq quals cutoff base
    stop ≤ quals.length ∧ ReachBack d stop ∧
    (∀ i, i ≤ quals.length → ReachBack d i → sufSum d i ≤ sufSum d stop) ∧
    (∀ i, stop < i → i ≤ quals.length → sufSum d i < sufSum d stop) := by
  have hlen : (nextseqVals seq quals cutoff base).length = quals.length := by
    simp [nextseqVals]; omega
  have := back_spec (nextseqVals seq quals cutoff base)
  simpa [nextseqTrimIndex, hlen] using this

/-- The number of removed bases reported (`trimmed_bases += len(read) − (stop − start)`) equals the number of bases
    actually removed, i.e. `len(read) − len(read[start:stop])`. -/
theorem trimmed_bases_count (quals : Bytes) (cf cb base : Int) (xs : List α) (hx : xs.length = quals.length) :
    let r := qualityTrimIndex quals cf cb base
    (seg xs r.1 r.2).length = r.2 - r.1 ∧ r.2 - r.1 ≤ xs.length := by
  have ⟨a, b⟩ := interval_in_read quals cf cb base
  simp only [seg_length]
  omega


/-! ## Idempotence: trimming the trimmed read again removes nothing -/

theorem sufSum_take (d : List Int) (s t : Nat) (hts : t ≤ s) (hs : s ≤ d.length) :
    sufSum (d.take s) t = sufSum d t - sufSum d s := by
  unfold sufSum
  have h : d.drop t = (d.take s).drop t ++ d.drop s := by
    have : d.drop t = (d.take s ++ d.drop s).drop t := by rw [List.take_append_drop]
    rw [this, List.drop_append_of_le_length (by simp; omega)]
  rw [h, List.sum_append]; omega

theorem sufSum_length (d : List Int) : sufSum d d.length = 0 := by simp [sufSum]

/-- generic idempotence of the 3' scan: on the kept prefix the scan keeps everything (from `back_spec` alone, i.e. it is a consequence
    of the BWA definition and of the tie rule "shortest removed suffix") -/
theorem back_idempotent (d : List Int) (stop : Nat) (hstop : stop = d.length - bestPrefix d.reverse) :
    (d.take stop).length - bestPrefix (d.take stop).reverse = stop := by
  have hd := back_spec d
  have hd' := back_spec (d.take stop)
  simp only [← hstop] at hd
  obtain ⟨h1, h2, h3, h4⟩ := hd
  have hlen : (d.take stop).length = stop := by simp; omega
  generalize hs' : (d.take stop).length - bestPrefix (d.take stop).reverse = stop' at hd' ⊢
  simp only [] at hd'
  obtain ⟨g1, g2, g3, g4⟩ := hd'
  rw [hlen] at g1 g4
  by_cases hlt : stop' < stop
  · exfalso
    have hpos := g4 stop hlt (Nat.le_refl _)
    rw [sufSum_take d stop stop (Nat.le_refl _) h1, sufSum_take d stop stop' (by omega) h1] at hpos
    have hstop0 : 0 ≤ sufSum d stop := by
      by_cases he : stop < d.length
      · exact h2 stop (Nat.le_refl _) he
      · have : stop = d.length := by omega
        rw [this, sufSum_length]; exact Int.le_refl _
    have hr : ReachBack d stop' := by
      intro t ht htn
      by_cases hts : t < stop
      · have := g2 t ht (by rw [hlen]; exact hts)
        rw [sufSum_take d stop t (by omega) h1] at this; omega
      · exact h2 t (by omega) htn
    have := h3 stop' (by omega) hr
    omega
  · omega

/-- **3' quality trimming is idempotent**: running `-q cutoff` on a read that was already trimmed with the same cutoff removes nothing
    more — for every quality string, cutoff and base. (A scan that restarted from a different position, compared with `≥` instead of `>`,
    or forgot the early stop would break this on reads with a good base between two bad stretches.) -/
theorem trim3_idempotent (cutoff base : Int) (quals : Bytes) :
    trim3 cutoff base (quals.take (trim3 cutoff base quals)) = trim3 cutoff base quals := by
  have := back_idempotent (quals.map (dval cutoff base)) (trim3 cutoff base quals) (by simp [trim3])
  simpa [trim3, List.map_take] using this

/-- the same for the NextSeq variant on the values it scans -/
theorem nextseq_idempotent (seq quals : Bytes) (cutoff base : Int) (hl : seq.length = quals.length) :
    nextseqTrimIndex (seq.take (nextseqTrimIndex seq quals cutoff base)) (quals.take (nextseqTrimIndex seq quals cutoff base)) cutoff base
      = nextseqTrimIndex seq quals cutoff base := by
  have hlen : (nextseqVals seq quals cutoff base).length = quals.length := by simp [nextseqVals, hl]
  have hle : nextseqTrimIndex seq quals cutoff base ≤ quals.length := by unfold nextseqTrimIndex; omega
  have := back_idempotent (nextseqVals seq quals cutoff base) (nextseqTrimIndex seq quals cutoff base)
    (by simp [nextseqTrimIndex, hlen])
  generalize nextseqTrimIndex seq quals cutoff base = k at this hle ⊢
  have ht : nextseqVals (seq.take k) (quals.take k) cutoff base = (nextseqVals seq quals cutoff base).take k := by
    simp [nextseqVals, List.take_zipWith]
  unfold nextseqTrimIndex
  rw [ht]
  simp only [List.length_take] at this ⊢
  rw [hlen] at this
  omega

example : trim3 10 33 [73,73,35,73,35,35] = 4 ∧ trim3 10 33 ([73,73,35,73,35,35].take 4) = 4 := by decide

theorem pre_drop (d : List Int) (s j : Nat) : pre (d.drop s) j = pre d (s + j) - pre d s := by
  unfold pre
  have h : d.take (s + j) = d.take s ++ (d.drop s).take j := by
    rw [List.take_add]
  rw [h, List.sum_append]; omega

/-- generic idempotence of the 5' scan: on what is left after removing the best prefix, the scan removes nothing -/
theorem front_idempotent (d : List Int) : bestPrefix (d.drop (bestPrefix d)) = 0 := by
  obtain ⟨h1, h2, h3, h4⟩ := bestPrefix_spec d
  obtain ⟨g1, g2, g3, g4⟩ := bestPrefix_spec (d.drop (bestPrefix d))
  generalize hs : bestPrefix d = s at *
  generalize hs' : bestPrefix (d.drop s) = s' at *
  by_cases h0 : s' = 0
  · exact h0
  · exfalso
    have hpos := g4 0 (by omega)
    rw [pre_drop, pre_drop] at hpos
    simp only [Nat.add_zero] at hpos
    have hs0 : 0 ≤ pre d s := by
      by_cases e : s = 0
      · subst e; simp
      · exact h2 s (by omega) (Nat.le_refl _)
    have hr : Reach d (s + s') := by
      intro t ht1 ht2
      by_cases hts : t ≤ s
      · exact h2 t ht1 hts
      · have := g2 (t - s) (by omega) (by omega)
        rw [pre_drop] at this
        have e : s + (t - s) = t := by omega
        rw [e] at this; omega
    have hlen : s + s' ≤ d.length := by
      simp only [List.length_drop] at g1; omega
    have := h3 (s + s') hlen hr
    omega

/-- **5' quality trimming is idempotent**: after `-q cutoff,0`-style 5' trimming, trimming the remaining read again at the 5' end with the same
    cutoff removes nothing — for every quality string, cutoff and base. -/
theorem trim5_idempotent (cutoff base : Int) (quals : Bytes) :
    trim5 cutoff base (quals.drop (trim5 cutoff base quals)) = 0 := by
  have := front_idempotent (quals.map (dval cutoff base))
  simpa [trim5, List.map_drop] using this

example : trim5 10 33 [35,35,73,35,73,73] = 2 ∧ trim5 10 33 ([35,35,73,35,73,73].drop 2) = 0 := by decide

/-! Non-vacuity: concrete runs. `"IIII#I##"` (cutoff 10, base 33): qualities 40,40,40,40,2,40,2,2. -/
example : qualityTrimIndex [73,73,73,73,35,73,35,35] 10 10 33 = (0, 6) := by decide
example : qualityTrimIndex [35,35,73,73] 10 10 33 = (2, 4) := by decide
example : nextseqTrimIndex [65,67,71,71] [73,73,73,73] 10 33 = 2 := by decide

/-! ## The quality-trimming options of the real program (regenerated from the working tree on every run) -/

/-- the cutoffs the documented notation gives the probe options: `-q X` = 3' cutoff X, `-q X,Y` = 5' cutoff X and 3' cutoff Y (the same for
    `-Q` on R2; `-q` alone applies to R2 as well), `--nextseq-trim X` -/
def probeOption : String → Option (Sum (Int × Int) Int)
  | "q10" => some (.inl (0, 10))
  | "q15_20" => some (.inl (15, 20))
  | "q0_12" => some (.inl (0, 12))
  | "q26" => some (.inl (0, 26))
  | "Q10" => some (.inl (0, 10))
  | "Q20_5" => some (.inl (20, 5))
  | "q15_as_R2" => some (.inl (0, 15))
  | "nextseq15" => some (.inr 15)
  | "nextseq28" => some (.inr 28)
  | "nextseq15_R2" => some (.inr 15)
  | _ => none

/-- what the model keeps of a probe (sequence, phred values) whose qualities are encoded with `base` -/
def modelKept (opt : String) (probe : List UInt8 × List Nat) (base : Nat) : Option (Nat × Nat) :=
  let quals : Bytes := probe.2.map (fun v => UInt8.ofNat (v + base))
  match probeOption opt with
  | some (.inl (f, b)) => some (qualityTrimIndex quals f b base)
  | some (.inr c) => some (if nextseqTrimIndex probe.1 quals c base = 0 then (0, 0) else (0, nextseqTrimIndex probe.1 quals c base))
  | none => none

/-- **Every quality-trimming option of the real program keeps the interval the BWA rule defines, for both quality encodings** (probe reads
    through the command-line program with `--quality-base 33` and `64`, `-q`/`-Q` with one and two cutoffs, `--nextseq-trim`, on R1 and on R2):
    the observed interval does not depend on the encoding and is what `qualityTrimIndex` / `nextseqTrimIndex` (to which `trim3_spec`,
    `trim5_spec`, `nextseq_spec` and `base_shift_invariant` apply) compute on the same phred values. -/
theorem generated_quality_wiring :
    ∀ row ∈ Generated.qualKept,
      row.2.2.1 = row.2.2.2 ∧
      (Generated.qualProbes[row.2.1]?).bind (modelKept row.1 · 33) = some row.2.2.1 ∧
      (Generated.qualProbes[row.2.1]?).bind (modelKept row.1 · 64) = some row.2.2.2 := by
  decide

end Cutadapt.C13
