import Cutadapt.Proofs.StepsShape
import Cutadapt.Proofs.StepsPrefix
import Cutadapt.Properties.C14
import Cutadapt.Generated.FilterOrder
/-! # C11 — filters use the documented criteria, in order, one destination per read

Model: `Cutadapt.Pipeline` (`Pred.test`, `stepS`, `stepP`, `runStepsS/P`, `processReadS`), `Cutadapt.Assembly.makeSteps`.
Helper lemmas: `Cutadapt/Proofs/StepsCore.lean`, `StepsMake.lean`, `StepsShape.lean`. -/
namespace Cutadapt.C11
open Cutadapt Cutadapt.Steps Cutadapt.Qualtrim

/-! ## The fixed order -/

/-- position of a step in the documented order: text-file writers 0; filters by their criterion — too short 1, too long 2,
    too many N 3, expected errors 4, average error rate 5, CASAVA 6, trimmed/untrimmed 7; sink and demultiplexers 8 -/
def stepRank : Step → Nat := Steps.stepRank

example : stepRank (.filter (some (.tooManyN 0.5)) none .any none) = 3 := rfl
example : stepRank (.filter none (some (.tooLong 7)) .any none) = 2 := rfl
example : stepRank (.demux [] none) = 8 := rfl

theorem count_rank_le_one {l : List Step} (h : l.Pairwise RankLt) (r : Nat) (hr : 1 ≤ r) :
    (l.map Steps.stepRank).count r ≤ 1 := by
  induction l with
  | nil => simp
  | cons a l ih =>
    rw [List.pairwise_cons] at h
    have := ih h.2
    rw [List.map_cons, List.count_cons]
    by_cases ha : Steps.stepRank a = r
    · have hz : (l.map Steps.stepRank).count r = 0 := by
        rw [List.count_eq_zero]
        intro hm
        obtain ⟨b, hb, hbr⟩ := List.mem_map.1 hm
        rcases h.1 b hb with hlt | ⟨h0, -⟩ <;> omega
      simp [ha, hz]
    · have : (Steps.stepRank a == r) = false := by simpa using ha
      simp [this]; omega

/-- The steps that `make_pipeline_from_args` assembles are in the documented order, and no filter criterion (ranks 1–7)
    nor the final step occurs twice. (`LenBounds`: a given `-m`/`-M` carries a bound that applies to the run.) -/
theorem filter_order {o : Opts} {n1 n2 : List String} {steps : List Step} {f : Files}
    (hb : LenBounds o) (h : makeSteps o n1 n2 = .ok (steps, f)) :
    steps.Pairwise (fun a b => stepRank a ≤ stepRank b) ∧
    ∀ r, 1 ≤ r → (steps.map stepRank).count r ≤ 1 := by
  have hp := makeSteps_ranked hb h
  refine ⟨hp.imp (fun {a b} hab => ?_), fun r hr => count_rank_le_one hp r hr⟩
  rcases hab with hlt | ⟨h0, h1⟩
  · exact Nat.le_of_lt hlt
  · simp [stepRank, h0, h1]

/-! ## The first filter that applies consumes the read -/

/-- step `s` lets the read through unchanged, emitting `e` (a writer printing lines, or a filter whose criterion is false) -/
def Passes (ads : List Matchable) (r : Read) (i : Info) (s : Step) (e : List Event) : Prop :=
  s.isPass = true ∧ ∀ idx, stepS ads idx s r i = .ok (some r, e)

/-- what passing means, step kind by step kind: writers emit only `text` events; a filter passes iff its criterion
    evaluates to false, and then emits nothing -/
theorem passes_iff (ads : List Matchable) (r : Read) (i : Info) :
    (∀ s e, Passes ads r i s e → ∀ ev ∈ e, isText ev = true) ∧
    (∀ p p2 mode w e, Passes ads r i (.filter (some p) p2 mode w) e ↔ p.test r i = .ok false ∧ e = []) := by
  refine ⟨fun s e h ev hev => ?_, fun p p2 mode w e => ⟨fun h => ?_, fun h => ⟨rfl, fun idx => ?_⟩⟩⟩
  · rcases stepS_pass h.1 (h.2 0) with ⟨-, ht⟩ | ⟨h1, -⟩
    · exact ht ev hev
    · simp at h1
  · have := h.2 0
    simp only [stepS] at this
    split at this
    · simp at this
    · simp at this
    · rename_i ht
      simp only [Except.ok.injEq, Prod.mk.injEq, true_and] at this
      exact ⟨ht, this.symm⟩
  · simp [stepS, h.1, h.2]

theorem runPrefixS_passes {ads : List Matchable} {r : Read} {i : Info} {pre : List Step} {es : List (List Event)}
    (h : Forall2 (Passes ads r i) pre es) (idx : Nat) : runPrefixS ads pre idx r i = .ok (some r, es.flatten) := by
  induction h generalizing idx with
  | nil => rfl
  | cons hs _ ih => simp [runPrefixS, hs.2 idx, ih (idx + 1)]

/-- **Single-end.** In `pre ++ [filter] ++ post`, when every step of `pre` lets the read through and the filter's criterion
    holds: the log gets exactly what the steps of `pre` printed, then `filtered k` for the filter's index `k`, then the
    write to the filter's redirect file iff there is one — and nothing from `post`. -/
theorem first_applicable_consumes {ads : List Matchable} {r : Read} {i : Info} {pre post : List Step}
    {es : List (List Event)} {p : Pred} {p2 : Option Pred} {mode : PairMode} {w : Option Nat} (idx : Nat)
    (evs0 : List Event) (hpre : Forall2 (Passes ads r i) pre es) (hp : p.test r i = .ok true) :
    runStepsS ads (pre ++ [.filter (some p) p2 mode w] ++ post) idx r i evs0 =
      .ok (evs0 ++ es.flatten ++ .filtered (idx + pre.length) ::
        (match w with | some w => [Event.write w r none] | none => [])) := by
  rw [List.append_assoc, runStepsS_append, runPrefixS_passes hpre]
  simp only [List.singleton_append, runStepsS, stepS, hp]
  cases w <;> simp

/-- if no filter applies, the read reaches the last step, which sees the same read and index -/
theorem no_filter_applies_reaches_last {ads : List Matchable} {r : Read} {i : Info} {pre : List Step} {last : Step}
    {es : List (List Event)} (idx : Nat) (evs0 : List Event) (hpre : Forall2 (Passes ads r i) pre es) :
    runStepsS ads (pre ++ [last]) idx r i evs0 =
      match stepS ads (idx + pre.length) last r i with
      | .error e => .error e
      | .ok (none, e) => .ok (evs0 ++ es.flatten ++ e)
      | .ok (some _, e) => .ok (evs0 ++ es.flatten ++ e) := by
  rw [runStepsS_append, runPrefixS_passes hpre]
  simp only [runStepsS]
  split <;> simp_all

/-- paired-end: step `s` lets the pair through unchanged -/
def PassesP (a1 a2 : List Matchable) (r : Read × Read) (i : Info × Info) (s : Step) (e : List Event) : Prop :=
  s.isPass = true ∧ ∀ idx, stepP a1 a2 idx s r i = .ok (some r, e)

theorem passesP_iff (a1 a2 : List Matchable) (r1 r2 : Read) (i1 i2 : Info) :
    (∀ s e, PassesP a1 a2 (r1, r2) (i1, i2) s e → ∀ ev ∈ e, isText ev = true) ∧
    (∀ p1 p2 mode w e, PassesP a1 a2 (r1, r2) (i1, i2) (.filter p1 p2 mode w) e ↔
      pairFiltered p1 p2 mode r1 r2 i1 i2 = .ok false ∧ e = []) := by
  refine ⟨fun s e h ev hev => ?_, fun p1 p2 mode w e => ⟨fun h => ?_, fun h => ⟨rfl, fun idx => ?_⟩⟩⟩
  · rcases stepP_pass h.1 (h.2 0) with ⟨-, ht⟩ | ⟨h1, -⟩
    · exact ht ev hev
    · simp at h1
  · have := h.2 0
    simp only [stepP] at this
    split at this
    · simp at this
    · simp at this
    · rename_i ht
      simp only [Except.ok.injEq, Prod.mk.injEq, true_and] at this
      exact ⟨ht, this.symm⟩
  · simp [stepP, h.1, h.2]

theorem runPrefixP_passes {a1 a2 : List Matchable} {r : Read × Read} {i : Info × Info} {pre : List Step}
    {es : List (List Event)} (h : Forall2 (PassesP a1 a2 r i) pre es) (idx : Nat) :
    runPrefixP a1 a2 pre idx r i = .ok (some r, es.flatten) := by
  induction h generalizing idx with
  | nil => rfl
  | cons hs _ ih => simp [runPrefixP, hs.2 idx, ih (idx + 1)]

/-- **Paired-end.** The same with the pair decision `pairFiltered`: the pair is consumed as a unit, the redirect file
    receives both mates. -/
theorem first_applicable_consumes_paired {a1 a2 : List Matchable} {r1 r2 : Read} {i1 i2 : Info} {pre post : List Step}
    {es : List (List Event)} {p1 p2 : Option Pred} {mode : PairMode} {w : Option Nat} (idx : Nat) (evs0 : List Event)
    (hpre : Forall2 (PassesP a1 a2 (r1, r2) (i1, i2)) pre es)
    (hp : pairFiltered p1 p2 mode r1 r2 i1 i2 = .ok true) :
    runStepsP a1 a2 (pre ++ [.filter p1 p2 mode w] ++ post) idx (r1, r2) (i1, i2) evs0 =
      .ok (evs0 ++ es.flatten ++ .filtered (idx + pre.length) ::
        (match w with | some w => [Event.write w r1 (some r2)] | none => [])) := by
  rw [List.append_assoc, runStepsP_append, runPrefixP_passes hpre]
  simp only [List.singleton_append, runStepsP, stepP, hp]
  cases w <;> simp

/-- `-m 3 --too-short-output`, then `-M 3`: a read of length 4 passes the first filter and is consumed by the second;
    the sink does not see it -/
example : runStepsS [] [.filter (some (.tooShort 3)) none .any (some 0), .filter (some (.tooLong 3)) none .any none, .sink 1] 0
    ⟨[114], [65, 67, 71, 84], none⟩ { original := ⟨[114], [65, 67, 71, 84], none⟩ } [] = .ok [.filtered 1] := rfl

/-! ## Filters see the fully modified read -/

/-- all modifiers run before the first step: the steps receive the read and the match information that `runModsS` returns -/
theorem filters_see_modified_read (p : SinglePipeline) (read : Read) :
    processReadS p read =
      match runModsS (namesOf p.ads) p.mods read { original := read } [Event.input read.len none] with
      | .error e => .error e
      | .ok (r, i, evs) => runStepsS p.ads p.steps 0 r i evs := rfl

theorem filters_see_modified_pair (p : PairedPipeline) (pr : Read × Read) :
    processReadP p pr =
      match runModsP p.ads1 p.ads2 p.mods pr ({ original := pr.1 }, { original := pr.2 })
          [Event.input pr.1.len (some pr.2.len)] with
      | .error e => .error e
      | .ok (r, i, evs) => runStepsP p.ads1 p.ads2 p.steps 0 r i evs := rfl

/-- and the modifiers are applied one after the other, each to the result of the previous one -/
theorem mods_in_sequence (names : Names) (m : SMod) (ms : List SMod) (r : Read) (i : Info) (evs : List Event) :
    runModsS names (m :: ms) r i evs =
      match applyS names 0 m r i with
      | .error e => .error e
      | .ok (r', i', e') => runModsS names ms r' i' (evs ++ e') := rfl

/-! ## The criteria -/

/-- `-m`: strictly shorter than the bound; `-M`: strictly longer -/
theorem criteria_length (n : Int) (r : Read) (i : Info) :
    (Pred.tooShort n).test r i = .ok (decide ((r.len : Int) < n)) ∧
    (Pred.tooLong n).test r i = .ok (decide ((r.len : Int) > n)) := ⟨rfl, rfl⟩

/-- `--max-n`: a cutoff below 1 is a fraction of the read length (an empty read is never filtered), otherwise an
    absolute count; the count includes `N` and `n` -/
theorem criteria_max_n (c : Float) (r : Read) (i : Info) :
    (Pred.tooManyN c).test r i =
      (if c < 1.0 then
        (if r.len = 0 then .ok false
         else .ok (decide (Float.ofNat (nCountBoth r.seq) / Float.ofNat r.len > c)))
       else .ok (decide (Float.ofNat (nCountBoth r.seq) > c))) ∧
    nCountBoth r.seq = r.seq.count 78 + r.seq.count 110 := by
  refine ⟨?_, C14.nCount_spec r.seq⟩
  simp only [Pred.test]
  split
  · by_cases h : r.len = 0 <;> simp [h]
  · rfl

/-- `--max-ee`: expected errors (computed from the qualities with base 33) strictly above the bound -/
theorem criteria_max_ee (e : Float) (r : Read) (i : Info) (q : Bytes) (v : Float) (hq : r.qual = some q)
    (hv : ExpErr.expectedErrors 33 q = some v) : (Pred.maxEE e).test r i = .ok (decide (v > e)) := by
  simp [Pred.test, hq, hv]

/-- `--max-aer`: expected errors per base strictly above the bound; an empty read is never filtered -/
theorem criteria_max_aer (rate : Float) (r : Read) (i : Info) :
    (r.len = 0 → (Pred.maxAER rate).test r i = .ok false) ∧
    (∀ q v, r.len ≠ 0 → r.qual = some q → ExpErr.expectedErrors 33 q = some v →
      (Pred.maxAER rate).test r i = .ok (decide (v / Float.ofNat r.len > rate))) := by
  refine ⟨fun h => by simp [Pred.test, h], fun q v h hq hv => by simp [Pred.test, h, hq, hv]⟩

/-- both raise `ValueError` on reads without (valid) qualities -/
theorem criteria_ee_errors (e : Float) (r : Read) (i : Info) :
    (r.qual = none → (Pred.maxEE e).test r i = .error .value) ∧
    (∀ q, r.qual = some q → ExpErr.expectedErrors 33 q = none → (Pred.maxEE e).test r i = .error .value) := by
  refine ⟨fun h => by simp [Pred.test, h], fun q hq hv => by simp [Pred.test, hq, hv]⟩

/-- `--discard-casava`: the header part after the first space has `:Y:` at positions 1..3 -/
theorem criteria_casava (r : Read) (i : Info) :
    Pred.casava.test r i = .ok (casavaFiltered r.name) ∧
    (casavaFiltered r.name = true ↔ seg ((r.name.dropWhile (· != 32)).drop 1) 1 4 = [58, 89, 58]) := by
  refine ⟨rfl, ?_⟩
  simp [casavaFiltered]

theorem dropWhile_ne_space (a b : Bytes) (h : (32 : UInt8) ∉ a) : (a ++ 32 :: b).dropWhile (· != 32) = 32 :: b := by
  induction a with
  | nil => simp
  | cons c a ih =>
    have hc : c ≠ 32 := fun e => h (by simp [e])
    have : (c != 32) = true := by simpa using hc
    simp only [List.cons_append, List.dropWhile_cons, this, if_true]
    exact ih (fun hm => h (by simp [hm]))

/-- in terms of `str.partition(" ")`: for a name `id ++ " " ++ comment` with no space in `id`, the comment decides;
    a name without a space is never filtered -/
theorem casava_partition (a b : Bytes) (h : (32 : UInt8) ∉ a) :
    casavaFiltered (a ++ 32 :: b) = (seg b 1 4 == [58, 89, 58]) ∧ casavaFiltered a = false := by
  refine ⟨by simp [casavaFiltered, dropWhile_ne_space a b h], ?_⟩
  have : a.dropWhile (· != 32) = [] := by
    induction a with
    | nil => rfl
    | cons c a ih =>
      have hc : c ≠ 32 := fun e => h (by simp [e])
      have hb : (c != 32) = true := by simpa using hc
      simp only [List.dropWhile_cons, hb, if_true]
      exact ih (fun hm => h (by simp [hm]))
  simp [casavaFiltered, this, seg]

/-- "r 1:Y:18:ATCACG" is filtered, "r 1:N:18:ATCACG" is not -/
example : casavaFiltered [114, 32, 49, 58, 89, 58, 49, 56] = true := by decide
example : casavaFiltered [114, 32, 49, 58, 78, 58, 49, 56] = false := by decide

/-- `--discard-trimmed` / `--discard-untrimmed`: an adapter match was / was not recorded by the modifiers -/
theorem criteria_trimmed (r : Read) (i : Info) :
    (Pred.isTrimmed.test r i = .ok true ↔ i.mts ≠ []) ∧ (Pred.isUntrimmed.test r i = .ok true ↔ i.mts = []) := by
  constructor <;> cases h : i.mts <;> simp [Pred.test, h]
/-! ## The first applicable filter of the real program (regenerated from the working tree on every run) -/

/-- the documented order of the filters (`--untrimmed-output` takes the place of `--discard-untrimmed` and counts under its category) -/
def documentedFilterOrder : List String :=
  ["too_short", "too_long", "too_many_n", "too_many_expected_errors", "too_high_average_error_rate", "casava_filtered",
   "discard_trimmed", "discard_untrimmed", "untrimmed_output"]

def filterRank (s : String) : Nat := documentedFilterOrder.idxOf s
def filterCategory (s : String) : String := if s == "untrimmed_output" then "discard_untrimmed" else s
/-- the filters that were given a redirect file in the probe runs -/
def filterRedirect (s : String) : List String := if s == "too_short" || s == "too_long" || s == "untrimmed_output" then [s] else []

/-- **In the real program the first applicable filter in the documented order consumes the read, whatever the order of the options on the
    command line; the read is counted under that filter only and written to that filter's redirect file only** (a probe read that meets the
    criteria of both filters, for every pair of filter options in both orders; `filter_order` and `first_applicable_consumes` state the same
    of the model for all option records and reads). -/
theorem generated_first_applicable_filter_wins :
    ∀ row ∈ Generated.filterPairs,
      row.2.2.1 = [filterCategory (if filterRank row.1 ≤ filterRank row.2.1 then row.1 else row.2.1)] ∧
      row.2.2.2 = filterRedirect (if filterRank row.1 ≤ filterRank row.2.1 then row.1 else row.2.1) := by
  decide

end Cutadapt.C11
