import Cutadapt.Stats
namespace Cutadapt.C11
end Cutadapt.C11
