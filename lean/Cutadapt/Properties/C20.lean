import Cutadapt.Stats
import Cutadapt.Report
namespace Cutadapt.C20
end Cutadapt.C20
