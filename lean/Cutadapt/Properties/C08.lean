import Cutadapt.Proofs.IndexSphere
import Cutadapt.Proofs.IndexEnv
import Cutadapt.Proofs.IndexDict
import Cutadapt.Proofs.IndexOrder
import Cutadapt.Proofs.IndexLookup
/-! # C08 — an adapter index changes only speed, never what is found

Model: `Cutadapt/Index.lean` (`hammingSphere`, `editEnvironment`, `makeIndex`, `indexMatchTo`).
The theorems hold for every string / adapter list / read (induction, no sampling) and for *every* dictionary
implementation that satisfies the three lookup laws (`DictOps.Lawful`): the association list used in the `decide`
examples and the `Std.HashMap` the compiled driver runs (`dict_instances_lawful`).

On the unchanged tree the property is false in three ways (each found by the oracle of `harness/props/c08.py`):
* a read shorter than an indexed length gets coordinates outside the read (`index_sound_counterexample`);
* an ambiguity mark between two worse candidates is never cleared when a strictly better adapter arrives later
  (`index_nearest_counterexample`);
* for a read with `N` the re-alignment of `_lookup_with_n` is reported with the looked-up length (not modelled as a
  theorem; see the oracle signature `C08/index-errors-not-distance`).
-/
namespace Cutadapt.C08
open Cutadapt Cutadapt.Adapters Cutadapt.Index

/-- strings over the alphabet A, C, G, T (upper case) -/
def IsACGT (s : Bytes) : Prop := ∀ c ∈ s, c ∈ acgt
instance (s : Bytes) : Decidable (IsACGT s) := by unfold IsACGT; infer_instance

/-! ## `hamming_sphere` -/

/-- **`hamming_sphere(t, e)`** yields exactly the ACGT strings of the same length at Hamming distance `e`, each once —
    for every `e` (special cases 0, 1, 2 and the recursion for `e ≥ 3`). -/
theorem hamming_sphere_spec (t : Bytes) (e : Nat) (ht : IsACGT t) :
    (∀ s, s ∈ hammingSphere t e ↔ s.length = t.length ∧ IsACGT s ∧ Spec.hamming (· == ·) s t = e) ∧
    (hammingSphere t e).Nodup :=
  ⟨hammingSphere_spec t e ht, hammingSphere_nodup t e ht⟩

/-- the enumeration order too: vary the first character (three other letters, in the order of "ACGT") before keeping it -/
theorem hamming_sphere_order (t : Bytes) (e : Nat) : hammingSphere t e = sphereG e t :=
  hammingSphereK_eq_sphereG e t

example : hammingSphere [65, 67] 1 = [[67, 67], [71, 67], [84, 67], [65, 65], [65, 71], [65, 84]] := by decide
example : (hammingSphere [65, 67, 71, 84, 65] 3).length = 270 := by decide +kernel   -- C(5,3) · 3³
example : [84, 67, 65] ∈ hammingSphere [65, 67, 71] 2 :=
  ((hamming_sphere_spec [65, 67, 71] 2 (by decide)).1 _).mpr (by decide)

/-! ## `edit_environment` -/

/-- **`edit_environment(t, k)` is sound**: every yielded `(s, e, m)` has `s` over ACGT, `e ≤ k`, and `e` is the
    unit-cost edit distance of `t` and `s` (some alignment costs `e`, none is cheaper). -/
theorem edit_environment_sound (t : Bytes) (k : Nat) (ht : IsACGT t) (s : Bytes) (e m : Nat)
    (h : (s, e, m) ∈ editEnvironment t k) : IsACGT s ∧ e ≤ k ∧ Spec.IsDist (· == ·) 1 t s e :=
  editEnvironment_sound t k ht s e m h

/-- **… and complete**: every ACGT string within distance `k` is yielded, with its distance, exactly once.
    (`t ≠ []`: for the empty string and `k ≥ 1` the code stops after the one-letter strings, because `min_cost`
    ignores column 0 — see the `example` below; adapters are never empty.) -/
theorem edit_environment_complete (t : Bytes) (k : Nat) (ht : IsACGT t) (hne : t ≠ [] ∨ k = 0) :
    (∀ s d, IsACGT s → Spec.IsDist (· == ·) 1 t s d → d ≤ k → ∃ m, (s, d, m) ∈ editEnvironment t k) ∧
    ((editEnvironment t k).map (·.1)).Nodup :=
  ⟨fun s d hs hd hk => editEnvironment_complete t k ht hne s d hs hd hk, editEnvironment_nodup t k⟩

example : (editEnvironment [65, 67] 1).map (·.1) =
    [[65], [65, 65], [65, 65, 67], [65, 67], [65, 67, 65], [65, 67, 67], [65, 67, 71], [65, 67, 84], [65, 71],
     [65, 71, 67], [65, 84], [65, 84, 67], [67], [67, 65, 67], [67, 67], [71, 65, 67], [71, 67], [84, 65, 67], [84, 67]] := by
  decide
example : Spec.IsDist (· == ·) 1 [65, 67, 71, 84] [65, 71, 84, 84] 2 :=
  (edit_environment_sound [65, 67, 71, 84] 2 (by decide) [65, 71, 84, 84] 2 2 (by decide +kernel)).2.2
/-- the quirk excluded by `hne`: "AA" is within distance 2 of the empty string but is not listed -/
example : (editEnvironment [] 2).map (·.1) = [[], [65], [67], [71], [84]] := by decide

/-! ## The dictionary built by `_make_index` -/

theorem dict_instances_lawful : alistOps.Lawful ∧ hashOps.Lawful := ⟨alistOps_lawful, hashOps_lawful⟩

/-- **Invariant of the fold over the adapters** (for every adapter list, hence after each `a_j`), key by key, where
    `offers` are the loop-body executions `(adapter, s, errors, matches)` for the string `s` in processing order:
    * `s` is absent iff nothing was offered;
    * the entry is one of the offers and no offer had more matches;
    * `s` is in `ambiguous` iff some offer tied with the entry that was current when it arrived (the mark is never
      removed: `index_ambiguous_monotone`);
    * the final index holds the entry unless `s` was marked. -/
theorem index_fold_invariant {D : Type} (ops : DictOps D) (hl : ops.Lawful) (adapters : List Adapter) (isPrefix : Bool)
    (s : Bytes) :
    let st := buildAll ops adapters
    let offers := forKey s (events adapters)
    (ops.get? st.index s = none ↔ offers = []) ∧
    (∀ ai e m, ops.get? st.index s = some (ai, e, m) →
      (∃ ev ∈ offers, ev.ai = ai ∧ ev.e = e ∧ ev.m = m) ∧ ∀ ev ∈ offers, ev.m ≤ m) ∧
    (s ∈ st.ambKeys ↔ ∃ pre ev post, offers = pre ++ ev :: post ∧ ∃ oa oe, (keyState pre).1 = some (oa, oe, ev.m)) ∧
    ops.get? (makeIndex ops adapters isPrefix).index s = (if s ∈ st.ambKeys then none else ops.get? st.index s) := by
  intro st offers
  obtain ⟨h1, h2, h3⟩ := makeIndex_get? ops hl adapters isPrefix s
  refine ⟨?_, ?_, ?_, ?_⟩
  · rw [h1]; exact keyState_none_iff _
  · intro ai e m h
    rw [h1] at h
    exact ⟨keyState_mem _ ai e m h, keyState_max _ ai e m h⟩
  · rw [h2]; exact keyState_amb_iff _
  · show ops.get? (makeIndex ops adapters isPrefix).index s =
      (if s ∈ (buildAll ops adapters).ambKeys then none else ops.get? (buildAll ops adapters).index s)
    rw [h3, h1]
    by_cases hb : (keyState (forKey s (events adapters))).2 = true
    · rw [if_pos hb, if_pos (h2.mpr hb)]
    · rw [if_neg hb, if_neg (fun hm => hb (h2.mp hm))]

theorem events_append (as bs : List Adapter) :
    events (as ++ bs) = events as ++ (bs.zipIdx as.length).flatMap adapterEvents := by
  simp [events, List.zipIdx_append]

/-- `ambiguous` is only ever added to: a key marked after the adapters `as` stays marked whatever follows -/
theorem index_ambiguous_monotone {D : Type} (ops : DictOps D) (hl : ops.Lawful) (as bs : List Adapter) (s : Bytes)
    (h : s ∈ (buildAll ops as).ambKeys) : s ∈ (buildAll ops (as ++ bs)).ambKeys := by
  have h1 := (makeIndex_get? ops hl as true s).2.1
  have h2 := (makeIndex_get? ops hl (as ++ bs) true s).2.1
  rw [h2, events_append, forKey_append]
  exact keyState_amb_mono _ _ (h1.mp h)

/-- **Order independence, for keys without ties**: if no two offers for `s` have the same number of matches, the final
    index holds the same adapter, errors and matches for `s` under every permutation of the adapter list. -/
theorem index_order_independent_partial {D : Type} (ops : DictOps D) (hl : ops.Lawful) (as bs : List Adapter)
    (hp : as.Perm bs) (isPrefix : Bool) (s : Bytes)
    (hnoties : (rForKey s (rEvents as)).Pairwise (fun x y => x.2.2.2 ≠ y.2.2.2)) :
    finalEntry ops as isPrefix s = finalEntry ops bs isPrefix s :=
  finalEntry_perm ops hl as bs hp isPrefix s hnoties

/-- anchored adapter with a fixed number `k` of allowed errors, for the examples -/
def mkA (ty : AdapterType) (seq : Bytes) (k : Nat) (indels : Bool) : Adapter :=
  { ty := ty, seq := seq, thr := fun _ => k, minOverlap := seq.length, readWildcards := false,
    adapterWildcards := false, indels := indels }

/-- "ACGT", "ACGA" with one mismatch allowed: "ACGC" is offered by both with 3 matches — marked and deleted -/
example : (buildAll alistOps [mkA .prefix [65,67,71,84] 1 false, mkA .prefix [65,67,71,65] 1 false]).ambKeys
    = [[65,67,71,71], [65,67,71,67]] := by decide
example : alistOps.get? (makeIndex alistOps [mkA .prefix [65,67,71,84] 1 false, mkA .prefix [65,67,71,65] 1 false] true).index
    [65,67,71,67] = none := by decide
/-- "ACGT" itself is offered with 4 matches by the first and 3 by the second adapter: no tie, same entry in both orders -/
example : (alistOps.get? (makeIndex alistOps [mkA .prefix [65,67,71,84] 1 false, mkA .prefix [65,67,71,65] 1 false] true).index
      [65,67,71,84]).map (·.2) = some (0, 4) ∧
    (alistOps.get? (makeIndex alistOps [mkA .prefix [65,67,71,65] 1 false, mkA .prefix [65,67,71,84] 1 false] true).index
      [65,67,71,84]).map (·.2) = some (0, 4) := by decide

/-! ## Look-up -/

/-- **Key-level soundness of `_match_to_one_length` / `_match_to_multiple_lengths`**, for any index: on an N-free read
    at least as long as every indexed length, a returned match has `0 ≤ rstart ≤ rstop ≤ n`, is anchored, and the
    removed affix (of the upper-cased read) is a key of the index whose entry is the reported adapter with the reported
    errors and score. -/
theorem index_lookup_sound {D : Type} (ops : DictOps D) (idx : AdapterIndex D) (read : Bytes)
    (hN : (78 : UInt8) ∉ read.map asciiUpper)
    (hdesc : idx.lengths.Pairwise (· ≥ ·))
    (hlen : ∀ l ∈ idx.lengths, l ≤ read.length)
    (hpos : idx.isPrefix = false → ∀ l ∈ idx.lengths, 1 ≤ l)
    (mt : IndexMatch) (h : indexMatchTo ops idx read = some mt) :
    0 ≤ mt.rstart ∧ mt.rstart ≤ mt.rstop ∧ mt.rstop ≤ read.length ∧
    (if idx.isPrefix then mt.rstart = 0 else mt.rstop = read.length) ∧
    mt.astart = 0 ∧ mt.astop = (idx.adapters.getD mt.adapter default).seq.length ∧
    ∃ m : Nat, mt.score = m ∧
      ops.get? idx.index (if idx.isPrefix then (read.map asciiUpper).take mt.rstop
                          else (read.map asciiUpper).drop mt.rstart.toNat) = some (mt.adapter, mt.errors, m) := by
  obtain ⟨len, m, hmem, h1, h2, h3, h4, h5⟩ := indexMatchTo_key ops idx read hN hdesc hlen hpos mt h
  have hl := hlen len hmem
  cases hp : idx.isPrefix
  · simp only [hp, Bool.false_eq_true, if_false] at h4 h5 ⊢
    simp only [removedAffix, Bool.false_eq_true, if_false, List.length_map] at h5
    refine ⟨by omega, by omega, by omega, h4.2, h1, h2, m, h3, ?_⟩
    have : mt.rstart.toNat = read.length - len := by omega
    rw [this]; exact h5
  · simp only [hp, if_true] at h4 h5 ⊢
    simp only [removedAffix, if_true] at h5
    refine ⟨by omega, by omega, by omega, h4.1, h1, h2, m, h3, ?_⟩
    rw [h4.2]; exact h5

theorem makeIndex_lengths_desc {D : Type} (ops : DictOps D) (adapters : List Adapter) (isPrefix : Bool) :
    (makeIndex ops adapters isPrefix).lengths.Pairwise (· ≥ ·) := sortDesc_pairwise _

/-- an entry of the final index was offered by the adapter it names -/
theorem index_entry_offered {D : Type} (ops : DictOps D) (hl : ops.Lawful) (adapters : List Adapter) (isPrefix : Bool)
    (s : Bytes) (ai e m : Nat) (h : ops.get? (makeIndex ops adapters isPrefix).index s = some (ai, e, m)) :
    ∃ a, adapters[ai]? = some a ∧ (s, e, m) ∈ adapterItems a := by
  obtain ⟨_, _, h3⟩ := makeIndex_get? ops hl adapters isPrefix s
  rw [h3] at h
  split at h
  · simp at h
  · obtain ⟨ev, hev, rfl, rfl, rfl⟩ := keyState_mem _ ai e m h
    have hkey : ev.key = s := by simpa using (List.mem_filter.mp hev).2
    have hev' : ev ∈ events adapters := (List.mem_filter.mp hev).1
    simp only [events, List.mem_flatMap] at hev'
    obtain ⟨⟨a, i⟩, hai, hin⟩ := hev'
    simp only [adapterEvents, List.mem_map] at hin
    obtain ⟨it, hit, rfl⟩ := hin
    refine ⟨a, List.mk_mem_zipIdx_iff_getElem?.mp hai, ?_⟩
    simp only at hkey
    rw [← hkey]; exact hit

/-- what an offer of an adapter over ACGT means (relative to the two specifications above) -/
theorem adapterItems_spec (a : Adapter) (ha : IsACGT a.seq) (s : Bytes) (e m : Nat) (h : (s, e, m) ∈ adapterItems a) :
    e ≤ adapterK a ∧
    (if a.indels then Spec.IsDist (· == ·) 1 a.seq s e
     else s.length = a.seq.length ∧ Spec.hamming (· == ·) s a.seq = e) := by
  unfold adapterItems at h
  cases hi : a.indels
  · simp only [hi, Bool.false_eq_true, if_false, List.mem_flatMap, List.mem_range, List.mem_map] at h ⊢
    obtain ⟨e', he', s', hs', heq⟩ := h
    simp only [Prod.mk.injEq] at heq
    obtain ⟨rfl, rfl, _⟩ := heq
    have := (hammingSphere_spec a.seq e' ha s').mp hs'
    exact ⟨by omega, this.1, this.2.2⟩
  · simp only [hi, if_true] at h ⊢
    have := editEnvironment_sound a.seq (adapterK a) ha s e m h
    exact ⟨this.2.1, this.2.2⟩

/-- the full soundness clause of C08 for one configuration -/
def IndexSoundFor {D : Type} (ops : DictOps D) (adapters : List Adapter) (isPrefix : Bool) (read : Bytes) : Prop :=
  ∀ mt, indexMatchTo ops (makeIndex ops adapters isPrefix) read = some mt →
    ∃ a, adapters[mt.adapter]? = some a ∧
      0 ≤ mt.rstart ∧ mt.rstart ≤ mt.rstop ∧ mt.rstop ≤ read.length ∧
      (if isPrefix then mt.rstart = 0 else mt.rstop = read.length) ∧
      mt.astart = 0 ∧ mt.astop = a.seq.length ∧ mt.errors ≤ adapterK a ∧
      (if a.indels then
         Spec.IsDist (· == ·) 1 a.seq
           (if isPrefix then (read.map asciiUpper).take mt.rstop else (read.map asciiUpper).drop mt.rstart.toNat) mt.errors
       else
         (if isPrefix then (read.map asciiUpper).take mt.rstop else (read.map asciiUpper).drop mt.rstart.toNat).length
           = a.seq.length ∧
         Spec.hamming (· == ·)
           (if isPrefix then (read.map asciiUpper).take mt.rstop else (read.map asciiUpper).drop mt.rstart.toNat) a.seq
           = mt.errors)

/-- **The soundness clause as the property states it** (every N-free read, no condition on its length): false on the
    unchanged tree, see `index_sound_counterexample`. -/
def index_sound_statement : Prop :=
  ∀ (D : Type) (ops : DictOps D), ops.Lawful → ∀ (adapters : List Adapter) (isPrefix : Bool) (read : Bytes),
    (∀ a ∈ adapters, IsACGT a.seq) → (78 : UInt8) ∉ read.map asciiUpper → IndexSoundFor ops adapters isPrefix read

/-- **Soundness under the explicit (decidable) side conditions** "the read is at least as long as every indexed
    length" and, for 3' adapters, "no indexed length is 0" (`s[-0:]` is the whole string): every match returned through
    the index lies inside the read, is anchored, names an adapter of the list, `errors` is within that adapter's
    tolerance and is the exact edit (Hamming, if indels are off) distance between the adapter and the removed affix. -/
theorem index_sound_partial {D : Type} (ops : DictOps D) (hl : ops.Lawful) (adapters : List Adapter) (isPrefix : Bool)
    (read : Bytes) (hacgt : ∀ a ∈ adapters, IsACGT a.seq) (hN : (78 : UInt8) ∉ read.map asciiUpper)
    (hlen : ∀ l ∈ (makeIndex ops adapters isPrefix).lengths, l ≤ read.length)
    (hpos : isPrefix = false → ∀ l ∈ (makeIndex ops adapters isPrefix).lengths, 1 ≤ l) :
    IndexSoundFor ops adapters isPrefix read := by
  intro mt h
  obtain ⟨h1, h2, h3, h4, h5, h6, m, _, hg⟩ :=
    index_lookup_sound ops (makeIndex ops adapters isPrefix) read hN (makeIndex_lengths_desc ops adapters isPrefix) hlen hpos mt h
  have hpfx : (makeIndex ops adapters isPrefix).isPrefix = isPrefix := rfl
  have hads : (makeIndex ops adapters isPrefix).adapters = adapters := rfl
  rw [hpfx] at h4 hg
  rw [hads] at h6
  obtain ⟨a, hai, hoff⟩ := index_entry_offered ops hl adapters isPrefix _ _ _ _ hg
  have haA : IsACGT a.seq := hacgt a (List.mem_of_getElem? hai)
  obtain ⟨hk, hd⟩ := adapterItems_spec a haA _ _ _ hoff
  have hgetD : adapters.getD mt.adapter default = a := by simp [List.getD_eq_getElem?_getD, hai]
  rw [hgetD] at h6
  exact ⟨a, hai, h1, h2, h3, h4, h5, h6, hk, hd⟩

/-- 3' adapters `ACGT$` and `ACACGT$` (no errors, no indels), read `ACGT`: the read is shorter than the indexed length 6,
    `s[-6:]` is the whole read, the match is built with length 6 and `rstart = 4 − 6 = −2`. -/
theorem index_short_read_witness :
    indexMatchTo alistOps (makeIndex alistOps [mkA .suffix [65,67,71,84] 0 false, mkA .suffix [65,67,65,67,71,84] 0 false] false)
      [65,67,71,84] = some ⟨0, 0, 4, -2, 4, 4, 0⟩ := by decide

theorem index_sound_counterexample : ¬ index_sound_statement := by
  intro hst
  have := hst _ alistOps alistOps_lawful
    [mkA .suffix [65,67,71,84] 0 false, mkA .suffix [65,67,65,67,71,84] 0 false] false [65,67,71,84]
    (by decide) (by decide) _ index_short_read_witness
  obtain ⟨_, _, h0, _⟩ := this
  exact absurd h0 (by decide)

/-- the same on a 5' index: `rstop = 6` on a read of length 4 -/
example : indexMatchTo alistOps (makeIndex alistOps [mkA .prefix [65,67,71,84] 0 false, mkA .prefix [65,67,71,84,65,67] 0 false] true)
    [65,67,71,84] = some ⟨0, 0, 4, 0, 6, 4, 0⟩ := by decide
/-- a long enough read: found, inside the read -/
example : indexMatchTo alistOps (makeIndex alistOps [mkA .suffix [65,67,71,84] 0 false, mkA .suffix [65,67,65,67,71,84] 0 false] false)
    [84,84,65,67,71,84] = some ⟨0, 0, 4, 2, 6, 4, 0⟩ := by decide

/-! ## The uncleared tie -/

/-- **"The nearest adapter is reported"** — what the uniqueness and agreement clauses of C08 come to for equally long
    adapters without indels: if adapter `i` is within its tolerance of the read's affix and strictly closer to it than
    every other adapter, the index reports adapter `i` with that distance. False on the unchanged tree. -/
def index_nearest_statement : Prop :=
  ∀ (D : Type) (ops : DictOps D), ops.Lawful → ∀ (adapters : List Adapter) (isPrefix : Bool) (read : Bytes) (L : Nat),
    (∀ a ∈ adapters, IsACGT a.seq ∧ a.seq.length = L ∧ a.indels = false) → IsACGT read → L ≤ read.length →
    ∀ (i : Nat) (a : Adapter), adapters[i]? = some a →
      Spec.hamming (· == ·) (removedAffix isPrefix read L) a.seq ≤ adapterK a →
      (∀ (j : Nat) (b : Adapter), adapters[j]? = some b → j ≠ i →
        Spec.hamming (· == ·) (removedAffix isPrefix read L) a.seq < Spec.hamming (· == ·) (removedAffix isPrefix read L) b.seq) →
      ∃ mt, indexMatchTo ops (makeIndex ops adapters isPrefix) read = some mt ∧ mt.adapter = i ∧
        mt.errors = Spec.hamming (· == ·) (removedAffix isPrefix read L) a.seq

/-- `^TCGTACGT`, `^CCGTACGT`, `^ACGTACGT`, one mismatch, no indels: the read `ACGTACGTAA` starts with an exact copy of
    the third adapter, but the index reports nothing — `ACGTACGT` was marked ambiguous when the second adapter tied with
    the first (7 matches each) and the mark survives the arrival of the exact adapter (8 matches). -/
theorem index_uncleared_tie_witness :
    indexMatchTo alistOps (makeIndex alistOps
      [mkA .prefix [84,67,71,84,65,67,71,84] 1 false, mkA .prefix [67,67,71,84,65,67,71,84] 1 false,
       mkA .prefix [65,67,71,84,65,67,71,84] 1 false] true) [65,67,71,84,65,67,71,84,65,65] = none := by decide +kernel

theorem index_nearest_counterexample : ¬ index_nearest_statement := by
  intro hst
  have := hst _ alistOps alistOps_lawful
    [mkA .prefix [84,67,71,84,65,67,71,84] 1 false, mkA .prefix [67,67,71,84,65,67,71,84] 1 false,
     mkA .prefix [65,67,71,84,65,67,71,84] 1 false] true [65,67,71,84,65,67,71,84,65,65] 8
    (by decide) (by decide) (by decide) 2 _ rfl (by decide)
    (by
      intro j b hj hne
      match j, hj, hne with
      | 0, hj, _ => simp at hj; subst hj; decide
      | 1, hj, _ => simp at hj; subst hj; decide
      | 2, _, hne => exact absurd rfl hne
      | j+3, hj, _ => simp at hj)
  obtain ⟨mt, hmt, _⟩ := this
  rw [index_uncleared_tie_witness] at hmt
  exact absurd hmt (by simp)

/-- with the exact adapter listed first the same read is assigned: the result depends on the order -/
example : indexMatchTo alistOps (makeIndex alistOps
      [mkA .prefix [65,67,71,84,65,67,71,84] 1 false, mkA .prefix [84,67,71,84,65,67,71,84] 1 false,
       mkA .prefix [67,67,71,84,65,67,71,84] 1 false] true) [65,67,71,84,65,67,71,84,65,65]
    = some ⟨0, 0, 8, 0, 8, 8, 0⟩ := by decide +kernel

end Cutadapt.C08
