import Cutadapt.Generated.Tolerance
import Cutadapt.Proofs.IndexSphere
import Cutadapt.Proofs.IndexEnv
import Cutadapt.Proofs.IndexDict
import Cutadapt.Proofs.IndexOrder
import Cutadapt.Proofs.IndexLookup
import Cutadapt.Proofs.IndexLengths
import Cutadapt.Proofs.IndexNearest
import Cutadapt.Proofs.IndexCoords
/-! # C08 — an adapter index changes only speed, never what is found

Model: `Cutadapt/Index.lean` (`hammingSphere`, `editEnvironment`, `makeIndex`, `indexMatchTo`).
The theorems hold for every string / adapter list / read (induction, no sampling) and for *every* dictionary
implementation that satisfies the three lookup laws (`DictOps.Lawful`): the association list used in the `decide`
examples and the `Std.HashMap` the compiled driver runs (`dict_instances_lawful`).

History. Three defects found by the oracle of `harness/props/c08.py` were repaired in the tree (commits 6d0af29, ecc3a50,
ee05d18) and the model follows the repaired code:
* a read shorter than an indexed length got coordinates outside the read (`-a ACGT$ -a ACACGT$`, read `ACGT`:
  `rstart = −2`) — now `index_sound` holds for reads of every length (`example`s below show the former reproducers);
* an ambiguity mark between two worse candidates was never cleared when a strictly better adapter arrived later
  (`^TCGTACGT ^CCGTACGT ^ACGTACGT`, one mismatch, read `ACGTACGTAA` stayed unassigned) — now the mark is exactly "the best
  number of matches was offered at least twice" (`index_fold_invariant`), the final index is independent of the adapter order
  (`index_order_independent`) and the strictly nearest adapter is reported (`index_nearest`);
* for a read with `N` the re-alignment of `_lookup_with_n` was reported with the looked-up length — now with its own length
  (model: `lookupWithN`; covered by the correspondence and the oracle, soundness of the re-alignment itself is C01).
-/
namespace Cutadapt.C08
open Cutadapt Cutadapt.Adapters Cutadapt.Index

/-- strings over the alphabet A, C, G, T (upper case) -/
def IsACGT (s : Bytes) : Prop := ∀ c ∈ s, c ∈ acgt
instance (s : Bytes) : Decidable (IsACGT s) := by unfold IsACGT; infer_instance

/-! ## `hamming_sphere` -/

/-- **`hamming_sphere(t, e)`** yields exactly the ACGT strings of the same length at Hamming distance `e`, each once —
    for every `e` (special cases 0, 1, 2 and the recursion for `e ≥ 3`). -/
theorem hamming_sphere_spec (t : Bytes) (e : Nat) (ht : IsACGT t) :
    (∀ s, s ∈ hammingSphere t e ↔ s.length = t.length ∧ IsACGT s ∧ Spec.hamming (· == ·) s t = e) ∧
    (hammingSphere t e).Nodup :=
  ⟨hammingSphere_spec t e ht, hammingSphere_nodup t e ht⟩

/-- the enumeration order too: vary the first character (three other letters, in the order of "ACGT") before keeping it -/
theorem hamming_sphere_order (t : Bytes) (e : Nat) : hammingSphere t e = sphereG e t :=
  hammingSphereK_eq_sphereG e t

example : hammingSphere [65, 67] 1 = [[67, 67], [71, 67], [84, 67], [65, 65], [65, 71], [65, 84]] := by decide
example : (hammingSphere [65, 67, 71, 84, 65] 3).length = 270 := by decide +kernel   -- C(5,3) · 3³
example : [84, 67, 65] ∈ hammingSphere [65, 67, 71] 2 :=
  ((hamming_sphere_spec [65, 67, 71] 2 (by decide)).1 _).mpr (by decide)

/-! ## `edit_environment` -/

/-- **`edit_environment(t, k)` is sound**: every yielded `(s, e, m)` has `s` over ACGT, `e ≤ k`, and `e` is the
    unit-cost edit distance of `t` and `s` (some alignment costs `e`, none is cheaper). -/
theorem edit_environment_sound (t : Bytes) (k : Nat) (ht : IsACGT t) (s : Bytes) (e m : Nat)
    (h : (s, e, m) ∈ editEnvironment t k) : IsACGT s ∧ e ≤ k ∧ Spec.IsDist (· == ·) 1 t s e :=
  editEnvironment_sound t k ht s e m h

/-- **… and complete**: every ACGT string within distance `k` is yielded, with its distance, exactly once.
    (`t ≠ []`: for the empty string and `k ≥ 1` the code stops after the one-letter strings, because `min_cost`
    ignores column 0 — see the `example` below; adapters are never empty.) -/
theorem edit_environment_complete (t : Bytes) (k : Nat) (ht : IsACGT t) (hne : t ≠ [] ∨ k = 0) :
    (∀ s d, IsACGT s → Spec.IsDist (· == ·) 1 t s d → d ≤ k → ∃ m, (s, d, m) ∈ editEnvironment t k) ∧
    ((editEnvironment t k).map (·.1)).Nodup :=
  ⟨fun s d hs hd hk => editEnvironment_complete t k ht hne s d hs hd hk, editEnvironment_nodup t k⟩

example : (editEnvironment [65, 67] 1).map (·.1) =
    [[65], [65, 65], [65, 65, 67], [65, 67], [65, 67, 65], [65, 67, 67], [65, 67, 71], [65, 67, 84], [65, 71],
     [65, 71, 67], [65, 84], [65, 84, 67], [67], [67, 65, 67], [67, 67], [71, 65, 67], [71, 67], [84, 65, 67], [84, 67]] := by
  decide
example : Spec.IsDist (· == ·) 1 [65, 67, 71, 84] [65, 71, 84, 84] 2 :=
  (edit_environment_sound [65, 67, 71, 84] 2 (by decide) [65, 71, 84, 84] 2 2 (by decide +kernel)).2.2
/-- the quirk excluded by `hne`: "AA" is within distance 2 of the empty string but is not listed -/
example : (editEnvironment [] 2).map (·.1) = [[], [65], [67], [71], [84]] := by decide

/-! ## The dictionary built by `_make_index` -/

theorem dict_instances_lawful : alistOps.Lawful ∧ hashOps.Lawful := ⟨alistOps_lawful, hashOps_lawful⟩

/-- **Invariant of the fold over the adapters** (for every adapter list, hence after each `a_j`), key by key, where
    `offers` are the loop-body executions `(adapter, s, errors, matches)` for the string `s` in processing order:
    * `s` is absent iff nothing was offered;
    * the entry is one of the offers and no offer had more matches;
    * `s` is in `ambiguous` iff the entry's number of matches — the best one — was offered at least twice (a tie between
      two worse offers is forgotten as soon as a strictly better offer arrives);
    * the final index holds the entry unless `s` is marked. -/
theorem index_fold_invariant {D : Type} (ops : DictOps D) (hl : ops.Lawful) (adapters : List Adapter) (isPrefix : Bool)
    (s : Bytes) :
    let st := buildAll ops adapters
    let offers := forKey s (events adapters)
    (ops.get? st.index s = none ↔ offers = []) ∧
    (∀ ai e m, ops.get? st.index s = some (ai, e, m) →
      (∃ ev ∈ offers, ev.ai = ai ∧ ev.e = e ∧ ev.m = m) ∧ (∀ ev ∈ offers, ev.m ≤ m) ∧
      (s ∈ st.ambKeys ↔ 2 ≤ (offers.filter (fun ev => ev.m == m)).length)) ∧
    (ops.get? st.index s = none → s ∉ st.ambKeys) ∧
    ops.get? (makeIndex ops adapters isPrefix).index s = (if s ∈ st.ambKeys then none else ops.get? st.index s) := by
  intro st offers
  obtain ⟨h1, h2, h3⟩ := makeIndex_get? ops hl adapters isPrefix s
  refine ⟨?_, ?_, ?_, ?_⟩
  · rw [h1]; exact keyState_none_iff _
  · intro ai e m h
    rw [h1] at h
    refine ⟨keyState_mem _ ai e m h, keyState_max _ ai e m h, ?_⟩
    rw [h2]; exact keyState_amb_iff _ ai e m h
  · intro hn hm
    rw [h1] at hn
    have := keyState_flag_of_none _ hn
    rw [h2.mp hm] at this; cases this
  · show ops.get? (makeIndex ops adapters isPrefix).index s =
      (if s ∈ (buildAll ops adapters).ambKeys then none else ops.get? (buildAll ops adapters).index s)
    rw [h3, h1]
    by_cases hb : (keyState (forKey s (events adapters))).2 = true
    · rw [if_pos hb, if_pos (h2.mpr hb)]
    · rw [if_neg hb, if_neg (fun hm => hb (h2.mp hm))]

/-- **Order independence**: the final index holds the same adapter, errors and matches for every string — and lacks
    the same strings — under every permutation of the adapter list. -/
theorem index_order_independent {D : Type} (ops : DictOps D) (hl : ops.Lawful) (as bs : List Adapter)
    (hp : as.Perm bs) (isPrefix : Bool) (s : Bytes) :
    finalEntry ops as isPrefix s = finalEntry ops bs isPrefix s :=
  finalEntry_perm ops hl as bs hp isPrefix s

/-- the final index, declaratively: `(a, e, m)` is stored for `s` iff `(a, s, e, m)` is the unique best offer -/
theorem index_entry_iff_unique_best {D : Type} (ops : DictOps D) (hl : ops.Lawful) (adapters : List Adapter) (isPrefix : Bool)
    (s : Bytes) (a : Adapter) (e m : Nat) :
    finalEntry ops adapters isPrefix s = some (a, e, m) ↔ IsWinner (rForKey s (rEvents adapters)) (a, s, e, m) :=
  finalEntry_eq_some_iff ops hl adapters isPrefix s a e m

/-- anchored adapter with a fixed number `k` of allowed errors, for the examples -/
def mkA (ty : AdapterType) (seq : Bytes) (k : Nat) (indels : Bool) : Adapter :=
  { ty := ty, seq := seq, thr := fun _ => k, minOverlap := seq.length, readWildcards := false,
    adapterWildcards := false, indels := indels }

/-- "ACGT", "ACGA" with one mismatch allowed: "ACGC" and "ACGG" are offered by both with 3 matches — marked and deleted -/
example : (buildAll alistOps [mkA .prefix [65,67,71,84] 1 false, mkA .prefix [65,67,71,65] 1 false]).ambKeys
    = [[65,67,71,71], [65,67,71,67]] := by decide
example : alistOps.get? (makeIndex alistOps [mkA .prefix [65,67,71,84] 1 false, mkA .prefix [65,67,71,65] 1 false] true).index
    [65,67,71,67] = none := by decide
/-- "ACGT" itself is offered with 4 matches by the first and 3 by the second adapter: same entry in both orders -/
example : (alistOps.get? (makeIndex alistOps [mkA .prefix [65,67,71,84] 1 false, mkA .prefix [65,67,71,65] 1 false] true).index
      [65,67,71,84]).map (·.2) = some (0, 4) ∧
    (alistOps.get? (makeIndex alistOps [mkA .prefix [65,67,71,65] 1 false, mkA .prefix [65,67,71,84] 1 false] true).index
      [65,67,71,84]).map (·.2) = some (0, 4) := by decide
/-- the former defect: "TCGTACGT", "CCGTACGT" tie on "ACGTACGT" (7 matches), then "ACGTACGT" offers it with 8 — the mark
    is cleared and the string stays in the index, for the third adapter -/
example : alistOps.get? (makeIndex alistOps
      [mkA .prefix [84,67,71,84,65,67,71,84] 1 false, mkA .prefix [67,67,71,84,65,67,71,84] 1 false,
       mkA .prefix [65,67,71,84,65,67,71,84] 1 false] true).index [65,67,71,84,65,67,71,84] = some (2, 0, 8) := by
  decide +kernel

/-! ## Look-up -/

/-- **Key-level soundness of `_match_to_one_length` / `_match_to_multiple_lengths`**, for any index whose keys have
    indexed lengths, on every N-free read (short ones included): a returned match has `0 ≤ rstart ≤ rstop ≤ n`, is
    anchored, and the removed affix (of the upper-cased read) is a key of the index whose entry is the reported adapter
    with the reported errors and score. -/
theorem index_lookup_sound {D : Type} (ops : DictOps D) (idx : AdapterIndex D) (read : Bytes)
    (hN : (78 : UInt8) ∉ read.map asciiUpper)
    (hdesc : idx.lengths.Pairwise (· ≥ ·))
    (hkeys : ∀ s en, ops.get? idx.index s = some en → s.length ∈ idx.lengths)
    (hpos : idx.isPrefix = false → ∀ l ∈ idx.lengths, 1 ≤ l)
    (mt : IndexMatch) (h : indexMatchTo ops idx read = some mt) :
    0 ≤ mt.rstart ∧ mt.rstart ≤ mt.rstop ∧ mt.rstop ≤ read.length ∧
    (if idx.isPrefix then mt.rstart = 0 else mt.rstop = read.length) ∧
    mt.astart = 0 ∧ mt.astop = (idx.adapters.getD mt.adapter default).seq.length ∧
    ∃ m : Nat, mt.score = m ∧
      ops.get? idx.index (if idx.isPrefix then (read.map asciiUpper).take mt.rstop
                          else (read.map asciiUpper).drop mt.rstart.toNat) = some (mt.adapter, mt.errors, m) := by
  obtain ⟨len, m, hmem, hl, h1, h2, h3, h4, h5⟩ := indexMatchTo_key ops idx read hN hdesc hkeys hpos mt h
  cases hp : idx.isPrefix
  · simp only [hp, Bool.false_eq_true, if_false] at h4 h5 ⊢
    simp only [removedAffix, Bool.false_eq_true, if_false, List.length_map] at h5
    refine ⟨by omega, by omega, by omega, h4.2, h1, h2, m, h3, ?_⟩
    have : mt.rstart.toNat = read.length - len := by omega
    rw [this]; exact h5
  · simp only [hp, if_true] at h4 h5 ⊢
    simp only [removedAffix, if_true] at h5
    refine ⟨by omega, by omega, by omega, h4.1, h1, h2, m, h3, ?_⟩
    rw [h4.2]; exact h5

theorem makeIndex_lengths_desc {D : Type} (ops : DictOps D) (adapters : List Adapter) (isPrefix : Bool) :
    (makeIndex ops adapters isPrefix).lengths.Pairwise (· ≥ ·) := sortDesc_pairwise _

/-- an entry of the final index was offered by the adapter it names -/
theorem index_entry_offered {D : Type} (ops : DictOps D) (hl : ops.Lawful) (adapters : List Adapter) (isPrefix : Bool)
    (s : Bytes) (ai e m : Nat) (h : ops.get? (makeIndex ops adapters isPrefix).index s = some (ai, e, m)) :
    ∃ a, adapters[ai]? = some a ∧ (s, e, m) ∈ adapterItems a := by
  obtain ⟨_, _, h3⟩ := makeIndex_get? ops hl adapters isPrefix s
  rw [h3] at h
  split at h
  · simp at h
  · obtain ⟨ev, hev, rfl, rfl, rfl⟩ := keyState_mem _ ai e m h
    have hkey : ev.key = s := by simpa using (List.mem_filter.mp hev).2
    obtain ⟨a, ha, hit⟩ := (mem_events adapters ev).mp (List.mem_filter.mp hev).1
    exact ⟨a, ha, by rw [← hkey]; exact hit⟩

/-- what an offer of an adapter over ACGT means (relative to the two specifications above) -/
theorem adapterItems_spec (a : Adapter) (ha : IsACGT a.seq) (s : Bytes) (e m : Nat) (h : (s, e, m) ∈ adapterItems a) :
    e ≤ adapterK a ∧
    (if a.indels then Spec.IsDist (· == ·) 1 a.seq s e
     else s.length = a.seq.length ∧ Spec.hamming (· == ·) s a.seq = e) := by
  unfold adapterItems at h
  cases hi : a.indels
  · simp only [hi, Bool.false_eq_true, if_false, List.mem_flatMap, List.mem_range, List.mem_map] at h ⊢
    obtain ⟨e', he', s', hs', heq⟩ := h
    simp only [Prod.mk.injEq] at heq
    obtain ⟨rfl, rfl, _⟩ := heq
    have := (hammingSphere_spec a.seq e' ha s').mp hs'
    exact ⟨by omega, this.1, this.2.2⟩
  · simp only [hi, if_true] at h ⊢
    have := editEnvironment_sound a.seq (adapterK a) ha s e m h
    exact ⟨this.2.1, this.2.2⟩

/-- the length of every key of the final index is one of `lengths` -/
theorem index_keys_have_indexed_length {D : Type} (ops : DictOps D) (hl : ops.Lawful) (adapters : List Adapter)
    (isPrefix : Bool) (hacgt : ∀ a ∈ adapters, IsACGT a.seq) (s : Bytes) (en : Entry)
    (h : ops.get? (makeIndex ops adapters isPrefix).index s = some en) :
    s.length ∈ (makeIndex ops adapters isPrefix).lengths := by
  obtain ⟨h1, _, h3⟩ := makeIndex_get? ops hl adapters isPrefix s
  have hb : ops.get? (buildAll ops adapters).index s ≠ none := by
    rw [h1]; rw [h3] at h
    split at h
    · simp at h
    · rw [h]; simp
  exact (mem_sortDesc _ _).mpr ((buildAll_lengths ops hl adapters hacgt).1 s hb)

/-- no indexed length is 0 when every adapter tolerates fewer errors than it is long -/
theorem index_lengths_positive {D : Type} (ops : DictOps D) (hl : ops.Lawful) (adapters : List Adapter) (isPrefix : Bool)
    (hacgt : ∀ a ∈ adapters, IsACGT a.seq) (htol : ∀ a ∈ adapters, adapterK a < a.seq.length) :
    ∀ l ∈ (makeIndex ops adapters isPrefix).lengths, 1 ≤ l := by
  intro l hl'
  have hl'' : l ∈ (buildAll ops adapters).lengths := (mem_sortDesc _ _).mp hl'
  obtain ⟨ev, hev, hlen⟩ := (buildAll_lengths ops hl adapters hacgt).2 l hl''
  obtain ⟨a, ha, hit⟩ := (mem_events adapters ev).mp hev
  have hmem := List.mem_of_getElem? ha
  obtain ⟨hk, hd⟩ := adapterItems_spec a (hacgt a hmem) _ _ _ hit
  have ht := htol a hmem
  cases hi : a.indels
  · simp only [hi, Bool.false_eq_true, if_false] at hd
    omega
  · simp only [hi, if_true] at hd
    obtain ⟨⟨sc, h1, h2, h3⟩, _⟩ := hd
    have := (cost_ge sc).1
    rw [h1, h2, h3] at this
    omega

/-- the soundness clause of C08 for one configuration -/
def IndexSoundFor {D : Type} (ops : DictOps D) (adapters : List Adapter) (isPrefix : Bool) (read : Bytes) : Prop :=
  ∀ mt, indexMatchTo ops (makeIndex ops adapters isPrefix) read = some mt →
    ∃ a, adapters[mt.adapter]? = some a ∧
      0 ≤ mt.rstart ∧ mt.rstart ≤ mt.rstop ∧ mt.rstop ≤ read.length ∧
      (if isPrefix then mt.rstart = 0 else mt.rstop = read.length) ∧
      mt.astart = 0 ∧ mt.astop = a.seq.length ∧ mt.errors ≤ adapterK a ∧
      (if a.indels then
         Spec.IsDist (· == ·) 1 a.seq
           (if isPrefix then (read.map asciiUpper).take mt.rstop else (read.map asciiUpper).drop mt.rstart.toNat) mt.errors
       else
         (if isPrefix then (read.map asciiUpper).take mt.rstop else (read.map asciiUpper).drop mt.rstart.toNat).length
           = a.seq.length ∧
         Spec.hamming (· == ·)
           (if isPrefix then (read.map asciiUpper).take mt.rstop else (read.map asciiUpper).drop mt.rstart.toNat) a.seq
           = mt.errors)

/-- **Soundness of the index** (N-free reads of every length, short ones included): every match returned through the
    index lies inside the read, is anchored, names an adapter of the list, `errors` is within that adapter's tolerance
    and is the exact edit (Hamming, if indels are off) distance between the adapter and the removed affix of the
    upper-cased read. Side condition, for 3' adapters only: every adapter tolerates fewer errors than it is long (otherwise
    the empty string is indexed and `s[-0:]` is the whole string). Reads with `N` go through `_lookup_with_n`, whose
    result is a `match_to` of the adapter itself (C01). -/
theorem index_sound {D : Type} (ops : DictOps D) (hl : ops.Lawful) (adapters : List Adapter) (isPrefix : Bool)
    (read : Bytes) (hacgt : ∀ a ∈ adapters, IsACGT a.seq) (hN : (78 : UInt8) ∉ read.map asciiUpper)
    (htol : isPrefix = false → ∀ a ∈ adapters, adapterK a < a.seq.length) :
    IndexSoundFor ops adapters isPrefix read := by
  intro mt h
  obtain ⟨h1, h2, h3, h4, h5, h6, m, _, hg⟩ :=
    index_lookup_sound ops (makeIndex ops adapters isPrefix) read hN (makeIndex_lengths_desc ops adapters isPrefix)
      (index_keys_have_indexed_length ops hl adapters isPrefix hacgt)
      (fun hp => index_lengths_positive ops hl adapters isPrefix hacgt (htol hp)) mt h
  have hpfx : (makeIndex ops adapters isPrefix).isPrefix = isPrefix := rfl
  have hads : (makeIndex ops adapters isPrefix).adapters = adapters := rfl
  rw [hpfx] at h4 hg
  rw [hads] at h6
  obtain ⟨a, hai, hoff⟩ := index_entry_offered ops hl adapters isPrefix _ _ _ _ hg
  have haA : IsACGT a.seq := hacgt a (List.mem_of_getElem? hai)
  obtain ⟨hk, hd⟩ := adapterItems_spec a haA _ _ _ hoff
  have hgetD : adapters.getD mt.adapter default = a := by simp [List.getD_eq_getElem?_getD, hai]
  rw [hgetD] at h6
  exact ⟨a, hai, h1, h2, h3, h4, h5, h6, hk, hd⟩

/-- **Per-adapter indel settings** (`;noindels` on some adapters of one index): `index_sound` uses each adapter's own
    flag. In particular a match reported for an adapter that does not allow indels removes exactly as many characters as
    the adapter is long, and `errors` is their Hamming distance — whatever the other adapters of the index allow. -/
theorem index_noindels_adapter_is_hamming {D : Type} (ops : DictOps D) (hl : ops.Lawful) (adapters : List Adapter)
    (isPrefix : Bool) (read : Bytes) (hacgt : ∀ a ∈ adapters, IsACGT a.seq) (hN : (78 : UInt8) ∉ read.map asciiUpper)
    (htol : isPrefix = false → ∀ a ∈ adapters, adapterK a < a.seq.length)
    (mt : IndexMatch) (h : indexMatchTo ops (makeIndex ops adapters isPrefix) read = some mt)
    (a : Adapter) (ha : adapters[mt.adapter]? = some a) (hni : a.indels = false) :
    (mt.rstop : Int) - mt.rstart = a.seq.length ∧
    Spec.hamming (· == ·)
      (if isPrefix then (read.map asciiUpper).take mt.rstop else (read.map asciiUpper).drop mt.rstart.toNat) a.seq
      = mt.errors ∧ mt.errors ≤ adapterK a := by
  obtain ⟨a', ha', h0, h1, h2, h3, _, _, hk, hd⟩ := index_sound ops hl adapters isPrefix read hacgt hN htol mt h
  rw [ha] at ha'
  obtain rfl := Option.some.inj ha'
  simp only [hni, Bool.false_eq_true, if_false] at hd
  refine ⟨?_, hd.2, hk⟩
  have hlen := hd.1
  cases isPrefix
  · simp only [Bool.false_eq_true, if_false, List.length_drop, List.length_map] at hlen h3
    omega
  · simp only [if_true, List.length_take, List.length_map] at hlen h3
    omega

/-- `-g "^ACGTACGTAC;noindels" -g "^TTGCAATTGC"` (one error each), read `ACGTACCGTACACACCGTTTT`: the first adapter would
    fit with one insertion, but it does not allow indels — nothing is reported (an index that built the edit environment
    for every adapter would remove 11 characters) -/
example : indexMatchTo alistOps (makeIndex alistOps
      [mkA .prefix [65,67,71,84,65,67,71,84,65,67] 1 false, mkA .prefix [84,84,71,67,65,65,84,84,71,67] 1 true] true)
      [65,67,71,84,65,67,67,71,84,65,67,65,67,65,67,67,71,84,84,84,84] = none := by decide +kernel
/-- … while the second adapter of the same index does match with a deletion (`TTGCATTGC…`) -/
example : indexMatchTo alistOps (makeIndex alistOps
      [mkA .prefix [65,67,71,84,65,67,71,84,65,67] 1 false, mkA .prefix [84,84,71,67,65,65,84,84,71,67] 1 true] true)
      [84,84,71,67,65,84,84,71,67,65,65,65] = some ⟨1, 0, 10, 0, 9, 9, 1⟩ := by decide +kernel

/-- **Coordinates inside the read for every read — with or without `N`, of any length**: `0 ≤ rstart ≤ rstop ≤ n` and
    the match is anchored. For reads with `N` the match length is that of the re-alignment by the adapter's own
    `match_to`; `RealignInside adapters` is the C01 fact that such a re-alignment lies inside the string it was given
    (`C01.matchTo_sound … .bounds`, for every well-formed adapter). -/
theorem index_coordinates_in_read {D : Type} (ops : DictOps D) (hl : ops.Lawful) (adapters : List Adapter) (isPrefix : Bool)
    (read : Bytes) (hacgt : ∀ a ∈ adapters, IsACGT a.seq) (hre : RealignInside adapters)
    (mt : IndexMatch) (h : indexMatchTo ops (makeIndex ops adapters isPrefix) read = some mt) :
    0 ≤ mt.rstart ∧ mt.rstart ≤ mt.rstop ∧ mt.rstop ≤ read.length ∧
    (if isPrefix then mt.rstart = 0 else mt.rstop = read.length) := by
  refine indexMatchTo_coords ops (makeIndex ops adapters isPrefix) read ?_
    (index_keys_have_indexed_length ops hl adapters isPrefix hacgt) hre mt h
  intro s ai e m hg
  obtain ⟨a, hai, _⟩ := index_entry_offered ops hl adapters isPrefix s ai e m hg
  exact ⟨a, List.mem_of_getElem? hai, by
    show adapters.getD ai default = a
    simp [List.getD_eq_getElem?_getD, hai]⟩

/-- former defect 3 (`^ACGTACGT`, `^TTTTGGGG`, one error, indels; read `ACGTACGTNA`): the affix `ACGTACGTN` of length 9
    is looked up, the re-alignment covers 8 characters with 0 errors, and 8 — not 9 — characters are removed -/
example : indexMatchTo alistOps (makeIndex alistOps
      [mkA .prefix [65,67,71,84,65,67,71,84] 1 true, mkA .prefix [84,84,84,84,71,71,71,71] 1 true] true)
      [65,67,71,84,65,67,71,84,78,65] = some ⟨0, 0, 8, 0, 8, 8, 0⟩ := by decide +kernel

/-- former defect 1 (3' adapters `ACGT$`, `ACACGT$`, read `ACGT`, shorter than the indexed length 6): the length 6 is
    skipped now and the read is found at length 4, `rstart = 0` (was `−2`) -/
example : indexMatchTo alistOps (makeIndex alistOps [mkA .suffix [65,67,71,84] 0 false, mkA .suffix [65,67,65,67,71,84] 0 false] false)
    [65,67,71,84] = some ⟨0, 0, 4, 0, 4, 4, 0⟩ := by decide
/-- the same on a 5' index: `rstop = 4` (was 6) -/
example : indexMatchTo alistOps (makeIndex alistOps [mkA .prefix [65,67,71,84] 0 false, mkA .prefix [65,67,71,84,65,67] 0 false] true)
    [65,67,71,84] = some ⟨0, 0, 4, 0, 4, 4, 0⟩ := by decide
/-- a longer read: found, inside the read -/
example : indexMatchTo alistOps (makeIndex alistOps [mkA .suffix [65,67,71,84] 0 false, mkA .suffix [65,67,65,67,71,84] 0 false] false)
    [84,84,65,67,71,84] = some ⟨0, 0, 4, 2, 6, 4, 0⟩ := by decide
/-- an instance of `index_sound` with indels: 3' adapter `ACGT$` with one error, read `GGACT` -/
example : IndexSoundFor alistOps [mkA .suffix [65,67,71,84] 1 true, mkA .suffix [84,84,84,84] 1 true] false [71,71,65,67,84] :=
  index_sound alistOps alistOps_lawful _ false _ (by decide) (by decide) (fun _ => by decide)
example : indexMatchTo alistOps (makeIndex alistOps [mkA .suffix [65,67,71,84] 1 true, mkA .suffix [84,84,84,84] 1 true] false)
    [71,71,65,67,84] = some ⟨0, 0, 4, 2, 5, 3, 1⟩ := by decide +kernel

/-! ## The nearest adapter is reported -/

/-- **The strictly nearest admissible adapter is reported** (equally long adapters, no indels, upper-case ACGT read at
    least as long as the adapters) — what the uniqueness and agreement clauses of C08 come to: if the adapter at position
    `i` is within its tolerance of the read's affix and strictly closer to it than every other admissible adapter, the
    index reports adapter `i` with that distance, whatever the order of the list and whatever ties exist between worse
    candidates. `Admissible adapters s j b`: `b` is the adapter at position `j` and `s` is within `b`'s tolerance. -/
theorem index_nearest {D : Type} (ops : DictOps D) (hl : ops.Lawful) (adapters : List Adapter) (isPrefix : Bool)
    (read : Bytes) (L : Nat)
    (hads : ∀ a ∈ adapters, IsACGT a.seq ∧ a.seq.length = L ∧ a.indels = false)
    (hread : IsACGT read) (hL : L ≤ read.length) (hL1 : 1 ≤ L)
    (i : Nat) (a : Adapter) (hadm : Admissible adapters (removedAffix isPrefix read L) i a)
    (hstrict : ∀ j b, Admissible adapters (removedAffix isPrefix read L) j b → j ≠ i →
      Spec.hamming (· == ·) (removedAffix isPrefix read L) a.seq < Spec.hamming (· == ·) (removedAffix isPrefix read L) b.seq) :
    ∃ mt, indexMatchTo ops (makeIndex ops adapters isPrefix) read = some mt ∧ mt.adapter = i ∧
      mt.errors = Spec.hamming (· == ·) (removedAffix isPrefix read L) a.seq ∧
      mt.astart = 0 ∧ mt.astop = L ∧
      (if isPrefix then mt.rstart = 0 ∧ mt.rstop = L else mt.rstart = ((read.length - L : Nat) : Int) ∧ mt.rstop = read.length) := by
  have hmem : a ∈ adapters := List.mem_of_getElem? hadm.1
  have hne : adapters ≠ [] := List.ne_nil_of_mem hmem
  have hlens := makeIndex_lengths_equal ops adapters isPrefix L hne (fun b hb => ⟨(hads b hb).2.2, (hads b hb).2.1⟩)
  have hup := asciiUpper_acgt read hread
  have hN : (78 : UInt8) ∉ read.map asciiUpper := by
    rw [hup]; intro h; exact absurd (hread 78 h) (by decide)
  have hsub : ∀ c ∈ removedAffix isPrefix read L, c ∈ acgt := fun c hc => hread c (removedAffix_subset _ _ _ c hc)
  have hentry := nearest_entry ops hl adapters isPrefix L hads (removedAffix isPrefix read L) hsub
    (removedAffix_length _ _ _ hL) i a hadm hstrict
  have hidxp : (makeIndex ops adapters isPrefix).isPrefix = isPrefix := rfl
  have hg : ops.get? (makeIndex ops adapters isPrefix).index
      (removedAffix (makeIndex ops adapters isPrefix).isPrefix (read.map asciiUpper) L) = some
        (i, Spec.hamming (· == ·) (removedAffix isPrefix read L) a.seq,
          L - Spec.hamming (· == ·) (removedAffix isPrefix read L) a.seq) := by
    rw [hidxp, hup]; exact hentry
  have hit := indexMatchTo_one_hit ops (makeIndex ops adapters isPrefix) read L hlens hN (fun _ => hL1) _ _ _ hg
  refine ⟨_, hit, ?_⟩
  have hgetD : (makeIndex ops adapters isPrefix).adapters.getD i default = a := by
    show adapters.getD i default = a
    simp [List.getD_eq_getElem?_getD, hadm.1]
  have hla := (hads a hmem).2.1
  cases isPrefix
  · simp only [makeMatch, hidxp, Bool.false_eq_true, if_false, hgetD, hla]
    refine ⟨trivial, trivial, trivial, trivial, by omega, trivial⟩
  · simp only [makeMatch, hidxp, if_true, hgetD, hla]
    exact ⟨trivial, trivial, trivial, trivial, trivial, trivial⟩

/-- **Uniqueness** (equally long adapters, no indels): when exactly one indexed adapter is within its tolerance of the
    read's affix, the index reports that adapter. -/
theorem index_unique {D : Type} (ops : DictOps D) (hl : ops.Lawful) (adapters : List Adapter) (isPrefix : Bool)
    (read : Bytes) (L : Nat)
    (hads : ∀ a ∈ adapters, IsACGT a.seq ∧ a.seq.length = L ∧ a.indels = false)
    (hread : IsACGT read) (hL : L ≤ read.length) (hL1 : 1 ≤ L)
    (i : Nat) (a : Adapter) (hadm : Admissible adapters (removedAffix isPrefix read L) i a)
    (honly : ∀ j b, Admissible adapters (removedAffix isPrefix read L) j b → j = i) :
    ∃ mt, indexMatchTo ops (makeIndex ops adapters isPrefix) read = some mt ∧ mt.adapter = i ∧
      mt.errors = Spec.hamming (· == ·) (removedAffix isPrefix read L) a.seq := by
  obtain ⟨mt, h1, h2, h3, _⟩ := index_nearest ops hl adapters isPrefix read L hads hread hL hL1 i a hadm
    (fun j b hb hne => absurd (honly j b hb) hne)
  exact ⟨mt, h1, h2, h3⟩

/-- former defect 2: `^TCGTACGT`, `^CCGTACGT`, `^ACGTACGT`, one mismatch, no indels, read `ACGTACGTAA` — the exact adapter
    is listed last, after the two that tie on its sequence; it is reported (the read used to stay unassigned) -/
theorem index_cleared_tie_witness :
    indexMatchTo alistOps (makeIndex alistOps
      [mkA .prefix [84,67,71,84,65,67,71,84] 1 false, mkA .prefix [67,67,71,84,65,67,71,84] 1 false,
       mkA .prefix [65,67,71,84,65,67,71,84] 1 false] true) [65,67,71,84,65,67,71,84,65,65]
    = some ⟨2, 0, 8, 0, 8, 8, 0⟩ := by decide +kernel

/-- the same through `index_nearest` -/
example : ∃ mt, indexMatchTo alistOps (makeIndex alistOps
      [mkA .prefix [84,67,71,84,65,67,71,84] 1 false, mkA .prefix [67,67,71,84,65,67,71,84] 1 false,
       mkA .prefix [65,67,71,84,65,67,71,84] 1 false] true) [65,67,71,84,65,67,71,84,65,65] = some mt ∧ mt.adapter = 2 := by
  have := index_nearest alistOps alistOps_lawful
    [mkA .prefix [84,67,71,84,65,67,71,84] 1 false, mkA .prefix [67,67,71,84,65,67,71,84] 1 false,
     mkA .prefix [65,67,71,84,65,67,71,84] 1 false] true [65,67,71,84,65,67,71,84,65,65] 8
    (by decide) (by decide) (by decide) (by decide) 2 _ ⟨rfl, by decide⟩
    (by
      intro j b hb hne
      match j, hb, hne with
      | 0, ⟨h1, _⟩, _ => simp at h1; subst h1; decide
      | 1, ⟨h1, _⟩, _ => simp at h1; subst h1; decide
      | 2, _, hne => exact absurd rfl hne
      | j+3, ⟨h1, _⟩, _ => simp at h1)
  obtain ⟨mt, h1, h2, _⟩ := this
  exact ⟨mt, h1, h2⟩

/-! ## Tolerance over the full adapter for absolute error counts (regenerated from the working tree on every run) -/

/-- `-e k` on an adapter of `n` informative bases is stored as the double `k/n`; over the whole adapter the tolerance is `floor(fl(k/n) · n)`
    (`thrOfRate`), which is `k - 1` for a few pairs such as (1, 49) -/
def fullTolerance (k n : Nat) : Nat := Cutadapt.Adapters.thrOfRate (Float.ofNat k / Float.ofNat n) n

/-- **Through the adapter index the real program accepts the same number of substitutions as the adapter alone** (`floor(fl(k/n) · n)`; observed for `k ≤ 2`, where
    the index is small): the index's own computation of the tolerance and the adapter's agree on the working tree -/
theorem generated_index_tolerance :
    ∀ row ∈ Cutadapt.Generated.toleranceRows, row.2.2.2.1 = none ∨ (row.2.2.2.1 = some (fullTolerance row.1 row.2.1) ∧ row.2.2.2.1 = some row.2.2.1) := by
  decide +kernel

end Cutadapt.C08
