import Cutadapt.Proofs.StepsDemux
import Cutadapt.Proofs.StepsShape
import Cutadapt.Generated.Demux
/-! # C15 — demultiplexing puts every read into the file of its adapter

Model: `Cutadapt.Pipeline` (`stepS`/`stepP` on `Step.demux`, `Step.combDemux`; `lookupLast`), `Cutadapt.Assembly.makeSteps`.
Helper lemmas: `Cutadapt/Proofs/StepsMake.lean` (closed form of `makeSteps`), `StepsDemux.lean`, `StepsPrefix.lean`. -/
namespace Cutadapt.C15
open Cutadapt Cutadapt.Steps

/-- name of the adapter a match belongs to (`match.adapter.name`); `""` only for an index outside the adapter list -/
def adapterName (ads : List Matchable) (m : AnyMatch) : String := (namesOf ads).getD m.adapter ""

theorem adapterName_eq (ads : List Matchable) (m : AnyMatch) (a : Matchable) (h : ads[m.adapter]? = some a) :
    adapterName ads m = a.name := by
  have hlt : m.adapter < ads.length := (List.getElem?_eq_some_iff.mp h).1
  have hlt' : m.adapter < (ads.map Matchable.name).length := by simpa using hlt
  simp only [adapterName, namesOf, List.getD, List.getElem?_append_left hlt', List.getElem?_map, h]
  rfl

/-! ## Routing -/

/-- `dict` lookup as `lookupLast` models it: the last binding of a key wins -/
theorem lookupLast_spec [BEq κ] [LawfulBEq κ] (k : κ) (l1 l2 : List (κ × ν)) (v : ν)
    (h : ∀ p ∈ l2, p.1 ≠ k) : lookupLast k (l1 ++ (k, v) :: l2) = some v := by
  unfold lookupLast
  rw [List.reverse_append, List.reverse_cons, List.append_assoc, List.find?_append]
  have : l2.reverse.find? (fun p => p.1 == k) = none := by
    rw [List.find?_eq_none]
    intro p hp
    simpa using h p (by simpa using hp)
  simp [this]

/-- **Single-end.** With a last match `m`: the read goes to the writer bound to the name of `m`'s adapter and is counted
    as written (`KeyError` if there is no such file). Without a match: to the untrimmed/"unknown" writer, counted as
    written — or, with `--discard-untrimmed`, nowhere, counted as filtered. -/
theorem demux_routing (ads : List Matchable) (k : Nat) (ws : List (String × Nat)) (un : Option Nat) (r : Read) (i : Info) :
    (∀ m, i.mts.getLast? = some m →
      stepS ads k (.demux ws un) r i =
        match lookupLast (adapterName ads m) ws with
        | some w => .ok (none, [.sinkStat k r.len none, .write w r none])
        | none => .error .key) ∧
    (i.mts = [] →
      stepS ads k (.demux ws un) r i =
        match un with
        | some w => .ok (none, [.sinkStat k r.len none, .write w r none])
        | none => .ok (none, [.filtered k])) := by
  refine ⟨fun m hm => ?_, fun h => ?_⟩
  · simp only [stepS, hm, adapterName]
    rfl
  · simp only [stepS, h, List.getLast?_nil]
    rfl

/-- **Paired-end, `{name}`.** The same, decided by the matches on R1 only; both mates go to the chosen writer. -/
theorem demux_routing_paired (a1 a2 : List Matchable) (k : Nat) (ws : List (String × Nat)) (un : Option Nat)
    (r1 r2 : Read) (i1 i2 : Info) :
    (∀ m, i1.mts.getLast? = some m →
      stepP a1 a2 k (.demux ws un) (r1, r2) (i1, i2) =
        match lookupLast (adapterName a1 m) ws with
        | some w => .ok (none, [.sinkStat k r1.len (some r2.len), .write w r1 (some r2)])
        | none => .error .key) ∧
    (i1.mts = [] →
      stepP a1 a2 k (.demux ws un) (r1, r2) (i1, i2) =
        match un with
        | some w => .ok (none, [.sinkStat k r1.len (some r2.len), .write w r1 (some r2)])
        | none => .ok (none, [.filtered k])) ∧
    (∀ i2', stepP a1 a2 k (.demux ws un) (r1, r2) (i1, i2') = stepP a1 a2 k (.demux ws un) (r1, r2) (i1, i2)) := by
  refine ⟨fun m hm => ?_, fun h => ?_, fun i2' => rfl⟩
  · simp only [stepP, hm, adapterName]
    rfl
  · simp only [stepP, h, List.getLast?_nil]
    rfl

/-- **Combinatorial, `{name1}`/`{name2}`.** The key is the pair (name of the last R1 match or `none`, name of the last R2
    match or `none`); the pair is written iff the key is bound to a file, else counted as filtered. -/
theorem comb_routing (a1 a2 : List Matchable) (k : Nat) (ws : List ((Option String × Option String) × Nat))
    (r1 r2 : Read) (i1 i2 : Info) :
    stepP a1 a2 k (.combDemux ws) (r1, r2) (i1, i2) =
      match lookupLast (i1.mts.getLast?.map (adapterName a1), i2.mts.getLast?.map (adapterName a2)) ws with
      | some w => .ok (none, [.sinkStat k r1.len (some r2.len), .write w r1 (some r2)])
      | none => .ok (none, [.filtered k]) := by
  simp only [stepP]
  rfl

/-- R1 ends in a match of adapter 1 ("b"): the read goes to writer 11, not to "a"'s writer 10 nor to "unknown" 12 -/
example (r : Read) (m : MatchRec) (x : Adapters.Adapter) :
    stepS [.linked x x true true "a", .linked x x true true "b"] 3 (.demux [("a", 10), ("b", 11)] (some 12)) r
      { mts := [.single 0 m, .single 1 m], original := r } = .ok (none, [.sinkStat 3 r.len none, .write 11 r none]) := by
  rfl
example (r : Read) : stepS [] 3 (.demux [("a", 10)] (some 12)) r { original := r } =
    .ok (none, [.sinkStat 3 r.len none, .write 12 r none]) := rfl
example (r : Read) : stepS [] 3 (.demux [("a", 10)] none) r { original := r } = .ok (none, [.filtered 3]) := rfl

/-! ## A file for every adapter name -/

/-- the writer opened for adapter name `n`: `{name}` replaced in `-o` (and `-p`) -/
theorem demuxWriter_paths (o : Opts) (n : String) :
    (demuxWriter o n).path1 = o.output.replace "{name}" n ∧
    (demuxWriter o n).path2 = (if o.paired = true then o.pairedOutput.map (·.replace "{name}" n) else none) ∧
    (unknownWriter o).path1 = o.untrimmedOut.getD (o.output.replace "{name}" "unknown") ∧
    (unknownWriter o).path2 = (if o.paired = true then
        some (o.untrimmedPaired.getD ((o.pairedOutput.getD "").replace "{name}" "unknown")) else none) := by
  cases h : o.paired <;> simp [demuxWriter, unknownWriter, h]

/-- **`{name}`.** When `makeSteps` succeeds in demultiplexing mode, the step list ends in the demultiplexer, and — after the
    writers `n0` of the filters' redirect files — the opened writers are, in order, one per adapter name (bound to that name
    in the demultiplexer), then, unless `--discard-untrimmed`, the one for reads without match. This is fixed by the
    options and the adapter names alone: `makeSteps` does not see any read, the files exist even if they stay empty. -/
theorem demux_writers_opened {o : Opts} {names names2 : List String} {steps : List Step} {f : Files}
    (h : makeSteps o names names2 = .ok (steps, f)) (hdm : demuxMode o = .ok 1) :
    ∃ pre n0, n0 = (front o).1.writers.length ∧
      steps = pre ++ [.demux (names.zipIdx n0) (if o.discardUntrimmed = true then none else some (n0 + names.length))] ∧
      f.writers = (front o).1.writers ++ names.map (demuxWriter o) ++
        (if o.discardUntrimmed = true then [] else [unknownWriter o]) ∧
      (∀ j n, names[j]? = some n → f.writers[n0 + j]? = some (demuxWriter o n)) ∧
      (o.discardUntrimmed = false → f.writers[n0 + names.length]? = some (unknownWriter o)) := by
  obtain ⟨dm, hdm', -, -, heq⟩ := makeSteps_ok h
  rw [hdm] at hdm'
  simp only [Except.ok.injEq] at hdm'
  subst hdm'
  simp only [finalD, if_true, openMany] at heq
  refine ⟨(front o).2 ++ simpleSteps o, _, rfl, ?_⟩
  cases hd : o.discardUntrimmed
  · simp only [hd, Bool.false_eq_true, if_false, Prod.mk.injEq, Files.openWriter] at heq
    obtain ⟨rfl, rfl⟩ := heq
    refine ⟨by simp, by simp, fun j n hj => ?_, fun _ => ?_⟩
    · have hlt : j < names.length := by
        rcases Nat.lt_or_ge j names.length with h | h
        · exact h
        · rw [List.getElem?_eq_none h] at hj; simp at hj
      simp only [List.append_assoc]
      rw [List.getElem?_append_right (Nat.le_add_right _ _), Nat.add_sub_cancel_left,
        List.getElem?_append_left (by simpa using hlt), List.getElem?_map, hj]
      rfl
    · simp only [List.append_assoc]
      rw [List.getElem?_append_right (Nat.le_add_right _ _), Nat.add_sub_cancel_left,
        List.getElem?_append_right (by simp)]
      simp
  · simp only [hd, if_true, Prod.mk.injEq] at heq
    obtain ⟨rfl, rfl⟩ := heq
    refine ⟨by simp, by simp, fun j n hj => ?_, fun hc => by simp at hc⟩
    have hlt : j < names.length := by
      rcases Nat.lt_or_ge j names.length with h | h
      · exact h
      · rw [List.getElem?_eq_none h] at hj; simp at hj
    rw [List.getElem?_append_right (Nat.le_add_right _ _), Nat.add_sub_cancel_left, List.getElem?_map, hj]
    rfl

/-- **`{name1}`/`{name2}`.** One writer per pair of names in `names × names2`, then — unless `--discard-untrimmed` — the
    combinations with "unknown": (none, none), (none, n2) for every R2 name, (n1, none) for every R1 name. -/
theorem comb_writers_opened {o : Opts} {names names2 : List String} {steps : List Step} {f : Files}
    (h : makeSteps o names names2 = .ok (steps, f)) (hdm : demuxMode o = .ok 2) :
    ∃ pre n0, n0 = (front o).1.writers.length ∧
      steps = pre ++ [.combDemux ((combKeys o names names2).zipIdx n0)] ∧
      f.writers = (front o).1.writers ++ (combKeys o names names2).map (combWriter o) ∧
      combKeys o names names2 =
        (names.flatMap fun a => names2.map fun b => (some a, some b)) ++
        (if o.discardUntrimmed = true then [] else
          [(none, none)] ++ names2.map (fun n => (none, some n)) ++ names.map (fun n => (some n, none))) ∧
      ∀ k : Option String × Option String,
        (combWriter o k).path1 = (o.output.replace "{name1}" (k.1.getD "unknown")).replace "{name2}" (k.2.getD "unknown") ∧
        (combWriter o k).path2 =
          some (((o.pairedOutput.getD "").replace "{name1}" (k.1.getD "unknown")).replace "{name2}" (k.2.getD "unknown")) := by
  obtain ⟨dm, hdm', -, -, heq⟩ := makeSteps_ok h
  rw [hdm] at hdm'
  simp only [Except.ok.injEq] at hdm'
  subst hdm'
  simp only [finalD, show ((2 : Nat) = 1) = False by decide, if_false, if_true, openMany, Prod.mk.injEq] at heq
  obtain ⟨rfl, rfl⟩ := heq
  exact ⟨(front o).2 ++ simpleSteps o, _, rfl, rfl, rfl, rfl, fun k => ⟨rfl, rfl⟩⟩

/-! ## The demultiplexed files partition the plain output -/

/-- the writers of a demultiplexer with an "unknown"/untrimmed file -/
def demuxWriters (ws : List (String × Nat)) (u : Nat) : List Nat := ws.map (·.2) ++ [u]

/-- **Per read.** Same steps `pre`, closed by a demultiplexer (no `--discard-untrimmed`) in one pipeline and by a plain
    sink in the other. If the demultiplexing run of a read succeeds, then so does the plain run, and either both logs are
    identical (a filter of `pre` consumed the read: neither final step sees it), or the demultiplexer writes the read `r'`
    to one of its writers and the sink writes the identical record `r'` to `w0`, both counting it as written. -/
theorem demux_is_partition_per_read {ads : List Matchable} {pre : List Step} {ws : List (String × Nat)} {u w0 idx : Nat}
    {r : Read} {i : Info} {evs0 evsD : List Event}
    (hD : runStepsS ads (pre ++ [.demux ws (some u)]) idx r i evs0 = .ok evsD) :
    ∃ e, (∀ w a b, Event.write w a b ∈ e → ∃ s ∈ pre, w ∈ s.writers) ∧
      ((evsD = evs0 ++ e ∧ runStepsS ads (pre ++ [.sink w0]) idx r i evs0 = .ok (evs0 ++ e)) ∨
       (∃ r' w, w ∈ demuxWriters ws u ∧
          evsD = evs0 ++ e ++ [.sinkStat (idx + pre.length) r'.len none, .write w r' none] ∧
          runStepsS ads (pre ++ [.sink w0]) idx r i evs0 =
            .ok (evs0 ++ e ++ [.write w0 r' none, .sinkStat (idx + pre.length) r'.len none]))) := by
  rw [runStepsS_append] at hD
  rw [runStepsS_append]
  cases hp : runPrefixS ads pre idx r i with
  | error e => simp [hp] at hD
  | ok v =>
    obtain ⟨o, e⟩ := v
    refine ⟨e, fun w a b hw => runPrefixS_writes hp hw, ?_⟩
    cases o with
    | none =>
      simp only [hp, Except.ok.injEq] at hD
      exact .inl ⟨hD.symm, rfl⟩
    | some r' =>
      right
      simp only [hp, runStepsS] at hD ⊢
      split at hD
      · simp at hD
      · rename_i e' hs
        simp only [Except.ok.injEq] at hD
        obtain ⟨-, hcase⟩ := stepS_final (s := .demux ws (some u)) rfl hs
        rcases hcase with ⟨w, hw, he⟩ | ⟨he, -⟩
        · have he' : e' = [.sinkStat (idx + pre.length) r'.len none, .write w r' none] := by
            simp only [stepS] at hs
            repeat' split at hs
            all_goals first
              | (simp at hs; done)
              | (simp only [Except.ok.injEq, Prod.mk.injEq, true_and] at hs
                 rcases he with rfl | rfl
                 · simp at hs
                 · rfl)
          subst he'
          exact ⟨r', w, by simpa [demuxWriters, Step.writers] using hw, hD.symm, by simp [stepS]⟩
        · subst he
          simp only [stepS] at hs
          repeat' split at hs
          all_goals simp at hs
      · rename_i r'' e' hs
        have := (stepS_final (s := .demux ws (some u)) rfl hs).1
        simp at this

/-- conversely the plain run cannot fail where the demultiplexing run does not, and with a file for every adapter name the
    demultiplexing run does not fail where the plain run succeeds -/
theorem plain_ok_demux_ok {ads : List Matchable} {pre : List Step} {ws : List (String × Nat)} {u w0 idx : Nat}
    {r : Read} {i : Info} {evs0 evsS : List Event}
    (hlook : ∀ m, i.mts.getLast? = some m → (lookupLast (adapterName ads m) ws).isSome = true)
    (hS : runStepsS ads (pre ++ [.sink w0]) idx r i evs0 = .ok evsS) :
    ∃ evsD, runStepsS ads (pre ++ [.demux ws (some u)]) idx r i evs0 = .ok evsD := by
  rw [runStepsS_append] at hS ⊢
  cases hp : runPrefixS ads pre idx r i with
  | error e => simp [hp] at hS
  | ok v =>
    obtain ⟨o, e⟩ := v
    cases o with
    | none => exact ⟨_, rfl⟩
    | some r' =>
      simp only [runStepsS, stepS]
      cases hm : i.mts.getLast? with
      | none => exact ⟨_, rfl⟩
      | some m =>
        obtain ⟨w, hw⟩ := Option.isSome_iff_exists.1 (hlook m hm)
        simp only [adapterName] at hw
        simp only [hw]
        exact ⟨_, rfl⟩

/-- per read, at the level of `processReadS`: the plain pipeline succeeds, and the record it writes to `w0` is exactly what
    the demultiplexing pipeline writes to its writers taken together -/
theorem partition_of_read {ads : List Matchable} {mods : List SMod} {pre : List Step} {ws : List (String × Nat)}
    {u w0 : Nat} (hW : (demuxWriters ws u).Nodup)
    (hapartD : ∀ s ∈ pre, ∀ w ∈ s.writers, w ∉ demuxWriters ws u) (hapartS : ∀ s ∈ pre, w0 ∉ s.writers)
    {r : Read} {eD : List Event} (hD : processReadS ⟨ads, mods, pre ++ [.demux ws (some u)]⟩ r = .ok eD) :
    ∃ eS, processReadS ⟨ads, mods, pre ++ [.sink w0]⟩ r = .ok eS ∧
      recordsTo [w0] eS = (demuxWriters ws u).flatMap (fun w => recordsTo [w] eD) := by
  unfold processReadS at hD ⊢
  simp only at hD ⊢
  cases hm : runModsS (namesOf ads) mods r { original := r } [Event.input r.len none] with
  | error e => simp [hm] at hD
  | ok v =>
    obtain ⟨r', i', evs0⟩ := v
    simp only [hm] at hD ⊢
    obtain ⟨cnt, rfl, hc⟩ := runModsS_counter hm
    have h0 : ∀ W, recordsTo W ([Event.input r.len none] ++ cnt) = [] := fun W =>
      recordsTo_eq_nil (fun w a b hw => by
        simp only [List.cons_append, List.nil_append, List.mem_cons, reduceCtorEq, false_or] at hw
        have := hc _ hw; simp [isCounter] at this)
    obtain ⟨e, hwr, hcase⟩ := demux_is_partition_per_read (w0 := w0) hD
    have heS : recordsTo [w0] e = [] := recordsTo_eq_nil (fun w a b hw hmem => by
      obtain ⟨s, hs, hws⟩ := hwr w a b hw
      simp only [List.mem_singleton] at hmem
      exact hapartS s hs (hmem ▸ hws))
    have heD : ∀ w' ∈ demuxWriters ws u, recordsTo [w'] e = [] := fun w' hw' =>
      recordsTo_eq_nil (fun w a b hw hmem => by
        obtain ⟨s, hs, hws⟩ := hwr w a b hw
        simp only [List.mem_singleton] at hmem
        exact hapartD s hs w hws (hmem ▸ hw'))
    rcases hcase with ⟨rfl, hS⟩ | ⟨r'', w, hw, rfl, hS⟩
    · refine ⟨_, hS, ?_⟩
      rw [recordsTo_append, h0, heS]
      rw [flatMap_congr_mem (g := fun _ => []) (fun w' hw' => by rw [recordsTo_append, h0, heD w' hw']; rfl)]
      simp
    · refine ⟨_, hS, ?_⟩
      rw [recordsTo_append, recordsTo_append, h0, heS]
      rw [flatMap_congr_mem (g := fun w' => if w' = w then [(r'', none)] else []) (fun w' hw' => by
        rw [recordsTo_append, recordsTo_append, h0, heD w' hw']
        by_cases hww : w' = w
        · subst hww; simp [recordsTo]
        · have : ¬ w = w' := fun e => hww e.symm
          simp [recordsTo, hww, this])]
      rw [flatMap_single hW hw]
      simp [recordsTo]

/-- **Whole run.** Same adapters, modifiers and filters; one pipeline closed by a demultiplexer with an "unknown" file
    (no trimmed/untrimmed option), the other by the plain sink `w0`; writer indices distinct. If the demultiplexing run
    is error-free, so is the plain run, and the records of the main output are a permutation of the records of all
    demultiplexed files together: nothing lost, nothing duplicated, identical records. -/
theorem demux_is_partition_of_plain_output {ads : List Matchable} {mods : List SMod} {pre : List Step}
    {ws : List (String × Nat)} {u w0 : Nat} {reads : List Read} {evsD : List Event}
    (hW : (demuxWriters ws u).Nodup)
    (hapartD : ∀ s ∈ pre, ∀ w ∈ s.writers, w ∉ demuxWriters ws u) (hapartS : ∀ s ∈ pre, w0 ∉ s.writers)
    (hD : runSingle ⟨ads, mods, pre ++ [.demux ws (some u)]⟩ reads = (evsD, none)) :
    ∃ evsS, runSingle ⟨ads, mods, pre ++ [.sink w0]⟩ reads = (evsS, none) ∧
      (recordsTo [w0] evsS).Perm ((demuxWriters ws u).flatMap (fun w => recordsTo [w] evsD)) := by
  obtain ⟨hcat, hok⟩ := Steps.run_is_concat hD
  have hper : ∀ r ∈ reads,
      processReadS ⟨ads, mods, pre ++ [.sink w0]⟩ r = .ok (evsOf (processReadS ⟨ads, mods, pre ++ [.sink w0]⟩) r) ∧
      recordsTo [w0] (evsOf (processReadS ⟨ads, mods, pre ++ [.sink w0]⟩) r) =
        (demuxWriters ws u).flatMap
          (fun w => recordsTo [w] (evsOf (processReadS ⟨ads, mods, pre ++ [.demux ws (some u)]⟩) r)) := by
    intro r hr
    obtain ⟨eS, h1, h2⟩ := partition_of_read hW hapartD hapartS (hok r hr)
    have : evsOf (processReadS ⟨ads, mods, pre ++ [.sink w0]⟩) r = eS := by simp [evsOf, h1, Except.toOption]
    rw [this]
    exact ⟨h1, h2⟩
  refine ⟨_, runReads_of_ok (fun r hr => (hper r hr).1), ?_⟩
  rw [hcat, recordsTo_flatten, List.map_map]
  have e2 : ∀ w, recordsTo [w] (reads.map (evsOf (processReadS ⟨ads, mods, pre ++ [.demux ws (some u)]⟩))).flatten =
      (reads.map (fun r => recordsTo [w] (evsOf (processReadS ⟨ads, mods, pre ++ [.demux ws (some u)]⟩) r))).flatten := by
    intro w; rw [recordsTo_flatten, List.map_map]; rfl
  simp only [e2]
  exact perm_lift (demuxWriters ws u) reads _ _ (fun r hr => (hper r hr).2)

/-- **From the command line.** Options `o` with `{name}` in `-o` (no trimmed/untrimmed option) and the same options with a
    plain output path `out`: `makeSteps` builds the same writers and filters `pre`, closed by the demultiplexer resp. the
    sink, with pairwise distinct writer indices apart from the redirect files — so for every read set and modifier list the
    error-free demultiplexing run partitions exactly the records of the plain run's main output. -/
theorem cli_demux_partition {o : Opts} {out : String} {names : List String} {stepsD stepsS : List Step} {fD fS : Files}
    (hdm : demuxMode o = .ok 1) (hdm' : demuxMode { o with output := out } = .ok 0)
    (hnu : o.discardUntrimmed = false) (hut : o.untrimmedOut = none) (hutp : o.untrimmedPaired = none)
    (hD : makeSteps o names [] = .ok (stepsD, fD)) (hS : makeSteps { o with output := out } names [] = .ok (stepsS, fS))
    {ads : List Matchable} {mods : List SMod} {reads : List Read} {evsD : List Event}
    (hrun : runSingle ⟨ads, mods, stepsD⟩ reads = (evsD, none)) :
    ∃ pre ws u w0 evsS, stepsD = pre ++ [.demux ws (some u)] ∧ stepsS = pre ++ [.sink w0] ∧
      runSingle ⟨ads, mods, stepsS⟩ reads = (evsS, none) ∧
      (recordsTo [w0] evsS).Perm ((demuxWriters ws u).flatMap (fun w => recordsTo [w] evsD)) := by
  obtain ⟨dm, e1, -, hk, heq⟩ := makeSteps_ok hD
  rw [hdm] at e1; simp only [Except.ok.injEq] at e1; subst e1
  obtain ⟨dm', e2, -, hk', heq'⟩ := makeSteps_ok hS
  rw [hdm'] at e2; simp only [Except.ok.injEq] at e2; subst e2
  have hdt : o.discardTrimmed = false := by
    simp only [finalOk] at hk
    cases h : o.discardTrimmed <;> simp_all
  have hfront : front { o with output := out } = front o := rfl
  have hsimple : simpleSteps { o with output := out } = simpleSteps o := rfl
  simp only [finalD, if_true, hnu, Bool.false_eq_true, if_false, openMany, Prod.mk.injEq] at heq
  simp only [finalD, show ((0 : Nat) = 1) = False by decide, show ((0 : Nat) = 2) = False by decide, if_false,
    untrimmedFilter, hdt, hnu, hut, hutp, Option.isSome_none, Bool.or_self, Bool.false_eq_true, List.append_nil,
    Prod.mk.injEq] at heq'
  obtain ⟨rfl, -⟩ := heq
  obtain ⟨rfl, -⟩ := heq'
  have hb : Built False ((front o).2 ++ simpleSteps o) 6 _ (front o).1.writers.length :=
    simple_built o (fun h => h.elim)
  have hWeq : demuxWriters (names.zipIdx (front o).1.writers.length) ((front o).1.writers.length + names.length) =
      List.range' (front o).1.writers.length (names.length + 1) := by
    simp [demuxWriters, List.zipIdx_map_snd, List.range'_1_concat]
  have hmemW : ∀ w, w ∈ demuxWriters (names.zipIdx (front o).1.writers.length)
      ((front o).1.writers.length + names.length) → (front o).1.writers.length ≤ w := by
    intro w hw
    rw [hWeq, List.mem_range'_1] at hw
    exact hw.1
  have hlen : (front o).1.writers.length + names.length =
      ({ writers := (front o).1.writers ++ names.map (demuxWriter o), texts := (front o).1.texts } : Files).writers.length := by
    simp
  obtain ⟨evsS, h1, h2⟩ := demux_is_partition_of_plain_output (ads := ads) (mods := mods)
    (pre := (front o).2 ++ simpleSteps o) (ws := names.zipIdx (front o).1.writers.length)
    (u := (front o).1.writers.length + names.length) (w0 := (front o).1.writers.length) (reads := reads) (evsD := evsD)
    (by rw [hWeq]; exact List.nodup_range' 1)
    (fun s hs w hw hmem => by have := hb.below s hs w hw; have := hmemW w hmem; omega)
    (fun s hs hmem => by have := hb.below s hs _ hmem; omega)
    (by rw [hlen]; exact hrun)
  refine ⟨(front o).2 ++ simpleSteps o, names.zipIdx (front o).1.writers.length, (front o).1.writers.length + names.length,
    (front o).1.writers.length, evsS, ?_, rfl, h1, h2⟩
  rw [hlen]
/-! ## Demultiplexing as the real program does it (regenerated from the working tree on every run) -/

def sameSet (a b : List String) : Bool := a.all (b.contains ·) && b.all (a.contains ·) && a.length == b.length

/-- where reads without adapter go: the `unknown` file, the `--untrimmed-output` file, or nowhere (`--discard-untrimmed`) -/
def restName : String → List String
  | "plain" => ["unknown"]
  | "untrimmed" => ["<untrimmed>"]
  | _ => []

/-- **documented**: one file per adapter *name* (a name given twice is one file; two names for one sequence are two files), plus the rest file -/
def docFiles (lst : List (String × String)) (mode : String) : List String := (lst.map (·.1)).eraseDups ++ restName mode

def probeSeq : String → String
  | "p1" => "S1" | "p2" => "S2" | "p3" => "S3" | _ => ""

/-- **documented**: a read goes to the file named after the adapter found in it (the first given among adapters with that sequence) -/
def docRoute (lst : List (String × String)) (mode probe : String) : List String :=
  match lst.find? (fun p => p.2 == probeSeq probe) with
  | some p => [p.1]
  | none => restName mode

/-- **`{name}`: the files the real program creates and the file each probe read is written to are the documented ones** — for distinct names, one
    sequence under two names, one name for two sequences, three names, a single adapter; with `unknown`, `--discard-untrimmed` and
    `--untrimmed-output` (`demux_writers_opened` and `demux_routing` state the same of the model for all option records and reads). -/
theorem generated_demux_files_and_routing :
    ∀ row ∈ Generated.demuxSingle, ∃ lst, Generated.demuxLists[row.1]? = some lst ∧
      sameSet row.2.2.1 (docFiles lst row.2.1) = true ∧ ∀ pr ∈ row.2.2.2, pr.2 = docRoute lst row.2.1 pr.1 := by
  have h : ∀ row ∈ Generated.demuxSingle,
      (match Generated.demuxLists[row.1]? with
       | some lst => sameSet row.2.2.1 (docFiles lst row.2.1) && row.2.2.2.all (fun pr => pr.2 == docRoute lst row.2.1 pr.1)
       | none => false) = true := by decide
  intro row hr
  have := h row hr
  split at this
  · rename_i lst hl
    simp only [Bool.and_eq_true, List.all_eq_true, beq_iff_eq] at this
    exact ⟨lst, hl, this.1, this.2⟩
  · cases this

def combKey (a b : Option String) : String := a.getD "unknown" ++ "-" ++ b.getD "unknown"

/-- **documented**, for R1 adapters `a`, `b` and R2 adapters `x`, `y`: a pair of files for every combination of names, and — unless
    `--discard-untrimmed` — for every combination with `unknown` -/
def docCombFiles (mode : String) : List String :=
  let full := ["a", "b"].flatMap fun a => ["x", "y"].map fun b => combKey (some a) (some b)
  let part := if mode == "plain" then
      [combKey none none] ++ ["x", "y"].map (fun b => combKey none (some b)) ++ ["a", "b"].map (fun a => combKey (some a) none) else []
  (full ++ part).flatMap fun k => [k ++ ".1", k ++ ".2"]

/-- the adapters found in the probe pairs: R1 carries S1 (`a`) / S2 (`b`), R2 carries S3 (`x`) / S1 (`y`) -/
def probePair : String → Option String × Option String
  | "q11" => (some "a", some "x")
  | "q12" => (some "a", some "y")
  | "q20" => (some "b", none)
  | "q01" => (none, some "x")
  | _ => (none, none)

def docCombRoute (mode probe : String) : List String :=
  let k := probePair probe
  if mode != "plain" && (k.1.isNone || k.2.isNone) then [] else [combKey k.1 k.2 ++ ".1", combKey k.1 k.2 ++ ".2"]

/-- **`{name1}`/`{name2}`: files and routing of the real program are the documented ones** (`comb_writers_opened`, `comb_routing` for the model) -/
theorem generated_comb_files_and_routing :
    ∀ row ∈ Generated.demuxComb,
      sameSet row.2.1 (docCombFiles row.1) = true ∧ ∀ pr ∈ row.2.2, pr.2 = docCombRoute row.1 pr.1 := by
  decide

/-- **paired `{name}` with adapters for R2 only: every pair is 'unknown'** (the file is named after the last match on R1, and R1 is not searched) — both
    mates in the `unknown` pair of files, or nowhere with `--discard-untrimmed`, whatever was found in R2 -/
theorem generated_r2_only_is_unknown :
    ∀ row ∈ Generated.demuxR2Only,
      sameSet row.2.1 ((restName row.1).flatMap fun k => [k ++ ".1", k ++ ".2"]) = true ∧
      ∀ pr ∈ row.2.2, pr.2 = (restName row.1).flatMap fun k => [k ++ ".1", k ++ ".2"] := by
  decide

end Cutadapt.C15
