import Cutadapt.Stats
namespace Cutadapt.C15
end Cutadapt.C15
