import Cutadapt.Stats
namespace Cutadapt.C17
end Cutadapt.C17
