import Cutadapt.Proofs.ModsAssembly
/-! # C17 — the info file locates every match and reconstructs every read

Model: `infoRows` (`InfoFileWriter` + `get_info_records`), `stepS`/`runStepsS`/`processReadS`, `makeSteps`/`makeSingle`.
Rows are lists of tab-separated fields; fields are numbered as in the documentation (1 = read name, 2 = errors,
3/4 = start/end, 5/6/7 = sequence left of / inside / right of the match, 8 = adapter name, 9/10/11 = the qualities split
at the same places, 12 = reverse-complement flag), i.e. field `n` is element `n-1` of the field list.

The clause "the middle field is the stretch that was aligned to the adapter" is **violated** by the code (and by the
model, which follows the code) whenever bases were removed before adapter trimming from the end that is the 5' end of
the sequence shown, and for paired `--revcomp` with the swapped pair chosen: `middle_is_aligned_stretch_statement`
is the full claim, `…_counterexample` refutes it with a run of the pipeline, `…_partial` proves it under the condition
that the rows start from the read the adapter stage searched. -/
namespace Cutadapt.C17
open Cutadapt Cutadapt.Adapters

/-! ## Vocabulary -/

/-- the single matches a match consists of (`[m]` for a single match; front then back part for a linked match) -/
theorem parts_def (m : AnyMatch) :
    m.parts = match m with | .single _ r => [r] | .linked _ f b => f.toList ++ b.toList := by
  cases m <;> rfl

/-- the read whose pieces the rows of the first match show: the original read, reverse-complemented iff flagged -/
theorem infoStart_def (info : Info) :
    infoStart info = if info.isRc = some true then info.original.revcomp else info.original := by
  unfold infoStart
  cases info.isRc with
  | none => rfl
  | some b => cases b <;> rfl

/-- all parts of all matches of a read, in the order found -/
abbrev allParts (info : Info) : List MatchRec := info.mts.flatMap AnyMatch.parts

/-- what is left when the rows of part number `k` are written: the start read with parts `0..k-1` removed in turn -/
abbrev curAt (info : Info) (k : Nat) : Read := trimParts (infoStart info) ((allParts info).take k)

theorem trimParts_def (rd : Read) (ps : List MatchRec) : trimParts rd ps = ps.foldl (fun r p => p.trimmed r) rd := rfl

/-! ## One row per read at least -/

/-- **A read without match gets a single row with `-1`**: name, `-1`, sequence, qualities -/
theorem unmatched_single_row (names : Names) (read : Read) (info : Info) (h : info.mts = []) :
    infoRows names read info = [joinTab [read.name, bytesOfStr "-1", read.seq, read.qual.getD []]] :=
  infoRows_unmatched names read info h

theorem minus_one_bytes : bytesOfStr "-1" = [45, 49] := by decide +kernel

/-- **A read with matches gets one row per match — two for a linked match with both parts — in the order found** -/
theorem rows_per_match (names : Names) (read : Read) (info : Info) (h : info.mts ≠ []) :
    infoRows names read info = (infoRowFields names read info).map joinTab ∧
    (infoRows names read info).length = (info.mts.map (fun m => m.parts.length)).sum ∧
    (∀ a r, (AnyMatch.single a r).parts.length = 1) ∧
    (∀ a f b, (AnyMatch.linked a f b).parts.length = (if f.isSome then 1 else 0) + (if b.isSome then 1 else 0)) := by
  refine ⟨infoRows_matched names read info h, ?_, fun _ _ => rfl, ?_⟩
  · rw [infoRows_matched names read info h, List.length_map, infoRowFields, rowFieldsOf_length]
    have : ∀ ms : List AnyMatch, (ms.flatMap (AnyMatch.labelledParts names)).length = (ms.map (fun m => m.parts.length)).sum := by
      intro ms
      induction ms with
      | nil => rfl
      | cons m ms ih =>
        rw [List.flatMap_cons, List.length_append, ih, List.map_cons, List.sum_cons, ← AnyMatch.labelledParts_fst names m,
          List.length_map]
    exact this _
  · intro a f b; cases f <;> cases b <;> rfl

/-- **At least one row for every read** (every match a cutter reports has at least one part) -/
theorem row_per_read (names : Names) (read : Read) (info : Info) (hp : ∀ m ∈ info.mts, m.parts ≠ []) :
    (infoRows names read info).length ≥ 1 := by
  by_cases h : info.mts = []
  · rw [unmatched_single_row names read info h]; simp
  · rw [(rows_per_match names read info h).2.1]
    cases hm : info.mts with
    | nil => exact absurd hm h
    | cons m ms =>
      have : m.parts.length ≥ 1 := by
        have := hp m (by rw [hm]; exact List.mem_cons_self)
        cases hq : m.parts with
        | nil => exact absurd hq this
        | cons _ _ => simp
      simp only [List.map_cons, List.sum_cons]
      omega

/-- the hypothesis of `row_per_read` holds for everything the modifiers record -/
theorem recorded_matches_have_parts (names : Names) (mods : List SMod) (read r : Read) (i : Info) (evs evs' : List Event)
    (h : runModsS names mods read { original := read } evs = .ok (r, i, evs')) : ∀ m ∈ i.mts, m.parts ≠ [] :=
  runModsS_parts names mods read r { original := read } i evs evs' (by simp) h

/-! ## What a row contains -/

/-- the adapter-name field: the adapter's name; `;1` / `;2` appended for the parts of a linked adapter -/
theorem adapter_name_field (names : Names) (m : AnyMatch) :
    m.labelledParts names = match m with
      | .single a r => [(r, bytesOfStr (names.getD a ""))]
      | .linked a f b =>
        f.toList.map (fun p => (p, bytesOfStr (names.getD a "") ++ bytesOfStr ";1")) ++
        b.toList.map (fun p => (p, bytesOfStr (names.getD a "") ++ bytesOfStr ";2")) := by
  cases m <;> rfl

theorem linked_suffix_bytes : bytesOfStr ";1" = [59, 49] ∧ bytesOfStr ";2" = [59, 50] := by
  constructor <;> decide +kernel

/-- **Row number `k` (0-based), field by field**: for part `p = allParts[k]` and `cur = curAt info k`:
    name, errors, start, end, `cur.seq[:start]`, `cur.seq[start:end]`, `cur.seq[end:]`, adapter name,
    the same three pieces of the qualities (empty strings without qualities), flag -/
theorem row_fields (names : Names) (read : Read) (info : Info) (k : Nat) (p : MatchRec)
    (hp : (allParts info)[k]? = some p) :
    ∃ nm, ((info.mts.flatMap (AnyMatch.labelledParts names))[k]? = some (p, nm)) ∧
      (infoRowFields names read info)[k]? = some
        [read.name, natToBytes p.m.errors, natToBytes p.m.rstart, natToBytes p.m.rstop,
         (curAt info k).seq.take p.m.rstart, seg (curAt info k).seq p.m.rstart p.m.rstop, (curAt info k).seq.drop p.m.rstop,
         nm,
         ((curAt info k).qual.getD []).take p.m.rstart, seg ((curAt info k).qual.getD []) p.m.rstart p.m.rstop,
         ((curAt info k).qual.getD []).drop p.m.rstop,
         rcField info.isRc] := by
  have hfst : (info.mts.flatMap (AnyMatch.labelledParts names)).map (·.1) = allParts info := by
    unfold allParts
    induction info.mts with
    | nil => rfl
    | cons m ms ih => rw [List.flatMap_cons, List.flatMap_cons, List.map_append, ih, AnyMatch.labelledParts_fst]
  have hk : ((info.mts.flatMap (AnyMatch.labelledParts names)).map (·.1))[k]? = some p := by rw [hfst]; exact hp
  rw [List.getElem?_map] at hk
  cases hl : (info.mts.flatMap (AnyMatch.labelledParts names))[k]? with
  | none => rw [hl] at hk; simp at hk
  | some pn =>
    obtain ⟨p', nm⟩ := pn
    rw [hl] at hk
    simp only [Option.map_some, Option.some.injEq] at hk
    subst hk
    refine ⟨nm, rfl, ?_⟩
    unfold infoRowFields
    rw [rowFieldsOf_getElem?, hl]
    simp only [Option.map_some, curAt]
    rw [List.map_take, hfst]
    rfl

theorem rcField_def (isRc : Option Bool) :
    rcField isRc = match isRc with | none => [] | some true => [49] | some false => [48] := rfl

/-- **The three sequence fields concatenate to the read as it was read (reverse-complemented if flagged), or, for later
    rounds, to what the previous round left of it; the three quality fields split the qualities at the same
    coordinates.** (Fields 5–7 and 9–11 of row `k`, for a match with `rstart ≤ rstop`.) -/
theorem fields_concatenate (names : Names) (read : Read) (info : Info) (k : Nat) (p : MatchRec)
    (hp : (allParts info)[k]? = some p) (hb : p.m.rstart ≤ p.m.rstop) :
    ∃ fields, (infoRowFields names read info)[k]? = some fields ∧ fields.length = 12 ∧
      fields[4]! ++ fields[5]! ++ fields[6]! = (curAt info k).seq ∧
      fields[8]! ++ fields[9]! ++ fields[10]! = (curAt info k).qual.getD [] ∧
      fields[5]! = seg (curAt info k).seq p.m.rstart p.m.rstop ∧
      fields[4]!.length = min p.m.rstart (curAt info k).seq.length ∧
      curAt info 0 = infoStart info := by
  obtain ⟨nm, _, h⟩ := row_fields names read info k p hp
  refine ⟨_, h, rfl, ?_, ?_, rfl, by simp, rfl⟩
  · exact take_append_seg_append_drop _ _ _ hb
  · exact take_append_seg_append_drop _ _ _ hb

/-- each later row starts from what the previous part left: `read[rstop:]` after a 5' match, `read[:rstart]` after a 3' match -/
theorem curAt_succ (info : Info) (k : Nat) (p : MatchRec) (hp : (allParts info)[k]? = some p) :
    curAt info (k+1) = p.trimmed (curAt info k) := by
  unfold curAt
  have hk : k < (allParts info).length := by
    rcases Nat.lt_or_ge k (allParts info).length with h | h
    · exact h
    · rw [List.getElem?_eq_none h] at hp; simp at hp
  have hpk : (allParts info)[k] = p := by
    rw [List.getElem?_eq_getElem hk] at hp; exact Option.some.inj hp
  rw [List.take_succ_eq_append_getElem hk, trimParts_append, hpk]
  rfl

/-! ## The middle field and the aligned stretch -/

/-- the stretch of `match.sequence` that was aligned to the adapter -/
theorem matchSequence_def (p : MatchRec) : p.matchSequence = seg p.sequence p.m.rstart p.m.rstop := rfl

/-- **Full claim (false for the current code):** for every pipeline the CLI assembles and every read, the middle field
    of every info row is the stretch of the searched string that was aligned to the adapter -/
def middle_is_aligned_stretch_statement : Prop :=
  ∀ (o : Opts) (ads : List Matchable) (mods : List SMod), makeModsSingle o ads = .ok mods →
  ∀ (read r : Read) (i : Info) (evs : List Event),
    runModsS (namesOf ads) mods read { original := read } [Event.input read.len none] = .ok (r, i, evs) →
  ∀ (k : Nat) (p : MatchRec) (fields : List Bytes), (allParts i)[k]? = some p →
    (infoRowFields (namesOf ads) r i)[k]? = some fields → fields[5]? = some p.matchSequence

theorem partChain_getElem (rd : Read) (ps : List MatchRec) (hc : PartChain rd ps) (k : Nat) (p : MatchRec)
    (hp : ps[k]? = some p) : p.sequence = (trimParts rd (ps.take k)).seq := by
  induction ps generalizing rd k with
  | nil => simp at hp
  | cons q qs ih =>
    obtain ⟨h1, h2⟩ := hc
    cases k with
    | zero => simp at hp; subst hp; simpa using h1
    | succ k => simp at hp; simpa using ih _ h2 k hp

/-- **Partial result:** if the first part's `match.sequence` is the sequence the rows start from (the original read,
    reverse-complemented if flagged) and every later part's `match.sequence` is what the previous part left — which is the
    case when nothing was removed before the adapter stage and the pair was not swapped — then the middle field of every
    row *is* the aligned stretch -/
theorem middle_is_aligned_stretch_partial (names : Names) (read : Read) (info : Info)
    (hc : PartChain (infoStart info) (allParts info)) (k : Nat) (p : MatchRec) (hp : (allParts info)[k]? = some p) :
    ∃ fields, (infoRowFields names read info)[k]? = some fields ∧ fields[5]? = some p.matchSequence := by
  obtain ⟨nm, _, h⟩ := row_fields names read info k p hp
  refine ⟨_, h, ?_⟩
  rw [matchSequence_def, partChain_getElem _ _ hc k p hp]
  rfl

theorem partChain_def (rd : Read) (p : MatchRec) (ps : List MatchRec) :
    (PartChain rd [] ↔ True) ∧ (PartChain rd (p :: ps) ↔ (p.sequence = rd.seq ∧ PartChain (p.trimmed rd) ps)) :=
  ⟨Iff.rfl, Iff.rfl⟩

/-- the condition of the partial result holds when the adapter stage is the first modifier (single-end, no `--revcomp`):
    the rows start from exactly the read that was searched (upper-cased under `lowercase`, as `info.original_read` is) -/
theorem adapters_first_chain (names : Names) (side : Nat) (c : Cutter) (read r : Read) (i : Info) (evs : List Event)
    (h : applyS names side (.adapters c true) read { original := read } = .ok (r, i, evs)) :
    PartChain (infoStart i) (allParts i) := by
  rw [applyS_adapters] at h
  split at h
  · simp at h
  · rename_i tr ms ra hmt
    simp only [Except.ok.injEq, Prod.mk.injEq] at h
    obtain ⟨_, rfl, _⟩ := h
    obtain ⟨_, hch⟩ := matchAndTrim_parts c read tr ra ms hmt
    obtain ⟨_, hra⟩ := matchAndTrim_matches c read tr ra ms hmt
    have hstart : infoStart { originalAfter true ({ original := read } : Info) ra with
        mts := (originalAfter true ({ original := read } : Info) ra).mts ++ ms } = searchRead c read := by
      subst hra
      have e : infoStart { originalAfter true ({ original := read } : Info) (searchRead c read) with
          mts := (originalAfter true ({ original := read } : Info) (searchRead c read)).mts ++ ms } =
          { read with seq := (searchRead c read).seq } := rfl
      rw [e]
      unfold searchRead
      split <;> rfl
    rw [hstart]
    simpa [allParts, originalAfter, MatchChain] using hch

/-- …and the later modifiers (trimmers, renamers, zero-capping) do not touch matches, original read or flag, so the
    condition still holds when the info file is written -/
theorem later_modifiers_keep_info (names : Names) (side : Nat) (m : SMod)
    (hm : m.isTrimmer = true ∨ m.isNameMod = true ∨ (∃ b, m = .zeroCap b)) (r r' : Read) (i i' : Info)
    (evs : List Event) (hq : QualOK r) (h : applyS names side m r i = .ok (r', i', evs)) :
    i'.mts = i.mts ∧ i'.original = i.original ∧ i'.isRc = i.isRc := by
  rcases hm with hm | hm | ⟨b, rfl⟩
  · obtain ⟨_, _, h3, h4, h5⟩ := applyS_trimmer names side m hm r r' i i' evs hq h
    exact ⟨h3, h4, h5⟩
  · rw [(applyS_nameMod names side m hm r r' i i' evs h).2.2.1]; exact ⟨rfl, rfl, rfl⟩
  · rw [(applyS_zeroCap names side b r r' i i' evs h).2.2.2.1]; exact ⟨rfl, rfl, rfl⟩

/-! ### The counterexample: `-u 4 -a AAAGGG --info-file i` on `TTTTCCCCAAAGGGACGT` -/

def cexAdapter : Adapter :=
  { ty := .back, seq := [65,65,65,71,71,71], thr := fun L => L / 10, minOverlap := 3,
    readWildcards := false, adapterWildcards := false, indels := true, name := "a1" }
def cexOpts : Opts := { cut := [4], infoFile := some "i" }
/-- `TTTTCCCCAAAGGGACGT` -/
def cexRead : Read := ⟨[114,49], [84,84,84,84, 67,67,67,67, 65,65,65,71,71,71, 65,67,71,84], none⟩

theorem cex_mods : makeModsSingle cexOpts [.single cexAdapter] =
    .ok [.cut 4, .adapters ⟨[.single cexAdapter], 1, .trim⟩ false] := rfl

/-- the match was found in the cut read `CCCCAAAGGGACGT` at `[4, 10)`, i.e. the stretch `AAAGGG`; the row slices the
    *original* read at these coordinates and shows `CCCCAA` -/
def cexCheck : Bool :=
  match runModsS ["a1"] [.cut 4, .adapters ⟨[.single cexAdapter], 1, .trim⟩ false] cexRead { original := cexRead }
      [Event.input 18 none] with
  | .ok (r, i, _) =>
    (match (allParts i)[0]?, (infoRowFields ["a1"] r i)[0]? with
     | some p, some fields =>
       p.m.rstart == 4 && p.m.rstop == 10 && p.sequence == [67,67,67,67, 65,65,65,71,71,71, 65,67,71,84] &&
       p.matchSequence == [65,65,65,71,71,71] && fields[5]? == some [67,67,67,67,65,65]
     | _, _ => false)
  | .error _ => false

theorem cexCheck_true : cexCheck = true := by decide +kernel

theorem middle_is_aligned_stretch_counterexample : ¬ middle_is_aligned_stretch_statement := by
  intro hst
  have hc := cexCheck_true
  unfold cexCheck at hc
  split at hc
  · rename_i r i evs hrun
    split at hc
    · rename_i p fields hp hf
      have := hst cexOpts [.single cexAdapter] _ cex_mods cexRead r i evs hrun 0 p fields hp hf
      simp only [Bool.and_eq_true, beq_iff_eq] at hc
      obtain ⟨⟨_, hms⟩, hfield⟩ := hc
      rw [this, hms] at hfield
      exact absurd hfield (by decide)
    · exact absurd hc (by simp)
  · exact absurd hc (by simp)

/-- the same run seen through the whole pipeline: the info row that `processReadS` emits has middle field `CCCCAA`
    (`r1 0 4 10 TTTT CCCCAA AGGGACGT a1` + three empty quality fields + empty flag) -/
theorem counterexample_row :
    (match processReadS ⟨[.single cexAdapter], [.cut 4, .adapters ⟨[.single cexAdapter], 1, .trim⟩ false],
        [.infoWriter 0, .sink 0]⟩ cexRead with
      | .ok evs => evs.filterMap (fun e => match e with | .text 0 l => some l | _ => none)
      | .error _ => []) =
    [[114,49, 9, 48, 9, 52, 9, 49,48, 9, 84,84,84,84, 9, 67,67,67,67,65,65, 9, 65,71,71,71,65,67,71,84, 9, 97,49, 9, 9, 9, 9]] := by
  decide +kernel

/-! ### Second violation: paired `--revcomp` with the swapped pair chosen -/

/-- R1 = `AAAACCCC`, R2 = `TTTTCCCCGATTACAGGG`, `-a GATTACAG --revcomp`: the adapter is found on R2 only, the swapped pair
    is chosen, and `info1` records the match found in R2 (`[8, 16)`, stretch `GATTACAG`) — but the info rows of the first
    mate slice the reverse complement of R1's original read (`GGGGTTTT`), so the middle field is empty -/
def cexPairedCheck : Bool :=
  let ad : Adapter :=
    { ty := .back, seq := [71,65,84,84,65,67,65,71], thr := fun L => L / 10, minOverlap := 3,
      readWildcards := false, adapterWildcards := false, indels := true, name := "g" }
  let r1 : Read := ⟨[97], [65,65,65,65,67,67,67,67], none⟩
  let r2 : Read := ⟨[98], [84,84,84,84,67,67,67,67, 71,65,84,84,65,67,65,71, 71,71], none⟩
  match applyP [.single ad] [] (.pairedRevcomp (some ⟨[.single ad], 1, .trim⟩) none true true true) (r1, r2)
      ({ original := r1 }, { original := r2 }) with
  | .ok ((o1, _), (j1, _), _) =>
    (match (allParts j1)[0]?, (infoRowFields ["g"] o1 j1)[0]? with
     | some p, some fields =>
       j1.isRc == some true && p.sequence == r2.seq && p.matchSequence == [71,65,84,84,65,67,65,71] &&
       (infoStart j1).seq == [71,71,71,71,84,84,84,84] && fields[5]? == some []
     | _, _ => false)
  | .error _ => false

theorem middle_is_aligned_stretch_paired_counterexample : cexPairedCheck = true := by decide +kernel

/-! ## The info writer sees every read, filtered or not -/

/-- `InfoFileWriter.__call__` returns the read: it never consumes it -/
theorem info_writer_passes_read (ads : List Matchable) (idx f : Nat) (read : Read) (info : Info) :
    stepS ads idx (.infoWriter f) read info = .ok (some read, (infoRows (namesOf ads) read info).map (Event.text f)) := rfl

/-- the step list `make_pipeline_from_args` builds: with `--info-file`, the info writer is there and only text-file
    writers (the rest-file writer) precede it — in particular every filter comes later -/
theorem info_writer_before_filters_shape (o : Opts) (names names2 : List String) (path : String)
    (hi : o.infoFile = some path) (steps : List Step) (fs : Files) (h : makeSteps o names names2 = .ok (steps, fs)) :
    ∃ pre post idx, steps = pre ++ Step.infoWriter idx :: post ∧ ∀ s ∈ pre, s.isTextWriter = true ∧ s.isFilter = false := by
  obtain ⟨pre, post, idx, e, hp⟩ := makeSteps_infoFirst o names names2 path hi (steps, fs) h
  refine ⟨pre, post, idx, e, fun s hs => ⟨hp s hs, ?_⟩⟩
  have := hp s hs
  cases s <;> simp [Step.isTextWriter] at this <;> rfl

/-- **Every read gets its rows, also reads that are filtered later**: in a pipeline assembled with `--info-file`, every
    read that is processed without an exception has all its info rows — at least one — in the event log, whatever the
    filters and sinks behind the info writer do with it -/
theorem info_writer_before_filters (o : Opts) (ads : List Matchable) (p : SinglePipeline) (fs : Files) (path : String)
    (hm : makeSingle o ads = .ok (p, fs)) (hi : o.infoFile = some path) :
    ∃ idx, ∀ (read : Read) (out : List Event), processReadS p read = .ok out →
      ∃ r i evs, runModsS (namesOf p.ads) p.mods read { original := read } [Event.input read.len none] = .ok (r, i, evs) ∧
        (infoRows (namesOf p.ads) r i).length ≥ 1 ∧
        ∀ row ∈ infoRows (namesOf p.ads) r i, Event.text idx row ∈ out := by
  obtain ⟨steps, mods, hs, _, rfl⟩ := makeSingle_ok o ads p fs hm
  obtain ⟨pre, post, idx, e, hp⟩ := makeSteps_infoFirst o _ _ path hi (steps, fs) hs
  refine ⟨idx, ?_⟩
  intro read out hout
  unfold processReadS at hout
  split at hout
  · simp at hout
  · rename_i r i evs hrun
    refine ⟨r, i, evs, hrun, ?_, ?_⟩
    · exact row_per_read _ r i (recorded_matches_have_parts _ _ read r i _ evs hrun)
    · simp only at e
      subst e
      exact runStepsS_info_rows ads pre post idx hp 0 r i evs out hout

/-! ## Non-vacuity: the two rows of a linked match -/

/-- a linked match on `AAACGTTTT`: 5' part `[0, 3)` (row `;1`, pieces of the whole read), then 3' part `[2, 5)` found in
    what the 5' part left, `CGTTTT` (row `;2`, pieces of that) -/
example :
    let m1 : MatchRec := ⟨⟨0, 3, 0, 3, 3, 0, true⟩, [65,65,65,67,71,84,84,84,84]⟩
    let m2 : MatchRec := ⟨⟨0, 3, 2, 5, 3, 0, false⟩, [67,71,84,84,84,84]⟩
    let info : Info := { mts := [.linked 0 (some m1) (some m2)], original := ⟨[114], [65,65,65,67,71,84,84,84,84], none⟩ }
    infoRowFields ["ad"] ⟨[114], [67,71], none⟩ info =
      [[[114], [48], [48], [51], [], [65,65,65], [67,71,84,84,84,84], [97,100,59,49], [], [], [], []],
       [[114], [48], [50], [53], [67,71], [84,84,84], [84], [97,100,59,50], [], [], [], []]] := by
  decide +kernel

end Cutadapt.C17
