import Cutadapt.Modifiers
/-! Model of `tokenizer.py`: `tokenize_braces(template)` as used by `Renamer` / `PairedEndRenamer` to validate a `--rename`
    template. `re.split("(\{[^}]*\})", s)` cuts the string at every `{…}` group (leftmost, the group ends at the first `}`);
    a piece that still contains a brace afterwards is an error. Core Lean only. -/
namespace Cutadapt.Tokenizer
open Cutadapt

inductive TokErr where
  | unexpectedLeft      -- TokenizeError("Unexpected '{' encountered")
  | unexpectedRight     -- TokenizeError("Unexpected '}' encountered")
deriving Repr, BEq, DecidableEq

def lbrace : UInt8 := 123
def rbrace : UInt8 := 125

/-- one piece of the split: checked for stray braces, `{` first as in the code -/
def checkPiece (v : Bytes) : Except TokErr Unit :=
  if v.contains lbrace then .error .unexpectedLeft
  else if v.contains rbrace then .error .unexpectedRight
  else .ok ()

/-- emit the pending literal (if non-empty) -/
def flushLit (lit : Bytes) (acc : List Tok) : Except TokErr (List Tok) :=
  if lit.isEmpty then .ok acc else
  match checkPiece lit with
  | .error e => .error e
  | .ok () => .ok (Tok.lit lit :: acc)

/-- scan with fuel = remaining length: `lit` is the literal collected so far (reversed), `acc` the tokens so far (reversed).
    At a `{`: if a `}` follows later, the text between them is a brace group (the regular expression matches the leftmost `{`
    whose group closes at the first `}`), otherwise the `{` stays in the literal. -/
def scan : Nat → Bytes → Bytes → List Tok → Except TokErr (List Tok)
  | 0, _, lit, acc => (flushLit lit.reverse acc).map List.reverse
  | _ + 1, [], lit, acc => (flushLit lit.reverse acc).map List.reverse
  | fuel + 1, c :: rest, lit, acc =>
    if c == lbrace && rest.contains rbrace then
      let inner := rest.takeWhile (· != rbrace)
      let after := (rest.dropWhile (· != rbrace)).drop 1
      match flushLit lit.reverse acc with
      | .error e => .error e
      | .ok acc =>
        match checkPiece inner with
        | .error e => .error e
        | .ok () => scan fuel after [] (Tok.var (String.ofList (inner.map (fun b => Char.ofNat b.toNat))) :: acc)
    else scan fuel rest (c :: lit) acc

/-- `list(tokenize_braces(s))` -/
def tokenizeBraces (s : Bytes) : Except TokErr (List Tok) := scan (s.length + 1) s [] []

end Cutadapt.Tokenizer
