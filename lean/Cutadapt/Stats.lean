import Cutadapt.Assembly
/-! Model of `statistics.py`, `EndStatistics`/`AdapterStatistics.add_match` (`adapters.py`) and `Statistics.collect`
    (`report.py`): statistics are folds over the event log of a run. Core Lean only. -/
namespace Cutadapt
open Cutadapt.Adapters

/-- increment `d[k]` in an association list (dict with default 0) -/
def incr [BEq κ] (k : κ) (by_ : Nat) : List (κ × Nat) → List (κ × Nat)
  | [] => [(k, by_)]
  | (k', v) :: rest => if k' == k then (k', v + by_) :: rest else (k', v) :: incr k by_ rest

def getCount [BEq κ] (k : κ) (l : List (κ × Nat)) : Nat := ((l.find? (fun p => p.1 == k)).map (·.2)).getD 0

/-- `EndStatistics`: `errors[length][errors]` and `adjacent_bases` -/
structure EndStats where
  errors : List ((Nat × Nat) × Nat) := []      -- key (removed length, error count)
  adjacent : List (Bytes × Nat) := []
deriving Repr, BEq, Inhabited

/-- key under which `adjacent_bases` is incremented (`KeyError` ⇒ "") -/
def adjKey (b : Bytes) : Bytes := if b == [65] || b == [67] || b == [71] || b == [84] then b else []

def EndStats.addFront (s : EndStats) (r : MatchRec) : EndStats :=
  { s with errors := incr (r.removedSequenceLength, r.m.errors) 1 s.errors }
def EndStats.addBack (s : EndStats) (r : MatchRec) : EndStats :=
  { errors := incr (r.removedSequenceLength, r.m.errors) 1 s.errors, adjacent := incr (adjKey r.adjacentBase) 1 s.adjacent }

structure AdapterStats where
  front : EndStats := {}
  back : EndStats := {}
  reverseComplemented : Nat := 0
deriving Repr, BEq, Inhabited

/-- the four `add_match` methods: which end a match is booked on is decided by the class of the *match* for
    anywhere adapters, by the class of the *adapter* otherwise (front statistics for 5' adapter classes) -/
def AdapterStats.addMatch (s : AdapterStats) (isFrontClass isAnywhere : Bool) (m : AnyMatch) (rc : Bool) : AdapterStats :=
  let s := { s with reverseComplemented := s.reverseComplemented + (if rc then 1 else 0) }
  match m with
  | .single _ r =>
    if isAnywhere then (if r.m.before then { s with front := s.front.addFront r } else { s with back := s.back.addBack r })
    else if isFrontClass then { s with front := s.front.addFront r }
    else { s with back := s.back.addBack r }
  | .linked _ f b =>
    let s := match f with | some fm => { s with front := s.front.addFront fm } | none => s
    match b with | some bm => { s with back := s.back.addBack bm } | none => s

def isFrontClassAdapter (a : Adapter) : Bool :=
  match a.ty with | .front | .rightmostFront | .nonInternalFront | .prefix => true | _ => false
def isFrontClass : Matchable → Bool
  | .single a => isFrontClassAdapter a
  | .linked .. => false
  | .indexed idx _ => idx.isPrefix      -- (the index object itself has no statistics; its members do, see `adapterStatsT`)
def isAnywhereClass : Matchable → Bool
  | .single a => a.ty == .anywhere
  | .linked .. => false
  | .indexed .. => false

/-- per-adapter statistics of one read side after a run -/
def adapterStats (ads : List Matchable) (side : Nat) (evs : List Event) : List AdapterStats :=
  let init : List AdapterStats := ads.map (fun _ => {})
  evs.foldl (fun acc ev =>
    match ev with
    | .matched s m rc =>
      if s == side then
        acc.mapIdx (fun i st => if i == m.adapter then
          st.addMatch ((ads[i]?.map isFrontClass).getD false) ((ads[i]?.map isAnywhereClass).getD false) m rc else st)
      else acc
    | _ => acc) init

/-- `(front class?, anywhere class?)` per adapter number, for the whole table of `namesOf`: list entries by position, then the members
    of the index objects -/
def classTable (ads : List Matchable) : List (Bool × Bool) :=
  ads.map (fun a => (isFrontClass a, isAnywhereClass a)) ++
  ads.flatMap (fun a => match a with
    | .indexed idx _ => idx.adapters.map (fun m => (isFrontClassAdapter m, false))
    | _ => [])

/-- per-adapter statistics over the whole adapter table (`adapterStats` covers the list entries only, which is all there is
    when no index object is in the list) -/
def adapterStatsT (ads : List Matchable) (side : Nat) (evs : List Event) : List AdapterStats :=
  let tbl := classTable ads
  let init : List AdapterStats := tbl.map (fun _ => {})
  evs.foldl (fun acc ev =>
    match ev with
    | .matched s m rc =>
      if s == side then
        acc.mapIdx (fun i st => if i == m.adapter then
          st.addMatch ((tbl[i]?.map (·.1)).getD false) ((tbl[i]?.map (·.2)).getD false) m rc else st)
      else acc
    | _ => acc) init

structure Summary where
  n : Nat := 0
  bp1 : Nat := 0
  bp2 : Nat := 0
  written : Nat := 0
  writtenBp1 : Nat := 0
  writtenBp2 : Nat := 0
  filteredByStep : List (Nat × Nat) := []        -- step index ↦ `_filtered`
  qualTrimmed1 : Nat := 0
  qualTrimmed2 : Nat := 0
  polyA1 : List (Nat × Nat) := []
  polyA2 : List (Nat × Nat) := []
  withAdapters1 : Nat := 0
  withAdapters2 : Nat := 0
  reverseComplemented : Nat := 0
deriving Repr, BEq, Inhabited

def Summary.add (s : Summary) : Event → Summary
  | .input b1 b2 => { s with n := s.n + 1, bp1 := s.bp1 + b1, bp2 := s.bp2 + b2.getD 0 }
  | .qualTrimmed 0 k => { s with qualTrimmed1 := s.qualTrimmed1 + k }
  | .qualTrimmed _ k => { s with qualTrimmed2 := s.qualTrimmed2 + k }
  | .polyA 0 k => { s with polyA1 := incr k 1 s.polyA1 }
  | .polyA _ k => { s with polyA2 := incr k 1 s.polyA2 }
  | .withAdapter 0 => { s with withAdapters1 := s.withAdapters1 + 1 }
  | .withAdapter _ => { s with withAdapters2 := s.withAdapters2 + 1 }
  | .revComp => { s with reverseComplemented := s.reverseComplemented + 1 }
  | .matched .. => s
  | .filtered i => { s with filteredByStep := incr i 1 s.filteredByStep }
  | .write .. => s
  | .sinkStat _ l1 l2 => { s with written := s.written + 1, writtenBp1 := s.writtenBp1 + l1, writtenBp2 := s.writtenBp2 + l2.getD 0 }
  | .text .. => s

def summarize (evs : List Event) : Summary := evs.foldl Summary.add {}

/-- `descriptive_identifier()` of a step that has filter statistics -/
def Step.filterIdent : Step → Option String
  | .filter (some p) _ _ _ => some p.ident
  | .filter none (some p) _ _ => some p.ident
  | .demux _ _ => some "discard_untrimmed"
  | .combDemux _ => some "discard_untrimmed"
  | _ => none

/-- `Statistics.filtered` after `collect`: `filtered[name] = step.filtered()` in step order (a later step with the same
    name overwrites an earlier one) -/
def collectFiltered (steps : List Step) (s : Summary) : List (String × Nat) :=
  (steps.zipIdx).foldl (fun acc (st, i) =>
    match st.filterIdent with
    | some name =>
      let v := getCount i s.filteredByStep
      if acc.any (fun p => p.1 == name) then acc.map (fun p => if p.1 == name then (name, v) else p) else acc ++ [(name, v)]
    | none => acc) []

end Cutadapt
