import Cutadapt.Stats
/-! `AdapterCutter._regroup_into_indexed_adapters` / `_split_adapters` (`modifiers.py`): unless `--no-index` is given, the anchored 5'
    adapters that `AdapterIndex` accepts are collected into one `IndexedPrefixAdapters` object and the anchored 3' ones into one
    `IndexedSuffixAdapters` object (each only if there are at least two), and the list is re-ordered: all other adapters first,
    then the 5' part, then the 3' part. Core Lean + `Std.HashMap` only. -/
namespace Cutadapt
open Cutadapt.Adapters

/-- `AdapterIndex.is_acceptable(a, prefix)` on an entry of the adapter list (a linked adapter is never acceptable) -/
def indexableAs (isPrefix : Bool) : Matchable → Option Adapter
  | .single a => if Index.accept a isPrefix then some a else none
  | _ => none

structure Regrouped where
  /-- what `MultipleAdapters` iterates over -/
  ads : List Matchable
  /-- adapter number (position in the table of `namesOf ads`) ↦ position in the list the user gave; `none` for an index object -/
  origin : List (Option Nat)

/-- `_split_adapters`: `(prefix, suffix, other)`, each with the original positions, each in the given order (the loop appends
    every adapter to the first of the three lists it qualifies for) -/
def splitAdapters (ads : List Matchable) : List (Adapter × Nat) × List (Adapter × Nat) × List (Matchable × Nat) :=
  (ads.zipIdx.filterMap (fun ai => (indexableAs true ai.1).map (·, ai.2)),
   ads.zipIdx.filterMap (fun ai => if (indexableAs true ai.1).isSome then none else (indexableAs false ai.1).map (·, ai.2)),
   ads.zipIdx.filter (fun ai => (indexableAs true ai.1).isNone && (indexableAs false ai.1).isNone))

/-- `_regroup_into_indexed_adapters` -/
def regroup (ads : List Matchable) : Regrouped :=
  let pre := (splitAdapters ads).1
  let suf := (splitAdapters ads).2.1
  let other := (splitAdapters ads).2.2
  if pre.length > 1 || suf.length > 1 then
    let preEntries : List (Matchable × Option Nat) :=
      if pre.length > 1 then [] else pre.map (fun p => (Matchable.single p.1, some p.2))
    let sufEntries : List (Matchable × Option Nat) :=
      if suf.length > 1 then [] else suf.map (fun p => (Matchable.single p.1, some p.2))
    let nList := other.length + (if pre.length > 1 then 1 else preEntries.length) + (if suf.length > 1 then 1 else sufEntries.length)
    let preIds := (List.range pre.length).map (· + nList)
    let sufIds := (List.range suf.length).map (· + nList + (if pre.length > 1 then pre.length else 0))
    let preObj : List (Matchable × Option Nat) :=
      if pre.length > 1 then [(.indexed (Index.makeIndex Index.hashOps (pre.map (·.1)) true) preIds, none)] else preEntries
    let sufObj : List (Matchable × Option Nat) :=
      if suf.length > 1 then [(.indexed (Index.makeIndex Index.hashOps (suf.map (·.1)) false) sufIds, none)] else sufEntries
    let entries := other.map (fun p => (p.1, some p.2)) ++ preObj ++ sufObj
    { ads := entries.map (·.1),
      origin := entries.map (·.2) ++ (if pre.length > 1 then pre.map (fun p => some p.2) else []) ++
                (if suf.length > 1 then suf.map (fun p => some p.2) else []) }
  else
    -- "avoid re-ordering the adapters when we don't need to"
    { ads := ads, origin := (List.range ads.length).map some }

end Cutadapt

namespace Cutadapt

/-- single-end pipeline as `cutadapt` builds it by default (no `--no-index`): the cutter iterates over the regrouped list; the steps
    (demultiplexing writers, …) are made from the adapters as given -/
def makeSingleIndexed (o : Opts) (ads : List Matchable) : Except Err (SinglePipeline × Files × Regrouped) := do
  if o.untrimmedPaired.isSome || o.pairAdapters then throw .cmdline
  let rg := regroup ads
  let (steps, f) ← makeSteps o (namesOf ads) []
  let mods ← makeModsSingle o rg.ads
  return (⟨rg.ads, mods, steps⟩, f, rg)

/-- paired-end: each read's `AdapterCutter` regroups its own list; `--pair-adapters` (`PairedAdapterCutter`) uses the lists as given -/
def makePairedIndexed (o : Opts) (ads1 ads2 : List Matchable) : Except Err (PairedPipeline × Files × Regrouped × Regrouped) := do
  checkArguments o
  let rg1 := if o.pairAdapters then { ads := ads1, origin := (List.range ads1.length).map some } else regroup ads1
  let rg2 := if o.pairAdapters then { ads := ads2, origin := (List.range ads2.length).map some } else regroup ads2
  let (steps, f) ← makeSteps o (namesOf ads1) (namesOf ads2)
  let mods ← makeModsPaired o rg1.ads rg2.ads
  return (⟨rg1.ads, rg2.ads, mods, steps⟩, f, rg1, rg2)

/-- per-adapter statistics in the order in which the adapters were given (`adapter_statistics` is keyed by the original adapter
    objects): entry `j` is the table row whose origin is `j` -/
def statsInGivenOrder (rg : Regrouped) (n : Nat) (stats : List AdapterStats) : List AdapterStats :=
  (List.range n).map fun j =>
    match (rg.origin.zip stats).find? (fun p => p.1 == some j) with
    | some (_, st) => st
    | none => {}

end Cutadapt
