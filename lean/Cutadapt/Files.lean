import Cutadapt.Basic
/-! Model of the output-format decision: what `OutputFiles.open_record_writer` / `open_stdout_record_writer`
    (`src/cutadapt/files.py`) pass to dnaio, composed with dnaio's own fallback ("qualities ⇒ FASTQ, else FASTA",
    library parameter). Core Lean only. -/
namespace Cutadapt.Files

inductive Fmt where
  | fasta | fastq
deriving Repr, BEq, DecidableEq, Inhabited

def compressionSuffixes : List String := [".gz", ".xz", ".bz2", ".zst"]

/-- strip one compression suffix (the first of `.gz .xz .bz2 .zst` that matches), lower-cased name -/
def stripCompression (name : String) : String :=
  match compressionSuffixes.find? (fun e => name.endsWith e) with
  | some e => (name.dropRight e.length)
  | none => name

/-- `fileformat_from_path` -/
def formatFromPath (path : String) : Option Fmt :=
  let name := stripCompression path.toLower
  if name.endsWith ".fasta" || name.endsWith ".fa" || name.endsWith ".fna" then some .fasta
  else if name.endsWith ".fastq" || name.endsWith ".fq" then some .fastq
  else none

/-- format of a record file opened for `path` (`"-"` = standard output); `forceFasta` = `--fasta`;
    `inputHasQualities` = the input format has qualities; `proxied` = more than one core -/
def outputFormat (path : String) (forceFasta inputHasQualities _proxied : Bool) : Fmt :=
  if path == "-" && forceFasta then .fasta
  else match formatFromPath path with
    | some f => f
    | none => if inputHasQualities then .fastq else .fasta

end Cutadapt.Files
