import Cutadapt.Basic
/-! Model of the output-format decision: what `OutputFiles.open_record_writer` / `open_stdout_record_writer`
    (`src/cutadapt/files.py`, with `fileformat_from_path`) pass to dnaio, composed with dnaio's own fallback
    ("qualities ⇒ FASTQ, else FASTA", library parameter); and of interleaving. Core Lean only. -/
namespace Cutadapt.Files

inductive Fmt where
  | fasta | fastq
deriving Repr, BEq, DecidableEq, Inhabited

def compressionSuffixes : List (List Char) := [".gz".toList, ".xz".toList, ".bz2".toList, ".zst".toList]

/-- strip one compression suffix (the first of `.gz .xz .bz2 .zst` that matches) -/
def stripCompression (name : List Char) : List Char :=
  match compressionSuffixes.find? (fun e => e.isSuffixOf name) with
  | some e => name.take (name.length - e.length)
  | none => name

/-- `fileformat_from_path` on the lower-cased characters of the path -/
def formatFromChars (path : List Char) : Option Fmt :=
  let name := stripCompression path
  if ".fasta".toList.isSuffixOf name || ".fa".toList.isSuffixOf name || ".fna".toList.isSuffixOf name
      || ".csfasta".toList.isSuffixOf name || ".csfa".toList.isSuffixOf name then some .fasta
  else if ".fastq".toList.isSuffixOf name || ".fq".toList.isSuffixOf name || "_sequence.txt".toList.isSuffixOf name then some .fastq
  else none

def formatFromPath (path : String) : Option Fmt := formatFromChars path.toLower.toList

/-- format of a record file opened for `path` (`"-"` = standard output); `forceFasta` = `--fasta`;
    `inputHasQualities` = the input format has qualities; `proxied` = more than one core -/
def outputFormat (path : String) (forceFasta inputHasQualities _proxied : Bool) : Fmt :=
  if path == "-" && forceFasta then .fasta
  else match formatFromPath path with
    | some f => f
    | none => if inputHasQualities then .fastq else .fasta

/-- reading an interleaved file: consecutive records form pairs (`none` = odd number of records: dnaio raises) -/
def deinterleave : List α → Option (List (α × α))
  | [] => some []
  | [_] => none
  | a :: b :: rest => (deinterleave rest).map ((a, b) :: ·)

/-- writing interleaved: R1 and R2 of each pair consecutively -/
def interleave : List (α × α) → List α
  | [] => []
  | (a, b) :: rest => a :: b :: interleave rest

end Cutadapt.Files
