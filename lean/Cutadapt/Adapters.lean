import Cutadapt.Align
/-! Model of the single-adapter classes of `src/cutadapt/adapters.py` (`SingleAdapter.__init__`, the eight
    `match_to` methods, `SingleMatch`, `RemoveBeforeMatch`, `RemoveAfterMatch`). The k-mer prefilter is *not* part of
    `matchTo` here (it is modelled in `Kmer.lean`; C07 is about composing the two). Core Lean only. -/
namespace Cutadapt.Adapters
open Cutadapt Cutadapt.Align Cutadapt.Generated

inductive AdapterType where
  | front | rightmostFront | back | anywhere | nonInternalFront | nonInternalBack | prefix | suffix
deriving Repr, BEq, DecidableEq, Inhabited

structure Adapter where
  ty : AdapterType
  seq : Bytes              -- as stored by `__init__`: upper-cased, U→T, I→N
  thr : Nat → Nat          -- L ↦ ⌊fl(L · max_error_rate)⌋
  minOverlap : Nat         -- `min(min_overlap, len(sequence))`; `len(sequence)` for anchored types
  readWildcards : Bool
  adapterWildcards : Bool  -- effective value: requested ∧ ¬ (sequence ⊆ ACGT)
  indels : Bool
  forceAnywhere : Bool := false
  name : String := ""

/-- a `SingleMatch`; `before = true` for `RemoveBeforeMatch` (5'), `false` for `RemoveAfterMatch` (3') -/
structure SingleMatch where
  astart : Nat
  astop : Nat
  rstart : Nat
  rstop : Nat
  score : Int
  errors : Nat
  before : Bool
deriving Repr, BEq, DecidableEq, Inhabited

def asciiUpper (c : UInt8) : UInt8 := if 97 ≤ c ∧ c ≤ 122 then c - 32 else c

/-- `sequence.upper().replace("U", "T").replace("I", "N")` -/
def normalizeAdapterSeq (s : Bytes) : Bytes :=
  s.map (fun c => let u := asciiUpper c; if u == 85 then 84 else if u == 73 then 78 else u)

def isACGT (c : UInt8) : Bool := c == 65 || c == 67 || c == 71 || c == 84
/-- `frozenset("ABCDGHKMNRSTUVWXY")` -/
def isIupacChar (c : UInt8) : Bool := [65,66,67,68,71,72,75,77,78,82,83,84,85,86,87,88,89].contains c

def indelCost (a : Adapter) : Nat := if a.indels then indelCostOn else indelCostOff

def isAnchored : AdapterType → Bool
  | .prefix | .suffix => true
  | _ => false

/-- flag set handed to `Aligner` by `_aligner()` of each class -/
def flagsOf (a : Adapter) : Nat :=
  match a.ty with
  | .front => if a.forceAnywhere then whereAnywhere else whereFront
  | .rightmostFront => if a.forceAnywhere then whereAnywhere else whereBack
  | .back => if a.forceAnywhere then whereAnywhere else whereBack
  | .anywhere => whereAnywhere
  | .nonInternalFront => whereFrontNotInternal
  | .nonInternalBack => whereBackNotInternal
  | .prefix => wherePrefix
  | .suffix => whereSuffix

def alignerCfg (a : Adapter) (flags : Nat) : Cfg :=
  mkCfg flags a.adapterWildcards a.readWildcards (indelCost a) a.minOverlap a.thr a.seq.length

def cmpCfg (a : Adapter) : CmpCfg :=
  { wildRef := a.adapterWildcards, wildQuery := a.readWildcards, minOverlap := a.minOverlap, thr := a.thr }

/-- which `Match` class each adapter class constructs (for `anywhere`: decided by `rstart == 0`) -/
def removesBefore (ty : AdapterType) (rstart : Nat) : Bool :=
  match ty with
  | .front | .rightmostFront | .nonInternalFront | .prefix => true
  | .back | .nonInternalBack | .suffix => false
  | .anywhere => rstart == 0

/-- the raw alignment `(astart, astop, rstart, rstop, score, errors)` each `match_to` computes -/
def alignment (a : Adapter) (read : Bytes) : Option (Nat × Nat × Nat × Nat × Int × Nat) :=
  match a.ty with
  | .rightmostFront =>
    match locate (alignerCfg a (flagsOf a)) a.seq.reverse read.reverse with
    | none => none
    | some (rs, re, qs, qe, score, errors) =>
      some (a.seq.length - re, a.seq.length - rs, read.length - qe, read.length - qs, score, errors)
  | .anywhere => locate (alignerCfg a (flagsOf a)) a.seq (read.map asciiUpper)
  | .prefix =>
    if !a.indels then comparePrefix (cmpCfg a) a.seq read
    else locate (alignerCfg a (flagsOf a)) a.seq read
  | .suffix =>
    if !a.indels then compareSuffix (cmpCfg a) a.seq read
    else locate (alignerCfg a (flagsOf a)) a.seq read
  | _ => locate (alignerCfg a (flagsOf a)) a.seq read

/-- `match_to` without the k-mer prefilter -/
def matchTo (a : Adapter) (read : Bytes) : Option SingleMatch :=
  match alignment a read with
  | none => none
  | some (as, ae, rs, re, score, errors) => some ⟨as, ae, rs, re, score, errors, removesBefore a.ty rs⟩

/-! ### `SingleMatch` interval arithmetic (`adapters.py:427-494`) -/

/-- `remainder_interval()` for a read of length `n` -/
def SingleMatch.remainderInterval (mt : SingleMatch) (n : Nat) : Nat × Nat :=
  if mt.before then (mt.rstop, n) else (0, mt.rstart)
def SingleMatch.retainedAdapterInterval (mt : SingleMatch) (n : Nat) : Nat × Nat :=
  if mt.before then (mt.rstart, n) else (0, mt.rstop)
/-- `trimmed(read)` as a slice of the read (`read[rstop:]` / `read[:rstart]`) -/
def SingleMatch.trimmed (mt : SingleMatch) (xs : List α) : List α :=
  if mt.before then xs.drop mt.rstop else xs.take mt.rstart
def SingleMatch.removedSequenceLength (mt : SingleMatch) (n : Nat) : Nat :=
  if mt.before then mt.rstop else n - mt.rstart

/-! ### Constructor (`SingleAdapter.__init__`, `PrefixAdapter.__init__`) with the rate as a double -/

def thrOfRate (rate : Float) (L : Nat) : Nat := (Float.ofNat L * rate).toUInt64.toNat

inductive MkErr where | emptySequence | invalidCharacter | onlyN | badRate
deriving Repr, BEq

/-- Returns the adapter and the effective `max_error_rate`. `maxErrors ≥ 1` is divided by the number of non-N
    characters. `Aligner`/`PrefixComparer` raise `ValueError` when wildcards are on and every character is N. -/
def mkAdapter (ty : AdapterType) (rawSeq : Bytes) (maxErrors : Float) (minOverlap : Nat)
    (readWildcards adapterWildcards indels forceAnywhere : Bool) : Except MkErr (Adapter × Float) :=
  let seq := normalizeAdapterSeq rawSeq
  if seq.isEmpty then .error .emptySequence else
  let nN := (seq.filter (· == 78)).length
  let rate := if maxErrors ≥ 1 && nN != seq.length then maxErrors / Float.ofNat (seq.length - nN) else maxErrors
  if adapterWildcards && !seq.all isIupacChar then .error .invalidCharacter else
  let aw := adapterWildcards && !seq.all isACGT
  if aw && nN == seq.length then .error .onlyN else
  let mo := if isAnchored ty then rawSeq.length else min minOverlap seq.length
  -- `PrefixComparer.__init__`: "max_error_rate must be between 0 and 1"
  if isAnchored ty && !indels && !(0 ≤ rate && rate ≤ 1) then .error .badRate else
  .ok ({ ty := ty, seq := seq, thr := thrOfRate rate, minOverlap := mo, readWildcards := readWildcards,
         adapterWildcards := aw, indels := indels, forceAnywhere := forceAnywhere }, rate)

end Cutadapt.Adapters
