import Cutadapt.Basic
/-! Model of `report.ErrorRanges._compute_lengths` (`src/cutadapt/report.py`). `thr L = int(error_rate * L)`. Core Lean only. -/
namespace Cutadapt.Report

/-- the `while int(rate·length) > errors: lengths.append(length − 1); errors += 1` loop for one `length` -/
def bump (thrL : Nat) (lenMinus1 : Nat) : Nat → List Nat → Nat → Nat × List Nat
  | 0, acc, errors => (errors, acc)
  | fuel+1, acc, errors => if thrL > errors then bump thrL lenMinus1 fuel (acc ++ [lenMinus1]) (errors + 1) else (errors, acc)

/-- the `for length in range(1, self.length + 1)` loop; `L` runs over `1..n` -/
def loop (thr : Nat → Nat) : List Nat → Nat → List Nat → List Nat
  | [], _, acc => acc
  | L :: rest, errors, acc =>
    let (e', acc') := bump (thr L) (L - 1) (thr L) acc errors
    loop thr rest e' acc'

/-- `ErrorRanges(length, error_rate).lengths()`: entry `i` = the length up to which `i` errors are allowed -/
def errorRanges (thr : Nat → Nat) (length : Nat) : List Nat :=
  loop thr ((List.range length).map (· + 1)) 0 [] ++ [length]

/-- number of errors the printed ranges allow at match length `L`: index of the first range whose end is ≥ `L` -/
def allowedAt (ranges : List Nat) (L : Nat) : Nat := (ranges.takeWhile (· < L)).length

end Cutadapt.Report
