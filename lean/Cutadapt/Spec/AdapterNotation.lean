import Cutadapt.Parser
/-! # The documented adapter notation (doc/guide.rst) as a grammar, its rendering and its documented meaning

Written from the guide ("Adapter types", "Linked adapters", "Adapter-search parameters", "Error tolerance", "Repeated bases",
"Multiple adapters", "Named adapters").  From the model only the *result types* are used (`Single`, `AdapterDesc`, `Value`, `Key`,
`Globals`, association-list lookup `Params.get`) — none of the parsing functions.

`Spec` is the abstract syntax, `render` writes it the way the guide does, `meaning` says which adapters it denotes.
`Cutadapt.C18.parse_render` proves that parsing the rendering gives the meaning. -/
namespace Cutadapt.Notation
open Cutadapt.Parser

/-! ## Abstract syntax -/

/-- `-a`, `-g`, `-b` -/
inductive Opt | a | g | b
  deriving DecidableEq, Repr

/-- "-a is a 3' adapter, -g a 5' adapter, -b 5' or 3' (both possible)" -/
def Opt.atype : Opt → AType
  | .a => .back
  | .g => .front
  | .b => .anywhere

/-- placement restriction: `ADAPTER`, `^ADAPTER`, `ADAPTER$`, `XADAPTER`, `ADAPTERX` -/
inductive Restr | none | caret | dollar | xLeft | xRight
  deriving DecidableEq, Repr

/-- one character of the sequence, optionally followed by `{n}` ("Repeated bases") -/
structure Run where
  c : Char
  rep : Option Nat
  deriving DecidableEq, Repr

/-- numeric literal: `ddd` or `ddd.ddd` (integer part, fraction digits) -/
inductive NumLit
  | int (n : Nat)
  | dec (ip : Nat) (frac : List (Fin 10))
  deriving DecidableEq, Repr

/-- names of the adapter-specific search parameters (table "The following parameters are supported") -/
inductive PName
  | e | maxErrors | maxErrorRate | o | minOverlap | indels | noindels | anywhere | rightmost | required | optional
  deriving DecidableEq, Repr

structure Param where
  name : PName
  value : Option NumLit
  deriving DecidableEq, Repr

/-- one adapter as written: `[name=][^|X]SEQUENCE[$|X][;parameter[=value]]*` -/
structure Part where
  name : Option Str
  restr : Restr
  runs : List Run
  params : List Param
  deriving DecidableEq, Repr

/-- an adapter or a linked adapter `PART1...PART2` -/
inductive Body
  | single (p : Part)
  | linked (front back : Part)
  deriving DecidableEq, Repr

/-- `file:`, `^file:`, `file$:` -/
inductive FileAnchor | none | caret | dollar
  deriving DecidableEq, Repr

/-- a FASTA record: header line and the specification in the sequence line(s) -/
structure Record where
  header : Str
  body : Body
  deriving DecidableEq, Repr

inductive Spec
  | plain (o : Opt) (b : Body)
  | file (o : Opt) (anchor : FileAnchor) (path : Str) (fparams : List Param) (records : List Record)
  deriving Repr

/-! ## Rendering -/

def digitChar (d : Nat) : Char := Char.ofNat (48 + d)

/-- decimal digits of `n`, most significant first (`fuel` ≥ number of digits; `natDigits` supplies `n + 1`) -/
def natDigitsAux : Nat → Nat → Str → Str
  | 0, _, acc => acc
  | fuel + 1, n, acc => if n < 10 then digitChar n :: acc else natDigitsAux fuel (n / 10) (digitChar (n % 10) :: acc)

def natDigits (n : Nat) : Str := natDigitsAux (n + 1) n []

def fracChars (frac : List (Fin 10)) : Str := frac.map (fun d => digitChar d.val)

def NumLit.render : NumLit → Str
  | .int n => natDigits n
  | .dec ip frac => natDigits ip ++ '.' :: fracChars frac

def PName.render : PName → Str
  | .e => cs!"e"
  | .maxErrors => cs!"max_errors"
  | .maxErrorRate => cs!"max_error_rate"
  | .o => cs!"o"
  | .minOverlap => cs!"min_overlap"
  | .indels => cs!"indels"
  | .noindels => cs!"noindels"
  | .anywhere => cs!"anywhere"
  | .rightmost => cs!"rightmost"
  | .required => cs!"required"
  | .optional => cs!"optional"

def Param.render (p : Param) : Str :=
  p.name.render ++ (match p.value with | none => [] | some v => '=' :: v.render)

/-- `;p1;p2…` -/
def renderParams (ps : List Param) : Str := ps.flatMap (fun p => ';' :: p.render)

def Run.render (r : Run) : Str :=
  r.c :: (match r.rep with | none => [] | some n => '{' :: natDigits n ++ ['}'])

def renderRuns (rs : List Run) : Str := rs.flatMap Run.render

def Restr.pre : Restr → Str
  | .caret => ['^']
  | .xLeft => ['X']
  | _ => []
def Restr.suf : Restr → Str
  | .dollar => ['$']
  | .xRight => ['X']
  | _ => []

def renderName : Option Str → Str
  | none => []
  | some n => n ++ ['=']

/-- the part before the parameters -/
def Part.renderHead (p : Part) : Str := renderName p.name ++ p.restr.pre ++ renderRuns p.runs ++ p.restr.suf

def Part.render (p : Part) : Str := p.renderHead ++ renderParams p.params

def Body.render : Body → Str
  | .single p => p.render
  | .linked f b => f.render ++ cs!"..." ++ b.render

def FileAnchor.render : FileAnchor → Str
  | .none => cs!"file:"
  | .caret => cs!"^file:"
  | .dollar => cs!"file$:"

/-- what is written after `-a`/`-g`/`-b` -/
def Spec.render : Spec → Str
  | .plain _ b => b.render
  | .file _ anchor path fparams _ => anchor.render ++ path ++ renderParams fparams

/-- the FASTA records of a `file:` specification, as `(header, sequence)` -/
def Spec.records : Spec → List (Str × Str)
  | .plain _ _ => []
  | .file _ _ _ _ records => records.map (fun r => (r.header, r.body.render))

def Spec.opt : Spec → Opt
  | .plain o _ => o
  | .file o _ _ _ _ => o

/-! ## Documented meaning -/

/-- `x{n}` stands for `n` times `x` -/
def Run.expand (r : Run) : Str :=
  match r.rep with
  | none => [r.c]
  | some n => List.replicate n r.c

def expandRuns (rs : List Run) : Str := rs.flatMap Run.expand

def fracVal (frac : List (Fin 10)) : Nat := frac.foldl (fun a d => a * 10 + d.val) 0

def NumLit.value : NumLit → Value
  | .int n => .int n
  | .dec ip frac => .float ⟨ip * 10 ^ frac.length + fracVal frac, frac.length⟩

/-- "`e`, `max_error_rate` and `max_errors` are all equivalent"; `o` abbreviates `min_overlap` -/
def PName.key : PName → Key
  | .e | .maxErrors | .maxErrorRate => .maxErrors
  | .o | .minOverlap => .minOverlap
  | .indels => .indels
  | .noindels => .noindels
  | .anywhere => .anywhere
  | .rightmost => .rightmost
  | .required => .required
  | .optional => .optional

/-- a flag written without `=value` is "enabled" -/
def Param.val (p : Param) : Value :=
  match p.value with
  | none => .bool true
  | some l => l.value

/-- the parameters as (canonical name, value) pairs in the order written -/
def paramDict (ps : List Param) : Params := ps.map (fun p => (p.name.key, p.val))

/-- what a parameter list says, once it is consistent -/
structure ParamSem where
  e : Option Value
  o : Option Value
  indels : Option Value
  anywhere : Bool
  rightmost : Bool
  required : Option Value
  deriving DecidableEq, Repr

/-- Each parameter may be given once (under any of its names); `indels`/`noindels` and `required`/`optional` exclude each other. -/
def paramsConsistent (ps : List Param) : Bool :=
  let d := paramDict ps
  decide ((ps.map (fun p => p.name.key)).Nodup) && !(d.has .optional && d.has .required) && !(d.has .indels && d.has .noindels)

def paramSem (ps : List Param) : ParamSem :=
  let d := paramDict ps
  { e := d.get .maxErrors
    o := d.get .minOverlap
    indels := if d.has .noindels then some (.bool false) else d.get .indels
    anywhere := d.flag .anywhere
    rightmost := d.flag .rightmost
    required := if d.has .optional then some (.bool false) else d.get .required }

/-- outcome classes: rejected with a message and exit status 2 / uncaught exception / outside the model -/
inductive Kind | cmdline | crash | unsupported
  deriving DecidableEq, Repr

def kindOf (e : Err) : Kind :=
  if e.isCmdline then .cmdline else if e = .unsupported then .unsupported else .crash

/-- a result of the model, errors reduced to their kind -/
def toKind : Except Err α → Except Kind α
  | .ok a => .ok a
  | .error e => .error (kindOf e)

/-- search parameters in force around an adapter: global options overridden by file-level parameters -/
structure Base where
  e : Value
  o : Value
  indels : Value
  readWildcards : Bool
  adapterWildcards : Bool
  deriving DecidableEq, Repr

def Base.ofGlobals (g : Globals) : Base := ⟨g.maxErrors, g.minOverlap, .bool g.indels, g.readWildcards, g.adapterWildcards⟩

/-- "File-specific search parameters override the global settings" -/
def Base.override (b : Base) (s : ParamSem) : Base :=
  { b with e := s.e.getD b.e, o := s.o.getD b.o, indels := s.indels.getD b.indels }

/-- table "Adapter types": which class a restriction selects for a 5' (`front`), 3' (`back`) or `-b` adapter;
    `none` = the combination is not allowed -/
def classOf : AType → Restr → Bool → Option Cls
  | .back, .none, false => some .back
  | .back, .dollar, false => some .suffix
  | .back, .xRight, false => some .nonInternalBack
  | .front, .none, false => some .front
  | .front, .none, true => some .rightmostFront      -- `ADAPTER;rightmost`: regular 5' adapters only
  | .front, .caret, false => some .prefix
  | .front, .xLeft, false => some .nonInternalFront
  | .anywhere, .none, false => some .anywhere
  | _, _, _ => none

def Restr.anchored : Restr → Bool
  | .caret | .dollar => true
  | _ => false
def Restr.restricted : Restr → Bool
  | .none => false
  | _ => true

def upperChar (c : Char) : Char := if 'a' ≤ c ∧ c ≤ 'z' then Char.ofNat (c.toNat - 32) else c
/-- "The adapter sequence will be converted to uppercase. Also, Us will be converted to Ts"; "`I` is replaced with `N`" -/
def normalise (s : Str) : Str :=
  s.map (fun c => let u := upperChar c; if u = 'U' then 'T' else if u = 'I' then 'N' else u)

def nonN (s : Str) : Nat := s.length - s.countP (· = 'N')

/-- The documented search parameters of one adapter of class `cls` (sequence, error rate, overlap, …). -/
def buildPart (p : Part) (base : Base) (cls : Cls) (name : Option Str) (fa : Bool) : Except Kind (Single × Option Value) :=
  let s := paramSem p.params
  let sq := normalise (expandRuns p.runs)
  let e := s.e.getD base.e
  let indels := s.indels.getD base.indels
  let n := nonN sq
  -- "a value of 1 or greater ... is converted to a rate by dividing it by the number of non-N characters"
  let divisor := if e.ge1 ∧ n ≠ 0 then n else 1
  let o := match s.o with
    | some v => if v.gtNat sq.length then .int sq.length else v
    | none => base.o
  -- anchored adapters "always need to occur at full length"; otherwise the overlap cannot exceed the adapter
  let overlap := if p.restr.anchored then .int sq.length else if o.gtNat sq.length then .int sq.length else o
  let aw := base.adapterWildcards && !sq.all isACGT
  if aw ∧ n = 0 then .error .cmdline                       -- only N wildcards
  else if p.restr.anchored ∧ ¬ indels.truthy ∧ e.den * divisor < e.numer then .error .cmdline   -- rate above 1 (anchored, no indels)
  else .ok (⟨cls, sq, name, e, divisor, overlap, indels, .bool base.readWildcards, aw, fa⟩, s.required)

/-- One adapter (not linked, or one half of a linked adapter) as documented.
    `t`: 5', 3' or `-b` position; `inLinked`: half of a linked adapter; `name`: the name it gets.
    Order of the checks as in the implementation (all failures are of the same kind). -/
def meaningPart (t : AType) (inLinked : Bool) (p : Part) (base : Base) (name : Option Str) : Except Kind (Single × Option Value) :=
  if !paramsConsistent p.params then .error .cmdline
  else
    match classOf t p.restr (paramSem p.params).rightmost with
    | none => .error .cmdline                                    -- restriction or `rightmost` not allowed for this adapter type
    | some cls =>
      -- "The minimum overlap length cannot be set for anchored adapters"
      if (paramSem p.params).o.isSome ∧ p.restr.anchored then .error .cmdline
      -- `required`/`optional`: linked adapters only
      else if !inLinked ∧ (paramSem p.params).required.isSome then .error .cmdline
      else
        -- `anywhere` is described for regular 5'/3' adapters (ignored elsewhere)
        buildPart p base cls name
          (!inLinked && (paramSem p.params).anywhere && (cls == .front || cls == .back || cls == .rightmostFront))

def optOr (a b : Option Str) : Option Str := match a with | some x => some x | none => b

/-- An adapter or linked adapter; `hname`: name from a FASTA header (wins over `name=`).
    Linked: "-a: the adapters that are anchored become required, the non-anchored adapters optional" (the implementation counts
    any placement restriction, also `X`, as anchored here); "-g: both adapters are required"; `required`/`optional` override. -/
def meaningBody (o : Opt) (b : Body) (base : Base) (hname : Option Str) : Except Kind AdapterDesc :=
  match b with
  | .single p =>
    match meaningPart o.atype false p base (optOr hname p.name) with
    | .error k => .error k
    | .ok (a, _) => .ok (.single a)
  | .linked f bk =>
    if o = .b then .error .cmdline                 -- linked adapters exist for -a and -g only
    else
      match meaningPart .front true f base (some (cs!"linked_front")) with
      | .error k => .error k
      | .ok (fa, freq) =>
        match meaningPart .back true bk base (some (cs!"linked_back")) with
        | .error k => .error k
        | .ok (ba, breq) =>
          let fdef := if o = .g then true else f.restr.restricted
          let bdef := if o = .g then true else bk.restr.restricted
          .ok (.linked fa ba (freq.getD (.bool fdef)) (breq.getD (.bool bdef)) (optOr hname f.name))

/-- "the sequence header is used as the adapter name": its first word -/
def headerName (h : Str) : Option Str :=
  match h.dropWhile isSpace with
  | [] => none
  | w => some (w.takeWhile (fun c => !isSpace c))

def mapMK (f : α → Except Kind β) : List α → Except Kind (List β)
  | [] => .ok []
  | x :: xs =>
    match f x with
    | .error e => .error e
    | .ok y =>
      match mapMK f xs with
      | .error e => .error e
      | .ok ys => .ok (y :: ys)

/-- `^file:` anchors every record at the 5' end, `file$:` at the 3' end -/
def Body.anchor (a : FileAnchor) : Body → Body
  | .single p =>
    match a with
    | .none => .single p
    | .caret => .single { p with restr := .caret }
    | .dollar => .single { p with restr := .dollar }
  | .linked f b =>
    match a with
    | .none => .linked f b
    | .caret => .linked { f with restr := .caret } b
    | .dollar => .linked f { b with restr := .dollar }

/-- The adapters a specification denotes under the global options `g`. -/
def meaning (s : Spec) (g : Globals) : Except Kind (List AdapterDesc) :=
  match s with
  | .plain o b =>
    match meaningBody o b (Base.ofGlobals g) none with
    | .error k => .error k
    | .ok a => .ok [a]
  | .file o anchor _ fparams records =>
    if !paramsConsistent fparams then .error .cmdline
    else
      let base := (Base.ofGlobals g).override (paramSem fparams)
      mapMK (fun r => meaningBody o (r.body.anchor anchor) base (headerName r.header)) records

/-! ## Well-formedness: the lexical side conditions of the notation

Sequences are written with IUPAC letters (either case, `U`, `I`), are not empty after expansion and do not begin or end with
`X` (which would change the restriction); names are made of letters, digits, `_`, `-`; repeat counts are at most 10000;
`e`/`o` parameters carry a number (`o` an integer), flags carry none.  Linked parts do not use `anywhere`; file-level
parameters are `e`/`o`/`indels`/`noindels` (for both, the implementation raises an uncaught `TypeError`, see
`Cutadapt.C18.linked_anywhere_crashes`, `Cutadapt.C18.file_level_flag_crashes`); with `^file:`/`file$:` the records carry no own
name/restriction at the anchored end and, for `file$:`, no parameters on the last part (the `$` is appended to the text). -/

def seqChars : Str := cs!"ABCDGHKMNRSTUVWXYIabcdghkmnrstuvwxyi"
def nameChars : Str := cs!"ABCDEFGHIJKLMNOPQRSTUVWXYZabcdefghijklmnopqrstuvwxyz0123456789_-"

def NumLit.WF : NumLit → Prop
  | .int _ => True
  | .dec _ frac => frac ≠ []

def Param.WF (p : Param) : Prop :=
  match p.name with
  | .e | .maxErrors | .maxErrorRate => ∃ l, p.value = some l ∧ l.WF
  | .o | .minOverlap => ∃ n, p.value = some (.int n)
  | _ => p.value = none

def Run.WF (r : Run) : Prop := r.c ∈ seqChars ∧ ∀ n, r.rep = some n → n ≤ 10000

def edgeOK (sq : Str) : Prop :=
  sq ≠ [] ∧ (∀ c, sq.head? = some c → isX c = false) ∧ (∀ c, sq.getLast? = some c → isX c = false)

def Part.WF (p : Part) : Prop :=
  (∀ n, p.name = some n → ∀ c ∈ n, c ∈ nameChars) ∧ (∀ r ∈ p.runs, r.WF) ∧ (∀ q ∈ p.params, q.WF) ∧ edgeOK (expandRuns p.runs)

def Part.noAnywhere (p : Part) : Prop := ∀ q ∈ p.params, q.name ≠ .anywhere

def Body.WF : Body → Prop
  | .single p => p.WF
  | .linked f b => f.WF ∧ b.WF ∧ f.noAnywhere ∧ b.noAnywhere

def Body.first : Body → Part
  | .single p => p
  | .linked f _ => f
def Body.last : Body → Part
  | .single p => p
  | .linked _ b => b

def fileParamName (n : PName) : Prop :=
  n = .e ∨ n = .maxErrors ∨ n = .maxErrorRate ∨ n = .o ∨ n = .minOverlap ∨ n = .indels ∨ n = .noindels

def Record.WF (a : FileAnchor) (r : Record) : Prop :=
  r.body.WF ∧ isAscii r.header = true ∧
  (a = .caret → r.body.first.name = none ∧ r.body.first.restr = .none) ∧
  (a = .dollar → r.body.last.restr = .none ∧ r.body.last.params = [])

def Spec.WF : Spec → Prop
  | .plain _ b => b.WF
  | .file _ a path fparams records =>
    (∀ c ∈ path, c ≠ ';' ∧ c.toNat < 128) ∧ (∀ q ∈ fparams, q.WF ∧ fileParamName q.name) ∧ (∀ r ∈ records, r.WF a)

/-- `-O` is an integer -/
def GlobalsOK (g : Globals) : Prop := g.minOverlap.isFloat = false

end Cutadapt.Notation
