import Cutadapt.Basic
/-! Specification vocabulary: edit scripts and weighted edit distance. Independent of the model. Core Lean only. -/
namespace Cutadapt.Spec
open Cutadapt

/-- one column of an alignment: adapter (reference) character over read (query) character -/
inductive Op where
  | sub (r q : Sym)   -- aligned pair (match or mismatch)
  | del (r : Sym)     -- adapter character without counterpart in the read
  | ins (q : Sym)     -- read character without counterpart in the adapter
deriving Repr, DecidableEq

def Op.lhs : Op → List Sym
  | .sub r _ => [r] | .del r => [r] | .ins _ => []
def Op.rhs : Op → List Sym
  | .sub _ q => [q] | .del _ => [] | .ins q => [q]
/-- match 0, mismatch 1, indel `c` -/
def Op.cost (eq : Sym → Sym → Bool) (c : Nat) : Op → Nat
  | .sub r q => if eq r q then 0 else 1
  | .del _ => c
  | .ins _ => c

/-- the adapter side spelled by a script -/
def lhs (s : List Op) : List Sym := s.flatMap Op.lhs
/-- the read side spelled by a script -/
def rhs (s : List Op) : List Sym := s.flatMap Op.rhs
def cost (eq : Sym → Sym → Bool) (c : Nat) (s : List Op) : Nat := (s.map (Op.cost eq c)).sum

@[simp] theorem lhs_nil : lhs [] = [] := rfl
@[simp] theorem rhs_nil : rhs [] = [] := rfl
@[simp] theorem cost_nil (eq c) : cost eq c [] = 0 := rfl
@[simp] theorem lhs_cons (o : Op) (s : List Op) : lhs (o :: s) = o.lhs ++ lhs s := by simp [lhs]
@[simp] theorem rhs_cons (o : Op) (s : List Op) : rhs (o :: s) = o.rhs ++ rhs s := by simp [rhs]
@[simp] theorem cost_cons (eq c) (o : Op) (s : List Op) : cost eq c (o :: s) = o.cost eq c + cost eq c s := by simp [cost]
@[simp] theorem lhs_append (s t : List Op) : lhs (s ++ t) = lhs s ++ lhs t := by simp [lhs]
@[simp] theorem rhs_append (s t : List Op) : rhs (s ++ t) = rhs s ++ rhs t := by simp [rhs]
@[simp] theorem cost_append (eq c) (s t : List Op) : cost eq c (s ++ t) = cost eq c s + cost eq c t := by
  simp [cost]
theorem cost_single (eq c) (o : Op) : cost eq c [o] = o.cost eq c := by simp [cost]

/-- `d` is the weighted edit distance between `xs` (adapter part) and `ys` (read part):
    some alignment costs exactly `d` and none is cheaper. -/
def IsDist (eq : Sym → Sym → Bool) (c : Nat) (xs ys : List Sym) (d : Nat) : Prop :=
  (∃ s, lhs s = xs ∧ rhs s = ys ∧ cost eq c s = d) ∧ ∀ s, lhs s = xs → rhs s = ys → d ≤ cost eq c s

/-- number of mismatching positions of two equally long strings -/
def hamming (eq : Sym → Sym → Bool) : List Sym → List Sym → Nat
  | x :: xs, y :: ys => (if eq x y then 0 else 1) + hamming eq xs ys
  | _, _ => 0

end Cutadapt.Spec
