import Cutadapt.Spec.Edit
/-! Specification vocabulary for C07: occurrence of a word in a text under a character relation, number of indels of a
    script. Independent of the model. Core Lean only. -/
namespace Cutadapt.Spec
open Cutadapt

/-- word `w` occurs in `t` at offset `i` under the relation `m` (first argument: character of the word) -/
def OccursAt (m : Sym → Sym → Bool) (w t : List Sym) (i : Nat) : Prop :=
  i + w.length ≤ t.length ∧ ∀ j, j < w.length → ∃ a c, w[j]? = some a ∧ t[i + j]? = some c ∧ m a c = true

def Op.isIndel : Op → Bool
  | .sub _ _ => false
  | _ => true

/-- number of insertions and deletions of a script -/
def indels (s : List Op) : Nat := (s.filter Op.isIndel).length

end Cutadapt.Spec
