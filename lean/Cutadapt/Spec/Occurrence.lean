import Cutadapt.Spec.Edit
/-! Specification vocabulary for C01/C02: documented character matching, placement rules of the eight adapter
    types, effective length, occurrences. Independent of the model (no reference to `Align`). Core Lean only. -/
namespace Cutadapt.Spec
open Cutadapt

/-! ### Documented character equality (user guide, "Wildcards")
  Without any wildcard switch: case-insensitive ASCII equality.
  With a wildcard switch on one side, that side's characters denote IUPAC sets (N also matches any non-nucleotide
  character of the other side; X and non-IUPAC characters match nothing); the other side's characters are
  A/C/G/T(U) or "some other character". -/

/-- bit set over {A,C,G,T} plus bit 128 = "other character" -/
def iupacSet (c : UInt8) : UInt8 :=
  let u := if 97 ≤ c ∧ c ≤ 122 then c - 32 else c
  if u == 65 then 1 else if u == 67 then 2 else if u == 71 then 4 else if u == 84 then 8 else if u == 85 then 8
  else if u == 82 then 5 else if u == 89 then 10 else if u == 83 then 6 else if u == 87 then 9
  else if u == 75 then 12 else if u == 77 then 3 else if u == 66 then 14 else if u == 68 then 13
  else if u == 72 then 11 else if u == 86 then 7 else if u == 78 then 143 else 0

def plainSet (c : UInt8) : UInt8 :=
  let u := if 97 ≤ c ∧ c ≤ 122 then c - 32 else c
  if u == 65 then 1 else if u == 67 then 2 else if u == 71 then 4 else if u == 84 then 8 else if u == 85 then 8
  else 128

def upperAscii (c : UInt8) : UInt8 := if 97 ≤ c ∧ c ≤ 122 then c - 32 else c

/-- does adapter character `a` match read character `r`? (`aw`/`rw`: wildcards enabled in adapter/read) -/
def docMatch (aw rw : Bool) (a r : UInt8) : Bool :=
  if !aw && !rw then upperAscii a == upperAscii r
  else ((if aw then iupacSet a else plainSet a) &&& (if rw then iupacSet r else plainSet r)) != 0

/-! ### Placement rules (user guide, "Adapter types") -/

inductive AType where
  | regular3 | regular5 | rightmost5 | anywhere | nonInternal5 | nonInternal3 | anchored5 | anchored3
deriving Repr, DecidableEq

/-- adapter interval `[as, ae)` of an adapter of length `m` against read interval `[rs, re)` of a read of length `n` -/
def Placement (ty : AType) (m n as ae rs re : Nat) : Prop :=
  match ty with
  | .regular3 => as = 0 ∧ (ae = m ∨ re = n)                 -- full adapter, or a prefix of it at the read's 3' end
  | .regular5 | .rightmost5 => ae = m ∧ (as = 0 ∨ rs = 0)   -- full adapter, or a suffix of it at the read's 5' end
  | .anywhere => (as = 0 ∨ rs = 0) ∧ (ae = m ∨ re = n)
  | .nonInternal5 => ae = m ∧ rs = 0                        -- must start at the read's 5' end (may be partial)
  | .nonInternal3 => as = 0 ∧ re = n
  | .anchored5 => as = 0 ∧ ae = m ∧ rs = 0                  -- full adapter at the very start
  | .anchored3 => as = 0 ∧ ae = m ∧ re = n

instance (ty : AType) (m n as ae rs re : Nat) : Decidable (Placement ty m n as ae rs re) := by
  unfold Placement; cases ty <;> infer_instance

/-- number of aligned adapter characters that are not `N` wildcards -/
def effLen (aw : Bool) (adapter : List Sym) (as ae : Nat) : Nat :=
  if aw then ((seg adapter as ae).filter (fun c => !(c == 78 || c == 110))).length else ae - as

end Cutadapt.Spec
