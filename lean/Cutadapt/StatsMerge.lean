import Cutadapt.Stats
/-! Model of the `__iadd__` methods with which the main process of a multi-core run adds up the statistics of its workers
    (`Statistics.__iadd__` in `report.py`; `EndStatistics.__iadd__`, `SingleAdapterStatistics/LinkedAdapterStatistics/
    AnywhereAdapterStatistics.__iadd__` in `adapters.py`; `ReadLengthStatistics.__iadd__` in `statistics.py`), over the summaries of
    `Stats.lean`. `None` counters are 0 here (`add_if_not_none`: `None + x = x`). Core Lean only. -/
namespace Cutadapt

/-- `for k, v in other.items(): self[k] += v` (also `Counter(a) + Counter(b)`: all counts are positive) -/
def mergeCounts [BEq κ] (a b : List (κ × Nat)) : List (κ × Nat) :=
  b.foldl (fun acc kv => incr kv.1 kv.2 acc) a

/-- `EndStatistics.__iadd__`: adjacent bases and `errors[length][errors]` are added entry by entry -/
def EndStats.merge (a b : EndStats) : EndStats :=
  { errors := mergeCounts a.errors b.errors, adjacent := mergeCounts a.adjacent b.adjacent }

/-- `Single/Linked/AnywhereAdapterStatistics.__iadd__`: both ends and the reverse-complement counter -/
def AdapterStats.merge (a b : AdapterStats) : AdapterStats :=
  { front := a.front.merge b.front, back := a.back.merge b.back, reverseComplemented := a.reverseComplemented + b.reverseComplemented }

inductive MergeErr where
  | adapterStatsLength     -- "Incompatible Statistics objects (adapter_stats length)"
deriving Repr, BEq, DecidableEq

/-- the `adapter_stats[i]` part of `Statistics.__iadd__`: an empty list on either side yields the other one; otherwise the lists
    must be equally long and are merged **by position** -/
def mergeAdapterStats (a b : List AdapterStats) : Except MergeErr (List AdapterStats) :=
  if a.isEmpty then .ok b
  else if b.isEmpty then .ok a
  else if a.length != b.length then .error .adapterStatsLength
  else .ok (List.zipWith AdapterStats.merge a b)

/-- `Statistics.__iadd__` on the counters of `Summary` (`read_length_statistics` contributes `written`, `writtenBp1/2`) -/
def Summary.merge (a b : Summary) : Summary :=
  { n := a.n + b.n, bp1 := a.bp1 + b.bp1, bp2 := a.bp2 + b.bp2,
    written := a.written + b.written, writtenBp1 := a.writtenBp1 + b.writtenBp1, writtenBp2 := a.writtenBp2 + b.writtenBp2,
    filteredByStep := mergeCounts a.filteredByStep b.filteredByStep,
    qualTrimmed1 := a.qualTrimmed1 + b.qualTrimmed1, qualTrimmed2 := a.qualTrimmed2 + b.qualTrimmed2,
    polyA1 := mergeCounts a.polyA1 b.polyA1, polyA2 := mergeCounts a.polyA2 b.polyA2,
    withAdapters1 := a.withAdapters1 + b.withAdapters1, withAdapters2 := a.withAdapters2 + b.withAdapters2,
    reverseComplemented := a.reverseComplemented + b.reverseComplemented }

/-- `Statistics()` -/
def Summary.zero : Summary := {}

end Cutadapt
