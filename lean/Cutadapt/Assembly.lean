import Cutadapt.Pipeline
/-! Model of the pipeline assembly in `cli.py` (`make_pipeline_from_args`, `make_unconditional_cutters`,
    `make_quality_trimmers`, `make_adapter_cutter`, `make_shortener`, `modifiers_applying_to_both_ends_if_paired`,
    `determine_demultiplex_mode`) from an option record that holds the values argparse produced. Core Lean only. -/
namespace Cutadapt

/-- a record writer as opened by `OutputFiles.open_record_writer(path1[, path2], interleaved=…)` -/
structure Writer where
  path1 : String
  path2 : Option String := none
  interleaved : Bool := false
deriving Repr, BEq, Inhabited

structure Opts where
  paired : Bool := false
  cut : List Int := []
  cut2 : List Int := []
  nextseqTrim : Option Int := none
  qualityBase : Int := 33
  /-- `-q`: `none` = not given; `some none` = the literal string "0"; `some (some (a, b))` = parsed cutoffs -/
  qualityCutoff : Option (Option (Int × Int)) := none
  qualityCutoff2 : Option (Option (Int × Int)) := none
  pairAdapters : Bool := false
  action : Action := .trim
  times : Nat := 1
  revcomp : Bool := false
  /-- `--rename`: `none` = not given or "{header}"; tokens otherwise (R1 and R2 template identical) -/
  rename : Option (List Tok) := none
  renameGiven : Bool := false
  polyA : Bool := false
  length : Option Int := none
  length2 : Option Int := none
  trimN : Bool := false
  lengthTag : Option Bytes := none
  stripSuffix : List Bytes := []
  pfx : Bytes := []
  sfx : Bytes := []
  zeroCap : Bool := false
  -- filters (`-m`/`-M` after `parse_lengths`)
  minLen : Option (Option Int × Option Int) := none
  maxLen : Option (Option Int × Option Int) := none
  tooShortOut : Option String := none
  tooShortPaired : Option String := none
  tooLongOut : Option String := none
  tooLongPaired : Option String := none
  maxN : Option Float := none
  maxEE : Option Float := none
  maxAER : Option Float := none
  discardCasava : Bool := false
  discardTrimmed : Bool := false
  discardUntrimmed : Bool := false
  untrimmedOut : Option String := none
  untrimmedPaired : Option String := none
  pairFilter : Option PairMode := none
  output : String := "out"
  pairedOutput : Option String := none
  restFile : Option String := none
  infoFile : Option String := none
  wildcardFile : Option String := none
  inputHasQualities : Bool := true
  interleaved : Bool := false
deriving Inhabited

def strContains (s pat : String) : Bool := (s.splitOn pat).length > 1

/-- `determine_demultiplex_mode` : 0 = no, 1 = normal, 2 = combinatorial -/
def demuxMode (o : Opts) : Except Err Nat :=
  let demux := strContains o.output "{name}"
  match o.pairedOutput with
  | some p =>
    if demux != strContains p "{name}" then .error .cmdline else
    let comb := strContains o.output "{name1}" && strContains o.output "{name2}" && strContains p "{name1}" && strContains p "{name2}"
    if demux && comb then .error .cmdline else .ok (if demux then 1 else if comb then 2 else 0)
  | none => .ok (if demux then 1 else 0)

/-- state while opening writers and text files: the lists grow, indices are stable -/
structure Files where
  writers : List Writer := []
  texts : List String := []

def Files.openWriter (f : Files) (w : Writer) : Files × Nat := ({ f with writers := f.writers ++ [w] }, f.writers.length)
def Files.openText (f : Files) (p : String) : Files × Nat := ({ f with texts := f.texts ++ [p] }, f.texts.length)

/-- `make_filter`'s writer -/
def filterWriter (paired : Bool) (f : Files) (p1 p2 : Option String) : Files × Option Nat :=
  match p1, p2 with
  | none, none => (f, none)
  | some a, none => let (f, i) := f.openWriter ⟨a, none, paired⟩; (f, some i)
  | some a, some b => let (f, i) := f.openWriter (if paired then ⟨a, some b, false⟩ else ⟨a, none, false⟩); (f, some i)
  | none, some b => let (f, i) := f.openWriter ⟨b, none, false⟩; (f, some i)   -- not reachable from valid command lines

def lengthPreds (mk : Int → Pred) (paired : Bool) (l : Option Int × Option Int) : Option Pred × Option Pred :=
  if paired then (l.1.map mk, l.2.map mk) else (l.1.map mk, none)

def makeSteps (o : Opts) (names names2 : List String) : Except Err (List Step × Files) := do
  let mode : PairMode := (o.pairFilter.getD .any)
  let mut f : Files := {}
  let mut steps : List Step := []
  if let some p := o.restFile then
    let (f', i) := f.openText p; f := f'; steps := steps ++ [.restWriter i]
  if let some p := o.infoFile then
    let (f', i) := f.openText p; f := f'; steps := steps ++ [.infoWriter i]
  if let some p := o.wildcardFile then
    let (f', i) := f.openText p; f := f'; steps := steps ++ [.wildcardWriter i]
  -- length filters
  match o.minLen with
  | none => if o.tooShortOut.isSome || o.tooShortPaired.isSome then throw .cmdline
  | some l =>
    if !o.paired && o.tooShortPaired.isSome then throw .cmdline
    let (p1, p2) := lengthPreds .tooShort o.paired l
    let (f', w) := filterWriter o.paired f o.tooShortOut o.tooShortPaired; f := f'
    steps := steps ++ [.filter p1 p2 mode w]
  match o.maxLen with
  | none => if o.tooLongOut.isSome || o.tooLongPaired.isSome then throw .cmdline
  | some l =>
    if !o.paired && o.tooLongPaired.isSome then throw .cmdline
    let (p1, p2) := lengthPreds .tooLong o.paired l
    let (f', w) := filterWriter o.paired f o.tooLongOut o.tooLongPaired; f := f'
    steps := steps ++ [.filter p1 p2 mode w]
  let both := fun (p : Pred) => if o.paired then Step.filter (some p) (some p) mode none else Step.filter (some p) none mode none
  if let some c := o.maxN then steps := steps ++ [both (.tooManyN c)]
  if let some e := o.maxEE then if o.inputHasQualities then steps := steps ++ [both (.maxEE e)]
  if let some r := o.maxAER then if o.inputHasQualities then steps := steps ++ [both (.maxAER r)]
  if o.discardCasava then steps := steps ++ [both .casava]
  let untrimmedGiven := o.untrimmedOut.isSome || o.untrimmedPaired.isSome
  if (if o.discardTrimmed then 1 else 0) + (if o.discardUntrimmed then 1 else 0) + (if untrimmedGiven then 1 else 0) > 1 then
    throw .cmdline
  let dm ← demuxMode o
  if dm != 0 && o.discardTrimmed then throw .cmdline
  if dm == 2 && o.pairAdapters then throw .cmdline
  if dm == 1 then
    let mut ws : List (String × Nat) := []
    for n in names do
      let w : Writer := if o.paired then ⟨o.output.replace "{name}" n, (o.pairedOutput.map (·.replace "{name}" n)), false⟩
                        else ⟨o.output.replace "{name}" n, none, false⟩
      let (f', i) := f.openWriter w; f := f'; ws := ws ++ [(n, i)]
    let mut un : Option Nat := none
    if !o.discardUntrimmed then
      let p1 := o.untrimmedOut.getD (o.output.replace "{name}" "unknown")
      let w : Writer := if o.paired then
          ⟨p1, some (o.untrimmedPaired.getD ((o.pairedOutput.getD "").replace "{name}" "unknown")), false⟩
        else ⟨p1, none, false⟩
      let (f', i) := f.openWriter w; f := f'; un := some i
    steps := steps ++ [.demux ws un]
  else if dm == 2 then
    if untrimmedGiven then throw .cmdline
    let extra : List (Option String × Option String) :=
      if o.discardUntrimmed then [] else
        [(none, none)] ++ names2.map (fun n => (none, some n)) ++ names.map (fun n => (some n, none))
    let keys := (names.flatMap fun a => names2.map fun b => (some a, some b)) ++ extra
    let mut ws : List ((Option String × Option String) × Nat) := []
    for k in keys do
      let f1 := k.1.getD "unknown"; let f2 := k.2.getD "unknown"
      let rep := fun (t : String) => (t.replace "{name1}" f1).replace "{name2}" f2
      let (f', i) := f.openWriter ⟨rep o.output, some (rep (o.pairedOutput.getD "")), false⟩; f := f'
      ws := ws ++ [(k, i)]
    steps := steps ++ [.combDemux ws]
  else
    let override := o.paired && (names2.isEmpty || names.isEmpty) && (o.discardUntrimmed || untrimmedGiven)
    if o.discardTrimmed then steps := steps ++ [both .isTrimmed]
    else if o.discardUntrimmed then
      steps := steps ++ [if o.paired then .filter (some .isUntrimmed) (some .isUntrimmed) (if override then .both else mode) none
                         else .filter (some .isUntrimmed) none mode none]
    else if untrimmedGiven then
      let (f', w) := filterWriter o.paired f o.untrimmedOut o.untrimmedPaired; f := f'
      steps := steps ++ [.filter (some .isUntrimmed) (if o.paired then some .isUntrimmed else none) (if override then .both else mode) w]
    let w : Writer := if o.paired then ⟨o.output, o.pairedOutput, o.pairedOutput.isNone⟩ else ⟨o.output, none, false⟩
    let (f', i) := f.openWriter w; f := f'
    steps := steps ++ [.sink i]
  return (steps, f)

/-- `make_unconditional_cutters` for one side -/
def cutMods (c : List Int) : Except Err (List SMod) :=
  if c.length > 2 then .error .cmdline
  else if c.length == 2 && c[0]! * c[1]! > 0 then .error .cmdline
  else .ok ((c.filter (· != 0)).map .cut)

def qtrimOf (q : Option (Option (Int × Int))) (base : Int) : Option SMod :=
  match q with
  | some (some (a, b)) => some (.qtrim a b base)
  | _ => none

/-- modifiers applied to both ends (`modifiers_applying_to_both_ends_if_paired`) -/
def bothEndMods (o : Opts) : List SMod :=
  (if o.trimN then [.trimN] else []) ++
  (match o.lengthTag with | some t => [.lengthTag t] | none => []) ++
  o.stripSuffix.map .stripSuffix ++
  (if !o.pfx.isEmpty || !o.sfx.isEmpty then [.prefixSuffix o.pfx o.sfx] else []) ++
  (if o.zeroCap then [.zeroCap o.qualityBase.toNat] else [])

def makeModsSingle (o : Opts) (ads : List Matchable) : Except Err (List SMod) := do
  let cuts ← cutMods o.cut
  let pre := cuts ++ (match o.nextseqTrim with | some c => [SMod.nextseq c o.qualityBase] | none => []) ++
    (qtrimOf o.qualityCutoff o.qualityBase).toList
  if o.pairAdapters then throw .cmdline   -- PairedAdapterCutter needs two adapter lists
  if (o.action == .retain || o.action == .crop) && o.times > 1 && !ads.isEmpty then throw .cmdline
  let cutter : Cutter := ⟨ads, o.times, o.action⟩
  let adm : List SMod :=
    if ads.isEmpty then [] else
    if o.revcomp then [.revcomp cutter (!o.renameGiven) pre.isEmpty] else [.adapters cutter pre.isEmpty]
  if o.renameGiven && (!o.pfx.isEmpty || !o.sfx.isEmpty) then throw .cmdline
  return pre ++ adm ++ (if o.polyA then [.polyA false] else []) ++
    (match o.length with | some l => [.shorten l] | none => []) ++ bothEndMods o ++
    (match o.rename with | some t => [.rename t] | none => [])

def makeModsPaired (o : Opts) (ads1 ads2 : List Matchable) : Except Err (List PMod) := do
  let c1 ← cutMods o.cut
  let c2 ← cutMods o.cut2
  let cuts : List PMod := c1.map (fun m => .wrap (some m) none) ++ c2.map (fun m => .wrap none (some m))
  let ns : List PMod := match o.nextseqTrim with
    | some c => [.wrap (some (.nextseq c o.qualityBase)) (some (.nextseq c o.qualityBase))] | none => []
  let q1 := qtrimOf o.qualityCutoff o.qualityBase
  -- `if cutoff1 is not None and cutoff2 is None: qtrimmers[1] = copy(qtrimmers[0])`
  let q2 := if o.qualityCutoff.isSome && o.qualityCutoff2.isNone then q1 else qtrimOf o.qualityCutoff2 o.qualityBase
  let qs : List PMod := if q1.isSome || q2.isSome then [.wrap q1 q2] else []
  let pre := cuts ++ ns ++ qs
  -- is the read object of side 1 / side 2 still `info.original_read` when the adapter stage runs?
  let first1 := c1.isEmpty && o.nextseqTrim.isNone && q1.isNone
  let first2 := c2.isEmpty && o.nextseqTrim.isNone && q2.isNone
  let adm : List PMod ←
    if o.pairAdapters then
      if o.revcomp then throw .cmdline
      else if ads1.length != ads2.length || ads1.isEmpty then throw .cmdline
      else pure [PMod.pairAdapters ads1 ads2 o.action first1 first2]
    else
      if (o.action == .retain || o.action == .crop) && o.times > 1 && (!ads1.isEmpty || !ads2.isEmpty) then throw .cmdline
      else
        let k1 : Option Cutter := if ads1.isEmpty then none else some ⟨ads1, o.times, o.action⟩
        let k2 : Option Cutter := if ads2.isEmpty then none else some ⟨ads2, o.times, o.action⟩
        if k1.isNone && k2.isNone then pure []
        else if o.revcomp then pure [PMod.pairedRevcomp k1 k2 (!o.renameGiven) first1 first2]
        else pure [PMod.wrap (k1.map (fun c => SMod.adapters c first1)) (k2.map (fun c => SMod.adapters c first2))]
  let poly : List PMod := if o.polyA then [.wrap (some (.polyA false)) (some (.polyA true))] else []
  let short : List PMod := match o.length, o.length2 with
    | some a, some b => [.wrap (some (.shorten a)) (some (.shorten b))]
    | some a, none => [.wrap (some (.shorten a)) (some (.shorten a))]
    | none, some b => [.wrap none (some (.shorten b))]
    | none, none => []
  if o.renameGiven && (!o.pfx.isEmpty || !o.sfx.isEmpty) then throw .cmdline
  return pre ++ adm ++ poly ++ short ++ (bothEndMods o).map (fun m => PMod.wrap (some m) (some m)) ++
    (match o.rename with | some t => [.pairedRename t t] | none => [])

def makeSingle (o : Opts) (ads : List Matchable) : Except Err (SinglePipeline × Files) := do
  if o.untrimmedPaired.isSome || o.pairAdapters then throw .cmdline
  let (steps, f) ← makeSteps o (namesOf ads) []
  let mods ← makeModsSingle o ads
  return (⟨ads, mods, steps⟩, f)

/-- `check_arguments` (the part that concerns output files and `--pair-adapters`) -/
def checkArguments (o : Opts) : Except Err Unit := do
  if !o.paired then
    if o.untrimmedPaired.isSome || o.pairAdapters then throw .cmdline
  if o.paired && !o.interleaved then
    if o.pairedOutput.isNone then throw .cmdline
    if o.untrimmedOut.isSome != o.untrimmedPaired.isSome then throw .cmdline
    if o.tooShortOut.isSome != o.tooShortPaired.isSome then throw .cmdline
    if o.tooLongOut.isSome != o.tooLongPaired.isSome then throw .cmdline
  if o.pairAdapters && o.times != 1 then throw .cmdline

def makePaired (o : Opts) (ads1 ads2 : List Matchable) : Except Err (PairedPipeline × Files) := do
  checkArguments o
  let (steps, f) ← makeSteps o (namesOf ads1) (namesOf ads2)
  let mods ← makeModsPaired o ads1 ads2
  return (⟨ads1, ads2, mods, steps⟩, f)

end Cutadapt
