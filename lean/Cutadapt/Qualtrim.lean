import Cutadapt.Basic
/-! Model of `src/cutadapt/qualtrim.pyx`: `quality_trim_index`, `nextseq_trim_index`, `poly_a_trim_index`,
    and of the `NEndTrimmer` regular expressions (`modifiers.py`). Core Lean only. -/
namespace Cutadapt.Qualtrim

/-- The BWA-style loop shared by the three quality scans (`qualtrim.pyx:52-70,105-114`), over the values
    `cutoff - q` *in the order the loop visits them*:
    `s += v; if s < 0: break; if s > max_qual: max_qual = s; best = (number of visited elements)`.
    `j` = elements visited so far. Result: number of visited elements at which the running sum was
    maximal (first such), 0 if it never became positive. -/
def scanGo : List Int → (j : Nat) → (s maxq : Int) → (best : Nat) → Nat
  | [], _, _, _, best => best
  | v :: vs, j, s, maxq, best =>
    let s := s + v
    if s < 0 then best
    else if s > maxq then scanGo vs (j+1) s s (j+1)
    else scanGo vs (j+1) s maxq best

def bestPrefix (vs : List Int) : Nat := scanGo vs 0 0 0 0

/-- `cutoff - (qual[i] - base)` -/
def dval (cutoff base : Int) (q : UInt8) : Int := cutoff - ((q.toNat : Int) - base)

/-- 5' loop: `start = i + 1` at the best position. -/
def trim5 (cutoff base : Int) (quals : Bytes) : Nat := bestPrefix (quals.map (dval cutoff base))

/-- 3' loop (`for i in reversed(range(n))`, `stop = i`). -/
def trim3 (cutoff base : Int) (quals : Bytes) : Nat :=
  quals.length - bestPrefix ((quals.map (dval cutoff base)).reverse)

/-- `quality_trim_index(qualities, cutoff_front, cutoff_back, base)` -/
def qualityTrimIndex (quals : Bytes) (cutoffFront cutoffBack base : Int) : Nat × Nat :=
  let start := trim5 cutoffFront base quals
  let stop := trim3 cutoffBack base quals
  if start ≥ stop then (0, 0) else (start, stop)

/-- `nextseq_trim_index`: `q = qual[i] - base; if bases[i] == 'G': q = cutoff - 1; s += cutoff - q`.
    (`seq` and `quals` have equal length — dnaio's invariant; `zipWith` truncates otherwise.) -/
def nextseqVals (seq quals : Bytes) (cutoff base : Int) : List Int :=
  List.zipWith (fun b q => if b == 71 then cutoff - (cutoff - 1) else dval cutoff base q) seq quals

def nextseqTrimIndex (seq quals : Bytes) (cutoff base : Int) : Nat :=
  quals.length - bestPrefix (nextseqVals seq quals cutoff base).reverse

/-- Poly-A/poly-T loop (`qualtrim.pyx:138-165`) over the characters in visiting order;
    `hit` is the character that scores +1. State: visited count `j`, `score`, `errors`, `bestScore`, `best`
    (= visited count at the best position, 0 if none). -/
def polyGo (hit : UInt8) : List UInt8 → (j : Nat) → (score : Int) → (errors : Nat) → (bestScore : Int) → (best : Nat) → Nat
  | [], _, _, _, _, best => best
  | c :: cs, j, score, errors, bestScore, best =>
    let score := if c == hit then score + 1 else score - 2
    let errors := if c == hit then errors else errors + 1
    if score > bestScore ∧ errors * 5 ≤ j + 1 then polyGo hit cs (j+1) score errors score (j+1)
    else polyGo hit cs (j+1) score errors bestScore best

/-- number of characters (from the scanned end) that the poly-A/T rule removes, before the `< 3` rule -/
def polyBest (hit : UInt8) (cs : List UInt8) : Nat := polyGo hit cs 0 0 0 0 0

/-- `poly_a_trim_index(s, revcomp)`: index of the start of the poly-A tail, or (revcomp) end of the poly-T head. -/
def polyATrimIndex (s : Bytes) (revcomp : Bool) : Nat :=
  if revcomp then
    let b := polyBest 84 s
    if b < 3 then 0 else b
  else
    let b := polyBest 65 s.reverse
    -- best_index = n - b ; `if best_index > n - 3: best_index = n`  (C `int` arithmetic, n - 3 may be negative)
    if b < 3 then s.length else s.length - b

/-- `NEndTrimmer`: `^N+` / `N+$` (upper-case `N` only). Returns `(start_cut, end_cut)`. -/
def isUpperN (c : UInt8) : Bool := c == 78
def nEndIndices (s : Bytes) : Nat × Nat :=
  let a := (s.takeWhile isUpperN).length
  let b := (s.reverse.takeWhile isUpperN).length
  (a, s.length - b)

/-- `TooManyN`: `sequence.lower().count("n")` -/
def nCountBoth (s : Bytes) : Nat := (s.filter (fun c => c == 78 || c == 110)).length

end Cutadapt.Qualtrim
