import Cutadapt.Proofs.RunnerLive
/-! The serial runner, and persistence of faults along executions. -/
namespace Cutadapt.Runner
variable {Chunk Stats Fault : Type} {cfg : Config Chunk Stats Fault} {s s' : State Stats}

/-! ## `serialRun` -/

theorem drop_cons_inv {α : Type} {l : List α} {n : Nat} {c : α} {cs : List α} (h : l.drop n = c :: cs) :
    l[n]? = some c ∧ l.drop (n + 1) = cs ∧ n < l.length := by
  have h1 : l[n]? = (l.drop n)[0]? := by rw [List.getElem?_drop]; simp
  have h2 : l.drop (n + 1) = (l.drop n).drop 1 := by rw [List.drop_drop]
  rw [h] at h1 h2
  refine ⟨by simpa using h1, by simpa using h2, ?_⟩
  rcases Nat.lt_or_ge n l.length with hlt | hge
  · exact hlt
  · rw [List.drop_eq_nil_of_le hge] at h; cases h

/-- what `serialRun` computes: it processes the chunks before the first faulty one -/
structure SerialSpec (cfg : Config Chunk Stats Fault) (R : SerialResult Stats) : Prop where
  done_le : R.done ≤ cfg.chunks.length
  okBefore : ∀ i, i < R.done → (outOf cfg i).isSome = true
  written : ∀ f, R.written f = concatRange (fun i => outData cfg i f) R.done
  stats : R.stats = sumRange cfg.add cfg.zero (outStats cfg) R.done
  terminal : R.outcome = .ok ∨ R.outcome = .failed
  ok_iff : R.outcome = .ok ↔ (R.done = cfg.chunks.length ∧ cfg.readerFault = false)
  stopped : R.done < cfg.chunks.length → outOf cfg R.done = none

theorem serialGo_spec : ∀ (cs : List Chunk) (r : SerialResult Stats),
    cfg.chunks.drop r.done = cs → r.done ≤ cfg.chunks.length →
    (∀ i, i < r.done → (outOf cfg i).isSome = true) →
    (∀ f, r.written f = concatRange (fun i => outData cfg i f) r.done) →
    r.stats = sumRange cfg.add cfg.zero (outStats cfg) r.done →
    SerialSpec cfg (serialGo cfg cs r) := by
  intro cs
  induction cs with
  | nil =>
    intro r hdrop hle hok hw hst
    have hdone : r.done = cfg.chunks.length := by
      have := List.drop_eq_nil_iff.mp hdrop
      omega
    simp only [serialGo]
    refine ⟨hle, hok, hw, hst, ?_, ?_, fun h => by simp only at h; omega⟩
    · cases cfg.readerFault <;> simp
    · cases hrf : cfg.readerFault <;> simp [hdone]
  | cons c cs ih =>
    intro r hdrop hle hok hw hst
    obtain ⟨hget, hdrop', hlt⟩ := drop_cons_inv hdrop
    simp only [serialGo]
    cases hp : cfg.process c with
    | error e =>
      simp only
      refine ⟨hle, hok, hw, hst, Or.inr rfl, ?_, fun _ => by simp [outOf, hget, hp]⟩
      constructor
      · intro h; cases h
      · intro h; simp only at h; omega
    | ok r' =>
      obtain ⟨d, st⟩ := r'
      simp only
      have hout : outOf cfg r.done = some (d, st) := by simp [outOf, hget, hp]
      apply ih
      · exact hdrop'
      · show r.done + 1 ≤ _; omega
      · intro i hi
        have hi : i < r.done + 1 := hi
        by_cases he : i = r.done
        · subst he; simp [hout]
        · exact hok i (by omega)
      · intro f
        show r.written f ++ d.getD f [] = concatRange _ (r.done + 1)
        simp only [concatRange, hw f, outData, hout]
      · show cfg.add r.stats st = sumRange _ _ _ (r.done + 1)
        simp only [sumRange, hst, outStats, hout]

theorem serialRun_spec (cfg : Config Chunk Stats Fault) : SerialSpec cfg (serialRun cfg) := by
  unfold serialRun
  apply serialGo_spec
  · rfl
  · exact Nat.zero_le _
  · intro i hi; simp only at hi; omega
  · intro f; rfl
  · rfl

/-! ## Faults persist -/

theorem rfailed_step {a : Action} (hs : step cfg s a = some s') (h : s.rfailed = true) : s'.rfailed = true := by
  cases a with
  | workerRequest w => obtain ⟨_, _, rfl⟩ := step_workerRequest hs; exact h
  | readerSend => obtain ⟨_, _, w, q, _, rfl⟩ := step_readerSend hs; exact h
  | readerPill => obtain ⟨_, _, _, _, w, q, _, rfl⟩ := step_readerPill hs; exact h
  | readerFault => obtain ⟨_, _, _, rfl⟩ := step_readerFault hs; rfl
  | mainFinish => obtain ⟨_, rfl⟩ := step_mainFinish hs; exact h
  | workerStep w =>
    obtain ⟨_, hcase⟩ := step_workerStep hs
    rcases hcase with ⟨_, _, _, _, rfl⟩ | ⟨_, _, _, rfl⟩ | ⟨_, _, _, rfl⟩ | ⟨_, _, _, _, _, _, _, rfl⟩ | ⟨_, _, _, _, _, _, rfl⟩ <;> exact h
  | mainRecv w =>
    obtain ⟨_, _, hcase⟩ := step_mainRecv hs
    rcases hcase with ⟨_, _, _, _, rfl⟩ | ⟨_, _, _, rfl⟩ | ⟨_, _, rfl⟩ <;> exact h

theorem setW_failed {w v : Nat} {W' : Worker Stats} (hne : (s.workers w).phase ≠ .failed ∨ W'.phase = .failed)
    (h : (s.workers v).phase = .failed) : ((s.setW w W').workers v).phase = .failed := by
  by_cases hv : v = w
  · subst hv
    rw [setW_workers_same]
    rcases hne with hne | hne
    · exact absurd h hne
    · exact hne
  · rw [setW_workers_ne _ _ hv]; exact h

theorem failed_step {a : Action} {v : Nat} (hs : step cfg s a = some s') (h : (s.workers v).phase = .failed) :
    (s'.workers v).phase = .failed := by
  cases a with
  | workerRequest w =>
    obtain ⟨_, hph, rfl⟩ := step_workerRequest hs
    exact setW_failed (Or.inl (by simp [hph])) h
  | readerSend =>
    obtain ⟨_, _, w, q, _, rfl⟩ := step_readerSend hs
    by_cases hv : v = w
    · subst hv; show ((s.setW v _).workers v).phase = _; rw [setW_workers_same]; exact h
    · show ((s.setW w _).workers v).phase = _; rw [setW_workers_ne _ _ hv]; exact h
  | readerPill =>
    obtain ⟨_, _, _, _, w, q, _, rfl⟩ := step_readerPill hs
    by_cases hv : v = w
    · subst hv; show ((s.setW v _).workers v).phase = _; rw [setW_workers_same]; exact h
    · show ((s.setW w _).workers v).phase = _; rw [setW_workers_ne _ _ hv]; exact h
  | readerFault =>
    obtain ⟨_, _, _, rfl⟩ := step_readerFault hs
    show (if v < cfg.nWorkers then ({ s.workers v with inbox := (s.workers v).inbox ++ [.readerError] } : Worker Stats) else s.workers v).phase = _
    split <;> exact h
  | mainFinish => obtain ⟨_, rfl⟩ := step_mainFinish hs; exact h
  | workerStep w =>
    obtain ⟨_, hcase⟩ := step_workerStep hs
    rcases hcase with ⟨_, _, hph, _, rfl⟩ | ⟨_, hph, _, rfl⟩ | ⟨_, hph, _, rfl⟩ | ⟨_, _, _, _, hph, _, _, rfl⟩ | ⟨_, _, _, hph, _, _, rfl⟩ <;>
      exact setW_failed (Or.inl (by simp [hph])) h
  | mainRecv w =>
    obtain ⟨_, _, hcase⟩ := step_mainRecv hs
    rcases hcase with ⟨_, _, _, _, rfl⟩ | ⟨_, _, _, rfl⟩ | ⟨_, _, rfl⟩ <;>
    · by_cases hv : v = w
      · subst hv; show ((s.setW v _).workers v).phase = _; rw [setW_workers_same]; exact h
      · show ((s.setW w _).workers v).phase = _; rw [setW_workers_ne _ _ hv]; exact h

theorem faulted_step {a : Action} (hs : step cfg s a = some s') (h : Faulted cfg s) : Faulted cfg s' := by
  rcases h with h | ⟨w, hw, h⟩
  · exact Or.inl (rfailed_step hs h)
  · exact Or.inr ⟨w, hw, failed_step hs h⟩

theorem faulted_run : ∀ (tr : List Action) {s s' : State Stats}, run cfg s tr = some s' → Faulted cfg s → Faulted cfg s' := by
  intro tr
  induction tr with
  | nil => intro s s' h hf; simp only [run] at h; cases h; exact hf
  | cons a tr ih =>
    intro s s' h hf
    simp only [run] at h
    cases hs : step cfg s a with
    | none => rw [hs] at h; cases h
    | some s₁ => rw [hs] at h; exact ih h (faulted_step hs hf)

theorem reachable_run : ∀ (tr : List Action) {s s' : State Stats}, Reachable cfg s → run cfg s tr = some s' → Reachable cfg s' := by
  intro tr
  induction tr with
  | nil => intro s s' hr h; simp only [run] at h; cases h; exact hr
  | cons a tr ih =>
    intro s s' hr h
    simp only [run] at h
    cases hs : step cfg s a with
    | none => rw [hs] at h; cases h
    | some s₁ => rw [hs] at h; exact ih (hr.step hs) h

/-- every execution from `s` has at most `measure s` steps -/
theorem run_length_le : ∀ (tr : List Action) {s s' : State Stats}, run cfg s tr = some s' → tr.length + measure cfg s' ≤ measure cfg s := by
  intro tr
  induction tr with
  | nil => intro s s' h; simp only [run] at h; cases h; simp
  | cons a tr ih =>
    intro s s' h
    simp only [run] at h
    cases hs : step cfg s a with
    | none => rw [hs] at h; cases h
    | some s₁ =>
      rw [hs] at h
      have := ih h
      have := measure_decreases hs
      simp only [List.length_cons]; omega

/-! ## `each_chunk_once` in every reachable state (also after the main process has stopped) -/

def OnceInv (cfg : Config Chunk Stats Fault) (s : State Stats) : Prop :=
  ∀ i, sumW cfg.nWorkers (fun w => cntWk i (s.workers w)) + s.received.count i = if i < s.next then 1 else 0

/-- the only steps that end the run -/
theorem step_outcome_cases {a : Action} (hs : step cfg s a = some s') :
    s'.outcome = .running ∨ (a = .mainFinish ∧ s' = { s with outcome := .ok }) ∨
    (∃ w rest, w < cfg.nWorkers ∧ (s.workers w).outbox = .workerError :: rest ∧
      s' = { s.setW w { s.workers w with outbox := rest } with outcome := .failed }) := by
  have hrun := step_running hs
  cases a with
  | workerRequest w => obtain ⟨_, _, rfl⟩ := step_workerRequest hs; exact Or.inl hrun
  | readerSend => obtain ⟨_, _, w, q, _, rfl⟩ := step_readerSend hs; exact Or.inl hrun
  | readerPill => obtain ⟨_, _, _, _, w, q, _, rfl⟩ := step_readerPill hs; exact Or.inl hrun
  | readerFault => obtain ⟨_, _, _, rfl⟩ := step_readerFault hs; exact Or.inl hrun
  | mainFinish => obtain ⟨_, rfl⟩ := step_mainFinish hs; exact Or.inr (Or.inl ⟨rfl, rfl⟩)
  | workerStep w =>
    obtain ⟨_, hcase⟩ := step_workerStep hs
    rcases hcase with ⟨_, _, _, _, rfl⟩ | ⟨_, _, _, rfl⟩ | ⟨_, _, _, rfl⟩ | ⟨_, _, _, _, _, _, _, rfl⟩ | ⟨_, _, _, _, _, _, rfl⟩ <;> exact Or.inl hrun
  | mainRecv w =>
    obtain ⟨hw, _, hcase⟩ := step_mainRecv hs
    rcases hcase with ⟨_, _, _, _, rfl⟩ | ⟨_, _, _, rfl⟩ | ⟨rest, hob, rfl⟩
    · exact Or.inl hrun
    · exact Or.inl hrun
    · exact Or.inr (Or.inr ⟨w, rest, hw, hob, rfl⟩)

theorem reachable_once (hn : 0 < cfg.nWorkers) (hr : Reachable cfg s) : OnceInv cfg s := by
  induction hr with
  | init => exact (runInv_init cfg).once
  | @step s s' a hr' hs ih =>
    have hinv := (reachable_inv hn hr').2.1 (step_running hs)
    rcases step_outcome_cases hs with hout | ⟨_, rfl⟩ | ⟨w, rest, hw, hob, rfl⟩
    · exact (runInv_step hinv hs hout).once
    · exact ih
    · intro i
      let W' : Worker Stats := { s.workers w with outbox := rest }
      have hsum := sumW_setW (cntWk i) s hw W'
      have hloc : cntWk i W' = cntWk i (s.workers w) := by
        simp [W', cntWk, hob, cntRes]
      have h1 : sumW cfg.nWorkers (fun w => cntWk i (s.workers w)) + s.received.count i = if i < s.next then 1 else 0 := ih i
      show sumW _ (fun v => cntWk i ((s.setW w W').workers v)) + s.received.count i = if i < s.next then 1 else 0
      omega

end Cutadapt.Runner
