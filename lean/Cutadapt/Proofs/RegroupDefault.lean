import Cutadapt.Proofs.RegroupMain
import Cutadapt.Properties.C09
/-! The default (index-enabled) pipeline when no index can be built: extra obligations of C09 ("ties go to the adapter given first
    (no index involved)"). -/
namespace Cutadapt.C09
open Cutadapt Cutadapt.Adapters

/-- **Without at least two indexable anchored adapters of one kind the default pipeline is the `--no-index` pipeline**: the cutter
    iterates over the adapters exactly as given (same list, same order, same modifiers, same steps, same files), so everything this file
    proves about `bestMatch` over the given list — best score, then fewer errors, then *the adapter given first* — holds for cutadapt's
    default mode too. -/
theorem default_pipeline_without_index (o : Opts) (ads : List Matchable)
    (h1 : (splitAdapters ads).1.length ≤ 1) (h2 : (splitAdapters ads).2.1.length ≤ 1) :
    (makeSingleIndexed o ads).map (fun r => (r.1, r.2.1)) = makeSingle o ads := by
  have hr : (regroup ads).ads = ads := C08.regroup_noop ads h1 h2
  unfold makeSingleIndexed makeSingle
  simp only [hr]
  cases hc : (o.untrimmedPaired.isSome || o.pairAdapters)
  · simp only [Bool.false_eq_true, if_false]
    cases hs : makeSteps o (namesOf ads) [] with
    | error e => rfl
    | ok sf =>
      obtain ⟨steps, f⟩ := sf
      cases hm : makeModsSingle o ads with
      | error e => simp [bind, Except.bind, Except.map, hs, hm, pure, Except.pure]
      | ok mods => simp [bind, Except.bind, Except.map, hs, hm, pure, Except.pure]
  · simp [throw, throwThe, MonadExceptOf.throw, Except.map, bind, Except.bind]

/-- the same for either read of a pair -/
theorem default_paired_pipeline_without_index (o : Opts) (ads1 ads2 : List Matchable)
    (h1 : (splitAdapters ads1).1.length ≤ 1) (h2 : (splitAdapters ads1).2.1.length ≤ 1)
    (h3 : (splitAdapters ads2).1.length ≤ 1) (h4 : (splitAdapters ads2).2.1.length ≤ 1) :
    (makePairedIndexed o ads1 ads2).map (fun r => (r.1, r.2.1)) = makePaired o ads1 ads2 := by
  have hr1 : (regroup ads1).ads = ads1 := C08.regroup_noop ads1 h1 h2
  have hr2 : (regroup ads2).ads = ads2 := C08.regroup_noop ads2 h3 h4
  unfold makePairedIndexed makePaired
  cases hp : o.pairAdapters <;> simp only [hr1, hr2, Bool.false_eq_true, if_false, if_true]
  all_goals
    cases hc : checkArguments o with
    | error e => rfl
    | ok u =>
      cases hs : makeSteps o (namesOf ads1) (namesOf ads2) with
      | error e => rfl
      | ok sf =>
        obtain ⟨steps, f⟩ := sf
        cases hm : makeModsPaired o ads1 ads2 with
        | error e => simp [bind, Except.bind, Except.map, hc, hs, hm, pure, Except.pure]
        | ok mods => simp [bind, Except.bind, Except.map, hc, hs, hm, pure, Except.pure]

end Cutadapt.C09
