import Cutadapt.Proofs.StepsMake
import Cutadapt.Proofs.StepsFate
/-! Shape of the step list that `makeSteps` builds: terminal, ordered by rank, distinct identifiers, fresh writer indices. -/
namespace Cutadapt.Steps
open Cutadapt

/-! ## Rank of a step in the documented filter order -/

def predRank : Pred → Nat
  | .tooShort _ => 1
  | .tooLong _ => 2
  | .tooManyN _ => 3
  | .maxEE _ => 4
  | .maxAER _ => 5
  | .casava => 6
  | .isTrimmed => 7
  | .isUntrimmed => 7

def stepRank : Step → Nat
  | .restWriter _ => 0
  | .infoWriter _ => 0
  | .wildcardWriter _ => 0
  | .filter (some p) _ _ _ => predRank p
  | .filter none (some p) _ _ => predRank p
  | .filter none none _ _ => 0
  | .sink _ => 8
  | .demux .. => 8
  | .combDemux _ => 8

/-- strictly increasing rank, except among the text-file writers -/
def RankLt (a b : Step) : Prop := stepRank a < stepRank b ∨ (stepRank a = 0 ∧ stepRank b = 0)

/-- invariants of a step list under construction: pass-through steps only, (under the side condition `B`) ordered with
    all ranks `≤ hi`, identifiers a sublist of `ids`, record-writer indices below `n` -/
structure Built (B : Prop) (steps : List Step) (hi : Nat) (ids : List String) (n : Nat) : Prop where
  pass : ∀ s ∈ steps, s.isPass = true
  ord : B → steps.Pairwise RankLt
  le : B → ∀ s ∈ steps, stepRank s ≤ hi
  idents : (steps.filterMap Step.filterIdent).Sublist ids
  below : ∀ s ∈ steps, ∀ w ∈ s.writers, w < n

theorem Built.nil (B : Prop) (hi n : Nat) : Built B [] hi [] n :=
  ⟨by simp, fun _ => by simp, fun _ => by simp, by simp, by simp⟩

theorem Built.mono {B steps hi ids n} (h : Built B steps hi ids n) {hi' n' : Nat} (h1 : hi ≤ hi') (h2 : n ≤ n') :
    Built B steps hi' ids n' :=
  ⟨h.pass, h.ord, fun b s hs => Nat.le_trans (h.le b s hs) h1, h.idents,
   fun s hs w hw => Nat.lt_of_lt_of_le (h.below s hs w hw) h2⟩

/-- appending one pass-through step of higher rank -/
theorem Built.snoc {B steps hi ids n} (h : Built B steps hi ids n) (s : Step) (hp : s.isPass = true) (r : Nat)
    (hrk : B → stepRank s = r) (hr : hi < r ∨ (hi = 0 ∧ r = 0)) {ids' : List String}
    (hid : s.filterIdent.toList = ids') {n' : Nat} (hn : n ≤ n') (hw : ∀ w ∈ s.writers, w < n') :
    Built B (steps ++ [s]) r (ids ++ ids') n' := by
  refine ⟨?_, ?_, ?_, ?_, ?_⟩
  · intro x hx
    rcases List.mem_append.1 hx with hx | hx
    · exact h.pass x hx
    · simp at hx; subst hx; exact hp
  · intro b
    rw [List.pairwise_append]
    refine ⟨h.ord b, by simp, ?_⟩
    intro a ha c hc
    simp at hc; subst hc
    have := h.le b a ha
    have hs := hrk b
    rcases hr with hr | ⟨h0, hs0⟩
    · exact .inl (by omega)
    · exact .inr ⟨by omega, by omega⟩
  · intro b x hx
    rcases List.mem_append.1 hx with hx | hx
    · have := h.le b x hx
      rcases hr with hr | ⟨h0, hs0⟩ <;> omega
    · simp at hx; subst hx; exact Nat.le_of_eq (hrk b)
  · rw [List.filterMap_append]
    refine List.Sublist.append h.idents ?_
    subst hid
    cases hs : s.filterIdent <;> simp [hs]
  · intro x hx w hw'
    rcases List.mem_append.1 hx with hx | hx
    · exact Nat.lt_of_lt_of_le (h.below x hx w hw') hn
    · simp at hx; subst hx; exact hw w hw'

theorem Built.ids_mono {B steps hi ids n} (h : Built B steps hi ids n) {ids' : List String} (hs : ids.Sublist ids') :
    Built B steps hi ids' n :=
  ⟨h.pass, h.ord, h.le, h.idents.trans hs, h.below⟩

/-- appending at most one pass-through step of rank `r > hi` with identifier `id` -/
theorem Built.snoc_opt {B steps hi ids n} (h : Built B steps hi ids n) (l : List Step) (r : Nat) (id : String) {n' : Nat}
    (hl : l = [] ∨ ∃ s, l = [s] ∧ s.isPass = true ∧ (B → stepRank s = r) ∧
      (s.filterIdent = some id ∨ s.filterIdent = none) ∧ ∀ w ∈ s.writers, w < n')
    (hr : hi < r) (hn : n ≤ n') : Built B (steps ++ l) r (ids ++ [id]) n' := by
  rcases hl with rfl | ⟨s, rfl, hp, hrk, hid | hid, hw⟩
  · simpa using (h.mono (Nat.le_of_lt hr) hn).ids_mono (List.sublist_append_left ids [id])
  · exact h.snoc s hp r hrk (.inl hr) (by simp [hid]) hn hw
  · have := h.snoc s hp r hrk (.inl hr) (ids' := []) (by simp [hid]) hn hw
    exact this.ids_mono (by simp)

theorem filterWriter_spec (paired : Bool) (f : Files) (a b : Option String) :
    f.writers.length ≤ (filterWriter paired f a b).1.writers.length ∧
    (filterWriter paired f a b).1.texts = f.texts ∧
    ∀ w ∈ (filterWriter paired f a b).2, f.writers.length ≤ w ∧ w < (filterWriter paired f a b).1.writers.length := by
  cases a <;> cases b <;> simp [filterWriter, Files.openWriter]

/-- a `-m`/`-M` specification gives at least one usable bound -/
def lenBounded (paired : Bool) (l : Option (Option Int × Option Int)) : Prop :=
  ∀ x, l = some x → x.1.isSome = true ∨ (paired = true ∧ x.2.isSome = true)

theorem addText_built {B : Prop} {st : Files × List Step} {n : Nat} (p : Option String) (mk : Nat → Step)
    (hmk : ∀ i, (mk i).isPass = true ∧ stepRank (mk i) = 0 ∧ (mk i).filterIdent = none ∧ (mk i).writers = [])
    (h : Built B st.2 0 [] n) :
    Built B (addText p mk st).2 0 [] n ∧ (addText p mk st).1.writers = st.1.writers := by
  cases p with
  | none => exact ⟨h, rfl⟩
  | some p =>
    obtain ⟨h1, h2, h3, h4⟩ := hmk (st.1.openText p).2
    refine ⟨?_, rfl⟩
    have := h.snoc (mk (st.1.openText p).2) h1 0 (fun _ => h2) (Or.inr ⟨rfl, rfl⟩) (ids' := []) (by rw [h3]; rfl) (Nat.le_refl n) (by rw [h4]; simp)
    simpa [addText] using this

theorem addLen_built {B : Prop} {st : Files × List Step} {hi : Nat} {ids : List String} (paired : Bool) (mode : PairMode)
    (l : Option (Option Int × Option Int)) (mk : Int → Pred) (out outP : Option String) (r : Nat) (id : String)
    (hmk : ∀ c, predRank (mk c) = r ∧ (mk c).ident = id) (hb : B → lenBounded paired l) (hr : hi < r)
    (h : Built B st.2 hi ids st.1.writers.length) :
    Built B (addLen paired mode l mk out outP st).2 r (ids ++ [id]) (addLen paired mode l mk out outP st).1.writers.length := by
  cases l with
  | none => simpa [addLen] using h.snoc_opt [] r id (.inl rfl) hr (Nat.le_refl _)
  | some x =>
    obtain ⟨g1, -, g3⟩ := filterWriter_spec paired st.1 out outP
    simp only [addLen]
    refine h.snoc_opt _ r id (.inr ⟨_, rfl, rfl, ?_, ?_, ?_⟩) hr g1
    · intro hB
      obtain ⟨a, b⟩ := x
      rcases hb hB _ rfl with h1 | ⟨h1, h2⟩
      · obtain ⟨a, rfl⟩ := Option.isSome_iff_exists.1 h1
        cases paired <;> simp [lengthPreds, stepRank, (hmk a).1]
      · subst h1
        obtain ⟨b, rfl⟩ := Option.isSome_iff_exists.1 h2
        cases a <;> simp [lengthPreds, stepRank, (hmk _).1]
    · obtain ⟨a, b⟩ := x
      cases a with
      | some a => left; cases paired <;> simp [lengthPreds, Step.filterIdent, (hmk a).2]
      | none =>
        cases b with
        | some b => cases paired <;> simp [lengthPreds, Step.filterIdent, (hmk b).2]
        | none => right; cases paired <;> simp [lengthPreds, Step.filterIdent]
    · intro w hw
      simp only [Step.writers, Option.mem_toList] at hw
      exact (g3 w hw).2

theorem bothStep_spec (paired : Bool) (mode : PairMode) (p : Pred) :
    (bothStep paired mode p).isPass = true ∧ stepRank (bothStep paired mode p) = predRank p ∧
    (bothStep paired mode p).filterIdent = some p.ident ∧ (bothStep paired mode p).writers = [] := by
  cases paired <;> simp [bothStep, Step.isPass, stepRank, Step.filterIdent, Step.writers]

theorem optSteps_built {B : Prop} {steps hi ids n} (h : Built B steps hi ids n) (x : Option α) (cond : Bool) (paired : Bool)
    (mode : PairMode) (mk : α → Pred) (r : Nat) (id : String) (hmk : ∀ c, predRank (mk c) = r ∧ (mk c).ident = id)
    (hr : hi < r) : Built B (steps ++ optSteps x cond (fun c => bothStep paired mode (mk c))) r (ids ++ [id]) n := by
  refine h.snoc_opt _ r id ?_ hr (Nat.le_refl n)
  cases x with
  | none => exact .inl rfl
  | some c =>
    cases cond with
    | false => exact .inl rfl
    | true =>
      obtain ⟨h1, h2, h3, h4⟩ := bothStep_spec paired mode (mk c)
      exact .inr ⟨_, rfl, h1, fun _ => by rw [h2, (hmk c).1], .inl (by rw [h3, (hmk c).2]), by simp [h4]⟩

/-- both length options, when given, carry a usable bound (always true for what `parse_lengths` accepts) -/
def LenBounds (o : Opts) : Prop := lenBounded o.paired o.minLen ∧ lenBounded o.paired o.maxLen

theorem front_built {B : Prop} (o : Opts) (hb : B → LenBounds o) :
    Built B (front o).2 2 ["too_short", "too_long"] (front o).1.writers.length := by
  have t0 : Built B (({}, []) : Files × List Step).2 0 [] 0 := Built.nil B 0 0
  obtain ⟨t1, w1⟩ := addText_built o.restFile .restWriter (fun i => ⟨rfl, rfl, rfl, rfl⟩) t0
  obtain ⟨t2, w2⟩ := addText_built o.infoFile .infoWriter (fun i => ⟨rfl, rfl, rfl, rfl⟩) t1
  obtain ⟨t3, w3⟩ := addText_built o.wildcardFile .wildcardWriter (fun i => ⟨rfl, rfl, rfl, rfl⟩) t2
  have t3' := t3.mono (Nat.le_refl 0) (Nat.zero_le (addText o.wildcardFile Step.wildcardWriter
    (addText o.infoFile Step.infoWriter (addText o.restFile Step.restWriter ({}, [])))).1.writers.length)
  have t4 := addLen_built o.paired (o.pairFilter.getD .any) o.minLen .tooShort o.tooShortOut o.tooShortPaired 1 "too_short"
    (fun c => ⟨rfl, rfl⟩) (fun b => (hb b).1) (by omega) t3'
  have t5 := addLen_built o.paired (o.pairFilter.getD .any) o.maxLen .tooLong o.tooLongOut o.tooLongPaired 2 "too_long"
    (fun c => ⟨rfl, rfl⟩) (fun b => (hb b).2) (by omega) t4
  exact t5

theorem simple_built {B : Prop} (o : Opts) (hb : B → LenBounds o) :
    Built B ((front o).2 ++ simpleSteps o) 6
      ["too_short", "too_long", "too_many_n", "too_many_expected_errors", "too_high_average_error_rate", "casava_filtered"]
      (front o).1.writers.length := by
  have t0 := front_built o hb
  have t1 := optSteps_built t0 o.maxN true o.paired (o.pairFilter.getD .any) .tooManyN 3 "too_many_n"
    (fun c => ⟨rfl, rfl⟩) (by omega)
  have t2 := optSteps_built t1 o.maxEE o.inputHasQualities o.paired (o.pairFilter.getD .any) .maxEE 4
    "too_many_expected_errors" (fun c => ⟨rfl, rfl⟩) (by omega)
  have t3 := optSteps_built t2 o.maxAER o.inputHasQualities o.paired (o.pairFilter.getD .any) .maxAER 5
    "too_high_average_error_rate" (fun c => ⟨rfl, rfl⟩) (by omega)
  have t4 := t3.snoc_opt (if o.discardCasava = true then [bothStep o.paired (o.pairFilter.getD .any) .casava] else []) 6
    "casava_filtered" (n' := (front o).1.writers.length) (by
      cases o.discardCasava with
      | false => exact .inl rfl
      | true =>
        obtain ⟨h1, h2, h3, h4⟩ := bothStep_spec o.paired (o.pairFilter.getD .any) .casava
        exact .inr ⟨_, rfl, h1, fun _ => h2, .inl h3, by simp [h4]⟩) (by omega) (Nat.le_refl _)
  simpa [simpleSteps, List.append_assoc] using t4

def sixIds : List String :=
  ["too_short", "too_long", "too_many_n", "too_many_expected_errors", "too_high_average_error_rate", "casava_filtered"]
def allIds : List String := sixIds ++ ["discard_trimmed", "discard_untrimmed"]

theorem untrimmed_built {B : Prop} {pre : List Step} {f : Files} (o : Opts) (names names2 : List String) (mode : PairMode)
    (h : Built B pre 6 sixIds f.writers.length) :
    Built B (pre ++ (untrimmedFilter o names names2 mode f).2) 7 allIds (untrimmedFilter o names names2 mode f).1.writers.length ∧
    f.writers.length ≤ (untrimmedFilter o names names2 mode f).1.writers.length := by
  have hdt : (sixIds ++ ["discard_trimmed"]).Sublist allIds := by decide
  have hdu : (sixIds ++ ["discard_untrimmed"]).Sublist allIds := by decide
  unfold untrimmedFilter
  by_cases c1 : o.discardTrimmed = true
  · simp only [c1, if_true]
    obtain ⟨h1, h2, h3, h4⟩ := bothStep_spec o.paired mode .isTrimmed
    exact ⟨(h.snoc_opt _ 7 "discard_trimmed" (.inr ⟨_, rfl, h1, fun _ => h2, .inl h3, by simp [h4]⟩) (by omega) (Nat.le_refl _)).ids_mono hdt,
      Nat.le_refl _⟩
  · by_cases c2 : o.discardUntrimmed = true
    · simp only [c1, c2, if_true]
      refine ⟨(h.snoc_opt _ 7 "discard_untrimmed" (.inr ⟨_, rfl, ?_, ?_, ?_, ?_⟩) (by omega) (Nat.le_refl _)).ids_mono hdu,
        Nat.le_refl _⟩
      · cases o.paired <;> rfl
      · intro _; cases o.paired <;> rfl
      · left; cases o.paired <;> rfl
      · cases o.paired <;> simp [Step.writers]
    · by_cases c3 : (o.untrimmedOut.isSome || o.untrimmedPaired.isSome) = true
      · simp only [c1, c2, c3, if_true]
        obtain ⟨g1, -, g3⟩ := filterWriter_spec o.paired f o.untrimmedOut o.untrimmedPaired
        refine ⟨(h.snoc_opt _ 7 "discard_untrimmed" (.inr ⟨_, rfl, rfl, fun _ => rfl, .inl rfl, ?_⟩) (by omega) g1).ids_mono hdu, g1⟩
        intro w hw
        simp only [Step.writers, Option.mem_toList] at hw
        exact (g3 w hw).2
      · simp only [c1, c2, c3]
        have h6 : sixIds.Sublist allIds := by decide
        have hm : Built B pre 7 allIds f.writers.length := (h.mono (by omega) (Nat.le_refl _)).ids_mono h6
        exact ⟨by simpa using hm, Nat.le_refl _⟩

/-- **Shape of the assembled step list.** -/
theorem makeSteps_shape {o : Opts} {names names2 : List String} {steps : List Step} {f : Files}
    (h : makeSteps o names names2 = .ok (steps, f)) :
    ∃ pre last n, steps = pre ++ [last] ∧ Built (LenBounds o) pre 7 allIds n ∧ last.isFinal = true ∧ stepRank last = 8 ∧
      (∀ w ∈ last.writers, n ≤ w) ∧ ((pre ++ [last]).filterMap Step.filterIdent).Sublist allIds := by
  obtain ⟨dm, hdm, hf, hk, heq⟩ := makeSteps_ok h
  have hs : Built (LenBounds o) _ _ _ _ := simple_built o id
  have h6 : sixIds.Sublist allIds := by decide
  have h6u : (sixIds ++ ["discard_untrimmed"]).Sublist allIds := by decide
  unfold finalD at heq
  by_cases hd1 : dm = 1
  · simp only [hd1, if_true] at heq
    have hkeys : ((front o).2 ++ simpleSteps o ++ [Step.demux (openMany (front o).1 names (demuxWriter o)).2 none]).filterMap
        Step.filterIdent |>.Sublist allIds := by
      rw [List.filterMap_append]
      exact (List.Sublist.append hs.idents (List.Sublist.refl _)).trans h6u
    by_cases c : o.discardUntrimmed = true
    · simp only [c, if_true, Prod.mk.injEq] at heq
      refine ⟨_, _, (front o).1.writers.length, heq.1, (hs.mono (by omega) (Nat.le_refl _)).ids_mono h6, rfl, rfl, ?_, hkeys⟩
      intro w hw
      simp only [Step.writers, openMany, Option.toList_none, List.append_nil, List.mem_map] at hw
      obtain ⟨⟨a, i⟩, hm, rfl⟩ := hw
      exact (List.mem_zipIdx hm).1
    · have c' : o.discardUntrimmed = false := by simpa using c
      simp only [c', Bool.false_eq_true, if_false, Prod.mk.injEq] at heq
      refine ⟨_, _, (front o).1.writers.length, heq.1, (hs.mono (by omega) (Nat.le_refl _)).ids_mono h6, rfl, rfl, ?_, ?_⟩
      · intro w hw
        simp only [Step.writers, openMany, List.mem_append, List.mem_map, Option.toList_some, List.mem_singleton,
          List.length_append, List.length_map] at hw
        rcases hw with ⟨⟨a, i⟩, hm, rfl⟩ | rfl
        · exact (List.mem_zipIdx hm).1
        · omega
      · rw [List.filterMap_append]
        exact (List.Sublist.append hs.idents (List.Sublist.refl _)).trans h6u
  · by_cases hd2 : dm = 2
    · subst hd2
      simp only [show ((2 : Nat) = 1) = False by decide, if_false, if_true, Prod.mk.injEq] at heq
      refine ⟨_, _, (front o).1.writers.length, heq.1, (hs.mono (by omega) (Nat.le_refl _)).ids_mono h6, rfl, rfl, ?_, ?_⟩
      · intro w hw
        simp only [Step.writers, openMany, List.mem_map] at hw
        obtain ⟨⟨a, i⟩, hm, rfl⟩ := hw
        exact (List.mem_zipIdx hm).1
      · rw [List.filterMap_append]
        exact (List.Sublist.append hs.idents (List.Sublist.refl _)).trans h6u
    · simp only [hd1, hd2, if_false, Prod.mk.injEq] at heq
      obtain ⟨hu, hle⟩ := untrimmed_built o names names2 (o.pairFilter.getD .any) hs
      refine ⟨_, _, _, heq.1, hu, rfl, rfl, ?_, ?_⟩
      · intro w hw
        simp only [Step.writers, List.mem_singleton] at hw
        omega
      · rw [List.filterMap_append]
        have e : List.filterMap Step.filterIdent [Step.sink (untrimmedFilter o names names2 (o.pairFilter.getD PairMode.any)
            (front o).fst).fst.writers.length] = [] := rfl
        rw [e, List.append_nil]
        exact hu.idents

theorem makeSteps_terminal' {o : Opts} {names names2 : List String} {steps : List Step} {f : Files}
    (h : makeSteps o names names2 = .ok (steps, f)) : Terminal steps := by
  obtain ⟨pre, last, n, rfl, hb, hl, -⟩ := makeSteps_shape h
  exact ⟨pre, last, rfl, hb.pass, hl⟩

theorem makeSteps_ranked {o : Opts} {names names2 : List String} {steps : List Step} {f : Files}
    (hb : LenBounds o) (h : makeSteps o names names2 = .ok (steps, f)) : steps.Pairwise RankLt := by
  obtain ⟨pre, last, n, rfl, hB, hl, hr, -⟩ := makeSteps_shape h
  rw [List.pairwise_append]
  refine ⟨hB.ord hb, by simp, ?_⟩
  intro a ha b hb'
  simp at hb'; subst hb'
  have := hB.le hb a ha
  exact .inl (by omega)

theorem allIds_nodup : allIds.Nodup := by decide

theorem makeSteps_idents_nodup {o : Opts} {names names2 : List String} {steps : List Step} {f : Files}
    (h : makeSteps o names names2 = .ok (steps, f)) : (steps.filterMap Step.filterIdent).Nodup := by
  obtain ⟨pre, last, n, rfl, -, -, -, -, hs⟩ := makeSteps_shape h
  exact hs.nodup allIds_nodup

theorem makeSteps_redirects_apart {o : Opts} {names names2 : List String} {steps : List Step} {f : Files}
    (h : makeSteps o names names2 = .ok (steps, f)) : RedirectsApart steps := by
  obtain ⟨pre, last, n, rfl, hB, hl, -, hw, -⟩ := makeSteps_shape h
  intro s hs hp w hw' hlast
  have hlw : lastWriters (pre ++ [last]) = last.writers := by simp [lastWriters]
  rw [hlw] at hlast
  rcases List.mem_append.1 hs with hs | hs
  · have h1 := hB.below s hs w hw'
    have h2 := hw w hlast
    omega
  · simp at hs; subst hs
    cases s <;> simp_all [Step.isPass, Step.isFinal]

theorem makeSingle_steps {o : Opts} {ads : List Matchable} {p : SinglePipeline} {f : Files}
    (h : makeSingle o ads = .ok (p, f)) : makeSteps o (namesOf ads) [] = .ok (p.steps, f) ∧ p.ads = ads := by
  unfold makeSingle at h
  simp only [bind, Except.bind, pure, Except.pure] at h
  repeat' split at h
  all_goals try (simp at h; done)
  all_goals
    rename_i v h1 _ m h2
    simp only [Except.ok.injEq, Prod.mk.injEq] at h
    obtain ⟨rfl, rfl⟩ := h
    exact ⟨h1, rfl⟩

theorem makePaired_steps {o : Opts} {ads1 ads2 : List Matchable} {p : PairedPipeline} {f : Files}
    (h : makePaired o ads1 ads2 = .ok (p, f)) :
    makeSteps o (namesOf ads1) (namesOf ads2) = .ok (p.steps, f) ∧ p.ads1 = ads1 ∧ p.ads2 = ads2 := by
  unfold makePaired at h
  simp only [bind, Except.bind, pure, Except.pure] at h
  repeat' split at h
  all_goals try (simp at h; done)
  all_goals
    rename_i v h1 _ m h2
    simp only [Except.ok.injEq, Prod.mk.injEq] at h
    obtain ⟨rfl, rfl⟩ := h
    exact ⟨h1, rfl, rfl⟩
end Cutadapt.Steps
