import Cutadapt.Kmer
import Cutadapt.Spec.Chunks
/-! Correctness of the bit-parallel multi-word search of `_kmer_finder.pyx` (`shift_and_multiple_is_present`). -/
namespace Cutadapt.Kmer
open Cutadapt.Spec (OccursAt)

def bit (x : UInt64) (i : Nat) : Bool := x.toBitVec.getLsbD i

theorem bit_or (x y : UInt64) (i : Nat) : bit (x ||| y) i = (bit x i || bit y i) := by simp [bit]
theorem bit_and (x y : UInt64) (i : Nat) : bit (x &&& y) i = (bit x i && bit y i) := by simp [bit]
theorem bit_zero (i : Nat) : bit 0 i = false := by simp [bit]
theorem bit_ge (x : UInt64) (i : Nat) (h : 64 ≤ i) : bit x i = false := by
  simp [bit]; exact BitVec.getLsbD_of_ge _ _ h

theorem bit_shl1 (x : UInt64) (i : Nat) : bit (x <<< 1) i = (decide (i < 64) && decide (1 ≤ i) && bit x (i-1)) := by
  simp only [bit]
  simp
  rcases Nat.eq_zero_or_pos i with h | h
  · simp [h]
  · have h1 : ¬ i = 0 := by omega
    have h2 : 1 ≤ i := h
    simp [h1, h2]
theorem bit_bitAt (p i : Nat) (hp : p < 64) : bit (bitAt p) i = decide (i = p) := by
  simp [bit, bitAt]
  have : p % 64 = p := Nat.mod_eq_of_lt hp
  rw [this, Bool.eq_iff_iff]
  simp
  omega
theorem eq_zero_iff (x : UInt64) : x = 0 ↔ ∀ i, i < 64 → bit x i = false := by
  simp only [bit]
  constructor
  · intro h i _; subst h; simp
  · intro h
    apply UInt64.toBitVec_inj.mp
    apply BitVec.eq_of_getLsbD_eq
    intro i hi
    simp [h i hi]
end Cutadapt.Kmer

namespace Cutadapt.Kmer
open Cutadapt.Spec (OccursAt)

/-! ### layout of the packed words -/
def layout : List Bytes → Nat → List (Bytes × Nat)
  | [], _ => []
  | w :: ws, off => (w, off) :: layout ws (off + w.length)

theorem layout_ge {ws : List Bytes} {off : Nat} {w : Bytes} {o : Nat} (h : (w, o) ∈ layout ws off) : off ≤ o := by
  induction ws generalizing off with
  | nil => simp [layout] at h
  | cons w' ws ih =>
    simp only [layout, List.mem_cons] at h
    rcases h with h | h
    · cases h; exact Nat.le_refl _
    · have := ih h; omega

theorem layout_end_le {ws : List Bytes} {off : Nat} {w : Bytes} {o : Nat} (h : (w, o) ∈ layout ws off) :
    o + w.length ≤ off + ws.flatten.length := by
  induction ws generalizing off with
  | nil => simp [layout] at h
  | cons w' ws ih =>
    simp only [layout, List.mem_cons] at h
    rcases h with h | h
    · cases h; simp only [List.flatten_cons, List.length_append]; omega
    · have := ih h; simp only [List.flatten_cons, List.length_append]; omega

theorem layout_mem {ws : List Bytes} {off : Nat} {w : Bytes} {o : Nat} (h : (w, o) ∈ layout ws off) : w ∈ ws := by
  induction ws generalizing off with
  | nil => simp [layout] at h
  | cons w' ws ih =>
    simp only [layout, List.mem_cons] at h
    rcases h with h | h
    · cases h; simp
    · exact List.mem_cons_of_mem _ (ih h)

theorem mem_layout {ws : List Bytes} {w : Bytes} (off : Nat) (h : w ∈ ws) : ∃ o, (w, o) ∈ layout ws off := by
  induction ws generalizing off with
  | nil => simp at h
  | cons w' ws ih =>
    rcases List.mem_cons.mp h with h | h
    · subst h; exact ⟨off, by simp [layout]⟩
    · obtain ⟨o, ho⟩ := ih (off + w'.length) h
      exact ⟨o, by simp [layout, ho]⟩

/-- characters of the concatenation at the positions of a word -/
theorem layout_getElem {ws : List Bytes} {off : Nat} {w : Bytes} {o : Nat} (h : (w, o) ∈ layout ws off)
    (i : Nat) (hi : i < w.length) : ws.flatten[o - off + i]? = w[i]? := by
  induction ws generalizing off with
  | nil => simp [layout] at h
  | cons w' ws ih =>
    simp only [layout, List.mem_cons] at h
    rcases h with h | h
    · cases h
      simp only [List.flatten_cons, Nat.sub_self, Nat.zero_add]
      rw [List.getElem?_append_left hi]
    · have hge := layout_ge h
      have := ih h
      simp only [List.flatten_cons]
      rw [List.getElem?_append_right (by omega)]
      rw [← this]; congr 1; omega

/-- a start strictly behind the start of a word lies behind the whole word -/
theorem layout_next_start {ws : List Bytes} {off : Nat} {w w' : Bytes} {o q : Nat}
    (h : (w, o) ∈ layout ws off) (hq : (w', q) ∈ layout ws off) (hlt : o < q) : o + w.length ≤ q := by
  induction ws generalizing off with
  | nil => simp [layout] at h
  | cons w0 ws ih =>
    simp only [layout, List.mem_cons] at h hq
    rcases h with h | h <;> rcases hq with hq | hq
    · cases h; cases hq; omega
    · cases h; have := layout_ge hq; omega
    · cases hq; have := layout_ge h; omega
    · exact ih h hq

/-! ### bits of the three masks -/

theorem bit_initMask (ws : List Bytes) (off : Nat) (hne : ∀ w ∈ ws, w ≠ []) (hlen : off + ws.flatten.length ≤ 64)
    (p : Nat) : bit (initMaskFrom ws off) p = true ↔ ∃ w, (w, p) ∈ layout ws off := by
  induction ws generalizing off with
  | nil => simp [initMaskFrom, layout, bit_zero]
  | cons w ws ih =>
    have hw : w ≠ [] := hne w (by simp)
    have hwl : 0 < w.length := List.length_pos_iff.mpr hw
    simp only [List.flatten_cons, List.length_append] at hlen
    simp only [initMaskFrom, layout, bit_or, Bool.or_eq_true, List.mem_cons]
    rw [bit_bitAt off p (by omega), ih (off + w.length) (fun w' hw' => hne w' (by simp [hw'])) (by omega)]
    constructor
    · rintro (h | ⟨w', h⟩)
      · exact ⟨w, Or.inl (by simp at h; simp [h])⟩
      · exact ⟨w', Or.inr h⟩
    · rintro ⟨w', h | h⟩
      · left; cases h; simp
      · right; exact ⟨w', h⟩

theorem bit_foundMask (ws : List Bytes) (off : Nat) (hne : ∀ w ∈ ws, w ≠ []) (hlen : off + ws.flatten.length ≤ 64)
    (p : Nat) : bit (foundMaskFrom ws off) p = true ↔ ∃ w o, (w, o) ∈ layout ws off ∧ p + 1 = o + w.length := by
  induction ws generalizing off with
  | nil => simp [foundMaskFrom, layout, bit_zero]
  | cons w ws ih =>
    have hw : w ≠ [] := hne w (by simp)
    have hwl : 0 < w.length := List.length_pos_iff.mpr hw
    simp only [List.flatten_cons, List.length_append] at hlen
    simp only [foundMaskFrom, layout, bit_or, Bool.or_eq_true, List.mem_cons]
    rw [bit_bitAt (off + w.length - 1) p (by omega), ih (off + w.length) (fun w' hw' => hne w' (by simp [hw'])) (by omega)]
    constructor
    · rintro (h | ⟨w', o, h, he⟩)
      · exact ⟨w, off, Or.inl rfl, by simp at h; omega⟩
      · exact ⟨w', o, Or.inr h, he⟩
    · rintro ⟨w', o, h | h, he⟩
      · left; cases h; simp; omega
      · right; exact ⟨w', o, h, he⟩

theorem bit_maskFrom (m : UInt8 → UInt8 → Bool) (cat : Bytes) (pos : Nat) (c : UInt8) (hlen : pos + cat.length ≤ 64)
    (p : Nat) : bit (maskFrom m cat pos c) p = true ↔ pos ≤ p ∧ ∃ a, cat[p - pos]? = some a ∧ m a c = true := by
  induction cat generalizing pos with
  | nil => simp [maskFrom, bit_zero]
  | cons a cat ih =>
    simp only [List.length_cons] at hlen
    simp only [maskFrom, bit_or, Bool.or_eq_true]
    rw [ih (pos + 1) (by omega)]
    constructor
    · rintro (h | ⟨h1, b, h2, h3⟩)
      · by_cases hm : m a c = true
        · rw [if_pos hm, bit_bitAt pos p (by omega)] at h
          simp at h; subst h
          exact ⟨Nat.le_refl _, a, by simp, hm⟩
        · rw [if_neg hm, bit_zero] at h; cases h
      · refine ⟨by omega, b, ?_, h3⟩
        have : p - pos = (p - (pos + 1)) + 1 := by omega
        rw [this, List.getElem?_cons_succ]; exact h2
    · rintro ⟨h1, b, h2, h3⟩
      by_cases hp : p = pos
      · left
        subst hp
        simp at h2; subst h2
        rw [if_pos h3, bit_bitAt p p (by omega)]; simp
      · right
        refine ⟨by omega, b, ?_, h3⟩
        have : p - pos = (p - (pos + 1)) + 1 := by omega
        rw [this, List.getElem?_cons_succ] at h2; exact h2

end Cutadapt.Kmer

namespace Cutadapt.Kmer
open Cutadapt.Spec (OccursAt)

/-! ### the register as a predicate: `St rx p` ⇔ bit `p` is set after consuming the characters `rx` (latest first) -/

def St (m : UInt8 → UInt8 → Bool) (cat : Bytes) (S : Nat → Prop) : Bytes → Nat → Prop
  | [], _ => False
  | c :: rx, p => (∃ a, cat[p]? = some a ∧ m a c = true) ∧ (S p ∨ (1 ≤ p ∧ St m cat S rx (p - 1)))

theorem St_of_match {m : UInt8 → UInt8 → Bool} {cat : Bytes} {S : Nat → Prop} (rx : Bytes) (p l : Nat)
    (h1 : 1 ≤ l) (h2 : l ≤ p + 1) (hS : S (p + 1 - l))
    (hm : ∀ j, j < l → ∃ a c, cat[p - j]? = some a ∧ rx[j]? = some c ∧ m a c = true) : St m cat S rx p := by
  induction rx generalizing p l with
  | nil =>
    obtain ⟨a, c, _, h, _⟩ := hm 0 (by omega)
    simp at h
  | cons c rx ih =>
    obtain ⟨a, c', ha, hc, hmac⟩ := hm 0 (by omega)
    simp at hc; subst hc
    refine ⟨⟨a, by simpa using ha, hmac⟩, ?_⟩
    by_cases hl : l = 1
    · left; subst hl; simpa using hS
    · right
      refine ⟨by omega, ih (p - 1) (l - 1) (by omega) (by omega) ?_ ?_⟩
      · have : p - 1 + 1 - (l - 1) = p + 1 - l := by omega
        rw [this]; exact hS
      · intro j hj
        obtain ⟨a', c', ha', hc', hm'⟩ := hm (j + 1) (by omega)
        refine ⟨a', c', ?_, by simpa using hc', hm'⟩
        have : p - 1 - j = p - (j + 1) := by omega
        rw [this]; exact ha'

theorem match_of_St {m : UInt8 → UInt8 → Bool} {cat : Bytes} {S : Nat → Prop} (rx : Bytes) (p : Nat)
    (h : St m cat S rx p) (l : Nat) (h1 : 1 ≤ l) (h2 : l ≤ p + 1)
    (hno : ∀ q, p + 1 - l < q → q ≤ p → ¬ S q) :
    ∀ j, j < l → ∃ a c, cat[p - j]? = some a ∧ rx[j]? = some c ∧ m a c = true := by
  induction rx generalizing p l with
  | nil => exact h.elim
  | cons c rx ih =>
    obtain ⟨⟨a, ha, hmac⟩, hrest⟩ := h
    intro j hj
    rcases Nat.eq_zero_or_pos j with hj0 | hj0
    · subst hj0; exact ⟨a, c, by simpa using ha, by simp, hmac⟩
    · have hl : 2 ≤ l := by omega
      rcases hrest with hS | ⟨hp, hst⟩
      · exact absurd hS (hno p (by omega) (Nat.le_refl _))
      · obtain ⟨a', c', ha', hc', hm'⟩ := ih (p - 1) hst (l - 1) (by omega) (by omega)
          (fun q hq1 hq2 => hno q (by omega) (by omega)) (j - 1) (by omega)
        refine ⟨a', c', ?_, ?_, hm'⟩
        · have : p - j = p - 1 - (j - 1) := by omega
          rw [this]; exact ha'
        · have : j = (j - 1) + 1 := by omega
          rw [this, List.getElem?_cons_succ]; exact hc'

/-- some register bit at the end of a word is set -/
def Hit (m : UInt8 → UInt8 → Bool) (ws : List Bytes) (rx : Bytes) : Prop :=
  ∃ w o, (w, o) ∈ layout ws 0 ∧ St m ws.flatten (fun p => ∃ w', (w', p) ∈ layout ws 0) rx (o + w.length - 1)

/-- `Hit` after consuming the text `t` ⇔ some word ends exactly at the end of `t` -/
theorem hit_iff (m : UInt8 → UInt8 → Bool) (ws : List Bytes) (hne : ∀ w ∈ ws, w ≠ []) (t : Bytes) :
    Hit m ws t.reverse ↔ ∃ w ∈ ws, w.length ≤ t.length ∧ OccursAt m w t (t.length - w.length) := by
  constructor
  · rintro ⟨w, o, hmem, hst⟩
    have hw : 0 < w.length := List.length_pos_iff.mpr (hne w (layout_mem hmem))
    have hm := match_of_St t.reverse (o + w.length - 1) hst w.length hw (by omega)
      (by
        rintro q hq1 hq2 ⟨w', hq⟩
        have := layout_next_start hmem hq (by omega)
        omega)
    have hlen : w.length ≤ t.length := by
      obtain ⟨_, c, _, hc, _⟩ := hm (w.length - 1) (by omega)
      have := (List.getElem?_eq_some_iff.mp hc).1
      simp at this; omega
    refine ⟨w, layout_mem hmem, hlen, by omega, ?_⟩
    intro j hj
    obtain ⟨a, c, ha, hc, hmac⟩ := hm (w.length - 1 - j) (by omega)
    refine ⟨a, c, ?_, ?_, hmac⟩
    · have := layout_getElem hmem j hj
      rw [← this]
      have e : o + w.length - 1 - (w.length - 1 - j) = o - 0 + j := by omega
      rw [← e]; exact ha
    · rw [List.getElem?_reverse (by omega)] at hc
      have e : t.length - 1 - (w.length - 1 - j) = t.length - w.length + j := by omega
      rw [← e]; exact hc
  · rintro ⟨w, hw, hlen, _, hocc⟩
    obtain ⟨o, hmem⟩ := mem_layout 0 hw
    have hwl : 0 < w.length := List.length_pos_iff.mpr (hne w hw)
    refine ⟨w, o, hmem, St_of_match t.reverse (o + w.length - 1) w.length hwl (by omega) ?_ ?_⟩
    · have : o + w.length - 1 + 1 - w.length = o := by omega
      rw [this]; exact ⟨w, hmem⟩
    · intro j hj
      obtain ⟨a, c, ha, hc, hmac⟩ := hocc (w.length - 1 - j) (by omega)
      refine ⟨a, c, ?_, ?_, hmac⟩
      · have := layout_getElem hmem (w.length - 1 - j) (by omega)
        rw [← ha, ← this]; congr 1; omega
      · rw [List.getElem?_reverse (by omega), ← hc]; congr 1; omega

end Cutadapt.Kmer

namespace Cutadapt.Kmer
open Cutadapt.Spec (OccursAt)

def Inv (m : UInt8 → UInt8 → Bool) (ws : List Bytes) (rx : Bytes) (R : UInt64) : Prop :=
  ∀ p, p < 64 → (bit R p = true ↔ St m ws.flatten (fun p => ∃ w', (w', p) ∈ layout ws 0) rx p)

theorem inv_step (m : UInt8 → UInt8 → Bool) (ws : List Bytes) (hne : ∀ w ∈ ws, w ≠ []) (hlen : ws.flatten.length ≤ 64)
    (rx : Bytes) (R : UInt64) (c : UInt8) (h : Inv m ws rx R) :
    Inv m ws (c :: rx) (((R <<< 1) ||| initMaskFrom ws 0) &&& maskFrom m ws.flatten 0 c) := by
  intro p hp
  rw [bit_and, bit_or, bit_shl1]
  simp only [Bool.and_eq_true, Bool.or_eq_true, decide_eq_true_eq]
  rw [bit_maskFrom m ws.flatten 0 c (by omega) p, bit_initMask ws 0 hne (by omega) p]
  simp only [St, Nat.sub_zero, Nat.zero_le, true_and]
  constructor
  · rintro ⟨h1 | h1, h2⟩
    · obtain ⟨⟨_, hp1⟩, hb⟩ := h1
      exact ⟨h2, Or.inr ⟨hp1, (h (p - 1) (by omega)).mp hb⟩⟩
    · exact ⟨h2, Or.inl h1⟩
  · rintro ⟨h2, h1 | ⟨hp1, hst⟩⟩
    · exact ⟨Or.inr h1, h2⟩
    · exact ⟨Or.inl ⟨⟨hp, hp1⟩, (h (p - 1) (by omega)).mpr hst⟩, h2⟩

theorem found_iff (m : UInt8 → UInt8 → Bool) (ws : List Bytes) (hne : ∀ w ∈ ws, w ≠ []) (hlen : ws.flatten.length ≤ 64)
    (rx : Bytes) (R : UInt64) (h : Inv m ws rx R) :
    ((R &&& foundMaskFrom ws 0 != 0) = true) ↔ Hit m ws rx := by
  rw [bne_iff_ne, Ne, eq_zero_iff]
  constructor
  · intro hnz
    have : ∃ p, p < 64 ∧ bit (R &&& foundMaskFrom ws 0) p = true := by
      apply Classical.byContradiction
      intro hcon
      apply hnz
      intro i hi
      cases hb : bit (R &&& foundMaskFrom ws 0) i
      · rfl
      · exact absurd ⟨i, hi, hb⟩ hcon
    obtain ⟨p, hp, hb⟩ := this
    rw [bit_and, Bool.and_eq_true, bit_foundMask ws 0 hne (by omega) p] at hb
    obtain ⟨hR, w, o, hmem, he⟩ := hb
    refine ⟨w, o, hmem, ?_⟩
    have : o + w.length - 1 = p := by omega
    rw [this]; exact (h p hp).mp hR
  · rintro ⟨w, o, hmem, hst⟩ hz
    have hw : 0 < w.length := List.length_pos_iff.mpr (hne w (layout_mem hmem))
    have hle := layout_end_le hmem
    have hp : o + w.length - 1 < 64 := by omega
    have := hz (o + w.length - 1) hp
    rw [bit_and, (h _ hp).mpr hst, Bool.true_and] at this
    have h2 := (bit_foundMask ws 0 hne (by omega) (o + w.length - 1)).mpr ⟨w, o, hmem, by omega⟩
    rw [h2] at this; cases this

theorem shiftAnd_loop (m : UInt8 → UInt8 → Bool) (ws : List Bytes) (hne : ∀ w ∈ ws, w ≠ [])
    (hlen : ws.flatten.length ≤ 64) (rest rx : Bytes) (R : UInt64) (h : Inv m ws rx R) :
    shiftAnd (maskFrom m ws.flatten 0) (initMaskFrom ws 0) (foundMaskFrom ws 0) rest R = true ↔
      ∃ k, k < rest.length ∧ Hit m ws ((rest.take (k + 1)).reverse ++ rx) := by
  induction rest generalizing rx R with
  | nil => simp [shiftAnd]
  | cons c cs ih =>
    have hinv := inv_step m ws hne hlen rx R c h
    have hf := found_iff m ws hne hlen (c :: rx) _ hinv
    simp only [shiftAnd]
    by_cases hhit : Hit m ws (c :: rx)
    · rw [if_pos (hf.mpr hhit)]
      simp only [true_iff]
      exact ⟨0, by simp, by simpa using hhit⟩
    · rw [if_neg (fun hh => hhit (hf.mp hh)), ih (c :: rx) _ hinv]
      constructor
      · rintro ⟨k, hk, hh⟩
        refine ⟨k + 1, by simp; omega, ?_⟩
        simpa [List.take_succ_cons] using hh
      · rintro ⟨k, hk, hh⟩
        rcases Nat.eq_zero_or_pos k with hk0 | hk0
        · subst hk0; exact absurd (by simpa using hh) hhit
        · refine ⟨k - 1, by simp at hk; omega, ?_⟩
          have : k + 1 = (k - 1 + 1) + 1 := by omega
          rw [this, List.take_succ_cons] at hh
          simpa using hh

/-- **The bit-parallel search is exact** (one mask): for non-empty words of total length at most 64 packed into one
    mask, `shift_and_multiple_is_present` over a window returns true iff one of the words occurs in the window under the
    table relation `m`. -/
theorem shiftAnd_correct (m : UInt8 → UInt8 → Bool) (ws : List Bytes) (hne : ∀ w ∈ ws, w ≠ [])
    (hlen : ws.flatten.length ≤ 64) (window : Bytes) :
    shiftAnd (maskFrom m ws.flatten 0) (initMaskFrom ws 0) (foundMaskFrom ws 0) window 0 = true ↔
      ∃ w ∈ ws, ∃ i, OccursAt m w window i := by
  rw [shiftAnd_loop m ws hne hlen window [] 0 (by intro p _; simp [bit_zero, St])]
  constructor
  · rintro ⟨k, hk, hh⟩
    rw [List.append_nil, hit_iff m ws hne] at hh
    obtain ⟨w, hw, hl, hle, hocc⟩ := hh
    have htl : (window.take (k + 1)).length = k + 1 := by simp; omega
    rw [htl] at hl hle hocc
    refine ⟨w, hw, k + 1 - w.length, by omega, ?_⟩
    intro j hj
    obtain ⟨a, c, ha, hc, hm⟩ := hocc j hj
    refine ⟨a, c, ha, ?_, hm⟩
    rw [List.getElem?_take] at hc
    split at hc
    · exact hc
    · cases hc
  · rintro ⟨w, hw, i, hle, hocc⟩
    have hwl : 0 < w.length := List.length_pos_iff.mpr (hne w hw)
    refine ⟨i + w.length - 1, by omega, ?_⟩
    rw [List.append_nil, hit_iff m ws hne]
    have e : i + w.length - 1 + 1 = i + w.length := by omega
    have htl : (window.take (i + w.length)).length = i + w.length := by simp; omega
    rw [e, htl]
    refine ⟨w, hw, by omega, by omega, ?_⟩
    intro j hj
    obtain ⟨a, c, ha, hc, hm⟩ := hocc j hj
    refine ⟨a, c, ha, ?_, hm⟩
    have e2 : i + w.length - w.length + j = i + j := by omega
    rw [e2, List.getElem?_take, if_pos (by omega)]; exact hc

end Cutadapt.Kmer
