import Cutadapt.Stats
/-! The modifier lists assembled by `makeModsSingle` / `makeModsPaired`, stage by stage: helper lemmas for C10. -/
namespace Cutadapt

/-! ### lists sorted by a rank function -/
section Rank
variable {α : Type} (rk : α → Nat)

def RankSorted (l : List α) : Prop := l.Pairwise (fun a b => rk a ≤ rk b)

/-- sorted, and every rank is at most `r` -/
def Below (r : Nat) (l : List α) : Prop := RankSorted rk l ∧ ∀ a ∈ l, rk a ≤ r

theorem Below.nil (r : Nat) : Below rk r ([] : List α) := ⟨List.Pairwise.nil, by simp⟩

theorem rankSorted_of_const (r : Nat) (l : List α) (h : ∀ a ∈ l, rk a = r) : RankSorted rk l := by
  unfold RankSorted
  rw [List.pairwise_iff_forall_sublist]
  intro a b hab
  have ha := h a (hab.subset (by simp))
  have hb := h b (hab.subset (by simp))
  omega

theorem Below.append {r r' : Nat} {l1 l2 : List α} (h1 : Below rk r l1) (h2 : RankSorted rk l2)
    (lo : ∀ b ∈ l2, r ≤ rk b) (hi : ∀ b ∈ l2, rk b ≤ r') (hr : r ≤ r') : Below rk r' (l1 ++ l2) := by
  refine ⟨?_, ?_⟩
  · unfold RankSorted
    rw [List.pairwise_append]
    refine ⟨h1.1, h2, ?_⟩
    intro a ha b hb
    have := h1.2 a ha
    have := lo b hb
    omega
  · intro a ha
    rcases List.mem_append.1 ha with ha | ha
    · have := h1.2 a ha; omega
    · exact hi a ha

/-- append a stage all of whose members have rank `r'` -/
theorem Below.append_const {r r' : Nat} {l1 l2 : List α} (h1 : Below rk r l1) (hr : r ≤ r') (h2 : ∀ b ∈ l2, rk b = r') :
    Below rk r' (l1 ++ l2) :=
  h1.append rk (rankSorted_of_const rk r' l2 h2) (fun b hb => by rw [h2 b hb]; exact hr) (fun b hb => by rw [h2 b hb]; exact Nat.le_refl _) hr

end Rank

/-! ### the stages -/

/-- documented position of each read modifier: cut 0, NextSeq 1, quality 2, adapters 3, poly-A 4, `--length` 5, `--trim-n` 6,
    `--length-tag` 7, `--strip-suffix` 8, prefix/suffix 9, and the final group zero-cap / rename 10 -/
def stageRank : SMod → Nat
  | .cut _ => 0
  | .nextseq _ _ => 1
  | .qtrim _ _ _ => 2
  | .adapters _ _ => 3
  | .revcomp _ _ _ => 3
  | .polyA _ => 4
  | .shorten _ => 5
  | .trimN => 6
  | .lengthTag _ => 7
  | .stripSuffix _ => 8
  | .prefixSuffix _ _ => 9
  | .zeroCap _ => 10
  | .rename _ => 10

/-- rank of a paired-end modifier: that of the wrapped single-end modifier(s) -/
def pRank : PMod → Nat
  | .wrap (some m) _ => stageRank m
  | .wrap none (some m) => stageRank m
  | .wrap none none => 0
  | .pairedRevcomp .. => 3
  | .pairAdapters .. => 3
  | .pairedRename .. => 10

def cutStage (c : List Int) : List SMod := (c.filter (· != 0)).map .cut
def nextseqStage (o : Opts) : List SMod := match o.nextseqTrim with | some c => [.nextseq c o.qualityBase] | none => []
def qtrimStage (q : Option (Option (Int × Int))) (base : Int) : List SMod :=
  match q with
  | some (some (a, b)) => [.qtrim a b base]    -- `-q a,b`
  | _ => []                                    -- not given, or the literal `0`
/-- `first` = no earlier modifier exists, so the read object handed to the cutter is `info.original_read` -/
def adapterStage (o : Opts) (ads : List Matchable) (first : Bool) : List SMod :=
  if ads.isEmpty then [] else
  if o.revcomp then [.revcomp ⟨ads, o.times, o.action⟩ (!o.renameGiven) first] else [.adapters ⟨ads, o.times, o.action⟩ first]
def polyAStage (o : Opts) : List SMod := if o.polyA then [.polyA false] else []
def shortenStage (o : Opts) : List SMod := match o.length with | some l => [.shorten l] | none => []
def trimNStage (o : Opts) : List SMod := if o.trimN then [.trimN] else []
def lengthTagStage (o : Opts) : List SMod := match o.lengthTag with | some t => [.lengthTag t] | none => []
def stripSuffixStage (o : Opts) : List SMod := o.stripSuffix.map .stripSuffix
def prefixSuffixStage (o : Opts) : List SMod := if !o.pfx.isEmpty || !o.sfx.isEmpty then [.prefixSuffix o.pfx o.sfx] else []
def zeroCapStage (o : Opts) : List SMod := if o.zeroCap then [.zeroCap o.qualityBase.toNat] else []
def renameStage (o : Opts) : List SMod := match o.rename with | some t => [.rename t] | none => []

theorem bothEndMods_eq (o : Opts) :
    bothEndMods o = trimNStage o ++ lengthTagStage o ++ stripSuffixStage o ++ prefixSuffixStage o ++ zeroCapStage o := rfl

theorem qtrimOf_toList (q : Option (Option (Int × Int))) (base : Int) : (qtrimOf q base).toList = qtrimStage q base := by
  unfold qtrimOf qtrimStage
  split <;> simp

theorem cutMods_ok {c : List Int} {l : List SMod} (h : cutMods c = .ok l) : l = cutStage c := by
  unfold cutMods at h
  split at h
  · cases h
  · split at h
    · cases h
    · injection h with h; exact h.symm

/-- `make_unconditional_cutters` accepts at most two values per side, not both of the same sign -/
theorem cutMods_ok_iff (c : List Int) :
    (∃ l, cutMods c = .ok l) ↔ (c.length ≤ 2 ∧ ¬ (c.length = 2 ∧ c[0]! * c[1]! > 0)) := by
  unfold cutMods
  by_cases h1 : c.length > 2
  · simp [h1]; omega
  · by_cases h2 : (c.length == 2 && decide (c[0]! * c[1]! > 0)) = true
    · simp only [if_neg h1, if_pos h2]
      simp at h2
      simp; omega
    · simp only [if_neg h1, if_neg h2]
      simp at h2
      simp; constructor
      · omega
      · intro h; have := h2 h; omega

/-! ### stage ranks -/

theorem rank_cutStage (c : List Int) : ∀ b ∈ cutStage c, stageRank b = 0 := by
  intro b hb; simp [cutStage] at hb; obtain ⟨n, _, rfl⟩ := hb; rfl
theorem rank_nextseqStage (o : Opts) : ∀ b ∈ nextseqStage o, stageRank b = 1 := by
  intro b hb; unfold nextseqStage at hb; split at hb <;> simp at hb; subst hb; rfl
theorem rank_qtrimStage (q : Option (Option (Int × Int))) (base : Int) : ∀ b ∈ qtrimStage q base, stageRank b = 2 := by
  intro b hb; unfold qtrimStage at hb; split at hb <;> simp at hb; subst hb; rfl
theorem rank_adapterStage (o : Opts) (ads : List Matchable) (first : Bool) : ∀ b ∈ adapterStage o ads first, stageRank b = 3 := by
  intro b hb; unfold adapterStage at hb
  split at hb
  · simp at hb
  · split at hb <;> simp at hb <;> subst hb <;> rfl
theorem rank_polyAStage (o : Opts) : ∀ b ∈ polyAStage o, stageRank b = 4 := by
  intro b hb; unfold polyAStage at hb; split at hb <;> simp at hb; subst hb; rfl
theorem rank_shortenStage (o : Opts) : ∀ b ∈ shortenStage o, stageRank b = 5 := by
  intro b hb; unfold shortenStage at hb; split at hb <;> simp at hb; subst hb; rfl
theorem rank_trimNStage (o : Opts) : ∀ b ∈ trimNStage o, stageRank b = 6 := by
  intro b hb; unfold trimNStage at hb; split at hb <;> simp at hb; subst hb; rfl
theorem rank_lengthTagStage (o : Opts) : ∀ b ∈ lengthTagStage o, stageRank b = 7 := by
  intro b hb; unfold lengthTagStage at hb; split at hb <;> simp at hb; subst hb; rfl
theorem rank_stripSuffixStage (o : Opts) : ∀ b ∈ stripSuffixStage o, stageRank b = 8 := by
  intro b hb; simp [stripSuffixStage] at hb; obtain ⟨n, _, rfl⟩ := hb; rfl
theorem rank_prefixSuffixStage (o : Opts) : ∀ b ∈ prefixSuffixStage o, stageRank b = 9 := by
  intro b hb; unfold prefixSuffixStage at hb; split at hb <;> simp at hb; subst hb; rfl
theorem rank_zeroCapStage (o : Opts) : ∀ b ∈ zeroCapStage o, stageRank b = 10 := by
  intro b hb; unfold zeroCapStage at hb; split at hb <;> simp at hb; subst hb; rfl
theorem rank_renameStage (o : Opts) : ∀ b ∈ renameStage o, stageRank b = 10 := by
  intro b hb; unfold renameStage at hb; split at hb <;> simp at hb; subst hb; rfl

theorem bothEndMods_below (o : Opts) : RankSorted stageRank (bothEndMods o) ∧ ∀ b ∈ bothEndMods o, 6 ≤ stageRank b ∧ stageRank b ≤ 10 := by
  rw [bothEndMods_eq]
  have h := ((((Below.nil stageRank 6).append_const stageRank (Nat.le_refl _) (rank_trimNStage o)).append_const stageRank
    (by omega : 6 ≤ 7) (rank_lengthTagStage o)).append_const stageRank (by omega : 7 ≤ 8) (rank_stripSuffixStage o)).append_const stageRank
    (by omega : 8 ≤ 9) (rank_prefixSuffixStage o) |>.append_const stageRank (by omega : 9 ≤ 10) (rank_zeroCapStage o)
  simp only [List.nil_append] at h
  refine ⟨h.1, ?_⟩
  intro b hb
  refine ⟨?_, h.2 b hb⟩
  simp only [List.mem_append] at hb
  rcases hb with (((hb | hb) | hb) | hb) | hb
  · rw [rank_trimNStage o b hb]; omega
  · rw [rank_lengthTagStage o b hb]; omega
  · rw [rank_stripSuffixStage o b hb]; omega
  · rw [rank_prefixSuffixStage o b hb]; omega
  · rw [rank_zeroCapStage o b hb]; omega

/-! ### the single-end assembly, in closed form -/

/-- the documented composition: every stage is present iff its option is -/
def documentedSingle (o : Opts) (ads : List Matchable) : List SMod :=
  cutStage o.cut ++ nextseqStage o ++ qtrimStage o.qualityCutoff o.qualityBase ++
  adapterStage o ads (cutStage o.cut ++ nextseqStage o ++ qtrimStage o.qualityCutoff o.qualityBase).isEmpty ++
  polyAStage o ++ shortenStage o ++ trimNStage o ++ lengthTagStage o ++ stripSuffixStage o ++ prefixSuffixStage o ++
  zeroCapStage o ++ renameStage o

/-- the option combinations `make_pipeline_from_args` rejects (single-end) -/
def rejectedSingle (o : Opts) (ads : List Matchable) : Bool :=
  o.pairAdapters || ((o.action == .retain || o.action == .crop) && o.times > 1 && !ads.isEmpty) ||
  (o.renameGiven && (!o.pfx.isEmpty || !o.sfx.isEmpty))

theorem makeModsSingle_eq (o : Opts) (ads : List Matchable) :
    makeModsSingle o ads =
      match cutMods o.cut with
      | .error e => .error e
      | .ok _ => if rejectedSingle o ads then .error .cmdline else .ok (documentedSingle o ads) := by
  unfold makeModsSingle
  cases hc : cutMods o.cut with
  | error e => simp [bind, Except.bind]
  | ok cuts =>
    have hcuts := cutMods_ok hc
    subst hcuts
    unfold rejectedSingle documentedSingle
    by_cases c1 : o.pairAdapters = true <;>
    by_cases c2 : ((o.action == .retain || o.action == .crop) && decide (o.times > 1) && !ads.isEmpty) = true <;>
    by_cases c3 : (o.renameGiven && (!o.pfx.isEmpty || !o.sfx.isEmpty)) = true <;>
    simp only [bind, Except.bind, pure, Except.pure, throw, throwThe, MonadExceptOf.throw, c1, c2, c3, if_true, if_false,
      Bool.or_true, Bool.or_false, Bool.false_eq_true, bothEndMods_eq, qtrimOf_toList,
      adapterStage, nextseqStage, polyAStage, shortenStage, renameStage, List.append_assoc] <;> rfl

/-! ### the paired-end assembly, in closed form -/

/-- the R1 quality trimmer: `-q` -/
def qR1 (o : Opts) : Option SMod := qtrimOf o.qualityCutoff o.qualityBase
/-- the R2 quality trimmer: `-Q` if given (`-Q 0`: none), a copy of R1's otherwise -/
def qR2 (o : Opts) : Option SMod :=
  match o.qualityCutoff2 with
  | none => qR1 o
  | some q => qtrimOf (some q) o.qualityBase

def cutterOf (o : Opts) (ads : List Matchable) : Option Cutter := if ads.isEmpty then none else some ⟨ads, o.times, o.action⟩

def adapterStageP (o : Opts) (ads1 ads2 : List Matchable) (first1 first2 : Bool) : List PMod :=
  if o.pairAdapters then [.pairAdapters ads1 ads2 o.action first1 first2]
  else if (cutterOf o ads1).isNone && (cutterOf o ads2).isNone then []
  else if o.revcomp then [.pairedRevcomp (cutterOf o ads1) (cutterOf o ads2) (!o.renameGiven) first1 first2]
  else [.wrap ((cutterOf o ads1).map (fun c => SMod.adapters c first1)) ((cutterOf o ads2).map (fun c => SMod.adapters c first2))]

def shortenStageP (o : Opts) : List PMod :=
  match o.length, o.length2 with
  | some a, some b => [.wrap (some (.shorten a)) (some (.shorten b))]     -- `-l a -L b`
  | some a, none => [.wrap (some (.shorten a)) (some (.shorten a))]       -- `-l a`: both
  | none, some b => [.wrap none (some (.shorten b))]                      -- `-L b`: R2 only
  | none, none => []

def onR1 (m : SMod) : PMod := .wrap (some m) none
def onR2 (m : SMod) : PMod := .wrap none (some m)
def onBoth (m : SMod) : PMod := .wrap (some m) (some m)

def documentedPaired (o : Opts) (ads1 ads2 : List Matchable) : List PMod :=
  (cutStage o.cut).map onR1 ++ (cutStage o.cut2).map onR2 ++
  (nextseqStage o).map onBoth ++
  (if (qR1 o).isSome || (qR2 o).isSome then [.wrap (qR1 o) (qR2 o)] else []) ++
  adapterStageP o ads1 ads2 ((cutStage o.cut).isEmpty && o.nextseqTrim.isNone && (qR1 o).isNone)
    ((cutStage o.cut2).isEmpty && o.nextseqTrim.isNone && (qR2 o).isNone) ++
  (if o.polyA then [.wrap (some (.polyA false)) (some (.polyA true))] else []) ++
  shortenStageP o ++
  (bothEndMods o).map onBoth ++
  (match o.rename with | some t => [.pairedRename t t] | none => [])

def rejectedPaired (o : Opts) (ads1 ads2 : List Matchable) : Bool :=
  (if o.pairAdapters then o.revcomp || ads1.length != ads2.length || ads1.isEmpty
   else (o.action == .retain || o.action == .crop) && o.times > 1 && (!ads1.isEmpty || !ads2.isEmpty)) ||
  (o.renameGiven && (!o.pfx.isEmpty || !o.sfx.isEmpty))

theorem ite_ok {ε α : Type} (c : Prop) [Decidable c] (a b : α) :
    (if c then (Except.ok a : Except ε α) else Except.ok b) = .ok (if c then a else b) := by split <;> rfl

theorem qR2_eq (o : Opts) :
    (if (o.qualityCutoff.isSome && o.qualityCutoff2.isNone) = true then qtrimOf o.qualityCutoff o.qualityBase
      else qtrimOf o.qualityCutoff2 o.qualityBase) = qR2 o := by
  unfold qR2 qR1
  cases h1 : o.qualityCutoff <;> cases h2 : o.qualityCutoff2 <;> simp [qtrimOf]

set_option linter.unusedSimpArgs false in
theorem makeModsPaired_eq (o : Opts) (ads1 ads2 : List Matchable) :
    makeModsPaired o ads1 ads2 =
      match cutMods o.cut, cutMods o.cut2 with
      | .error e, _ => .error e
      | .ok _, .error e => .error e
      | .ok _, .ok _ => if rejectedPaired o ads1 ads2 then .error .cmdline else .ok (documentedPaired o ads1 ads2) := by
  unfold makeModsPaired
  cases hc : cutMods o.cut with
  | error e => simp [bind, Except.bind]
  | ok c1 =>
    cases hc2 : cutMods o.cut2 with
    | error e => simp [bind, Except.bind]
    | ok c2 =>
      have h1 := cutMods_ok hc
      have h2 := cutMods_ok hc2
      subst h1 h2
      unfold rejectedPaired documentedPaired adapterStageP cutterOf shortenStageP qR1
      simp only [qR2_eq]
      by_cases c3 : (o.renameGiven && (!o.pfx.isEmpty || !o.sfx.isEmpty)) = true <;>
      by_cases cp : o.pairAdapters = true
      all_goals simp only [cp, if_true, if_false, Bool.false_eq_true]
      · by_cases cr : o.revcomp = true <;> by_cases cl : (ads1.length != ads2.length || ads1.isEmpty) = true <;>
        simp [bind, Except.bind, pure, Except.pure, throw, throwThe, MonadExceptOf.throw, c3, cr, cl, onR1, onR2, onBoth, nextseqStage] <;> cases o.nextseqTrim <;> rfl
      · by_cases ct : ((o.action == Action.retain || o.action == Action.crop) && decide (o.times > 1) &&
            (!ads1.isEmpty || !ads2.isEmpty)) = true <;>
        by_cases ce1 : ads1.isEmpty = true <;> by_cases ce2 : ads2.isEmpty = true <;> by_cases cr : o.revcomp = true <;>
        simp [bind, Except.bind, pure, Except.pure, throw, throwThe, MonadExceptOf.throw, c3, cr, ct, ce1, ce2, onR1, onR2, onBoth, nextseqStage] <;> cases o.nextseqTrim <;> rfl
      · by_cases cr : o.revcomp = true <;> by_cases cl : (ads1.length != ads2.length || ads1.isEmpty) = true <;>
        simp [bind, Except.bind, pure, Except.pure, throw, throwThe, MonadExceptOf.throw, c3, cr, cl, onR1, onR2, onBoth, nextseqStage] <;> cases o.nextseqTrim <;> rfl
      · by_cases ct : ((o.action == Action.retain || o.action == Action.crop) && decide (o.times > 1) &&
            (!ads1.isEmpty || !ads2.isEmpty)) = true <;>
        by_cases ce1 : ads1.isEmpty = true <;> by_cases ce2 : ads2.isEmpty = true <;> by_cases cr : o.revcomp = true <;>
        simp [bind, Except.bind, pure, Except.pure, throw, throwThe, MonadExceptOf.throw, c3, cr, ct, ce1, ce2, onR1, onR2, onBoth, nextseqStage] <;> cases o.nextseqTrim <;> rfl

end Cutadapt
