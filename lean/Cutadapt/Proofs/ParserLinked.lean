import Cutadapt.Proofs.ParserMeaning
/-! Linked adapters, `make_adapter`, `file:` specifications and the top level (C18). -/
namespace Cutadapt.ParserProofs
open Cutadapt.Parser Cutadapt.Notation

/-- **The constructor call of one part**: with the keyword arguments looked up as the parser passes them, `construct` gives
    the documented record (or one of its two documented errors). -/
theorem construct_part {p : Part} (hp : p.WF) {sp : Params} {base : Base} (hsp : SPOK sp base) {cls : Cls}
    (hanchIff : (cls = .prefix ∨ cls = .suffix) ↔ p.restr.anchored = true) (nm : Option Str) (kw : Params) (fa : Bool)
    (hg : ∀ k, k = .maxErrors ∨ k = .minOverlap ∨ k = .indels ∨ k = .readWildcards ∨ k = .adapterWildcards →
      Params.get kw k = match aGet (paramDict p.params) (expandRuns p.runs).length k with
        | some v => some v
        | none => Params.get sp k)
    (hfa : kw.flag .forceAnywhere = fa)
    (hbad : ∀ k, kwAllowed cls k = false → Params.get kw k = none) :
    match buildPart p base cls nm fa with
    | .error _ => ∃ e, construct cls (expandRuns p.runs) nm kw = .error e ∧ e.isCmdline = true
    | .ok (a, r) => construct cls (expandRuns p.runs) nm kw = .ok a ∧ r = (paramSem p.params).required := by
  obtain ⟨hse, hso, hsi, hsr, hsa, hsrm⟩ := sem_fields p.params
  rw [construct_eval cls (expandRuns p.runs) nm kw
      ((paramSem p.params).e.getD base.e)
      (match (paramSem p.params).o with
        | some v => if v.gtNat (normalise (expandRuns p.runs)).length = true then .int (normalise (expandRuns p.runs)).length else v
        | none => base.o)
      ((paramSem p.params).indels.getD base.indels) base.readWildcards base.adapterWildcards fa p.restr.anchored]
  · unfold buildPart
    simp only
    generalize normalise (expandRuns p.runs) = S
    generalize (paramSem p.params).e.getD base.e = E
    generalize (paramSem p.params).indels.getD base.indels = I
    by_cases h1 : (base.adapterWildcards && !S.all isACGT) = true ∧ nonN S = 0
    · simp only [h1, and_self, if_true]; exact ⟨_, rfl, rfl⟩
    · simp only [h1, if_false]
      by_cases h2 : p.restr.anchored = true ∧ ¬ I.truthy = true ∧
          E.den * (if E.ge1 = true ∧ nonN S ≠ 0 then nonN S else 1) < E.numer
      · simp only [h2, and_self, if_true]; exact ⟨_, rfl, rfl⟩
      · simp only [h2, if_false]
        refine ⟨?_, trivial⟩
        cases (paramSem p.params).o <;> rfl
  · rw [hg _ (Or.inl rfl), hsp.e]
    simp only [aGet, ← hse]
    cases (paramSem p.params).e <;> rfl
  · rw [hg _ (Or.inr (Or.inl rfl)), hsp.o]
    simp only [aGet, ← hso]
    have hl : (normalise (expandRuns p.runs)).length = (expandRuns p.runs).length := by simp [normalise]
    rw [hl]
    cases (paramSem p.params).o <;> simp [clampV]
  · rw [hg _ (Or.inr (Or.inr (Or.inl rfl))), hsp.indels]
    simp only [aGet, ← hsi]
    cases (paramSem p.params).indels <;> rfl
  · rw [hg _ (Or.inr (Or.inr (Or.inr (Or.inl rfl)))), hsp.rw]
    simp [aGet, postGet, paramDict_get_none _ _ (by intro n; cases n <;> simp [PName.key] : ∀ n : PName, n.key ≠ Key.readWildcards)]
  · rw [hg _ (Or.inr (Or.inr (Or.inr (Or.inr rfl)))), hsp.aw]
    simp [aGet, postGet, paramDict_get_none _ _ (by intro n; cases n <;> simp [PName.key] : ∀ n : PName, n.key ≠ Key.adapterWildcards)]
  · exact hfa
  · exact hbad
  · exact hanchIff
  · exact hp.2.2.2.1
  · exact seq_iupac hp
  · cases ho2 : (paramSem p.params).o with
    | none => exact hsp.oint
    | some v =>
      simp only
      split
      · rfl
      · have hv : Params.get (paramDict p.params) .minOverlap = some v := by
          have : postGet (paramDict p.params) .minOverlap = some v := by rw [← hso]; exact ho2
          exact this
        exact paramDict_o_int hp.2.2.1 hv

theorem noAnywhere_get {p : Part} (hna : p.noAnywhere) : Params.get (paramDict p.params) .anywhere = none := by
  cases h : Params.get (paramDict p.params) .anywhere with
  | none => rfl
  | some v =>
    exfalso
    have : Params.has (paramDict p.params) .anywhere = true := by simp [Params.has, h]
    rw [Params.has_iff_mem_keys, paramDict_keys] at this
    obtain ⟨q, hq, hk⟩ := List.mem_map.mp this
    have := hna q hq
    cases hn : q.name <;> simp [hn, PName.key] at hk this

/-- **One half of a linked adapter**: parsing and construction as the parser does them, against `meaningPart`. -/
theorem linkedPart_sem {p : Part} (hp : p.WF) (hna : p.noAnywhere) {sp : Params} {base : Base} (hsp : SPOK sp base)
    (t : AType) (nm : Option Str) :
    match meaningPart t true p base nm with
    | .error _ =>
      (∃ e, parseASpec p.render t = .error e ∧ e.isCmdline = true) ∨
      (∃ A e, parseASpec p.render t = .ok A ∧
        construct A.cls A.sequence nm ((sp.update A.parameters).erase .required) = .error e ∧ e.isCmdline = true)
    | .ok (a, req) =>
      ∃ A, parseASpec p.render t = .ok A ∧
        construct A.cls A.sequence nm ((sp.update A.parameters).erase .required) = .ok a ∧
        Params.get (sp.update A.parameters) .required = req ∧ A.restriction.isSome = p.restr.restricted ∧ A.name = p.name := by
  unfold meaningPart
  by_cases hc : paramsConsistent p.params = true
  case neg =>
    simp only [hc, Bool.not_false, if_true]
    exact Or.inl (parseASpec_err hp t (Or.inl (by simpa using hc)))
  simp only [hc, Bool.not_true, Bool.false_eq_true, if_false]
  cases hcls : classOf t p.restr (paramSem p.params).rightmost with
  | none => exact Or.inl (parseASpec_err hp t (Or.inr (Or.inl hcls)))
  | some cls =>
    simp only
    by_cases ho : (paramSem p.params).o.isSome = true ∧ p.restr.anchored = true
    · simp only [ho, and_self, if_true]
      exact Or.inl (parseASpec_err hp t (Or.inr (Or.inr ho)))
    simp only [ho, if_false, Bool.not_true, Bool.false_eq_true, false_and, Bool.false_and]
    obtain ⟨A, hA, hAn, hAr, hAs, hAt, hArm, hAg⟩ := parseASpec_ok hp t hc hcls ho
    obtain ⟨hse, hso, hsi, hsr, hsa, hsrm⟩ := sem_fields p.params
    obtain ⟨_, _, _, _, hclsEq, hanchIff, _, hrestricted⟩ := classOf_some hcls
    have hAcls : A.cls = cls := by unfold ASpec.cls; rw [hAt, hAr, hArm]; exact hclsEq.symm
    have hfaNone : Params.get (paramDict p.params) .forceAnywhere = none :=
      paramDict_get_none _ _ (by intro n; cases n <;> simp [PName.key])
    have hkw : ∀ k, Params.get ((sp.update A.parameters).erase .required) k =
        if k = .required then none else
          match aGet (paramDict p.params) (expandRuns p.runs).length k with
          | some v => some v
          | none => Params.get sp k := by
      intro k
      rw [Params.get_erase, Params.get_update, hAg]
      by_cases hk : k = .required
      · simp [hk]
      · simp only [hk, if_false]
        cases aGet (paramDict p.params) (expandRuns p.runs).length k <;> rfl
    have hcp := construct_part hp hsp hanchIff nm ((sp.update A.parameters).erase .required) false
      (by
        intro k hk
        rw [hkw]
        rcases hk with rfl | rfl | rfl | rfl | rfl <;> simp)
      (by
        unfold Params.flag
        rw [hkw]
        simp [aGet, postGet, hfaNone, hsp.other _ (by decide : kwAllowed .anywhere .forceAnywhere = false)])
      (by
        intro k hbadk
        have hbad2 : kwAllowed .anywhere k = false := by cases k <;> simp [kwAllowed] at hbadk ⊢
        rw [hkw, hsp.other k hbad2]
        cases k <;> simp [kwAllowed] at hbad2 <;> simp [aGet, postGet, hfaNone, noAnywhere_get hna])
    have hreq : Params.get (sp.update A.parameters) .required = (paramSem p.params).required := by
      rw [Params.get_update, hAg, hsp.other _ (by decide)]
      simp only [aGet, ← hsr]
      cases (paramSem p.params).required <;> rfl
    revert hcp
    cases buildPart p base cls nm false with
    | error k =>
      rintro ⟨e, he, hk⟩
      exact Or.inr ⟨A, e, hA, by rw [hAcls, hAs]; exact he, hk⟩
    | ok ar =>
      obtain ⟨a, r⟩ := ar
      rintro ⟨h1, h2⟩
      refine ⟨A, hA, by rw [hAcls, hAs]; exact h1, by rw [hreq, h2], ?_, hAn⟩
      rw [hAr]; exact hrestricted

theorem toKind_cmdline {α : Type} (e : Err) (hk : e.isCmdline = true) : toKind (Except.error e : Except Err α) = .error .cmdline := by
  simp [toKind, kindOf, hk]

theorem ite_err_kind {α : Type} {c : Prop} [Decidable c] {x : Except Kind α} {k : Kind}
    (hx : x = .error k → k = .cmdline) (h : (if c then Except.error Kind.cmdline else x) = .error k) : k = .cmdline := by
  by_cases hc : c
  · rw [if_pos hc] at h; injection h with h; exact h.symm
  · rw [if_neg hc] at h; exact hx h

theorem buildPart_err_kind {p : Part} {base : Base} {cls : Cls} {nm : Option Str} {fa : Bool} {k : Kind}
    (h : buildPart p base cls nm fa = .error k) : k = .cmdline := by
  unfold buildPart at h
  exact ite_err_kind (ite_err_kind (fun h => by cases h)) h

theorem meaningPart_err_kind {t : AType} {inL : Bool} {p : Part} {base : Base} {nm : Option Str} {k : Kind}
    (h : meaningPart t inL p base nm = .error k) : k = .cmdline := by
  unfold meaningPart at h
  refine ite_err_kind (fun h => ?_) h
  cases hc : classOf t p.restr (paramSem p.params).rightmost with
  | none => rw [hc] at h; injection h with h; exact h.symm
  | some cls =>
    rw [hc] at h
    exact ite_err_kind (ite_err_kind buildPart_err_kind) h

/-- **A rendered linked adapter** is built as documented. -/
theorem makeLinked_sem {f b : Part} (hf : f.WF) (hb : b.WF) (hfa : f.noAnywhere) (hba : b.noAnywhere)
    {sp : Params} {base : Base} (hsp : SPOK sp base) (o : Opt) (hname : Option Str) :
    toKind (makeLinked f.render b.render hname o.atype sp) = meaningBody o (.linked f b) base hname := by
  unfold meaningBody
  by_cases hob : o = .b
  · subst hob
    simp [makeLinked, Opt.atype, toKind, kindOf, Err.isCmdline, Err.cls]
  have hty : o.atype ≠ .anywhere := by cases o <;> simp [Opt.atype] at hob ⊢
  have hfront : (o.atype = .front) ↔ o = .g := by cases o <;> simp [Opt.atype]
  simp only [hob, if_false]
  unfold makeLinked
  simp only [hty, if_false]
  have h1 := linkedPart_sem hf hfa hsp .front (some (cs!"linked_front"))
  have h2 := linkedPart_sem hb hba hsp .back (some (cs!"linked_back"))
  cases hm1 : meaningPart .front true f base (some (cs!"linked_front")) with
  | error k1 =>
    rw [hm1] at h1
    have := meaningPart_err_kind hm1
    subst this
    simp only
    rcases h1 with ⟨e, he, hk⟩ | ⟨F, e, hF, hcF, hk⟩
    · simp only [he]; exact toKind_cmdline e hk
    · simp only [hF]
      -- whatever the back part does, the result is a rejection
      cases hmb : meaningPart .back true b base (some (cs!"linked_back")) with
      | error k2 =>
        rw [hmb] at h2
        rcases h2 with ⟨e2, he2, hk2⟩ | ⟨B, e2, hB, hcB, hk2⟩
        · simp only [he2]; exact toKind_cmdline e2 hk2
        · simp only [hB, hcF]; exact toKind_cmdline e hk
      | ok r2 =>
        rw [hmb] at h2
        obtain ⟨B, hB, _⟩ := h2
        simp only [hB, hcF]; exact toKind_cmdline e hk
  | ok r1 =>
    obtain ⟨fa, freq⟩ := r1
    rw [hm1] at h1
    obtain ⟨F, hF, hcF, hFreq, hFres, hFname⟩ := h1
    simp only [hF]
    cases hm2 : meaningPart .back true b base (some (cs!"linked_back")) with
    | error k2 =>
      rw [hm2] at h2
      have := meaningPart_err_kind hm2
      subst this
      simp only
      rcases h2 with ⟨e2, he2, hk2⟩ | ⟨B, e2, hB, hcB, hk2⟩
      · simp only [he2]; exact toKind_cmdline e2 hk2
      · simp only [hB, hcF, hcB]; exact toKind_cmdline e2 hk2
    | ok r2 =>
      obtain ⟨ba, breq⟩ := r2
      rw [hm2] at h2
      obtain ⟨B, hB, hcB, hBreq, hBres, hBname⟩ := h2
      simp only [hB, hcF, hcB, toKind, hFreq, hBreq, hFres, hBres, hFname, optOr_eq, hfront]

end Cutadapt.ParserProofs
