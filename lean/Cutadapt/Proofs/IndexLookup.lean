import Cutadapt.Index
/-! Look-up through the index: `_match_to_one_length`, `_match_to_multiple_lengths` on N-free reads of any length. -/
namespace Cutadapt.Index
open Cutadapt Cutadapt.Adapters

/-- the affix of length `len` at the anchored end -/
def removedAffix (isPrefix : Bool) (up : Bytes) (len : Nat) : Bytes :=
  if isPrefix then up.take len else up.drop (up.length - len)

theorem makeAffix_prefix (s : Bytes) (l : Nat) : makeAffix true s l = s.take l := by
  simp only [makeAffix, if_true, pySlice, normBound, seg]
  have : ¬ ((l : Int) < 0) := by omega
  simp only [this, if_false, Int.toNat_natCast, List.drop_zero]
  rw [List.take_eq_take_iff]; omega

theorem makeAffix_suffix (s : Bytes) (l : Nat) :
    makeAffix false s l = if l = 0 then s else s.drop (s.length - l) := by
  simp only [makeAffix, Bool.false_eq_true, if_false, pySlice, normBound, seg, List.take_length]
  by_cases h0 : l = 0
  · subst h0; simp
  · have : (-(l : Int) < 0) := by omega
    simp only [this, if_true, h0, if_false]
    congr 1
    omega

theorem makeAffix_removed (p : Bool) (s : Bytes) (l : Nat) (h : p = false → 1 ≤ l) :
    makeAffix p s l = removedAffix p s l := by
  cases p with
  | true => simp [makeAffix_prefix, removedAffix]
  | false =>
    have : l ≠ 0 := by have := h rfl; omega
    simp [makeAffix_suffix, removedAffix, this]

theorem removedAffix_length (p : Bool) (s : Bytes) (l : Nat) (h : l ≤ s.length) : (removedAffix p s l).length = l := by
  cases p <;> simp [removedAffix] <;> omega

theorem removedAffix_full (p : Bool) (s : Bytes) : removedAffix p s s.length = s := by
  cases p <;> simp [removedAffix]

/-- re-slicing a longer affix gives the shorter affix of the whole string -/
theorem removedAffix_thread (p : Bool) (s : Bytes) (l1 l2 : Nat) (h12 : l2 ≤ l1) (h1 : l1 ≤ s.length) :
    removedAffix p (removedAffix p s l1) l2 = removedAffix p s l2 := by
  cases p with
  | true =>
    simp only [removedAffix, if_true, List.take_take]
    congr 1; omega
  | false =>
    simp only [removedAffix, Bool.false_eq_true, if_false, List.length_drop, List.drop_drop]
    congr 1; omega

theorem removedAffix_subset (p : Bool) (s : Bytes) (l : Nat) : ∀ c ∈ removedAffix p s l, c ∈ s := by
  intro c hc
  cases p with
  | true => exact List.mem_of_mem_take (by simpa [removedAffix] using hc)
  | false => exact List.mem_of_mem_drop (by simpa [removedAffix] using hc)

theorem makeAffix_length_le (p : Bool) (s : Bytes) (l : Nat) (h : p = false → 1 ≤ l) :
    (makeAffix p s l).length = min l s.length := by
  rw [makeAffix_removed p s l h]
  cases p <;> simp [removedAffix] <;> omega

theorem lookupAffix_nfree {D : Type} (ops : DictOps D) (idx : AdapterIndex D) (affix : Bytes) (length : Nat)
    (hN : (78 : UInt8) ∉ affix) (r : Nat × Nat × Int × Nat) (h : lookupAffix ops idx affix length = some r) :
    ∃ m : Nat, r.2.2.1 = (m : Int) ∧ r.2.2.2 = length ∧ ops.get? idx.index affix = some (r.1, r.2.1, m) := by
  have hc : affix.contains 78 = false := by simpa using hN
  simp only [lookupAffix, hc, Bool.false_eq_true, if_false] at h
  split at h
  · simp at h
  · rename_i ai e m hg
    simp only [Option.some.injEq] at h
    subst h
    exact ⟨m, rfl, rfl, hg⟩

/-- what `best_adapter / best_length / best_m / best_e` hold: nothing yet, or a hit at one of the indexed lengths that
    fits into the read -/
def GoodBest {D : Type} (ops : DictOps D) (idx : AdapterIndex D) (up : Bytes) (b : BestSoFar) : Prop :=
  b.m = -1 ∨ ∃ m : Nat, b.m = (m : Int) ∧ b.length ∈ idx.lengths ∧ b.length ≤ up.length ∧
    ops.get? idx.index (removedAffix idx.isPrefix up b.length) = some (b.adapter, b.e, m)

theorem multiLoop_good {D : Type} (ops : DictOps D) (idx : AdapterIndex D) (up : Bytes) (hN : (78 : UInt8) ∉ up)
    (hpos : idx.isPrefix = false → ∀ l ∈ idx.lengths, 1 ≤ l) :
    ∀ (ls : List Nat) (L : Nat) (best : BestSoFar), (∀ l ∈ ls, l ∈ idx.lengths) → ls.Pairwise (· ≥ ·) →
      (∀ l ∈ ls, l ≤ up.length → l ≤ L) → L ≤ up.length → GoodBest ops idx up best →
      GoodBest ops idx up (multiLoop ops idx up.length ls (removedAffix idx.isPrefix up L) best) := by
  intro ls
  induction ls with
  | nil => intro L best _ _ _ _ hb; simpa [multiLoop] using hb
  | cons length rest ih =>
    intro L best hmem hpw hle hL hb
    rw [List.pairwise_cons] at hpw
    have hlenmem : length ∈ idx.lengths := hmem length (by simp)
    simp only [multiLoop]
    split
    · exact hb
    · split
      · -- longer than the read: skipped, the affix is left alone
        exact ih L best (fun l hl => hmem l (by simp [hl])) hpw.2 (fun l hl => hle l (by simp [hl])) hL hb
      · rename_i hgt
        have hlen_n : length ≤ up.length := by omega
        have hlenL : length ≤ L := hle length (by simp) hlen_n
        have haff : makeAffix idx.isPrefix (removedAffix idx.isPrefix up L) length = removedAffix idx.isPrefix up length := by
          rw [makeAffix_removed _ _ _ (fun hp => hpos hp length hlenmem)]
          exact removedAffix_thread _ _ _ _ hlenL hL
        have hrec : ∀ b, GoodBest ops idx up b →
            GoodBest ops idx up (multiLoop ops idx up.length rest (removedAffix idx.isPrefix up length) b) := by
          intro b hb'
          exact ih length b (fun l hl => hmem l (by simp [hl])) hpw.2 (fun l hl _ => hpw.1 l hl) hlen_n hb'
        simp only [haff]
        split
        · exact hrec best hb
        · rename_i ai e m ml hlk
          have hNa : (78 : UInt8) ∉ removedAffix idx.isPrefix up length :=
            fun hc => hN (removedAffix_subset _ _ _ _ hc)
          obtain ⟨m', hm', hml, hg⟩ := lookupAffix_nfree ops idx _ length hNa (ai, e, m, ml) hlk
          simp only at hm' hml hg
          split
          · apply hrec
            right
            exact ⟨m', hm', by rw [hml]; exact hlenmem, by rw [hml]; exact hlen_n, by rw [hml]; exact hg⟩
          · exact hrec best hb

/-- **Key-level soundness of the look-up**, for every N-free read (short ones included): a match returned through the
    index was found as a dictionary key — the removed affix (of the upper-cased read), at one of the indexed lengths that
    fits into the read, is a key whose entry is the reported adapter with the reported errors and score; the coordinates
    are those of that affix. `hkeys`: the length of every key is one of the indexed lengths (true of `_make_index`). -/
theorem indexMatchTo_key {D : Type} (ops : DictOps D) (idx : AdapterIndex D) (read : Bytes)
    (hN : (78 : UInt8) ∉ read.map asciiUpper)
    (hdesc : idx.lengths.Pairwise (· ≥ ·))
    (hkeys : ∀ s en, ops.get? idx.index s = some en → s.length ∈ idx.lengths)
    (hpos : idx.isPrefix = false → ∀ l ∈ idx.lengths, 1 ≤ l)
    (mt : IndexMatch) (h : indexMatchTo ops idx read = some mt) :
    ∃ (len m : Nat), len ∈ idx.lengths ∧ len ≤ read.length ∧
      mt.astart = 0 ∧ mt.astop = (idx.adapters.getD mt.adapter default).seq.length ∧ mt.score = (m : Int) ∧
      (if idx.isPrefix then mt.rstart = 0 ∧ mt.rstop = len
       else mt.rstart = ((read.length - len : Nat) : Int) ∧ mt.rstop = read.length) ∧
      ops.get? idx.index (removedAffix idx.isPrefix (read.map asciiUpper) len) = some (mt.adapter, mt.errors, m) := by
  have hupl : (read.map asciiUpper).length = read.length := by simp
  simp only [indexMatchTo] at h
  split at h
  · -- one length
    rename_i h1
    simp only [matchToOneLength] at h
    obtain ⟨l0, hl0⟩ : ∃ l0, idx.lengths = [l0] := by
      match hls : idx.lengths, h1 with
      | [l0], _ => exact ⟨l0, rfl⟩
    have hmem : l0 ∈ idx.lengths := by simp [hl0]
    simp only [hl0, List.headD_cons] at h
    split at h
    · simp at h
    · rename_i ai e m ml hlk
      have hpos0 : idx.isPrefix = false → 1 ≤ l0 := fun hp => hpos hp l0 hmem
      have hNa : (78 : UInt8) ∉ makeAffix idx.isPrefix (read.map asciiUpper) l0 := by
        rw [makeAffix_removed _ _ _ hpos0]
        exact fun hc => hN (removedAffix_subset _ _ _ _ hc)
      obtain ⟨m', hm', hml, hg⟩ := lookupAffix_nfree ops idx _ l0 hNa (ai, e, m, ml) hlk
      simp only at hm' hml hg
      -- the key has length l0, so the read is not shorter than l0
      have hkl := hkeys _ _ hg
      rw [hl0, List.mem_singleton, makeAffix_length_le _ _ _ hpos0, hupl] at hkl
      have hl0n : l0 ≤ read.length := by omega
      rw [makeAffix_removed _ _ _ hpos0] at hg
      simp only [Option.some.injEq] at h
      subst h
      subst hml
      refine ⟨ml, m', hmem, hl0n, ?_⟩
      cases hp : idx.isPrefix
      · simp only [makeMatch, hp, Bool.false_eq_true, if_false]
        rw [hp] at hg
        refine ⟨trivial, trivial, hm', ⟨by omega, trivial⟩, hg⟩
      · simp only [makeMatch, hp, if_true]
        rw [hp] at hg
        exact ⟨trivial, trivial, hm', ⟨trivial, trivial⟩, hg⟩
  · -- several lengths
    simp only [matchToMultipleLengths] at h
    have hgood := multiLoop_good ops idx (read.map asciiUpper) hN hpos idx.lengths read.length {}
      (fun l hl => hl) hdesc (fun l _ hl => by omega) (by omega) (Or.inl rfl)
    rw [← hupl, removedAffix_full, hupl] at hgood
    generalize multiLoop ops idx read.length idx.lengths (read.map asciiUpper) {} = best at h hgood
    split at h
    · simp at h
    · rename_i hne
      rcases hgood with hm1 | ⟨m', hm', hmem, hln, hg⟩
      · exact absurd hm1 hne
      · simp only [Option.some.injEq] at h
        subst h
        rw [hupl] at hln
        refine ⟨best.length, m', hmem, hln, ?_⟩
        cases hp : idx.isPrefix
        · simp only [makeMatch, hp, Bool.false_eq_true, if_false]
          rw [hp] at hg
          refine ⟨trivial, trivial, hm', ⟨by omega, trivial⟩, hg⟩
        · simp only [makeMatch, hp, if_true]
          rw [hp] at hg
          exact ⟨trivial, trivial, hm', ⟨trivial, trivial⟩, hg⟩

/-! ### `sorted(lengths, reverse=True)` -/

theorem mem_insertDesc (x y : Nat) (l : List Nat) : y ∈ insertDesc x l ↔ y = x ∨ y ∈ l := by
  induction l with
  | nil => simp [insertDesc]
  | cons z zs ih =>
    simp only [insertDesc]
    split
    · simp
    · simp only [List.mem_cons, ih]
      constructor
      · rintro (h | h | h) <;> simp [h]
      · rintro (h | h | h) <;> simp [h]

theorem mem_sortDesc (y : Nat) (l : List Nat) : y ∈ sortDesc l ↔ y ∈ l := by
  induction l with
  | nil => simp [sortDesc]
  | cons x xs ih =>
    simp only [sortDesc, List.foldr_cons] at ih ⊢
    rw [mem_insertDesc, ih]; simp

theorem insertDesc_pairwise (x : Nat) (l : List Nat) (h : l.Pairwise (· ≥ ·)) : (insertDesc x l).Pairwise (· ≥ ·) := by
  induction l with
  | nil => simp [insertDesc]
  | cons z zs ih =>
    rw [List.pairwise_cons] at h
    simp only [insertDesc]
    split
    · rename_i hzx
      refine List.pairwise_cons.mpr ⟨?_, List.pairwise_cons.mpr h⟩
      intro a ha
      simp only [List.mem_cons] at ha
      rcases ha with rfl | ha
      · exact hzx
      · have := h.1 a ha; simp only [ge_iff_le] at this ⊢; omega
    · rename_i hzx
      refine List.pairwise_cons.mpr ⟨?_, ih h.2⟩
      intro a ha
      rw [mem_insertDesc] at ha
      rcases ha with rfl | ha
      · simp only [ge_iff_le]; omega
      · exact h.1 a ha

theorem sortDesc_pairwise (l : List Nat) : (sortDesc l).Pairwise (· ≥ ·) := by
  induction l with
  | nil => simp [sortDesc]
  | cons x xs ih =>
    simp only [sortDesc, List.foldr_cons] at ih ⊢
    exact insertDesc_pairwise x _ ih

end Cutadapt.Index
