import Cutadapt.Spec.Chunks
/-! Pigeonhole argument for edit scripts (C07): more chunks than errors ⇒ one chunk is copied without error. -/
namespace Cutadapt.Spec
open Cutadapt

theorem indels_append (s t : List Op) : indels (s ++ t) = indels s + indels t := by simp [indels]

theorem split_lhs (sc : List Op) (x y : List Sym) (h : lhs sc = x ++ y) :
    ∃ s1 s2, sc = s1 ++ s2 ∧ lhs s1 = x ∧ lhs s2 = y := by
  induction sc generalizing x with
  | nil =>
    simp at h
    exact ⟨[], [], rfl, by simp [h.1], by simp [h.2]⟩
  | cons o sc ih =>
    cases x with
    | nil => exact ⟨[], o :: sc, rfl, rfl, by simpa using h⟩
    | cons a x' =>
      cases o with
      | sub r q =>
        simp [Op.lhs] at h
        obtain ⟨s1, s2, h1, h2, h3⟩ := ih x' h.2
        exact ⟨.sub r q :: s1, s2, by simp [h1], by simp [Op.lhs, h2, h.1], h3⟩
      | del r =>
        simp [Op.lhs] at h
        obtain ⟨s1, s2, h1, h2, h3⟩ := ih x' h.2
        exact ⟨.del r :: s1, s2, by simp [h1], by simp [Op.lhs, h2, h.1], h3⟩
      | ins q =>
        simp [Op.lhs] at h
        obtain ⟨s1, s2, h1, h2, h3⟩ := ih (a :: x') (by simpa using h)
        exact ⟨.ins q :: s1, s2, by simp [h1], by simp [Op.lhs, h2], h3⟩

/-- pigeonhole on the chunks of the adapter side: more chunks than cost ⇒ some chunk is spelled by a zero-cost piece -/
theorem pigeonhole_split (eq : Sym → Sym → Bool) (c : Nat) (cs : List (List Sym)) (sc : List Op)
    (h : lhs sc = cs.flatten) (hc : cost eq c sc < cs.length) :
    ∃ j ch pre mid post, cs[j]? = some ch ∧ sc = pre ++ mid ++ post ∧ lhs pre = (cs.take j).flatten ∧
      lhs mid = ch ∧ cost eq c mid = 0 := by
  induction cs generalizing sc with
  | nil => simp at hc
  | cons ch rest ih =>
    obtain ⟨s1, s2, hsc, h1, h2⟩ := split_lhs sc ch rest.flatten (by simpa using h)
    by_cases hz : cost eq c s1 = 0
    · exact ⟨0, ch, [], s1, s2, by simp, by simp [hsc], by simp, h1, hz⟩
    · have hc2 : cost eq c s2 < rest.length := by
        rw [hsc, cost_append] at hc; simp at hc; omega
      obtain ⟨j, ch', pre, mid, post, hj, hs2, hpre, hmid, hcost⟩ := ih s2 h2 hc2
      refine ⟨j + 1, ch', s1 ++ pre, mid, post, by simpa using hj, by simp [hsc, hs2], ?_, hmid, hcost⟩
      simp [h1, hpre]

theorem zero_cost_pointwise (eq : Sym → Sym → Bool) (c : Nat) (hc : 1 ≤ c) (mid : List Op)
    (h : cost eq c mid = 0) :
    (rhs mid).length = (lhs mid).length ∧
      ∀ j, j < (lhs mid).length → ∃ a b, (lhs mid)[j]? = some a ∧ (rhs mid)[j]? = some b ∧ eq a b = true := by
  induction mid with
  | nil => simp
  | cons o mid ih =>
    rw [cost_cons] at h
    have h1 : o.cost eq c = 0 := by omega
    have h2 : cost eq c mid = 0 := by omega
    obtain ⟨ihl, ihp⟩ := ih h2
    cases o with
    | sub r q =>
      simp only [Op.cost] at h1
      have hrq : eq r q = true := by
        by_cases hh : eq r q = true
        · exact hh
        · rw [if_neg hh] at h1; omega
      refine ⟨by simp [Op.lhs, Op.rhs, ihl], ?_⟩
      intro j hj
      rcases Nat.eq_zero_or_pos j with hj0 | hj0
      · subst hj0; exact ⟨r, q, by simp [Op.lhs], by simp [Op.rhs], hrq⟩
      · simp [Op.lhs] at hj
        obtain ⟨a, b, ha, hb, hab⟩ := ihp (j - 1) (by omega)
        have e : j = (j - 1) + 1 := by omega
        refine ⟨a, b, ?_, ?_, hab⟩
        · rw [e]; simpa [Op.lhs] using ha
        · rw [e]; simpa [Op.rhs] using hb
    | del r => simp only [Op.cost] at h1; omega
    | ins q => simp only [Op.cost] at h1; omega

theorem length_diff_le_indels (s : List Op) :
    (lhs s).length ≤ (rhs s).length + indels s ∧ (rhs s).length ≤ (lhs s).length + indels s := by
  induction s with
  | nil => simp [indels]
  | cons o s ih =>
    have h0 : indels (o :: s) = indels [o] + indels s := indels_append [o] s
    cases o with
    | sub r q =>
      have h1 : indels [Op.sub r q] = 0 := rfl
      simp only [lhs_cons, rhs_cons, Op.lhs, Op.rhs, List.length_append, List.length_cons, List.length_nil]
      omega
    | del r =>
      have h1 : indels [Op.del r] = 1 := rfl
      simp only [lhs_cons, rhs_cons, Op.lhs, Op.rhs, List.length_append, List.length_cons, List.length_nil]
      omega
    | ins q =>
      have h1 : indels [Op.ins q] = 1 := rfl
      simp only [lhs_cons, rhs_cons, Op.lhs, Op.rhs, List.length_append, List.length_cons, List.length_nil]
      omega

/-- **Pigeonhole for edit scripts.** If a script with adapter side `lhs sc` costs at most `e` (indel cost at least 1)
    and `lhs sc` is cut into `e + 1` consecutive chunks, then some chunk is consumed entirely by zero-cost `sub`
    operations; hence it occurs, under the relation `eq`, in the read side `rhs sc`, at an offset that differs from its
    offset in `lhs sc` by at most the number of indels of the script. -/
theorem pigeonhole_script (eq : Sym → Sym → Bool) (c : Nat) (hc : 1 ≤ c) (sc : List Op) (e : Nat)
    (hcost : cost eq c sc ≤ e) (cs : List (List Sym)) (hcs : cs.flatten = lhs sc) (hlen : cs.length = e + 1) :
    ∃ j ch o', cs[j]? = some ch ∧ OccursAt eq ch (rhs sc) o' ∧
      o' ≤ (cs.take j).flatten.length + indels sc ∧ (cs.take j).flatten.length ≤ o' + indels sc := by
  obtain ⟨j, ch, pre, mid, post, hj, hsc, hpre, hmid, hz⟩ :=
    pigeonhole_split eq c cs sc hcs.symm (by omega)
  obtain ⟨hl, hp⟩ := zero_cost_pointwise eq c hc mid hz
  have hd := length_diff_le_indels pre
  have hi : indels pre ≤ indels sc := by rw [hsc, indels_append, indels_append]; omega
  rw [hmid] at hl hp
  refine ⟨j, ch, (rhs pre).length, hj, ⟨?_, ?_⟩, ?_, ?_⟩
  · rw [hsc]; simp; omega
  · intro i hi
    obtain ⟨a, b, ha, hb, hab⟩ := hp i hi
    refine ⟨a, b, ha, ?_, hab⟩
    rw [hsc, rhs_append, rhs_append, List.append_assoc, List.getElem?_append_right (by omega)]
    have : (rhs pre).length + i - (rhs pre).length = i := by omega
    rw [this, List.getElem?_append_left (by omega)]; exact hb
  · rw [← hpre]; omega
  · rw [← hpre]; omega

end Cutadapt.Spec
