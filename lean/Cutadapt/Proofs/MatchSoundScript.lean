import Cutadapt.Align
import Cutadapt.Spec.Occurrence
/-! C01, part 2: transporting edit scripts (through encodings, through reversal), segments, effective length,
    Hamming distance. -/
namespace Cutadapt.MatchSound
open Cutadapt Cutadapt.Align Cutadapt.Spec Cutadapt.Generated

/-! ### segments -/

theorem seg_map (f : α → β) (xs : List α) (a b : Nat) : seg (xs.map f) a b = (seg xs a b).map f := by
  simp [seg, List.map_take, List.map_drop]

theorem seg_reverse (xs : List α) (a b : Nat) (hab : a ≤ b) (hb : b ≤ xs.length) :
    seg xs.reverse a b = (seg xs (xs.length - b) (xs.length - a)).reverse := by
  unfold seg
  rw [List.take_reverse, List.drop_reverse, List.drop_take]
  congr 1
  simp only [List.length_drop]
  congr 1
  omega

theorem seg_length' (xs : List α) (a b : Nat) (hb : b ≤ xs.length) : (seg xs a b).length = b - a := by
  rw [seg_length]; omega

theorem mem_of_mem_seg {xs : List α} {a b : Nat} {x : α} (h : x ∈ seg xs a b) : x ∈ xs :=
  List.mem_of_mem_take (List.mem_of_mem_drop h)

/-! ### scripts through encodings -/

theorem script_unmap (f g : Sym → Sym) : ∀ (s : List Op) (xs ys : List Sym),
    lhs s = xs.map f → rhs s = ys.map g →
    ∃ s', lhs s' = xs ∧ rhs s' = ys ∧
      ∀ (eq eq' : Sym → Sym → Bool) (c : Nat), (∀ x ∈ xs, ∀ y, eq' x y = eq (f x) (g y)) →
        cost eq' c s' = cost eq c s
  | [], xs, ys, hl, hr => by
    have hx : xs = [] := by simpa using hl.symm
    have hy : ys = [] := by simpa using hr.symm
    subst hx hy
    exact ⟨[], rfl, rfl, fun _ _ _ _ => rfl⟩
  | .sub r q :: s, xs, ys, hl, hr => by
    simp only [lhs_cons, rhs_cons, Op.lhs, Op.rhs, List.singleton_append] at hl hr
    match xs, ys, hl, hr with
    | x :: xs, y :: ys, hl, hr =>
      simp only [List.map_cons, List.cons.injEq] at hl hr
      obtain ⟨s', h1, h2, h3⟩ := script_unmap f g s xs ys hl.2 hr.2
      refine ⟨.sub x y :: s', by simp [h1, Op.lhs], by simp [h2, Op.rhs], ?_⟩
      intro eq eq' c hrel
      simp only [cost_cons, Op.cost]
      rw [h3 eq eq' c (fun x' hx' => hrel x' (List.mem_cons_of_mem _ hx')), hrel x (List.mem_cons_self ..) y,
        hl.1, hr.1]
  | .del r :: s, xs, ys, hl, hr => by
    simp only [lhs_cons, rhs_cons, Op.lhs, Op.rhs, List.singleton_append, List.nil_append] at hl hr
    match xs, hl with
    | x :: xs, hl =>
      simp only [List.map_cons, List.cons.injEq] at hl
      obtain ⟨s', h1, h2, h3⟩ := script_unmap f g s xs ys hl.2 hr
      refine ⟨.del x :: s', by simp [h1, Op.lhs], by simp [h2, Op.rhs], ?_⟩
      intro eq eq' c hrel
      simp only [cost_cons, Op.cost]
      rw [h3 eq eq' c (fun x' hx' => hrel x' (List.mem_cons_of_mem _ hx'))]
  | .ins q :: s, xs, ys, hl, hr => by
    simp only [lhs_cons, rhs_cons, Op.lhs, Op.rhs, List.singleton_append, List.nil_append] at hl hr
    match ys, hr with
    | y :: ys, hr =>
      simp only [List.map_cons, List.cons.injEq] at hr
      obtain ⟨s', h1, h2, h3⟩ := script_unmap f g s xs ys hl hr.2
      refine ⟨.ins y :: s', by simp [h1, Op.lhs], by simp [h2, Op.rhs], ?_⟩
      intro eq eq' c hrel
      simp only [cost_cons, Op.cost]
      rw [h3 eq eq' c hrel]

/-! ### scripts through reversal -/

theorem lhs_reverse : ∀ (s : List Op), lhs s.reverse = (lhs s).reverse
  | [] => rfl
  | o :: s => by
    rw [List.reverse_cons, lhs_append, lhs_reverse s]
    cases o <;> simp [Op.lhs]

theorem rhs_reverse : ∀ (s : List Op), rhs s.reverse = (rhs s).reverse
  | [] => rfl
  | o :: s => by
    rw [List.reverse_cons, rhs_append, rhs_reverse s]
    cases o <;> simp [Op.rhs]

theorem cost_reverse (eq : Sym → Sym → Bool) (c : Nat) : ∀ (s : List Op), cost eq c s.reverse = cost eq c s
  | [] => rfl
  | o :: s => by
    rw [List.reverse_cons, cost_append, cost_reverse eq c s, cost_single, cost_cons, Nat.add_comm]

/-! ### effective length -/

theorem filter_split (p : α → Bool) : ∀ (l : List α), (l.filter p).length + (l.filter (fun x => !p x)).length = l.length
  | [] => rfl
  | x :: l => by
    have := filter_split p l
    by_cases h : p x = true <;> simp [h] <;> omega

theorem nCount_split (ref : List UInt8) (a b : Nat) (hab : a ≤ b) :
    nCount ref b = nCount ref a + ((seg ref a b).filter isN).length := by
  unfold nCount seg
  have h1 : ref.take a = (ref.take b).take a := by rw [List.take_take]; congr 1; omega
  rw [h1, ← List.length_append, ← List.filter_append, List.take_append_drop]

theorem spec_effLen_eq (aw : Bool) (ref : List UInt8) (a b : Nat) (hab : a ≤ b) (hb : b ≤ ref.length) :
    Spec.effLen aw ref a b = if aw then (b - a) - (nCount ref b - nCount ref a) else b - a := by
  unfold Spec.effLen
  split
  · have h1 := filter_split isN (seg ref a b)
    have h2 := nCount_split ref a b hab
    have h3 := seg_length' ref a b hb
    have h4 : (seg ref a b).filter (fun c => !(c == 78 || c == 110)) = (seg ref a b).filter (fun x => !isN x) := rfl
    rw [h4]; omega
  · rfl

/-- the model's effective length (prefix counts of N) is the documented one -/
theorem align_effLen_eq (cfg : Cfg) (ref : List UInt8) (a b : Nat) (hab : a ≤ b) (hb : b ≤ ref.length) :
    Align.effLen cfg ref ref.length a b (b - a) = Spec.effLen cfg.wildRef ref a b := by
  rw [spec_effLen_eq _ _ _ _ hab hb]
  unfold Align.effLen
  split
  · split
    · rfl
    · have ha : a = 0 := by omega
      have hb' : b = ref.length := by omega
      subst ha hb'
      have : nCount ref 0 = 0 := by simp [nCount]
      omega
  · rfl

theorem spec_effLen_reverse (aw : Bool) (ref : List UInt8) (a b : Nat) (hab : a ≤ b) (hb : b ≤ ref.length) :
    Spec.effLen aw ref.reverse a b = Spec.effLen aw ref (ref.length - b) (ref.length - a) := by
  unfold Spec.effLen
  split
  · rw [seg_reverse _ _ _ hab hb, List.filter_reverse, List.length_reverse]
  · omega

theorem spec_effLen_le (aw : Bool) (seq : List UInt8) (a b : Nat) (hb : b ≤ seq.length) :
    Spec.effLen aw seq a b ≤ b - a := by
  unfold Spec.effLen
  split
  · exact Nat.le_trans (List.length_filter_le _ _) (Nat.le_of_eq (seg_length' _ _ _ hb))
  · exact Nat.le_refl _

/-! ### Hamming distance -/

theorem mismatches_map (ascii : Bool) (f g : Sym → Sym) (eq : Sym → Sym → Bool)
    (hrel : ∀ x y, eq x y = charsEqual ascii (f x) (g y)) : ∀ (xs ys : List Sym),
    mismatches ascii (xs.map f) (ys.map g) = hamming eq xs ys
  | [], _ => by simp [mismatches, hamming]
  | _ :: _, [] => by simp [mismatches, hamming]
  | x :: xs, y :: ys => by
    simp only [List.map_cons, mismatches, hamming, hrel, mismatches_map ascii f g eq hrel xs ys]

theorem sub_script (eq : Sym → Sym → Bool) (c : Nat) : ∀ (xs ys : List Sym), xs.length = ys.length →
    ∃ s, lhs s = xs ∧ rhs s = ys ∧ cost eq c s = hamming eq xs ys
  | [], [], _ => ⟨[], rfl, rfl, rfl⟩
  | [], _ :: _, h => by simp at h
  | _ :: _, [], h => by simp at h
  | x :: xs, y :: ys, h => by
    obtain ⟨s, h1, h2, h3⟩ := sub_script eq c xs ys (by simpa using h)
    exact ⟨.sub x y :: s, by simp [h1, Op.lhs], by simp [h2, Op.rhs], by simp [h3, Op.cost, hamming]⟩

/-- a script cheaper than one indel consists of aligned pairs only -/
theorem no_indel_script (eq : Sym → Sym → Bool) (c : Nat) : ∀ (s : List Op), cost eq c s < c →
    (lhs s).length = (rhs s).length ∧ hamming eq (lhs s) (rhs s) = cost eq c s
  | [], _ => ⟨rfl, rfl⟩
  | .sub r q :: s, h => by
    simp only [cost_cons, Op.cost] at h
    obtain ⟨h1, h2⟩ := no_indel_script eq c s (by omega)
    simp [Op.lhs, Op.rhs, Op.cost, hamming, h1, h2]
  | .del r :: s, h => by simp only [cost_cons, Op.cost] at h; omega
  | .ins q :: s, h => by simp only [cost_cons, Op.cost] at h; omega

theorem hamming_le_of_length (eq : Sym → Sym → Bool) : ∀ (xs ys : List Sym), hamming eq xs ys ≤ xs.length
  | [], _ => by simp [hamming]
  | _ :: _, [] => by simp [hamming]
  | x :: xs, y :: ys => by
    have := hamming_le_of_length eq xs ys
    simp only [hamming, List.length_cons]; split <;> omega

end Cutadapt.MatchSound
