import Cutadapt.Proofs.ModsPaired
import Cutadapt.Stats
/-! The rows of the info file (`InfoFileWriter`), written as a recursion over the parts of the matches. Core Lean only. -/
namespace Cutadapt
open Cutadapt.Adapters Cutadapt.Qualtrim

/-- the parts of a match together with the adapter-name field of their info rows (`;1` / `;2` for linked adapters) -/
def AnyMatch.labelledParts (names : Names) (m : AnyMatch) : List (MatchRec × Bytes) :=
  match m with
  | .single a r => [(r, bytesOfStr (names.getD a ""))]
  | .linked a f b =>
    f.toList.map (fun p => (p, bytesOfStr (names.getD a "") ++ bytesOfStr ";1")) ++
    b.toList.map (fun p => (p, bytesOfStr (names.getD a "") ++ bytesOfStr ";2"))

theorem AnyMatch.labelledParts_fst (names : Names) (m : AnyMatch) : (m.labelledParts names).map (·.1) = m.parts := by
  cases m with
  | single a r => rfl
  | linked a f b => cases f <;> cases b <;> rfl

/-- the rows (as lists of fields) for a list of labelled parts, starting from the read `cur` -/
def rowFieldsOf (name rcf : Bytes) : Read → List (MatchRec × Bytes) → List (List Bytes)
  | _, [] => []
  | cur, (p, nm) :: rest => (name :: infoFields p cur nm ++ [rcf]) :: rowFieldsOf name rcf (p.trimmed cur) rest

theorem rowFieldsOf_append (name rcf : Bytes) (cur : Read) (ps qs : List (MatchRec × Bytes)) :
    rowFieldsOf name rcf cur (ps ++ qs) =
      rowFieldsOf name rcf cur ps ++ rowFieldsOf name rcf (trimParts cur (ps.map (·.1))) qs := by
  induction ps generalizing cur with
  | nil => rfl
  | cons p ps ih => obtain ⟨p, nm⟩ := p; simp [rowFieldsOf, ih]

theorem rowFieldsOf_length (name rcf : Bytes) (cur : Read) (ps : List (MatchRec × Bytes)) :
    (rowFieldsOf name rcf cur ps).length = ps.length := by
  induction ps generalizing cur with
  | nil => rfl
  | cons p ps ih => obtain ⟨p, nm⟩ := p; simp [rowFieldsOf, ih]

theorem rowFieldsOf_getElem? (name rcf : Bytes) (cur : Read) (ps : List (MatchRec × Bytes)) (k : Nat) :
    (rowFieldsOf name rcf cur ps)[k]? =
      (ps[k]?).map (fun pn => name :: infoFields pn.1 (trimParts cur ((ps.take k).map (·.1))) pn.2 ++ [rcf]) := by
  induction ps generalizing cur k with
  | nil => simp [rowFieldsOf]
  | cons p ps ih =>
    obtain ⟨p, nm⟩ := p
    cases k with
    | zero => simp [rowFieldsOf]
    | succ k => simp [rowFieldsOf, ih]

/-- the read whose pieces the info rows show first: the original read, reverse-complemented if flagged -/
def infoStart (info : Info) : Read := if info.isRc == some true then info.original.revcomp else info.original

/-- the info rows of a read with matches, before joining the fields with tabs -/
def infoRowFields (names : Names) (read : Read) (info : Info) : List (List Bytes) :=
  rowFieldsOf read.name (rcField info.isRc) (infoStart info) (info.mts.flatMap (AnyMatch.labelledParts names))

theorem infoRows_fold (names : Names) (name rcf : Bytes) (ms : List AnyMatch) (cur : Read) (rows : List Bytes) :
    ms.foldl (fun (acc : Read × List Bytes) (m : AnyMatch) =>
      let (cur, rows) := acc
      let nm := bytesOfStr (names.getD m.adapter "")
      let new := match m with
        | .single _ r => [joinTab (name :: infoFields r cur nm ++ [rcf])]
        | .linked _ f b =>
          let r1 := match f with
            | some fm => [joinTab (name :: infoFields fm cur (nm ++ bytesOfStr ";1") ++ [rcf])]
            | none => []
          let cur' := match f with | some fm => fm.trimmed cur | none => cur
          let r2 := match b with
            | some bm => [joinTab (name :: infoFields bm cur' (nm ++ bytesOfStr ";2") ++ [rcf])]
            | none => []
          r1 ++ r2
      (m.trimmed cur, rows ++ new)) (cur, rows) =
    (trimAll cur ms, rows ++ (rowFieldsOf name rcf cur (ms.flatMap (AnyMatch.labelledParts names))).map joinTab) := by
  induction ms generalizing cur rows with
  | nil => simp [rowFieldsOf]
  | cons m ms ih =>
    rw [List.foldl_cons]
    simp only
    rw [ih]
    rw [List.flatMap_cons, rowFieldsOf_append, AnyMatch.labelledParts_fst, ← AnyMatch.trimmed_eq_parts]
    simp only [trimAll_cons, List.map_append, ← List.append_assoc]
    congr 2
    cases m with
    | single a r => rfl
    | linked a f b => cases f <;> cases b <;> rfl

/-- **`InfoFileWriter`, read with matches**: one row per part of each match, in the order found -/
theorem infoRows_matched (names : Names) (read : Read) (info : Info) (h : info.mts ≠ []) :
    infoRows names read info = (infoRowFields names read info).map joinTab := by
  have he : info.mts.isEmpty = false := by cases hm : info.mts <;> simp_all
  have key := infoRows_fold names read.name (rcField info.isRc) info.mts (infoStart info) []
  unfold infoRows
  rw [if_neg (by simp [he])]
  exact (congrArg Prod.snd key).trans (by simp [infoRowFields])

theorem infoRows_unmatched (names : Names) (read : Read) (info : Info) (h : info.mts = []) :
    infoRows names read info = [joinTab [read.name, bytesOfStr "-1", read.seq, read.qual.getD []]] := by
  unfold infoRows; rw [h]; rfl

/-! ### Matches the pipeline records come from `rounds` -/

theorem matchAndTrim_matches (c : Cutter) (read tr ra : Read) (ms : List AnyMatch)
    (h : matchAndTrim c read = .ok (tr, ms, ra)) :
    ms = (rounds c.adapters c.times (searchRead c read) []).2 ∧ ra = searchRead c read := by
  refine ⟨?_, matchAndTrim_readAfter c read tr ra ms h⟩
  rcases getLast?_cases (rounds c.adapters c.times (searchRead c read) []).2 with hn | ⟨last, hl⟩
  · rw [matchAndTrim_no_match c read hn] at h
    simp only [Except.ok.injEq, Prod.mk.injEq] at h
    rw [hn]; exact h.2.1.symm
  · rw [matchAndTrim_last c read last hl] at h
    unfold actionResult at h
    cases hact : c.action <;> simp only [hact] at h
    case crop =>
      cases last with
      | single _ r => simp only [Except.ok.injEq, Prod.mk.injEq] at h; exact h.2.1.symm
      | linked _ _ _ => simp at h
    all_goals (simp only [Except.ok.injEq, Prod.mk.injEq] at h; exact h.2.1.symm)

theorem matchAndTrim_parts (c : Cutter) (read tr ra : Read) (ms : List AnyMatch)
    (h : matchAndTrim c read = .ok (tr, ms, ra)) : (∀ m ∈ ms, m.parts ≠ []) ∧ MatchChain (searchRead c read) ms := by
  obtain ⟨rfl, _⟩ := matchAndTrim_matches c read tr ra ms h
  obtain ⟨h1, h2, _⟩ := rounds_chain c.adapters c.times (searchRead c read)
  exact ⟨h1, h2⟩

/-- every match a single-end modifier appends has at least one part -/
theorem applyS_parts (names : Names) (side : Nat) (m : SMod) (r r' : Read) (i i' : Info) (evs : List Event)
    (hi : ∀ x ∈ i.mts, x.parts ≠ []) (h : applyS names side m r i = .ok (r', i', evs)) : ∀ x ∈ i'.mts, x.parts ≠ [] := by
  by_cases ht : m.isTrimmer = true
  · -- trimmers leave the matches alone (the `QualOK` hypothesis of `applyS_trimmer` is not needed for that part)
    cases m with
    | cut n =>
      simp only [applyS] at h
      split at h
      · simp only [Except.ok.injEq, Prod.mk.injEq] at h; obtain ⟨_, rfl, _⟩ := h; exact hi
      · split at h
        · simp only [Except.ok.injEq, Prod.mk.injEq] at h; obtain ⟨_, rfl, _⟩ := h; exact hi
        · simp at h
    | nextseq _ _ =>
      simp only [applyS] at h
      split at h
      · simp at h
      · simp only [Except.ok.injEq, Prod.mk.injEq] at h; obtain ⟨_, rfl, _⟩ := h; exact hi
    | qtrim _ _ _ =>
      simp only [applyS] at h
      split at h
      · simp at h
      · simp only [Except.ok.injEq, Prod.mk.injEq] at h; obtain ⟨_, rfl, _⟩ := h; exact hi
    | polyA _ =>
      simp only [applyS] at h
      split at h <;> (simp only [Except.ok.injEq, Prod.mk.injEq] at h; obtain ⟨_, rfl, _⟩ := h; exact hi)
    | shorten _ =>
      simp only [applyS] at h
      split at h <;> (simp only [Except.ok.injEq, Prod.mk.injEq] at h; obtain ⟨_, rfl, _⟩ := h; exact hi)
    | trimN => simp only [applyS, Except.ok.injEq, Prod.mk.injEq] at h; obtain ⟨_, rfl, _⟩ := h; exact hi
    | _ => simp [SMod.isTrimmer] at ht
  by_cases hn : m.isNameMod = true
  · rw [(applyS_nameMod names side m hn r r' i i' evs h).2.2.1]; exact hi
  cases m with
  | zeroCap base => rw [(applyS_zeroCap names side base r r' i i' evs h).2.2.2.1]; exact hi
  | adapters c first =>
    rw [applyS_adapters] at h
    split at h
    · simp at h
    · rename_i tr ms ra hmt
      simp only [Except.ok.injEq, Prod.mk.injEq] at h
      obtain ⟨_, rfl, _⟩ := h
      intro x hx
      simp only [originalAfter_mts, List.mem_append] at hx
      rcases hx with hx | hx
      · exact hi x hx
      · exact (matchAndTrim_parts c r tr ra ms hmt).1 x hx
  | revcomp c sfx first =>
    rw [applyS_revcomp] at h
    split at h
    · simp at h
    · rename_i ftr fms fa hf
      split at h
      · simp at h
      · rename_i rtr rms ra' hr
        split at h
        · simp only [Except.ok.injEq, Prod.mk.injEq] at h
          obtain ⟨_, rfl, _⟩ := h
          intro x hx
          simp only [originalAfter_mts, List.mem_append] at hx
          rcases hx with hx | hx
          · exact hi x hx
          · exact (matchAndTrim_parts c _ _ _ _ hr).1 x hx
        · simp only [Except.ok.injEq, Prod.mk.injEq] at h
          obtain ⟨_, rfl, _⟩ := h
          intro x hx
          simp only [originalAfter_mts, List.mem_append] at hx
          rcases hx with hx | hx
          · exact hi x hx
          · exact (matchAndTrim_parts c _ _ _ _ hf).1 x hx
  | _ => first | exact absurd rfl ht | exact absurd rfl hn

theorem runModsS_parts (names : Names) (mods : List SMod) (r r' : Read) (i i' : Info) (evs evs' : List Event)
    (hi : ∀ x ∈ i.mts, x.parts ≠ []) (h : runModsS names mods r i evs = .ok (r', i', evs')) :
    ∀ x ∈ i'.mts, x.parts ≠ [] := by
  induction mods generalizing r i evs with
  | nil => simp only [runModsS, Except.ok.injEq, Prod.mk.injEq] at h; obtain ⟨_, rfl, _⟩ := h; exact hi
  | cons m ms ih =>
    simp only [runModsS] at h
    split at h
    · simp at h
    · rename_i r1 i1 e1 h1
      exact ih r1 i1 _ (applyS_parts names 0 m r r1 i i1 e1 hi h1) h

/-! ### Steps -/

def Step.isFilter : Step → Bool
  | .filter _ _ _ _ => true
  | _ => false

/-- steps that never consume a read: the three text-file writers -/
def Step.isTextWriter : Step → Bool
  | .restWriter _ | .infoWriter _ | .wildcardWriter _ => true
  | _ => false

theorem stepS_textWriter (ads : List Matchable) (idx : Nat) (s : Step) (hs : s.isTextWriter = true) (read : Read)
    (info : Info) (res : Option Read) (evs : List Event) (h : stepS ads idx s read info = .ok (res, evs)) :
    res = some read := by
  cases s with
  | restWriter f =>
    simp only [stepS] at h
    split at h
    · simp only [Except.ok.injEq, Prod.mk.injEq] at h; exact h.1.symm
    · split at h <;> (simp only [Except.ok.injEq, Prod.mk.injEq] at h; exact h.1.symm)
    · simp at h
  | infoWriter f => simp only [stepS, Except.ok.injEq, Prod.mk.injEq] at h; exact h.1.symm
  | wildcardWriter f =>
    simp only [stepS] at h
    split at h
    · simp only [Except.ok.injEq, Prod.mk.injEq] at h; exact h.1.symm
    · simp only [Except.ok.injEq, Prod.mk.injEq] at h; exact h.1.symm
    · simp at h
  | _ => simp [Step.isTextWriter] at hs

theorem runStepsS_acc (ads : List Matchable) (steps : List Step) (idx : Nat) (r : Read) (i : Info) (evs out : List Event)
    (h : runStepsS ads steps idx r i evs = .ok out) : ∃ tail, out = evs ++ tail := by
  induction steps generalizing idx r evs with
  | nil => simp only [runStepsS, Except.ok.injEq] at h; exact ⟨[], by simp [h]⟩
  | cons s ss ih =>
    simp only [runStepsS] at h
    split at h
    · simp at h
    · simp only [Except.ok.injEq] at h; exact ⟨_, h.symm⟩
    · obtain ⟨tail, ht⟩ := ih _ _ _ h
      exact ⟨_, by rw [ht, List.append_assoc]⟩

/-- if only text writers precede the info writer in the step list, every read that is processed without error gets
    its info rows, whatever the later steps (filters, sinks) do with it -/
theorem runStepsS_info_rows (ads : List Matchable) (pre post : List Step) (f : Nat)
    (hpre : ∀ s ∈ pre, s.isTextWriter = true) (idx : Nat) (r : Read) (i : Info) (evs out : List Event)
    (h : runStepsS ads (pre ++ Step.infoWriter f :: post) idx r i evs = .ok out) :
    ∀ row ∈ infoRows (namesOf ads) r i, Event.text f row ∈ out := by
  induction pre generalizing idx evs with
  | nil =>
    simp only [List.nil_append, runStepsS, stepS] at h
    obtain ⟨tail, ht⟩ := runStepsS_acc _ _ _ _ _ _ _ h
    intro row hrow
    rw [ht]
    simp only [List.mem_append, List.mem_map]
    exact Or.inl (Or.inr ⟨row, hrow, rfl⟩)
  | cons s ss ih =>
    simp only [List.cons_append, runStepsS] at h
    split at h
    · simp at h
    · rename_i e' hs
      have := stepS_textWriter ads idx s (hpre s List.mem_cons_self) r i _ _ hs
      simp at this
    · rename_i r' e' hs
      have := stepS_textWriter ads idx s (hpre s List.mem_cons_self) r i _ _ hs
      simp only [Option.some.injEq] at this
      subst this
      exact ih (fun x hx => hpre x (List.mem_cons_of_mem _ hx)) _ _ h

end Cutadapt
