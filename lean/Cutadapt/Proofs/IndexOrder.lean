import Cutadapt.Proofs.IndexFold
namespace Cutadapt.Index
open Cutadapt Cutadapt.Adapters

/-- an offer with the adapter itself instead of its position in the list: `(adapter, key, errors, matches)` -/
abbrev ROffer := Adapter × Bytes × Nat × Nat

/-- all offers of `_make_index`, in order -/
def rEvents (adapters : List Adapter) : List ROffer :=
  adapters.flatMap (fun a => (adapterItems a).map (fun it => (a, it)))

def resolve (adapters : List Adapter) (ev : Ev) : ROffer := (adapters.getD ev.ai default, ev.key, ev.e, ev.m)

theorem events_resolve_aux (l : List Adapter) : ∀ (pre : List Adapter),
    ((l.zipIdx pre.length).flatMap adapterEvents).map (resolve (pre ++ l)) = rEvents l := by
  induction l with
  | nil => intro pre; simp [rEvents]
  | cons a l ih =>
    intro pre
    have h1 := ih (pre ++ [a])
    simp only [List.length_append, List.length_singleton, List.append_assoc, List.singleton_append] at h1
    simp only [List.zipIdx_cons, List.flatMap_cons, List.map_append, h1, rEvents]
    congr 1
    simp only [adapterEvents, List.map_map]
    apply List.map_congr_left
    intro it _
    simp [resolve, List.getD_eq_getElem?_getD]

theorem events_resolve (adapters : List Adapter) : (events adapters).map (resolve adapters) = rEvents adapters := by
  have := events_resolve_aux adapters []
  simpa [events] using this

def rForKey (s : Bytes) (l : List ROffer) : List ROffer := l.filter (fun x => x.2.1 == s)

theorem forKey_resolve (adapters : List Adapter) (s : Bytes) :
    (forKey s (events adapters)).map (resolve adapters) = rForKey s (rEvents adapters) := by
  rw [← events_resolve, rForKey, List.filter_map]
  rfl

/-- what the final index holds for `s`, with the adapter resolved -/
def finalEntry {D : Type} (ops : DictOps D) (adapters : List Adapter) (isPrefix : Bool) (s : Bytes) : Option (Adapter × Nat × Nat) :=
  (ops.get? (makeIndex ops adapters isPrefix).index s).map (fun en => (adapters.getD en.1 default, en.2))

/-- `x` is *the* best offer in `R`: no offer has more matches and no other offer has as many -/
def IsWinner (R : List ROffer) (x : ROffer) : Prop :=
  x ∈ R ∧ (∀ y ∈ R, y.2.2.2 ≤ x.2.2.2) ∧ (R.filter (fun y => y.2.2.2 == x.2.2.2)).length = 1

theorem isWinner_perm (R R' : List ROffer) (hp : R.Perm R') (x : ROffer) (h : IsWinner R x) : IsWinner R' x := by
  obtain ⟨h1, h2, h3⟩ := h
  refine ⟨(List.Perm.mem_iff hp).mp h1, fun y hy => h2 y ((List.Perm.mem_iff hp).mpr hy), ?_⟩
  rw [← List.Perm.length_eq (List.Perm.filter _ hp)]; exact h3

theorem cnt_resolve (adapters : List Adapter) (O : List Ev) (m : Nat) :
    ((O.map (resolve adapters)).filter (fun y => y.2.2.2 == m)).length = cntM O m := by
  rw [List.filter_map, List.length_map]
  rfl

/-- **The final index, declaratively**: it holds `(a, e, m)` for `s` exactly when `(a, s, e, m)` is the unique best
    offer for `s`. -/
theorem finalEntry_eq_some_iff {D : Type} (ops : DictOps D) (hl : ops.Lawful) (adapters : List Adapter) (isPrefix : Bool)
    (s : Bytes) (a : Adapter) (e m : Nat) :
    finalEntry ops adapters isPrefix s = some (a, e, m) ↔ IsWinner (rForKey s (rEvents adapters)) (a, s, e, m) := by
  have hfr := forKey_resolve adapters s
  have hfin := (makeIndex_get? ops hl adapters isPrefix s).2.2
  have hkey : ∀ ev ∈ forKey s (events adapters), ev.key = s := by
    intro ev hev; simpa using (List.mem_filter.mp hev).2
  constructor
  · intro h
    simp only [finalEntry, hfin] at h
    cases hks : (keyState (forKey s (events adapters))).1 with
    | none => simp [hks] at h
    | some en =>
      obtain ⟨ai, e', m'⟩ := en
      cases hb : (keyState (forKey s (events adapters))).2 with
      | true => simp [hb] at h
      | false =>
        simp only [hb, Bool.false_eq_true, if_false, hks, Option.map_some, Option.some.injEq, Prod.mk.injEq] at h
        obtain ⟨rfl, rfl, rfl⟩ := h
        obtain ⟨ev, hev, h1, h2, h3⟩ := keyState_mem _ ai e' m' hks
        have hmax := keyState_max _ ai e' m' hks
        have hamb := keyState_amb_iff _ ai e' m' hks
        have hpos : 1 ≤ cntM (forKey s (events adapters)) m' := by rw [← h3]; exact cntM_pos_of_mem _ ev hev
        have hcnt : cntM (forKey s (events adapters)) m' = 1 := by
          have : ¬ 2 ≤ cntM (forKey s (events adapters)) m' := fun h2' => by
            have := hamb.mpr h2'; rw [hb] at this; cases this
          omega
        rw [← hfr]
        refine ⟨List.mem_map.mpr ⟨ev, hev, by simp [resolve, h1, h2, h3, hkey ev hev]⟩, ?_, ?_⟩
        · intro y hy
          obtain ⟨ev', hev', rfl⟩ := List.mem_map.mp hy
          exact hmax ev' hev'
        · rw [cnt_resolve]; exact hcnt
  · rintro ⟨hmem, hmaxR, hcntR⟩
    rw [← hfr] at hmem hmaxR hcntR
    obtain ⟨evx, hevx, hrx⟩ := List.mem_map.mp hmem
    cases hks : (keyState (forKey s (events adapters))).1 with
    | none =>
      have := (keyState_none_iff _).mp hks
      rw [this] at hevx; simp at hevx
    | some en =>
      obtain ⟨ai, e', m'⟩ := en
      obtain ⟨ev, hev, h1, h2, h3⟩ := keyState_mem _ ai e' m' hks
      have hmax := keyState_max _ ai e' m' hks
      have hevR : resolve adapters ev ∈ (forKey s (events adapters)).map (resolve adapters) :=
        List.mem_map.mpr ⟨ev, hev, rfl⟩
      have hxm : evx.m = m := by
        have := congrArg (fun r : ROffer => r.2.2.2) hrx; simpa [resolve] using this
      have hmm : m' = m := by
        have a1 := hmaxR _ hevR
        have a2 := hmax evx hevx
        simp only [resolve] at a1
        omega
      subst hmm
      rw [cnt_resolve] at hcntR
      have hflag := keyState_flag_false_of_unique _ ai e' m' hks hcntR
      -- the entry, resolved, is in the one-element list of best offers, and so is x
      have hin1 : resolve adapters ev ∈ ((forKey s (events adapters)).map (resolve adapters)).filter (fun y => y.2.2.2 == m') :=
        List.mem_filter.mpr ⟨hevR, by simp [resolve, h3]⟩
      have hin2 : (a, s, e, m') ∈ ((forKey s (events adapters)).map (resolve adapters)).filter (fun y => y.2.2.2 == m') :=
        List.mem_filter.mpr ⟨hmem, by simp⟩
      have hlen1 : (((forKey s (events adapters)).map (resolve adapters)).filter (fun y => y.2.2.2 == m')).length = 1 := by
        rw [cnt_resolve]; exact hcntR
      have heq : resolve adapters ev = (a, s, e, m') := by
        obtain ⟨z, hF⟩ := List.length_eq_one_iff.mp hlen1
        rw [hF] at hin1 hin2
        simp only [List.mem_singleton] at hin1 hin2
        rw [hin1, hin2]
      simp only [resolve, Prod.mk.injEq] at heq
      obtain ⟨ha, _, he, _⟩ := heq
      simp only [finalEntry, hfin, hflag, Bool.false_eq_true, if_false, hks, Option.map_some]
      rw [← h1, ← h2, ha, he]

/-- **Order independence.** The final index holds the same adapter, errors and matches for every string under every
    order of the adapter list (and the same strings are absent). -/
theorem finalEntry_perm {D : Type} (ops : DictOps D) (hl : ops.Lawful) (as bs : List Adapter) (hp : as.Perm bs)
    (isPrefix : Bool) (s : Bytes) :
    finalEntry ops as isPrefix s = finalEntry ops bs isPrefix s := by
  have hperm : (rForKey s (rEvents as)).Perm (rForKey s (rEvents bs)) :=
    List.Perm.filter _ (List.Perm.flatMap_right _ hp)
  apply Option.ext
  rintro ⟨a, e, m⟩
  rw [finalEntry_eq_some_iff ops hl, finalEntry_eq_some_iff ops hl]
  exact ⟨isWinner_perm _ _ hperm _, isWinner_perm _ _ hperm.symm _⟩

end Cutadapt.Index
