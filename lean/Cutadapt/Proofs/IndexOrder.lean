import Cutadapt.Proofs.IndexFold
/-! `_make_index` does not depend on the order of the adapters for keys without ties. -/
namespace Cutadapt.Index
open Cutadapt Cutadapt.Adapters

/-- an offer with the adapter itself instead of its position in the list: `(adapter, key, errors, matches)` -/
abbrev ROffer := Adapter × Bytes × Nat × Nat

/-- all offers of `_make_index`, in order -/
def rEvents (adapters : List Adapter) : List ROffer :=
  adapters.flatMap (fun a => (adapterItems a).map (fun it => (a, it)))

def resolve (adapters : List Adapter) (ev : Ev) : ROffer := (adapters.getD ev.ai default, ev.key, ev.e, ev.m)

theorem events_resolve_aux (l : List Adapter) : ∀ (pre : List Adapter),
    ((l.zipIdx pre.length).flatMap adapterEvents).map (resolve (pre ++ l)) = rEvents l := by
  induction l with
  | nil => intro pre; simp [rEvents]
  | cons a l ih =>
    intro pre
    have h1 := ih (pre ++ [a])
    simp only [List.length_append, List.length_singleton, List.append_assoc, List.singleton_append] at h1
    simp only [List.zipIdx_cons, List.flatMap_cons, List.map_append, h1, rEvents]
    congr 1
    simp only [adapterEvents, List.map_map]
    apply List.map_congr_left
    intro it _
    simp [resolve, List.getD_eq_getElem?_getD]

theorem events_resolve (adapters : List Adapter) : (events adapters).map (resolve adapters) = rEvents adapters := by
  have := events_resolve_aux adapters []
  simpa [events] using this

def rForKey (s : Bytes) (l : List ROffer) : List ROffer := l.filter (fun x => x.2.1 == s)

theorem forKey_resolve (adapters : List Adapter) (s : Bytes) :
    (forKey s (events adapters)).map (resolve adapters) = rForKey s (rEvents adapters) := by
  rw [← events_resolve, rForKey, List.filter_map]
  rfl

theorem pairwise_inj {α β : Type} (f : α → β) (l : List α) (h : l.Pairwise (fun a b => f a ≠ f b))
    (a b : α) (ha : a ∈ l) (hb : b ∈ l) (hf : f a = f b) : a = b := by
  induction l with
  | nil => simp at ha
  | cons x l ih =>
    rw [List.pairwise_cons] at h
    simp only [List.mem_cons] at ha hb
    rcases ha with ha | ha <;> rcases hb with hb | hb
    · rw [ha, hb]
    · subst ha; exact absurd hf (h.1 b hb)
    · subst hb; exact absurd hf.symm (h.1 a ha)
    · exact ih h.2 ha hb

/-- what the final index holds for `s`, with the adapter resolved -/
def finalEntry {D : Type} (ops : DictOps D) (adapters : List Adapter) (isPrefix : Bool) (s : Bytes) : Option (Adapter × Nat × Nat) :=
  (ops.get? (makeIndex ops adapters isPrefix).index s).map (fun en => (adapters.getD en.1 default, en.2))

theorem finalEntry_noties {D : Type} (ops : DictOps D) (hl : ops.Lawful) (adapters : List Adapter) (isPrefix : Bool) (s : Bytes)
    (hnt : (rForKey s (rEvents adapters)).Pairwise (fun x y => x.2.2.2 ≠ y.2.2.2)) :
    (rForKey s (rEvents adapters) = [] ∧ finalEntry ops adapters isPrefix s = none) ∨
    ∃ a e m, finalEntry ops adapters isPrefix s = some (a, e, m) ∧ (a, s, e, m) ∈ rForKey s (rEvents adapters) ∧
      ∀ x ∈ rForKey s (rEvents adapters), x.2.2.2 ≤ m := by
  have hfr := forKey_resolve adapters s
  have hpw : (forKey s (events adapters)).Pairwise (fun a b => a.m ≠ b.m) := by
    rw [← hfr, List.pairwise_map] at hnt
    exact hnt
  have hamb := keyState_noties _ hpw
  have hfin := (makeIndex_get? ops hl adapters isPrefix s).2.2
  rw [hamb] at hfin
  simp only [Bool.false_eq_true, if_false] at hfin
  cases hks : (keyState (forKey s (events adapters))).1 with
  | none =>
    left
    have := (keyState_none_iff _).mp hks
    refine ⟨by rw [← hfr, this]; rfl, ?_⟩
    simp [finalEntry, hfin, hks]
  | some en =>
    right
    obtain ⟨ai, e, m⟩ := en
    obtain ⟨ev, hev, h1, h2, h3⟩ := keyState_mem _ ai e m hks
    have hkey : ev.key = s := by
      have := (List.mem_filter.mp hev).2
      simpa using this
    refine ⟨adapters.getD ai default, e, m, by simp [finalEntry, hfin, hks], ?_, ?_⟩
    · rw [← hfr]
      refine List.mem_map.mpr ⟨ev, hev, ?_⟩
      simp [resolve, h1, h2, h3, hkey]
    · intro x hx
      rw [← hfr] at hx
      obtain ⟨ev', hev', rfl⟩ := List.mem_map.mp hx
      exact keyState_max _ ai e m hks ev' hev'

/-- **Order independence for keys without ties.** If no two offers for the string `s` (over all adapters) have the same
    number of matches, the final index holds the same adapter, errors and matches for `s` under every order of the
    adapter list. -/
theorem finalEntry_perm {D : Type} (ops : DictOps D) (hl : ops.Lawful) (as bs : List Adapter) (hp : as.Perm bs)
    (isPrefix : Bool) (s : Bytes)
    (hnt : (rForKey s (rEvents as)).Pairwise (fun x y => x.2.2.2 ≠ y.2.2.2)) :
    finalEntry ops as isPrefix s = finalEntry ops bs isPrefix s := by
  have hperm : (rForKey s (rEvents as)).Perm (rForKey s (rEvents bs)) :=
    List.Perm.filter _ (List.Perm.flatMap_right _ hp)
  have hnt' : (rForKey s (rEvents bs)).Pairwise (fun x y => x.2.2.2 ≠ y.2.2.2) :=
    (List.Perm.pairwise_iff (fun {x y} (h : x.2.2.2 ≠ y.2.2.2) => Ne.symm h) hperm).mp hnt
  rcases finalEntry_noties ops hl as isPrefix s hnt with ⟨ha0, ha⟩ | ⟨a, e, m, ha, hma, hmaxa⟩ <;>
  rcases finalEntry_noties ops hl bs isPrefix s hnt' with ⟨hb0, hb⟩ | ⟨b, e', m', hb, hmb, hmaxb⟩
  · rw [ha, hb]
  · rw [ha0] at hperm
    have := List.Perm.mem_iff hperm |>.mpr hmb
    simp at this
  · rw [hb0] at hperm
    have := List.Perm.mem_iff hperm |>.mp hma
    simp at this
  · have hmb' : (b, s, e', m') ∈ rForKey s (rEvents as) := (List.Perm.mem_iff hperm).mpr hmb
    have hma' : (a, s, e, m) ∈ rForKey s (rEvents bs) := (List.Perm.mem_iff hperm).mp hma
    have h1 := hmaxa _ hmb'
    have h2 := hmaxb _ hma'
    simp only at h1 h2
    have hm : m = m' := by omega
    have := pairwise_inj (fun x : ROffer => x.2.2.2) _ hnt _ _ hma hmb' hm
    simp only [Prod.mk.injEq] at this
    obtain ⟨rfl, _, rfl, rfl⟩ := this
    rw [ha, hb]

end Cutadapt.Index
