import Cutadapt.Regroup
import Cutadapt.Proofs.ModsBounds
import Cutadapt.Properties.C03
/-! `AdapterCutter._regroup_into_indexed_adapters` (model: `Cutadapt/Regroup.lean`): what the default (index-using) adapter stage
    iterates over. Listed as obligations of C08 ("an adapter index changes only speed"). -/
namespace Cutadapt.C08
open Cutadapt Cutadapt.Adapters

/-- an entry is indexable only if it is a single adapter that `AdapterIndex` accepts -/
theorem indexableAs_some {p : Bool} {m : Matchable} {a : Adapter} (h : indexableAs p m = some a) :
    m = .single a ∧ Index.accept a p = true := by
  cases m with
  | single x =>
    simp only [indexableAs] at h
    split at h
    · rename_i hacc
      cases h
      exact ⟨rfl, hacc⟩
    · cases h
  | linked f b fr br n => simp [indexableAs] at h
  | indexed ix ids => simp [indexableAs] at h

/-- **Without at least two indexable adapters of one kind nothing is regrouped or re-ordered** -/
theorem regroup_noop (ads : List Matchable) (h1 : (splitAdapters ads).1.length ≤ 1) (h2 : (splitAdapters ads).2.1.length ≤ 1) :
    (regroup ads).ads = ads := by
  unfold regroup
  have c : ((splitAdapters ads).1.length > 1 || (splitAdapters ads).2.1.length > 1) = false := by
    simp only [Bool.or_eq_false_iff, decide_eq_false_iff_not]
    omega
  simp only [c, Bool.false_eq_true, if_false]

/-- members of the three lists of `_split_adapters` are entries of the given list -/
theorem mem_split_pre {ads : List Matchable} {a : Adapter} {j : Nat} (h : (a, j) ∈ (splitAdapters ads).1) :
    ads[j]? = some (.single a) ∧ Index.accept a true = true := by
  simp only [splitAdapters, List.mem_filterMap, Option.map_eq_some_iff] at h
  obtain ⟨⟨m, i⟩, hm, a', ha', heq⟩ := h
  simp only [Prod.mk.injEq] at heq
  obtain ⟨rfl, rfl⟩ := heq
  obtain ⟨rfl, hacc⟩ := indexableAs_some ha'
  exact ⟨(List.mem_zipIdx_iff_getElem?.mp hm), hacc⟩

theorem mem_split_suf {ads : List Matchable} {a : Adapter} {j : Nat} (h : (a, j) ∈ (splitAdapters ads).2.1) :
    ads[j]? = some (.single a) ∧ Index.accept a false = true := by
  simp only [splitAdapters, List.mem_filterMap] at h
  obtain ⟨⟨m, i⟩, hm, h2⟩ := h
  split at h2
  · cases h2
  · simp only [Option.map_eq_some_iff, Prod.mk.injEq] at h2
    obtain ⟨a', ha', rfl, rfl⟩ := h2
    obtain ⟨rfl, hacc⟩ := indexableAs_some ha'
    exact ⟨(List.mem_zipIdx_iff_getElem?.mp hm), hacc⟩

theorem mem_split_other {ads : List Matchable} {m : Matchable} {j : Nat} (h : (m, j) ∈ (splitAdapters ads).2.2) :
    ads[j]? = some m := by
  simp only [splitAdapters, List.mem_filter] at h
  exact List.mem_zipIdx_iff_getElem?.mp h.1

/-- **Every entry of the regrouped list is a given adapter, or an index built by `AdapterIndex` from given adapters that it accepts**
    (anchored 5' for the prefix index, anchored 3' for the suffix index) -/
theorem regroup_entries (ads : List Matchable) (m : Matchable) (h : m ∈ (regroup ads).ads) :
    m ∈ ads ∨ ∃ (isPrefix : Bool) (members : List Adapter) (ids : List Nat),
      m = .indexed (Index.makeIndex Index.hashOps members isPrefix) ids ∧ 2 ≤ members.length ∧
      ∀ a ∈ members, Matchable.single a ∈ ads ∧ Index.accept a isPrefix = true := by
  unfold regroup at h
  simp only at h
  split at h
  · simp only [List.map_append, List.mem_append, List.mem_map] at h
    rcases h with (⟨⟨e, o⟩, he, rfl⟩ | ⟨⟨e, o⟩, he, rfl⟩) | ⟨⟨e, o⟩, he, rfl⟩
    · obtain ⟨⟨m', j⟩, hm', heq⟩ := he
      simp only [Prod.mk.injEq] at heq
      obtain ⟨rfl, _⟩ := heq
      exact .inl (List.mem_of_getElem? (mem_split_other hm'))
    · split at he
      · rename_i hlen
        simp only [List.mem_singleton, Prod.mk.injEq] at he
        obtain ⟨rfl, _⟩ := he
        have hl : 2 ≤ ((splitAdapters ads).1.map (·.1)).length := by
          have : 1 < (splitAdapters ads).1.length := hlen
          rw [List.length_map]; omega
        refine .inr ⟨true, (splitAdapters ads).1.map (·.1), _, rfl, hl, ?_⟩
        intro a ha
        obtain ⟨⟨a', j⟩, hmem, rfl⟩ := List.mem_map.mp ha
        obtain ⟨hj, hacc⟩ := mem_split_pre hmem
        exact ⟨List.mem_of_getElem? hj, hacc⟩
      · obtain ⟨⟨a, j⟩, hmem, heq⟩ := List.mem_map.mp he
        simp only [Prod.mk.injEq] at heq
        obtain ⟨rfl, _⟩ := heq
        exact .inl (List.mem_of_getElem? (mem_split_pre hmem).1)
    · split at he
      · rename_i hlen
        simp only [List.mem_singleton, Prod.mk.injEq] at he
        obtain ⟨rfl, _⟩ := he
        have hl : 2 ≤ ((splitAdapters ads).2.1.map (·.1)).length := by
          have : 1 < (splitAdapters ads).2.1.length := hlen
          rw [List.length_map]; omega
        refine .inr ⟨false, (splitAdapters ads).2.1.map (·.1), _, rfl, hl, ?_⟩
        intro a ha
        obtain ⟨⟨a', j⟩, hmem, rfl⟩ := List.mem_map.mp ha
        obtain ⟨hj, hacc⟩ := mem_split_suf hmem
        exact ⟨List.mem_of_getElem? hj, hacc⟩
      · obtain ⟨⟨a, j⟩, hmem, heq⟩ := List.mem_map.mp he
        simp only [Prod.mk.injEq] at heq
        obtain ⟨rfl, _⟩ := heq
        exact .inl (List.mem_of_getElem? (mem_split_suf hmem).1)
  · exact .inl h

/-- **The regrouped list of well-formed adapters is well-formed** (`Matchable.WF`, the hypothesis under which C03's slice theorems and
    C01/C08's coordinate bounds apply): the pipeline theorems therefore cover cutadapt's default, index-using adapter stage.
    `hacgt`: adapters that `AdapterIndex` accepts consist of A, C, G, T (they have no wildcards; other literal characters would never
    match a key of the index). -/
theorem regroup_wf (ads : List Matchable) (hwf : ∀ m ∈ ads, m.WF)
    (hacgt : ∀ a p, Matchable.single a ∈ ads → Index.accept a p = true → IsACGT a.seq) :
    ∀ m ∈ (regroup ads).ads, m.WF := by
  intro m hm
  rcases regroup_entries ads m hm with h | ⟨p, members, ids, rfl, _, hmem⟩
  · exact hwf m h
  · refine ⟨rfl, fun a ha => ?_⟩
    obtain ⟨hin, hacc⟩ := hmem a ha
    exact ⟨hacgt a p hin hacc, hwf _ hin⟩

/-- **The default, index-using single-end pipeline writes (marked) slices** — C03's statement for what `cutadapt` runs when `--no-index`
    is not given: the modifiers are assembled over the regrouped adapter list, and for well-formed adapters the read that leaves them
    has the length of a slice of the input (of its reverse complement iff flagged) and carries exactly that slice of the qualities,
    whatever the `--action`. -/
theorem indexed_pipeline_marked_slice (o : Opts) (ads : List Matchable) (p : SinglePipeline) (f : Files) (rg : Regrouped)
    (hmk : makeSingleIndexed o ads = .ok (p, f, rg)) (hwf : ∀ m ∈ ads, m.WF)
    (hacgt : ∀ a q, Matchable.single a ∈ ads → Index.accept a q = true → IsACGT a.seq)
    (read r' : Read) (i' : Info) (evs evs' : List Event) (hq : QualOK read)
    (h : runModsS (namesOf p.ads) p.mods read { original := read } evs = .ok (r', i', evs')) :
    QualOK r' ∧
    SegRel false (if o.zeroCap then [o.qualityBase.toNat] else []) (if i'.isRc = some true then read.revcomp else read) r' := by
  unfold makeSingleIndexed at hmk
  simp only [bind, Except.bind, pure, Except.pure] at hmk
  split at hmk
  · cases hmk
  · split at hmk
    · cases hmk
    · rename_i st hst
      split at hmk
      · cases hmk
      · rename_i mods hmods
        simp only [Except.ok.injEq, Prod.mk.injEq] at hmk
        obtain ⟨rfl, -, -⟩ := hmk
        exact C03.cli_pipeline_marked_slice_for_sound_adapters o (regroup ads).ads mods hmods (regroup_wf ads hwf hacgt) read r' i' evs evs' hq h

/-! ## Regrouping is a rearrangement -/

theorem filterMap_map_snd {α β : Type} (l : List (α × Nat)) (g : α × Nat → Option β) :
    (l.filterMap (fun ai => (g ai).map (·, ai.2))).map (·.2) = (l.filter (fun ai => (g ai).isSome)).map (·.2) := by
  induction l with
  | nil => rfl
  | cons x xs ih =>
    simp only [List.filterMap_cons, List.filter_cons]
    cases h : g x <;> simp [ih]

theorem perm3_second {x : Nat} {A B C L : List Nat} (h : (A ++ B ++ C).Perm L) : (A ++ (x :: B ++ C)).Perm (x :: L) := by
  have : (A ++ (x :: B ++ C)).Perm (x :: (A ++ (B ++ C))) := by simpa using List.perm_middle (a := x) (l₁ := A) (l₂ := B ++ C)
  exact this.trans (List.Perm.cons _ (by simpa [List.append_assoc] using h))

theorem perm3_third {x : Nat} {A B C L : List Nat} (h : (A ++ B ++ C).Perm L) : (A ++ (B ++ x :: C)).Perm (x :: L) := by
  have : (A ++ (B ++ x :: C)).Perm (x :: (A ++ B ++ C)) := by
    simpa [List.append_assoc] using List.perm_middle (a := x) (l₁ := A ++ B) (l₂ := C)
  exact this.trans (List.Perm.cons _ h)

/-- `_split_adapters` is a partition: every position of the given list is in exactly one of the three lists -/
theorem split_positions_perm (ads : List Matchable) :
    ((splitAdapters ads).2.2.map (·.2) ++ (splitAdapters ads).1.map (·.2) ++ (splitAdapters ads).2.1.map (·.2)).Perm (List.range ads.length) := by
  have hz : ads.zipIdx.map (·.2) = List.range ads.length := by
    simp [List.zipIdx_map_snd, List.range_eq_range']
  rw [← hz]
  simp only [splitAdapters]
  rw [filterMap_map_snd]
  have h2 : ∀ l : List (Matchable × Nat),
      (l.filterMap (fun ai => if (indexableAs true ai.1).isSome then none else (indexableAs false ai.1).map (·, ai.2))).map (·.2)
      = (l.filter (fun ai => (indexableAs true ai.1).isNone && (indexableAs false ai.1).isSome)).map (·.2) := by
    intro l
    induction l with
    | nil => rfl
    | cons x xs ih =>
      simp only [List.filterMap_cons, List.filter_cons]
      cases h1 : indexableAs true x.1 <;> cases h2 : indexableAs false x.1 <;> simp [ih]
  rw [h2]
  generalize ads.zipIdx = l
  induction l with
  | nil => simp
  | cons x xs ih =>
    simp only [List.filter_cons]
    cases h1 : indexableAs true x.1 <;> cases h2 : indexableAs false x.1
    · simpa [h1, h2, List.append_assoc] using ih
    · simpa [h1, h2, List.append_assoc] using perm3_third (x := x.2) ih
    · simpa [h1, h2, List.append_assoc] using perm3_second (x := x.2) ih
    · simpa [h1, h2, List.append_assoc] using perm3_second (x := x.2) ih

theorem filterMap_id_map_some {α : Type} (l : List α) (f : α → Nat) : (l.map (fun p => some (f p))).filterMap id = l.map f := by
  induction l with
  | nil => rfl
  | cons x xs ih => simp [ih]

/-- **Regrouping loses and duplicates nothing**: the adapter numbers of the regrouped table (index objects themselves aside) refer to
    every adapter of the given list exactly once -/
theorem regroup_origin_perm (ads : List Matchable) : ((regroup ads).origin.filterMap id).Perm (List.range ads.length) := by
  have hp := split_positions_perm ads
  unfold regroup
  simp only
  split
  · by_cases c1 : (splitAdapters ads).1.length > 1 <;> by_cases c2 : (splitAdapters ads).2.1.length > 1 <;>
      simp only [c1, c2, if_true, if_false, List.map_append, List.map_map, List.filterMap_append, List.map_cons, List.map_nil,
        List.filterMap_cons, List.filterMap_nil, List.append_nil, Function.comp_def, filterMap_id_map_some, id]
    · simpa [List.append_assoc] using hp
    · -- prefix index, suffix adapters as singles: other ++ suf ++ pre
      refine List.Perm.trans ?_ hp
      simp only [List.append_assoc]
      exact List.Perm.append_left _ List.perm_append_comm
    · simpa [List.append_assoc] using hp
    · simpa [List.append_assoc] using hp
  · simp [filterMap_id_map_some]

end Cutadapt.C08
