import Cutadapt.Proofs.DpExactOrigin
/-! Exactness of the banded DP, part 9: where the reported match lies relative to the leftmost error-free copy. -/
namespace Cutadapt.Align.Exact
open Cutadapt Cutadapt.Align Cutadapt.Spec Cutadapt.Generated Cutadapt.Align.Sound Cutadapt.MatchSound

theorem go_noupd (cfg : Cfg) (ref : Bytes) (m n : Nat) (col : List Entry) (so : Int) (firstI i0 : Nat) (best : Best)
    (h : ∀ i, firstI ≤ i → i ≤ i0 → colUpd cfg ref m so i best (col.getD i default) = false) :
    ∀ (fuel i : Nat), i ≤ i0 → lastColumnSearch.go cfg ref m n col so firstI fuel i best = best
  | 0, i, _ => go_zero ..
  | fuel+1, i, hi => by
    rw [go_succ]
    split
    · rfl
    · next hlt =>
      have : lcsStep cfg ref m n col so i best = best := by
        unfold lcsStep
        rw [h i (by omega) hi]
        simp
      rw [this]
      split
      · rfl
      · exact go_noupd cfg ref m n col so firstI i0 best h fuel (i-1) (by omega)

/-- a zero-cost cell lies on the diagonal of its start -/
theorem good_zero_diag {ctx : Ctx} (hc : 1 ≤ ctx.cfg.indelCost) {i j : Nat} {e : Entry}
    (hi : i ≤ ctx.ref.length) (hj : j ≤ ctx.query.length) (hg : Good ctx i j e) (h0 : e.cost = 0) :
    (decode e.origin).1 + j = (decode e.origin).2 + i := by
  obtain ⟨g1, g2, _, _, s, hl, hr, hcs⟩ := hg
  rw [h0] at hcs
  obtain ⟨hn, _⟩ := no_indel_script ctx.eq ctx.cfg.indelCost s (by omega)
  rw [hl, hr, seg_length, seg_length] at hn
  omega

theorem decode_one (o : Int) : (decode o).1 = 0 ∨ (decode o).2 = 0 := by
  by_cases h : 0 ≤ o
  · left; rw [decode_nonneg h]
  · right; rw [decode_neg (by omega)]

/-- the next state's best match: unchanged, or the last-row cell of the new column -/
theorem columnLoop_best_cases (cfg : Cfg) (ascii : Bool) (refE ref : Bytes) (m : Nat) (s : LoopState) (j : Nat)
    (q : UInt8) (hd : s.done = false) (hlm : s.last ≤ m) :
    ((columnLoop cfg ascii refE ref m s (j, q)).best = s.best ∧ (columnLoop cfg ascii refE ref m s (j, q)).done = false) ∨
    (rowUpd cfg ref m s.best ((columnLoop cfg ascii refE ref m s (j, q)).col.getD m default) = true ∧
      (columnLoop cfg ascii refE ref m s (j, q)).lastFilled = m ∧
      (columnLoop cfg ascii refE ref m s (j, q)).best =
        ⟨((columnLoop cfg ascii refE ref m s (j, q)).col.getD m default).origin,
         ((columnLoop cfg ascii refE ref m s (j, q)).col.getD m default).cost,
         ((columnLoop cfg ascii refE ref m s (j, q)).col.getD m default).score, m, j, true⟩) := by
  rw [columnLoop_eq _ _ _ _ _ _ _ _ hd]
  have hle := shrinkLast_le cfg.k (stepColumn cfg ascii refE q s.last s.col) s.last
  split
  · exact .inl ⟨rfl, rfl⟩
  · split
    · split
      · next h1 _ h3 => exact .inr ⟨h3, by simp only; omega, rfl⟩
      · exact .inl ⟨rfl, rfl⟩
    · exact .inl ⟨rfl, rfl⟩


theorem D_copy_diag {ctx : Ctx} {p : Nat} (hX : CopyAt ctx p) (hsq : ctx.cfg.startInQuery = true) :
    ∀ t, t ≤ ctx.ref.length → D ctx 0 t (p + t) = 0
  | 0, _ => D_row_startQ hsq _
  | t+1, ht => by
    have := D_match (ctx := ctx) (j0 := 0) t (p + t) (by rw [Nat.zero_add]; exact hX t (by omega))
    rw [← Nat.add_assoc, this]
    exact D_copy_diag hX hsq t (by omega)

/-- bookkeeping around the column `p + m` where the leftmost error-free copy ends -/
def Phase (m p j : Nat) (s : LoopState) : Prop :=
  (s.best.found = true → s.best.refStop = m) ∧
  (j < p + m → s.done = false) ∧
  (p + m ≤ j → s.best.found = true ∧ s.best.queryStop ≤ p + m ∧ s.best.origin ≤ (p : Int) ∧
    (s.done = false → 0 ≤ s.best.origin ∧ s.best.origin + ((m / 2 : Nat) : Int) < (p : Int)))

theorem initState_Z (cfg : Cfg) (ref query : Bytes) (p : Nat) (hsq : cfg.startInQuery = true)
    (hstop : cfg.stopInQuery = true) (hm : 1 ≤ ref.length) :
    InvZ cfg ref query p 0 (initState cfg ref.length query.length) := by
  have hj0 : minNOf cfg ref.length query.length = 0 := minNOf_stopInQuery hstop _ _
  have h0 : ((initState cfg ref.length query.length).col.getD 0 default).origin = 0 := by
    show (((List.range (ref.length + 1)).map (initEntry cfg _)).getD 0 default).origin = 0
    rw [getD_map_range _ _ _ _ (Nat.zero_le _), hj0]
    unfold initEntry
    rw [hsq]
    split <;> simp_all
  refine ⟨.inl rfl, fun i hi _ hp => ?_, h0, fun h => absurd rfl h, fun h => absurd rfl h, ?_, fun h => absurd rfl h⟩
  · have hi0 : i = 0 := by omega
    have hp0 : p = 0 := by omega
    subst hi0 hp0
    rw [h0]; exact Int.le_refl _
  · show 1 ≤ (if cfg.startInRef = true then ref.length else min ref.length (cfg.k + 1))
    split <;> omega

theorem finalBest_cut (cfg : Cfg) (ref query : Bytes) (hwf : cfg.WF ref.length)
    (hsq : cfg.startInQuery = true) (hstop : cfg.stopInQuery = true) (hm : 1 ≤ ref.length)
    (hmo : cfg.minOverlap ≤ ref.length) {p : Nat} (hpn : p + ref.length ≤ query.length)
    (hX : CopyAt (mkCtx cfg ref query) p)
    (hleast : ∀ p', p' < p → ¬ ∃ s, lhs s = seg (encodeRef cfg ref) 0 ref.length ∧
      rhs s = seg (encodeQuery cfg query) p' (p' + ref.length) ∧ cost cfg.eq cfg.indelCost s = 0) :
    (finalBest cfg ref query).found = true ∧ (finalBest cfg ref query).origin ≤ (p : Int) ∧
      (finalBest cfg ref query).queryStop ≤ p + ref.length := by
  have hj0 : minNOf cfg ref.length query.length = 0 := minNOf_stopInQuery hstop _ _
  have hcase : minNOf cfg ref.length query.length = 0 ∨ cfg.startInQuery = true := .inl hj0
  have hmaxN : maxNOf cfg ref.length query.length = query.length := by unfold maxNOf; simp [hsq]
  have hmlen : (mkCtx cfg ref query).ref.length = ref.length := encodeRef_length cfg ref
  have hnlen : (mkCtx cfg ref query).query.length = query.length := encodeQuery_length cfg query
  have hD0 : D (mkCtx cfg ref query) 0 ref.length (p + ref.length) = 0 := by
    have := D_copy_diag hX hsq ref.length (by rw [hmlen]; exact Nat.le_refl _)
    exact this
  -- a recorded match that scores m before the copy ends contradicts leftmost-ness
  have hearly : ∀ (b : Best), BestInv cfg ref query b → BestS ref.length b → b.found = true →
      b.queryStop < p + ref.length → b.score < (ref.length : Int) := by
    intro b hbi hbs hbf hbq
    apply Int.lt_of_not_ge; intro hge
    obtain ⟨hc, hr, ho, hq⟩ := best_exact_of_score hwf hbi hbs hbf hge
    have hs := hbi hbf
    obtain ⟨s, hl, hr', hcs⟩ := hs.script
    rw [decode_nonneg ho] at hl hr'
    simp only at hl hr'
    rw [hr] at hl; rw [hq] at hr'; rw [hc] at hcs
    exact hleast b.origin.toNat (by omega) ⟨s, hl, hr', Nat.le_zero.mp hcs⟩
  obtain ⟨hP, _⟩ := finalState_ind cfg ref query
    (fun j s => (Inv cfg ref query j s ∧ InvU cfg ref query j s ∧ InvS cfg ref query j s) ∧
      (s.done = false → InvZ cfg ref query p j s) ∧ Phase ref.length p j s)
    ⟨⟨initState_inv hwf, initState_U hwf hcase, initState_S cfg ref query hcase⟩,
      fun _ => (by rw [hj0]; exact initState_Z cfg ref query p hsq hstop hm),
      fun h => (by cases h), fun _ => rfl, fun h => (by rw [hj0] at h; omega)⟩
    (fun j s hj hj1 hj2 ⟨⟨hI, hU, hS⟩, hZ, hrs, hph1, hph2⟩ => by
      have hI' := columnLoop_inv hwf hj hI
      have hU' := columnLoop_U hwf hj hI hU
      have hS' := columnLoop_S hwf hj hI hS
      refine ⟨⟨hI', hU', hS'⟩, ?_⟩
      by_cases hd : s.done = true
      · -- frozen
        have hjge : p + ref.length ≤ j := by
          apply Nat.le_of_not_lt; intro hlt; have := hph1 hlt; rw [hd] at this; cases this
        have heq : columnLoop cfg (compareAscii cfg) (encodeRef cfg ref) ref ref.length s
            (j+1, (encodeQuery cfg query)[j]'(by rw [encodeQuery_length]; exact hj)) = s := by
          unfold columnLoop; simp only [hd, if_true]
        rw [heq]
        exact ⟨fun h => (by rw [hd] at h; cases h), hrs, fun h => (by omega), fun _ => hph2 hjge⟩
      · have hd' : s.done = false := by simpa using hd
        have hZ' := columnLoop_Z hwf hX hsq hstop hj hI hU (hZ hd') hd'
        refine ⟨fun _ => hZ', ?_⟩
        have hcases := columnLoop_best_cases cfg (compareAscii cfg) (encodeRef cfg ref) ref ref.length s (j+1)
          ((encodeQuery cfg query)[j]'(by rw [encodeQuery_length]; exact hj)) hd' hI.last_le
        have hrs' : (columnLoop cfg (compareAscii cfg) (encodeRef cfg ref) ref ref.length s
            (j+1, (encodeQuery cfg query)[j]'(by rw [encodeQuery_length]; exact hj))).best.found = true →
            (columnLoop cfg (compareAscii cfg) (encodeRef cfg ref) ref ref.length s
            (j+1, (encodeQuery cfg query)[j]'(by rw [encodeQuery_length]; exact hj))).best.refStop = ref.length := by
          rcases hcases with ⟨hb, _⟩ | ⟨_, _, hb⟩
          · rw [hb]; exact hrs
          · rw [hb]; intro _; rfl
        refine ⟨hrs', ?_, ?_⟩
        · -- no early exit before the copy ends
          intro hlt
          cases hdn : (columnLoop cfg (compareAscii cfg) (encodeRef cfg ref) ref ref.length s
            (j+1, (encodeQuery cfg query)[j]'(by rw [encodeQuery_length]; exact hj))).done
          · rfl
          · exfalso
            obtain ⟨hf, hsc⟩ := hI'.doneBest hdn
            have := hearly _ hI'.best hS'.bestS hf (by have := hS'.bestQ hf; omega)
            omega
        · intro hge
          by_cases hjm : j + 1 = p + ref.length
          · -- the column where the copy ends
            have hD : D (mkCtx cfg ref query) (minNOf cfg ref.length query.length) ref.length
                (j + 1 - minNOf cfg ref.length query.length) ≤ cfg.k := by
              rw [hj0, Nat.sub_zero, hjm, hD0]; exact Nat.zero_le _
            obtain ⟨e, hce, hg, hsc, hupd, hnupd⟩ := row_event hwf hj hI hU hd' hstop hD
            rw [hj0, Nat.sub_zero, hjm, hD0] at hce
            have hc0 : e.cost = 0 := by omega
            have hdiag := good_zero_diag (ctx := mkCtx cfg ref query) hwf.indel_pos (by rw [hmlen]; exact Nat.le_refl _)
              (by rw [hnlen]; omega) hg hc0
            have hone := decode_one e.origin
            have ha : (decode e.origin).1 = 0 := by omega
            have hb : (decode e.origin).2 = p := by omega
            have ho : e.origin = (p : Int) := by
              rw [decode_fst] at ha; rw [decode_snd] at hb; omega
            have hscore : e.score = (ref.length : Int) := by have := hsc.2 hc0; rw [ho] at this; omega
            have hacc : accB cfg ref ref.length ref.length e = true :=
              accB_of_start ha (by omega) (by rw [hc0]; exact Nat.zero_le _)
            cases hru : rowUpd cfg ref ref.length s.best e
            · obtain ⟨hb', hdn⟩ := hnupd hru
              rw [hb', hdn]
              unfold rowUpd at hru
              rw [hacc, ho, hscore] at hru
              cases hfd : s.best.found
              · rw [hfd] at hru; simp at hru
              · rw [hfd] at hru
                have hbs := hearly s.best hI.best hS.bestS hfd (by have := hS.bestQ hfd; omega)
                have hbq := hS.bestQ hfd
                simp only [Bool.not_true, Bool.false_or, Bool.true_and, Bool.or_eq_false_iff,
                  Bool.and_eq_false_iff, decide_eq_false_iff_not, Int.not_le, Int.not_lt] at hru
                obtain ⟨h1, h2⟩ := hru
                have h1' : s.best.origin + ((ref.length / 2 : Nat) : Int) < (p : Int) := by
                  rcases h1 with h | h
                  · exact h
                  · omega
                have h2' : 0 ≤ s.best.origin := by
                  rcases h2 with h | h
                  · unfold toNatI at h; omega
                  · omega
                exact ⟨rfl, by omega, by omega, fun _ => ⟨h2', h1'⟩⟩
            · obtain ⟨hb', hdn⟩ := hupd hru
              rw [hb', hdn, hc0, ho]
              exact ⟨rfl, by simp only; omega, Int.le_refl _, fun h => by simp at h⟩
          · -- beyond: nothing changes any more
            have hjge : p + ref.length ≤ j := by omega
            obtain ⟨hf, hq, ho, hnb⟩ := hph2 hjge
            obtain ⟨hnb1, hnb2⟩ := hnb hd'
            rcases hcases with ⟨hb, hdn⟩ | ⟨hru, hlf, _⟩
            · rw [hb, hdn]; exact ⟨hf, hq, ho, fun _ => ⟨hnb1, hnb2⟩⟩
            · exfalso
              have hzm := hZ'.z ref.length (Nat.le_refl _) (.inr (by rw [hlf]; exact Nat.le_refl _)) (by omega)
              generalize ((columnLoop cfg (compareAscii cfg) (encodeRef cfg ref) ref ref.length s
                (j+1, (encodeQuery cfg query)[j]'(by rw [encodeQuery_length]; exact hj))).col.getD ref.length
                default) = e at hru hzm
              unfold rowUpd at hru
              rw [hf] at hru
              simp only [Bool.not_true, Bool.false_or, Bool.and_eq_true, Bool.or_eq_true, decide_eq_true_eq] at hru
              obtain ⟨_, h | h⟩ := hru
              · omega
              · unfold toNatI at h; omega)
  have hmin := minNOf_le cfg ref.length query.length
  obtain ⟨⟨hI, hU, hS⟩, hZ, hrs, _, hph2⟩ := hP (by omega)
  rw [hmaxN] at hI hU hS hZ hph2
  obtain ⟨hf, hq, ho, hnb⟩ := hph2 hpn
  have hfb : finalBest cfg ref query = (finalState cfg ref query).best := by
    rw [finalBest_eq, hmaxN, if_pos (by simp)]
    unfold lastColumnSearch
    by_cases hd : (finalState cfg ref query).done = true
    · obtain ⟨hfound, hsc⟩ := hI.doneBest hd
      exact go_done _ _ _ _ _ _ _ (fun i hi => (hI.score i hi).1) _ _ _ hI.filled_le hfound hsc
    · have hd' : (finalState cfg ref query).done = false := by simpa using hd
      obtain ⟨hnb1, hnb2⟩ := hnb hd'
      have hz := hZ hd'
      have hn0 : query.length ≠ 0 := by omega
      obtain ⟨hso, hlf1⟩ := hz.so hn0
      have hsop : (p : Int) ≤ (finalState cfg ref query).origin := by
        rw [hso]
        exact hz.z _ hI.filled_le (.inr (Nat.le_refl _)) (by have := hI.filled_le; omega)
      refine go_noupd _ _ _ _ _ _ _ (finalState cfg ref query).lastFilled _ ?_ _ _ (Nat.le_refl _)
      intro i _ hi
      unfold colUpd
      rw [hf, hrs hf]
      cases hacc : accB cfg ref ref.length i ((finalState cfg ref query).col.getD i default)
      · simp
      · simp only [Bool.not_true, Bool.false_or, Bool.true_and, Bool.or_eq_false_iff, Bool.and_eq_false_iff,
          decide_eq_false_iff_not, Int.not_le, Int.not_lt]
        refine ⟨.inl (by omega), .inl ?_⟩
        unfold toNatI
        have := hI.filled_le
        omega
  rw [hfb]
  exact ⟨hf, ho, hq⟩

end Cutadapt.Align.Exact
