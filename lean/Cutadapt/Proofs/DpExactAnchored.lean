import Cutadapt.Proofs.DpExactScore
import Cutadapt.Proofs.MatchSoundComplete
/-! Exactness of the banded DP, part 7: an error-free anchored occurrence is reported exactly. -/
namespace Cutadapt.Align.Exact
open Cutadapt Cutadapt.Align Cutadapt.Spec Cutadapt.Generated Cutadapt.Align.Sound Cutadapt.MatchSound

/-- a recorded match whose score reaches `m` is an error-free full copy -/
theorem best_exact_of_score {cfg : Cfg} {ref query : Bytes} (hwf : cfg.WF ref.length) {best : Best}
    (hinv : BestInv cfg ref query best) (hS : BestS ref.length best) (hf : best.found = true)
    (hsc : (ref.length : Int) ≤ best.score) :
    best.cost = 0 ∧ best.refStop = ref.length ∧ 0 ≤ best.origin ∧
      best.queryStop = best.origin.toNat + ref.length := by
  obtain ⟨s1, s2, s3, s4⟩ := hS hf
  have hrs : best.refStop = ref.length := by omega
  have hc : best.cost = 0 := by
    apply Nat.eq_zero_of_not_pos; intro hpos; have := s2 hpos; omega
  have ho : 0 ≤ best.origin := by have := s4 hc; omega
  refine ⟨hc, hrs, ho, ?_⟩
  have hs := hinv hf
  obtain ⟨s, hl, hr, hcs⟩ := hs.script
  rw [hc] at hcs
  obtain ⟨hn, _⟩ := no_indel_script cfg.eq cfg.indelCost s (by have := hwf.indel_pos; omega)
  rw [hl, hr, seg_length, seg_length, encodeRef_length, encodeQuery_length, decode_nonneg ho] at hn
  have := hs.h_re; have := hs.h_rs
  rw [decode_nonneg ho] at this
  simp only at hn this
  omega

theorem minNOf_stopInQuery {cfg : Cfg} (h : cfg.stopInQuery = true) (m n : Nat) : minNOf cfg m n = 0 := by
  unfold minNOf; simp [h]

/-- origin and score of a zero-cost cell in the last row when neither start may be skipped -/
theorem good_zero_noskip {ctx : Ctx} {i j : Nat} {e : Entry} (h1 : ctx.cfg.startInRef = false)
    (h2 : ctx.cfg.startInQuery = false) (hg : Good ctx i j e) : e.origin = 0 := by
  obtain ⟨_, _, g3, g4, _⟩ := hg
  have a1 : (decode e.origin).1 = 0 := by
    rcases g3 with g | g
    · exact g
    · rw [h1] at g; cases g
  have a2 : (decode e.origin).2 = 0 := by
    rcases g4 with g | g
    · exact g
    · rw [h2] at g; cases g
  rw [decode_fst] at a1; rw [decode_snd] at a2
  omega

theorem locate_prefix_exact (cfg : Cfg) (ref query : Bytes) (hwf : cfg.WF ref.length)
    (h1 : cfg.startInRef = false) (h2 : cfg.startInQuery = false) (hsq : cfg.stopInQuery = true)
    (hmo : cfg.minOverlap ≤ ref.length) (hm : 1 ≤ ref.length) (hmn : ref.length ≤ query.length)
    (hexact : ∃ s, lhs s = seg (encodeRef cfg ref) 0 ref.length ∧ rhs s = seg (encodeQuery cfg query) 0 ref.length ∧
      cost cfg.eq cfg.indelCost s = 0) :
    locate cfg ref query = some (0, ref.length, 0, ref.length, (ref.length : Int), 0) := by
  have hj0 : minNOf cfg ref.length query.length = 0 := minNOf_stopInQuery hsq _ _
  have hcase : minNOf cfg ref.length query.length = 0 ∨ cfg.startInQuery = true := .inl hj0
  have hmaxN : ref.length ≤ maxNOf cfg ref.length query.length := by unfold maxNOf; split <;> omega
  have hmlen : (mkCtx cfg ref query).ref.length = ref.length := encodeRef_length cfg ref
  have hnlen : (mkCtx cfg ref query).query.length = query.length := encodeQuery_length cfg query
  -- the true value at (m, m) is 0
  have hD0 : D (mkCtx cfg ref query) 0 ref.length ref.length = 0 := by
    obtain ⟨s, hl, hr, hc⟩ := hexact
    have := D_le_cost (ctx := mkCtx cfg ref query) (j0 := 0) (r0 := 0) (q0 := 0) (i := ref.length) (j := ref.length)
      ⟨.inl rfl, .inl rfl, .inl rfl, Nat.le_refl _⟩ (Nat.zero_le _) (by rw [hmlen]; exact Nat.le_refl _) (Nat.zero_le _)
      (by rw [hnlen]; exact hmn) hl hr
    have hc' : cost (mkCtx cfg ref query).eq (mkCtx cfg ref query).cfg.indelCost s = 0 := hc
    rw [hc'] at this
    simpa using this
  let B : Best := ⟨0, 0, (ref.length : Int), ref.length, ref.length, true⟩
  obtain ⟨hP, _⟩ := finalState_ind cfg ref query
    (fun j s => (Inv cfg ref query j s ∧ InvU cfg ref query j s ∧ InvS cfg ref query j s) ∧
      (j < ref.length → s.done = false) ∧ (ref.length ≤ j → s.done = true ∧ s.best = B))
    ⟨⟨initState_inv hwf, initState_U hwf hcase, initState_S cfg ref query hcase⟩,
      fun _ => rfl, fun h => by rw [hj0] at h; omega⟩
    (fun j s hj hj1 hj2 ⟨⟨hI, hU, hS⟩, he1, he2⟩ => by
      have hI' := columnLoop_inv hwf hj hI
      have hU' := columnLoop_U hwf hj hI hU
      have hS' := columnLoop_S hwf hj hI hS
      refine ⟨⟨hI', hU', hS'⟩, ?_, ?_⟩
      · -- no early exit before column m
        intro hlt
        cases hdn : (columnLoop cfg (compareAscii cfg) (encodeRef cfg ref) ref ref.length s
          (j+1, (encodeQuery cfg query)[j]'(by rw [encodeQuery_length]; exact hj))).done
        · rfl
        · exfalso
          obtain ⟨hf, hsc⟩ := hI'.doneBest hdn
          obtain ⟨_, _, ho, hq⟩ := best_exact_of_score hwf hI'.best hS'.bestS hf hsc
          have := hS'.bestQ hf
          omega
      · intro hge
        by_cases hjm : j + 1 = ref.length
        · -- the event
          have hd : s.done = false := he1 (by omega)
          have hD : D (mkCtx cfg ref query) (minNOf cfg ref.length query.length) ref.length
              (j + 1 - minNOf cfg ref.length query.length) ≤ cfg.k := by
            rw [hj0, Nat.sub_zero, hjm, hD0]; exact Nat.zero_le _
          obtain ⟨e, hce, hg, hsc, hupd, _⟩ := row_event hwf hj hI hU hd hsq hD
          rw [hj0, Nat.sub_zero, hjm, hD0] at hce
          have hc0 : e.cost = 0 := by omega
          have ho : e.origin = 0 := good_zero_noskip h1 h2 hg
          have hscore : e.score = (ref.length : Int) := by have := hsc.2 hc0; rw [ho] at this; omega
          have hacc : accB cfg ref ref.length ref.length e = true :=
            accB_of_start (as := 0) (by rw [ho]; rfl) (by omega) (by rw [hc0]; exact Nat.zero_le _)
          have hcond : rowUpd cfg ref ref.length s.best e = true := by
            unfold rowUpd
            rw [hacc]
            cases hfd : s.best.found
            · simp
            · have hbo : 0 ≤ s.best.origin := by
                have := (hI.best hfd).startRef h1
                rw [decode_fst] at this; omega
              have hbs : s.best.score < (ref.length : Int) := by
                apply Int.lt_of_not_ge; intro hge'
                obtain ⟨_, _, _, hq⟩ := best_exact_of_score hwf hI.best hS.bestS hfd hge'
                have := hS.bestQ hfd
                omega
              simp only [Bool.not_true, Bool.false_or, Bool.true_and, Bool.or_eq_true, Bool.and_eq_true,
                decide_eq_true_eq]
              left
              rw [ho, hscore]
              exact ⟨by omega, hbs⟩
          obtain ⟨hb, hdn⟩ := hupd hcond
          refine ⟨by rw [hdn, hc0, ho]; rfl, ?_⟩
          rw [hb, hc0, ho, hscore, hjm]
        · have hd := (he2 (by omega)).1
          have hb := (he2 (by omega)).2
          unfold columnLoop
          simp only [hd, if_true]
          exact ⟨trivial, hb⟩)
  obtain ⟨⟨hI, _, _⟩, _, he2⟩ := hP (by rw [hj0]; exact Nat.zero_le _)
  obtain ⟨hd, hb⟩ := he2 hmaxN
  have hfb : finalBest cfg ref query = B := by
    rw [finalBest_eq]
    split
    · unfold lastColumnSearch
      obtain ⟨hfound, hsc⟩ := hI.doneBest hd
      rw [go_done _ _ _ _ _ _ _ (fun i hi => (hI.score i hi).1) _ _ _ hI.filled_le hfound hsc]
      exact hb
    · exact hb
  rw [locate_eq, hfb]
  simp [B, decode]


theorem locate_suffix_exact (cfg : Cfg) (ref query : Bytes) (hwf : cfg.WF ref.length)
    (h1 : cfg.startInRef = false) (h2 : cfg.startInQuery = true) (h3 : cfg.stopInRef = false)
    (h4 : cfg.stopInQuery = false)
    (hmo : cfg.minOverlap ≤ ref.length) (hm : 1 ≤ ref.length) (hmn : ref.length ≤ query.length)
    (hexact : ∃ s, lhs s = seg (encodeRef cfg ref) 0 ref.length ∧
      rhs s = seg (encodeQuery cfg query) (query.length - ref.length) query.length ∧
      cost cfg.eq cfg.indelCost s = 0) :
    locate cfg ref query =
      some (0, ref.length, query.length - ref.length, query.length, (ref.length : Int), 0) := by
  have hcase : minNOf cfg ref.length query.length = 0 ∨ cfg.startInQuery = true := .inr h2
  have hj0 : minNOf cfg ref.length query.length ≤ query.length - ref.length := by
    unfold minNOf; split <;> omega
  have hmaxN : maxNOf cfg ref.length query.length = query.length := by unfold maxNOf; simp [h2]
  have hmlen : (mkCtx cfg ref query).ref.length = ref.length := encodeRef_length cfg ref
  have hnlen : (mkCtx cfg ref query).query.length = query.length := encodeQuery_length cfg query
  have hD0 : D (mkCtx cfg ref query) (minNOf cfg ref.length query.length) ref.length
      (query.length - minNOf cfg ref.length query.length) = 0 := by
    obtain ⟨s, hl, hr, hc⟩ := hexact
    have := D_le_cost (ctx := mkCtx cfg ref query) (j0 := minNOf cfg ref.length query.length) (r0 := 0)
      (q0 := query.length - ref.length) (i := ref.length) (j := query.length)
      ⟨.inl rfl, .inr h2, .inl rfl, hj0⟩ (Nat.zero_le _) (by rw [hmlen]; exact Nat.le_refl _) (by omega)
      (by rw [hnlen]; exact Nat.le_refl _) hl hr
    have hc' : cost (mkCtx cfg ref query).eq (mkCtx cfg ref query).cfg.indelCost s = 0 := hc
    rw [hc'] at this
    simpa using this
  obtain ⟨hP, _⟩ := finalState_ind cfg ref query
    (fun j s => (Inv cfg ref query j s ∧ InvU cfg ref query j s ∧ InvF cfg ref query j s) ∧
      s.done = false ∧ s.best.found = false)
    ⟨⟨initState_inv hwf, initState_U hwf hcase, initState_F cfg ref query⟩, rfl, rfl⟩
    (fun j s hj hj1 hj2 ⟨⟨hI, hU, hF⟩, hd, hf⟩ => by
      refine ⟨⟨columnLoop_inv hwf hj hI, columnLoop_U hwf hj hI hU, columnLoop_F hwf hj hI hU hF⟩, ?_⟩
      rw [columnLoop_eq _ _ _ _ _ _ _ _ hd]
      split
      · exact ⟨rfl, hf⟩
      · split
        · next hh => rw [h4] at hh; cases hh
        · exact ⟨rfl, hf⟩)
  have hmin := minNOf_le cfg ref.length query.length
  obtain ⟨⟨hI, hU, hF⟩, hd, hf⟩ := hP (by omega)
  rw [hmaxN] at hI hU hF
  have hlt : minNOf cfg ref.length query.length < query.length := by omega
  -- the examined cell
  have hlf : (finalState cfg ref query).lastFilled = ref.length := by
    apply Nat.le_antisymm hI.filled_le
    apply Nat.le_of_not_lt; intro hlt'
    have := hF.filled hd hlt ref.length hlt' (Nat.le_refl _)
    rw [hD0] at this; omega
  obtain ⟨e, he⟩ : ∃ e, (finalState cfg ref query).col.getD ref.length default = e := ⟨_, rfl⟩
  have hcost := (hU.u hd).u ref.length (by rw [hmlen]; exact Nat.le_refl _) (by rw [hD0]; exact Nat.zero_le _)
  rw [hD0, he] at hcost
  have hc0 : e.cost = 0 := by omega
  have hgood := ((hI.col hd).cells ref.length (by rw [hmlen]; exact Nat.le_refl _)).1
    (by rw [he, hc0]; exact Nat.zero_le _)
  have hsc := (hI.score ref.length (Nat.le_refl _)).2 (by rw [he]; exact hc0)
  rw [he] at hgood hsc
  obtain ⟨g1, g2, g3, g4, se, hle, hre, hce⟩ := hgood
  have ha : (decode e.origin).1 = 0 := by
    rcases g3 with g | g
    · exact g
    · have : cfg.startInRef = true := g
      rw [h1] at this; cases this
  have hb : (decode e.origin).2 = query.length - ref.length := by
    rw [hc0] at hce
    have hce' : cost (mkCtx cfg ref query).eq cfg.indelCost se ≤ 0 := hce
    obtain ⟨hn, _⟩ := no_indel_script (mkCtx cfg ref query).eq cfg.indelCost se (by have := hwf.indel_pos; omega)
    rw [hle, hre, seg_length, seg_length, hmlen, hnlen, ha] at hn
    omega
  have hacc : accB cfg ref ref.length ref.length e = true :=
    accB_of_start ha (by omega) (by rw [hc0]; exact Nat.zero_le _)
  have ho : 0 ≤ e.origin := by rw [decode_fst] at ha; omega
  have hscore : e.score = (ref.length : Int) := by rw [hsc]; omega
  have hfb : finalBest cfg ref query = ⟨e.origin, 0, (ref.length : Int), ref.length, query.length, true⟩ := by
    rw [finalBest_eq, hmaxN, if_pos (by simp)]
    unfold lastColumnSearch
    rw [hlf, go_succ]
    simp only [h3, Bool.false_eq_true, if_false, Nat.lt_irrefl]
    have hm0 : (ref.length == 0) = false := by
      cases hh : ref.length == 0
      · rfl
      · have : ref.length = 0 := by simpa using hh
        omega
    rw [hm0]
    simp only [Bool.false_eq_true, if_false]
    obtain ⟨m', hm'⟩ : ∃ m', ref.length = m' + 1 := ⟨ref.length - 1, by omega⟩
    have hgo : ∀ b, lastColumnSearch.go cfg ref ref.length query.length (finalState cfg ref query).col
        (finalState cfg ref query).origin ref.length ref.length (ref.length - 1) b = b := by
      intro b
      conv => lhs; arg 8; rw [hm']
      rw [go_succ, if_pos (by omega)]
    rw [hgo]
    unfold lcsStep colUpd
    rw [he, hacc, hf, hc0, hscore]
    simp
  rw [locate_eq, hfb]
  simp only [Bool.not_true, Bool.false_eq_true, if_false]
  rw [decode_nonneg ho] at hb ⊢
  simp only at hb
  rw [hb]

end Cutadapt.Align.Exact
