import Cutadapt.Report
/-! Loop invariant of `report.ErrorRanges._compute_lengths` (`Cutadapt.Report.loop` / `bump`). -/
namespace Cutadapt.Report

/-- `bump` with enough fuel: the `while` loop catches up to `thrL` -/
theorem bump_spec (t lm : Nat) : ∀ (fuel : Nat) (acc : List Nat) (e : Nat), t - e ≤ fuel →
    bump t lm fuel acc e = (max e t, acc ++ List.replicate (t - e) lm)
  | 0, acc, e, h => by
    have : t - e = 0 := by omega
    simp [bump, this]; omega
  | fuel+1, acc, e, h => by
    unfold bump
    by_cases hte : t > e
    · rw [if_pos hte, bump_spec t lm fuel _ _ (by omega)]
      have : t - e = (t - (e+1)) + 1 := by omega
      rw [this, List.replicate_succ]
      simp; omega
    · rw [if_neg hte]
      have : t - e = 0 := by omega
      simp [this]; omega

/-- `loop` that also returns the error counter -/
def loopE (thr : Nat → Nat) : List Nat → Nat → List Nat → Nat × List Nat
  | [], e, acc => (e, acc)
  | L :: rest, e, acc =>
    let (e', acc') := bump (thr L) (L - 1) (thr L) acc e
    loopE thr rest e' acc'

theorem loop_eq_loopE (thr : Nat → Nat) : ∀ (xs : List Nat) (e : Nat) (acc : List Nat),
    loop thr xs e acc = (loopE thr xs e acc).2
  | [], _, _ => rfl
  | L :: rest, e, acc => by
    simp only [loop, loopE]
    exact loop_eq_loopE thr rest _ _

theorem loopE_cons (thr : Nat → Nat) (L : Nat) (rest : List Nat) (e : Nat) (acc : List Nat) :
    loopE thr (L :: rest) e acc = loopE thr rest (max e (thr L)) (acc ++ List.replicate (thr L - e) (L - 1)) := by
  simp only [loopE]
  rw [bump_spec (thr L) (L-1) (thr L) acc e (by omega)]

theorem loopE_append (thr : Nat → Nat) : ∀ (xs ys : List Nat) (e : Nat) (acc : List Nat),
    loopE thr (xs ++ ys) e acc = loopE thr ys (loopE thr xs e acc).1 (loopE thr xs e acc).2
  | [], _, _, _ => rfl
  | x :: xs, ys, e, acc => by
    simp only [List.cons_append, loopE_cons]
    exact loopE_append thr xs ys _ _

/-- whatever is appended comes from the processed lengths -/
theorem loopE_ext (thr : Nat → Nat) : ∀ (xs : List Nat) (e : Nat) (acc : List Nat),
    ∃ ext, (loopE thr xs e acc).2 = acc ++ ext ∧ (∀ y ∈ ext, ∃ x ∈ xs, y = x - 1) ∧
      e ≤ (loopE thr xs e acc).1 ∧ ext.length = (loopE thr xs e acc).1 - e
  | [], e, acc => ⟨[], by simp [loopE]⟩
  | x :: xs, e, acc => by
    rw [loopE_cons]
    obtain ⟨ext, h1, h2, h3, h4⟩ := loopE_ext thr xs (max e (thr x)) (acc ++ List.replicate (thr x - e) (x - 1))
    refine ⟨List.replicate (thr x - e) (x - 1) ++ ext, ?_, ?_, ?_, ?_⟩
    · rw [h1]; simp
    · intro y hy
      rcases List.mem_append.1 hy with hy | hy
      · exact ⟨x, List.mem_cons_self, (List.mem_replicate.1 hy).2⟩
      · obtain ⟨x', hx', e'⟩ := h2 y hy
        exact ⟨x', List.mem_cons_of_mem _ hx', e'⟩
    · omega
    · simp [h4]; omega

/-- threshold with the convention "0 errors before the first length" -/
def thrz (thr : Nat → Nat) (L : Nat) : Nat := if L = 0 then 0 else thr L

theorem thrz_mono {thr : Nat → Nat} (hm : ∀ a b, a ≤ b → thr a ≤ thr b) {a b : Nat} (h : a ≤ b) : thrz thr a ≤ thrz thr b := by
  unfold thrz
  by_cases ha : a = 0
  · simp [ha]
  · have hb : b ≠ 0 := by omega
    simp [ha, hb]; exact hm a b h

/-- the accumulated list after the lengths `1..L` -/
def accAt (thr : Nat → Nat) (L : Nat) : List Nat := (loopE thr (List.range' 1 L) 0 []).2

theorem loopE_range (thr : Nat → Nat) (hm : ∀ a b, a ≤ b → thr a ≤ thr b) : ∀ L,
    (loopE thr (List.range' 1 L) 0 []).1 = thrz thr L ∧ (accAt thr L).length = thrz thr L ∧
      (∀ y ∈ accAt thr L, y < L) ∧
      accAt thr (L+1) = accAt thr L ++ List.replicate (thr (L+1) - thrz thr L) L
  | 0 => by
    simp [accAt, loopE, thrz, loopE_cons]
  | L+1 => by
    obtain ⟨h1, h2, h3, h4⟩ := loopE_range thr hm L
    have step : ∀ n, loopE thr (List.range' 1 (n+1)) 0 [] =
        (max (loopE thr (List.range' 1 n) 0 []).1 (thr (n+1)),
         (loopE thr (List.range' 1 n) 0 []).2 ++ List.replicate (thr (n+1) - (loopE thr (List.range' 1 n) 0 []).1) n) := by
      intro n
      rw [List.range'_concat, loopE_append, loopE_cons]
      simp [loopE, Nat.add_comm]
    have hs : thrz thr (L+1) = thr (L+1) := by simp [thrz]
    have hle : thrz thr L ≤ thr (L+1) := by
      have := thrz_mono hm (Nat.le_succ L); rwa [hs] at this
    have e1 : (loopE thr (List.range' 1 (L+1)) 0 []).1 = thrz thr (L+1) := by
      rw [step L, h1, hs]; omega
    refine ⟨e1, ?_, ?_, ?_⟩
    · rw [h4, hs]; simp [h2]; omega
    · intro y hy
      rw [h4] at hy
      rcases List.mem_append.1 hy with hy | hy
      · have := h3 y hy; omega
      · have := (List.mem_replicate.1 hy).2; omega
    · show (loopE thr (List.range' 1 (L+1+1)) 0 []).2 = _
      rw [step (L+1), e1]; rfl

theorem accAt_prefix (thr : Nat → Nat) (hm : ∀ a b, a ≤ b → thr a ≤ thr b) (L : Nat) : ∀ d,
    ∃ ext, accAt thr (L + d) = accAt thr L ++ ext ∧ ∀ y ∈ ext, L ≤ y
  | 0 => ⟨[], by simp⟩
  | d+1 => by
    obtain ⟨ext, h1, h2⟩ := accAt_prefix thr hm L d
    have := (loopE_range thr hm (L+d)).2.2.2
    refine ⟨ext ++ List.replicate (thr (L+d+1) - thrz thr (L+d)) (L+d), ?_, ?_⟩
    · rw [← Nat.add_assoc, this, h1]; simp
    · intro y hy
      rcases List.mem_append.1 hy with hy | hy
      · exact h2 y hy
      · have := (List.mem_replicate.1 hy).2; omega

theorem map_succ_range (n : Nat) : (List.range n).map (· + 1) = List.range' 1 n := by
  rw [List.range_eq_range']
  have := List.map_add_range' (a := 1) (s := 0) (n := n) (step := 1)
  simpa [Nat.add_comm] using this

theorem errorRanges_eq (thr : Nat → Nat) (n : Nat) : errorRanges thr n = accAt thr n ++ [n] := by
  unfold errorRanges accAt
  rw [map_succ_range, loop_eq_loopE]

theorem takeWhile_append_stop {p : Nat → Bool} (xs ys : List Nat) (hx : ∀ x ∈ xs, p x = true)
    (hy : ys.head?.all (fun y => !p y) = true) (hne : ys ≠ []) : ((xs ++ ys).takeWhile p).length = xs.length := by
  induction xs with
  | nil =>
    cases ys with
    | nil => exact absurd rfl hne
    | cons y ys => simp at hy; simp [hy]
  | cons x xs ih =>
    have hpx := hx x List.mem_cons_self
    simp [hpx]
    exact ih (fun z hz => hx z (List.mem_cons_of_mem _ hz))

/-- **allowed errors at `L`**: the printed ranges allow exactly `thr L` errors at every length `1 ≤ L ≤ length`. -/
theorem allowedAt_errorRanges (thr : Nat → Nat) (hm : ∀ a b, a ≤ b → thr a ≤ thr b) (n L : Nat) (h1 : 1 ≤ L) (h2 : L ≤ n) :
    allowedAt (errorRanges thr n) L = thr L := by
  obtain ⟨ext, he, hext⟩ := accAt_prefix thr hm L (n - L)
  have hn : L + (n - L) = n := by omega
  rw [hn] at he
  obtain ⟨_, hlen, hlt, _⟩ := loopE_range thr hm L
  unfold allowedAt
  rw [errorRanges_eq, he, List.append_assoc]
  rw [takeWhile_append_stop]
  · rw [hlen]; simp [thrz]; omega
  · intro x hx; simpa using hlt x hx
  · cases ext with
    | nil => simp; omega
    | cons y ys => simp; exact hext y List.mem_cons_self
  · simp

theorem errorRanges_length (thr : Nat → Nat) (hm : ∀ a b, a ≤ b → thr a ≤ thr b) (n : Nat) :
    (errorRanges thr n).length = thrz thr n + 1 := by
  rw [errorRanges_eq]; simp [(loopE_range thr hm n).2.1]

theorem errorRanges_getLast (thr : Nat → Nat) (n : Nat) : (errorRanges thr n).getLast? = some n := by
  rw [errorRanges_eq]; simp

/-- entry `e` of the ranges is `x − 1` for the least length `x ≥ 1` with `thr x > e` -/
theorem errorRanges_entry (thr : Nat → Nat) (hm : ∀ a b, a ≤ b → thr a ≤ thr b) (n e x : Nat) (hx1 : 1 ≤ x) (hxn : x ≤ n)
    (hgt : e < thr x) (hmin : ∀ y, 1 ≤ y → y < x → thr y ≤ e) : (errorRanges thr n)[e]? = some (x - 1) := by
  obtain ⟨x', rfl⟩ : ∃ x', x = x' + 1 := ⟨x - 1, by omega⟩
  obtain ⟨ext, he, _⟩ := accAt_prefix thr hm (x'+1) (n - (x'+1))
  have hn : x' + 1 + (n - (x'+1)) = n := by omega
  rw [hn] at he
  obtain ⟨_, hlen, _, hstep⟩ := loopE_range thr hm x'
  have hz : thrz thr x' ≤ e := by
    unfold thrz
    by_cases h0 : x' = 0
    · simp [h0]
    · simp [h0]; exact hmin x' (by omega) (by omega)
  rw [errorRanges_eq, he, hstep]
  simp only [List.append_assoc]
  rw [List.getElem?_append_right (by omega)]
  rw [List.getElem?_append_left (by simp; omega)]
  simp [List.getElem?_replicate]; omega

end Cutadapt.Report
