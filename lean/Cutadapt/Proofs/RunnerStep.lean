import Cutadapt.Proofs.RunnerInv
/-! Inversion lemmas for `step` and preservation of `RunInv` / `SafeInv` by every action. -/
namespace Cutadapt.Runner
variable {Chunk Stats Fault : Type} {cfg : Config Chunk Stats Fault} {s s' : State Stats}

theorem count_single_self (w : Nat) : List.count w [w] = 1 := by simp
theorem count_single_ne {v w : Nat} (h : v ≠ w) : List.count v [w] = 0 := by
  simp [List.count_cons]; exact fun e => h e.symm

/-! ## Inversion of `step` -/

theorem step_running {a : Action} (hs : step cfg s a = some s') : s.outcome = .running := by
  cases a <;> simp only [step] at hs <;> split at hs <;> first | (rename_i hg; exact hg.1) | cases hs

theorem step_workerRequest {w : Nat} (hs : step cfg s (.workerRequest w) = some s') :
    w < cfg.nWorkers ∧ (s.workers w).phase = .idle ∧
    s' = { s.setW w { s.workers w with phase := .requested } with queue := s.queue ++ [w] } := by
  simp only [step] at hs
  split at hs
  · rename_i hg
    cases hs
    exact ⟨hg.2.1, hg.2.2, rfl⟩
  · cases hs

theorem step_readerSend (hs : step cfg s .readerSend = some s') :
    s.rfailed = false ∧ s.next < cfg.chunks.length ∧ ∃ w q, s.queue = w :: q ∧
    s' = { s.setW w { s.workers w with inbox := (s.workers w).inbox ++ [.chunk s.next] } with queue := q, next := s.next + 1 } := by
  simp only [step] at hs
  split at hs
  · rename_i hg
    split at hs
    · cases hs
    · rename_i w q hq; cases hs; exact ⟨hg.2.1, hg.2.2, w, q, hq, rfl⟩
  · cases hs

theorem step_readerPill (hs : step cfg s .readerPill = some s') :
    s.rfailed = false ∧ cfg.readerFault = false ∧ s.next = cfg.chunks.length ∧ s.pills < cfg.nWorkers ∧ ∃ w q, s.queue = w :: q ∧
    s' = { s.setW w { s.workers w with inbox := (s.workers w).inbox ++ [.pill] } with queue := q, pills := s.pills + 1 } := by
  simp only [step] at hs
  split at hs
  · rename_i hg
    split at hs
    · cases hs
    · rename_i w q hq; cases hs; exact ⟨hg.2.1, hg.2.2.1, hg.2.2.2.1, hg.2.2.2.2, w, q, hq, rfl⟩
  · cases hs

theorem step_readerFault (hs : step cfg s .readerFault = some s') :
    s.rfailed = false ∧ cfg.readerFault = true ∧ s.next = cfg.chunks.length ∧
    s' = { s with rfailed := true,
                  workers := fun v => if v < cfg.nWorkers then { s.workers v with inbox := (s.workers v).inbox ++ [.readerError] } else s.workers v } := by
  simp only [step] at hs
  split at hs
  · rename_i hg; cases hs; exact ⟨hg.2.1, hg.2.2.1, hg.2.2.2, rfl⟩
  · cases hs

theorem step_workerStep {w : Nat} (hs : step cfg s (.workerStep w) = some s') :
    w < cfg.nWorkers ∧
    ( (∃ i rest, (s.workers w).phase = .requested ∧ (s.workers w).inbox = .chunk i :: rest ∧
          s' = s.setW w { s.workers w with inbox := rest, phase := .processing i })
    ∨ (∃ rest, (s.workers w).phase = .requested ∧ (s.workers w).inbox = .pill :: rest ∧
          s' = s.setW w { s.workers w with inbox := rest, phase := .finished, outbox := (s.workers w).outbox ++ [.done (s.workers w).stats] })
    ∨ (∃ rest, (s.workers w).phase = .requested ∧ (s.workers w).inbox = .readerError :: rest ∧
          s' = s.setW w { s.workers w with inbox := rest, phase := .failed, outbox := (s.workers w).outbox ++ [.workerError] })
    ∨ (∃ i c d st, (s.workers w).phase = .processing i ∧ cfg.chunks[i]? = some c ∧ cfg.process c = .ok (d, st) ∧
          s' = s.setW w { s.workers w with phase := .idle, stats := cfg.add (s.workers w).stats st, outbox := (s.workers w).outbox ++ [.result i d] })
    ∨ (∃ i c e, (s.workers w).phase = .processing i ∧ cfg.chunks[i]? = some c ∧ cfg.process c = .error e ∧
          s' = s.setW w { s.workers w with phase := .failed, outbox := (s.workers w).outbox ++ [.workerError], lost := some i })) := by
  simp only [step] at hs
  split at hs
  · rename_i hg
    refine ⟨hg.2, ?_⟩
    split at hs
    · rename_i hph
      split at hs
      · cases hs
      · rename_i i rest hin; cases hs; exact Or.inl ⟨i, rest, hph, hin, rfl⟩
      · rename_i rest hin; cases hs; exact Or.inr (Or.inl ⟨rest, hph, hin, rfl⟩)
      · rename_i rest hin; cases hs; exact Or.inr (Or.inr (Or.inl ⟨rest, hph, hin, rfl⟩))
    · rename_i i hph
      split at hs
      · cases hs
      · rename_i c hc
        split at hs
        · rename_i d st hp; cases hs; exact Or.inr (Or.inr (Or.inr (Or.inl ⟨i, c, d, st, hph, hc, hp, rfl⟩)))
        · rename_i e hp; cases hs; exact Or.inr (Or.inr (Or.inr (Or.inr ⟨i, c, e, hph, hc, hp, rfl⟩)))
    · cases hs
  · cases hs

theorem step_mainRecv {w : Nat} (hs : step cfg s (.mainRecv w) = some s') :
    w < cfg.nWorkers ∧ s.isOpen w = true ∧
    ( (∃ i d rest, (s.workers w).outbox = .result i d :: rest ∧
          s' = { s.setW w { s.workers w with outbox := rest } with
                 writers := fun f => (s.writers f).write (d.getD f []) i, received := i :: s.received })
    ∨ (∃ st rest, (s.workers w).outbox = .done st :: rest ∧
          s' = { s.setW w { s.workers w with outbox := rest } with
                 mstats := cfg.add s.mstats st, isOpen := fun v => if v = w then false else s.isOpen v })
    ∨ (∃ rest, (s.workers w).outbox = .workerError :: rest ∧
          s' = { s.setW w { s.workers w with outbox := rest } with outcome := .failed })) := by
  simp only [step] at hs
  split at hs
  · rename_i hg
    refine ⟨hg.2.1, hg.2.2, ?_⟩
    split at hs
    · cases hs
    · rename_i i d rest ho; cases hs; exact Or.inl ⟨i, d, rest, ho, rfl⟩
    · rename_i st rest ho; cases hs; exact Or.inr (Or.inl ⟨st, rest, ho, rfl⟩)
    · rename_i rest ho; cases hs; exact Or.inr (Or.inr ⟨rest, ho, rfl⟩)
  · cases hs

theorem step_mainFinish (hs : step cfg s .mainFinish = some s') :
    allDone cfg s = true ∧ s' = { s with outcome := .ok } := by
  simp only [step] at hs
  split at hs
  · rename_i hg; cases hs; exact ⟨hg.2, rfl⟩
  · cases hs

/-! ## A change at one worker, of the queue, of the reader's counters, of `received` / `isOpen w` -/

theorem runInv_general {w : Nat} {W' : Worker Stats} (h : RunInv cfg s) (hw : w < cfg.nWorkers)
    (hwk : ∀ v, s'.workers v = if v = w then W' else s.workers v)
    (hnext : s'.next ≤ cfg.chunks.length)
    (hpp : 0 < s'.pills → s'.next = cfg.chunks.length ∧ cfg.readerFault = false)
    (hrf : s'.rfailed = s.rfailed) (hrfn : s.rfailed = true → s'.next = s.next)
    (hql : ∀ v, v ∈ s'.queue → v < cfg.nWorkers)
    (hqc : ∀ v, v ≠ w → s'.queue.count v = s.queue.count v)
    (hopen : ∀ v, v ≠ w → s'.isOpen v = s.isOpen v)
    (ha : ∀ i, cntWk i W' + s'.received.count i + (if i < s.next then 1 else 0) =
               cntWk i (s.workers w) + s.received.count i + (if i < s'.next then 1 else 0))
    (hb : QOk W'.phase (s'.queue.count w + nonErr W'.inbox))
    (hc : pillWk W' + s.pills = pillWk (s.workers w) + s'.pills)
    (hd : s.rfailed = true → W'.phase = .failed ∨ InMsg.readerError ∈ W'.inbox)
    (he : OutboxOk W' (s'.isOpen w))
    (hf : ∀ i d, OutMsg.result i d ∈ W'.outbox → ∃ st, outOf cfg i = some (d, st))
    (hg : W'.phase ≠ .failed → W'.lost = none) :
    RunInv cfg s' := by
  have hsame : s'.workers w = W' := by rw [hwk]; simp
  have hne : ∀ v, v ≠ w → s'.workers v = s.workers v := fun v hv => by rw [hwk]; simp [hv]
  refine ⟨hnext, hpp, ?_, ?_, ?_, hql, ?_, ?_, ?_, ?_, ?_⟩
  · intro hr
    rw [hrf] at hr
    have := h.rfailed hr
    rw [hrfn hr]; exact this
  · intro i
    have hsum := sumW_update (n := cfg.nWorkers) (w := w) (f := fun v => cntWk i (s.workers v)) (g := fun v => cntWk i (s'.workers v)) hw
      (fun v hv => by simp only [hne v hv])
    simp only [hsame] at hsum
    have h1 := h.once i
    have h2 := ha i
    omega
  · intro v hv
    by_cases hvw : v = w
    · subst hvw; rw [hsame]; exact hb
    · rw [hne v hvw, hqc v hvw]; exact h.queue v hv
  · have hsum := sumW_update (n := cfg.nWorkers) (w := w) (f := fun v => pillWk (s.workers v)) (g := fun v => pillWk (s'.workers v)) hw
      (fun v hv => by simp only [hne v hv])
    simp only [hsame] at hsum
    have h1 := h.pillsum
    omega
  · intro hr v hv
    rw [hrf] at hr
    by_cases hvw : v = w
    · subst hvw; rw [hsame]; exact hd hr
    · rw [hne v hvw]; exact h.rerr hr v hv
  · intro v hv
    by_cases hvw : v = w
    · subst hvw; rw [hsame]; exact he
    · rw [hne v hvw, hopen v hvw]; exact h.outbox v hv
  · intro v hv
    by_cases hvw : v = w
    · subst hvw; rw [hsame]; exact hf
    · rw [hne v hvw]; exact h.results v hv
  · intro v hv
    by_cases hvw : v = w
    · subst hvw; rw [hsame]; exact hg
    · rw [hne v hvw]; exact h.lost v hv

/-- a change at one worker (and possibly of `received` / `isOpen w`) only -/
theorem runInv_local {w : Nat} {W' : Worker Stats} (h : RunInv cfg s) (hw : w < cfg.nWorkers)
    (hwk : ∀ v, s'.workers v = if v = w then W' else s.workers v)
    (hnext : s'.next = s.next) (hpills : s'.pills = s.pills) (hrf : s'.rfailed = s.rfailed) (hqueue : s'.queue = s.queue)
    (hopen : ∀ v, v ≠ w → s'.isOpen v = s.isOpen v)
    (ha : ∀ i, cntWk i W' + s'.received.count i = cntWk i (s.workers w) + s.received.count i)
    (hb : QOk W'.phase (s.queue.count w + nonErr W'.inbox))
    (hc : pillWk W' = pillWk (s.workers w))
    (hd : s.rfailed = true → W'.phase = .failed ∨ InMsg.readerError ∈ W'.inbox)
    (he : OutboxOk W' (s'.isOpen w))
    (hf : ∀ i d, OutMsg.result i d ∈ W'.outbox → ∃ st, outOf cfg i = some (d, st))
    (hg : W'.phase ≠ .failed → W'.lost = none) :
    RunInv cfg s' :=
  runInv_general h hw hwk (by rw [hnext]; exact h.next_le) (by rw [hnext, hpills]; exact h.pills_pos) hrf (fun _ => hnext)
    (by rw [hqueue]; exact h.queue_lt) (fun _ _ => by rw [hqueue]) hopen
    (fun i => by have := ha i; rw [hnext]; omega) (by rw [hqueue]; exact hb) (by rw [hpills, hc]) hd he hf hg

/-- chunk indices that occur at a worker are below the reader's position -/
theorem RunInv.cnt_lt (h : RunInv cfg s) {w i : Nat} (hw : w < cfg.nWorkers) (hc : 0 < cntWk i (s.workers w)) : i < s.next := by
  have h1 := h.once i
  have h2 := sumW_pos (f := fun v => cntWk i (s.workers v)) hw hc
  by_cases hi : i < s.next
  · exact hi
  · simp only [hi, if_false] at h1; omega

/-! ## Worker actions -/

theorem runInv_workerRequest {w : Nat} (h : RunInv cfg s) (hs : step cfg s (.workerRequest w) = some s') : RunInv cfg s' := by
  obtain ⟨hw, hph, rfl⟩ := step_workerRequest hs
  have hq := h.queue w hw
  refine runInv_general h hw (fun _ => rfl) h.next_le h.pills_pos rfl (fun _ => rfl) ?_ ?_ (fun _ _ => rfl) ?_ ?_ ?_ ?_ ?_ ?_ ?_
  · intro v hv
    have hv : v ∈ s.queue ++ [w] := hv
    simp at hv
    rcases hv with hv | hv
    · exact h.queue_lt v hv
    · omega
  · intro v hv
    show (s.queue ++ [w]).count v = _
    rw [List.count_append, count_single_ne hv]; rfl
  · intro i
    show cntWk i _ + s.received.count i + _ = cntWk i _ + s.received.count i + (if i < s.next then 1 else 0)
    simp [cntWk, cntProc, hph]
  · show QOk Phase.requested ((s.queue ++ [w]).count w + nonErr (s.workers w).inbox)
    rw [List.count_append, count_single_self]
    simp only [hph, QOk] at hq
    simp only [QOk]; omega
  · simp [pillWk, hph]
  · intro hr
    have := h.rerr hr w hw
    simpa [hph] using this
  · have ho := h.outbox w hw
    simp only [OutboxOk, hph] at ho
    simpa [OutboxOk] using ho
  · exact h.results w hw
  · intro _; exact h.lost w hw (by simp [hph])

theorem runInv_readerSend (h : RunInv cfg s) (hs : step cfg s .readerSend = some s') : RunInv cfg s' := by
  obtain ⟨hrf, hlt, w, q, hq, rfl⟩ := step_readerSend hs
  have hw : w < cfg.nWorkers := h.queue_lt w (by simp [hq])
  have hqw := h.queue w hw
  refine runInv_general h hw (fun _ => rfl) (by show s.next + 1 ≤ _; omega) ?_ rfl ?_ ?_ ?_ (fun _ _ => rfl) ?_ ?_ ?_ ?_ ?_ ?_ ?_
  · intro hp
    have := (h.pills_pos hp).1
    omega
  · intro hr; rw [hrf] at hr; cases hr
  · intro v hv
    exact h.queue_lt v (by rw [hq]; exact List.mem_cons_of_mem _ hv)
  · intro v hv
    show q.count v = s.queue.count v
    rw [hq, List.count_cons]
    have : ¬ w = v := fun e => hv e.symm
    simp [this]
  · intro i
    show cntWk i _ + s.received.count i + _ = _ + _ + (if i < s.next + 1 then 1 else 0)
    simp only [cntWk, List.count_append, List.count_cons, List.count_nil]
    by_cases hi : s.next = i
    · subst hi; simp
      omega
    · have : ¬ (InMsg.chunk s.next == InMsg.chunk i) = true := by simp [hi]
      simp only [this, if_false]
      by_cases h1 : i < s.next
      · have : i < s.next + 1 := by omega
        simp [h1, this]
      · have : ¬ i < s.next + 1 := by omega
        simp [h1, this]
  · show QOk (s.workers w).phase (q.count w + nonErr ((s.workers w).inbox ++ [.chunk s.next]))
    rw [hq, List.count_cons] at hqw
    simp only [BEq.rfl, if_true] at hqw
    rw [nonErr_append]
    simp only [nonErr]
    have : q.count w + (nonErr (s.workers w).inbox + (0 + 1)) = q.count w + 1 + nonErr (s.workers w).inbox := by omega
    rw [this]; exact hqw
  · simp [pillWk, List.count_append, List.count_cons]
  · intro hr; rw [hrf] at hr; cases hr
  · exact h.outbox w hw
  · exact h.results w hw
  · exact h.lost w hw

theorem runInv_readerPill (h : RunInv cfg s) (hs : step cfg s .readerPill = some s') : RunInv cfg s' := by
  obtain ⟨hrf, hnf, hnext, hpl, w, q, hq, rfl⟩ := step_readerPill hs
  have hw : w < cfg.nWorkers := h.queue_lt w (by simp [hq])
  have hqw := h.queue w hw
  refine runInv_general h hw (fun _ => rfl) h.next_le (fun _ => ⟨hnext, hnf⟩) rfl (fun _ => rfl) ?_ ?_ (fun _ _ => rfl) ?_ ?_ ?_ ?_ ?_ ?_ ?_
  · intro v hv
    exact h.queue_lt v (by rw [hq]; exact List.mem_cons_of_mem _ hv)
  · intro v hv
    show q.count v = s.queue.count v
    rw [hq, List.count_cons]
    have : ¬ w = v := fun e => hv e.symm
    simp [this]
  · intro i
    show cntWk i _ + s.received.count i + _ = _ + _ + (if i < s.next then 1 else 0)
    simp [cntWk, List.count_append, List.count_cons]
  · show QOk (s.workers w).phase (q.count w + nonErr ((s.workers w).inbox ++ [.pill]))
    rw [hq, List.count_cons] at hqw
    simp only [BEq.rfl, if_true] at hqw
    rw [nonErr_append]
    simp only [nonErr]
    have : q.count w + (nonErr (s.workers w).inbox + (0 + 1)) = q.count w + 1 + nonErr (s.workers w).inbox := by omega
    rw [this]; exact hqw
  · show pillWk _ + s.pills = _ + (s.pills + 1)
    simp [pillWk, List.count_append]
    omega
  · intro hr; rw [hrf] at hr; cases hr
  · exact h.outbox w hw
  · exact h.results w hw
  · exact h.lost w hw

theorem runInv_workerStep {w : Nat} (h : RunInv cfg s) (hs : step cfg s (.workerStep w) = some s') : RunInv cfg s' := by
  obtain ⟨hw, hcase⟩ := step_workerStep hs
  have hq := h.queue w hw
  have ho := h.outbox w hw
  have hr := h.results w hw
  have hl := h.lost w hw
  have hwk : ∀ (W' : Worker Stats) v, (s.setW w W').workers v = if v = w then W' else s.workers v := fun W' v => rfl
  rcases hcase with ⟨i, rest, hph, hin, rfl⟩ | ⟨rest, hph, hin, rfl⟩ | ⟨rest, hph, hin, rfl⟩ | ⟨i, c, d, st, hph, hc, hp, rfl⟩ | ⟨i, c, e, hph, hc, hp, rfl⟩
  · -- received a chunk
    refine runInv_local h hw (hwk _) rfl rfl rfl rfl (fun _ _ => rfl) ?_ ?_ ?_ ?_ ?_ ?_ ?_
    · intro j
      simp only [cntWk, hin, hph, cntProc, setW_received, List.count_cons]
      by_cases hj : i = j
      · subst hj; simp
      · simp [hj]
    · simp only [hph, hin, nonErr, QOk] at hq
      simp only [QOk]; omega
    · simp [pillWk, hin, hph, List.count_cons]
    · intro hrf
      have := h.rerr hrf w hw
      simpa [hph, hin] using this
    · simp only [OutboxOk, hph] at ho
      simpa [OutboxOk] using ho
    · exact hr
    · intro _; exact hl (by simp [hph])
  · -- received the pill
    refine runInv_local h hw (hwk _) rfl rfl rfl rfl (fun _ _ => rfl) ?_ ?_ ?_ ?_ ?_ ?_ ?_
    · intro j
      simp [cntWk, hin, hph, cntProc, cntRes_append, cntRes, List.count_cons]
    · simp only [hph, hin, nonErr, QOk] at hq
      simp only [QOk]; omega
    · simp [pillWk, hin, hph]
    · intro hrf
      have := h.rfailed hrf
      have hp : 0 < s.pills := by
        rw [h.pillsum]
        exact sumW_pos (f := fun v => pillWk (s.workers v)) hw (by simp [pillWk, hin]; omega)
      have := h.pills_pos hp
      simp_all
    · simp only [OutboxOk, hph] at ho
      simp only [OutboxOk, setW_isOpen]
      refine ⟨fun _ => ⟨_, rfl, ho.2⟩, fun hcl => ?_⟩
      rw [ho.1] at hcl; cases hcl
    · intro j d hm
      simp at hm
      exact hr j d hm
    · intro _; exact hl (by simp [hph])
  · -- received the reader's error
    refine runInv_local h hw (hwk _) rfl rfl rfl rfl (fun _ _ => rfl) ?_ ?_ ?_ ?_ ?_ ?_ ?_
    · intro j
      simp [cntWk, hin, hph, cntProc, cntRes_append, cntRes, List.count_cons]
    · simp only [hph, hin, nonErr, QOk] at hq
      simp only [QOk]; omega
    · simp [pillWk, hin, hph, List.count_cons]
    · intro _; exact Or.inl rfl
    · simp only [OutboxOk, hph] at ho
      simp only [OutboxOk, setW_isOpen]
      exact ⟨ho.1, _, rfl, ho.2⟩
    · intro j d hm
      simp at hm
      exact hr j d hm
    · intro hc; exact absurd rfl hc
  · -- processed a chunk
    refine runInv_local h hw (hwk _) rfl rfl rfl rfl (fun _ _ => rfl) ?_ ?_ ?_ ?_ ?_ ?_ ?_
    · intro j
      simp only [cntWk, hph, cntProc, cntRes_append, cntRes, setW_received]
      omega
    · simp only [hph, QOk] at hq
      simp only [QOk]; omega
    · simp [pillWk, hph]
    · intro hrf
      have := h.rerr hrf w hw
      simpa [hph] using this
    · simp only [OutboxOk, hph] at ho
      simp only [OutboxOk, setW_isOpen]
      exact ⟨ho.1, resultsOnly_append ho.2 (resultsOnly_single i d)⟩
    · intro j d' hm
      simp at hm
      rcases hm with hm | ⟨rfl, rfl⟩
      · exact hr j d' hm
      · exact ⟨st, by simp [outOf, hc, hp]⟩
    · intro _; exact hl (by simp [hph])
  · -- processing faulted
    refine runInv_local h hw (hwk _) rfl rfl rfl rfl (fun _ _ => rfl) ?_ ?_ ?_ ?_ ?_ ?_ ?_
    · intro j
      have hl0 := hl (by simp [hph])
      simp only [cntWk, hph, cntProc, cntRes_append, cntRes, setW_received, hl0]
      simp only [Option.some.injEq, reduceCtorEq, if_false]
      omega
    · simp only [hph, QOk] at hq
      simp only [QOk]; omega
    · simp [pillWk, hph]
    · intro _; exact Or.inl rfl
    · simp only [OutboxOk, hph] at ho
      simp only [OutboxOk, setW_isOpen]
      exact ⟨ho.1, _, rfl, ho.2⟩
    · intro j d hm
      simp at hm
      exact hr j d hm
    · intro hc; exact absurd rfl hc

/-! ## The reader's fault -/

theorem runInv_readerFault (h : RunInv cfg s) (hs : step cfg s .readerFault = some s') : RunInv cfg s' := by
  obtain ⟨_, hrf, hnext, rfl⟩ := step_readerFault hs
  have hwk : ∀ v, v < cfg.nWorkers →
      (if v < cfg.nWorkers then ({ s.workers v with inbox := (s.workers v).inbox ++ [.readerError] } : Worker Stats) else s.workers v)
        = { s.workers v with inbox := (s.workers v).inbox ++ [.readerError] } := fun v hv => by simp [hv]
  refine ⟨h.next_le, h.pills_pos, fun _ => ⟨hrf, hnext⟩, ?_, ?_, h.queue_lt, ?_, ?_, ?_, ?_, ?_⟩
  · intro i
    have := sumW_congr (n := cfg.nWorkers) (f := fun v => cntWk i (s.workers v))
      (g := fun v => cntWk i (if v < cfg.nWorkers then ({ s.workers v with inbox := (s.workers v).inbox ++ [.readerError] } : Worker Stats) else s.workers v))
      (fun v hv => by simp [hwk v hv, cntWk, List.count_append, List.count_cons])
    show sumW _ _ + s.received.count i = if i < s.next then 1 else 0
    rw [this]; exact h.once i
  · intro v hv
    show QOk (if v < cfg.nWorkers then ({ s.workers v with inbox := (s.workers v).inbox ++ [.readerError] } : Worker Stats) else s.workers v).phase
      (s.queue.count v + nonErr (if v < cfg.nWorkers then ({ s.workers v with inbox := (s.workers v).inbox ++ [.readerError] } : Worker Stats) else s.workers v).inbox)
    rw [hwk v hv]
    simp only [nonErr_append, nonErr, Nat.add_zero]
    exact h.queue v hv
  · have := sumW_congr (n := cfg.nWorkers) (f := fun v => pillWk (s.workers v))
      (g := fun v => pillWk (if v < cfg.nWorkers then ({ s.workers v with inbox := (s.workers v).inbox ++ [.readerError] } : Worker Stats) else s.workers v))
      (fun v hv => by simp [hwk v hv, pillWk, List.count_append, List.count_cons])
    show s.pills = sumW _ _
    rw [this]; exact h.pillsum
  · intro _ v hv
    show _ ∨ InMsg.readerError ∈ (if v < cfg.nWorkers then ({ s.workers v with inbox := (s.workers v).inbox ++ [.readerError] } : Worker Stats) else s.workers v).inbox
    rw [hwk v hv]
    exact Or.inr (by simp)
  · intro v hv
    show OutboxOk (if v < cfg.nWorkers then ({ s.workers v with inbox := (s.workers v).inbox ++ [.readerError] } : Worker Stats) else s.workers v) (s.isOpen v)
    rw [hwk v hv]
    exact h.outbox v hv
  · intro v hv
    show ∀ i d, OutMsg.result i d ∈ (if v < cfg.nWorkers then ({ s.workers v with inbox := (s.workers v).inbox ++ [.readerError] } : Worker Stats) else s.workers v).outbox → _
    rw [hwk v hv]
    exact h.results v hv
  · intro v hv
    show (if v < cfg.nWorkers then ({ s.workers v with inbox := (s.workers v).inbox ++ [.readerError] } : Worker Stats) else s.workers v).phase ≠ .failed →
      (if v < cfg.nWorkers then ({ s.workers v with inbox := (s.workers v).inbox ++ [.readerError] } : Worker Stats) else s.workers v).lost = none
    rw [hwk v hv]
    exact h.lost v hv

/-! ## The main process receives -/

theorem cons_eq_append_single {α : Type} {m x : α} {rest pre : List α} (h : m :: rest = pre ++ [x]) (hne : m ≠ x) :
    ∃ pre', pre = m :: pre' ∧ rest = pre' ++ [x] := by
  cases pre with
  | nil => simp at h; exact absurd h.1 hne
  | cons a pre' => simp at h; exact ⟨pre', by rw [h.1], h.2⟩

/-- taking a result from the head of an outbox keeps its shape -/
theorem outboxOk_tail {W : Worker Stats} {o : Bool} {i : Nat} {d : List Bytes} {rest : List (OutMsg Stats)}
    (h : OutboxOk W o) (ho : W.outbox = .result i d :: rest) : OutboxOk { W with outbox := rest } o := by
  unfold OutboxOk at h ⊢
  split at h
  · rename_i hph
    simp only [hph]
    refine ⟨fun hop => ?_, fun hcl => ?_⟩
    · obtain ⟨pre, hpre, hres⟩ := h.1 hop
      rw [ho] at hpre
      obtain ⟨pre', rfl, hr⟩ := cons_eq_append_single hpre (by simp)
      exact ⟨pre', hr, resultsOnly_tail hres⟩
    · have := h.2 hcl; rw [ho] at this; cases this
  · rename_i hph
    simp only [hph]
    obtain ⟨hop, pre, hpre, hres⟩ := h
    rw [ho] at hpre
    obtain ⟨pre', rfl, hr⟩ := cons_eq_append_single hpre (by simp)
    exact ⟨hop, pre', hr, resultsOnly_tail hres⟩
  · rename_i hph1 hph2
    rw [ho] at h
    exact ⟨h.1, resultsOnly_tail h.2⟩

/-- a `done` at the head of an outbox is the whole outbox, the worker has finished and the statistics are its own -/
theorem outboxOk_done {W : Worker Stats} {o : Bool} {st : Stats} {rest : List (OutMsg Stats)}
    (h : OutboxOk W o) (hop : o = true) (ho : W.outbox = .done st :: rest) : W.phase = .finished ∧ rest = [] ∧ st = W.stats := by
  unfold OutboxOk at h
  split at h
  · rename_i hph
    obtain ⟨pre, hpre, hres⟩ := h.1 hop
    rw [ho] at hpre
    cases pre with
    | nil => simp at hpre; exact ⟨hph, hpre.2, hpre.1⟩
    | cons a pre' =>
      simp at hpre
      obtain ⟨i, d, hm⟩ := hres a (by simp)
      rw [← hpre.1] at hm; cases hm
  · obtain ⟨_, pre, hpre, hres⟩ := h
    rw [ho] at hpre
    cases pre with
    | nil => simp at hpre
    | cons a pre' =>
      simp at hpre
      obtain ⟨i, d, hm⟩ := hres a (by simp)
      rw [← hpre.1] at hm; cases hm
  · obtain ⟨i, d, hm⟩ := h.2 (.done st) (by rw [ho]; simp)
    cases hm

theorem runInv_mainRecv {w : Nat} (h : RunInv cfg s) (hs : step cfg s (.mainRecv w) = some s') (hrun : s'.outcome = .running) :
    RunInv cfg s' := by
  obtain ⟨hw, hop, hcase⟩ := step_mainRecv hs
  have ho := h.outbox w hw
  have hr := h.results w hw
  have hwk : ∀ (W' : Worker Stats) v, (s.setW w W').workers v = if v = w then W' else s.workers v := fun W' v => rfl
  rcases hcase with ⟨i, d, rest, hout, rfl⟩ | ⟨st, rest, hout, rfl⟩ | ⟨rest, hout, rfl⟩
  · refine runInv_local h hw (hwk _) rfl rfl rfl rfl (fun _ _ => rfl) ?_ (h.queue w hw) ?_ (h.rerr · w hw) ?_ ?_ (h.lost w hw)
    · intro j
      show cntWk j _ + (i :: s.received).count j = _
      simp only [cntWk, hout, cntRes, List.count_cons]
      by_cases hj : i = j
      · subst hj; simp; omega
      · simp [hj]
    · simp [pillWk]
    · exact outboxOk_tail ho hout
    · intro j d' hm
      exact hr j d' (by rw [hout]; exact List.mem_cons_of_mem _ hm)
  · obtain ⟨hph, hrest, hst⟩ := outboxOk_done ho hop hout
    refine runInv_local h hw (hwk _) rfl rfl rfl rfl (fun v hv => ?_) ?_ (h.queue w hw) ?_ (h.rerr · w hw) ?_ ?_ (h.lost w hw)
    · show (if v = w then false else s.isOpen v) = s.isOpen v
      simp [hv]
    · intro j
      show cntWk j _ + s.received.count j = _
      simp [cntWk, hout, cntRes]
    · simp [pillWk]
    · show OutboxOk _ (if w = w then false else s.isOpen w)
      simp [OutboxOk, hph, hrest]
    · intro j d' hm
      exact hr j d' (by rw [hout]; exact List.mem_cons_of_mem _ hm)
  · cases hrun

/-! ## `SafeInv` -/

theorem safeInv_step {a : Action} (h : RunInv cfg s) (hsafe : SafeInv cfg s) (hs : step cfg s a = some s') : SafeInv cfg s' := by
  cases a with
  | workerRequest w => obtain ⟨_, _, rfl⟩ := step_workerRequest hs; exact ⟨hsafe.writers, hsafe.recvOk⟩
  | readerSend => obtain ⟨_, _, w, q, _, rfl⟩ := step_readerSend hs; exact ⟨hsafe.writers, hsafe.recvOk⟩
  | readerPill => obtain ⟨_, _, _, _, w, q, _, rfl⟩ := step_readerPill hs; exact ⟨hsafe.writers, hsafe.recvOk⟩
  | readerFault => obtain ⟨_, _, _, rfl⟩ := step_readerFault hs; exact ⟨hsafe.writers, hsafe.recvOk⟩
  | workerStep w =>
    obtain ⟨_, hcase⟩ := step_workerStep hs
    rcases hcase with ⟨_, _, _, _, rfl⟩ | ⟨_, _, _, rfl⟩ | ⟨_, _, _, rfl⟩ | ⟨_, _, _, _, _, _, _, rfl⟩ | ⟨_, _, _, _, _, _, rfl⟩ <;>
      exact ⟨hsafe.writers, hsafe.recvOk⟩
  | mainFinish => obtain ⟨_, rfl⟩ := step_mainFinish hs; exact ⟨hsafe.writers, hsafe.recvOk⟩
  | mainRecv w =>
    obtain ⟨hw, hop, hcase⟩ := step_mainRecv hs
    rcases hcase with ⟨i, d, rest, hout, rfl⟩ | ⟨st, rest, hout, rfl⟩ | ⟨rest, hout, rfl⟩
    · obtain ⟨st, hst⟩ := h.results w hw i d (by rw [hout]; simp)
      have hnot : i ∉ s.received := by
        have h1 := h.once i
        have h2 := sumW_pos (f := fun v => cntWk i (s.workers v)) hw (by simp [cntWk, hout, cntRes]; omega)
        intro hm
        have := List.count_pos_iff.mpr hm
        split at h1 <;> omega
      refine ⟨fun f => ?_, fun j hj => ?_⟩
      · have hd : d.getD f [] = outData cfg i f := by simp [outData, hst]
        show WInv _ ((s.writers f).write (d.getD f []) i) (fun j => j ∈ i :: s.received)
        rw [hd]
        exact (write_spec (hsafe.writers f) i hnot).congr (fun j => by simp)
      · have hj : j ∈ i :: s.received := hj
        rcases List.mem_cons.mp hj with rfl | hj
        · simp [hst]
        · exact hsafe.recvOk j hj
    · exact ⟨hsafe.writers, hsafe.recvOk⟩
    · exact ⟨hsafe.writers, hsafe.recvOk⟩

/-- `RunInv` is preserved by every action that leaves the main process in its loop -/
theorem runInv_step {a : Action} (h : RunInv cfg s) (hs : step cfg s a = some s') (hrun : s'.outcome = .running) : RunInv cfg s' := by
  cases a with
  | workerRequest w => exact runInv_workerRequest h hs
  | readerSend => exact runInv_readerSend h hs
  | readerPill => exact runInv_readerPill h hs
  | readerFault => exact runInv_readerFault h hs
  | workerStep w => exact runInv_workerStep h hs
  | mainRecv w => exact runInv_mainRecv h hs hrun
  | mainFinish => obtain ⟨_, rfl⟩ := step_mainFinish hs; cases hrun

end Cutadapt.Runner
