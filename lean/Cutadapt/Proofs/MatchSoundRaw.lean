import Cutadapt.Proofs.MatchSoundTables
import Cutadapt.Proofs.MatchSoundScript
import Cutadapt.Proofs.AlignSoundMain
/-! C01, part 3: soundness of `locate` and of the comparers in the documented vocabulary. -/
namespace Cutadapt.MatchSound
open Cutadapt Cutadapt.Align Cutadapt.Spec Cutadapt.Generated Cutadapt.Adapters

/-- a reported alignment is a genuine in-tolerance occurrence (everything except the placement rule) -/
structure RawSound (aw rw : Bool) (c : Nat) (thr : Nat → Nat) (mo : Nat) (seq read : Bytes)
    (as ae rs re e : Nat) : Prop where
  bounds : as ≤ ae ∧ ae ≤ seq.length ∧ rs ≤ re ∧ re ≤ read.length
  overlap : mo ≤ ae - as
  script : ∃ s, lhs s = seg seq as ae ∧ rhs s = seg read rs re ∧ cost (docMatch aw rw) c s ≤ e
  tolerance : e ≤ thr (Spec.effLen aw seq as ae)

theorem RawSound.reverse {aw rw : Bool} {c : Nat} {thr : Nat → Nat} {mo : Nat} {seq read : Bytes}
    {as ae rs re e : Nat} (h : RawSound aw rw c thr mo seq.reverse read.reverse as ae rs re e) :
    RawSound aw rw c thr mo seq read (seq.length - ae) (seq.length - as) (read.length - re) (read.length - rs) e := by
  obtain ⟨⟨b1, b2, b3, b4⟩, hov, ⟨s, hl, hr, hc⟩, htol⟩ := h
  rw [List.length_reverse] at b2 b4
  refine ⟨⟨by omega, by omega, by omega, by omega⟩, by omega, ⟨s.reverse, ?_, ?_, ?_⟩, ?_⟩
  · rw [lhs_reverse, hl, seg_reverse _ _ _ b1 b2, List.reverse_reverse]
  · rw [rhs_reverse, hr, seg_reverse _ _ _ b3 b4, List.reverse_reverse]
  · rw [cost_reverse]; exact hc
  · rw [spec_effLen_reverse _ _ _ _ b1 b2] at htol; exact htol

theorem RawSound.upperRead {aw rw : Bool} {c : Nat} {thr : Nat → Nat} {mo : Nat} {seq read : Bytes}
    {as ae rs re e : Nat} (h : RawSound aw rw c thr mo seq (read.map asciiUpper) as ae rs re e) :
    RawSound aw rw c thr mo seq read as ae rs re e := by
  obtain ⟨⟨b1, b2, b3, b4⟩, hov, ⟨s, hl, hr, hc⟩, htol⟩ := h
  rw [List.length_map] at b4
  refine ⟨⟨b1, b2, b3, b4⟩, hov, ?_, htol⟩
  rw [seg_map] at hr
  obtain ⟨s', h1, h2, h3⟩ := script_unmap id asciiUpper s (seg seq as ae) (seg read rs re) (by simpa using hl) hr
  refine ⟨s', h1, h2, ?_⟩
  rw [h3 (docMatch aw rw) (docMatch aw rw) c (fun x _ y => (docMatch_upper aw rw x y).symm)]
  exact hc

theorem indelCost_pos (a : Adapter) : 1 ≤ indelCost a := by
  unfold indelCost; split <;> decide

theorem locate_raw (a : Adapter) (flags : Nat) (seq read : Bytes) (hlen : seq.length = a.seq.length)
    (hup : ∀ c ∈ seq, ¬ (97 ≤ c ∧ c ≤ 122)) (hmono : ∀ x y, x ≤ y → a.thr x ≤ a.thr y)
    {as ae rs re : Nat} {sc : Int} {e : Nat}
    (h : locate (alignerCfg a flags) seq read = some (as, ae, rs, re, sc, e)) :
    SoundResult (alignerCfg a flags) seq read as ae rs re e ∧
    RawSound a.adapterWildcards a.readWildcards (indelCost a) a.thr a.minOverlap seq read as ae rs re e := by
  have hwf : (alignerCfg a flags).WF seq.length :=
    ⟨indelCost_pos a, hmono, by rw [hlen]; rfl⟩
  have hs := locate_sound _ _ _ hwf h
  refine ⟨hs, ⟨hs.h_as, hs.h_ae, hs.h_rs, hs.h_re⟩, hs.overlap, ?_, ?_⟩
  · obtain ⟨s, hl, hr, hc⟩ := hs.script
    rw [encodeRef_eq_map, seg_map] at hl
    rw [encodeQuery_eq_map, seg_map] at hr
    obtain ⟨s', h1, h2, h3⟩ := script_unmap _ _ s _ _ hl hr
    refine ⟨s', h1, h2, ?_⟩
    have := h3 (alignerCfg a flags).eq (docMatch a.adapterWildcards a.readWildcards) (indelCost a)
      (fun x hx y => docMatch_eq_aligner a.adapterWildcards a.readWildcards x y (hup x (mem_of_mem_seg hx)))
    rw [this]; exact hc
  · have := hs.tolerance
    rw [align_effLen_eq _ _ _ _ hs.h_as hs.h_ae] at this
    exact this

/-! ### flag bits of `alignerCfg` -/

theorem startInRef_eq (a : Adapter) (flags : Nat) : (alignerCfg a flags).startInRef = (flags &&& 1 != 0) := rfl
theorem startInQuery_eq (a : Adapter) (flags : Nat) : (alignerCfg a flags).startInQuery = (flags &&& 2 != 0) := rfl
theorem stopInRef_eq (a : Adapter) (flags : Nat) : (alignerCfg a flags).stopInRef = (flags &&& 4 != 0) := rfl
theorem stopInQuery_eq (a : Adapter) (flags : Nat) : (alignerCfg a flags).stopInQuery = (flags &&& 8 != 0) := rfl

/-- evaluates one `EndSkip` bit of the flag set of a concrete adapter class -/
macro "flagbit" : tactic =>
  `(tactic| (simp only [startInRef_eq, startInQuery_eq, stopInRef_eq, stopInQuery_eq, flagsOf,
      Bool.false_eq_true, if_false]; decide))

/-! ### the comparers -/

theorem hamming_take (eq : Sym → Sym → Bool) : ∀ (xs ys : List Sym), hamming eq xs ys = hamming eq xs (ys.take xs.length)
  | [], _ => by simp [hamming]
  | _ :: _, [] => by simp [hamming]
  | x :: xs, y :: ys => by
    simp only [hamming, List.length_cons, List.take_succ_cons, ← hamming_take eq xs ys]

theorem cmpEffLen_eq (a : Adapter) (seq : Bytes) (hup : ∀ c ∈ seq, ¬ (97 ≤ c ∧ c ≤ 122)) :
    cmpEffLen (cmpCfg a) seq = Spec.effLen a.adapterWildcards seq 0 seq.length := by
  unfold cmpEffLen Spec.effLen
  show (if a.adapterWildcards = true then _ else _) = _
  split
  · rw [seg_zero_length]
    have h110 : seq.filter (· == 110) = [] := by
      rw [List.filter_eq_nil_iff]
      intro x hx hx110
      have : x = 110 := by simpa using hx110
      subst this
      exact hup _ hx (by decide)
    have hcongr : seq.filter (fun c => !(c == 78 || c == 110)) = seq.filter (fun c => !(c == 78)) := by
      apply List.filter_congr
      intro x hx
      have : (x == 110) = false := by
        cases h : x == 110
        · rfl
        · have : x = 110 := by simpa using h
          subst this
          exact absurd (by decide) (hup _ hx)
      rw [this, Bool.or_false]
    have hsplit := filter_split (· == 78) seq
    rw [h110, hcongr]
    simp only [List.length_nil]
    omega
  · omega

theorem comparePrefix_raw (a : Adapter) (c : Nat) (seq read : Bytes) (hup : ∀ x ∈ seq, ¬ (97 ≤ x ∧ x ≤ 122))
    (hmo : a.minOverlap = seq.length) {as ae rs re : Nat} {sc : Int} {e : Nat}
    (h : comparePrefix (cmpCfg a) seq read = some (as, ae, rs, re, sc, e)) :
    as = 0 ∧ ae = seq.length ∧ rs = 0 ∧ re = seq.length ∧ seq.length ≤ read.length ∧
    e = hamming (docMatch a.adapterWildcards a.readWildcards) seq (seg read 0 seq.length) ∧
    RawSound a.adapterWildcards a.readWildcards c a.thr a.minOverlap seq read 0 seq.length 0 seq.length e := by
  unfold comparePrefix at h
  simp only [cmpEncodeRef_eq_map, cmpEncodeQuery_eq_map, List.length_map] at h
  split at h
  · cases h
  · next hcond =>
    simp only [Bool.or_eq_true, decide_eq_true_eq, not_or, Nat.not_lt] at hcond
    obtain ⟨herr, hlen⟩ := hcond
    have hmo' : (cmpCfg a).minOverlap = seq.length := hmo
    rw [hmo'] at hlen
    have hle : seq.length ≤ read.length := by omega
    have hmin : min seq.length read.length = seq.length := by omega
    rw [hmin] at h
    simp only [Option.some.injEq, Prod.mk.injEq] at h
    obtain ⟨h1, h2, h3, h4, _, h6⟩ := h
    have hseg : seg read 0 seq.length = read.take seq.length := by simp [seg]
    have hham : e = hamming (docMatch a.adapterWildcards a.readWildcards) seq (seg read 0 seq.length) := by
      rw [← h6, hseg, ← hamming_take]
      exact mismatches_map _ _ _ _ (fun x y => docMatch_eq_comparer a.adapterWildcards a.readWildcards x y) seq read
    refine ⟨h1.symm, h2.symm, h3.symm, h4.symm, hle, hham, ⟨by omega, by omega, by omega, hle⟩, by omega, ?_, ?_⟩
    · obtain ⟨s, hl, hr, hc⟩ := sub_script (docMatch a.adapterWildcards a.readWildcards) c seq
        (seg read 0 seq.length) (by rw [seg_length' _ _ _ hle]; omega)
      exact ⟨s, by rw [hl, seg_zero_length], hr, by rw [hc, hham]; exact Nat.le_refl _⟩
    · rw [← cmpEffLen_eq a seq hup, ← h6]
      exact herr

end Cutadapt.MatchSound
