import Cutadapt.Proofs.RunnerSums
import Cutadapt.Proofs.RunnerWriter
/-! Inductive invariants of the multi-core protocol (`Cutadapt/Runner.lean`). -/
namespace Cutadapt.Runner

variable {Chunk Stats Fault : Type}

/-! ## Per-worker counters -/

/-- results for chunk `i` in an outbox -/
def cntRes (i : Nat) : List (OutMsg Stats) → Nat
  | [] => 0
  | .result j _ :: r => (if j = i then 1 else 0) + cntRes i r
  | .done _ :: r => cntRes i r
  | .workerError :: r => cntRes i r

def cntProc (i : Nat) : Phase → Nat
  | .processing j => if j = i then 1 else 0
  | _ => 0

/-- occurrences of chunk `i` at worker `W`: waiting in the inbox, being processed, result waiting in the outbox,
    or lost because the worker raised while processing it -/
def cntWk (i : Nat) (W : Worker Stats) : Nat :=
  W.inbox.count (.chunk i) + cntProc i W.phase + cntRes i W.outbox + (if W.lost = some i then 1 else 0)

/-- messages other than the reader's error in an inbox -/
def nonErr : List InMsg → Nat
  | [] => 0
  | .readerError :: r => nonErr r
  | .chunk _ :: r => nonErr r + 1
  | .pill :: r => nonErr r + 1

/-- pills addressed to worker `W`: still in the inbox, or consumed -/
def pillWk (W : Worker Stats) : Nat :=
  W.inbox.count .pill + (if W.phase = .finished then 1 else 0)

def resultsOnly (l : List (OutMsg Stats)) : Prop := ∀ m, m ∈ l → ∃ i d, m = .result i d

/-- shape of a worker's outbox: results, followed by `done stats` once it has finished (until the main process has
    taken it and closed the connection) or by the error once it has failed -/
def OutboxOk (W : Worker Stats) (isOpen : Bool) : Prop :=
  match W.phase with
  | .finished => (isOpen = true → ∃ pre, W.outbox = pre ++ [.done W.stats] ∧ resultsOnly pre) ∧ (isOpen = false → W.outbox = [])
  | .failed => isOpen = true ∧ ∃ pre, W.outbox = pre ++ [.workerError] ∧ resultsOnly pre
  | _ => isOpen = true ∧ resultsOnly W.outbox

/-- requests on the queue plus answers in the inbox: exactly one while the worker is blocked in `recv`, none otherwise
    (a worker that failed on the reader's error may leave its last request behind) -/
def QOk (p : Phase) (k : Nat) : Prop :=
  match p with
  | .requested => k = 1
  | .failed => k ≤ 1
  | _ => k = 0

theorem cntRes_append (i : Nat) (a b : List (OutMsg Stats)) : cntRes i (a ++ b) = cntRes i a + cntRes i b := by
  induction a with
  | nil => simp [cntRes]
  | cons m r ih => cases m <;> simp [cntRes, ih] <;> omega

theorem nonErr_append (a b : List InMsg) : nonErr (a ++ b) = nonErr a + nonErr b := by
  induction a with
  | nil => simp [nonErr]
  | cons m r ih => cases m <;> simp [nonErr, ih] <;> omega

theorem count_chunk_le_nonErr (i : Nat) (l : List InMsg) : l.count (.chunk i) ≤ nonErr l := by
  induction l with
  | nil => simp [nonErr]
  | cons m r ih => cases m <;> simp [nonErr, List.count_cons] <;> (try split) <;> omega

theorem count_pill_le_nonErr (l : List InMsg) : l.count .pill ≤ nonErr l := by
  induction l with
  | nil => simp [nonErr]
  | cons m r ih => cases m <;> simp [nonErr] <;> omega

theorem resultsOnly_nil : resultsOnly ([] : List (OutMsg Stats)) := fun _ h => by simp at h

theorem resultsOnly_append {a b : List (OutMsg Stats)} (ha : resultsOnly a) (hb : resultsOnly b) : resultsOnly (a ++ b) := by
  intro m hm
  rcases List.mem_append.mp hm with h | h
  · exact ha m h
  · exact hb m h

theorem resultsOnly_single (i : Nat) (d : List Bytes) : resultsOnly ([.result i d] : List (OutMsg Stats)) := by
  intro m hm; simp at hm; exact ⟨i, d, hm⟩

theorem resultsOnly_tail {m : OutMsg Stats} {r : List (OutMsg Stats)} (h : resultsOnly (m :: r)) : resultsOnly r :=
  fun x hx => h x (List.mem_cons_of_mem _ hx)

/-! ## The invariant that holds while the main process is in its loop -/

structure RunInv (cfg : Config Chunk Stats Fault) (s : State Stats) : Prop where
  next_le : s.next ≤ cfg.chunks.length
  pills_pos : 0 < s.pills → s.next = cfg.chunks.length ∧ cfg.readerFault = false
  rfailed : s.rfailed = true → cfg.readerFault = true ∧ s.next = cfg.chunks.length
  /-- `each_chunk_once` -/
  once : ∀ i, sumW cfg.nWorkers (fun w => cntWk i (s.workers w)) + s.received.count i = if i < s.next then 1 else 0
  /-- a worker is on the queue or has an answer waiting exactly while it is blocked in `recv` -/
  queue : ∀ w, w < cfg.nWorkers → QOk (s.workers w).phase (s.queue.count w + nonErr (s.workers w).inbox)
  queue_lt : ∀ w, w ∈ s.queue → w < cfg.nWorkers
  pillsum : s.pills = sumW cfg.nWorkers (fun w => pillWk (s.workers w))
  rerr : s.rfailed = true → ∀ w, w < cfg.nWorkers → (s.workers w).phase = .failed ∨ InMsg.readerError ∈ (s.workers w).inbox
  outbox : ∀ w, w < cfg.nWorkers → OutboxOk (s.workers w) (s.isOpen w)
  results : ∀ w, w < cfg.nWorkers → ∀ i d, OutMsg.result i d ∈ (s.workers w).outbox → ∃ st, outOf cfg i = some (d, st)
  lost : ∀ w, w < cfg.nWorkers → (s.workers w).phase ≠ .failed → (s.workers w).lost = none

/-- holds in every reachable state, terminal or not -/
structure SafeInv (cfg : Config Chunk Stats Fault) (s : State Stats) : Prop where
  writers : ∀ f, WInv (fun i => outData cfg i f) (s.writers f) (fun i => i ∈ s.received)
  recvOk : ∀ i, i ∈ s.received → (outOf cfg i).isSome = true

/-! ## Projections of `setW` -/

@[simp] theorem setW_workers_same (s : State Stats) (w : Nat) (W : Worker Stats) : (s.setW w W).workers w = W := by
  simp [State.setW]

theorem setW_workers_ne (s : State Stats) {v w : Nat} (W : Worker Stats) (h : v ≠ w) : (s.setW w W).workers v = s.workers v := by
  simp [State.setW, h]

@[simp] theorem setW_next (s : State Stats) (w : Nat) (W : Worker Stats) : (s.setW w W).next = s.next := rfl
@[simp] theorem setW_pills (s : State Stats) (w : Nat) (W : Worker Stats) : (s.setW w W).pills = s.pills := rfl
@[simp] theorem setW_rfailed (s : State Stats) (w : Nat) (W : Worker Stats) : (s.setW w W).rfailed = s.rfailed := rfl
@[simp] theorem setW_queue (s : State Stats) (w : Nat) (W : Worker Stats) : (s.setW w W).queue = s.queue := rfl
@[simp] theorem setW_isOpen (s : State Stats) (w : Nat) (W : Worker Stats) : (s.setW w W).isOpen = s.isOpen := rfl
@[simp] theorem setW_writers (s : State Stats) (w : Nat) (W : Worker Stats) : (s.setW w W).writers = s.writers := rfl
@[simp] theorem setW_received (s : State Stats) (w : Nat) (W : Worker Stats) : (s.setW w W).received = s.received := rfl
@[simp] theorem setW_mstats (s : State Stats) (w : Nat) (W : Worker Stats) : (s.setW w W).mstats = s.mstats := rfl
@[simp] theorem setW_outcome (s : State Stats) (w : Nat) (W : Worker Stats) : (s.setW w W).outcome = s.outcome := rfl

/-- sums over the workers after a change at worker `w` only -/
theorem sumW_setW (F : Worker Stats → Nat) (s : State Stats) {n w : Nat} (hw : w < n) (W : Worker Stats) :
    sumW n (fun v => F ((s.setW w W).workers v)) + F (s.workers w) = sumW n (fun v => F (s.workers v)) + F W := by
  have := sumW_update (n := n) (w := w) (f := fun v => F (s.workers v)) (g := fun v => F ((s.setW w W).workers v)) hw
    (fun v hv => by simp only [setW_workers_ne s W hv])
  simpa using this

/-! ## Initial state -/

theorem runInv_init (cfg : Config Chunk Stats Fault) : RunInv cfg (init cfg) := by
  refine ⟨Nat.zero_le _, ?_, ?_, ?_, ?_, ?_, ?_, ?_, ?_, ?_, fun w _ _ => rfl⟩
  · intro h; simp [init] at h
  · intro h; simp [init] at h
  · intro i
    have : sumW cfg.nWorkers (fun w => cntWk i ((init cfg).workers w)) = cfg.nWorkers * 0 :=
      sumW_eq_const 0 (fun v _ => by simp [init, cntWk, cntProc, cntRes])
    rw [this]; simp [init]
  · intro w _; simp [init, nonErr, QOk]
  · intro w h; simp [init] at h
  · have : sumW cfg.nWorkers (fun w => pillWk ((init cfg : State Stats).workers w)) = cfg.nWorkers * 0 :=
      sumW_eq_const 0 (fun v _ => by simp [init, pillWk])
    rw [this]; simp [init]
  · intro h; simp [init] at h
  · intro w _; simp [init, OutboxOk, resultsOnly_nil]
  · intro w _ i d h; simp [init] at h

theorem safeInv_init (cfg : Config Chunk Stats Fault) : SafeInv cfg (init cfg) := by
  refine ⟨fun f => ?_, fun i h => by simp [init] at h⟩
  exact (WInv.init _).congr (fun i => by simp [init])

end Cutadapt.Runner
