import Cutadapt.Proofs.StepsFate
/-! Records per writer in a paired-end log: R1 and R2 stay in step. -/
namespace Cutadapt.Steps
open Cutadapt

/-- the R1 records writer `w` received, in order -/
def r1sOf (w : Nat) (evs : List Event) : List Read :=
  evs.filterMap fun
    | .write w' a _ => if w' = w then some a else none
    | _ => none

/-- the R2 records writer `w` received, in order -/
def r2sOf (w : Nat) (evs : List Event) : List Read :=
  evs.filterMap fun
    | .write w' _ (some b) => if w' = w then some b else none
    | _ => none

/-- the (R1, R2) pairs writer `w` received, in order -/
def pairsOf (w : Nat) (evs : List Event) : List (Read × Read) :=
  evs.filterMap fun
    | .write w' a (some b) => if w' = w then some (a, b) else none
    | _ => none

theorem pairsOf_append (w : Nat) (a b : List Event) : pairsOf w (a ++ b) = pairsOf w a ++ pairsOf w b := by
  simp [pairsOf, List.filterMap_append]

theorem pairsOf_flatten (w : Nat) (L : List (List Event)) : pairsOf w L.flatten = (L.map (pairsOf w)).flatten := by
  unfold pairsOf
  rw [List.filterMap_flatten]

/-- when every `write` carries both mates, the R1 and R2 lists are the two projections of one list of pairs -/
theorem mates_in_step (w : Nat) (evs : List Event) (h : ∀ w' a b, Event.write w' a b ∈ evs → b.isSome = true) :
    r1sOf w evs = (pairsOf w evs).map (·.1) ∧ r2sOf w evs = (pairsOf w evs).map (·.2) := by
  induction evs with
  | nil => exact ⟨rfl, rfl⟩
  | cons e es ih =>
    obtain ⟨ih1, ih2⟩ := ih (fun w' a b hm => h w' a b (by simp [hm]))
    cases e with
    | write w' a b =>
      have hb := h w' a b (by simp)
      obtain ⟨b, rfl⟩ := Option.isSome_iff_exists.1 hb
      simp only [r1sOf, r2sOf, pairsOf, List.filterMap_cons] at ih1 ih2 ⊢
      by_cases hw : w' = w
      · simp [hw, ih1, ih2]
      · simp [hw, ih1, ih2]
    | _ => simpa [r1sOf, r2sOf, pairsOf, List.filterMap_cons] using ⟨ih1, ih2⟩

theorem pairsOf_length_le (w : Nat) (evs : List Event) : (pairsOf w evs).length ≤ evs.countP isWrite := by
  induction evs with
  | nil => simp [pairsOf]
  | cons e es ih =>
    cases e with
    | write w' a b =>
      simp only [pairsOf, List.filterMap_cons, List.countP_cons, isWrite] at ih ⊢
      cases b with
      | none => simp; omega
      | some b => by_cases hw : w' = w <;> simp [hw] <;> omega
    | _ => simpa [pairsOf, List.filterMap_cons, List.countP_cons, isWrite] using ih

theorem ReadLog.write_count {steps : List Step} {len1 : Nat} {len2 : Option Nat} {r1 : Read} {r2 : Option Read}
    {evs : List Event} (h : ReadLog steps len1 len2 r1 r2 evs) : evs.countP isWrite ≤ 1 := by
  obtain ⟨cnt, texts, tail, rfl, hc, htx, htl⟩ := h
  rw [List.countP_cons, List.countP_append, countP_of_all_false (fun x hx => counter_not_write (hc x hx))]
  have := (fate_of_tail htx htl).2.1
  simpa [isWrite] using this
end Cutadapt.Steps
