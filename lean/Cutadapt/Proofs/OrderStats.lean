import Cutadapt.Stats
/-! Per-adapter statistics (`adapterStats`) as a tally of the applied matches: helper lemmas for C20. -/
namespace Cutadapt
open Cutadapt.Adapters

section Incr
variable {κ : Type} [BEq κ] [LawfulBEq κ]

omit [LawfulBEq κ] in
theorem getCount_nil (k : κ) : getCount k ([] : List (κ × Nat)) = 0 := rfl

omit [LawfulBEq κ] in
theorem getCount_cons (k k' : κ) (v : Nat) (l : List (κ × Nat)) :
    getCount k ((k', v) :: l) = if k' == k then v else getCount k l := by
  unfold getCount
  by_cases h : (k' == k) = true <;> simp [List.find?, h]

theorem getCount_incr (k k' : κ) (n : Nat) (l : List (κ × Nat)) :
    getCount k (incr k' n l) = getCount k l + (if k' == k then n else 0) := by
  induction l with
  | nil => simp [incr, getCount_cons, getCount_nil]
  | cons p rest ih =>
    obtain ⟨k'', v⟩ := p
    unfold incr
    by_cases h : (k'' == k') = true
    · have e : k'' = k' := eq_of_beq h
      subst e
      rw [if_pos h]
      simp only [getCount_cons]
      by_cases hk : (k'' == k) = true <;> simp [hk]
    · rw [if_neg h]
      simp only [getCount_cons]
      by_cases hk : (k'' == k) = true
      · have e : k'' = k := eq_of_beq hk
        subst e
        have h' : ¬ (k' == k'') = true := fun e => h (by rw [eq_of_beq e]; exact beq_self_eq_true _)
        simp [h']
      · rw [if_neg hk, if_neg hk, ih]

/-- keys of `incr` = old keys, plus the new key at the end if it was absent -/
theorem keys_incr (k : κ) (n : Nat) (l : List (κ × Nat)) :
    (incr k n l).map (·.1) = if k ∈ l.map (·.1) then l.map (·.1) else l.map (·.1) ++ [k] := by
  induction l with
  | nil => simp [incr]
  | cons p rest ih =>
    obtain ⟨k'', v⟩ := p
    unfold incr
    by_cases h : (k'' == k) = true
    · have e : k'' = k := eq_of_beq h
      subst e
      simp
    · have hne : ¬ k = k'' := fun e => h (by subst e; exact beq_self_eq_true _)
      rw [if_neg h]
      simp only [List.map_cons, List.mem_cons, hne, false_or, ih]
      split <;> simp

theorem nodup_keys_incr (k : κ) (n : Nat) (l : List (κ × Nat)) (h : (l.map (·.1)).Nodup) :
    ((incr k n l).map (·.1)).Nodup := by
  rw [keys_incr]
  split
  · exact h
  · rename_i hk
    rw [List.nodup_append]
    refine ⟨h, by simp, ?_⟩
    intro a ha b hb
    simp at hb; subst hb
    intro e; subst e; exact hk ha

/-- sum of all counters -/
def total (l : List (κ × Nat)) : Nat := (l.map (·.2)).sum

omit [LawfulBEq κ] in
theorem total_incr (k : κ) (n : Nat) (l : List (κ × Nat)) : total (incr k n l) = total l + n := by
  induction l with
  | nil => simp [incr, total]
  | cons p rest ih =>
    obtain ⟨k'', v⟩ := p
    unfold incr
    by_cases h : (k'' == k) = true
    · simp [h, total]; omega
    · rw [if_neg h]
      simp only [total, List.map_cons, List.sum_cons] at ih ⊢
      rw [ih]; omega

/-- with unique keys, the sum of all counters is the sum of `getCount` over the keys -/
theorem total_eq_sum_getCount (l : List (κ × Nat)) (h : (l.map (·.1)).Nodup) :
    total l = ((l.map (·.1)).map (fun k => getCount k l)).sum := by
  induction l with
  | nil => simp [total]
  | cons p rest ih =>
    obtain ⟨k, v⟩ := p
    simp only [List.map_cons, List.nodup_cons] at h
    have hrest : ∀ k' ∈ rest.map (·.1), getCount k' ((k, v) :: rest) = getCount k' rest := by
      intro k' hk'
      rw [getCount_cons]
      have : ¬ (k == k') = true := fun e => h.1 (by rw [eq_of_beq e]; exact hk')
      rw [if_neg this]
    have e1 : total ((k, v) :: rest) = v + total rest := by simp [total]
    rw [e1, ih h.2]
    simp only [List.map_cons, List.sum_cons, getCount_cons, beq_self_eq_true, if_true]
    congr 1
    congr 1
    apply List.map_congr_left
    intro k' hk'
    have := hrest k' hk'
    rw [getCount_cons] at this
    exact this.symm

end Incr

/-! ### what an applied match contributes -/

/-- the applied matches of adapter `a` on read side `side`, in order, with the reverse-complement flag -/
def appliedTo (side a : Nat) (evs : List Event) : List (AnyMatch × Bool) :=
  evs.filterMap fun ev =>
    match ev with
    | .matched s m rc => if s == side && m.adapter == a then some (m, rc) else none
    | _ => none

/-- 5' part(s) of an applied match: a single match of a 5' adapter class, a `before` match of an anywhere adapter,
    the front part of a linked match -/
def frontParts (fc aw : Bool) : AnyMatch → List MatchRec
  | .single _ r => if aw then (if r.m.before then [r] else []) else if fc then [r] else []
  | .linked _ f _ => f.toList

/-- 3' part(s) of an applied match -/
def backParts (fc aw : Bool) : AnyMatch → List MatchRec
  | .single _ r => if aw then (if r.m.before then [] else [r]) else if fc then [] else [r]
  | .linked _ _ b => b.toList

def errKey (r : MatchRec) : Nat × Nat := (r.removedSequenceLength, r.m.errors)

/-- the per-adapter fold -/
def tallyFold (fc aw : Bool) (st : AdapterStats) (ms : List (AnyMatch × Bool)) : AdapterStats :=
  ms.foldl (fun st p => st.addMatch fc aw p.1 p.2) st

theorem countP_single {α} (p : α → Bool) (x : α) : [x].countP p = if p x then 1 else 0 := by
  by_cases h : p x <;> simp [h]

theorem addMatch_front_errors (st : AdapterStats) (fc aw : Bool) (m : AnyMatch) (rc : Bool) (k : Nat × Nat) :
    getCount k (st.addMatch fc aw m rc).front.errors =
      getCount k st.front.errors + (frontParts fc aw m).countP (fun r => errKey r == k) := by
  cases m with
  | single a r =>
    cases aw <;> cases fc <;> cases hb : r.m.before <;>
      simp [AdapterStats.addMatch, frontParts, hb, EndStats.addFront, EndStats.addBack, getCount_incr, errKey]
  | linked a f b =>
    cases f <;> cases b <;>
      simp [AdapterStats.addMatch, frontParts, EndStats.addFront, EndStats.addBack, getCount_incr, errKey]

theorem addMatch_back_errors (st : AdapterStats) (fc aw : Bool) (m : AnyMatch) (rc : Bool) (k : Nat × Nat) :
    getCount k (st.addMatch fc aw m rc).back.errors =
      getCount k st.back.errors + (backParts fc aw m).countP (fun r => errKey r == k) := by
  cases m with
  | single a r =>
    cases aw <;> cases fc <;> cases hb : r.m.before <;>
      simp [AdapterStats.addMatch, backParts, hb, EndStats.addFront, EndStats.addBack, getCount_incr, errKey]
  | linked a f b =>
    cases f <;> cases b <;>
      simp [AdapterStats.addMatch, backParts, EndStats.addFront, EndStats.addBack, getCount_incr, errKey]

theorem addMatch_back_adjacent (st : AdapterStats) (fc aw : Bool) (m : AnyMatch) (rc : Bool) (k : Bytes) :
    getCount k (st.addMatch fc aw m rc).back.adjacent =
      getCount k st.back.adjacent + (backParts fc aw m).countP (fun r => adjKey r.adjacentBase == k) := by
  cases m with
  | single a r =>
    cases aw <;> cases fc <;> cases hb : r.m.before <;>
      simp [AdapterStats.addMatch, backParts, hb, EndStats.addFront, EndStats.addBack, getCount_incr]
  | linked a f b =>
    cases f <;> cases b <;>
      simp [AdapterStats.addMatch, backParts, EndStats.addFront, EndStats.addBack, getCount_incr]

theorem addMatch_front_adjacent (st : AdapterStats) (fc aw : Bool) (m : AnyMatch) (rc : Bool) :
    (st.addMatch fc aw m rc).front.adjacent = st.front.adjacent := by
  cases m with
  | single a r =>
    cases aw <;> cases fc <;> cases hb : r.m.before <;>
      simp [AdapterStats.addMatch, hb, EndStats.addFront]
  | linked a f b =>
    cases f <;> cases b <;> simp [AdapterStats.addMatch, EndStats.addFront]

theorem addMatch_rc (st : AdapterStats) (fc aw : Bool) (m : AnyMatch) (rc : Bool) :
    (st.addMatch fc aw m rc).reverseComplemented = st.reverseComplemented + (if rc then 1 else 0) := by
  cases m with
  | single a r =>
    cases aw <;> cases fc <;> cases hb : r.m.before <;> simp [AdapterStats.addMatch, hb]
  | linked a f b =>
    cases f <;> cases b <;> simp [AdapterStats.addMatch]

theorem addMatch_front_total (st : AdapterStats) (fc aw : Bool) (m : AnyMatch) (rc : Bool) :
    total (st.addMatch fc aw m rc).front.errors = total st.front.errors + (frontParts fc aw m).length := by
  cases m with
  | single a r =>
    cases aw <;> cases fc <;> cases hb : r.m.before <;>
      simp [AdapterStats.addMatch, frontParts, hb, EndStats.addFront, EndStats.addBack, total_incr]
  | linked a f b =>
    cases f <;> cases b <;>
      simp [AdapterStats.addMatch, frontParts, EndStats.addFront, EndStats.addBack, total_incr]

theorem addMatch_back_total (st : AdapterStats) (fc aw : Bool) (m : AnyMatch) (rc : Bool) :
    total (st.addMatch fc aw m rc).back.errors = total st.back.errors + (backParts fc aw m).length ∧
    total (st.addMatch fc aw m rc).back.adjacent = total st.back.adjacent + (backParts fc aw m).length := by
  cases m with
  | single a r =>
    cases aw <;> cases fc <;> cases hb : r.m.before <;>
      simp [AdapterStats.addMatch, backParts, hb, EndStats.addFront, EndStats.addBack, total_incr]
  | linked a f b =>
    cases f <;> cases b <;>
      simp [AdapterStats.addMatch, backParts, EndStats.addFront, EndStats.addBack, total_incr]

theorem addMatch_nodup (st : AdapterStats) (fc aw : Bool) (m : AnyMatch) (rc : Bool)
    (h : (st.front.errors.map (·.1)).Nodup ∧ (st.back.errors.map (·.1)).Nodup ∧ (st.back.adjacent.map (·.1)).Nodup) :
    let st' := st.addMatch fc aw m rc
    (st'.front.errors.map (·.1)).Nodup ∧ (st'.back.errors.map (·.1)).Nodup ∧ (st'.back.adjacent.map (·.1)).Nodup := by
  obtain ⟨h1, h2, h3⟩ := h
  have i1 := fun k => nodup_keys_incr k 1 _ h1
  have i2 := fun k => nodup_keys_incr k 1 _ h2
  have i3 := fun k => nodup_keys_incr k 1 _ h3
  cases m with
  | single a r =>
    cases aw <;> cases fc <;> cases hb : r.m.before <;>
      simp [AdapterStats.addMatch, EndStats.addFront, EndStats.addBack, *]
  | linked a f b =>
    cases f <;> cases b <;>
      simp [AdapterStats.addMatch, EndStats.addFront, EndStats.addBack, *]

/-- the fold over the applied matches, counter by counter -/
theorem tallyFold_spec (fc aw : Bool) (ms : List (AnyMatch × Bool)) : ∀ (st : AdapterStats),
    let st' := tallyFold fc aw st ms
    (∀ k, getCount k st'.front.errors = getCount k st.front.errors +
        (ms.flatMap (fun p => frontParts fc aw p.1)).countP (fun r => errKey r == k)) ∧
    (∀ k, getCount k st'.back.errors = getCount k st.back.errors +
        (ms.flatMap (fun p => backParts fc aw p.1)).countP (fun r => errKey r == k)) ∧
    (∀ k, getCount k st'.back.adjacent = getCount k st.back.adjacent +
        (ms.flatMap (fun p => backParts fc aw p.1)).countP (fun r => adjKey r.adjacentBase == k)) ∧
    st'.front.adjacent = st.front.adjacent ∧
    st'.reverseComplemented = st.reverseComplemented + ms.countP (fun p => p.2) ∧
    total st'.front.errors = total st.front.errors + (ms.flatMap (fun p => frontParts fc aw p.1)).length ∧
    total st'.back.errors = total st.back.errors + (ms.flatMap (fun p => backParts fc aw p.1)).length ∧
    total st'.back.adjacent = total st.back.adjacent + (ms.flatMap (fun p => backParts fc aw p.1)).length := by
  induction ms with
  | nil => intro st; simp [tallyFold]
  | cons p ms ih =>
    intro st
    have := ih (st.addMatch fc aw p.1 p.2)
    simp only [tallyFold, List.foldl_cons] at this ⊢
    obtain ⟨a1, a2, a3, a4, a5, a6, a7, a8⟩ := this
    refine ⟨?_, ?_, ?_, ?_, ?_, ?_, ?_, ?_⟩
    · intro k; rw [a1, addMatch_front_errors]; simp [List.countP_append]; omega
    · intro k; rw [a2, addMatch_back_errors]; simp [List.countP_append]; omega
    · intro k; rw [a3, addMatch_back_adjacent]; simp [List.countP_append]; omega
    · rw [a4, addMatch_front_adjacent]
    · rw [a5, addMatch_rc, List.countP_cons]; omega
    · rw [a6, addMatch_front_total]; simp; omega
    · rw [a7, (addMatch_back_total ..).1]; simp; omega
    · rw [a8, (addMatch_back_total ..).2]; simp; omega

theorem tallyFold_nodup (fc aw : Bool) (ms : List (AnyMatch × Bool)) : ∀ (st : AdapterStats),
    ((st.front.errors.map (·.1)).Nodup ∧ (st.back.errors.map (·.1)).Nodup ∧ (st.back.adjacent.map (·.1)).Nodup) →
    let st' := tallyFold fc aw st ms
    (st'.front.errors.map (·.1)).Nodup ∧ (st'.back.errors.map (·.1)).Nodup ∧ (st'.back.adjacent.map (·.1)).Nodup := by
  induction ms with
  | nil => intro st h; exact h
  | cons p ms ih =>
    intro st h
    exact ih _ (addMatch_nodup st fc aw p.1 p.2 h)

/-! ### `adapterStats` at index `a` is the per-adapter fold over the applied matches of `a` -/

def statStep (ads : List Matchable) (side : Nat) (acc : List AdapterStats) (ev : Event) : List AdapterStats :=
  match ev with
  | .matched s m rc =>
    if s == side then
      acc.mapIdx (fun i st => if i == m.adapter then
        st.addMatch ((ads[i]?.map isFrontClass).getD false) ((ads[i]?.map isAnywhereClass).getD false) m rc else st)
    else acc
  | _ => acc

theorem adapterStats_eq (ads : List Matchable) (side : Nat) (evs : List Event) :
    adapterStats ads side evs = evs.foldl (statStep ads side) (ads.map (fun _ => {})) := rfl

theorem statFold_at (ads : List Matchable) (side a : Nat) (evs : List Event) : ∀ (acc : List AdapterStats),
    (evs.foldl (statStep ads side) acc)[a]? =
      acc[a]?.map (fun st => tallyFold ((ads[a]?.map isFrontClass).getD false) ((ads[a]?.map isAnywhereClass).getD false) st
        (appliedTo side a evs)) := by
  induction evs with
  | nil => intro acc; simp [appliedTo, tallyFold]
  | cons ev evs ih =>
    intro acc
    rw [List.foldl_cons, ih]
    cases ev with
    | matched s m rc =>
      by_cases hs : (s == side) = true
      · by_cases ha : (m.adapter == a) = true
        · have e : m.adapter = a := eq_of_beq ha
          simp only [statStep, hs, if_true, List.getElem?_mapIdx, appliedTo, List.filterMap_cons, Bool.true_and, ha]
          cases acc[a]? <;> simp [tallyFold, e]
        · have e : ¬ a = m.adapter := fun e => ha (by simp [e])
          simp only [statStep, hs, if_true, List.getElem?_mapIdx, appliedTo, List.filterMap_cons, Bool.true_and, ha]
          cases acc[a]? <;> simp [e]
      · have hs' : ¬ s = side := by simpa using hs
        simp [statStep, hs', appliedTo]
    | _ => simp [statStep, appliedTo]

theorem adapterStats_at (ads : List Matchable) (side a : Nat) (evs : List Event) (ad : Matchable) (h : ads[a]? = some ad) :
    (adapterStats ads side evs)[a]? = some (tallyFold (isFrontClass ad) (isAnywhereClass ad) {} (appliedTo side a evs)) := by
  rw [adapterStats_eq, statFold_at]
  simp [h]

theorem adapterStats_length (ads : List Matchable) (side : Nat) (evs : List Event) :
    (adapterStats ads side evs).length = ads.length := by
  rw [adapterStats_eq]
  have : ∀ acc : List AdapterStats, (evs.foldl (statStep ads side) acc).length = acc.length := by
    induction evs with
    | nil => intro acc; rfl
    | cons ev evs ih =>
      intro acc
      rw [List.foldl_cons, ih]
      cases ev <;> simp [statStep]
      split <;> simp
  rw [this]; simp

end Cutadapt
