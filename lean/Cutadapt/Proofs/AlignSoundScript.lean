import Cutadapt.Proofs.AlignSound
import Cutadapt.Proofs.LocateSpec
/-! Soundness of `Align.locate`, part 1: scripts, per-cell score invariant, the initial column. -/
namespace Cutadapt.Align.Sound
open Cutadapt Cutadapt.Align Cutadapt.Spec Cutadapt.Generated

theorem encodeRef_length (cfg : Cfg) (s : Bytes) : (encodeRef cfg s).length = s.length := by
  unfold encodeRef; split
  · simp
  · split <;> simp

theorem encodeQuery_length (cfg : Cfg) (s : Bytes) : (encodeQuery cfg s).length = s.length := by
  unfold encodeQuery; split
  · simp
  · split <;> simp

/-- the context of one `locate` call -/
def mkCtx (cfg : Cfg) (ref query : Bytes) : Ctx := ⟨cfg, compareAscii cfg, encodeRef cfg ref, encodeQuery cfg query⟩

theorem decode_nonneg {o : Int} (h : 0 ≤ o) : decode o = (0, o.toNat) := by
  unfold decode; simp [h]

theorem decode_neg {o : Int} (h : o < 0) : decode o = ((-o).toNat, 0) := by
  unfold decode
  have : ¬ (o ≥ 0) := by omega
  simp [this]

theorem decode_fst (o : Int) : (decode o).1 = (-(min o 0)).toNat := by
  by_cases h : 0 ≤ o
  · rw [decode_nonneg h]; simp only; omega
  · rw [decode_neg (by omega)]; simp only; omega

theorem decode_snd (o : Int) : (decode o).2 = o.toNat := by
  by_cases h : 0 ≤ o
  · rw [decode_nonneg h]
  · rw [decode_neg (by omega)]; simp only; omega

/-! ### scripts -/

theorem script_exists (eq : Sym → Sym → Bool) (c : Nat) (hc : 1 ≤ c) : ∀ (xs ys : List Sym),
    ∃ s, lhs s = xs ∧ rhs s = ys ∧ cost eq c s ≤ max xs.length ys.length * c
  | [], [] => ⟨[], rfl, rfl, by simp⟩
  | [], y :: ys => by
    obtain ⟨s, h1, h2, h3⟩ := script_exists eq c hc [] ys
    refine ⟨Op.ins y :: s, by simp [h1, Op.lhs], by simp [h2, Op.rhs], ?_⟩
    simp only [cost_cons, Op.cost, List.length_nil, List.length_cons] at h3 ⊢
    have e1 : max 0 ys.length = ys.length := by omega
    have e2 : max 0 (ys.length + 1) = ys.length + 1 := by omega
    rw [e1] at h3; rw [e2, Nat.add_mul]; omega
  | x :: xs, [] => by
    obtain ⟨s, h1, h2, h3⟩ := script_exists eq c hc xs []
    refine ⟨Op.del x :: s, by simp [h1, Op.lhs], by simp [h2, Op.rhs], ?_⟩
    simp only [cost_cons, Op.cost, List.length_nil, List.length_cons] at h3 ⊢
    have e1 : max xs.length 0 = xs.length := by omega
    have e2 : max (xs.length + 1) 0 = xs.length + 1 := by omega
    rw [e1] at h3; rw [e2, Nat.add_mul]; omega
  | x :: xs, y :: ys => by
    obtain ⟨s, h1, h2, h3⟩ := script_exists eq c hc xs ys
    refine ⟨Op.sub x y :: s, by simp [h1, Op.lhs], by simp [h2, Op.rhs], ?_⟩
    simp only [cost_cons, Op.cost, List.length_cons] at h3 ⊢
    have e2 : max (xs.length + 1) (ys.length + 1) = max xs.length ys.length + 1 := by omega
    rw [e2, Nat.add_mul]
    split <;> omega

/-- a script without reference characters consists of insertions only -/
theorem cost_of_lhs_nil (eq : Sym → Sym → Bool) (c : Nat) : ∀ (s : List Op), lhs s = [] →
    cost eq c s = (rhs s).length * c
  | [], _ => by simp
  | o :: s, h => by
    simp only [lhs_cons, List.append_eq_nil_iff] at h
    have ih := cost_of_lhs_nil eq c s h.2
    cases o with
    | sub r q => simp [Op.lhs] at h
    | del r => simp [Op.lhs] at h
    | ins q =>
      simp only [cost_cons, Op.cost, rhs_cons, Op.rhs, List.length_append, List.length_cons, List.length_nil, ih]
      rw [Nat.add_mul]; omega

theorem ins_script (eq : Sym → Sym → Bool) (c : Nat) : ∀ (ys : List Sym),
    ∃ s, lhs s = [] ∧ rhs s = ys ∧ cost eq c s = ys.length * c
  | [] => ⟨[], rfl, rfl, by simp⟩
  | y :: ys => by
    obtain ⟨s, h1, h2, h3⟩ := ins_script eq c ys
    refine ⟨Op.ins y :: s, by simp [h1, Op.lhs], by simp [h2, Op.rhs], ?_⟩
    simp only [cost_cons, Op.cost, List.length_cons, h3]
    rw [Nat.add_mul]; omega

/-! ### per-cell score invariant (independent of the column index) -/

def ScoreOK (i : Nat) (e : Entry) : Prop :=
  e.score ≤ (i : Int) ∧ (e.cost = 0 → e.score = (i : Int) + min e.origin 0)

theorem cell_score {cfg : Cfg} (hc : 1 ≤ cfg.indelCost) {i : Nat} {diag cur prev : Entry} (b : Bool)
    (hd : ScoreOK i diag) (hcur : ScoreOK (i+1) cur) (hp : ScoreOK i prev) :
    ScoreOK (i+1) (cell cfg b diag cur prev) := by
  obtain ⟨hd1, hd2⟩ := hd
  obtain ⟨hc1, hc2⟩ := hcur
  obtain ⟨hp1, hp2⟩ := hp
  unfold cell ScoreOK
  simp only [matchScore, mismatchScore, deletionScore, insertionScore]
  split
  · refine ⟨by simp only; omega, ?_⟩
    simp only; intro h0; have := hd2 h0; omega
  · split
    · refine ⟨by simp only; omega, ?_⟩
      simp only; intro h0; omega
    · split
      · refine ⟨by simp only; omega, ?_⟩
        simp only; intro h0; omega
      · refine ⟨by simp only; omega, ?_⟩
        simp only; intro h0; omega

/-! ### a box-shaped script gives `Good` -/

theorem good_of_box {ctx : Ctx} (hc : 1 ≤ ctx.cfg.indelCost) {i j : Nat} (hi : i ≤ ctx.ref.length)
    (hj : j ≤ ctx.query.length) (o : Int) (a r : Nat) (hdec : decode o = (a, r))
    (ha : a ≤ i) (hr : r ≤ j)
    (hfa : a = 0 ∨ ctx.cfg.startInRef = true) (hfr : r = 0 ∨ ctx.cfg.startInQuery = true)
    (cst : Nat) (sc : Int) (hcost : max (i - a) (j - r) * ctx.cfg.indelCost ≤ cst) :
    Good ctx i j ⟨cst, sc, o⟩ := by
  unfold Good
  simp only [hdec]
  refine ⟨ha, hr, hfa, hfr, ?_⟩
  obtain ⟨s, h1, h2, h3⟩ := script_exists ctx.eq ctx.cfg.indelCost hc (seg ctx.ref a i) (seg ctx.query r j)
  refine ⟨s, h1, h2, ?_⟩
  rw [seg_length, seg_length] at h3
  have e1 : min i ctx.ref.length - a = i - a := by omega
  have e2 : min j ctx.query.length - r = j - r := by omega
  rw [e1, e2] at h3
  omega


/-! ### the initial column -/

theorem initEntry_good {ctx : Ctx} (hc : 1 ≤ ctx.cfg.indelCost) {i minN : Nat} (hi : i ≤ ctx.ref.length)
    (hj : minN ≤ ctx.query.length) :
    Good ctx i minN (initEntry ctx.cfg minN i) := by
  unfold initEntry
  split
  next h1 h2 =>
    exact good_of_box hc hi hj 0 0 0 (decode_nonneg (by omega)) (by omega) (by omega) (.inl rfl) (.inl rfl) _ _
      (by simp)
  next h1 h2 =>
    by_cases h : i ≤ minN
    · have e : min (0:Int) ((minN:Int) - i) = 0 := by omega
      rw [e]
      refine good_of_box hc hi hj 0 0 0 (decode_nonneg (by omega)) (by omega) (by omega) (.inl rfl) (.inl rfl) _ _ ?_
      exact Nat.mul_le_mul_right _ (by omega)
    · have e : min (0:Int) ((minN:Int) - i) = (minN:Int) - i := by omega
      rw [e]
      refine good_of_box hc hi hj _ (i - minN) 0 ?_ (by omega) (by omega) (.inr h1) (.inl rfl) _ _ ?_
      · rw [decode_neg (by omega)]
        congr 1; omega
      · exact Nat.mul_le_mul_right _ (by omega)
  next h1 h2 =>
    by_cases h : i ≤ minN
    · have e : max (0:Int) ((minN:Int) - i) = (minN:Int) - i := by omega
      rw [e]
      refine good_of_box hc hi hj _ 0 (minN - i) ?_ (by omega) (by omega) (.inl rfl) (.inr h2) _ _ ?_
      · rw [decode_nonneg (by omega)]
        congr 1; omega
      · exact Nat.mul_le_mul_right _ (by omega)
    · have e : max (0:Int) ((minN:Int) - i) = 0 := by omega
      rw [e]
      refine good_of_box hc hi hj 0 0 0 (decode_nonneg (by omega)) (by omega) (by omega) (.inl rfl) (.inl rfl) _ _ ?_
      exact Nat.mul_le_mul_right _ (by omega)
  next h1 h2 =>
    by_cases h : i ≤ minN
    · refine good_of_box hc hi hj _ 0 (minN - i) ?_ (by omega) (by omega) (.inl rfl) (.inr h2) _ _ ?_
      · rw [decode_nonneg (by omega)]
        congr 1; omega
      · exact Nat.mul_le_mul_right _ (by omega)
    · refine good_of_box hc hi hj _ (i - minN) 0 ?_ (by omega) (by omega) (.inr h1) (.inl rfl) _ _ ?_
      · rw [decode_neg (by omega)]
        congr 1; omega
      · exact Nat.mul_le_mul_right _ (by omega)

theorem initEntry_score {cfg : Cfg} (hc : 1 ≤ cfg.indelCost) (i minN : Nat) :
    ScoreOK i (initEntry cfg minN i) := by
  unfold initEntry ScoreOK
  simp only [deletionScore]
  split
  · refine ⟨by simp only; omega, ?_⟩
    simp only; intro h0
    rcases Nat.mul_eq_zero.mp h0 with h | h <;> omega
  · refine ⟨by simp only; omega, ?_⟩
    simp only; intro h0
    rcases Nat.mul_eq_zero.mp h0 with h | h <;> omega
  · refine ⟨by simp only; omega, ?_⟩
    simp only; intro h0
    rcases Nat.mul_eq_zero.mp h0 with h | h <;> omega
  · refine ⟨by simp only; omega, ?_⟩
    simp only; intro h0
    rcases Nat.mul_eq_zero.mp h0 with h | h <;> omega

theorem initEntry_stale {cfg : Cfg} (hc : 1 ≤ cfg.indelCost) (hs : cfg.startInRef = false) (i minN : Nat)
    (hi : cfg.k + 1 < i) : cfg.k < (initEntry cfg minN i).cost := by
  unfold initEntry
  rw [hs]
  split
  · simp only
    have := Nat.le_mul_of_pos_right (max i minN) hc
    omega
  · simp_all
  · simp only
    have := Nat.le_mul_of_pos_right i hc
    omega
  · simp_all

end Cutadapt.Align.Sound
