import Cutadapt.Proofs.RunnerStep
/-! Conservation of the statistics: what the main process has merged plus what the workers still hold equals the sum
    over the chunks whose processing has been completed. Needs `add` associative and commutative with `zero` neutral. -/
namespace Cutadapt.Runner
variable {Chunk Stats Fault : Type} {cfg : Config Chunk Stats Fault} {s s' : State Stats}

/-- statistics of the results waiting in an outbox -/
def resStats (add : Stats → Stats → Stats) (zero : Stats) (st : Nat → Stats) : List (OutMsg Stats) → Stats
  | [] => zero
  | .result j _ :: r => add (st j) (resStats add zero st r)
  | .done _ :: r => resStats add zero st r
  | .workerError :: r => resStats add zero st r

theorem resStats_append {add : Stats → Stats → Stats} {zero : Stats} (hm : IsCommMonoid add zero) (st : Nat → Stats)
    (a b : List (OutMsg Stats)) : resStats add zero st (a ++ b) = add (resStats add zero st a) (resStats add zero st b) := by
  induction a with
  | nil => simp [resStats, hm.zero_add]
  | cons m r ih => cases m <;> simp [resStats, ih, hm.assoc]

/-- statistics a worker holds that the main process has not merged yet -/
def pend (cfg : Config Chunk Stats Fault) (s : State Stats) (w : Nat) : Stats :=
  if s.isOpen w = true then (s.workers w).stats else cfg.zero

def outRes (cfg : Config Chunk Stats Fault) (s : State Stats) (w : Nat) : Stats :=
  resStats cfg.add cfg.zero (outStats cfg) (s.workers w).outbox

def StatsInv (cfg : Config Chunk Stats Fault) (s : State Stats) : Prop :=
  cfg.add s.mstats (sumS cfg.add cfg.zero cfg.nWorkers (pend cfg s)) =
  cfg.add (wsum cfg.add cfg.zero (outStats cfg) s.received) (sumS cfg.add cfg.zero cfg.nWorkers (outRes cfg s))

theorem statsInv_init (hm : IsCommMonoid cfg.add cfg.zero) : StatsInv cfg (init cfg) := by
  unfold StatsInv
  have h1 : sumS cfg.add cfg.zero cfg.nWorkers (outRes cfg (init cfg)) = cfg.zero :=
    sumS_zero hm (fun v _ => by simp [outRes, init, resStats])
  have h2 : sumS cfg.add cfg.zero cfg.nWorkers (pend cfg (init cfg)) = cfg.zero :=
    sumS_zero hm (fun v _ => by simp [pend, init])
  rw [h1, h2]; simp [init, wsum]

/-- nothing relevant to the statistics changed -/
theorem statsInv_same (h : StatsInv cfg s) (hms : s'.mstats = s.mstats) (hrec : s'.received = s.received)
    (hp : ∀ v, v < cfg.nWorkers → pend cfg s' v = pend cfg s v) (ho : ∀ v, v < cfg.nWorkers → outRes cfg s' v = outRes cfg s v) :
    StatsInv cfg s' := by
  unfold StatsInv at h ⊢
  rw [hms, hrec, sumS_congr hp, sumS_congr ho]; exact h

theorem statsInv_step (hm : IsCommMonoid cfg.add cfg.zero) {a : Action} (hinv : RunInv cfg s) (h : StatsInv cfg s)
    (hs : step cfg s a = some s') : StatsInv cfg s' := by
  cases a with
  | workerRequest w =>
    obtain ⟨_, _, rfl⟩ := step_workerRequest hs
    refine statsInv_same h rfl rfl (fun v _ => ?_) (fun v _ => ?_)
    · by_cases hv : v = w
      · subst hv; simp [pend]
      · simp [pend, setW_workers_ne _ _ hv]
    · by_cases hv : v = w
      · subst hv; simp [outRes]
      · simp [outRes, setW_workers_ne _ _ hv]
  | readerSend =>
    obtain ⟨_, _, w, q, _, rfl⟩ := step_readerSend hs
    refine statsInv_same h rfl rfl (fun v _ => ?_) (fun v _ => ?_)
    · by_cases hv : v = w
      · subst hv; simp [pend]
      · simp [pend, setW_workers_ne _ _ hv]
    · by_cases hv : v = w
      · subst hv; simp [outRes]
      · simp [outRes, setW_workers_ne _ _ hv]
  | readerPill =>
    obtain ⟨_, _, _, _, w, q, _, rfl⟩ := step_readerPill hs
    refine statsInv_same h rfl rfl (fun v _ => ?_) (fun v _ => ?_)
    · by_cases hv : v = w
      · subst hv; simp [pend]
      · simp [pend, setW_workers_ne _ _ hv]
    · by_cases hv : v = w
      · subst hv; simp [outRes]
      · simp [outRes, setW_workers_ne _ _ hv]
  | readerFault =>
    obtain ⟨_, _, _, rfl⟩ := step_readerFault hs
    refine statsInv_same h rfl rfl (fun v hv => ?_) (fun v hv => ?_)
    · simp [pend, hv]
    · simp [outRes, hv]
  | mainFinish =>
    obtain ⟨_, rfl⟩ := step_mainFinish hs
    exact statsInv_same h rfl rfl (fun v _ => rfl) (fun v _ => rfl)
  | workerStep w =>
    obtain ⟨hw, hcase⟩ := step_workerStep hs
    have ho := hinv.outbox w hw
    rcases hcase with ⟨i, rest, hph, hin, rfl⟩ | ⟨rest, hph, hin, rfl⟩ | ⟨rest, hph, hin, rfl⟩ | ⟨i, c, d, st, hph, hc, hp, rfl⟩ | ⟨i, c, e, hph, hc, hp, rfl⟩
    · refine statsInv_same h rfl rfl (fun v _ => ?_) (fun v _ => ?_)
      · by_cases hv : v = w
        · subst hv; simp [pend]
        · simp [pend, setW_workers_ne _ _ hv]
      · by_cases hv : v = w
        · subst hv; simp [outRes]
        · simp [outRes, setW_workers_ne _ _ hv]
    · refine statsInv_same h rfl rfl (fun v _ => ?_) (fun v _ => ?_)
      · by_cases hv : v = w
        · subst hv; simp [pend]
        · simp [pend, setW_workers_ne _ _ hv]
      · by_cases hv : v = w
        · subst hv; simp [outRes, resStats_append hm, resStats, hm.add_zero]
        · simp [outRes, setW_workers_ne _ _ hv]
    · refine statsInv_same h rfl rfl (fun v _ => ?_) (fun v _ => ?_)
      · by_cases hv : v = w
        · subst hv; simp [pend]
        · simp [pend, setW_workers_ne _ _ hv]
      · by_cases hv : v = w
        · subst hv; simp [outRes, resStats_append hm, resStats, hm.add_zero]
        · simp [outRes, setW_workers_ne _ _ hv]
    · -- a chunk has been processed: both sides grow by its statistics
      have hopen : s.isOpen w = true := by
        simp only [OutboxOk, hph] at ho; exact ho.1
      have hst : outStats cfg i = st := by simp [outStats, outOf, hc, hp]
      unfold StatsInv at h ⊢
      let W' : Worker Stats := { s.workers w with phase := .idle, stats := cfg.add (s.workers w).stats st, outbox := (s.workers w).outbox ++ [.result i d] }
      have h1 : sumS cfg.add cfg.zero cfg.nWorkers (pend cfg (s.setW w W')) = cfg.add (sumS cfg.add cfg.zero cfg.nWorkers (pend cfg s)) st :=
        sumS_update hm hw (fun v hv => by simp [pend, setW_workers_ne _ _ hv]) (by simp [pend, hopen, W'])
      have h2 : sumS cfg.add cfg.zero cfg.nWorkers (outRes cfg (s.setW w W')) = cfg.add (sumS cfg.add cfg.zero cfg.nWorkers (outRes cfg s)) st :=
        sumS_update hm hw (fun v hv => by simp [outRes, setW_workers_ne _ _ hv])
          (by simp [outRes, W', resStats_append hm, resStats, hm.add_zero, hst])
      show cfg.add s.mstats (sumS cfg.add cfg.zero cfg.nWorkers (pend cfg (s.setW w W'))) =
        cfg.add (wsum cfg.add cfg.zero (outStats cfg) s.received) (sumS cfg.add cfg.zero cfg.nWorkers (outRes cfg (s.setW w W')))
      rw [h1, h2, ← hm.assoc, ← hm.assoc, h]
    · refine statsInv_same h rfl rfl (fun v _ => ?_) (fun v _ => ?_)
      · by_cases hv : v = w
        · subst hv; simp [pend]
        · simp [pend, setW_workers_ne _ _ hv]
      · by_cases hv : v = w
        · subst hv; simp [outRes, resStats_append hm, resStats, hm.add_zero]
        · simp [outRes, setW_workers_ne _ _ hv]
  | mainRecv w =>
    obtain ⟨hw, hop, hcase⟩ := step_mainRecv hs
    have ho := hinv.outbox w hw
    rcases hcase with ⟨i, d, rest, hout, rfl⟩ | ⟨st, rest, hout, rfl⟩ | ⟨rest, hout, rfl⟩
    · -- a result moves from the outbox to the received set
      unfold StatsInv at h ⊢
      let W' : Worker Stats := { s.workers w with outbox := rest }
      have h1 : sumS cfg.add cfg.zero cfg.nWorkers (pend cfg s) = sumS cfg.add cfg.zero cfg.nWorkers (pend cfg (s.setW w W')) :=
        sumS_congr (fun v _ => by
          by_cases hv : v = w
          · subst hv; simp [pend, W']
          · simp [pend, setW_workers_ne _ _ hv])
      have h2 : sumS cfg.add cfg.zero cfg.nWorkers (outRes cfg s) =
          cfg.add (sumS cfg.add cfg.zero cfg.nWorkers (outRes cfg (s.setW w W'))) (outStats cfg i) :=
        sumS_update hm hw (fun v hv => by simp [outRes, setW_workers_ne _ _ hv])
          (by simp only [outRes, hout, resStats, setW_workers_same, W']; rw [hm.comm])
      show cfg.add s.mstats (sumS cfg.add cfg.zero cfg.nWorkers (pend cfg (s.setW w W'))) =
        cfg.add (wsum cfg.add cfg.zero (outStats cfg) (i :: s.received)) (sumS cfg.add cfg.zero cfg.nWorkers (outRes cfg (s.setW w W')))
      rw [← h1, h, h2]
      simp only [wsum]
      rw [hm.comm (outStats cfg i), hm.assoc, hm.comm (outStats cfg i)]
    · -- the worker's statistics are merged, its connection is removed
      obtain ⟨hph, hrest, hst⟩ := outboxOk_done ho hop hout
      subst hst
      unfold StatsInv at h ⊢
      let W' : Worker Stats := { s.workers w with outbox := rest }
      let s'' : State Stats := { s.setW w W' with mstats := cfg.add s.mstats (s.workers w).stats, isOpen := fun v => if v = w then false else s.isOpen v }
      have h1 : sumS cfg.add cfg.zero cfg.nWorkers (pend cfg s) =
          cfg.add (sumS cfg.add cfg.zero cfg.nWorkers (pend cfg s'')) (s.workers w).stats :=
        sumS_update hm hw (fun v hv => by simp [pend, s'', setW_workers_ne _ _ hv, hv])
          (by simp [pend, s'', hop, hm.zero_add])
      have h2 : sumS cfg.add cfg.zero cfg.nWorkers (outRes cfg s'') = sumS cfg.add cfg.zero cfg.nWorkers (outRes cfg s) :=
        sumS_congr (fun v _ => by
          by_cases hv : v = w
          · subst hv; simp [outRes, s'', W', hout, hrest, resStats]
          · simp [outRes, s'', setW_workers_ne _ _ hv])
      show cfg.add (cfg.add s.mstats (s.workers w).stats) (sumS cfg.add cfg.zero cfg.nWorkers (pend cfg s'')) =
        cfg.add (wsum cfg.add cfg.zero (outStats cfg) s.received) (sumS cfg.add cfg.zero cfg.nWorkers (outRes cfg s''))
      rw [h2, ← h, h1, hm.assoc, hm.comm (s.workers w).stats]
    · refine statsInv_same h rfl rfl (fun v _ => ?_) (fun v _ => ?_)
      · by_cases hv : v = w
        · subst hv; simp [pend]
        · simp [pend, setW_workers_ne _ _ hv]
      · by_cases hv : v = w
        · subst hv; simp [outRes, hout, resStats]
        · simp [outRes, setW_workers_ne _ _ hv]

end Cutadapt.Runner
