import Cutadapt.Proofs.ModsActions
/-! Single modifiers as relations between input and output read; the adapter stage with and without `--revcomp`;
    the whole modifier list. Core Lean only. -/
namespace Cutadapt
open Cutadapt.Adapters Cutadapt.Qualtrim

/-! ### Classification of the modifiers -/

/-- modifiers that only remove bases from the ends -/
def SMod.isTrimmer : SMod → Bool
  | .cut _ | .nextseq _ _ | .qtrim _ _ _ | .polyA _ | .shorten _ | .trimN => true
  | _ => false

/-- modifiers that only touch the read name -/
def SMod.isNameMod : SMod → Bool
  | .lengthTag _ | .stripSuffix _ | .prefixSuffix _ _ | .rename _ => true
  | _ => false

def SMod.isRevcomp : SMod → Bool
  | .revcomp _ _ _ => true
  | _ => false

/-- `ZeroCapper`: characters below the quality base are replaced by the base character -/
def capQual (base : Nat) (q : Bytes) : Bytes := q.map (fun c => if c.toNat < base then base.toUInt8 else c)

/-- the zero-capping a modifier does -/
def SMod.capBases : SMod → List Nat
  | .zeroCap base => [base]
  | _ => []

def capAll (bases : List Nat) (q : Bytes) : Bytes := bases.foldl (fun q b => capQual b q) q

theorem capQual_length (base : Nat) (q : Bytes) : (capQual base q).length = q.length := by simp [capQual]
theorem capQual_seg (base : Nat) (q : Bytes) (a b : Nat) : seg (capQual base q) a b = capQual base (seg q a b) := by
  simp [capQual, seg_map]
theorem capQual_reverse (base : Nat) (q : Bytes) : (capQual base q).reverse = capQual base q.reverse := by
  simp [capQual]

theorem capAll_length (bs : List Nat) (q : Bytes) : (capAll bs q).length = q.length := by
  induction bs generalizing q with
  | nil => rfl
  | cons b bs ih => simp only [capAll, List.foldl_cons] at ih ⊢; rw [ih, capQual_length]
theorem capAll_seg (bs : List Nat) (q : Bytes) (a b : Nat) : seg (capAll bs q) a b = capAll bs (seg q a b) := by
  induction bs generalizing q with
  | nil => rfl
  | cons c bs ih => simp only [capAll, List.foldl_cons] at ih ⊢; rw [ih, capQual_seg]
theorem capAll_reverse (bs : List Nat) (q : Bytes) : (capAll bs q).reverse = capAll bs q.reverse := by
  induction bs generalizing q with
  | nil => rfl
  | cons c bs ih => simp only [capAll, List.foldl_cons] at ih ⊢; rw [ih, capQual_reverse]
theorem capAll_append (bs cs : List Nat) (q : Bytes) : capAll (bs ++ cs) q = capAll cs (capAll bs q) := by
  simp [capAll, List.foldl_append]

/-! ### The relation "slice, up to zero-capping (and, when not strict, up to marking)" -/

/-- sequences of equal length, and equal when `strict` -/
def SeqRel (strict : Bool) (x y : Bytes) : Prop := x.length = y.length ∧ (strict = true → x = y)

theorem SeqRel.rfl' (s : Bool) (x : Bytes) : SeqRel s x x := ⟨rfl, fun _ => rfl⟩
theorem SeqRel.trans {s : Bool} {x y z : Bytes} (h1 : SeqRel s x y) (h2 : SeqRel s y z) : SeqRel s x z :=
  ⟨h1.1.trans h2.1, fun hs => (h1.2 hs).trans (h2.2 hs)⟩
theorem SeqRel.seg {s : Bool} {x y : Bytes} (h : SeqRel s x y) (a b : Nat) : SeqRel s (seg x a b) (seg y a b) :=
  ⟨by rw [seg_length, seg_length, h.1], fun hs => by rw [h.2 hs]⟩
theorem SeqRel.rc {s : Bool} {x y : Bytes} (h : SeqRel s x y) :
    SeqRel s (x.map Read.complement).reverse (y.map Read.complement).reverse :=
  ⟨by simp [h.1], fun hs => by rw [h.2 hs]⟩

/-- `r'` is the slice `[a, b)` of `r`: the sequence (when `strict`; otherwise a string of that length), and the
    qualities up to zero-capping with the given bases in turn -/
def SegRel (strict : Bool) (bases : List Nat) (r r' : Read) : Prop :=
  ∃ a b, SeqRel strict (seg r.seq a b) r'.seq ∧ r'.qual = r.qual.map (fun q => capAll bases (seg q a b))

theorem SameSeg.segRel {r r' : Read} (h : SameSeg r r') (s : Bool) : SegRel s [] r r' := by
  obtain ⟨a, b, h1, h2⟩ := h
  exact ⟨a, b, by rw [h1]; exact SeqRel.rfl' _ _, h2⟩

theorem segRel_true_nil_iff (r r' : Read) : SegRel true [] r r' ↔ SameSeg r r' := by
  constructor
  · rintro ⟨a, b, h1, h2⟩
    exact ⟨a, b, (h1.2 rfl).symm, h2⟩
  · exact fun h => h.segRel true

theorem SegRel.weaken {s : Bool} {bs : List Nat} {r r' : Read} (h : SegRel true bs r r') : SegRel s bs r r' := by
  obtain ⟨a, b, h1, h2⟩ := h
  exact ⟨a, b, ⟨h1.1, fun _ => h1.2 rfl⟩, h2⟩

theorem SegRel.trans {s : Bool} {bs cs : List Nat} {r r' r'' : Read}
    (h1 : SegRel s bs r r') (h2 : SegRel s cs r' r'') : SegRel s (bs ++ cs) r r'' := by
  obtain ⟨a, b, hs, hq⟩ := h1
  obtain ⟨c, d, hs', hq'⟩ := h2
  refine ⟨a + c, min b (a + d), ?_, ?_⟩
  · rw [← seg_seg]; exact (hs.seg c d).trans hs'
  · rw [hq', hq, Option.map_map]
    congr 1; funext q
    simp only [Function.comp, capAll_seg, seg_seg, capAll_append]

theorem SegRel.qualOK {s : Bool} {bs : List Nat} {r r' : Read} (h : SegRel s bs r r') (hq : QualOK r) : QualOK r' := by
  obtain ⟨a, b, hs, hq'⟩ := h
  intro q hq2
  rw [hq'] at hq2
  cases hr : r.qual with
  | none => rw [hr] at hq2; simp at hq2
  | some q0 =>
    rw [hr] at hq2; simp at hq2
    rw [← hq2, ← hs.1, capAll_length, seg_length, seg_length, hq q0 hr]

theorem SegRel.revcomp {s : Bool} {bs : List Nat} {r r' : Read} (h : SegRel s bs r r') (hq : QualOK r) :
    SegRel s bs r.revcomp r'.revcomp := by
  obtain ⟨a, b, hs, hq'⟩ := h
  refine ⟨r.seq.length - min b r.seq.length, r.seq.length - a, ?_, ?_⟩
  · have := hs.rc
    rw [← seg_map, seg_reverse] at this
    simpa [Read.revcomp] using this
  · simp only [Read.revcomp, hq']
    cases hr : r.qual with
    | none => rfl
    | some q => simp [capAll_reverse, seg_reverse, hq q hr]

theorem SegRel.of_eq {s : Bool} {r r' : Read} (hs : r'.seq = r.seq) (hq : r'.qual = r.qual) : SegRel s [] r r' :=
  (SameSeg.of_eq hs hq).segRel s

/-- same length, same qualities: a (non-strict) slice relation -/
theorem SegRel.of_marked {r r' : Read} (hs : r'.seq.length = r.seq.length) (hq : r'.qual = r.qual) :
    SegRel false [] r r' := by
  obtain ⟨a, b, h1, h2⟩ := SameSeg.refl r
  refine ⟨a, b, ⟨?_, fun h => by simp at h⟩, ?_⟩
  · rw [← h1, hs]
  · rw [hq]; exact h2

/-! ### Single modifiers -/

theorem applyS_trimmer (names : Names) (side : Nat) (m : SMod) (hm : m.isTrimmer = true) (r r' : Read) (i i' : Info)
    (evs : List Event) (hq : QualOK r) (h : applyS names side m r i = .ok (r', i', evs)) :
    SameSeg r r' ∧ r'.name = r.name ∧ i'.mts = i.mts ∧ i'.original = i.original ∧ i'.isRc = i.isRc := by
  cases m with
  | cut n =>
    simp only [applyS] at h
    split at h
    · simp only [Except.ok.injEq, Prod.mk.injEq] at h
      obtain ⟨rfl, rfl, _⟩ := h
      exact ⟨SameSeg.slice r hq _ _, rfl, rfl, rfl, rfl⟩
    · split at h
      · simp only [Except.ok.injEq, Prod.mk.injEq] at h
        obtain ⟨rfl, rfl, _⟩ := h
        exact ⟨SameSeg.slice r hq _ _, rfl, rfl, rfl, rfl⟩
      · simp at h
  | nextseq cutoff base =>
    simp only [applyS] at h
    split at h
    · simp at h
    · simp only [Except.ok.injEq, Prod.mk.injEq] at h
      obtain ⟨rfl, rfl, _⟩ := h
      exact ⟨SameSeg.sub _ _ _, rfl, rfl, rfl, rfl⟩
  | qtrim cf cb base =>
    simp only [applyS] at h
    split at h
    · simp at h
    · simp only [Except.ok.injEq, Prod.mk.injEq] at h
      obtain ⟨rfl, rfl, _⟩ := h
      exact ⟨SameSeg.sub _ _ _, rfl, rfl, rfl, rfl⟩
  | polyA rc =>
    simp only [applyS] at h
    split at h
    · simp only [Except.ok.injEq, Prod.mk.injEq] at h
      obtain ⟨rfl, rfl, _⟩ := h
      exact ⟨SameSeg.dropFront _ _, rfl, rfl, rfl, rfl⟩
    · simp only [Except.ok.injEq, Prod.mk.injEq] at h
      obtain ⟨rfl, rfl, _⟩ := h
      exact ⟨SameSeg.takeFront _ _, rfl, rfl, rfl, rfl⟩
  | shorten n =>
    simp only [applyS] at h
    split at h
    · simp only [Except.ok.injEq, Prod.mk.injEq] at h
      obtain ⟨rfl, rfl, _⟩ := h
      exact ⟨SameSeg.slice r hq _ _, rfl, rfl, rfl, rfl⟩
    · simp only [Except.ok.injEq, Prod.mk.injEq] at h
      obtain ⟨rfl, rfl, _⟩ := h
      exact ⟨SameSeg.slice r hq _ _, rfl, rfl, rfl, rfl⟩
  | trimN =>
    simp only [applyS, Except.ok.injEq, Prod.mk.injEq] at h
    obtain ⟨rfl, rfl, _⟩ := h
    exact ⟨SameSeg.sub _ _ _, rfl, rfl, rfl, rfl⟩
  | _ => simp [SMod.isTrimmer] at hm

theorem applyS_nameMod (names : Names) (side : Nat) (m : SMod) (hm : m.isNameMod = true) (r r' : Read) (i i' : Info)
    (evs : List Event) (h : applyS names side m r i = .ok (r', i', evs)) :
    r'.seq = r.seq ∧ r'.qual = r.qual ∧ i' = i ∧ evs = [] := by
  cases m with
  | lengthTag tag =>
    simp only [applyS, Except.ok.injEq, Prod.mk.injEq] at h
    obtain ⟨rfl, rfl, rfl⟩ := h
    exact ⟨rfl, rfl, rfl, rfl⟩
  | stripSuffix s =>
    simp only [applyS] at h
    split at h <;>
    · simp only [Except.ok.injEq, Prod.mk.injEq] at h
      obtain ⟨rfl, rfl, rfl⟩ := h
      exact ⟨rfl, rfl, rfl, rfl⟩
  | prefixSuffix p s =>
    simp only [applyS, Except.ok.injEq, Prod.mk.injEq] at h
    obtain ⟨rfl, rfl, rfl⟩ := h
    exact ⟨rfl, rfl, rfl, rfl⟩
  | rename tmpl =>
    simp only [applyS] at h
    split at h
    · simp at h
    · simp only [Except.ok.injEq, Prod.mk.injEq] at h
      obtain ⟨rfl, rfl, rfl⟩ := h
      exact ⟨rfl, rfl, rfl, rfl⟩
  | _ => simp [SMod.isNameMod] at hm

theorem applyS_zeroCap (names : Names) (side base : Nat) (r r' : Read) (i i' : Info) (evs : List Event)
    (h : applyS names side (.zeroCap base) r i = .ok (r', i', evs)) :
    r'.seq = r.seq ∧ r'.name = r.name ∧ r'.qual = r.qual.map (capQual base) ∧ i' = i ∧ evs = [] := by
  simp only [applyS, Except.ok.injEq, Prod.mk.injEq] at h
  obtain ⟨rfl, rfl, rfl⟩ := h
  exact ⟨rfl, rfl, rfl, rfl, rfl⟩

/-! ### The adapter stage -/

theorem matchedEvents_eq (side : Nat) (ms : List AnyMatch) (rc : Bool) :
    (if ms.isEmpty then [] else Event.withAdapter side :: ms.map (fun m => Event.matched side m rc)) =
      matchedEvents side ms rc := rfl

/-- how the adapter stage updates `info.original_read`: it is the same object as the read when no earlier modifier
    replaced it, so the in-place upper-casing of `lowercase` shows -/
def originalAfter (first : Bool) (i : Info) (readAfter : Read) : Info :=
  if first then { i with original := { i.original with seq := readAfter.seq } } else i

/-- `AdapterCutter.__call__` in terms of `match_and_trim` -/
theorem applyS_adapters (names : Names) (side : Nat) (c : Cutter) (first : Bool) (r : Read) (i : Info) :
    applyS names side (.adapters c first) r i =
      match matchAndTrim c r with
      | .error e => .error e
      | .ok (tr, ms, ra) =>
        .ok (tr, { originalAfter first i ra with mts := (originalAfter first i ra).mts ++ ms }, matchedEvents side ms false) := by
  simp only [applyS]
  cases matchAndTrim c r with
  | error e => rfl
  | ok v => obtain ⟨tr, ms, ra⟩ := v; rfl

/-- the decision of `ReverseComplementer.__call__` -/
def useReverse (fms rms : List AnyMatch) : Bool := !rms.isEmpty && scoreSum rms > scoreSum fms

/-- `ReverseComplementer.__call__` in terms of the two `match_and_trim` calls -/
theorem applyS_revcomp (names : Names) (side : Nat) (c : Cutter) (suffix first : Bool) (r : Read) (i : Info) :
    applyS names side (.revcomp c suffix first) r i =
      match matchAndTrim c r with
      | .error e => .error e
      | .ok (ftr, fms, fa) =>
        match matchAndTrim c r.revcomp with
        | .error e => .error e
        | .ok (rtr, rms, _) =>
          if useReverse fms rms then
            .ok (if suffix then { rtr with name := rtr.name ++ bytesOfStr " rc" } else rtr,
                 { originalAfter first i fa with isRc := some true, mts := (originalAfter first i fa).mts ++ rms },
                 Event.revComp :: Event.withAdapter side :: rms.map (fun m => Event.matched side m true))
          else
            .ok (ftr, { originalAfter first i fa with isRc := some false, mts := (originalAfter first i fa).mts ++ fms },
                 matchedEvents side fms false) := by
  simp only [applyS]
  cases matchAndTrim c r with
  | error e => rfl
  | ok v =>
    obtain ⟨tr, ms, ra⟩ := v
    simp only
    cases matchAndTrim c r.revcomp with
    | error e => rfl
    | ok w => obtain ⟨rtr, rms, ra'⟩ := w; rfl

theorem originalAfter_mts (first : Bool) (i : Info) (ra : Read) : (originalAfter first i ra).mts = i.mts := by
  unfold originalAfter; split <;> rfl
theorem originalAfter_isRc (first : Bool) (i : Info) (ra : Read) : (originalAfter first i ra).isRc = i.isRc := by
  unfold originalAfter; split <;> rfl

/-- which cutters the pipeline theorems cover: `strict` — actions that cut (or do nothing); otherwise also the marking
    actions, provided the adapters' matches have in-bounds coordinates -/
def CutterOK (strict : Bool) (c : Cutter) : Prop :=
  (c.action = .trim ∨ c.action = .retain ∨ c.action = .crop ∨ c.action = .none) ∨
  (strict = false ∧ AdaptersInBounds c.adapters)

theorem matchAndTrim_segRel (s : Bool) (c : Cutter) (hc : CutterOK s c) (read tr ra : Read) (ms : List AnyMatch)
    (h : matchAndTrim c read = .ok (tr, ms, ra)) : SegRel s [] read tr ∧ tr.name = read.name := by
  by_cases hcut : c.action = .trim ∨ c.action = .retain ∨ c.action = .crop ∨ c.action = .none
  · obtain ⟨h1, h2, _, _⟩ := matchAndTrim_slice c read tr ra ms hcut h
    exact ⟨h1.segRel s, h2⟩
  · rcases hc with hc | ⟨rfl, hab⟩
    · exact absurd hc hcut
    · have hm : c.action = .mask ∨ c.action = .lowercase := by
        cases hact : c.action <;> simp [hact] at hcut ⊢
      obtain ⟨h1, h2, h3⟩ := matchAndTrim_marked c hab read tr ra ms hm h
      exact ⟨SegRel.of_marked h1 h2, h3⟩

def SMod.OK (strict : Bool) : SMod → Prop
  | .adapters c _ => CutterOK strict c
  | .revcomp c _ _ => CutterOK strict c
  | _ => True

/-- one modifier other than the reverse-complementing stage -/
theorem applyS_segRel (s : Bool) (names : Names) (side : Nat) (m : SMod) (hok : m.OK s) (hrc : m.isRevcomp = false)
    (r r' : Read) (i i' : Info) (evs : List Event) (hq : QualOK r) (h : applyS names side m r i = .ok (r', i', evs)) :
    SegRel s m.capBases r r' ∧ i'.isRc = i.isRc := by
  by_cases ht : m.isTrimmer = true
  · obtain ⟨h1, _, _, _, h5⟩ := applyS_trimmer names side m ht r r' i i' evs hq h
    have : m.capBases = [] := by cases m <;> simp [SMod.isTrimmer] at ht <;> rfl
    rw [this]; exact ⟨h1.segRel s, h5⟩
  by_cases hn : m.isNameMod = true
  · obtain ⟨h1, h2, h3, _⟩ := applyS_nameMod names side m hn r r' i i' evs h
    have : m.capBases = [] := by cases m <;> simp [SMod.isNameMod] at hn <;> rfl
    rw [this, h3]; exact ⟨SegRel.of_eq h1 h2, rfl⟩
  cases m with
  | zeroCap base =>
    obtain ⟨h1, _, h3, h4, _⟩ := applyS_zeroCap names side base r r' i i' evs h
    refine ⟨?_, by rw [h4]⟩
    obtain ⟨a, b, e1, e2⟩ := SameSeg.refl r
    refine ⟨a, b, by rw [h1, ← e1]; exact SeqRel.rfl' _ _, ?_⟩
    rw [h3]
    conv => lhs; rw [e2]
    rw [Option.map_map]
    rfl
  | adapters c first =>
    rw [applyS_adapters] at h
    split at h
    · simp at h
    · rename_i tr ms ra hmt
      simp only [Except.ok.injEq, Prod.mk.injEq] at h
      obtain ⟨rfl, rfl, _⟩ := h
      exact ⟨(matchAndTrim_segRel s c hok r _ ra ms hmt).1, originalAfter_isRc _ _ _⟩
  | revcomp c sfx first => simp [SMod.isRevcomp] at hrc
  | _ => first | exact absurd rfl ht | exact absurd rfl hn

/-- the reverse-complementing stage: a slice of the read, or of its reverse complement when that was chosen -/
theorem applyS_revcomp_segRel (s : Bool) (names : Names) (side : Nat) (c : Cutter) (sfx first : Bool)
    (hok : CutterOK s c) (r r' : Read) (i i' : Info) (evs : List Event)
    (h : applyS names side (.revcomp c sfx first) r i = .ok (r', i', evs)) :
    (i'.isRc = some true ∧ SegRel s [] r.revcomp r') ∨ (i'.isRc = some false ∧ SegRel s [] r r') := by
  rw [applyS_revcomp] at h
  split at h
  · simp at h
  · rename_i ftr fms fa hf
    split at h
    · simp at h
    · rename_i rtr rms ra' hr
      split at h
      · simp only [Except.ok.injEq, Prod.mk.injEq] at h
        obtain ⟨rfl, rfl, _⟩ := h
        left
        refine ⟨rfl, ?_⟩
        obtain ⟨a, b, h1, h2⟩ := (matchAndTrim_segRel s c hok _ _ _ _ hr).1
        refine ⟨a, b, ?_, ?_⟩ <;> split <;> assumption
      · simp only [Except.ok.injEq, Prod.mk.injEq] at h
        obtain ⟨rfl, rfl, _⟩ := h
        exact Or.inr ⟨rfl, (matchAndTrim_segRel s c hok _ _ _ _ hf).1⟩

/-! ### The modifier list -/

def zeroCapBases (mods : List SMod) : List Nat := mods.flatMap SMod.capBases

def revcompStages (mods : List SMod) : Nat := (mods.filter SMod.isRevcomp).length

theorem runModsS_norc (s : Bool) (names : Names) (mods : List SMod) (hok : ∀ m ∈ mods, m.OK s)
    (hrc : ∀ m ∈ mods, m.isRevcomp = false) (r r' : Read) (i i' : Info) (evs evs' : List Event) (hq : QualOK r)
    (h : runModsS names mods r i evs = .ok (r', i', evs')) :
    SegRel s (zeroCapBases mods) r r' ∧ i'.isRc = i.isRc := by
  induction mods generalizing r i evs with
  | nil =>
    simp only [runModsS, Except.ok.injEq, Prod.mk.injEq] at h
    obtain ⟨rfl, rfl, _⟩ := h
    exact ⟨(SameSeg.refl r).segRel s, rfl⟩
  | cons m ms ih =>
    simp only [runModsS] at h
    split at h
    · simp at h
    · rename_i r1 i1 e1 h1
      obtain ⟨a1, a2⟩ := applyS_segRel s names 0 m (hok m List.mem_cons_self) (hrc m List.mem_cons_self) r r1 i i1 e1 hq h1
      obtain ⟨b1, b2⟩ := ih (fun x hx => hok x (List.mem_cons_of_mem _ hx)) (fun x hx => hrc x (List.mem_cons_of_mem _ hx))
        r1 i1 _ (a1.qualOK hq) h
      exact ⟨by simpa [zeroCapBases] using a1.trans b1, b2.trans a2⟩

/-- **The modifier list as a whole.** With at most one reverse-complementing stage, every output read is a slice of
    the input read — of its reverse complement iff `info.is_rc` ends up `True` — with the qualities sliced at the
    same bounds and zero-capped by the zero-cappers in the list; sequence and qualities stay equally long. -/
theorem runModsS_segRel (s : Bool) (names : Names) (mods : List SMod) (hok : ∀ m ∈ mods, m.OK s)
    (hrc : revcompStages mods ≤ 1) (r r' : Read) (i i' : Info) (evs evs' : List Event) (hq : QualOK r)
    (hi : i.isRc ≠ some true) (h : runModsS names mods r i evs = .ok (r', i', evs')) :
    QualOK r' ∧
    (if i'.isRc = some true then SegRel s (zeroCapBases mods) r.revcomp r' else SegRel s (zeroCapBases mods) r r') := by
  induction mods generalizing r i evs with
  | nil =>
    simp only [runModsS, Except.ok.injEq, Prod.mk.injEq] at h
    obtain ⟨rfl, rfl, _⟩ := h
    rw [if_neg hi]
    exact ⟨hq, (SameSeg.refl r).segRel s⟩
  | cons m ms ih =>
    simp only [runModsS] at h
    split at h
    · simp at h
    · rename_i r1 i1 e1 h1
      by_cases hm : m.isRevcomp = true
      · -- the reverse-complementing stage itself; no further one behind it
        have hrc' : ∀ x ∈ ms, x.isRevcomp = false := by
          intro x hx
          by_cases hxr : x.isRevcomp = true
          · have : 0 < (ms.filter SMod.isRevcomp).length := List.length_pos_of_mem (List.mem_filter.mpr ⟨hx, hxr⟩)
            simp only [revcompStages, List.filter_cons, hm, if_true, List.length_cons] at hrc
            omega
          · simpa using hxr
        cases m with
        | revcomp c sfx first =>
          have hcap : zeroCapBases (SMod.revcomp c sfx first :: ms) = zeroCapBases ms := by simp [zeroCapBases, SMod.capBases]
          rw [hcap]
          rcases applyS_revcomp_segRel s names 0 c sfx first (hok _ List.mem_cons_self) r r1 i i1 e1 h1 with ⟨a1, a2⟩ | ⟨a1, a2⟩
          · obtain ⟨b1, b2⟩ := runModsS_norc s names ms (fun x hx => hok x (List.mem_cons_of_mem _ hx)) hrc' r1 r' i1 i' _ _
              (a2.qualOK hq.revcomp) h
            rw [b2, a1, if_pos rfl]
            exact ⟨b1.qualOK (a2.qualOK hq.revcomp), by simpa using a2.trans b1⟩
          · obtain ⟨b1, b2⟩ := runModsS_norc s names ms (fun x hx => hok x (List.mem_cons_of_mem _ hx)) hrc' r1 r' i1 i' _ _
              (a2.qualOK hq) h
            rw [b2, a1, if_neg (by simp)]
            exact ⟨b1.qualOK (a2.qualOK hq), by simpa using a2.trans b1⟩
        | _ => simp [SMod.isRevcomp] at hm
      · have hm' : m.isRevcomp = false := by simpa using hm
        obtain ⟨a1, a2⟩ := applyS_segRel s names 0 m (hok m List.mem_cons_self) hm' r r1 i i1 e1 hq h1
        have hrc2 : revcompStages ms ≤ 1 := by simpa [revcompStages, List.filter_cons, hm'] using hrc
        obtain ⟨b1, b2⟩ := ih (fun x hx => hok x (List.mem_cons_of_mem _ hx)) hrc2 r1 i1 _ (a1.qualOK hq) (by rw [a2]; exact hi) h
        have hcap : zeroCapBases (m :: ms) = m.capBases ++ zeroCapBases ms := by simp [zeroCapBases]
        rw [hcap]
        refine ⟨b1, ?_⟩
        split
        · rename_i hrc1
          rw [if_pos hrc1] at b2
          exact (a1.revcomp hq).trans b2
        · rename_i hrc1
          rw [if_neg hrc1] at b2
          exact a1.trans b2

end Cutadapt
