import Cutadapt.Proofs.ModsStages
/-! Paired-end modifiers: `PairedModifierWrapper` and `PairedReverseComplementer`. Core Lean only. -/
namespace Cutadapt
open Cutadapt.Adapters Cutadapt.Qualtrim

def pairLower (c1 c2 : Option Cutter) : Bool :=
  (c1.map (·.action == .lowercase)).getD false || (c2.map (·.action == .lowercase)).getD false
def upperIf (b : Bool) (r : Read) : Read := if b then { r with seq := upperBytes r.seq } else r
def pairUseRc (m1 m2 m1s m2s : List AnyMatch) : Bool :=
  (!m1s.isEmpty || !m2s.isEmpty) && scoreSum m1s + scoreSum m2s > scoreSum m1 + scoreSum m2

/-- `PairedReverseComplementer.__call__` after the (possible) in-place upper-casing of the two reads -/
def pairedRevcompCore (c1 c2 : Option Cutter) (suffix first1 first2 : Bool) (r1 r2 : Read) (i1 i2 : Info) :
    Except Err ((Read × Read) × (Info × Info) × List Event) := do
  let (t1, m1, _) ← cutterOpt c1 r1
  let (t2, m2, _) ← cutterOpt c2 r2
  let (t1s, m1s, _) ← cutterOpt c1 r2
  let (t2s, m2s, _) ← cutterOpt c2 r1
  let i1 := if first1 then { i1 with original := { i1.original with seq := r1.seq } } else i1
  let i2 := if first2 then { i2 with original := { i2.original with seq := r2.seq } } else i2
  let useRc := (!m1s.isEmpty || !m2s.isEmpty) && scoreSum m1s + scoreSum m2s > scoreSum m1 + scoreSum m2
  let (o1, o2, n1, n2) := if useRc then (t1s, t2s, m1s, m2s) else (t1, t2, m1, m2)
  let o1 := if useRc && suffix then { o1 with name := o1.name ++ bytesOfStr " rc" } else o1
  let o2 := if useRc && suffix then { o2 with name := o2.name ++ bytesOfStr " rc" } else o2
  if (!n1.isEmpty && c1.isNone) || (!n2.isEmpty && c2.isNone) then throw .attribute else
  pure ((o1, o2),
    ({ i1 with isRc := some useRc, mts := i1.mts ++ n1 }, { i2 with isRc := some useRc, mts := i2.mts ++ n2 }),
    (if useRc then [Event.revComp] else []) ++ matchedEvents 0 n1 useRc ++ matchedEvents 1 n2 useRc)

theorem applyP_pairedRevcomp_core (ads1 ads2 : List Matchable) (c1 c2 : Option Cutter) (suffix first1 first2 : Bool)
    (r1 r2 : Read) (i1 i2 : Info) :
    applyP ads1 ads2 (.pairedRevcomp c1 c2 suffix first1 first2) (r1, r2) (i1, i2) =
      pairedRevcompCore c1 c2 suffix first1 first2 (upperIf (pairLower c1 c2) r1) (upperIf (pairLower c1 c2) r2) i1 i2 := rfl

theorem pairedRevcompCore_eq (c1 c2 : Option Cutter) (suffix first1 first2 : Bool) (r1 r2 : Read) (i1 i2 : Info) :
    pairedRevcompCore c1 c2 suffix first1 first2 r1 r2 i1 i2 =
      match cutterOpt c1 r1 with
      | .error e => .error e
      | .ok (t1, m1, _) =>
      match cutterOpt c2 r2 with
      | .error e => .error e
      | .ok (t2, m2, _) =>
      match cutterOpt c1 r2 with
      | .error e => .error e
      | .ok (t1s, m1s, _) =>
      match cutterOpt c2 r1 with
      | .error e => .error e
      | .ok (t2s, m2s, _) =>
        let u := pairUseRc m1 m2 m1s m2s
        let n1 := if u then m1s else m1
        let n2 := if u then m2s else m2
        let o1 := if u then t1s else t1
        let o2 := if u then t2s else t2
        if (!n1.isEmpty && c1.isNone) || (!n2.isEmpty && c2.isNone) then .error .attribute else
        .ok ((if u && suffix then { o1 with name := o1.name ++ bytesOfStr " rc" } else o1,
              if u && suffix then { o2 with name := o2.name ++ bytesOfStr " rc" } else o2),
             ({ originalAfter first1 i1 r1 with isRc := some u, mts := (originalAfter first1 i1 r1).mts ++ n1 },
              { originalAfter first2 i2 r2 with isRc := some u, mts := (originalAfter first2 i2 r2).mts ++ n2 }),
             (if u then [Event.revComp] else []) ++ matchedEvents 0 n1 u ++ matchedEvents 1 n2 u) := by
  unfold pairedRevcompCore
  simp only [bind, Except.bind, pure, Except.pure, throw, throwThe, MonadExcept.throw]
  cases cutterOpt c1 r1 with
  | error e => rfl
  | ok v1 =>
    obtain ⟨t1, m1, x1⟩ := v1
    cases cutterOpt c2 r2 with
    | error e => rfl
    | ok v2 =>
      obtain ⟨t2, m2, x2⟩ := v2
      cases cutterOpt c1 r2 with
      | error e => rfl
      | ok v3 =>
        obtain ⟨t1s, m1s, x3⟩ := v3
        cases cutterOpt c2 r1 with
        | error e => rfl
        | ok v4 =>
          obtain ⟨t2s, m2s, x4⟩ := v4
          simp only [pairUseRc]
          by_cases hu : ((!m1s.isEmpty || !m2s.isEmpty) && decide (scoreSum m1s + scoreSum m2s > scoreSum m1 + scoreSum m2)) = true
          · simp only [hu, if_true]
            rfl
          · simp only [hu]
            rfl

/-- `applyP (.pairedRevcomp …)` written out -/
theorem applyP_pairedRevcomp (ads1 ads2 : List Matchable) (c1 c2 : Option Cutter) (suffix first1 first2 : Bool)
    (r1 r2 : Read) (i1 i2 : Info) :
    applyP ads1 ads2 (.pairedRevcomp c1 c2 suffix first1 first2) (r1, r2) (i1, i2) =
      pairedRevcompCore c1 c2 suffix first1 first2 (upperIf (pairLower c1 c2) r1) (upperIf (pairLower c1 c2) r2) i1 i2 :=
  applyP_pairedRevcomp_core ..

/-! ### `cutterOpt` -/

theorem matchAndTrim_readAfter (c : Cutter) (read tr ra : Read) (ms : List AnyMatch)
    (h : matchAndTrim c read = .ok (tr, ms, ra)) : ra = searchRead c read := by
  rcases getLast?_cases (rounds c.adapters c.times (searchRead c read) []).2 with hn | ⟨last, hl⟩
  · rw [matchAndTrim_no_match c read hn] at h
    simp only [Except.ok.injEq, Prod.mk.injEq] at h
    exact h.2.2.symm
  · rw [matchAndTrim_last c read last hl] at h
    unfold actionResult at h
    cases hact : c.action <;> simp only [hact] at h
    case crop =>
      cases last with
      | single _ r => simp only [Except.ok.injEq, Prod.mk.injEq] at h; exact h.2.2.symm
      | linked _ _ _ => simp at h
    all_goals (simp only [Except.ok.injEq, Prod.mk.injEq] at h; exact h.2.2.symm)

theorem cutterOpt_none_matches (r t x : Read) (m : List AnyMatch) (h : cutterOpt none r = .ok (t, m, x)) :
    t = r ∧ m = [] ∧ x = r := by
  simp only [cutterOpt, Except.ok.injEq, Prod.mk.injEq] at h
  exact ⟨h.1.symm, h.2.1.symm, h.2.2.symm⟩

theorem cutterOpt_segRel (s : Bool) (c : Option Cutter) (hok : ∀ c' ∈ c, CutterOK s c') (r t x : Read)
    (m : List AnyMatch) (h : cutterOpt c r = .ok (t, m, x)) : SegRel s [] r t ∧ t.name = r.name := by
  cases c with
  | none =>
    obtain ⟨rfl, _, _⟩ := cutterOpt_none_matches r t x m h
    exact ⟨(SameSeg.refl _).segRel s, rfl⟩
  | some c' => exact matchAndTrim_segRel s c' (hok c' rfl) r t x m h

theorem upperBytes_idem (xs : Bytes) : upperBytes (upperBytes xs) = upperBytes xs := by
  simp [upperBytes, asciiUpper_idem]

/-- the object handed to a cutter is left with the sequence it already had once the pair has been upper-cased -/
theorem cutterOpt_readAfter_seq (c1 c2 c : Option Cutter) (hc : c = c1 ∨ c = c2) (r t x : Read) (m : List AnyMatch)
    (h : cutterOpt c (upperIf (pairLower c1 c2) r) = .ok (t, m, x)) : x.seq = (upperIf (pairLower c1 c2) r).seq := by
  cases c with
  | none => rw [(cutterOpt_none_matches _ t x m h).2.2]
  | some c' =>
    rw [matchAndTrim_readAfter c' _ t x m h]
    unfold searchRead
    split
    · rename_i hl
      have hL : pairLower c1 c2 = true := by
        rcases hc with e | e <;> simp [pairLower, ← e, hl]
      simp [upperIf, hL, upperBytes_idem]
    · rfl

/-! ### The wrapper -/

def applySOpt (names : Names) (side : Nat) (m : Option SMod) (r : Read) (i : Info) : Except Err (Read × Info × List Event) :=
  match m with
  | some m => applyS names side m r i
  | none => .ok (r, i, [])

theorem applyP_wrap (ads1 ads2 : List Matchable) (m1 m2 : Option SMod) (r1 r2 : Read) (i1 i2 : Info) :
    applyP ads1 ads2 (.wrap m1 m2) (r1, r2) (i1, i2) =
      match applySOpt (namesOf ads1) 0 m1 r1 i1 with
      | .error e => .error e
      | .ok (r1', i1', e1) =>
        match applySOpt (namesOf ads2) 1 m2 r2 i2 with
        | .error e => .error e
        | .ok (r2', i2', e2) => .ok ((r1', r2'), (i1', i2'), e1 ++ e2) := by
  have : applyP ads1 ads2 (.wrap m1 m2) (r1, r2) (i1, i2) =
      (do let (r1', i1', e1) ← applySOpt (namesOf ads1) 0 m1 r1 i1
          let (r2', i2', e2) ← applySOpt (namesOf ads2) 1 m2 r2 i2
          pure ((r1', r2'), (i1', i2'), e1 ++ e2)) := by
    cases m1 <;> cases m2 <;> rfl
  rw [this]
  simp only [bind, Except.bind, pure, Except.pure]
  cases applySOpt (namesOf ads1) 0 m1 r1 i1 with
  | error e => rfl
  | ok v =>
    obtain ⟨a, b, c⟩ := v
    simp only
    cases applySOpt (namesOf ads2) 1 m2 r2 i2 with
    | error e => rfl
    | ok w => obtain ⟨a', b', c'⟩ := w; rfl

theorem applySOpt_segRel (s : Bool) (names : Names) (side : Nat) (m : Option SMod) (hok : ∀ x ∈ m, x.OK s)
    (hrc : ∀ x ∈ m, x.isRevcomp = false) (r r' : Read) (i i' : Info) (evs : List Event) (hq : QualOK r)
    (h : applySOpt names side m r i = .ok (r', i', evs)) :
    SegRel s ((m.map SMod.capBases).getD []) r r' ∧ i'.isRc = i.isRc := by
  cases m with
  | none =>
    simp only [applySOpt, Except.ok.injEq, Prod.mk.injEq] at h
    obtain ⟨rfl, rfl, _⟩ := h
    exact ⟨(SameSeg.refl _).segRel s, rfl⟩
  | some x => exact applyS_segRel s names side x (hok x rfl) (hrc x rfl) r r' i i' evs hq h

/-- **`PairedModifierWrapper`**: each mate is treated by its own modifier, independently of the other -/
theorem applyP_wrap_segRel (s : Bool) (ads1 ads2 : List Matchable) (m1 m2 : Option SMod)
    (hok1 : ∀ x ∈ m1, x.OK s) (hok2 : ∀ x ∈ m2, x.OK s)
    (hrc1 : ∀ x ∈ m1, x.isRevcomp = false) (hrc2 : ∀ x ∈ m2, x.isRevcomp = false)
    (r1 r2 o1 o2 : Read) (i1 i2 j1 j2 : Info) (evs : List Event) (hq1 : QualOK r1) (hq2 : QualOK r2)
    (h : applyP ads1 ads2 (.wrap m1 m2) (r1, r2) (i1, i2) = .ok ((o1, o2), (j1, j2), evs)) :
    SegRel s ((m1.map SMod.capBases).getD []) r1 o1 ∧ SegRel s ((m2.map SMod.capBases).getD []) r2 o2 ∧
    j1.isRc = i1.isRc ∧ j2.isRc = i2.isRc := by
  rw [applyP_wrap] at h
  split at h
  · simp at h
  · rename_i a b c ha
    split at h
    · simp at h
    · rename_i a' b' c' hb
      simp only [Except.ok.injEq, Prod.mk.injEq] at h
      obtain ⟨⟨rfl, rfl⟩, ⟨rfl, rfl⟩, _⟩ := h
      obtain ⟨x1, x2⟩ := applySOpt_segRel s _ 0 m1 hok1 hrc1 r1 _ i1 _ c hq1 ha
      obtain ⟨y1, y2⟩ := applySOpt_segRel s _ 1 m2 hok2 hrc2 r2 _ i2 _ c' hq2 hb
      exact ⟨x1, y1, x2, y2⟩

/-! ### The paired reverse-complementer -/

theorem upperIf_segRel (s : Bool) (L : Bool) (hL : s = true → L = false) (r : Read) : SegRel s [] r (upperIf L r) := by
  cases L with
  | false => exact (SameSeg.refl r).segRel s
  | true =>
    cases s with
    | true => simp at hL
    | false => exact SegRel.of_marked (by simp [upperIf, upperBytes]) rfl

theorem cutterOK_not_lowercase (c : Cutter) (h : CutterOK true c) : (c.action == Action.lowercase) = false := by
  rcases h with h | ⟨h, _⟩
  · rcases h with e | e | e | e <;> simp [e, Action.beq_eq_decide]
  · simp at h

theorem pairLower_false (c1 c2 : Option Cutter) (h1 : ∀ c ∈ c1, CutterOK true c) (h2 : ∀ c ∈ c2, CutterOK true c) :
    pairLower c1 c2 = false := by
  unfold pairLower
  cases c1 <;> cases c2 <;> simp [cutterOK_not_lowercase, h1, h2]

/-- what the four `match_and_trim` calls of `PairedReverseComplementer.__call__` return decides everything -/
theorem pairedRevcompCore_ok (c1 c2 : Option Cutter) (suffix first1 first2 : Bool) (r1 r2 : Read) (i1 i2 : Info)
    (t1 t2 t1s t2s x1 x2 x3 x4 : Read) (m1 m2 m1s m2s : List AnyMatch)
    (h1 : cutterOpt c1 r1 = .ok (t1, m1, x1)) (h2 : cutterOpt c2 r2 = .ok (t2, m2, x2))
    (h3 : cutterOpt c1 r2 = .ok (t1s, m1s, x3)) (h4 : cutterOpt c2 r1 = .ok (t2s, m2s, x4)) :
    pairedRevcompCore c1 c2 suffix first1 first2 r1 r2 i1 i2 =
      if pairUseRc m1 m2 m1s m2s then
        .ok ((if suffix then { t1s with name := t1s.name ++ bytesOfStr " rc" } else t1s,
              if suffix then { t2s with name := t2s.name ++ bytesOfStr " rc" } else t2s),
             ({ originalAfter first1 i1 r1 with isRc := some true, mts := (originalAfter first1 i1 r1).mts ++ m1s },
              { originalAfter first2 i2 r2 with isRc := some true, mts := (originalAfter first2 i2 r2).mts ++ m2s }),
             Event.revComp :: (matchedEvents 0 m1s true ++ matchedEvents 1 m2s true))
      else
        .ok ((t1, t2),
             ({ originalAfter first1 i1 r1 with isRc := some false, mts := (originalAfter first1 i1 r1).mts ++ m1 },
              { originalAfter first2 i2 r2 with isRc := some false, mts := (originalAfter first2 i2 r2).mts ++ m2 }),
             matchedEvents 0 m1 false ++ matchedEvents 1 m2 false) := by
  rw [pairedRevcompCore_eq, h1, h2, h3, h4]
  simp only
  -- the `AttributeError` branch is dead: a missing cutter reports no matches
  have d1 : ∀ n, (n = m1 ∨ n = m1s) → (!n.isEmpty && c1.isNone) = false := by
    intro n hn
    cases c1 with
    | some _ => simp
    | none =>
      have a := (cutterOpt_none_matches _ _ _ _ h1).2.1
      have b := (cutterOpt_none_matches _ _ _ _ h3).2.1
      rcases hn with e | e <;> simp [e, a, b]
  have d2 : ∀ n, (n = m2 ∨ n = m2s) → (!n.isEmpty && c2.isNone) = false := by
    intro n hn
    cases c2 with
    | some _ => simp
    | none =>
      have a := (cutterOpt_none_matches _ _ _ _ h2).2.1
      have b := (cutterOpt_none_matches _ _ _ _ h4).2.1
      rcases hn with e | e <;> simp [e, a, b]
  cases hu : pairUseRc m1 m2 m1s m2s with
  | true =>
    simp only [if_true, Bool.true_and, d1 m1s (Or.inr rfl), d2 m2s (Or.inr rfl), Bool.or_self, Bool.false_eq_true, if_false]
    rfl
  | false =>
    simp only [Bool.false_eq_true, if_false, Bool.false_and, d1 m1 (Or.inl rfl), d2 m2 (Or.inl rfl), Bool.or_self]
    rfl

/-- `PairedReverseComplementer` never raises on its own: an error is an error of one of the four calls -/
theorem pairedRevcompCore_error (c1 c2 : Option Cutter) (suffix first1 first2 : Bool) (r1 r2 : Read) (i1 i2 : Info)
    (e : Err) (h : pairedRevcompCore c1 c2 suffix first1 first2 r1 r2 i1 i2 = .error e) :
    cutterOpt c1 r1 = .error e ∨ cutterOpt c2 r2 = .error e ∨ cutterOpt c1 r2 = .error e ∨ cutterOpt c2 r1 = .error e := by
  cases h1 : cutterOpt c1 r1 with
  | error e1 => rw [pairedRevcompCore_eq, h1] at h; simp at h; exact Or.inl (by rw [h])
  | ok v1 =>
    obtain ⟨t1, m1, x1⟩ := v1
    cases h2 : cutterOpt c2 r2 with
    | error e2 => rw [pairedRevcompCore_eq, h1, h2] at h; simp at h; exact Or.inr (Or.inl (by rw [h]))
    | ok v2 =>
      obtain ⟨t2, m2, x2⟩ := v2
      cases h3 : cutterOpt c1 r2 with
      | error e3 => rw [pairedRevcompCore_eq, h1, h2, h3] at h; simp at h; exact Or.inr (Or.inr (Or.inl (by rw [h])))
      | ok v3 =>
        obtain ⟨t1s, m1s, x3⟩ := v3
        cases h4 : cutterOpt c2 r1 with
        | error e4 => rw [pairedRevcompCore_eq, h1, h2, h3, h4] at h; simp at h; exact Or.inr (Or.inr (Or.inr (by rw [h])))
        | ok v4 =>
          obtain ⟨t2s, m2s, x4⟩ := v4
          rw [pairedRevcompCore_ok c1 c2 suffix first1 first2 r1 r2 i1 i2 _ _ _ _ _ _ _ _ _ _ _ _ h1 h2 h3 h4] at h
          split at h <;> simp at h

/-- **Paired `--revcomp`**: the output mates are slices of (R1, R2), or of (R2, R1) when the swapped pair was chosen -/
theorem applyP_pairedRevcomp_segRel (s : Bool) (ads1 ads2 : List Matchable) (c1 c2 : Option Cutter)
    (sfx first1 first2 : Bool) (hok1 : ∀ c ∈ c1, CutterOK s c) (hok2 : ∀ c ∈ c2, CutterOK s c)
    (r1 r2 o1 o2 : Read) (i1 i2 j1 j2 : Info) (evs : List Event)
    (h : applyP ads1 ads2 (.pairedRevcomp c1 c2 sfx first1 first2) (r1, r2) (i1, i2) = .ok ((o1, o2), (j1, j2), evs)) :
    (j1.isRc = some true ∧ j2.isRc = some true ∧ SegRel s [] r2 o1 ∧ SegRel s [] r1 o2) ∨
    (j1.isRc = some false ∧ j2.isRc = some false ∧ SegRel s [] r1 o1 ∧ SegRel s [] r2 o2) := by
  rw [applyP_pairedRevcomp] at h
  have hL : s = true → pairLower c1 c2 = false := by
    intro hs; subst hs; exact pairLower_false c1 c2 hok1 hok2
  have u1 := upperIf_segRel s _ hL r1
  have u2 := upperIf_segRel s _ hL r2
  generalize upperIf (pairLower c1 c2) r1 = r1' at h u1
  generalize upperIf (pairLower c1 c2) r2 = r2' at h u2
  cases h1 : cutterOpt c1 r1' with
  | error e1 => rw [pairedRevcompCore_eq, h1] at h; simp at h
  | ok v1 =>
    obtain ⟨t1, m1, x1⟩ := v1
    cases h2 : cutterOpt c2 r2' with
    | error e2 => rw [pairedRevcompCore_eq, h1, h2] at h; simp at h
    | ok v2 =>
      obtain ⟨t2, m2, x2⟩ := v2
      cases h3 : cutterOpt c1 r2' with
      | error e3 => rw [pairedRevcompCore_eq, h1, h2, h3] at h; simp at h
      | ok v3 =>
        obtain ⟨t1s, m1s, x3⟩ := v3
        cases h4 : cutterOpt c2 r1' with
        | error e4 => rw [pairedRevcompCore_eq, h1, h2, h3, h4] at h; simp at h
        | ok v4 =>
          obtain ⟨t2s, m2s, x4⟩ := v4
          rw [pairedRevcompCore_ok c1 c2 sfx first1 first2 r1' r2' i1 i2 _ _ _ _ _ _ _ _ _ _ _ _ h1 h2 h3 h4] at h
          have s1 := (cutterOpt_segRel s c1 hok1 _ _ _ _ h1).1
          have s2 := (cutterOpt_segRel s c2 hok2 _ _ _ _ h2).1
          have s3 := (cutterOpt_segRel s c1 hok1 _ _ _ _ h3).1
          have s4 := (cutterOpt_segRel s c2 hok2 _ _ _ _ h4).1
          split at h
          · simp only [Except.ok.injEq, Prod.mk.injEq] at h
            obtain ⟨⟨rfl, rfl⟩, ⟨rfl, rfl⟩, _⟩ := h
            left
            refine ⟨rfl, rfl, ?_, ?_⟩
            · have := u2.trans s3
              obtain ⟨a, b, e1, e2⟩ := this
              refine ⟨a, b, ?_, ?_⟩ <;> split <;> assumption
            · have := u1.trans s4
              obtain ⟨a, b, e1, e2⟩ := this
              refine ⟨a, b, ?_, ?_⟩ <;> split <;> assumption
          · simp only [Except.ok.injEq, Prod.mk.injEq] at h
            obtain ⟨⟨rfl, rfl⟩, ⟨rfl, rfl⟩, _⟩ := h
            exact Or.inr ⟨rfl, rfl, by simpa using u1.trans s1, by simpa using u2.trans s2⟩

end Cutadapt
