import Cutadapt.Proofs.OrderStages
/-! # C09 — the rounds of `--times` belong to both reads of a pair

The paired-end assembly (`makeModsPaired`, the modifier part of `cli.make_pipeline_from_args` / `make_adapter_cutter`) builds one adapter cutter for R1
(`-a`, `-g`, `-b`) and one for R2 (`-A`, `-G`, `-B`). Both carry the same `--times` and `--action`: the rounds of C09 are searched on R2 exactly as on R1. -/
namespace Cutadapt.C09
open Cutadapt

/-- the stage list of an accepted paired-end command line is the documented one -/
theorem makeModsPaired_documented {o : Opts} {ads1 ads2 : List Matchable} {l : List PMod}
    (h : makeModsPaired o ads1 ads2 = .ok l) : l = documentedPaired o ads1 ads2 := by
  rw [makeModsPaired_eq] at h
  split at h
  · cases h
  · cases h
  · split at h
    · cases h
    · injection h with h; exact h.symm

/-- **Both cutters of a paired-end run search `--times` rounds with the given action.** Without `--pair-adapters` and `--revcomp`, with adapters for
    both reads, the stage list holds the adapter stage `wrap (R1 cutter) (R2 cutter)` in which each cutter is (the adapters of its read, `--times`,
    `--action`). -/
theorem paired_rounds_on_both_mates {o : Opts} {ads1 ads2 : List Matchable} {l : List PMod}
    (h : makeModsPaired o ads1 ads2 = .ok l) (hp : o.pairAdapters = false) (hr : o.revcomp = false)
    (h1 : ads1 ≠ []) (h2 : ads2 ≠ []) :
    ∃ f1 f2, PMod.wrap (some (SMod.adapters ⟨ads1, o.times, o.action⟩ f1)) (some (SMod.adapters ⟨ads2, o.times, o.action⟩ f2)) ∈ l := by
  rw [makeModsPaired_documented h]
  refine ⟨(cutStage o.cut).isEmpty && o.nextseqTrim.isNone && (qR1 o).isNone,
    (cutStage o.cut2).isEmpty && o.nextseqTrim.isNone && (qR2 o).isNone, ?_⟩
  unfold documentedPaired
  simp only [List.mem_append]
  left; left; left; left; right
  cases ads1 with
  | nil => exact absurd rfl h1
  | cons a as =>
    cases ads2 with
    | nil => exact absurd rfl h2
    | cons b bs => simp [adapterStageP, cutterOf, hp, hr]

/-- … and with adapters for R2 only, the R2 cutter alone carries them -/
theorem paired_rounds_r2_only {o : Opts} {ads2 : List Matchable} {l : List PMod}
    (h : makeModsPaired o [] ads2 = .ok l) (hp : o.pairAdapters = false) (hr : o.revcomp = false) (h2 : ads2 ≠ []) :
    ∃ f2, PMod.wrap none (some (SMod.adapters ⟨ads2, o.times, o.action⟩ f2)) ∈ l := by
  rw [makeModsPaired_documented h]
  refine ⟨(cutStage o.cut2).isEmpty && o.nextseqTrim.isNone && (qR2 o).isNone, ?_⟩
  unfold documentedPaired
  simp only [List.mem_append]
  left; left; left; left; right
  cases ads2 with
  | nil => exact absurd rfl h2
  | cons b bs => simp [adapterStageP, cutterOf, hp, hr]

/-- the hypotheses are satisfiable: `-a ACGT -A TTTT --times 3 -U 2` is accepted -/
def exPairedAd (seq : Bytes) (name : String) : Matchable :=
  .single { ty := .back, seq := seq, thr := (fun L => L / 10), minOverlap := 3, readWildcards := false, adapterWildcards := false,
            indels := true, name := name }

example : (makeModsPaired { paired := true, times := 3, cut2 := [2] } [exPairedAd [65, 67, 71, 84] "A"] [exPairedAd [84, 84, 84, 84] "B"]).toOption.isSome = true ∧
    ({ paired := true, times := 3, cut2 := [2] } : Opts).pairAdapters = false ∧ ({ paired := true, times := 3, cut2 := [2] } : Opts).revcomp = false := by
  decide

end Cutadapt.C09
