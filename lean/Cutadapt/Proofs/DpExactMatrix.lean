import Cutadapt.Proofs.AlignSoundMain
/-! Exactness of the banded DP, part 1: the full DP matrix `D` (relative to the first processed column `j0`),
    its adjacent-cell properties, and `D` as a lower bound for every script from an admissible start. -/
namespace Cutadapt.Align.Exact
open Cutadapt Cutadapt.Align Cutadapt.Spec Cutadapt.Generated Cutadapt.Align.Sound

/-- mismatch indicator of reference position `i` and query position `j` -/
def delta (ctx : Ctx) (i j : Nat) : Nat := if ctx.eq (ctx.ref.getD i 0) (ctx.query.getD j 0) then 0 else 1

/-- the unbanded DP matrix; second index is the column relative to the first processed column `j0` -/
def D (ctx : Ctx) (j0 : Nat) : Nat → Nat → Nat
  | i, 0 => if j0 = 0 ∧ ctx.cfg.startInRef = true then 0 else i * ctx.cfg.indelCost
  | 0, t+1 => if ctx.cfg.startInQuery = true then 0 else (t+1) * ctx.cfg.indelCost
  | i+1, t+1 => min (D ctx j0 i t + delta ctx i (j0 + t))
                  (min (D ctx j0 i (t+1) + ctx.cfg.indelCost) (D ctx j0 (i+1) t + ctx.cfg.indelCost))
termination_by i t => (t, i)

variable {ctx : Ctx} {j0 : Nat}

theorem D_col0 (i : Nat) : D ctx j0 i 0 = if j0 = 0 ∧ ctx.cfg.startInRef = true then 0 else i * ctx.cfg.indelCost := by
  cases i <;> rw [D]

theorem D_row0 (t : Nat) : D ctx j0 0 (t+1) = if ctx.cfg.startInQuery = true then 0 else (t+1) * ctx.cfg.indelCost := by
  rw [D]

theorem D_succ (i t : Nat) : D ctx j0 (i+1) (t+1) = min (D ctx j0 i t + delta ctx i (j0 + t))
    (min (D ctx j0 i (t+1) + ctx.cfg.indelCost) (D ctx j0 (i+1) t + ctx.cfg.indelCost)) := by
  rw [D]

theorem D_00 : D ctx j0 0 0 = 0 := by
  rw [D_col0]; split <;> simp

theorem delta_le (i j : Nat) : delta ctx i j ≤ 1 := by unfold delta; split <;> omega

/-- one more reference character costs at most one deletion -/
theorem D_del (i t : Nat) : D ctx j0 (i+1) t ≤ D ctx j0 i t + ctx.cfg.indelCost := by
  cases t with
  | zero =>
    rw [D_col0, D_col0]; split
    · omega
    · rw [Nat.add_mul]; omega
  | succ t => rw [D_succ]; omega

/-- one more query character costs at most one insertion -/
theorem D_ins (i t : Nat) : D ctx j0 i (t+1) ≤ D ctx j0 i t + ctx.cfg.indelCost := by
  cases i with
  | zero =>
    cases t with
    | zero => rw [D_00, D_row0]; split <;> omega
    | succ t =>
      rw [D_row0, D_row0]; split
      · omega
      · rw [Nat.add_mul (t+1) 1]; omega
  | succ i => rw [D_succ]; omega

theorem D_sub (i t : Nat) : D ctx j0 (i+1) (t+1) ≤ D ctx j0 i t + delta ctx i (j0 + t) := by
  rw [D_succ]; omega

theorem D_le_ins : ∀ (i t : Nat), D ctx j0 i t ≤ D ctx j0 i (t+1) + ctx.cfg.indelCost
  | 0, t => by
    cases t with
    | zero => rw [D_00]; omega
    | succ t =>
      rw [D_row0, D_row0]; split
      · omega
      · rw [Nat.add_mul (t+1) 1]; omega
  | i+1, t => by
    have ih := D_le_ins i t
    have h1 := D_del (ctx := ctx) (j0 := j0) i t
    rw [D_succ]
    omega

theorem D_le_del : ∀ (t i : Nat), D ctx j0 i t ≤ D ctx j0 (i+1) t + ctx.cfg.indelCost
  | 0, i => by
    rw [D_col0, D_col0]; split
    · omega
    · rw [Nat.add_mul]; omega
  | t+1, i => by
    have ih := D_le_del t i
    have h1 := D_ins (ctx := ctx) (j0 := j0) i t
    rw [D_succ]
    omega

/-- values do not decrease along a diagonal -/
theorem D_diag (i t : Nat) : D ctx j0 i t ≤ D ctx j0 (i+1) (t+1) := by
  have h1 := D_le_ins (ctx := ctx) (j0 := j0) i t
  have h2 := D_le_del (ctx := ctx) (j0 := j0) t i
  rw [D_succ]; omega

/-- on equal characters the diagonal is optimal -/
theorem D_match (i t : Nat) (h : delta ctx i (j0 + t) = 0) : D ctx j0 (i+1) (t+1) = D ctx j0 i t := by
  have h1 := D_le_ins (ctx := ctx) (j0 := j0) i t
  have h2 := D_le_del (ctx := ctx) (j0 := j0) t i
  rw [D_succ, h]; omega


/-! ### `D` is a lower bound for all scripts -/

theorem seg_eq_cons {α : Type} {xs : List α} {r i : Nat} {x : α} {l : List α} (d : α) (h : x :: l = seg xs r i)
    (hri : r ≤ i) (hi : i ≤ xs.length) : r < i ∧ x = xs.getD r d ∧ l = seg xs (r+1) i := by
  have hlen := congrArg List.length h
  rw [seg_length] at hlen
  simp only [List.length_cons] at hlen
  have hr : r < i := by omega
  refine ⟨hr, ?_⟩
  unfold seg at h ⊢
  have hr' : r < (xs.take i).length := by rw [List.length_take]; omega
  rw [List.drop_eq_getElem_cons hr'] at h
  have h1 := (List.cons.inj h).1
  have h2 := (List.cons.inj h).2
  refine ⟨?_, h2⟩
  rw [h1, List.getElem_take, List.getD_eq_getElem?_getD, List.getElem?_eq_getElem (by omega)]
  rfl

theorem seg_eq_nil {α : Type} {xs : List α} {r i : Nat} (h : [] = seg xs r i) (hri : r ≤ i) (hi : i ≤ xs.length) :
    r = i := by
  have hlen := congrArg List.length h
  rw [seg_length] at hlen
  simp only [List.length_nil] at hlen
  omega

theorem D_lower : ∀ (s : List Op) (r q i j : Nat), r ≤ i → i ≤ ctx.ref.length → j0 ≤ q → q ≤ j →
    j ≤ ctx.query.length → lhs s = seg ctx.ref r i → rhs s = seg ctx.query q j →
    D ctx j0 i (j - j0) ≤ D ctx j0 r (q - j0) + cost ctx.eq ctx.cfg.indelCost s
  | [], r, q, i, j, hri, hi, hq0, hqj, hj, hl, hr => by
    have e1 := seg_eq_nil hl hri hi
    have e2 := seg_eq_nil hr hqj hj
    subst e1 e2; simp
  | .sub x y :: s, r, q, i, j, hri, hi, hq0, hqj, hj, hl, hr => by
    simp only [lhs_cons, rhs_cons, Op.lhs, Op.rhs, List.singleton_append] at hl hr
    obtain ⟨h1, h2, h3⟩ := seg_eq_cons 0 hl hri hi
    obtain ⟨g1, g2, g3⟩ := seg_eq_cons 0 hr hqj hj
    have ih := D_lower s (r+1) (q+1) i j h1 hi (by omega) g1 hj h3 g3
    have hs := D_sub (ctx := ctx) (j0 := j0) r (q - j0)
    have e : q + 1 - j0 = q - j0 + 1 := by omega
    have e' : j0 + (q - j0) = q := by omega
    rw [e] at ih
    rw [e'] at hs
    simp only [cost_cons, Op.cost]
    have hd : delta ctx r q = if ctx.eq x y = true then 0 else 1 := by unfold delta; rw [h2, g2]
    omega
  | .del x :: s, r, q, i, j, hri, hi, hq0, hqj, hj, hl, hr => by
    simp only [lhs_cons, rhs_cons, Op.lhs, Op.rhs, List.singleton_append, List.nil_append] at hl hr
    obtain ⟨h1, h2, h3⟩ := seg_eq_cons 0 hl hri hi
    have ih := D_lower s (r+1) q i j h1 hi hq0 hqj hj h3 hr
    have hs := D_del (ctx := ctx) (j0 := j0) r (q - j0)
    simp only [cost_cons, Op.cost]
    omega
  | .ins y :: s, r, q, i, j, hri, hi, hq0, hqj, hj, hl, hr => by
    simp only [lhs_cons, rhs_cons, Op.lhs, Op.rhs, List.singleton_append, List.nil_append] at hl hr
    obtain ⟨g1, g2, g3⟩ := seg_eq_cons 0 hr hqj hj
    have ih := D_lower s r (q+1) i j hri hi (by omega) g1 hj hl g3
    have hs := D_ins (ctx := ctx) (j0 := j0) r (q - j0)
    have e : q + 1 - j0 = q - j0 + 1 := by omega
    rw [e] at ih
    simp only [cost_cons, Op.cost]
    omega

/-- admissible starts, restricted to query positions at or after the first processed column -/
def RStart (ctx : Ctx) (j0 r0 q0 : Nat) : Prop :=
  (r0 = 0 ∨ ctx.cfg.startInRef = true) ∧ (q0 = 0 ∨ ctx.cfg.startInQuery = true) ∧ (r0 = 0 ∨ q0 = 0) ∧ j0 ≤ q0

theorem D_start {r0 q0 : Nat} (h : RStart ctx j0 r0 q0) : D ctx j0 r0 (q0 - j0) = 0 := by
  obtain ⟨h1, h2, h3, h4⟩ := h
  rcases h3 with h3 | h3
  · subst h3
    by_cases hq : q0 - j0 = 0
    · rw [hq, D_00]
    · obtain ⟨t, ht⟩ : ∃ t, q0 - j0 = t + 1 := ⟨q0 - j0 - 1, by omega⟩
      rw [ht, D_row0]
      rcases h2 with h2 | h2
      · omega
      · simp [h2]
  · subst h3
    have hj : j0 = 0 := by omega
    subst hj
    rw [Nat.sub_self, D_col0]
    rcases h1 with h1 | h1
    · subst h1; simp
    · simp [h1]

/-- every script from an admissible start to `(i, j)` costs at least `D i (j - j0)` -/
theorem D_le_cost {s : List Op} {r0 q0 i j : Nat} (hst : RStart ctx j0 r0 q0) (hri : r0 ≤ i)
    (hi : i ≤ ctx.ref.length) (hqj : q0 ≤ j) (hj : j ≤ ctx.query.length)
    (hl : lhs s = seg ctx.ref r0 i) (hr : rhs s = seg ctx.query q0 j) :
    D ctx j0 i (j - j0) ≤ cost ctx.eq ctx.cfg.indelCost s := by
  have := D_lower s r0 q0 i j hri hi hst.2.2.2 hqj hj hl hr
  rw [D_start hst] at this
  omega

end Cutadapt.Align.Exact
