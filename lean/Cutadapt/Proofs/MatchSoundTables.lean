import Cutadapt.Adapters
import Cutadapt.Spec.Occurrence
/-! C01, part 1: the generated translation tables implement the documented character matching.
    Checked by kernel computation over all 256 byte values of the *generated* tables. -/
namespace Cutadapt.MatchSound
open Cutadapt Cutadapt.Align Cutadapt.Spec Cutadapt.Generated Cutadapt.Adapters

theorem forall_uint8 (p : UInt8 → Bool) (h : (List.range 256).all (fun n => p (UInt8.ofNat n)) = true)
    (c : UInt8) : p c = true := by
  have := List.all_eq_true.mp h c.toNat (List.mem_range.mpr c.toNat_lt)
  simpa using this

theorem iupacTable_doc (c : UInt8) : tr iupacTable c = iupacSet c := by
  have := forall_uint8 (fun c => tr iupacTable c == iupacSet c) (by decide +kernel) c
  simpa using this

theorem acgtTable_doc (c : UInt8) : tr acgtTable c = plainSet c := by
  have := forall_uint8 (fun c => tr acgtTable c == plainSet c) (by decide +kernel) c
  simpa using this

theorem upperTable_doc (c : UInt8) : tr upperTable c = upperAscii c := by
  have := forall_uint8 (fun c => tr upperTable c == upperAscii c) (by decide +kernel) c
  simpa using this

theorem iupacSet_upper (c : UInt8) : iupacSet (asciiUpper c) = iupacSet c := by
  have := forall_uint8 (fun c => iupacSet (asciiUpper c) == iupacSet c) (by decide +kernel) c
  simpa using this

theorem plainSet_upper (c : UInt8) : plainSet (asciiUpper c) = plainSet c := by
  have := forall_uint8 (fun c => plainSet (asciiUpper c) == plainSet c) (by decide +kernel) c
  simpa using this

theorem upperAscii_upper (c : UInt8) : upperAscii (asciiUpper c) = upperAscii c := by
  have := forall_uint8 (fun c => upperAscii (asciiUpper c) == upperAscii c) (by decide +kernel) c
  simpa using this

/-- the documented relation ignores the case of the read character -/
theorem docMatch_upper (aw rw : Bool) (x y : UInt8) : docMatch aw rw x (asciiUpper y) = docMatch aw rw x y := by
  unfold docMatch
  rw [iupacSet_upper, plainSet_upper, upperAscii_upper]

/-- per-character encodings of `Aligner` -/
def encR (aw rw : Bool) (x : UInt8) : UInt8 :=
  if aw then tr iupacTable x else if rw then tr acgtTable x else x
def encQ (aw rw : Bool) (y : UInt8) : UInt8 :=
  if rw then tr iupacTable y else if aw then tr acgtTable y else tr upperTable y
/-- per-character encoding of the comparers' reference -/
def cencR (aw rw : Bool) (x : UInt8) : UInt8 :=
  if aw then tr iupacTable x else if rw then tr acgtTable x else tr upperTable x

theorem encodeRef_eq_map (cfg : Cfg) (s : Bytes) : encodeRef cfg s = s.map (encR cfg.wildRef cfg.wildQuery) := by
  unfold encodeRef encR
  split
  · rfl
  · split
    · rfl
    · simp

theorem encodeQuery_eq_map (cfg : Cfg) (s : Bytes) : encodeQuery cfg s = s.map (encQ cfg.wildRef cfg.wildQuery) := by
  unfold encodeQuery encQ
  split
  · rfl
  · split <;> rfl

theorem cmpEncodeRef_eq_map (c : CmpCfg) (s : Bytes) : cmpEncodeRef c s = s.map (cencR c.wildRef c.wildQuery) := by
  unfold cmpEncodeRef cencR
  split
  · rfl
  · split <;> rfl

theorem cmpEncodeQuery_eq_map (c : CmpCfg) (s : Bytes) : cmpEncodeQuery c s = s.map (encQ c.wildRef c.wildQuery) := by
  unfold cmpEncodeQuery encQ
  split
  · rfl
  · split <;> rfl

theorem upperAscii_of_not_lower {x : UInt8} (hx : ¬ (97 ≤ x ∧ x ≤ 122)) : upperAscii x = x := by
  unfold upperAscii; rw [if_neg hx]

/-- documented matching = what `Aligner` computes on encoded characters (adapter character not lower-case) -/
theorem docMatch_eq_aligner (aw rw : Bool) (x y : UInt8) (hx : ¬ (97 ≤ x ∧ x ≤ 122)) :
    docMatch aw rw x y = charsEqual (!rw && !aw) (encR aw rw x) (encQ aw rw y) := by
  unfold docMatch charsEqual encR encQ
  cases aw <;> cases rw <;>
    simp [iupacTable_doc, acgtTable_doc, upperTable_doc, upperAscii_of_not_lower hx]

/-- documented matching = what the comparers compute on encoded characters -/
theorem docMatch_eq_comparer (aw rw : Bool) (x y : UInt8) :
    docMatch aw rw x y = charsEqual (!rw && !aw) (cencR aw rw x) (encQ aw rw y) := by
  unfold docMatch charsEqual cencR encQ
  cases aw <;> cases rw <;>
    simp [iupacTable_doc, acgtTable_doc, upperTable_doc]

end Cutadapt.MatchSound
