import Cutadapt.Proofs.ModsRounds
/-! `match_and_trim` by action: general path, fast path, the intervals kept by retain/crop, the marking done by
    mask/lowercase. Core Lean only. -/
namespace Cutadapt
open Cutadapt.Adapters Cutadapt.Qualtrim

theorem Action.beq_eq_decide (a b : Action) : (a == b) = decide (a = b) := by
  cases a <;> cases b <;> rfl

/-- the read `match_and_trim` searches (and leaves behind in the caller's object): upper-cased under `lowercase` -/
def searchRead (c : Cutter) (read : Read) : Read :=
  if c.action == .lowercase then { read with seq := upperBytes read.seq } else read

/-- what each action makes of the searched read `read`, the matches `ms` (last one `last`) and the trimmed read `tr` -/
def actionResult (c : Cutter) (read tr : Read) (ms : List AnyMatch) (last : AnyMatch) :
    Except Err (Read × List AnyMatch × Read) :=
  match c.action with
  | .trim => .ok (tr, ms, read)
  | .retain => .ok (read.sub last.retainedAdapterInterval.1 last.retainedAdapterInterval.2, ms, read)
  | .mask => .ok (maskedRead read ms, ms, read)
  | .lowercase => .ok (lowercasedRead read ms, ms, read)
  | .crop =>
    match last with
    | .single _ r => .ok (read.sub r.m.rstart r.m.rstop, ms, read)
    | .linked _ _ _ => .error .attribute
  | .none => .ok (read, ms, read)

/-- the general path of `match_and_trim` (the loop over `times` rounds followed by the action) -/
def generalPath (c : Cutter) (read : Read) : Except Err (Read × List AnyMatch × Read) :=
  let p := rounds c.adapters c.times (searchRead c read) []
  match p.2.getLast? with
  | none => .ok (p.1, [], searchRead c read)
  | some last => actionResult c (searchRead c read) p.1 p.2 last

theorem matchAndTrim_unfold (c : Cutter) (read : Read) :
    matchAndTrim c read =
      if c.times == 1 && c.action == .trim then
        match bestMatch c.adapters read.seq with
        | some m => .ok (m.trimmed read, [m], read)
        | none => .ok (read, [], read)
      else generalPath c read := by
  unfold matchAndTrim generalPath actionResult searchRead
  split
  · rfl
  · simp only
    generalize rounds c.adapters c.times _ [] = p
    obtain ⟨tr, ms⟩ := p
    simp only
    cases ms.getLast? with
    | none => rfl
    | some last => cases c.action <;> rfl

/-- **The fast path (`times = 1`, action `trim`) agrees with the general path.** -/
theorem fastpath_eq_general' (c : Cutter) (read : Read) (ht : c.times = 1) (ha : c.action = .trim) :
    (match bestMatch c.adapters read.seq with
      | some m => (.ok (m.trimmed read, [m], read) : Except Err (Read × List AnyMatch × Read))
      | none => .ok (read, [], read)) = generalPath c read := by
  have hs : searchRead c read = read := by simp [searchRead, ha, Action.beq_eq_decide]
  simp only [generalPath]
  rw [hs, ht]
  cases h : bestMatch c.adapters read.seq with
  | none => rw [rounds_succ_none _ _ _ h]; rfl
  | some m => rw [rounds_succ_some _ _ _ _ h, rounds_zero]; simp [actionResult, ha]

theorem matchAndTrim_eq_general (c : Cutter) (read : Read) : matchAndTrim c read = generalPath c read := by
  rw [matchAndTrim_unfold]
  split
  · rename_i h
    simp only [Bool.and_eq_true, beq_iff_eq, Action.beq_eq_decide, decide_eq_true_eq] at h
    exact fastpath_eq_general' c read h.1 h.2
  · rfl

/-- no match: the searched read comes back (upper-cased under `lowercase`, otherwise as it was) -/
theorem matchAndTrim_no_match (c : Cutter) (read : Read)
    (h : (rounds c.adapters c.times (searchRead c read) []).2 = []) :
    matchAndTrim c read = .ok (searchRead c read, [], searchRead c read) := by
  rw [matchAndTrim_eq_general]; simp only [generalPath]
  rw [h, rounds_nil_read _ _ _ h]; rfl

theorem matchAndTrim_last (c : Cutter) (read : Read) (last : AnyMatch)
    (h : (rounds c.adapters c.times (searchRead c read) []).2.getLast? = some last) :
    matchAndTrim c read = actionResult c (searchRead c read) (rounds c.adapters c.times (searchRead c read) []).1
      (rounds c.adapters c.times (searchRead c read) []).2 last := by
  rw [matchAndTrim_eq_general]; simp only [generalPath]
  rw [h]

theorem searchRead_of_ne (c : Cutter) (read : Read) (h : c.action ≠ .lowercase) : searchRead c read = read := by
  simp [searchRead, h, Action.beq_eq_decide]

theorem getLast?_cases (l : List α) : l = [] ∨ ∃ x, l.getLast? = some x := by
  cases l with
  | nil => exact Or.inl rfl
  | cons a as => right; cases h : (a :: as).getLast? with
    | none => simp at h
    | some x => exact ⟨x, rfl⟩

/-! ### mask and lowercase, position by position -/

theorem three_part (xs : List α) (f g : α → α) (start stop : Nat) (h1 : start ≤ stop) (h2 : stop ≤ xs.length) :
    ((xs.take start).map g ++ (seg xs start stop).map f ++ (xs.drop stop).map g).length = xs.length ∧
    ∀ k, ((xs.take start).map g ++ (seg xs start stop).map f ++ (xs.drop stop).map g)[k]? =
      (xs[k]?).map (fun x => if start ≤ k ∧ k < stop then f x else g x) := by
  constructor
  · simp [seg_length]; omega
  · intro k
    simp only [List.getElem?_append, List.length_append, List.length_map, List.length_take,
      List.getElem?_map, seg, List.getElem?_drop, List.getElem?_take]
    by_cases c1 : k < start
    · have : k < min start xs.length + (min stop xs.length - start) := by omega
      have c1' : k < min start xs.length := by omega
      have c2 : ¬ (start ≤ k ∧ k < stop) := by omega
      simp [this, c1', c1, c2]
    · by_cases c2 : k < stop
      · have : k < min start xs.length + (min stop xs.length - start) := by omega
        have c1' : ¬ k < min start xs.length := by omega
        have c3 : (start ≤ k ∧ k < stop) := by omega
        have e : start + (k - min start xs.length) = k := by omega
        simp [this, c1', c3, e]
      · have : ¬ k < min start xs.length + (min stop xs.length - start) := by omega
        have c3 : ¬ (start ≤ k ∧ k < stop) := by omega
        have e : stop + (k - (min start xs.length + (min stop xs.length - start))) = k := by omega
        simp [this, c3, e]

theorem asciiUpper_idem (c : UInt8) : asciiUpper (asciiUpper c) = asciiUpper c := by
  have := (by decide +kernel : ∀ n : Fin 256, asciiUpper (asciiUpper (UInt8.ofFin n)) = asciiUpper (UInt8.ofFin n))
  simpa using this c.toFin

theorem asciiLower_upper (c : UInt8) : asciiLower (asciiUpper c) = asciiLower c := by
  have := (by decide +kernel : ∀ n : Fin 256, asciiLower (asciiUpper (UInt8.ofFin n)) = asciiLower (UInt8.ofFin n))
  simpa using this c.toFin

theorem replicate_eq_map_take (xs : List α) (n : Nat) (c : α) (h : n ≤ xs.length) :
    List.replicate n c = (xs.take n).map (fun _ => c) := by
  apply List.ext_getElem
  · simp; omega
  · intro i h1 h2; simp

theorem replicate_eq_map_drop (xs : List α) (n : Nat) (c : α) :
    List.replicate (xs.length - n) c = (xs.drop n).map (fun _ => c) := by
  apply List.ext_getElem
  · simp
  · intro i h1 h2; simp

/-- **mask**: same length, same qualities and name; inside `[start, stop)` the input base, outside `N` -/
theorem maskedRead_spec (read : Read) (ms : List AnyMatch)
    (h1 : (remainder ms).1 ≤ (remainder ms).2) (h2 : (remainder ms).2 ≤ read.len) :
    (maskedRead read ms).seq.length = read.seq.length ∧ (maskedRead read ms).qual = read.qual ∧
    (maskedRead read ms).name = read.name ∧
    ∀ k, (maskedRead read ms).seq[k]? =
      (read.seq[k]?).map (fun x => if (remainder ms).1 ≤ k ∧ k < (remainder ms).2 then x else 78) := by
  unfold Read.len at h2
  have hseq : (maskedRead read ms).seq =
      (read.seq.take (remainder ms).1).map (fun _ => (78 : UInt8)) ++ (seg read.seq (remainder ms).1 (remainder ms).2).map id ++
        (read.seq.drop (remainder ms).2).map (fun _ => (78 : UInt8)) := by
    simp only [maskedRead, Read.len, List.map_id]
    rw [replicate_eq_map_take read.seq _ _ (by omega), replicate_eq_map_drop]
  obtain ⟨t1, t2⟩ := three_part read.seq id (fun _ => (78 : UInt8)) _ _ h1 h2
  refine ⟨by rw [hseq]; exact t1, rfl, rfl, ?_⟩
  intro k
  rw [hseq, t2 k]; rfl

/-- **lowercase** (on the read as given; `match_and_trim` upper-cases it first): same length, same qualities and name;
    inside `[start, stop)` the upper-cased base, outside the lower-cased base -/
theorem lowercasedRead_spec (read : Read) (ms : List AnyMatch)
    (h1 : (remainder ms).1 ≤ (remainder ms).2) (h2 : (remainder ms).2 ≤ read.len) :
    (lowercasedRead { read with seq := upperBytes read.seq } ms).seq.length = read.seq.length ∧
    (lowercasedRead { read with seq := upperBytes read.seq } ms).qual = read.qual ∧
    (lowercasedRead { read with seq := upperBytes read.seq } ms).name = read.name ∧
    ∀ k, (lowercasedRead { read with seq := upperBytes read.seq } ms).seq[k]? =
      (read.seq[k]?).map (fun x => if (remainder ms).1 ≤ k ∧ k < (remainder ms).2 then asciiUpper x else asciiLower x) := by
  unfold Read.len at h2
  have hl : (upperBytes read.seq).length = read.seq.length := by simp [upperBytes]
  obtain ⟨t1, t2⟩ := three_part (upperBytes read.seq) asciiUpper asciiLower _ _ h1 (by rw [hl]; exact h2)
  have hseq : (lowercasedRead { read with seq := upperBytes read.seq } ms).seq =
      ((upperBytes read.seq).take (remainder ms).1).map asciiLower ++
        (seg (upperBytes read.seq) (remainder ms).1 (remainder ms).2).map asciiUpper ++
        ((upperBytes read.seq).drop (remainder ms).2).map asciiLower := rfl
  refine ⟨by rw [hseq, t1, hl], rfl, rfl, ?_⟩
  intro k
  rw [hseq, t2 k]
  simp only [upperBytes, List.getElem?_map, Option.map_map]
  congr 1; funext x
  simp only [Function.comp]
  split
  · exact asciiUpper_idem x
  · exact asciiLower_upper x

/-- the bounds of `remainder` for the matches `rounds` returns -/
theorem rounds_remainder (ads : List Matchable) (hab : AdaptersInBounds ads) (t : Nat) (read : Read)
    (hne : (rounds ads t read []).2 ≠ []) :
    (rounds ads t read []).1.seq = seg read.seq (remainder (rounds ads t read []).2).1 (remainder (rounds ads t read []).2).2 ∧
    (QualOK read → (rounds ads t read []).1 =
      read.sub (remainder (rounds ads t read []).2).1 (remainder (rounds ads t read []).2).2) ∧
    (remainder (rounds ads t read []).2).1 ≤ (remainder (rounds ads t read []).2).2 ∧
    (remainder (rounds ads t read []).2).2 ≤ read.len := by
  obtain ⟨c1, c2, c3⟩ := rounds_chain ads t read
  have := remainder_correct' read _ hne c1 c2 (c3 hab)
  rw [← (rounds_spec' ads t read).2.1] at this
  exact this

/-! ### Results of `match_and_trim` as relations between input and output -/

/-- actions that cut: the result is a slice of the input with the same name, the caller's read is untouched -/
theorem matchAndTrim_slice (c : Cutter) (read tr ra : Read) (ms : List AnyMatch)
    (ha : c.action = .trim ∨ c.action = .retain ∨ c.action = .crop ∨ c.action = .none)
    (h : matchAndTrim c read = .ok (tr, ms, ra)) :
    SameSeg read tr ∧ tr.name = read.name ∧ ra = read ∧ (c.action = .none → tr = read) := by
  have hs : searchRead c read = read := searchRead_of_ne c read (by rcases ha with e | e | e | e <;> simp [e])
  rcases getLast?_cases (rounds c.adapters c.times (searchRead c read) []).2 with hn | ⟨last, hl⟩
  · rw [matchAndTrim_no_match c read hn, hs] at h
    simp only [Except.ok.injEq, Prod.mk.injEq] at h
    obtain ⟨rfl, _, rfl⟩ := h
    exact ⟨SameSeg.refl _, rfl, rfl, fun _ => rfl⟩
  · rw [matchAndTrim_last c read last hl, hs] at h
    unfold actionResult at h
    rcases ha with e | e | e | e
    · simp only [e, Except.ok.injEq, Prod.mk.injEq] at h
      obtain ⟨rfl, _, rfl⟩ := h
      have := (rounds_spec' c.adapters c.times read).2.1
      refine ⟨?_, ?_, rfl, fun h => by simp [e] at h⟩
      · rw [this]; exact trimAll_sameSeg _ _
      · rw [this]; exact trimAll_name _ _
    · simp only [e, Except.ok.injEq, Prod.mk.injEq] at h
      obtain ⟨rfl, _, rfl⟩ := h
      exact ⟨SameSeg.sub _ _ _, rfl, rfl, fun h => by simp [e] at h⟩
    · simp only [e] at h
      cases last with
      | single _ r =>
        simp only [Except.ok.injEq, Prod.mk.injEq] at h
        obtain ⟨rfl, _, rfl⟩ := h
        exact ⟨SameSeg.sub _ _ _, rfl, rfl, fun h => by simp [e] at h⟩
      | linked _ _ _ => simp at h
    · simp only [e, Except.ok.injEq, Prod.mk.injEq] at h
      obtain ⟨rfl, _, rfl⟩ := h
      exact ⟨SameSeg.refl _, rfl, rfl, fun _ => rfl⟩

/-- actions that mark (mask, lowercase): length, qualities and name are kept -/
theorem matchAndTrim_marked (c : Cutter) (hab : AdaptersInBounds c.adapters) (read tr ra : Read) (ms : List AnyMatch)
    (ha : c.action = .mask ∨ c.action = .lowercase)
    (h : matchAndTrim c read = .ok (tr, ms, ra)) :
    tr.seq.length = read.seq.length ∧ tr.qual = read.qual ∧ tr.name = read.name := by
  have hsl : (searchRead c read).seq.length = read.seq.length := by
    unfold searchRead; split <;> simp [upperBytes]
  have hsq : (searchRead c read).qual = read.qual := by unfold searchRead; split <;> rfl
  have hsn : (searchRead c read).name = read.name := by unfold searchRead; split <;> rfl
  rcases getLast?_cases (rounds c.adapters c.times (searchRead c read) []).2 with hn | ⟨last, hl⟩
  · rw [matchAndTrim_no_match c read hn] at h
    simp only [Except.ok.injEq, Prod.mk.injEq] at h
    obtain ⟨rfl, _, rfl⟩ := h
    exact ⟨hsl, hsq, hsn⟩
  · have hne : (rounds c.adapters c.times (searchRead c read) []).2 ≠ [] := by
      intro e; rw [e] at hl; simp at hl
    obtain ⟨_, _, b1, b2⟩ := rounds_remainder c.adapters hab c.times (searchRead c read) hne
    rw [matchAndTrim_last c read last hl] at h
    unfold actionResult at h
    rcases ha with e | e
    · simp only [e, Except.ok.injEq, Prod.mk.injEq] at h
      obtain ⟨rfl, _, rfl⟩ := h
      obtain ⟨m1, m2, m3, _⟩ := maskedRead_spec (searchRead c read) _ b1 b2
      exact ⟨m1.trans hsl, m2.trans hsq, m3.trans hsn⟩
    · simp only [e, Except.ok.injEq, Prod.mk.injEq] at h
      obtain ⟨rfl, _, rfl⟩ := h
      have hsr : searchRead c read = { read with seq := upperBytes read.seq } := by simp [searchRead, e, Action.beq_eq_decide]
      rw [hsr] at b1 b2 ⊢
      have b2' : (remainder (rounds c.adapters c.times { read with seq := upperBytes read.seq } []).2).2 ≤ read.len := by
        simpa [Read.len, upperBytes] using b2
      obtain ⟨m1, m2, m3, _⟩ := lowercasedRead_spec read _ b1 b2'
      exact ⟨m1, m2, m3⟩

end Cutadapt
