import Cutadapt.Proofs.ParserStr
/-! `expand_braces` inverts the run-length rendering `x{n}` (C18). -/
namespace Cutadapt.ParserProofs
open Cutadapt.Parser Cutadapt.Notation

theorem isDigit_not_brace {c : Char} (h : isDigit c = true) : c ≠ '{' ∧ c ≠ '}' := by
  simp only [isDigit, decide_eq_true_eq] at h
  constructor <;> (intro e; subst e; revert h; decide)

theorem braceGo_plain {st : BState} (hst : st = .none ∨ st = .str) (racc r : Str) {c : Char} (h1 : c ≠ '{') (h2 : c ≠ '}') :
    braceGo st racc (c :: r) = braceGo .str (c :: racc) r := by
  rcases hst with rfl | rfl <;> simp [braceGo, h1, h2]

theorem braceGo_digits (acc racc ds rest : Str) (hds : ∀ c ∈ ds, isDigit c = true) :
    braceGo (.open acc) racc (ds ++ rest) = braceGo (.open (ds.reverse ++ acc)) racc rest := by
  induction ds generalizing acc with
  | nil => rfl
  | cons d ds ih =>
    have hd := isDigit_not_brace (hds d (by simp))
    simp only [List.cons_append]
    rw [braceGo]
    simp only [hd.1, hd.2, or_self, if_false]
    rw [ih _ (fun c hc => hds c (by simp [hc]))]
    simp

theorem pyBraceInt_natDigits (n : Nat) : pyBraceInt (natDigits n) = .ok n := by
  simp [pyBraceInt, natDigits_ne_nil, natDigits_all_digit, parseDigits_natDigits]

theorem braceGo_repeat (x : Char) (racc r : Str) {n : Nat} (hn : n ≤ 10000) :
    braceGo .str (x :: racc) ('{' :: (natDigits n ++ '}' :: r)) = braceGo .none (List.replicate n x ++ racc) r := by
  rw [braceGo]
  simp only [if_true]
  rw [braceGo_digits [] (x :: racc) (natDigits n) ('}' :: r)
    (fun c hc => by have := natDigits_all_digit n; rw [List.all_eq_true] at this; exact this c hc)]
  simp only [List.append_nil]
  have hne : (natDigits n).reverse ≠ [] := by simpa using natDigits_ne_nil n
  cases hacc : (natDigits n).reverse with
  | nil => exact absurd hacc hne
  | cons a as =>
    rw [braceGo]
    have hcount : braceCount (a :: as) = .ok n := by
      rw [← hacc]; simp [braceCount, pyBraceInt_natDigits, hn]
    simp [hcount]

theorem braceGo_runs (rs : List Run) (hrs : ∀ r ∈ rs, r.c ≠ '{' ∧ r.c ≠ '}' ∧ ∀ n, r.rep = some n → n ≤ 10000)
    {st : BState} (hst : st = .none ∨ st = .str) (racc : Str) :
    braceGo st racc (renderRuns rs) = .ok (racc.reverse ++ expandRuns rs) := by
  induction rs generalizing st racc with
  | nil => rcases hst with rfl | rfl <;> simp [renderRuns, expandRuns, braceGo]
  | cons r rs ih =>
    obtain ⟨h1, h2, h3⟩ := hrs r (by simp)
    have hrs' : ∀ r ∈ rs, r.c ≠ '{' ∧ r.c ≠ '}' ∧ ∀ n, r.rep = some n → n ≤ 10000 := fun q hq => hrs q (by simp [hq])
    have hr : renderRuns (r :: rs) = r.render ++ renderRuns rs := by simp [renderRuns]
    have he : expandRuns (r :: rs) = r.expand ++ expandRuns rs := by
      unfold expandRuns; rw [List.flatMap_cons]
    rw [hr, he]
    cases hrep : r.rep with
    | none =>
      simp only [Run.render, Run.expand, hrep, List.cons_append, List.nil_append]
      rw [braceGo_plain hst _ _ h1 h2, ih hrs' (Or.inr rfl)]
      simp
    | some n =>
      simp only [Run.render, Run.expand, hrep, List.cons_append, List.append_assoc, List.nil_append]
      rw [braceGo_plain hst _ _ h1 h2, braceGo_repeat _ _ _ (h3 n hrep), ih hrs' (Or.inl rfl)]
      simp

/-- **Brace expansion inverts run-length rendering.** -/
theorem expandBraces_renderRuns (rs : List Run) (hrs : ∀ r ∈ rs, r.c ≠ '{' ∧ r.c ≠ '}' ∧ ∀ n, r.rep = some n → n ≤ 10000) :
    expandBraces (renderRuns rs) = .ok (expandRuns rs) := by
  unfold expandBraces
  rw [braceGo_runs rs hrs (Or.inl rfl)]
  simp

end Cutadapt.ParserProofs
