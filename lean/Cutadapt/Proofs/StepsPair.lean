import Cutadapt.Pipeline
/-! `_find_best_match_pair` (`bestPairGo`): the chosen pair of matches is the lexicographic optimum
    (highest summed score, then fewest summed errors, then lowest rank) among the ranks where both adapters match. -/
namespace Cutadapt.Steps
open Cutadapt Cutadapt.Adapters

/-- (summed score, summed errors) of a pair of matches -/
def pairKey (m : AnyMatch × AnyMatch) : Int × Nat := (m.1.score + m.2.score, m.1.errors + m.2.errors)

/-- `x` is strictly better than `y`: higher score, or equal score and fewer errors -/
def Beats (x y : Int × Nat) : Prop := x.1 > y.1 ∨ (x.1 = y.1 ∧ x.2 < y.2)

theorem Beats.irrefl (x : Int × Nat) : ¬ Beats x x := by unfold Beats; omega
theorem Beats.trans {x y z : Int × Nat} (h1 : Beats x y) (h2 : Beats y z) : Beats x z := by unfold Beats at *; omega
theorem Beats.negTrans {x z : Int × Nat} (y : Int × Nat) (h : Beats x z) : Beats x y ∨ Beats y z := by
  unfold Beats at *; omega
theorem Beats.asymm {x y : Int × Nat} (h : Beats x y) : ¬ Beats y x := by unfold Beats at *; omega

/-- rank `j` is a candidate: both adapters of rank `j` match, giving `(m1, m2)` -/
def Cand (s1 s2 : Bytes) (l : List (Matchable × Matchable)) (i j : Nat) (m : AnyMatch × AnyMatch) : Prop :=
  ∃ k a1 a2, l[k]? = some (a1, a2) ∧ j = i + k ∧ a1.matchTo j s1 = some m.1 ∧ a2.matchTo j s2 = some m.2

theorem cand_cons {s1 s2 : Bytes} {a : Matchable × Matchable} {rest : List (Matchable × Matchable)} {i j : Nat}
    {m : AnyMatch × AnyMatch} :
    Cand s1 s2 (a :: rest) i j m ↔
      (j = i ∧ a.1.matchTo i s1 = some m.1 ∧ a.2.matchTo i s2 = some m.2) ∨ Cand s1 s2 rest (i + 1) j m := by
  constructor
  · rintro ⟨k, a1, a2, hk, rfl, h1, h2⟩
    cases k with
    | zero =>
      simp only [List.getElem?_cons_zero, Option.some.injEq] at hk
      subst hk
      exact .inl ⟨rfl, h1, h2⟩
    | succ k =>
      simp only [List.getElem?_cons_succ] at hk
      exact .inr ⟨k, a1, a2, hk, by omega, h1, h2⟩
  · rintro (⟨rfl, h1, h2⟩ | ⟨k, a1, a2, hk, rfl, h1, h2⟩)
    · exact ⟨0, a.1, a.2, by simp, rfl, h1, h2⟩
    · exact ⟨k + 1, a1, a2, by simpa using hk, by omega, h1, h2⟩

theorem cand_rank_ge {s1 s2 l i j m} (h : Cand s1 s2 l i j m) : i ≤ j := by
  obtain ⟨k, _, _, _, rfl, _⟩ := h; omega

/-- what `bestPairGo` returns, for an arbitrary incumbent `best` -/
def GoSpec (s1 s2 : Bytes) (l : List (Matchable × Matchable)) (i : Nat) (best res : Option (AnyMatch × AnyMatch)) : Prop :=
  (res = best ∧ ∀ j n, Cand s1 s2 l i j n → ∃ b, best = some b ∧ ¬ Beats (pairKey n) (pairKey b)) ∨
  (∃ j m, Cand s1 s2 l i j m ∧ res = some m ∧ (∀ b, best = some b → Beats (pairKey m) (pairKey b)) ∧
    ∀ j' n, Cand s1 s2 l i j' n →
      ¬ Beats (pairKey n) (pairKey m) ∧ (¬ Beats (pairKey m) (pairKey n) → j ≤ j'))

theorem beats_iff (m1 m2 b1 b2 : AnyMatch) :
    (decide (m1.score + m2.score > b1.score + b2.score) ||
      (m1.score + m2.score == b1.score + b2.score && decide (m1.errors + m2.errors < b1.errors + b2.errors))) = true ↔
    Beats (pairKey (m1, m2)) (pairKey (b1, b2)) := by
  simp [Beats, pairKey]

theorem bestPairGo_spec (s1 s2 : Bytes) (l : List (Matchable × Matchable)) (i : Nat)
    (best : Option (AnyMatch × AnyMatch)) : GoSpec s1 s2 l i best (bestPairGo s1 s2 l i best) := by
  induction l generalizing i best with
  | nil =>
    left
    refine ⟨rfl, ?_⟩
    rintro j n ⟨k, a1, a2, hk, -⟩
    simp at hk
  | cons a rest ih =>
    obtain ⟨a1, a2⟩ := a
    -- a candidate at rank `i` taking over from the incumbent
    have takeover : ∀ m : AnyMatch × AnyMatch, a1.matchTo i s1 = some m.1 → a2.matchTo i s2 = some m.2 →
        (∀ b, best = some b → Beats (pairKey m) (pairKey b)) →
        GoSpec s1 s2 ((a1, a2) :: rest) i best (bestPairGo s1 s2 rest (i + 1) (some m)) := by
      intro m h1 h2 hbeat
      right
      rcases ih (i + 1) (some m) with ⟨hres, hall⟩ | ⟨j, m', hc, hres, hb, hopt⟩
      · refine ⟨i, m, cand_cons.2 (.inl ⟨rfl, h1, h2⟩), hres, hbeat, ?_⟩
        intro j' n hn
        rcases cand_cons.1 hn with ⟨rfl, e1, e2⟩ | hn
        · have : n = m := by
            rw [h1] at e1; rw [h2] at e2
            exact Prod.ext (Option.some.inj e1).symm (Option.some.inj e2).symm
          subst this
          exact ⟨Beats.irrefl _, fun _ => Nat.le_refl _⟩
        · obtain ⟨b, hb, hnb⟩ := hall j' n hn
          simp only [Option.some.injEq] at hb; subst hb
          exact ⟨hnb, fun _ => Nat.le_trans (Nat.le_succ i) (cand_rank_ge hn)⟩
      · have hm'm := hb m rfl
        refine ⟨j, m', cand_cons.2 (.inr hc), hres, fun b hb' => Beats.trans hm'm (hbeat b hb'), ?_⟩
        intro j' n hn
        rcases cand_cons.1 hn with ⟨rfl, e1, e2⟩ | hn
        · have : n = m := by
            rw [h1] at e1; rw [h2] at e2
            exact Prod.ext (Option.some.inj e1).symm (Option.some.inj e2).symm
          subst this
          exact ⟨Beats.asymm hm'm, fun h => absurd hm'm h⟩
        · exact hopt j' n hn
    -- no candidate at rank `i`, or one that does not beat the incumbent
    have skip : (∀ m : AnyMatch × AnyMatch, a1.matchTo i s1 = some m.1 → a2.matchTo i s2 = some m.2 →
          ∃ b, best = some b ∧ ¬ Beats (pairKey m) (pairKey b)) →
        GoSpec s1 s2 ((a1, a2) :: rest) i best (bestPairGo s1 s2 rest (i + 1) best) := by
      intro hno
      rcases ih (i + 1) best with ⟨hres, hall⟩ | ⟨j, m', hc, hres, hb, hopt⟩
      · left
        refine ⟨hres, ?_⟩
        intro j' n hn
        rcases cand_cons.1 hn with ⟨rfl, e1, e2⟩ | hn
        · exact hno n e1 e2
        · exact hall j' n hn
      · right
        refine ⟨j, m', cand_cons.2 (.inr hc), hres, hb, ?_⟩
        intro j' n hn
        rcases cand_cons.1 hn with ⟨rfl, e1, e2⟩ | hn
        · obtain ⟨b, hbb, hnb⟩ := hno n e1 e2
          have hm'b := hb b hbb
          have hm'n : Beats (pairKey m') (pairKey n) := by
            rcases Beats.negTrans (pairKey n) hm'b with h | h
            · exact h
            · exact absurd h hnb
          exact ⟨Beats.asymm hm'n, fun h => absurd hm'n h⟩
        · exact hopt j' n hn
    simp only [bestPairGo]
    split
    · rename_i hm1
      exact skip (fun m h1 _ => by simp [hm1] at h1)
    · rename_i m1 hm1
      split
      · rename_i hm2
        exact skip (fun m _ h2 => by simp [hm2] at h2)
      · rename_i m2 hm2
        split
        · exact takeover (m1, m2) hm1 hm2 (fun b hb => by simp at hb)
        · rename_i b1 b2
          split
          · rename_i hcond
            refine takeover (m1, m2) hm1 hm2 (fun b hb => ?_)
            simp only [Option.some.injEq] at hb; subst hb
            exact (beats_iff m1 m2 b1 b2).1 hcond
          · rename_i hcond
            refine skip (fun m h1 h2 => ⟨(b1, b2), rfl, ?_⟩)
            have : m = (m1, m2) := by
              rw [hm1] at h1; rw [hm2] at h2
              exact Prod.ext (Option.some.inj h1).symm (Option.some.inj h2).symm
            subst this
            exact fun h => hcond ((beats_iff m1 m2 b1 b2).2 h)

/-- a match names the list entry it came from — for single and linked adapters (an index object names one of its members) -/
theorem matchTo_adapter {a : Matchable} {i : Nat} {s : Bytes} {m : AnyMatch} (hni : a.isIndexed = false) (h : a.matchTo i s = some m) :
    m.adapter = i := by
  cases a with
  | indexed ix ids => simp [Matchable.isIndexed] at hni
  | single ad =>
    simp only [Matchable.matchTo, Option.map_eq_some_iff] at h
    obtain ⟨x, -, rfl⟩ := h
    rfl
  | linked f b fr br n =>
    simp only [Matchable.matchTo] at h
    repeat' split at h
    all_goals first
      | (simp at h; done)
      | (exact (Option.some.inj h) ▸ rfl)

/-- Top level: nothing is returned iff no rank has matches on both sides; otherwise the returned pair is the candidate of
    some rank `j`, no candidate is strictly better, and every equally good candidate has a rank `≥ j`. -/
theorem bestPair_spec (s1 s2 : Bytes) (ads1 ads2 : List Matchable) :
    (bestPairGo s1 s2 (ads1.zip ads2) 0 none = none ∧ ∀ j n, ¬ Cand s1 s2 (ads1.zip ads2) 0 j n) ∨
    (∃ j m, bestPairGo s1 s2 (ads1.zip ads2) 0 none = some m ∧ Cand s1 s2 (ads1.zip ads2) 0 j m ∧
      ∀ j' n, Cand s1 s2 (ads1.zip ads2) 0 j' n →
        ¬ Beats (pairKey n) (pairKey m) ∧ (¬ Beats (pairKey m) (pairKey n) → j ≤ j')) := by
  rcases bestPairGo_spec s1 s2 (ads1.zip ads2) 0 none with ⟨hres, hall⟩ | ⟨j, m, hc, hres, -, hopt⟩
  · left
    refine ⟨hres, fun j n hn => ?_⟩
    obtain ⟨b, hb, -⟩ := hall j n hn
    simp at hb
  · exact .inr ⟨j, m, hres, hc, hopt⟩

theorem cand_zip {s1 s2 : Bytes} {ads1 ads2 : List Matchable} {j : Nat} {m : AnyMatch × AnyMatch} :
    Cand s1 s2 (ads1.zip ads2) 0 j m ↔
      ∃ a1 a2, ads1[j]? = some a1 ∧ ads2[j]? = some a2 ∧ a1.matchTo j s1 = some m.1 ∧ a2.matchTo j s2 = some m.2 := by
  constructor
  · rintro ⟨k, a1, a2, hk, rfl, h1, h2⟩
    rw [List.getElem?_zip_eq_some] at hk
    simp only [Nat.zero_add] at h1 h2 ⊢
    exact ⟨a1, a2, hk.1, hk.2, h1, h2⟩
  · rintro ⟨a1, a2, e1, e2, h1, h2⟩
    exact ⟨j, a1, a2, List.getElem?_zip_eq_some.2 ⟨e1, e2⟩, by omega, h1, h2⟩
end Cutadapt.Steps
