import Cutadapt.Proofs.AlignSoundScript
/-! Soundness of `Align.locate`, part 2: one column step (`stepColumn`, `shrinkLast`). -/
namespace Cutadapt.Align.Sound
open Cutadapt Cutadapt.Align Cutadapt.Spec Cutadapt.Generated

/-- `P (i+t) l[t]` for every position `t` of `l` -/
def AllFrom (P : Nat → Entry → Prop) : Nat → List Entry → Prop
  | _, [] => True
  | i, e :: es => P i e ∧ AllFrom P (i+1) es

theorem allFrom_mono {P Q : Nat → Entry → Prop} : ∀ (l : List Entry) (i : Nat),
    (∀ i', i ≤ i' → ∀ e, P i' e → Q i' e) → AllFrom P i l → AllFrom Q i l
  | [], _, _, _ => trivial
  | e :: es, i, h, ⟨h1, h2⟩ => ⟨h i (Nat.le_refl _) e h1, allFrom_mono es (i+1) (fun i' hi' => h i' (by omega)) h2⟩

theorem allFrom_getD {P : Nat → Entry → Prop} : ∀ (l : List Entry) (i : Nat), AllFrom P i l →
    ∀ t, t < l.length → P (i+t) (l.getD t default)
  | [], _, _, t, ht => by simp at ht
  | e :: es, i, ⟨h1, h2⟩, t, ht => by
    cases t with
    | zero => simpa using h1
    | succ t =>
      have := allFrom_getD es (i+1) h2 t (by simpa using ht)
      simpa [Nat.add_assoc, Nat.add_comm 1 t] using this

theorem allFrom_of_getD {P : Nat → Entry → Prop} : ∀ (l : List Entry) (i : Nat),
    (∀ t, t < l.length → P (i+t) (l.getD t default)) → AllFrom P i l
  | [], _, _ => trivial
  | e :: es, i, h => by
    refine ⟨by simpa using h 0 (by simp), allFrom_of_getD es (i+1) ?_⟩
    intro t ht
    have := h (t+1) (by simpa using ht)
    simpa [Nat.add_assoc, Nat.add_comm 1 t] using this

/-- what is known about cell `i` of the column for query prefix length `j` -/
def CellInv (ctx : Ctx) (j last i : Nat) (e : Entry) : Prop :=
  GoodK ctx i j e ∧ ScoreOK i e ∧ (last < i → ctx.cfg.k < e.cost)

theorem fillCells_inv {ctx : Ctx} (hc : 1 ≤ ctx.cfg.indelCost) {j : Nat} (hj : j < ctx.query.length) (last : Nat) :
    ∀ (olds : List Entry) (rs : List Sym) (i0 : Nat) (diag prevNew : Entry),
    rs = ctx.ref.drop i0 → olds.length ≤ rs.length →
    GoodK ctx i0 j diag → ScoreOK i0 diag → GoodK ctx i0 (j+1) prevNew → ScoreOK i0 prevNew →
    AllFrom (CellInv ctx j last) (i0+1) olds →
    (fillCells ctx.cfg ctx.ascii ctx.query[j] last (i0+1) diag prevNew rs olds).length = olds.length ∧
    AllFrom (CellInv ctx (j+1) last) (i0+1) (fillCells ctx.cfg ctx.ascii ctx.query[j] last (i0+1) diag prevNew rs olds)
  | [], rs, i0, diag, prevNew, _, _, _, _, _, _, _ => by
    cases rs <;> simp [fillCells, AllFrom]
  | cur :: olds, [], i0, diag, prevNew, _, hlen, _, _, _, _, _ => by simp at hlen
  | cur :: olds, r :: rs, i0, diag, prevNew, hrs, hlen, hdg, hds, hpg, hps, ⟨⟨hcg, hcs, hcl⟩, hrest⟩ => by
    have hi0 : i0 < ctx.ref.length := by
      apply Nat.lt_of_not_le; intro hge
      rw [List.drop_eq_nil_of_le hge] at hrs; simp at hrs
    rw [List.drop_eq_getElem_cons hi0] at hrs
    have hr : r = ctx.ref[i0] := (List.cons.inj hrs).1
    have hrs' : rs = ctx.ref.drop (i0+1) := (List.cons.inj hrs).2
    unfold fillCells
    by_cases hle : i0 + 1 ≤ last
    · simp only [hle, if_true]
      have hcellg : GoodK ctx (i0+1) (j+1) (cell ctx.cfg (charsEqual ctx.ascii r ctx.query[j]) diag cur prevNew) := by
        rw [hr]; exact cell_goodK hi0 hj hdg hcg hpg
      have hcells : ScoreOK (i0+1) (cell ctx.cfg (charsEqual ctx.ascii r ctx.query[j]) diag cur prevNew) :=
        cell_score hc _ hds hcs hps
      have ih := fillCells_inv hc hj last olds rs (i0+1) cur _ hrs' (by simpa using hlen) hcg hcs hcellg hcells hrest
      refine ⟨by simp [ih.1], ⟨hcellg, hcells, fun h => by omega⟩, ih.2⟩
    · simp only [hle, if_false]
      refine ⟨trivial, ?_⟩
      refine allFrom_mono (cur :: olds) (i0+1) ?_ ⟨⟨hcg, hcs, hcl⟩, hrest⟩
      intro i' hi' e ⟨_, h2, h3⟩
      refine ⟨fun hk => ?_, h2, h3⟩
      have := h3 (by omega); omega


/-- cell 0 of the next column -/
def stepCell0 (cfg : Cfg) (c0 : Entry) : Entry :=
  if cfg.startInQuery then ⟨c0.cost, c0.score, c0.origin + 1⟩
  else ⟨c0.cost + cfg.indelCost, c0.score + insertionScore, c0.origin⟩

theorem stepCell0_inv {ctx : Ctx} (hc : 1 ≤ ctx.cfg.indelCost) {j : Nat} (hj : j < ctx.query.length) {c0 : Entry}
    (hg : GoodK ctx 0 j c0) (hs : ScoreOK 0 c0) :
    GoodK ctx 0 (j+1) (stepCell0 ctx.cfg c0) ∧ ScoreOK 0 (stepCell0 ctx.cfg c0) := by
  unfold stepCell0
  by_cases hq : ctx.cfg.startInQuery = true
  · simp only [hq, if_true]
    have key : c0.cost ≤ ctx.cfg.k → 0 ≤ c0.origin ∧ Good ctx 0 (j+1) ⟨c0.cost, c0.score, c0.origin + 1⟩ := by
      intro hk
      obtain ⟨h1, h2, h3, h4, s, hl, hr, hcst⟩ := hg hk
      have ho : 0 ≤ c0.origin := by
        apply Int.le_of_not_gt; intro hneg
        rw [decode_neg hneg] at h1; simp only at h1; omega
      refine ⟨ho, ?_⟩
      rw [decode_nonneg ho] at h2 hl hr
      simp only at h2 hl hr
      rw [seg_self] at hl
      have hcs := cost_of_lhs_nil ctx.eq ctx.cfg.indelCost s hl
      rw [hr, seg_length] at hcs
      obtain ⟨s', hl', hr', hc'⟩ := ins_script ctx.eq ctx.cfg.indelCost (seg ctx.query (c0.origin + 1).toNat (j+1))
      unfold Good
      rw [decode_nonneg (show (0:Int) ≤ c0.origin + 1 by omega)]
      simp only
      refine ⟨Nat.le_refl _, by omega, .inl trivial, .inr hq, s', ?_, hr', ?_⟩
      · rw [hl', seg_self]
      · rw [hc', seg_length]
        have e : min (j + 1) ctx.query.length - (c0.origin + 1).toNat = min j ctx.query.length - c0.origin.toNat := by
          omega
        rw [e]; omega
    refine ⟨fun hk => (key hk).2, ?_⟩
    obtain ⟨hs1, hs2⟩ := hs
    refine ⟨hs1, ?_⟩
    simp only
    intro h0
    have := (key (by omega)).1
    have := hs2 h0
    omega
  · have hq' : ctx.cfg.startInQuery = false := by simpa using hq
    simp only [hq', Bool.false_eq_true, if_false]
    refine ⟨?_, ?_⟩
    · intro hk
      simp only at hk
      exact good_ins hj (hg (by omega)) _
    · obtain ⟨hs1, hs2⟩ := hs
      refine ⟨by simp only [insertionScore]; omega, ?_⟩
      simp only; intro h0; omega

/-- column invariant, pointwise form -/
structure ColInv (ctx : Ctx) (j last : Nat) (col : List Entry) : Prop where
  len : col.length = ctx.ref.length + 1
  cells : ∀ i, i ≤ ctx.ref.length → CellInv ctx j last i (col.getD i default)

theorem stepColumn_inv {ctx : Ctx} (hc : 1 ≤ ctx.cfg.indelCost) {j : Nat} (hj : j < ctx.query.length)
    {last : Nat} {col : List Entry} (h : ColInv ctx j last col) :
    ColInv ctx (j+1) last (stepColumn ctx.cfg ctx.ascii ctx.ref ctx.query[j] last col) := by
  obtain ⟨hlen, hcells⟩ := h
  have hall : AllFrom (CellInv ctx j last) 0 col :=
    allFrom_of_getD col 0 (fun t ht => by rw [Nat.zero_add]; exact hcells t (by omega))
  match col, hlen, hall with
  | c0 :: rest, hlen, ⟨⟨h0g, h0s, _⟩, hrest⟩ =>
    have hlen' : rest.length = ctx.ref.length := by simpa using hlen
    obtain ⟨hg', hs'⟩ := stepCell0_inv hc hj h0g h0s
    have hf := fillCells_inv hc hj last rest ctx.ref 0 c0 (stepCell0 ctx.cfg c0) (by simp) (by omega)
      h0g h0s hg' hs' hrest
    have hnew : AllFrom (CellInv ctx (j+1) last) 0
        (stepColumn ctx.cfg ctx.ascii ctx.ref ctx.query[j] last (c0 :: rest)) :=
      ⟨⟨hg', hs', fun h => by omega⟩, hf.2⟩
    have hlenNew : (stepColumn ctx.cfg ctx.ascii ctx.ref ctx.query[j] last (c0 :: rest)).length
        = ctx.ref.length + 1 := by
      show (_ :: _).length = _
      rw [List.length_cons]
      exact congrArg (· + 1) (hf.1.trans hlen')
    refine ⟨hlenNew, fun i hi => ?_⟩
    have := allFrom_getD _ 0 hnew i (by omega)
    simpa using this

/-! ### `shrinkLast` -/

theorem shrinkLast_le (k : Nat) (col : List Entry) : ∀ l, shrinkLast k col l ≤ l + 1
  | 0 => by unfold shrinkLast; split <;> omega
  | l+1 => by
    unfold shrinkLast; split
    · have := shrinkLast_le k col l; omega
    · omega

theorem shrinkLast_spec (k : Nat) (col : List Entry) : ∀ l i, shrinkLast k col l ≤ i → i ≤ l →
    k < (col.getD i default).cost
  | 0, i, h1, h2 => by
    unfold shrinkLast at h1
    have : i = 0 := by omega
    subst this
    split at h1
    · assumption
    · omega
  | l+1, i, h1, h2 => by
    unfold shrinkLast at h1
    split at h1
    · by_cases hi : i = l + 1
      · subst hi; assumption
      · exact shrinkLast_spec k col l i h1 (by omega)
    · omega

theorem colInv_shrink {ctx : Ctx} {j last last' : Nat} {col : List Entry} (h : ColInv ctx j last col)
    (hl : last' = shrinkLast ctx.cfg.k col last ∨ last' = ctx.ref.length) :
    ColInv ctx j last' col := by
  refine ⟨h.len, fun i hi => ?_⟩
  obtain ⟨h1, h2, h3⟩ := h.cells i hi
  refine ⟨h1, h2, fun hlt => ?_⟩
  rcases hl with hl | hl
  · by_cases hil : i ≤ last
    · exact shrinkLast_spec _ col last i (by omega) hil
    · exact h3 (by omega)
  · omega

end Cutadapt.Align.Sound
