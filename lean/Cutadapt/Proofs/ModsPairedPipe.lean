import Cutadapt.Proofs.ModsPaired
/-! The paired-end modifier list as a whole. Core Lean only. -/
namespace Cutadapt
open Cutadapt.Adapters Cutadapt.Qualtrim

/-- which paired modifiers the pipeline theorem covers -/
def PMod.OK (s : Bool) : PMod → Prop
  | .wrap m1 m2 => (∀ x ∈ m1, x.OK s ∧ x.isRevcomp = false) ∧ (∀ x ∈ m2, x.OK s ∧ x.isRevcomp = false)
  | .pairedRevcomp c1 c2 _ _ _ => (∀ c ∈ c1, CutterOK s c) ∧ (∀ c ∈ c2, CutterOK s c)
  | .pairAdapters _ _ action _ _ => action = .trim ∨ action = .retain ∨ action = .crop ∨ action = .none
  | .pairedRename _ _ => True

def PMod.isRevcomp : PMod → Bool
  | .pairedRevcomp _ _ _ _ _ => true
  | _ => false

def pairedRevcompStages (mods : List PMod) : Nat := (mods.filter PMod.isRevcomp).length

/-- both mates are (zero-capped, possibly marked) slices of the corresponding input mates -/
def PairRel (s : Bool) (r o : Read × Read) : Prop :=
  (∃ bs, SegRel s bs r.1 o.1) ∧ (∃ bs, SegRel s bs r.2 o.2)

theorem PairRel.trans {s : Bool} {a b c : Read × Read} (h1 : PairRel s a b) (h2 : PairRel s b c) : PairRel s a c := by
  obtain ⟨⟨b1, x1⟩, ⟨b2, x2⟩⟩ := h1
  obtain ⟨⟨c1, y1⟩, ⟨c2, y2⟩⟩ := h2
  exact ⟨⟨_, x1.trans y1⟩, ⟨_, x2.trans y2⟩⟩

theorem PairRel.swap_trans {s : Bool} {a b c : Read × Read} (h1 : PairRel s a b) (h2 : PairRel s (b.2, b.1) c) :
    PairRel s (a.2, a.1) c := by
  obtain ⟨⟨b1, x1⟩, ⟨b2, x2⟩⟩ := h1
  obtain ⟨⟨c1, y1⟩, ⟨c2, y2⟩⟩ := h2
  exact ⟨⟨_, x2.trans y1⟩, ⟨_, x1.trans y2⟩⟩

theorem pairActionRead_sameSeg (action : Action)
    (ha : action = .trim ∨ action = .retain ∨ action = .crop ∨ action = .none) (read o ra : Read) (m : AnyMatch)
    (h : pairActionRead action read m = .ok (o, ra)) : SameSeg read o := by
  unfold pairActionRead at h
  have hl : (action == Action.lowercase) = false := by
    rcases ha with e | e | e | e <;> simp [e, Action.beq_eq_decide]
  simp only [hl, Bool.false_eq_true, if_false] at h
  rcases ha with e | e | e | e <;> subst e <;> simp only at h
  · simp only [Except.ok.injEq, Prod.mk.injEq] at h; rw [← h.1]; exact m.trimmed_sameSeg read
  · simp only [Except.ok.injEq, Prod.mk.injEq] at h; rw [← h.1]; exact SameSeg.sub _ _ _
  · cases m with
    | single _ r => simp only [Except.ok.injEq, Prod.mk.injEq] at h; rw [← h.1]; exact SameSeg.sub _ _ _
    | linked _ _ _ => simp at h
  · simp only [Except.ok.injEq, Prod.mk.injEq] at h; rw [← h.1]; exact SameSeg.refl _

/-- one paired modifier other than the reverse-complementer: mate by mate -/
theorem applyP_pairRel (s : Bool) (ads1 ads2 : List Matchable) (m : PMod) (hok : m.OK s) (hrc : m.isRevcomp = false)
    (r o : Read × Read) (i j : Info × Info) (evs : List Event) (hq1 : QualOK r.1) (hq2 : QualOK r.2)
    (h : applyP ads1 ads2 m r i = .ok (o, j, evs)) : PairRel s r o ∧ j.1.isRc = i.1.isRc := by
  obtain ⟨r1, r2⟩ := r
  obtain ⟨o1, o2⟩ := o
  obtain ⟨i1, i2⟩ := i
  obtain ⟨j1, j2⟩ := j
  cases m with
  | wrap m1 m2 =>
    obtain ⟨a, b, c, _⟩ := applyP_wrap_segRel s ads1 ads2 m1 m2 (fun x hx => (hok.1 x hx).1) (fun x hx => (hok.2 x hx).1)
      (fun x hx => (hok.1 x hx).2) (fun x hx => (hok.2 x hx).2) r1 r2 o1 o2 i1 i2 j1 j2 evs hq1 hq2 h
    exact ⟨⟨⟨_, a⟩, ⟨_, b⟩⟩, c⟩
  | pairedRevcomp _ _ _ _ _ => simp [PMod.isRevcomp] at hrc
  | pairAdapters a1 a2 action f1 f2 =>
    simp only [applyP] at h
    split at h
    · simp only [Except.ok.injEq, Prod.mk.injEq] at h
      obtain ⟨⟨rfl, rfl⟩, ⟨rfl, rfl⟩, _⟩ := h
      exact ⟨⟨⟨[], (SameSeg.refl _).segRel s⟩, ⟨[], (SameSeg.refl _).segRel s⟩⟩, rfl⟩
    · rename_i m1 m2 hbest
      cases h1 : pairActionRead action r1 m1 with
      | error e => rw [h1] at h; simp [bind, Except.bind] at h
      | ok v1 =>
        obtain ⟨x1, ra1⟩ := v1
        cases h2 : pairActionRead action r2 m2 with
        | error e => rw [h1, h2] at h; simp [bind, Except.bind] at h
        | ok v2 =>
          obtain ⟨x2, ra2⟩ := v2
          rw [h1, h2] at h
          simp only [bind, Except.bind, pure, Except.pure, Except.ok.injEq, Prod.mk.injEq] at h
          obtain ⟨⟨rfl, rfl⟩, ⟨rfl, rfl⟩, _⟩ := h
          refine ⟨⟨⟨[], (pairActionRead_sameSeg action hok _ _ _ _ h1).segRel s⟩,
            ⟨[], (pairActionRead_sameSeg action hok _ _ _ _ h2).segRel s⟩⟩, ?_⟩
          simp only
          split <;> rfl
  | pairedRename t1 t2 =>
    simp only [applyP] at h
    split at h
    · simp at h
    · split at h
      · split at h
        · simp at h
        · simp only [Except.ok.injEq, Prod.mk.injEq] at h
          obtain ⟨⟨rfl, rfl⟩, ⟨rfl, rfl⟩, _⟩ := h
          exact ⟨⟨⟨[], SegRel.of_eq rfl rfl⟩, ⟨[], SegRel.of_eq rfl rfl⟩⟩, rfl⟩
      · simp at h
      · simp at h

theorem PairRel.qualOK {s : Bool} {r o : Read × Read} (h : PairRel s r o) (h1 : QualOK r.1) (h2 : QualOK r.2) :
    QualOK o.1 ∧ QualOK o.2 := by
  obtain ⟨⟨_, a⟩, ⟨_, b⟩⟩ := h
  exact ⟨a.qualOK h1, b.qualOK h2⟩

theorem runModsP_norc (s : Bool) (ads1 ads2 : List Matchable) (mods : List PMod) (hok : ∀ m ∈ mods, m.OK s)
    (hrc : ∀ m ∈ mods, m.isRevcomp = false) (r o : Read × Read) (i j : Info × Info) (evs evs' : List Event)
    (hq1 : QualOK r.1) (hq2 : QualOK r.2) (h : runModsP ads1 ads2 mods r i evs = .ok (o, j, evs')) :
    PairRel s r o ∧ j.1.isRc = i.1.isRc := by
  induction mods generalizing r i evs with
  | nil =>
    simp only [runModsP, Except.ok.injEq, Prod.mk.injEq] at h
    obtain ⟨rfl, rfl, _⟩ := h
    exact ⟨⟨⟨[], (SameSeg.refl _).segRel s⟩, ⟨[], (SameSeg.refl _).segRel s⟩⟩, rfl⟩
  | cons m ms ih =>
    simp only [runModsP] at h
    split at h
    · simp at h
    · rename_i r1 i1 e1 h1
      obtain ⟨a1, a2⟩ := applyP_pairRel s ads1 ads2 m (hok m List.mem_cons_self) (hrc m List.mem_cons_self) r r1 i i1 e1 hq1 hq2 h1
      obtain ⟨q1, q2⟩ := a1.qualOK hq1 hq2
      obtain ⟨b1, b2⟩ := ih (fun x hx => hok x (List.mem_cons_of_mem _ hx)) (fun x hx => hrc x (List.mem_cons_of_mem _ hx))
        r1 i1 _ q1 q2 h
      exact ⟨a1.trans b1, b2.trans a2⟩

/-- **The paired modifier list as a whole**: with at most one `PairedReverseComplementer`, the output mates are
    (zero-capped, with `s = false` possibly marked) slices of (R1, R2) — of (R2, R1) iff the pair was flagged as
    swapped — and sequence and qualities of both mates stay equally long -/
theorem runModsP_pairRel (s : Bool) (ads1 ads2 : List Matchable) (mods : List PMod) (hok : ∀ m ∈ mods, m.OK s)
    (hrc : pairedRevcompStages mods ≤ 1) (r o : Read × Read) (i j : Info × Info) (evs evs' : List Event)
    (hq1 : QualOK r.1) (hq2 : QualOK r.2) (hi : i.1.isRc ≠ some true)
    (h : runModsP ads1 ads2 mods r i evs = .ok (o, j, evs')) :
    (QualOK o.1 ∧ QualOK o.2) ∧ (if j.1.isRc = some true then PairRel s (r.2, r.1) o else PairRel s r o) := by
  induction mods generalizing r i evs with
  | nil =>
    simp only [runModsP, Except.ok.injEq, Prod.mk.injEq] at h
    obtain ⟨rfl, rfl, _⟩ := h
    rw [if_neg hi]
    exact ⟨⟨hq1, hq2⟩, ⟨[], (SameSeg.refl _).segRel s⟩, ⟨[], (SameSeg.refl _).segRel s⟩⟩
  | cons m ms ih =>
    simp only [runModsP] at h
    split at h
    · simp at h
    · rename_i r1 i1 e1 h1
      by_cases hm : m.isRevcomp = true
      · have hrc' : ∀ x ∈ ms, x.isRevcomp = false := by
          intro x hx
          by_cases hxr : x.isRevcomp = true
          · have : 0 < (ms.filter PMod.isRevcomp).length := List.length_pos_of_mem (List.mem_filter.mpr ⟨hx, hxr⟩)
            simp only [pairedRevcompStages, List.filter_cons, hm, if_true, List.length_cons] at hrc
            omega
          · simpa using hxr
        cases m with
        | pairedRevcomp c1 c2 sfx f1 f2 =>
          obtain ⟨r1a, r1b⟩ := r1
          obtain ⟨i1a, i1b⟩ := i1
          obtain ⟨ra, rb⟩ := r
          obtain ⟨ia, ib⟩ := i
          have hok' := hok _ List.mem_cons_self
          rcases applyP_pairedRevcomp_segRel s ads1 ads2 c1 c2 sfx f1 f2 hok'.1 hok'.2 ra rb r1a r1b ia ib i1a i1b e1 h1
            with ⟨x1, _, x3, x4⟩ | ⟨x1, _, x3, x4⟩
          · have q1 := x3.qualOK hq2
            have q2 := x4.qualOK hq1
            obtain ⟨b1, b2⟩ := runModsP_norc s ads1 ads2 ms (fun x hx => hok x (List.mem_cons_of_mem _ hx)) hrc'
              (r1a, r1b) o (i1a, i1b) j _ _ q1 q2 h
            simp only at b2 ⊢
            rw [b2, x1, if_pos rfl]
            refine ⟨b1.qualOK q1 q2, ?_⟩
            have hsw : PairRel s (rb, ra) (r1a, r1b) := ⟨⟨[], x3⟩, ⟨[], x4⟩⟩
            exact hsw.trans b1
          · have q1 := x3.qualOK hq1
            have q2 := x4.qualOK hq2
            obtain ⟨b1, b2⟩ := runModsP_norc s ads1 ads2 ms (fun x hx => hok x (List.mem_cons_of_mem _ hx)) hrc'
              (r1a, r1b) o (i1a, i1b) j _ _ q1 q2 h
            simp only at b2 ⊢
            rw [b2, x1, if_neg (by simp)]
            refine ⟨b1.qualOK q1 q2, ?_⟩
            have hst : PairRel s (ra, rb) (r1a, r1b) := ⟨⟨[], x3⟩, ⟨[], x4⟩⟩
            exact hst.trans b1
        | _ => simp [PMod.isRevcomp] at hm
      · have hm' : m.isRevcomp = false := by simpa using hm
        obtain ⟨a1, a2⟩ := applyP_pairRel s ads1 ads2 m (hok m List.mem_cons_self) hm' r r1 i i1 e1 hq1 hq2 h1
        obtain ⟨q1, q2⟩ := a1.qualOK hq1 hq2
        have hrc2 : pairedRevcompStages ms ≤ 1 := by simpa [pairedRevcompStages, List.filter_cons, hm'] using hrc
        obtain ⟨b1, b2⟩ := ih (fun x hx => hok x (List.mem_cons_of_mem _ hx)) hrc2 r1 i1 _ q1 q2 (by rw [a2]; exact hi) h
        refine ⟨b1, ?_⟩
        split
        · rename_i hrc1
          rw [if_pos hrc1] at b2
          exact a1.swap_trans b2
        · rename_i hrc1
          rw [if_neg hrc1] at b2
          exact a1.trans b2

end Cutadapt
