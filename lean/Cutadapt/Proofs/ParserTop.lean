import Cutadapt.Proofs.ParserLinked
/-! `make_adapter`, `file:` specifications and the entry point on rendered specifications (C18). -/
namespace Cutadapt.ParserProofs
open Cutadapt.Parser Cutadapt.Notation

/-! ## dots and characters of a rendered part -/

theorem numlit_dotsafe {l : NumLit} (hl : l.WF) : DotSafe l.render := by
  cases l with
  | int n => exact DotSafe_of_nodot (fun h => (plain_ne (digit_plain (mem_natDigits h))).2.2.2.1 rfl)
  | dec ip frac =>
    have hd : ∀ {s : Str}, (∀ c ∈ s, c ∈ digitChars) → '.' ∉ s := fun hs h => (plain_ne (digit_plain (hs _ h))).2.2.2.1 rfl
    refine DotSafe_append (DotSafe_of_nodot (hd (fun c hc => mem_natDigits hc))) ?_
    cases hfr : fracChars frac with
    | nil =>
      exfalso
      cases frac with
      | nil => exact hl rfl
      | cons d r => simp [fracChars] at hfr
    | cons d r =>
      have hmem : ∀ c ∈ d :: r, c ∈ digitChars := by
        intro c hc; rw [← hfr] at hc; exact mem_fracChars hc
      refine ⟨fun _ => ⟨d, r, rfl, ?_⟩, DotSafe_of_nodot (hd hmem)⟩
      exact (plain_ne (digit_plain (hmem d (by simp)))).2.2.2.1

theorem param_dotsafe {q : Param} (hq : q.WF) : DotSafe (';' :: q.render) := by
  have hn : '.' ∉ q.name.render := fun h => (plain_ne (pname_plain (pname_chars _ _ h))).2.2.2.1 rfl
  refine ⟨fun h => absurd h (by decide), ?_⟩
  unfold Param.render
  refine DotSafe_append (DotSafe_of_nodot hn) ?_
  cases hv : q.value with
  | none => trivial
  | some v =>
    refine ⟨fun h => absurd h (by decide), ?_⟩
    unfold Param.WF at hq
    cases hname : q.name <;> rw [hname] at hq <;> simp only [hv] at hq
    all_goals first
      | (obtain ⟨l, hl1, hl2⟩ := hq; cases hl1; exact numlit_dotsafe hl2)
      | (obtain ⟨n, hn⟩ := hq; cases hn; exact numlit_dotsafe trivial)
      | cases hq

theorem params_dotsafe {ps : List Param} (hps : ∀ q ∈ ps, q.WF) : DotSafe (renderParams ps) := by
  induction ps with
  | nil => trivial
  | cons q qs ih =>
    rw [renderParams_cons]
    have := DotSafe_append (param_dotsafe (hps q (by simp))) (ih (fun x hx => hps x (by simp [hx])))
    simpa using this

theorem part_dotsafe {p : Part} (hp : p.WF) : DotSafe p.render := by
  unfold Part.render
  exact DotSafe_append (DotSafe_of_nodot (fun h => (head_chars hp _ h).2.2.1 rfl)) (params_dotsafe hp.2.2.1)

theorem params_chars (ps : List Param) : ∀ c ∈ renderParams ps, c ≠ ':' ∧ isSpace c = false ∧ c.toNat < 128 := by
  intro c hc
  simp only [renderParams, List.mem_flatMap, List.mem_cons] at hc
  obtain ⟨q, _, hc⟩ := hc
  rcases hc with rfl | hc
  · decide
  · exact (paramChar_ne (param_chars q c hc)).2

theorem part_chars {p : Part} (hp : p.WF) : ∀ c ∈ p.render, c ≠ ':' ∧ isSpace c = false ∧ c.toNat < 128 := by
  intro c hc
  simp only [Part.render, List.mem_append] at hc
  rcases hc with hc | hc
  · exact ⟨(head_chars hp c hc).2.1, (head_chars hp c hc).2.2.2⟩
  · exact params_chars _ c hc

theorem part_ne_nil {p : Part} (hp : p.WF) : p.render ≠ [] := by
  obtain ⟨c, tl, hsq, _⟩ := edge_head hp.2.2.2
  have hc : c ∈ expandRuns p.runs := by simp [hsq]
  obtain ⟨r, hr, _⟩ := mem_expandRuns hc
  intro h
  have : r.c ∈ p.render := by
    simp only [Part.render, Part.renderHead, renderRuns, List.mem_append, List.mem_flatMap]
    exact Or.inl (Or.inl (Or.inr ⟨r, hr, by simp [Run.render]⟩))
  rw [h] at this
  cases this

theorem body_chars {b : Body} (hb : b.WF) : ∀ c ∈ b.render, c ≠ ':' ∧ isSpace c = false ∧ c.toNat < 128 := by
  intro c hc
  cases b with
  | single p => exact part_chars hb c hc
  | linked f bk =>
    simp only [Body.render, List.mem_append] at hc
    rcases hc with (hc | hc) | hc
    · exact part_chars hb.1 c hc
    · simp at hc; subst hc; decide
    · exact part_chars hb.2.1 c hc

/-- **`make_adapter` on a rendered adapter or linked adapter.** -/
theorem makeAdapter_sem {b : Body} (hb : b.WF) {sp : Params} {base : Base} (hsp : SPOK sp base) (o : Opt) (hname : Option Str) :
    toKind (makeAdapter b.render o.atype sp hname) = meaningBody o b base hname := by
  cases b with
  | single p =>
    unfold makeAdapter
    simp only [Body.render, partDots_safe (part_dotsafe hb), Bool.false_eq_true, false_and, if_false]
    rw [makeNotLinked_sem hb hsp]
    rfl
  | linked f bk =>
    unfold makeAdapter
    have : (Body.linked f bk).render = f.render ++ '.' :: '.' :: '.' :: bk.render := by simp [Body.render]
    rw [this, partDots_app _ (part_dotsafe hb.1)]
    simp only [part_ne_nil hb.1, part_ne_nil hb.2.1, ne_eq, not_false_eq_true, and_self, if_true]
    exact makeLinked_sem hb.1 hb.2.1 hb.2.2.1 hb.2.2.2 hsp o hname

/-! ## the entry point -/

theorem spok_globals (g : Globals) (hg : GlobalsOK g) : SPOK g.toParams (Base.ofGlobals g) where
  e := rfl
  o := rfl
  oint := hg
  indels := rfl
  rw := rfl
  aw := rfl
  other := by intro k hk; cases k <;> simp [kwAllowed] at hk <;> rfl

theorem isAscii_of {s : Str} (h : ∀ c ∈ s, c.toNat < 128) : isAscii s = true := by
  unfold isAscii
  rw [List.all_eq_true]
  intro c hc
  simpa using h c hc

theorem not_file {s : Str} (h : ':' ∉ s) :
    (startsWith s (cs!"file:") || startsWith s (cs!"^file:") || startsWith s (cs!"file$:")) = false := by
  rw [startsWith_of_notin (c := ':') (by decide) h, startsWith_of_notin (c := ':') (by decide) h,
    startsWith_of_notin (c := ':') (by decide) h]
  rfl

theorem toKind_map {α β : Type} (r : Except Err α) (f : α → β) :
    toKind (match r with | .error e => .error e | .ok a => .ok (f a)) =
      match toKind r with | .error k => .error k | .ok a => .ok (f a) := by
  cases r <;> rfl

/-- **`parse ∘ render = meaning`, specifications without `file:`.** -/
theorem parse_plain (o : Opt) {b : Body} (hb : b.WF) (g : Globals) (hg : GlobalsOK g) :
    toKind (parse b.render o.atype g []) = meaning (.plain o b) g := by
  have hasc : isAscii b.render = true := isAscii_of (fun c hc => (body_chars hb c hc).2.2)
  have hcolon : ':' ∉ b.render := fun h => (body_chars hb _ h).1 rfl
  unfold parse makeAdapters
  simp only [hasc, List.all_nil, and_self, if_true, not_file hcolon, Bool.false_eq_true, if_false]
  unfold meaning
  simp only
  rw [← makeAdapter_sem hb (spok_globals g hg) o none]
  cases makeAdapter b.render o.atype g.toParams none <;> rfl

/-! ## `file:` specifications -/

def anchorPre : FileAnchor → Str
  | .caret => ['^']
  | _ => []
def anchorSuf : FileAnchor → Str
  | .dollar => ['$']
  | _ => []

theorem anchor_render (a : FileAnchor) {r : Record} (hr : r.WF a) :
    anchorPre a ++ r.body.render ++ anchorSuf a = (r.body.anchor a).render ∧ (r.body.anchor a).WF := by
  obtain ⟨hb, _, hc, hd⟩ := hr
  cases a with
  | none => cases hbody : r.body <;> simp [anchorPre, anchorSuf, Body.anchor, hbody] at hb ⊢ <;> exact hb
  | caret =>
    obtain ⟨hn, hre⟩ := hc rfl
    cases hbody : r.body with
    | single p =>
      rw [hbody] at hb hn hre
      simp only [Body.first] at hn hre
      refine ⟨?_, hb⟩
      simp [anchorPre, anchorSuf, Body.anchor, Body.render, Part.render, Part.renderHead, hn, hre, renderName, Restr.pre, Restr.suf]
    | linked f bk =>
      rw [hbody] at hb hn hre
      simp only [Body.first] at hn hre
      refine ⟨?_, hb⟩
      simp [anchorPre, anchorSuf, Body.anchor, Body.render, Part.render, Part.renderHead, hn, hre, renderName, Restr.pre, Restr.suf]
  | dollar =>
    obtain ⟨hre, hps⟩ := hd rfl
    cases hbody : r.body with
    | single p =>
      rw [hbody] at hb hre hps
      simp only [Body.last] at hre hps
      refine ⟨?_, hb⟩
      simp [anchorPre, anchorSuf, Body.anchor, Body.render, Part.render, Part.renderHead, hre, hps, renderParams, Restr.pre, Restr.suf]
    | linked f bk =>
      rw [hbody] at hb hre hps
      simp only [Body.last] at hre hps
      refine ⟨?_, hb⟩
      simp [anchorPre, anchorSuf, Body.anchor, Body.render, Part.render, Part.renderHead, hre, hps, renderParams, Restr.pre, Restr.suf]

theorem fastaName_eq (h : Str) : fastaName h = headerName h := by
  unfold fastaName headerName lstrip
  cases List.dropWhile isSpace h <;> rfl

theorem mapM_records (o : Opt) (a : FileAnchor) {sp : Params} {base : Base} (hsp : SPOK sp base) (records : List Record)
    (hrs : ∀ r ∈ records, r.WF a) :
    toKind (mapMExcept (fun r : Str × Str => makeAdapter (anchorPre a ++ r.2 ++ anchorSuf a) o.atype sp (fastaName r.1))
      (records.map (fun r => (r.header, r.body.render)))) =
    mapMK (fun r => meaningBody o (r.body.anchor a) base (headerName r.header)) records := by
  induction records with
  | nil => rfl
  | cons r rs ih =>
    have hr := hrs r (by simp)
    obtain ⟨hren, hwf⟩ := anchor_render a hr
    have h1 : toKind (makeAdapter (r.body.anchor a).render o.atype sp (fastaName r.header)) =
        meaningBody o (r.body.anchor a) base (headerName r.header) := by
      rw [fastaName_eq]; exact makeAdapter_sem hwf hsp o (headerName r.header)
    simp only [List.map_cons, mapMExcept, mapMK, hren]
    rw [← h1, ← ih (fun x hx => hrs x (by simp [hx]))]
    cases makeAdapter (r.body.anchor a).render o.atype sp (fastaName r.header) with
    | error e => rfl
    | ok y =>
      simp only [toKind]
      cases mapMExcept (fun r : Str × Str => makeAdapter (anchorPre a ++ r.2 ++ anchorSuf a) o.atype sp (fastaName r.1))
        (rs.map (fun r => (r.header, r.body.render))) <;> rfl

theorem file_parts (a : FileAnchor) (tail : Str) :
    (startsWith (a.render ++ tail) (cs!"file:") || startsWith (a.render ++ tail) (cs!"^file:") ||
      startsWith (a.render ++ tail) (cs!"file$:")) = true ∧
    (if startsWith (a.render ++ tail) (cs!"^") = true then ['^'] else []) = anchorPre a ∧
    (if startsWith (a.render ++ tail) (cs!"^") = true then [] else
      if startsWith (a.render ++ tail) (cs!"file$:") = true then ['$'] else []) = anchorSuf a ∧
    (if startsWith (a.render ++ tail) (cs!"^") = true then (a.render ++ tail).drop 6 else
      if startsWith (a.render ++ tail) (cs!"file$:") = true then (a.render ++ tail).drop 6 else (a.render ++ tail).drop 5) = tail := by
  cases a <;> simp [FileAnchor.render, startsWith, List.isPrefixOf, anchorPre, anchorSuf]

theorem partition_tail {h : Str} (hh : ';' ∉ h) (ps : List Param) :
    (partition1 ';' (h ++ renderParams ps)).2.2 = paramsTail ps := by
  cases ps with
  | nil => simp [renderParams, partition1_notin hh, paramsTail]
  | cons q qs =>
    rw [renderParams_cons, partition1_app _ hh]
    simp [paramsTail, renderParams_cons]

theorem fileParams_get_none {fparams : List Param} (h : ∀ q ∈ fparams, fileParamName q.name) (k : Key)
    (hk : k = .anywhere ∨ k = .required ∨ k = .optional ∨ k = .rightmost) : Params.get (paramDict fparams) k = none := by
  cases hg : Params.get (paramDict fparams) k with
  | none => rfl
  | some v =>
    exfalso
    have : Params.has (paramDict fparams) k = true := by simp [Params.has, hg]
    rw [Params.has_iff_mem_keys, paramDict_keys] at this
    obtain ⟨q, hq, hqk⟩ := List.mem_map.mp this
    have hn := h q hq
    unfold fileParamName at hn
    rcases hn with hn | hn | hn | hn | hn | hn | hn <;> rw [hn] at hqk <;>
      (rcases hk with rfl | rfl | rfl | rfl <;> simp [PName.key] at hqk)

theorem spok_file {g : Globals} (hg : GlobalsOK g) {fparams : List Param} (hwf : ∀ q ∈ fparams, q.WF ∧ fileParamName q.name)
    {P : Params} (hP : ∀ k, Params.get P k = postGet (paramDict fparams) k) :
    SPOK (g.toParams.update P) ((Base.ofGlobals g).override (paramSem fparams)) := by
  obtain ⟨hse, hso, hsi, hsr, hsa, hsrm⟩ := sem_fields fparams
  have hsp := spok_globals g hg
  have hnone := fileParams_get_none (fun q hq => (hwf q hq).2)
  refine ⟨?_, ?_, ?_, ?_, ?_, ?_, ?_⟩
  · rw [Params.get_update, hP, hsp.e, ← hse]
    cases he : (paramSem fparams).e <;> simp [Base.override, he]
  · rw [Params.get_update, hP, hsp.o, ← hso]
    cases ho : (paramSem fparams).o <;> simp [Base.override, ho]
  · show ((paramSem fparams).o.getD (Base.ofGlobals g).o).isFloat = false
    cases ho : (paramSem fparams).o with
    | none => exact hg
    | some v =>
      have : Params.get (paramDict fparams) .minOverlap = some v := by
        have : postGet (paramDict fparams) .minOverlap = some v := by rw [← hso]; exact ho
        exact this
      exact paramDict_o_int (fun q hq => (hwf q hq).1) this
  · rw [Params.get_update, hP, hsp.indels, ← hsi]
    cases hi : (paramSem fparams).indels <;> simp [Base.override, hi]
  · rw [Params.get_update, hP, hsp.rw]
    simp [postGet, paramDict_get_none _ _ (by intro n; cases n <;> simp [PName.key] : ∀ n : PName, n.key ≠ Key.readWildcards),
      Base.override]
  · rw [Params.get_update, hP, hsp.aw]
    simp [postGet, paramDict_get_none _ _ (by intro n; cases n <;> simp [PName.key] : ∀ n : PName, n.key ≠ Key.adapterWildcards),
      Base.override]
  · intro k hk
    rw [Params.get_update, hP, hsp.other k hk]
    have hfa : Params.get (paramDict fparams) .forceAnywhere = none :=
      paramDict_get_none _ _ (by intro n; cases n <;> simp [PName.key])
    cases k <;> simp [kwAllowed] at hk <;>
      simp [postGet, Params.has, hnone .anywhere (Or.inl rfl), hnone .required (Or.inr (Or.inl rfl)),
        hnone .optional (Or.inr (Or.inr (Or.inl rfl))), hnone .rightmost (Or.inr (Or.inr (Or.inr rfl))), hfa]

/-- **`parse ∘ render = meaning`, `file:` specifications.** -/
theorem parse_file (o : Opt) (a : FileAnchor) (path : Str) (fparams : List Param) (records : List Record)
    (hs : (Spec.file o a path fparams records).WF) (g : Globals) (hg : GlobalsOK g) :
    toKind (parse (Spec.file o a path fparams records).render o.atype g (Spec.file o a path fparams records).records) =
      meaning (.file o a path fparams records) g := by
  obtain ⟨hpath, hfp, hrecs⟩ := hs
  have hspec : (Spec.file o a path fparams records).render = a.render ++ (path ++ renderParams fparams) := by
    simp [Spec.render]
  have hasc : isAscii (a.render ++ (path ++ renderParams fparams)) = true := by
    apply isAscii_of
    intro c hc
    simp only [List.mem_append] at hc
    rcases hc with hc | hc | hc
    · cases a <;> simp [FileAnchor.render] at hc <;> (rcases hc with rfl | rfl | rfl | rfl | rfl | rfl <;> decide)
    · exact (hpath c hc).2
    · exact (params_chars _ c hc).2.2
  have hrasc : ((Spec.file o a path fparams records).records.all (fun r => isAscii r.1 && isAscii r.2)) = true := by
    rw [List.all_eq_true]
    intro x hx
    simp only [Spec.records, List.mem_map] at hx
    obtain ⟨r, hr, rfl⟩ := hx
    have hw := hrecs r hr
    simp only [Bool.and_eq_true]
    exact ⟨hw.2.1, isAscii_of (fun c hc => (body_chars hw.1 c hc).2.2)⟩
  unfold parse
  rw [hspec]
  simp only [hasc, hrasc, and_self, if_true]
  unfold makeAdapters
  obtain ⟨f1, f2, f3, f4⟩ := file_parts a (path ++ renderParams fparams)
  simp only [f1, f2, f3, f4, if_true]
  rw [partition_tail (fun h => (hpath _ h).1 rfl), parseParams_tail]
  unfold meaning
  simp only
  by_cases hc : paramsConsistent fparams = true
  · simp only [hc, Bool.not_true, Bool.false_eq_true, if_false]
    rw [consistent_iff] at hc
    obtain ⟨hnd, h1, h2⟩ := hc
    obtain ⟨P, hP, hget⟩ := postParams_ok _ h1 h2
    simp only [hnd, if_true, hP]
    exact mapM_records o a (spok_file hg hfp hget) records hrecs
  · have hc' := hc
    rw [consistent_iff] at hc'
    simp only [hc, Bool.not_false, if_true]
    by_cases hnd : (fparams.map (fun q => q.name.key)).Nodup
    · simp only [hnd, if_true]
      have : ((paramDict fparams).has .optional = true ∧ (paramDict fparams).has .required = true) ∨
          ((paramDict fparams).has .indels = true ∧ (paramDict fparams).has .noindels = true) := by
        by_cases h1 : ((paramDict fparams).has .optional = true ∧ (paramDict fparams).has .required = true)
        · exact Or.inl h1
        · by_cases h2 : ((paramDict fparams).has .indels = true ∧ (paramDict fparams).has .noindels = true)
          · exact Or.inr h2
          · exact absurd ⟨hnd, h1, h2⟩ hc'
      obtain ⟨e, he, hk⟩ := postParams_err _ this
      simp only [he]; exact toKind_cmdline e hk
    · simp only [hnd, if_false]; exact toKind_cmdline _ rfl

/-! ## inversion lemmas used by the property file -/

theorem ite_err_ok {ε α : Type} {c : Prop} [Decidable c] {e : ε} {x : Except ε α} {a : α}
    (h : (if c then Except.error e else x) = .ok a) : x = .ok a := by
  by_cases hc : c
  · rw [if_pos hc] at h; cases h
  · rw [if_neg hc] at h; exact h

theorem ite_ok_cases {ε α : Type} {c : Prop} [Decidable c] {x y : Except ε α} {a : α}
    (h : (if c then x else y) = .ok a) : x = .ok a ∨ y = .ok a := by
  by_cases hc : c
  · rw [if_pos hc] at h; exact Or.inl h
  · rw [if_neg hc] at h; exact Or.inr h

theorem toKind_error_inv {α : Type} {r : Except Err α} (h : toKind r = .error .cmdline) : ∃ e, r = .error e ∧ e.isCmdline = true := by
  cases r with
  | ok a => cases h
  | error e =>
    refine ⟨e, rfl, ?_⟩
    simp only [toKind, kindOf] at h
    cases hk : e.isCmdline with
    | true => rfl
    | false =>
      rw [hk] at h
      simp only [Bool.false_eq_true, if_false] at h
      split at h <;> cases h

/-- what makes a single adapter invalid, besides inconsistent parameters -/
theorem meaningPart_invalid (t : AType) (inL : Bool) (p : Part) (base : Base) (nm : Option Str)
    (h : paramsConsistent p.params = false ∨ classOf t p.restr (paramSem p.params).rightmost = none ∨
      ((paramSem p.params).o.isSome = true ∧ p.restr.anchored = true) ∨ (inL = false ∧ (paramSem p.params).required.isSome = true)) :
    meaningPart t inL p base nm = .error .cmdline := by
  unfold meaningPart
  by_cases hc : paramsConsistent p.params = true
  · simp only [hc, Bool.not_true, Bool.false_eq_true, if_false]
    rcases h with h | h | h | h
    · rw [hc] at h; cases h
    · rw [h]
    · cases classOf t p.restr (paramSem p.params).rightmost with
      | none => rfl
      | some cls => simp [h]
    · cases classOf t p.restr (paramSem p.params).rightmost with
      | none => rfl
      | some cls =>
        simp only
        split
        · rfl
        · simp [h]
  · simp [hc]

theorem buildPart_req {p : Part} {base : Base} {cls : Cls} {nm : Option Str} {fa : Bool} {a : Single} {r : Option Value}
    (h : buildPart p base cls nm fa = .ok (a, r)) : r = (paramSem p.params).required := by
  unfold buildPart at h
  have h2 := ite_err_ok (ite_err_ok h)
  injection h2 with h2
  injection h2 with _ h2
  exact h2.symm

theorem meaningPart_req {t : AType} {inL : Bool} {p : Part} {base : Base} {nm : Option Str} {a : Single} {r : Option Value}
    (h : meaningPart t inL p base nm = .ok (a, r)) : r = (paramSem p.params).required := by
  unfold meaningPart at h
  have h1 := ite_err_ok h
  cases hc : classOf t p.restr (paramSem p.params).rightmost with
  | none => rw [hc] at h1; cases h1
  | some cls =>
    rw [hc] at h1
    exact buildPart_req (ite_err_ok (ite_err_ok h1))

end Cutadapt.ParserProofs
