import Cutadapt.Index
import Cutadapt.Spec.Edit
/-! `edit_environment(t, k)` (model: `Cutadapt.Index.editEnvironment`) for an adapter `t` over ACGT:
    * `editEnvironment_sound`: every yielded `(s, e, m)` has `s` over ACGT, `e ≤ k`, and `e` is the unit-cost edit
      distance between `t` and `s` (`editEnvironment_upper`: the script half alone);
    * `editEnvironment_complete`: every ACGT string within distance `d ≤ k` is yielded with `e = d`
      (for `t = []` only when `k = 0`: `min_cost` ignores column 0, so the walk stops after one letter);
    * `editEnvironment_nodup`: no string is yielded twice.
    Core Lean only. -/
namespace Cutadapt.Index
open Cutadapt Cutadapt.Spec

local notation "ecost" => Spec.cost (fun (a b : Sym) => a == b) 1

theorem getD_eq_getElem' {α : Type} (l : List α) (d : α) {j : Nat} (h : j < l.length) : l.getD j d = l[j] := by
  simp [List.getD_eq_getElem?_getD, h]

/-! ### scripts -/

theorem script_concat (sc : List Op) : sc = [] ∨ ∃ init o, sc = init ++ [o] := by
  induction sc with
  | nil => exact Or.inl rfl
  | cons a l ih =>
    right
    rcases ih with h | ⟨init, o, h⟩
    · exact ⟨[], a, by simp [h]⟩
    · exact ⟨a :: init, o, by simp [h]⟩

/-- the cost of a script is at least the difference of the lengths of its two sides -/
theorem cost_ge (sc : List Op) :
    (lhs sc).length ≤ (rhs sc).length + ecost sc ∧ (rhs sc).length ≤ (lhs sc).length + ecost sc := by
  induction sc with
  | nil => simp
  | cons o l ih =>
    cases o with
    | sub r q => simp only [lhs_cons, rhs_cons, cost_cons, Op.lhs, Op.rhs, Op.cost, List.length_append, List.length_cons, List.length_nil]; omega
    | del r => simp only [lhs_cons, rhs_cons, cost_cons, Op.lhs, Op.rhs, Op.cost, List.length_append, List.length_cons, List.length_nil]; omega
    | ins q => simp only [lhs_cons, rhs_cons, cost_cons, Op.lhs, Op.rhs, Op.cost, List.length_append, List.length_cons, List.length_nil]; omega

theorem del_script (xs : Bytes) : lhs (xs.map Op.del) = xs ∧ rhs (xs.map Op.del) = [] ∧ ecost (xs.map Op.del) = xs.length := by
  induction xs with
  | nil => simp
  | cons x xs ih => simp [ih, Op.lhs, Op.rhs, Op.cost]; omega

theorem ins_script (ys : Bytes) : lhs (ys.map Op.ins) = [] ∧ rhs (ys.map Op.ins) = ys ∧ ecost (ys.map Op.ins) = ys.length := by
  induction ys with
  | nil => simp
  | cons y ys ih => simp [ih, Op.lhs, Op.rhs, Op.cost]; omega

/-! ### the alphabet -/

theorem enc_eq (tj : UInt8) (h : tj ∈ acgt) (cl : UInt8 × UInt8) (hcl : cl ∈ letters) :
    (encT tj == cl.1) = (tj == cl.2) := by
  simp only [acgt, List.mem_cons, List.not_mem_nil, or_false] at h
  simp only [letters, List.mem_cons, List.not_mem_nil, or_false] at hcl
  rcases h with rfl | rfl | rfl | rfl <;> rcases hcl with rfl | rfl | rfl | rfl <;> decide

theorem letters_acgt (cl : UInt8 × UInt8) (hcl : cl ∈ letters) : cl.2 ∈ acgt := by
  simp only [letters, List.mem_cons, List.not_mem_nil, or_false] at hcl
  rcases hcl with rfl | rfl | rfl | rfl <;> decide

/-! ### one row -/

/-- the value the `for j` loop writes to column `j` (or leaves untouched outside the band) -/
def cellAt (k i : Nat) (code : UInt8) (j : Nat) (tj : UInt8) (diag left up : Cell) : Cell :=
  if inBand k i j then stepCell (if encT tj == code then 0 else 1) diag left up else ⟨sentinel k, 0⟩

theorem fillRow_spec (k i : Nat) (code : UInt8) (P : Nat → Cell → Prop) :
    ∀ (ts : List UInt8) (j0 : Nat) (left : Cell) (prevs : List Cell),
      prevs.length = ts.length + 1 → P j0 left →
      (∀ idx, idx < ts.length → ∀ l, P (j0 + idx) l →
        P (j0 + idx + 1) (cellAt k i code (j0 + idx + 1) (ts.getD idx 0) (prevs.getD idx ⟨0, 0⟩) l
          (prevs.getD (idx + 1) ⟨0, 0⟩))) →
      (fillRow k i code (j0 + 1) left ts prevs).length = ts.length ∧
      ∀ idx, idx < ts.length → P (j0 + idx + 1) ((fillRow k i code (j0 + 1) left ts prevs).getD idx ⟨0, 0⟩) := by
  intro ts
  induction ts with
  | nil => intro j0 left prevs _ _ _; simp [fillRow]
  | cons tj ts ih =>
    intro j0 left prevs hlen hP hstep
    match prevs, hlen with
    | diag :: up :: rest, hlen =>
      have h0 := hstep 0 (by simp) left hP
      simp only [List.getD_cons_zero, List.getD_cons_succ, Nat.add_zero, Nat.zero_add] at h0
      have hlen' : (up :: rest).length = ts.length + 1 := by simpa using hlen
      have ih' := ih (j0 + 1) _ (up :: rest) hlen' h0 (by
        intro idx hidx l hl
        have := hstep (idx + 1) (by simp; omega) l (by rw [← Nat.add_assoc, Nat.add_right_comm]; exact hl)
        simp only [List.getD_cons_succ] at this
        rw [← Nat.add_assoc, Nat.add_right_comm j0 idx 1] at this
        exact this)
      have e : fillRow k i code (j0 + 1) left (tj :: ts) (diag :: up :: rest) =
          cellAt k i code (j0 + 1) tj diag left up ::
            fillRow k i code (j0 + 1 + 1) (cellAt k i code (j0 + 1) tj diag left up) ts (up :: rest) := rfl
      rw [e]
      refine ⟨by simp [ih'.1], ?_⟩
      intro idx hidx
      cases idx with
      | zero => simpa using h0
      | succ idx =>
        have := ih'.2 idx (by simpa using hidx)
        simp only [List.getD_cons_succ]
        rw [← Nat.add_assoc, Nat.add_right_comm j0 idx 1]
        exact this

/-- a predicate holds for every cell of a row -/
def RowInv (P : Nat → Cell → Prop) (n : Nat) (row : List Cell) : Prop :=
  row.length = n + 1 ∧ ∀ j, j ≤ n → P j (row.getD j ⟨0, 0⟩)

theorem nextRow_inv (k i : Nat) (code : UInt8) (t : Bytes) (prev : List Cell) (P : Nat → Cell → Prop)
    (hprev : prev.length = t.length + 1) (h0 : P 0 ⟨i, 0⟩)
    (hstep : ∀ j, j < t.length → ∀ l, P j l →
      P (j + 1) (cellAt k i code (j + 1) (t.getD j 0) (prev.getD j ⟨0, 0⟩) l (prev.getD (j + 1) ⟨0, 0⟩))) :
    RowInv P t.length (nextRow k i code t prev) := by
  have h := fillRow_spec k i code P t 0 ⟨i, 0⟩ prev hprev h0 (by simpa using hstep)
  unfold nextRow
  refine ⟨by simp [h.1], ?_⟩
  intro j hj
  cases j with
  | zero => simpa using h0
  | succ j =>
    have := h.2 j (by omega)
    simpa [editEnvironment] using this

theorem row0_getD (n j : Nat) (hj : j ≤ n) : (row0 n).getD j ⟨0, 0⟩ = ⟨j, 0⟩ := by
  unfold row0
  rw [getD_eq_getElem' _ _ (by simp; omega)]
  simp

theorem stepCell_cost_le (mm : Nat) (d l u : Cell) :
    (stepCell mm d l u).cost ≤ d.cost + mm ∧ (stepCell mm d l u).cost ≤ l.cost + 1 ∧
    (stepCell mm d l u).cost ≤ u.cost + 1 := by
  unfold stepCell
  simp only
  split
  · simp only; omega
  · split <;> simp only <;> omega

theorem stepCell_cases (mm : Nat) (d l u : Cell) :
    (stepCell mm d l u).cost = d.cost + mm ∨ (stepCell mm d l u).cost = l.cost + 1 ∨
    (stepCell mm d l u).cost = u.cost + 1 := by
  unfold stepCell
  simp only
  split
  · simp
  · split <;> simp

/-! ### upper bound: finite cell values are costs of scripts -/

def UpCell (t : Bytes) (k : Nat) (s : Bytes) (j : Nat) (c : Cell) : Prop :=
  c.cost < sentinel k → ∃ sc, lhs sc = t.take j ∧ rhs sc = s ∧ ecost sc = c.cost

theorem take_succ_getD (t : Bytes) (j : Nat) (hj : j < t.length) : t.take (j + 1) = t.take j ++ [t.getD j 0] := by
  rw [List.take_succ_eq_append_getElem hj, getD_eq_getElem' _ _ hj]

theorem up_step (t : Bytes) (k : Nat) (s : Bytes) (cl : UInt8 × UInt8) (i j : Nat) (ht : ∀ c ∈ t, c ∈ acgt)
    (hcl : cl ∈ letters) (hj : j < t.length) (diag left up : Cell)
    (hd : UpCell t k s j diag) (hu : UpCell t k s (j + 1) up) (hl : UpCell t k (s ++ [cl.2]) j left) :
    UpCell t k (s ++ [cl.2]) (j + 1) (cellAt k i cl.1 (j + 1) (t.getD j 0) diag left up) := by
  have htj : t.getD j 0 ∈ acgt := by
    rw [getD_eq_getElem' _ _ hj]; exact ht _ (List.getElem_mem hj)
  unfold cellAt
  by_cases hb : inBand k i (j + 1) = true
  · rw [if_pos hb, enc_eq _ htj cl hcl]
    intro hlt
    rcases stepCell_cases (if (t.getD j 0 == cl.2) = true then 0 else 1) diag left up with hc | hc | hc
    · rw [hc] at hlt ⊢
      obtain ⟨sc, h1, h2, h3⟩ := hd (by omega)
      refine ⟨sc ++ [Op.sub (t.getD j 0) cl.2], ?_, ?_, ?_⟩
      · simp [h1, Op.lhs, take_succ_getD t j hj]
      · simp [h2, Op.rhs]
      · simp only [cost_append, h3, cost_single, Op.cost]
    · rw [hc] at hlt ⊢
      obtain ⟨sc, h1, h2, h3⟩ := hl (by omega)
      refine ⟨sc ++ [Op.del (t.getD j 0)], ?_, ?_, ?_⟩
      · simp [h1, Op.lhs, take_succ_getD t j hj]
      · simp [h2, Op.rhs]
      · simp only [cost_append, h3, cost_single, Op.cost]
    · rw [hc] at hlt ⊢
      obtain ⟨sc, h1, h2, h3⟩ := hu (by omega)
      refine ⟨sc ++ [Op.ins cl.2], ?_, ?_, ?_⟩
      · simp [h1, Op.lhs]
      · simp [h2, Op.rhs]
      · simp only [cost_append, h3, cost_single, Op.cost]
  · rw [if_neg hb]
    intro hlt
    simp at hlt

theorem up_row0 (t : Bytes) (k : Nat) : RowInv (UpCell t k []) t.length (row0 t.length) := by
  refine ⟨by simp [row0], ?_⟩
  intro j hj _
  rw [row0_getD _ _ hj]
  obtain ⟨h1, h2, h3⟩ := del_script (t.take j)
  exact ⟨_, h1, h2, by rw [h3]; simp; omega⟩

theorem up_nextRow (t : Bytes) (k : Nat) (ht : ∀ c ∈ t, c ∈ acgt) (s : Bytes) (row : List Cell) (cl : UInt8 × UInt8)
    (hcl : cl ∈ letters) (h : RowInv (UpCell t k s) t.length row) :
    RowInv (UpCell t k (s ++ [cl.2])) t.length (nextRow k (s.length + 1) cl.1 t row) := by
  apply nextRow_inv _ _ _ _ _ _ h.1
  · intro _
    obtain ⟨h1, h2, h3⟩ := ins_script (s ++ [cl.2])
    exact ⟨_, by rw [h1]; simp, h2, by rw [h3]; simp⟩
  · intro j hj l hl
    exact up_step t k s cl _ j ht hcl hj _ _ _ (h.2 j (by omega)) (h.2 (j + 1) (by omega)) hl

/-! ### lower bound: no script within `k` is cheaper than the cell (Ukkonen's band) -/

def LowCell (t : Bytes) (k : Nat) (s : Bytes) (j : Nat) (c : Cell) : Prop :=
  ∀ sc, lhs sc = t.take j → rhs sc = s → ecost sc ≤ k → c.cost ≤ ecost sc

theorem low_step (t : Bytes) (k : Nat) (s : Bytes) (cl : UInt8 × UInt8) (j : Nat) (ht : ∀ c ∈ t, c ∈ acgt)
    (hcl : cl ∈ letters) (hj : j < t.length) (diag left up : Cell)
    (hd : LowCell t k s j diag) (hu : LowCell t k s (j + 1) up) (hl : LowCell t k (s ++ [cl.2]) j left) :
    LowCell t k (s ++ [cl.2]) (j + 1) (cellAt k (s.length + 1) cl.1 (j + 1) (t.getD j 0) diag left up) := by
  have htj : t.getD j 0 ∈ acgt := by
    rw [getD_eq_getElem' _ _ hj]; exact ht _ (List.getElem_mem hj)
  intro sc h1 h2 h3
  have hb : inBand k (s.length + 1) (j + 1) = true := by
    have := cost_ge sc
    rw [h1, h2] at this
    simp only [List.length_take, List.length_append, List.length_cons, List.length_nil] at this
    simp only [inBand, Bool.and_eq_true, decide_eq_true_eq]
    omega
  unfold cellAt
  rw [if_pos hb, enc_eq _ htj cl hcl]
  have hst := stepCell_cost_le (if (t.getD j 0 == cl.2) = true then 0 else 1) diag left up
  rw [take_succ_getD t j hj] at h1
  rcases script_concat sc with rfl | ⟨init, o, rfl⟩
  · simp at h1
  · simp only [lhs_append, rhs_append, cost_append, cost_single, lhs_cons, rhs_cons, lhs_nil, rhs_nil,
      List.append_nil] at h1 h2 h3 ⊢
    cases o with
    | sub r q =>
      simp only [Op.lhs, Op.rhs, Op.cost] at h1 h2 h3 ⊢
      obtain ⟨a1, a2⟩ := List.append_inj' h1 rfl
      obtain ⟨b1, b2⟩ := List.append_inj' h2 rfl
      simp only [List.cons.injEq, and_true] at a2 b2
      subst a2 b2
      have := hd init a1 b1 (by omega)
      omega
    | del r =>
      simp only [Op.lhs, Op.rhs, Op.cost, List.append_nil] at h1 h2 h3 ⊢
      obtain ⟨a1, a2⟩ := List.append_inj' h1 rfl
      have := hl init a1 h2 (by omega)
      omega
    | ins q =>
      simp only [Op.lhs, Op.rhs, Op.cost, List.append_nil] at h1 h2 h3 ⊢
      obtain ⟨b1, b2⟩ := List.append_inj' h2 rfl
      have := hu init (by rw [h1, take_succ_getD t j hj]) b1 (by omega)
      omega

theorem low_row0 (t : Bytes) (k : Nat) : RowInv (LowCell t k []) t.length (row0 t.length) := by
  refine ⟨by simp [row0], ?_⟩
  intro j hj sc h1 h2 _
  rw [row0_getD _ _ hj]
  have := cost_ge sc
  rw [h1, h2] at this
  simp only [List.length_take, List.length_nil] at this
  simp only
  omega

theorem low_nextRow (t : Bytes) (k : Nat) (ht : ∀ c ∈ t, c ∈ acgt) (s : Bytes) (row : List Cell) (cl : UInt8 × UInt8)
    (hcl : cl ∈ letters) (h : RowInv (LowCell t k s) t.length row) :
    RowInv (LowCell t k (s ++ [cl.2])) t.length (nextRow k (s.length + 1) cl.1 t row) := by
  apply nextRow_inv _ _ _ _ _ _ h.1
  · intro sc h1 h2 _
    have := cost_ge sc
    rw [h1, h2] at this
    simp only [List.length_take, List.length_append, List.length_cons, List.length_nil] at this
    simp only
    omega
  · intro j hj l hl
    exact low_step t k s cl j ht hcl hj _ _ _ (h.2 j (by omega)) (h.2 (j + 1) (by omega)) hl

/-! ### the walk -/

theorem envNode_ind (t : Bytes) (k : Nat) (R : Bytes → List Cell → Prop)
    (hnext : ∀ s row cl, cl ∈ letters → R s row → R (s ++ [cl.2]) (nextRow k (s.length + 1) cl.1 t row)) :
    ∀ fuel i sRev row minCost, i = sRev.length → R sRev.reverse row →
      ∀ x ∈ envNode t k fuel i sRev row minCost,
        ∃ s' row', R s' row' ∧ (row'.getD t.length ⟨0, 0⟩).cost ≤ k ∧
          x = (s', (row'.getD t.length ⟨0, 0⟩).cost, (row'.getD t.length ⟨0, 0⟩).nmatch) := by
  have hhere : ∀ (sRev : Bytes) (row : List Cell), R sRev.reverse row →
      ∀ x ∈ (if (row.getD t.length ⟨0, 0⟩).cost ≤ k then
          [(sRev.reverse, (row.getD t.length ⟨0, 0⟩).cost, (row.getD t.length ⟨0, 0⟩).nmatch)] else []),
        ∃ s' row', R s' row' ∧ (row'.getD t.length ⟨0, 0⟩).cost ≤ k ∧
          x = (s', (row'.getD t.length ⟨0, 0⟩).cost, (row'.getD t.length ⟨0, 0⟩).nmatch) := by
    intro sRev row hR x hx
    split at hx
    · rename_i hle
      simp only [List.mem_singleton] at hx
      exact ⟨_, row, hR, hle, hx⟩
    · simp at hx
  intro fuel
  induction fuel with
  | zero =>
    intro i sRev row minCost _ hR x hx
    rw [envNode] at hx
    exact hhere sRev row hR x hx
  | succ fuel ih =>
    intro i sRev row minCost hi hR x hx
    rw [envNode] at hx
    simp only at hx
    split at hx
    · rw [List.mem_append] at hx
      rcases hx with hx | hx
      · exact hhere sRev row hR x hx
      · rw [List.mem_flatMap] at hx
        obtain ⟨cl, hcl, hx⟩ := hx
        have hR' := hnext _ _ cl hcl hR
        rw [List.length_reverse, ← hi] at hR'
        exact ih (i + 1) (cl.2 :: sRev) _ _ (by simp [hi]) (by simpa using hR') x hx
    · exact hhere sRev row hR x hx

theorem editEnvironment_upper (t : Bytes) (k : Nat) (ht : ∀ c ∈ t, c ∈ acgt) (s : Bytes) (e m : Nat)
    (h : (s, e, m) ∈ editEnvironment t k) :
    (∀ c ∈ s, c ∈ acgt) ∧ e ≤ k ∧ ∃ sc, Spec.lhs sc = t ∧ Spec.rhs sc = s ∧ Spec.cost (· == ·) 1 sc = e := by
  have hk : k < sentinel k := by unfold sentinel; omega
  obtain ⟨s', row', ⟨hs, hrow⟩, hle, hx⟩ := envNode_ind t k
    (fun s row => (∀ c ∈ s, c ∈ acgt) ∧ RowInv (UpCell t k s) t.length row)
    (by
      intro s row cl hcl ⟨h1, h2⟩
      refine ⟨?_, up_nextRow t k ht s row cl hcl h2⟩
      intro c hc
      rw [List.mem_append, List.mem_singleton] at hc
      rcases hc with hc | rfl
      · exact h1 c hc
      · exact letters_acgt cl hcl)
    (t.length + k) 0 [] (row0 t.length) 0 rfl ⟨by simp, up_row0 t k⟩ _ h
  simp only [Prod.mk.injEq] at hx
  obtain ⟨rfl, rfl, rfl⟩ := hx
  refine ⟨hs, hle, ?_⟩
  obtain ⟨sc, h1, h2, h3⟩ := hrow.2 t.length (Nat.le_refl _) (by omega)
  exact ⟨sc, by simpa using h1, h2, h3⟩

theorem editEnvironment_sound (t : Bytes) (k : Nat) (ht : ∀ c ∈ t, c ∈ acgt) (s : Bytes) (e m : Nat)
    (h : (s, e, m) ∈ editEnvironment t k) :
    (∀ c ∈ s, c ∈ acgt) ∧ e ≤ k ∧ Spec.IsDist (· == ·) 1 t s e := by
  obtain ⟨hs, hle, hex⟩ := editEnvironment_upper t k ht s e m h
  refine ⟨hs, hle, hex, ?_⟩
  obtain ⟨s', row', hrow, _, hx⟩ := envNode_ind t k
    (fun s row => RowInv (LowCell t k s) t.length row)
    (fun s row cl hcl h2 => low_nextRow t k ht s row cl hcl h2)
    (t.length + k) 0 [] (row0 t.length) 0 rfl (low_row0 t k) _ h
  simp only [Prod.mk.injEq] at hx
  obtain ⟨rfl, rfl, rfl⟩ := hx
  intro sc h1 h2
  by_cases hc : Spec.cost (· == ·) 1 sc ≤ k
  · exact hrow.2 t.length (Nat.le_refl _) sc (by simpa using h1) h2 hc
  · omega

/-! ### no string is yielded twice -/

theorem envNode_prefix (t : Bytes) (k : Nat) : ∀ fuel i sRev row minCost,
    ∀ x ∈ envNode t k fuel i sRev row minCost, sRev.reverse <+: x.1 := by
  have hhere : ∀ (sRev : Bytes) (row : List Cell),
      ∀ x ∈ (if (row.getD t.length ⟨0, 0⟩).cost ≤ k then
          [(sRev.reverse, (row.getD t.length ⟨0, 0⟩).cost, (row.getD t.length ⟨0, 0⟩).nmatch)] else []),
        sRev.reverse <+: x.1 := by
    intro sRev row x hx
    split at hx
    · simp only [List.mem_singleton] at hx
      rw [hx]; exact List.prefix_refl _
    · simp at hx
  intro fuel
  induction fuel with
  | zero =>
    intro i sRev row minCost x hx
    rw [envNode] at hx
    exact hhere sRev row x hx
  | succ fuel ih =>
    intro i sRev row minCost x hx
    rw [envNode] at hx
    simp only at hx
    split at hx
    · rw [List.mem_append] at hx
      rcases hx with hx | hx
      · exact hhere sRev row x hx
      · rw [List.mem_flatMap] at hx
        obtain ⟨cl, _, hx⟩ := hx
        have := ih _ _ _ _ x hx
        rw [List.reverse_cons] at this
        exact List.IsPrefix.trans (List.prefix_append _ _) this
    · exact hhere sRev row x hx

theorem envNode_pairwise (t : Bytes) (k : Nat) : ∀ fuel i sRev row minCost,
    (envNode t k fuel i sRev row minCost).Pairwise (fun x y => x.1 ≠ y.1) := by
  have hhere : ∀ (sRev : Bytes) (row : List Cell),
      (if (row.getD t.length ⟨0, 0⟩).cost ≤ k then
          [(sRev.reverse, (row.getD t.length ⟨0, 0⟩).cost, (row.getD t.length ⟨0, 0⟩).nmatch)] else []).Pairwise
        (fun x y => x.1 ≠ y.1) := by
    intro sRev row
    split <;> simp
  intro fuel
  induction fuel with
  | zero =>
    intro i sRev row minCost
    rw [envNode]
    exact hhere sRev row
  | succ fuel ih =>
    intro i sRev row minCost
    rw [envNode]
    simp only
    split
    · rw [List.pairwise_append]
      refine ⟨hhere sRev row, ?_, ?_⟩
      · rw [List.pairwise_flatMap]
        refine ⟨fun cl _ => ih _ _ _ _, ?_⟩
        have hl : letters.Pairwise (fun a b => a.2 ≠ b.2) := by decide
        refine hl.imp ?_
        intro a b hab x hx y hy hxy
        have h1 := envNode_prefix t k _ _ _ _ _ x hx
        have h2 := envNode_prefix t k _ _ _ _ _ y hy
        rw [List.reverse_cons] at h1 h2
        obtain ⟨r1, h1⟩ := h1
        obtain ⟨r2, h2⟩ := h2
        rw [hxy, ← h2, List.append_assoc, List.append_assoc] at h1
        have := List.append_cancel_left h1
        simp only [List.cons_append, List.nil_append, List.cons.injEq] at this
        exact hab this.1
      · intro x hx y hy hxy
        split at hx
        · simp only [List.mem_singleton] at hx
          rw [List.mem_flatMap] at hy
          obtain ⟨cl, _, hy⟩ := hy
          have h2 := envNode_prefix t k _ _ _ _ _ y hy
          rw [List.reverse_cons] at h2
          have := h2.length_le
          rw [← hxy, hx] at this
          simp only [List.length_append, List.length_reverse, List.length_cons, List.length_nil] at this
          omega
        · simp at hx
    · exact hhere sRev row

theorem editEnvironment_nodup (t : Bytes) (k : Nat) : ((editEnvironment t k).map (·.1)).Nodup := by
  unfold List.Nodup
  rw [List.pairwise_map]
  exact envNode_pairwise t k _ _ _ _ _

/-! ### completeness -/

theorem rhs_split (sc : List Op) : ∀ (p q : Bytes), rhs sc = p ++ q →
    ∃ sc1 sc2, sc = sc1 ++ sc2 ∧ rhs sc1 = p ∧ rhs sc2 = q := by
  induction sc with
  | nil =>
    intro p q h
    simp only [rhs_nil] at h
    have := List.append_eq_nil_iff.mp h.symm
    exact ⟨[], [], rfl, by simp [this.1], by simp [this.2]⟩
  | cons o l ih =>
    intro p q h
    cases p with
    | nil => exact ⟨[], o :: l, rfl, rfl, by simpa using h⟩
    | cons y p =>
      cases o with
      | del r =>
        simp only [rhs_cons, Op.rhs, List.nil_append] at h
        obtain ⟨sc1, sc2, e, h1, h2⟩ := ih _ _ h
        exact ⟨Op.del r :: sc1, sc2, by simp [e], by simp [Op.rhs, h1], h2⟩
      | sub r x =>
        simp only [rhs_cons, Op.rhs, List.cons_append, List.nil_append, List.cons.injEq] at h
        obtain ⟨sc1, sc2, e, h1, h2⟩ := ih _ _ h.2
        exact ⟨Op.sub r x :: sc1, sc2, by simp [e], by simp [Op.rhs, h1, h.1], h2⟩
      | ins x =>
        simp only [rhs_cons, Op.rhs, List.cons_append, List.nil_append, List.cons.injEq] at h
        obtain ⟨sc1, sc2, e, h1, h2⟩ := ih _ _ h.2
        exact ⟨Op.ins x :: sc1, sc2, by simp [e], by simp [Op.rhs, h1, h.1], h2⟩

theorem rowMinFrom_le (k i : Nat) : ∀ (cs : List Cell) (j m : Nat),
    rowMinFrom k i j cs m ≤ m ∧
    ∀ idx, idx < cs.length → inBand k i (j + idx) = true → rowMinFrom k i j cs m ≤ (cs.getD idx ⟨0, 0⟩).cost := by
  intro cs
  induction cs with
  | nil => intro j m; simp [rowMinFrom]
  | cons c cs ih =>
    intro j m
    rw [rowMinFrom]
    have ih' := ih (j + 1) (if inBand k i j then min m c.cost else m)
    have hm' : (if inBand k i j then min m c.cost else m) ≤ m := by split <;> omega
    refine ⟨?_, ?_⟩
    · have := ih'.1
      omega
    · intro idx hidx hb
      cases idx with
      | zero =>
        have := ih'.1
        simp only [Nat.add_zero] at hb
        have hm2 : (if inBand k i j then min m c.cost else m) ≤ c.cost := by rw [if_pos hb]; omega
        simp only [List.getD_cons_zero]
        omega
      | succ idx =>
        simp only [List.getD_cons_succ]
        exact ih'.2 idx (by simpa using hidx) (by rw [Nat.add_right_comm, Nat.add_assoc]; exact hb)

theorem rowMin_le (k i : Nat) (row : List Cell) (j : Nat) (h1 : 1 ≤ j) (hj : j < row.length)
    (hb : inBand k i j = true) : rowMin k i row ≤ (row.getD j ⟨0, 0⟩).cost := by
  unfold rowMin
  cases row with
  | nil => simp at hj
  | cons c cs =>
    obtain ⟨j, rfl⟩ : ∃ j', j = j' + 1 := ⟨j - 1, by omega⟩
    simp only [List.tail_cons, List.getD_cons_succ]
    exact (rowMinFrom_le k i cs 1 _).2 j (by simpa using hj) (by rw [Nat.add_comm]; exact hb)

/-- if some extension of `p` is within `k` of `t`, the walk does not prune below `p` -/
theorem prune (t : Bytes) (k : Nat) (hne : t ≠ [] ∨ k = 0) (p : Bytes) (row : List Cell) (hp : 1 ≤ p.length)
    (hlow : RowInv (LowCell t k p) t.length row) (ext : Bytes) (sc : List Op)
    (h1 : lhs sc = t) (h2 : rhs sc = p ++ ext) (h3 : ecost sc ≤ k) : rowMin k p.length row ≤ k := by
  obtain ⟨sc1, sc2, rfl, r1, r2⟩ := rhs_split sc p ext h2
  simp only [lhs_append, cost_append] at h1 h3
  have hlen : (lhs sc1).length ≤ t.length := by rw [← h1]; simp
  have htake : lhs sc1 = t.take (lhs sc1).length := by rw [← h1]; simp
  have hge := cost_ge sc1
  rw [r1] at hge
  by_cases hj : 1 ≤ (lhs sc1).length
  · have hc := hlow.2 _ hlen sc1 htake r1 (by omega)
    have hb : inBand k p.length (lhs sc1).length = true := by
      simp only [inBand, Bool.and_eq_true, decide_eq_true_eq]; omega
    have := rowMin_le k p.length row _ hj (by rw [hlow.1]; omega) hb
    omega
  · have hk : 1 ≤ k := by omega
    have htne : t ≠ [] := by
      rcases hne with h | h
      · exact h
      · omega
    cases t with
    | nil => exact absurd rfl htne
    | cons t0 t' =>
      cases p with
      | nil => simp at hp
      | cons p0 p' =>
        obtain ⟨i1, i2, i3⟩ := ins_script p'
        have hc := hlow.2 1 (by simp) (Op.sub t0 p0 :: p'.map Op.ins) (by simp [Op.lhs, i1]) (by simp [Op.rhs, i2])
          (by
            simp only [cost_cons, Op.cost, i3]
            simp only [List.length_cons] at hge
            split <;> omega)
        have hb : inBand k (p0 :: p').length 1 = true := by
          simp only [inBand, Bool.and_eq_true, decide_eq_true_eq, List.length_cons] at hge ⊢; omega
        have := rowMin_le k (p0 :: p').length row 1 (Nat.le_refl _) (by rw [hlow.1]; simp) hb
        have hc2 : ecost (Op.sub t0 p0 :: p'.map Op.ins) ≤ k := by
          simp only [cost_cons, Op.cost, i3]
          simp only [List.length_cons] at hge
          split <;> omega
        omega

theorem here_sub (t : Bytes) (k : Nat) (fuel i : Nat) (sRev : Bytes) (row : List Cell) (minCost : Nat)
    (x : Bytes × Nat × Nat)
    (hx : x ∈ (if (row.getD t.length ⟨0, 0⟩).cost ≤ k then
          [(sRev.reverse, (row.getD t.length ⟨0, 0⟩).cost, (row.getD t.length ⟨0, 0⟩).nmatch)] else [])) :
    x ∈ envNode t k fuel i sRev row minCost := by
  cases fuel with
  | zero => rw [envNode]; exact hx
  | succ fuel =>
    rw [envNode]
    simp only
    split
    · exact List.mem_append_left _ hx
    · exact hx

theorem envNode_complete (t : Bytes) (k : Nat) (ht : ∀ c ∈ t, c ∈ acgt) (hne : t ≠ [] ∨ k = 0) :
    ∀ (ext : Bytes) (fuel i : Nat) (sRev : Bytes) (row : List Cell) (minCost : Nat),
      i = sRev.length → fuel + i = t.length + k →
      RowInv (UpCell t k sRev.reverse) t.length row → RowInv (LowCell t k sRev.reverse) t.length row →
      (i = 0 → minCost ≤ k) → (1 ≤ i → minCost = rowMin k i row) →
      (∀ c ∈ ext, c ∈ acgt) → ∀ d, Spec.IsDist (· == ·) 1 t (sRev.reverse ++ ext) d → d ≤ k →
      ∃ m, (sRev.reverse ++ ext, d, m) ∈ envNode t k fuel i sRev row minCost := by
  have hk : k < sentinel k := by unfold sentinel; omega
  intro ext
  induction ext with
  | nil =>
    intro fuel i sRev row minCost hi hfuel hup hlow _ _ _ d hd hdk
    obtain ⟨⟨sc, s1, s2, s3⟩, hmin⟩ := hd
    simp only [List.append_nil] at s2 hmin ⊢
    have e1 := hlow.2 t.length (Nat.le_refl _) sc (by simpa using s1) s2 (by omega)
    obtain ⟨sc', u1, u2, u3⟩ := hup.2 t.length (Nat.le_refl _) (by omega)
    have e2 := hmin sc' (by simpa using u1) u2
    have he : (row.getD t.length ⟨0, 0⟩).cost = d := by omega
    refine ⟨(row.getD t.length ⟨0, 0⟩).nmatch, here_sub t k fuel i sRev row minCost _ ?_⟩
    rw [if_pos (by omega), he]
    simp
  | cons c ext ih =>
    intro fuel i sRev row minCost hi hfuel hup hlow hmc0 hmc1 hext d hd hdk
    obtain ⟨sc, s1, s2, s3⟩ := hd.1
    have hge := cost_ge sc
    rw [s1, s2] at hge
    simp only [List.length_append, List.length_reverse, List.length_cons] at hge
    obtain ⟨fuel, rfl⟩ : ∃ f, fuel = f + 1 := ⟨fuel - 1, by omega⟩
    have hmc : minCost ≤ k := by
      by_cases h0 : i = 0
      · exact hmc0 h0
      · rw [hmc1 (by omega), hi, ← List.length_reverse]
        exact prune t k hne sRev.reverse row (by simp; omega) hlow (c :: ext) sc s1 s2 (by omega)
    have hc : c ∈ acgt := hext c (by simp)
    obtain ⟨cl, hcl, rfl⟩ : ∃ cl, cl ∈ letters ∧ cl.2 = c := by
      simp only [acgt, List.mem_cons, List.not_mem_nil, or_false] at hc
      rcases hc with rfl | rfl | rfl | rfl
      · exact ⟨(0, 65), by decide, rfl⟩
      · exact ⟨(1, 67), by decide, rfl⟩
      · exact ⟨(2, 71), by decide, rfl⟩
      · exact ⟨(3, 84), by decide, rfl⟩
    have hup' := up_nextRow t k ht _ row cl hcl hup
    have hlow' := low_nextRow t k ht _ row cl hcl hlow
    rw [List.length_reverse, ← hi] at hup' hlow'
    have hrev : (cl.2 :: sRev).reverse = sRev.reverse ++ [cl.2] := by simp
    obtain ⟨m, hm⟩ := ih fuel (i + 1) (cl.2 :: sRev) _ (rowMin k (i + 1) (nextRow k (i + 1) cl.1 t row))
      (by simp [hi]) (by omega) (by rw [hrev]; exact hup') (by rw [hrev]; exact hlow') (by omega) (fun _ => rfl)
      (fun c hc => hext c (by simp [hc])) d (by rw [hrev, List.append_assoc]; exact hd) hdk
    refine ⟨m, ?_⟩
    rw [envNode]
    simp only
    rw [if_pos hmc]
    apply List.mem_append_right
    rw [List.mem_flatMap]
    refine ⟨cl, hcl, ?_⟩
    rw [hrev, List.append_assoc] at hm
    exact hm

theorem editEnvironment_complete (t : Bytes) (k : Nat) (ht : ∀ c ∈ t, c ∈ acgt) (hne : t ≠ [] ∨ k = 0) (s : Bytes)
    (d : Nat) (hs : ∀ c ∈ s, c ∈ acgt) (hd : Spec.IsDist (· == ·) 1 t s d) (hk : d ≤ k) :
    ∃ m, (s, d, m) ∈ editEnvironment t k := by
  have := envNode_complete t k ht hne s (t.length + k) 0 [] (row0 t.length) 0 rfl rfl (up_row0 t k) (low_row0 t k)
    (fun _ => Nat.zero_le _) (fun h => absurd h (by omega)) hs d (by simpa using hd) hk
  simpa [editEnvironment] using this

/-! ### concrete instances -/

example : (editEnvironment [65, 67] 1).length = 19 := by decide
example : editEnvironment [65] 0 = [([65], 0, 1)] := by decide
example : editEnvironment [65, 67] 1 =
    [([65], 1, 1), ([65, 65], 1, 1), ([65, 65, 67], 1, 2), ([65, 67], 0, 2), ([65, 67, 65], 1, 2), ([65, 67, 67], 1, 2),
     ([65, 67, 71], 1, 2), ([65, 67, 84], 1, 2), ([65, 71], 1, 1), ([65, 71, 67], 1, 2), ([65, 84], 1, 1),
     ([65, 84, 67], 1, 2), ([67], 1, 1), ([67, 65, 67], 1, 2), ([67, 67], 1, 1), ([71, 65, 67], 1, 2), ([71, 67], 1, 1),
     ([84, 65, 67], 1, 2), ([84, 67], 1, 1)] := by decide
example : (editEnvironment [65, 67, 71] 1).length = 26 := by decide
example : (editEnvironment [65, 67, 71] 2).length = 258 := by decide +kernel
example : ([65, 71], 1, 2) ∈ editEnvironment [65, 67, 71] 1 := by decide
/-- "AG" is at edit distance exactly 1 from "ACG" -/
example : Spec.IsDist (· == ·) 1 [65, 67, 71] [65, 71] 1 :=
  (editEnvironment_sound [65, 67, 71] 1 (by decide) [65, 71] 1 2 (by decide)).2.2
/-- conversely every ACGT string at distance 1 from "ACG" is listed with that distance -/
example (s : Bytes) (hs : ∀ c ∈ s, c ∈ acgt) (hd : Spec.IsDist (· == ·) 1 [65, 67, 71] s 1) :
    ∃ m, (s, 1, m) ∈ editEnvironment [65, 67, 71] 1 :=
  editEnvironment_complete [65, 67, 71] 1 (by decide) (Or.inl (by decide)) s 1 hs hd (Nat.le_refl _)
/-- the quirk behind `hne`: for the empty adapter only strings of length ≤ 1 are listed, whatever `k` -/
example : (editEnvironment [] 2).map (·.1) = [[], [65], [67], [71], [84]] := by decide


end Cutadapt.Index
