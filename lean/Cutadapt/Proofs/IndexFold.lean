import Cutadapt.Index
/-! `_make_index` as a fold: what the dictionary holds for a key after any number of adapters. -/
namespace Cutadapt.Index
open Cutadapt Cutadapt.Adapters

theorem list_snoc_induction {α : Type} {motive : List α → Prop} (nil : motive [])
    (append_singleton : ∀ (l : List α) (a : α), motive l → motive (l ++ [a])) : ∀ l, motive l := by
  intro l
  rw [← List.reverse_reverse l]
  induction l.reverse with
  | nil => exact nil
  | cons a t ih => rw [List.reverse_cons]; exact append_singleton _ _ ih

/-- one execution of the inner loop body: adapter `ai` offers `(key, e, m)` -/
structure Ev where
  ai : Nat
  key : Bytes
  e : Nat
  m : Nat
deriving Repr, DecidableEq

/-- what happens to *one* key when an event for that key is processed: the entry and the "marked ambiguous" flag.
    A tie with the current entry sets the mark, a strictly better offer clears it. -/
def keyStep (st : Option Entry × Bool) (ev : Ev) : Option Entry × Bool :=
  match st.1 with
  | none => (some (ev.ai, ev.e, ev.m), st.2)
  | some (_, _, om) =>
    if ev.m < om then st
    else if om == ev.m then (some (ev.ai, ev.e, ev.m), true)
    else (some (ev.ai, ev.e, ev.m), false)

/-- state of one key after the events `l` (all for that key), in order -/
def keyState (l : List Ev) : Option Entry × Bool := l.foldl keyStep (none, false)

def adapterEvents (aia : Adapter × Nat) : List Ev :=
  (adapterItems aia.1).map (fun it => ⟨aia.2, it.1, it.2.1, it.2.2⟩)

/-- all loop-body executions of `_make_index`, in order -/
def events (adapters : List Adapter) : List Ev := adapters.zipIdx.flatMap adapterEvents

def forKey (s : Bytes) (l : List Ev) : List Ev := l.filter (fun ev => ev.key == s)

theorem keyState_append_one (l : List Ev) (ev : Ev) : keyState (l ++ [ev]) = keyStep (keyState l) ev := by
  simp [keyState, List.foldl_append]

theorem forKey_append (s : Bytes) (l l' : List Ev) : forKey s (l ++ l') = forKey s l ++ forKey s l' := by
  simp [forKey]

theorem forKey_single_eq (ev : Ev) : forKey ev.key [ev] = [ev] := by simp [forKey]
theorem forKey_single_ne (s : Bytes) (ev : Ev) (h : ev.key ≠ s) : forKey s [ev] = [] := by
  simp [forKey, h]

/-- the invariant of the loops of `_make_index` -/
def Inv {D : Type} (ops : DictOps D) (evs : List Ev) (st : Build D) : Prop :=
  ∀ s, ops.get? st.index s = (keyState (forKey s evs)).1 ∧
       (ops.get? st.ambSet s).isSome = (keyState (forKey s evs)).2 ∧
       (s ∈ st.ambKeys ↔ (keyState (forKey s evs)).2 = true)

theorem inv_init {D : Type} (ops : DictOps D) (hl : ops.Lawful) : Inv ops [] ⟨ops.empty, [], ops.empty, []⟩ := by
  intro s
  simp [forKey, keyState, hl.get?_empty]

theorem inv_lengths {D : Type} (ops : DictOps D) (evs : List Ev) (st : Build D) (ls : List Nat)
    (h : Inv ops evs st) : Inv ops evs { st with lengths := ls } := h

theorem mem_filter_ne (l : List Bytes) (key s : Bytes) : s ∈ l.filter (· != key) ↔ s ∈ l ∧ s ≠ key := by
  simp [List.mem_filter]

theorem inv_addEntry {D : Type} (ops : DictOps D) (hl : ops.Lawful) (evs : List Ev) (st : Build D)
    (ai : Nat) (addLen : Bool) (it : Bytes × Nat × Nat) (h : Inv ops evs st) :
    Inv ops (evs ++ [⟨ai, it.1, it.2.1, it.2.2⟩]) (addEntry ops ai addLen st it) := by
  obtain ⟨key, e, m⟩ := it
  intro s
  obtain ⟨h1, h2, h3⟩ := h s
  rw [forKey_append]
  by_cases hk : key = s
  · subst hk
    have hs : forKey key [(⟨ai, key, e, m⟩ : Ev)] = [⟨ai, key, e, m⟩] := forKey_single_eq ⟨ai, key, e, m⟩
    rw [hs, keyState_append_one]
    generalize keyState (forKey key evs) = ks at h1 h2 h3
    obtain ⟨cur, amb⟩ := ks
    simp only at h1 h2 h3
    simp only [addEntry]
    cases cur with
    | none =>
      simp only [h1, keyStep]
      refine ⟨by simp [hl.get?_insert], h2, h3⟩
    | some c =>
      obtain ⟨oa, oe, om⟩ := c
      simp only [h1, keyStep]
      by_cases hlt : m < om
      · simp only [hlt, if_true]
        exact ⟨h1, h2, h3⟩
      · simp only [hlt, if_false]
        by_cases htie : (om == m) = true
        · cases hamb : (ops.get? st.ambSet key).isNone with
          | true =>
            simp only [htie, Bool.true_and, if_true]
            refine ⟨by simp [hl.get?_insert], ?_, ?_⟩
            · simp [hl.get?_insert]
            · simp
          | false =>
            have hambT : amb = true := by
              rw [← h2]; cases hg : ops.get? st.ambSet key <;> simp_all
            have hnlt : ¬ om < m := by
              have : om = m := by simpa using htie
              omega
            simp only [htie, Bool.and_false, Bool.false_eq_true, if_false, hnlt]
            refine ⟨by simp [hl.get?_insert], ?_, ?_⟩
            · rw [h2, hambT]; simp
            · rw [h3, hambT]; simp
        · have htie' : (om == m) = false := by simpa using htie
          have hgt : om < m := by
            have : om ≠ m := by simpa using htie
            omega
          simp only [htie', Bool.false_and, Bool.false_eq_true, if_false, hgt, if_true]
          refine ⟨by simp [hl.get?_insert], by simp [hl.get?_erase], ?_⟩
          simp
  · have hs : forKey s [(⟨ai, key, e, m⟩ : Ev)] = [] := forKey_single_ne s ⟨ai, key, e, m⟩ hk
    rw [hs, List.append_nil]
    have hne : ∀ (d : D) (v : Entry), ops.get? (ops.insert d key v) s = ops.get? d s := by
      intro d v; rw [hl.get?_insert]; simp [hk]
    have hne' : ∀ (d : D), ops.get? (ops.erase d key) s = ops.get? d s := by
      intro d; rw [hl.get?_erase]; simp [hk]
    have hsk : ¬ s = key := fun h => hk h.symm
    have hmem : ∀ l : List Bytes, s ∈ key :: l ↔ s ∈ l := by
      intro l; simp [hsk]
    have hmemf : ∀ l : List Bytes, s ∈ l.filter (· != key) ↔ s ∈ l := by
      intro l; rw [mem_filter_ne]; simp [hsk]
    simp only [addEntry]
    split
    · split
      · exact ⟨h1, h2, h3⟩
      · split
        · refine ⟨by simp [hne, h1], by simp [hne, h2], ?_⟩
          simp only [hmem]; exact h3
        · split
          · refine ⟨by simp [hne, h1], by simp [hne', h2], ?_⟩
            simp only [hmemf]; exact h3
          · exact ⟨by simp [hne, h1], h2, h3⟩
    · exact ⟨by simp [hne, h1], h2, h3⟩

theorem inv_foldl_items {D : Type} (ops : DictOps D) (hl : ops.Lawful) (ai : Nat) (addLen : Bool)
    (items : List (Bytes × Nat × Nat)) : ∀ (evs : List Ev) (st : Build D), Inv ops evs st →
    Inv ops (evs ++ items.map (fun it => ⟨ai, it.1, it.2.1, it.2.2⟩)) (items.foldl (addEntry ops ai addLen) st) := by
  induction items with
  | nil => intro evs st h; simpa using h
  | cons it rest ih =>
    intro evs st h
    have := ih _ _ (inv_addEntry ops hl evs st ai addLen it h)
    simpa [List.append_assoc] using this

theorem inv_addAdapter {D : Type} (ops : DictOps D) (hl : ops.Lawful) (evs : List Ev) (st : Build D)
    (aia : Adapter × Nat) (h : Inv ops evs st) : Inv ops (evs ++ adapterEvents aia) (addAdapter ops st aia) := by
  obtain ⟨a, ai⟩ := aia
  have := inv_foldl_items ops hl ai a.indels (adapterItems a) evs st h
  simp only [addAdapter, adapterEvents]
  split
  · exact this
  · exact inv_lengths ops _ _ _ this

theorem inv_foldl_adapters {D : Type} (ops : DictOps D) (hl : ops.Lawful) (l : List (Adapter × Nat)) :
    ∀ (evs : List Ev) (st : Build D), Inv ops evs st →
    Inv ops (evs ++ l.flatMap adapterEvents) (l.foldl (addAdapter ops) st) := by
  induction l with
  | nil => intro evs st h; simpa using h
  | cons aia rest ih =>
    intro evs st h
    have := ih _ _ (inv_addAdapter ops hl evs st aia h)
    simpa [List.append_assoc] using this

theorem inv_buildAll {D : Type} (ops : DictOps D) (hl : ops.Lawful) (adapters : List Adapter) :
    Inv ops (events adapters) (buildAll ops adapters) := by
  have := inv_foldl_adapters ops hl adapters.zipIdx [] _ (inv_init ops hl)
  simpa [events, buildAll] using this

theorem get?_eraseAll {D : Type} (ops : DictOps D) (hl : ops.Lawful) (keys : List Bytes) :
    ∀ (d : D) (s : Bytes), ops.get? (keys.foldl ops.erase d) s = if s ∈ keys then none else ops.get? d s := by
  induction keys with
  | nil => intro d s; simp
  | cons k rest ih =>
    intro d s
    simp only [List.foldl_cons, ih, hl.get?_erase, List.mem_cons]
    by_cases h1 : s ∈ rest
    · simp [h1]
    · by_cases h2 : k = s
      · subst h2; simp
      · have : ¬ s = k := fun h => h2 h.symm
        simp [h1, h2, this]

/-- **The dictionary after `_make_index`**, key by key: before the final deletion the entry of `s` and its ambiguity
    mark are the per-key state after the events for `s`; the final index drops exactly the marked keys. -/
theorem makeIndex_get? {D : Type} (ops : DictOps D) (hl : ops.Lawful) (adapters : List Adapter) (isPrefix : Bool) (s : Bytes) :
    ops.get? (buildAll ops adapters).index s = (keyState (forKey s (events adapters))).1 ∧
    (s ∈ (buildAll ops adapters).ambKeys ↔ (keyState (forKey s (events adapters))).2 = true) ∧
    ops.get? (makeIndex ops adapters isPrefix).index s =
      (if (keyState (forKey s (events adapters))).2 then none else (keyState (forKey s (events adapters))).1) := by
  obtain ⟨h1, _, h3⟩ := inv_buildAll ops hl adapters s
  refine ⟨h1, h3, ?_⟩
  simp only [makeIndex, get?_eraseAll ops hl, List.mem_reverse, h1]
  by_cases hb : (keyState (forKey s (events adapters))).2 = true
  · simp [hb, h3.mpr hb]
  · have : s ∉ (buildAll ops adapters).ambKeys := fun hm => hb (h3.mp hm)
    simp [hb, this]

/-! ### What the per-key state means -/

theorem keyState_nil : keyState [] = (none, false) := rfl

/-- number of offers with exactly `m` matches -/
def cntM (l : List Ev) (m : Nat) : Nat := (l.filter (fun ev => ev.m == m)).length

theorem cntM_append (l l' : List Ev) (m : Nat) : cntM (l ++ l') m = cntM l m + cntM l' m := by
  simp [cntM]

theorem cntM_single (ev : Ev) (m : Nat) : cntM [ev] m = if ev.m = m then 1 else 0 := by
  by_cases h : ev.m = m <;> simp [cntM, h]

theorem cntM_zero_of_lt (l : List Ev) (m : Nat) (h : ∀ ev ∈ l, ev.m < m) : cntM l m = 0 := by
  simp only [cntM, List.length_eq_zero_iff, List.filter_eq_nil_iff]
  intro ev hev
  have := h ev hev
  simp; omega

theorem cntM_pos_of_mem (l : List Ev) (ev : Ev) (h : ev ∈ l) : 1 ≤ cntM l ev.m := by
  simp only [cntM]
  have : ev ∈ l.filter (fun x => x.m == ev.m) := List.mem_filter.mpr ⟨h, by simp⟩
  exact List.length_pos_of_mem this

theorem keyState_none_iff (l : List Ev) : (keyState l).1 = none ↔ l = [] := by
  induction l using list_snoc_induction with
  | nil => simp [keyState]
  | append_singleton l ev _ =>
    rw [keyState_append_one]
    simp only [keyStep]
    constructor
    · intro h
      split at h
      · simp at h
      · split at h
        · rename_i h0 _; simp [h0] at h
        · split at h <;> simp at h
    · intro h; simp at h

/-- the entry is one of the offers seen … -/
theorem keyState_mem (l : List Ev) (ai e m : Nat) (h : (keyState l).1 = some (ai, e, m)) :
    ∃ ev ∈ l, ev.ai = ai ∧ ev.e = e ∧ ev.m = m := by
  induction l using list_snoc_induction with
  | nil => simp [keyState] at h
  | append_singleton l ev ih =>
    rw [keyState_append_one] at h
    simp only [keyStep] at h
    have new : some (ev.ai, ev.e, ev.m) = some (ai, e, m) → ∃ ev' ∈ l ++ [ev], ev'.ai = ai ∧ ev'.e = e ∧ ev'.m = m := by
      intro h
      simp only [Option.some.injEq, Prod.mk.injEq] at h
      exact ⟨ev, by simp, h.1, h.2.1, h.2.2⟩
    split at h
    · exact new h
    · split at h
      · obtain ⟨ev', hm, h'⟩ := ih h
        exact ⟨ev', by simp [hm], h'⟩
      · split at h <;> exact new h

/-- … and no offer seen had more matches -/
theorem keyState_max (l : List Ev) (ai e m : Nat) (h : (keyState l).1 = some (ai, e, m)) :
    ∀ ev ∈ l, ev.m ≤ m := by
  induction l using list_snoc_induction generalizing ai e m with
  | nil => simp
  | append_singleton l ev ih =>
    rw [keyState_append_one] at h
    simp only [keyStep] at h
    intro ev' hev'
    simp only [List.mem_append, List.mem_singleton] at hev'
    split at h
    · rename_i h0
      have : l = [] := (keyState_none_iff l).mp h0
      subst this
      simp only [Option.some.injEq, Prod.mk.injEq] at h
      rcases hev' with hev' | hev'
      · simp at hev'
      · subst hev'; omega
    · rename_i oa oe om h0
      split at h
      · rename_i hlt
        rw [h0] at h
        simp only [Option.some.injEq, Prod.mk.injEq] at h
        rcases hev' with hev' | hev'
        · have := ih oa oe om h0 ev' hev'; omega
        · subst hev'; omega
      · rename_i hlt
        have hm : ev.m = m := by
          split at h <;> (simp only [Option.some.injEq, Prod.mk.injEq] at h; exact h.2.2)
        rcases hev' with hev' | hev'
        · have := ih oa oe om h0 ev' hev'; omega
        · subst hev'; omega

theorem keyState_flag_of_none (l : List Ev) (h : (keyState l).1 = none) : (keyState l).2 = false := by
  have := (keyState_none_iff l).mp h
  subst this; rfl

/-- **the mark, declaratively**: a key is marked exactly when the largest number of matches among its offers was
    offered at least twice (a strictly better offer clears the mark of a tie between worse ones) -/
theorem keyState_amb_iff (l : List Ev) (ai e m : Nat) (h : (keyState l).1 = some (ai, e, m)) :
    (keyState l).2 = true ↔ 2 ≤ cntM l m := by
  induction l using list_snoc_induction generalizing ai e m with
  | nil => simp [keyState] at h
  | append_singleton l ev ih =>
    rw [keyState_append_one] at h ⊢
    rw [cntM_append, cntM_single]
    simp only [keyStep] at h ⊢
    split at h
    · rename_i h0
      have hl : l = [] := (keyState_none_iff l).mp h0
      simp only [Option.some.injEq, Prod.mk.injEq] at h
      subst hl
      simp [keyState, cntM, h.2.2]
    · rename_i oa oe om h0
      have ihm := ih oa oe om h0
      have hmax := keyState_max l oa oe om h0
      obtain ⟨ev0, hev0, _, _, hm0⟩ := keyState_mem l oa oe om h0
      have hpos : 1 ≤ cntM l om := by rw [← hm0]; exact cntM_pos_of_mem l ev0 hev0
      split at h
      · rename_i hlt
        rw [h0] at h
        simp only [Option.some.injEq, Prod.mk.injEq] at h
        obtain ⟨_, _, rfl⟩ := h
        simp only [hlt, if_true]
        have : ¬ ev.m = om := by omega
        simp only [this, if_false, Nat.add_zero]
        exact ihm
      · rename_i hlt
        simp only [hlt, if_false]
        split at h
        · rename_i htie
          have hom : om = ev.m := by simpa using htie
          simp only [Option.some.injEq, Prod.mk.injEq] at h
          obtain ⟨_, _, rfl⟩ := h
          simp only [htie, if_true]
          subst hom
          simp; omega
        · rename_i htie
          have hom : om ≠ ev.m := by simpa using htie
          simp only [Option.some.injEq, Prod.mk.injEq] at h
          obtain ⟨_, _, rfl⟩ := h
          have htie' : (om == ev.m) = false := by simpa using hom
          simp only [htie', Bool.false_eq_true, if_false]
          have hz : cntM l ev.m = 0 := cntM_zero_of_lt l ev.m (fun ev' hev' => by have := hmax ev' hev'; omega)
          simp [hz]

/-- a key whose best offer is unique is not marked -/
theorem keyState_flag_false_of_unique (l : List Ev) (ai e m : Nat) (h : (keyState l).1 = some (ai, e, m))
    (hu : cntM l m = 1) : (keyState l).2 = false := by
  cases hb : (keyState l).2 with
  | false => rfl
  | true => have := (keyState_amb_iff l ai e m h).mp hb; omega

end Cutadapt.Index
